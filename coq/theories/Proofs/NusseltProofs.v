(** * The Nusselt-analogue model ([Model/Nusselt.v]): what exact arithmetic carries.

    1. translation of both patches (and of the evaluation point) by a common vector changes nothing
       (commutative ring: every quantity is built from coordinate differences);
    2. uniform scaling by [s > 0] changes nothing (ordered field with square roots: the projection
       onto the unit hemisphere normalises, the grid counts are rounded ratios of side lengths);
    3. the sample grid of a 4-vertex patch: [npointsx * npointsz] points, the cell centres
       [el[0] + (2i+1)/(2 npointsx) u + (2j+1)/(2 npointsz) v], hence inside the parallelogram;
    4. the assembly with the Nusselt branch computed by the model is an instance of
       [Stokes.patch2patch_ff]: exact zeros for invisible pairs, reciprocity of the i<j rule.

    NOT proved (and not provable from the laws used here): that the value approximates the
    form-factor integral, 0 <= F <= 1, reciprocity of the two-sided kernel, invariance under
    rotations (the frame of [_rotation_matrix] and its exact-equality special cases). *)
From Coq Require Import List Arith Bool Ring Field Lia.
Import ListNotations.
From SV Require Import Base.Ops Base.OpsGeom Base.Arr Base.Sums Model.Vec3 Model.Exchange Model.Scene
  Model.PtSolution Model.Visibility Model.Stokes Model.Nusselt
  Proofs.FieldFacts Proofs.OrderField Proofs.ExchangeRefine Proofs.SceneRefine Proofs.StokesSum
  Proofs.StokesAssembly Proofs.VisibilitySegment Proofs.StokesSimilarity Proofs.PtSimilarity.

(** ** list helpers *)
Section ListFacts.
  Lemma map_flat_map {A B C} (f : B -> C) (g : A -> list B) (l : list A) :
    map f (flat_map g l) = flat_map (fun x => map f (g x)) l.
  Proof. induction l as [|a l IH]; simpl; [reflexivity|]. now rewrite map_app, IH. Qed.

  Lemma flat_map_ext_in' {A B} (f g : A -> list B) (l : list A) :
    (forall a, In a l -> f a = g a) -> flat_map f l = flat_map g l.
  Proof.
    induction l as [|a l IH]; intros H; simpl; [reflexivity|].
    rewrite (H a) by now left. rewrite IH; [reflexivity|]. intros; apply H; now right.
  Qed.

  Lemma fold_left_ext_in {A B} (f g : A -> B -> A) (l : list B) (a : A) :
    (forall x y, In y l -> f x y = g x y) -> fold_left f l a = fold_left g l a.
  Proof.
    revert a. induction l as [|b l IH]; intros a H; simpl; [reflexivity|].
    rewrite (H a b) by now left. apply IH. intros; apply H; now right.
  Qed.

  Lemma flat_map_map_length {A B C} (g : A -> B -> C) (l1 : list A) (l2 : list B) :
    length (flat_map (fun i => map (g i) l2) l1) = length l1 * length l2.
  Proof. induction l1 as [|a l1 IH]; simpl; [reflexivity|]. now rewrite app_length, map_length, IH. Qed.

  Lemma flat_map_singleton {A B} (g : A -> B) (l : list A) : flat_map (fun j => [g j]) l = map g l.
  Proof. induction l as [|a l IH]; simpl; [reflexivity|]. now rewrite IH. Qed.
End ListFacts.

(** * 1. translation *)
Section NusTranslate.
  Context {T : Type} {O : Ops T} {RL : RingLaws T}.
  Add Ring TRingNusT : (@ring_th T O RL).
  Local Notation vec := (@vec T).

  Lemma bpoint_tr_gen nd t (el : list vec) k : nd <> 0 -> k < length el * nd ->
    bpoint nd (map (vtr t) el) k = vtr t (bpoint nd el k).
  Proof.
    intros Hnd Hk. unfold bpoint. rewrite map_length.
    assert (Hn : length el <> 0) by lia.
    assert (Hi : k / nd < length el) by (apply Nat.div_lt_upper_bound; lia).
    assert (Hi' : (k / nd + 1) mod length el < length el) by now apply Nat.mod_upper_bound.
    rewrite !nthv_map_tr by assumption. rewrite vsub_tr. apply vadd_tr_comm.
  Qed.
  Lemma sample_pts3_tr t (el : list vec) : sample_pts 3 (map (vtr t) el) = map (vtr t) (sample_pts 3 el).
  Proof.
    unfold sample_pts, tab. rewrite map_length, map_map. apply map_ext_in.
    intros k Hk. apply in_seq in Hk. change (3 - 1) with 2 in *. apply bpoint_tr_gen; lia.
  Qed.

  Lemma hand_of_tr t (pts : list vec) pn : 3 <= length pts -> hand_of (map (vtr t) pts) pn = hand_of pts pn.
  Proof.
    intros H. unfold hand_of. rewrite !nthv_map_tr by lia. now rewrite !vsub_tr.
  Qed.

  Lemma on_sphere_tr t (o : vec) pts : on_sphere (vtr t o) (map (vtr t) pts) = on_sphere o pts.
  Proof. exact (on_sphere_translate t o pts). Qed.

  (** [nusselt_analog]: evaluation point and receiver patch translated together *)
  Theorem nusselt_analog_translate thr_seg thr_dot thr_lag (t o n : vec) pts pn :
    3 <= length pts ->
    nusselt_analog thr_seg thr_dot thr_lag (vtr t o) n (map (vtr t) pts) pn =
    nusselt_analog thr_seg thr_dot thr_lag o n pts pn.
  Proof.
    intros H. unfold nusselt_analog.
    now rewrite (hand_of_tr t pts pn H), sample_pts3_tr, on_sphere_tr, map_length.
  Qed.

  (** the sample grid moves with the patch *)
  Lemma grid_u_tr t (el : list vec) : 2 <= length el -> grid_u (map (vtr t) el) = grid_u el.
  Proof. intros H. unfold grid_u. rewrite !nthv_map_tr by lia. apply vsub_tr. Qed.
  Lemma grid_v_tr t (el : list vec) : 2 <= length el -> grid_v (map (vtr t) el) = grid_v el.
  Proof. intros H. unfold grid_v. rewrite map_length, !nthv_map_tr by lia. apply vsub_tr. Qed.

  Lemma grid_pts_tr t tri nx nz (u v o : vec) :
    grid_pts tri nx nz u v (vtr t o) = map (vtr t) (grid_pts tri nx nz u v o).
  Proof.
    unfold grid_pts. cbv zeta. rewrite map_flat_map. apply flat_map_ext_in'. intros i _.
    rewrite map_flat_map. apply flat_map_ext_in'. intros j _.
    destruct (tri && negb _); [reflexivity|]. cbn [map]. f_equal.
    unfold vtr. generalize (vadd (vscale (grid_coord nx i) u) (vscale (grid_coord nz j) v)). intros w.
    destruct w as [[w1 w2] w3], o as [[o1 o2] o3], t as [[t1 t2] t3].
    unfold vadd, mkv, vx, vy, vz. simpl. f_equal; [f_equal|]; ring.
  Qed.

  Lemma surf_grid_tr t (el : list vec) np : 2 <= length el ->
    surf_grid (map (vtr t) el) np = map (vtr t) (surf_grid el np).
  Proof.
    intros H. unfold surf_grid, grid_nx, grid_nz, grid_a.
    rewrite (grid_u_tr t el H), (grid_v_tr t el H), map_length, nthv_map_tr by lia.
    apply grid_pts_tr.
  Qed.

  (** [nusselt_integration]: both patches translated *)
  Theorem nusselt_integration_translate thr_seg thr_dot thr_lag (t : vec) pi pj ni nj ns :
    2 <= length pi -> 3 <= length pj ->
    nusselt_integration thr_seg thr_dot thr_lag (map (vtr t) pi) (map (vtr t) pj) ni nj ns =
    nusselt_integration thr_seg thr_dot thr_lag pi pj ni nj ns.
  Proof.
    intros Hi Hj. unfold nusselt_integration. cbv zeta.
    rewrite (surf_grid_tr t pi ns Hi), map_length, fold_left_map_in. f_equal.
    apply fold_left_ext_all. intros acc p. now rewrite nusselt_analog_translate.
  Qed.

  Theorem nusselt_ff_translate thr_seg thr_dot thr_lag (t : vec) src src_n rcv rcv_n :
    2 <= length src -> 3 <= length rcv ->
    nusselt_ff thr_seg thr_dot thr_lag (map (vtr t) src) src_n (map (vtr t) rcv) rcv_n =
    nusselt_ff thr_seg thr_dot thr_lag src src_n rcv rcv_n.
  Proof. intros Hs Hr. unfold nusselt_ff. now apply nusselt_integration_translate. Qed.
End NusTranslate.

(** * facts about the embedding [tnat] of the naturals (ordered ring) *)
Section TnatFacts.
  Context {T : Type} {O : Ops T} {RL : RingLaws T} {OL : OrderLaws T}.
  Add Ring TRingNusN : (@ring_th T O RL).

  Lemma tnat_nonneg n : (0 <= @tnat T O n)%T.
  Proof.
    induction n as [|n IH]; cbn [tnat]; [apply tle_refl|].
    apply tadd_nonneg; [exact IH|apply tzero_le_one].
  Qed.
  Lemma tnat_pos n : 0 < n -> (0 < @tnat T O n)%T.
  Proof.
    destruct n as [|n]; [lia|]. intros _. cbn [tnat].
    apply (tlt_le_trans _ 1%T); [apply tone_pos|].
    replace 1%T with (0 + 1)%T at 1 by ring. apply tadd_le_mono, tnat_nonneg.
  Qed.
  Lemma tnat_neq0 n : 0 < n -> (tnat n : T) <> 0%T.
  Proof. intros H. apply tpos_neq, tnat_pos, H. Qed.
  Lemma tnat_add n m : (tnat (n + m) : T) = (tnat n + tnat m)%T.
  Proof. induction n as [|n IH]; cbn [tnat Nat.add]; [ring|]. rewrite IH. ring. Qed.
  Lemma tnat_mul2 n : (tnat (n * 2) : T) = (c2 * tnat n)%T.
  Proof. replace (n * 2) with (n + n) by lia. rewrite tnat_add. unfold c2. ring. Qed.
  Lemma tnat_lt n m : n < m -> (@tnat T O n < tnat m)%T.
  Proof.
    intros H. replace m with (n + (m - n)) by lia. rewrite tnat_add.
    replace (@tnat T O n) with (@tnat T O n + 0)%T at 1 by ring. apply tadd_lt_mono_l, tnat_pos. lia.
  Qed.

  (** [np.sign] ignores a positive factor *)
  Lemma tltb_0_scale (k x : T) : (0 < k)%T -> tltb 0%T (k * x)%T = tltb 0%T x.
  Proof.
    intros Hk. destruct (tltb 0%T x) eqn:E.
    - exact (tmul_pos k x Hk E).
    - destruct (tltb 0%T (k * x)%T) eqn:E2; [|reflexivity]. exfalso.
      assert (Hx : (x <= 0)%T).
      { destruct (tle_dec x 0%T) as [L|L]; [exact L|]. unfold tlt in L. congruence. }
      assert (Hkx : (k * x <= 0)%T).
      { replace 0%T with (k * 0)%T by ring. apply tmul_le_mono_nonneg_l; [now apply tlt_le|exact Hx]. }
      exact (tle_not_lt _ _ Hkx E2).
  Qed.
  Lemma tltb_scale_0 (k x : T) : (0 < k)%T -> tltb (k * x)%T 0%T = tltb x 0%T.
  Proof.
    intros Hk. destruct (tltb x 0%T) eqn:E.
    - pose proof (tmul_lt_mono_pos_r x 0%T k Hk E) as H.
      replace (x * k)%T with (k * x)%T in H by ring. replace (0 * k)%T with 0%T in H by ring. exact H.
    - destruct (tltb (k * x)%T 0%T) eqn:E2; [|reflexivity]. exfalso.
      assert (Hx : (0 <= x)%T).
      { destruct (tle_dec 0%T x) as [L|L]; [exact L|]. unfold tlt in L. congruence. }
      assert (Hkx : (0 <= k * x)%T) by (apply tmul_nonneg; [now apply tlt_le|exact Hx]).
      exact (tle_not_lt _ _ Hkx E2).
  Qed.
  Lemma tsign_scale (k x : T) : (0 < k)%T -> tsign (k * x)%T = tsign x.
  Proof. intros Hk. unfold tsign. now rewrite (tltb_0_scale k x Hk), (tltb_scale_0 k x Hk). Qed.
End TnatFacts.

(** * 2. uniform scaling by [s > 0] *)
Section NusScale.
  Context {T : Type} {O : Ops T} {RL : RingLaws T} {OL : OrderLaws T} {FL : FieldLaws T} {SL : SqrtLaws T}.
  Add Ring TRingNusS : (@ring_th T O RL).
  Local Notation vec := (@vec T).

  Variable s : T.
  Hypothesis Hs : (0 < s)%T.

  Let Hlin := vscale_linear s.

  Lemma bpoint_scale_gen nd (el : list vec) k : 0 < nd ->
    bpoint nd (map (vscale s) el) k = vscale s (bpoint nd el k).
  Proof.
    intros Hnd. unfold bpoint. cbv zeta. rewrite map_length, !(nthv_map_lin _ Hlin).
    pose proof (tnat_neq0 (T:=T) nd Hnd) as H.
    now rewrite (lin_add _ Hlin), (lin_divs _ Hlin _ _ H), (lin_scale _ Hlin), (lin_sub _ Hlin).
  Qed.
  Lemma sample_pts3_scale (el : list vec) :
    sample_pts 3 (map (vscale s) el) = map (vscale s) (sample_pts 3 el).
  Proof.
    unfold sample_pts, tab. rewrite map_length, map_map. apply map_ext.
    intros k. change (3 - 1) with 2. apply bpoint_scale_gen. lia.
  Qed.

  Lemma vcross_scale (a b : vec) : vcross (vscale s a) (vscale s b) = vscale (s * s)%T (vcross a b).
  Proof. vec3 a; vec3 b. vec_unfold. f_equal; [f_equal|]; ring. Qed.
  Lemma vdot_scale_l k (a b : vec) : vdot (vscale k a) b = (k * vdot a b)%T.
  Proof. vec3 a; vec3 b. vec_unfold. ring. Qed.

  Lemma hand_of_scale (pts : list vec) pn : hand_of (map (vscale s) pts) pn = hand_of pts pn.
  Proof.
    unfold hand_of. rewrite !(nthv_map_lin _ Hlin), !vsub_scale, vcross_scale, vdot_scale_l.
    apply tsign_scale. now apply tmul_pos.
  Qed.

  Lemma vnorm2_zero (d : vec) : vnorm2 d = 0%T -> d = vzero.
  Proof.
    vec3 d. unfold vnorm2, vdot, vzero, mkv, vx, vy, vz. cbn [fst snd]. intros H.
    destruct (sumsq_zero _ _ _ H) as (H1 & H2 & H3). now subst.
  Qed.

  (** the projection onto the unit sphere ignores the scale -- also for a point that coincides
      with the centre (both sides are then the same quotient 0/0) *)
  Lemma to_sphere_scale_all (o p : vec) : to_sphere (vscale s o) (vscale s p) = to_sphere o p.
  Proof.
    destruct (tle_dec (vnorm2 (vsub p o)) 0%T) as [L|L].
    - assert (E : vnorm2 (vsub p o) = 0%T) by (apply tle_antisym; [exact L|apply vnorm2_nonneg]).
      apply vnorm2_zero in E. unfold to_sphere. rewrite vsub_scale, E.
      replace (vscale s vzero) with (vzero : vec); [reflexivity|].
      unfold vscale, vzero, mkv, vx, vy, vz. cbn [fst snd]. f_equal; [f_equal|]; ring.
    - now apply to_sphere_scale.
  Qed.
  Lemma on_sphere_scale_all (o : vec) pts : on_sphere (vscale s o) (map (vscale s) pts) = on_sphere o pts.
  Proof. unfold on_sphere. rewrite map_map. apply map_ext. intros p. apply to_sphere_scale_all. Qed.

  (** [nusselt_analog]: evaluation point and receiver patch scaled together; the normals are unchanged *)
  Theorem nusselt_analog_scale thr_seg thr_dot thr_lag (o n : vec) pts pn :
    nusselt_analog thr_seg thr_dot thr_lag (vscale s o) n (map (vscale s) pts) pn =
    nusselt_analog thr_seg thr_dot thr_lag o n pts pn.
  Proof.
    unfold nusselt_analog.
    now rewrite hand_of_scale, sample_pts3_scale, on_sphere_scale_all, map_length.
  Qed.

  (** the sample grid: the counts are rounded ratios of side lengths *)
  Lemma grid_u_scale (el : list vec) : grid_u (map (vscale s) el) = vscale s (grid_u el).
  Proof. unfold grid_u. now rewrite !(nthv_map_lin _ Hlin), vsub_scale. Qed.
  Lemma grid_v_scale (el : list vec) : grid_v (map (vscale s) el) = vscale s (grid_v el).
  Proof. unfold grid_v. now rewrite map_length, !(nthv_map_lin _ Hlin), vsub_scale. Qed.

  Lemma norm_ratio_scale (a b : vec) : vnorm b <> 0%T ->
    (vnorm (vscale s a) / vnorm (vscale s b))%T = (vnorm a / vnorm b)%T.
  Proof.
    intros Hb.
    rewrite !(vnorm_scale s _ (tlt_le _ _ Hs) (vnorm2_nonneg _)).
    apply tdiv_cancel; [now apply tpos_neq0|exact Hb].
  Qed.

  Lemma grid_pts_scale tri nx nz (u v o : vec) :
    grid_pts tri nx nz (vscale s u) (vscale s v) (vscale s o) = map (vscale s) (grid_pts tri nx nz u v o).
  Proof.
    unfold grid_pts. cbv zeta. rewrite map_flat_map. apply flat_map_ext_in'. intros i _.
    rewrite map_flat_map. apply flat_map_ext_in'. intros j _.
    destruct (tri && negb _); [reflexivity|]. cbn [map]. f_equal.
    generalize (grid_coord nx i) (grid_coord nz j). intros a b.
    vec3 u; vec3 v; vec3 o. unfold vadd, vscale, mkv, vx, vy, vz. cbn [fst snd]. f_equal; [f_equal|]; ring.
  Qed.

  Lemma surf_grid_scale (el : list vec) np :
    vnorm (grid_u el) <> 0%T -> vnorm (grid_v el) <> 0%T ->
    surf_grid (map (vscale s) el) np = map (vscale s) (surf_grid el np).
  Proof.
    intros Hu Hv. unfold surf_grid, grid_nx, grid_nz, grid_a.
    rewrite grid_u_scale, grid_v_scale, map_length, (nthv_map_lin _ Hlin).
    rewrite (norm_ratio_scale _ _ Hv), (norm_ratio_scale _ _ Hu).
    apply grid_pts_scale.
  Qed.

  (** [nusselt_integration]: both patches scaled; the two sampled sides of patch i have non-zero length *)
  Theorem nusselt_integration_scale thr_seg thr_dot thr_lag pi pj ni nj ns :
    vnorm (grid_u pi) <> 0%T -> vnorm (grid_v pi) <> 0%T ->
    nusselt_integration thr_seg thr_dot thr_lag (map (vscale s) pi) (map (vscale s) pj) ni nj ns =
    nusselt_integration thr_seg thr_dot thr_lag pi pj ni nj ns.
  Proof.
    intros Hu Hv. unfold nusselt_integration. cbv zeta.
    rewrite (surf_grid_scale pi ns Hu Hv), map_length, fold_left_map_in. f_equal.
    apply fold_left_ext_all. intros acc p. now rewrite nusselt_analog_scale.
  Qed.

  Theorem nusselt_ff_scale thr_seg thr_dot thr_lag src src_n rcv rcv_n :
    vnorm (grid_u src) <> 0%T -> vnorm (grid_v src) <> 0%T ->
    nusselt_ff thr_seg thr_dot thr_lag (map (vscale s) src) src_n (map (vscale s) rcv) rcv_n =
    nusselt_ff thr_seg thr_dot thr_lag src src_n rcv rcv_n.
  Proof. intros Hu Hv. unfold nusselt_ff. now apply nusselt_integration_scale. Qed.
End NusScale.

(** * 3. the regular sample grid of a 4-vertex patch *)
Section NusGrid.
  Context {T : Type} {O : Ops T} {RL : RingLaws T} {OL : OrderLaws T} {FL : FieldLaws T} {FlL : FloorLaws T}.
  Add Field TFieldNus : (@T_field_theory T O RL OL FL).
  Local Notation vec := (@vec T).

  Lemma c2_pos : (0 < @c2 T O)%T.
  Proof. unfold c2. tpos. Qed.
  Lemma c2_neq0 : (c2 : T) <> 0%T.
  Proof. apply tpos_neq0, c2_pos. Qed.

  (** [round(0.0) = 0]: the slice [tz[0:len(tz)-round(npointsz/npointsx*0)]] of a 4-vertex patch is all of [tz] *)
  Lemma round_he_zero : round_he (0 : T)%T = 0.
  Proof.
    unfold round_he. cbv zeta. rewrite ttrunc_zero. cbn [tnat].
    replace (0 - 0)%T with (0 : T)%T by ring.
    assert (H : (0 < 1 / @c2 T O)%T) by (apply tdiv_pos; [apply tone_pos|apply c2_pos]).
    unfold tlt in H. now rewrite H.
  Qed.

  (** the points of a non-triangular patch: the full [nx] x [nz] tensor grid *)
  Definition grid_pt (nx nz : nat) (u v o : vec) (i j : nat) : vec :=
    vadd (vadd (vscale (grid_coord nx i) u) (vscale (grid_coord nz j) v)) o.
  Lemma grid_pts_rect nx nz (u v o : vec) :
    grid_pts false nx nz u v o = flat_map (fun i => map (grid_pt nx nz u v o i) (seq 0 nz)) (seq 0 nx).
  Proof.
    unfold grid_pts. cbv zeta. apply flat_map_ext_in'. intros i _.
    cbn [tnat andb]. replace (tnat nz / tnat nx * 0)%T with (0 : T)%T by ring.
    rewrite round_he_zero. unfold slice_stop. cbn [Nat.leb]. rewrite Nat.sub_0_r.
    apply flat_map_singleton.
  Qed.

  Theorem surf_grid_rect_length (el : list vec) np : length el <> 3 ->
    length (surf_grid el np) = grid_nx el np * grid_nz el np.
  Proof.
    intros H. unfold surf_grid. apply Nat.eqb_neq in H. rewrite H, grid_pts_rect.
    now rewrite flat_map_map_length, !seq_length.
  Qed.

  Lemma grid_n_pos x : 0 < nonzero x.
  Proof. unfold nonzero. destruct x; simpl; lia. Qed.
  Lemma grid_nx_pos (el : list vec) np : 0 < grid_nx el np.
  Proof. apply grid_n_pos. Qed.
  Lemma grid_nz_pos (el : list vec) np : 0 < grid_nz el np.
  Proof. apply grid_n_pos. Qed.

  (** [tt[i] = (2i+1)/(2n)]: the cell centres *)
  Lemma centre_last (N : T) : N <> 0%T -> ((1 - 1 / N) + 1 / (c2 * N))%T = ((c2 * (N - 1) + 1) / (c2 * N))%T.
  Proof.
    intros HN. assert (H2 := c2_neq0). assert (H2N : (c2 * N)%T <> 0%T) by now apply tmul_neq0.
    rewrite (tdiv_fdiv _ N HN), !(tdiv_fdiv _ (c2 * N)%T H2N). unfold fdiv. field. split; assumption.
  Qed.
  Lemma centre_mid (N I : T) : N <> 0%T -> (N - 1)%T <> 0%T ->
    (I * ((1 - 1 / N) / (N - 1)) + 1 / (c2 * N))%T = ((c2 * I + 1) / (c2 * N))%T.
  Proof.
    intros HN HN1. assert (H2 := c2_neq0). assert (H2N : (c2 * N)%T <> 0%T) by now apply tmul_neq0.
    rewrite (tdiv_fdiv _ N HN), (tdiv_fdiv _ (N - 1)%T HN1), !(tdiv_fdiv _ (c2 * N)%T H2N).
    unfold fdiv. field. repeat split; assumption.
  Qed.

  Lemma tnat_pred n : 0 < n -> (@tnat T O (n - 1) = tnat n - 1)%T.
  Proof. destruct n as [|n]; [lia|]. intros _. replace (S n - 1) with n by lia. cbn [tnat]. ring. Qed.
  Lemma tnat_odd i : (@tnat T O (2 * i + 1) = c2 * tnat i + 1)%T.
  Proof. rewrite tnat_add. replace (2 * i) with (i * 2) by lia. rewrite tnat_mul2. cbn [tnat]. ring. Qed.

  Theorem grid_coord_centre n i : i < n ->
    grid_coord n i = (@tnat T O (2 * i + 1) / tnat (2 * n))%T.
  Proof.
    intros Hi. assert (Hn : 0 < n) by lia.
    pose proof (tnat_neq0 (T:=T) n Hn) as HN.
    unfold grid_coord, linspace0. replace (2 * n) with (n * 2) by lia.
    rewrite tnat_odd, !tnat_mul2.
    destruct (Nat.leb_spec n 1) as [H1|H1].
    - assert (n = 1) by lia. subst n. assert (i = 0) by lia. subst i. cbn [tnat].
      match goal with |- (?a * ?b + ?c)%T = _ => replace (a * b + c)%T with c by ring end.
      f_equal; ring.
    - assert (HN1 : (tnat n - 1)%T <> (0 : T)%T).
      { rewrite <- tnat_pred by exact Hn. apply tnat_neq0. lia. }
      destruct (Nat.eqb_spec i (n - 1)) as [E|E].
      + subst i. rewrite (tnat_pred n Hn). now apply centre_last.
      + rewrite (tnat_pred n Hn). now apply centre_mid.
  Qed.

  Lemma grid_coord_bounds n i : i < n -> (0 < grid_coord n i)%T /\ (grid_coord n i < 1)%T.
  Proof.
    intros Hi. rewrite (grid_coord_centre n i Hi).
    assert (Hd : (0 < @tnat T O (2 * n))%T) by (apply tnat_pos; lia).
    split.
    - apply tdiv_pos; [apply tnat_pos; lia|exact Hd].
    - apply (tmul_lt_cancel_pos_r _ _ (tnat (2 * n)) Hd).
      rewrite tdiv_mul by now apply tpos_neq0.
      replace (1 * tnat (2 * n))%T with (@tnat T O (2 * n)) by ring. apply tnat_lt. lia.
  Qed.

  (** every sample point of a 4-vertex patch [el] is [el[0] + s u + t v] with
      [s = (2i+1)/(2 npointsx)], [t = (2j+1)/(2 npointsz)], [0 < s, t < 1]: strictly inside the
      parallelogram spanned by the sides [u = el[1]-el[0]] and [v = el[-1]-el[0]] *)
  Theorem surf_grid_rect_inside (el : list vec) np p : length el <> 3 -> In p (surf_grid el np) ->
    exists i j, i < grid_nx el np /\ j < grid_nz el np /\
      let s := (@tnat T O (2 * i + 1) / tnat (2 * grid_nx el np))%T in
      let t := (@tnat T O (2 * j + 1) / tnat (2 * grid_nz el np))%T in
      p = vadd (vadd (vscale s (grid_u el)) (vscale t (grid_v el))) (nthv el 0) /\
      (0 < s)%T /\ (s < 1)%T /\ (0 < t)%T /\ (t < 1)%T.
  Proof.
    intros H Hin. unfold surf_grid in Hin. apply Nat.eqb_neq in H. rewrite H, grid_pts_rect in Hin.
    apply in_flat_map in Hin. destruct Hin as (i & Hi & Hin).
    apply in_map_iff in Hin. destruct Hin as (j & E & Hj).
    apply in_seq in Hi. apply in_seq in Hj.
    assert (Hi' : i < grid_nx el np) by lia. assert (Hj' : j < grid_nz el np) by lia.
    exists i, j. split; [exact Hi'|]. split; [exact Hj'|]. cbv zeta.
    rewrite <- (grid_coord_centre _ _ Hi'), <- (grid_coord_centre _ _ Hj').
    destruct (grid_coord_bounds _ _ Hi') as [A B]. destruct (grid_coord_bounds _ _ Hj') as [C D].
    split; [symmetry; exact E|]. tauto.
  Qed.
End NusGrid.

(** * 4. the assembly with the Nusselt branch computed by the model *)
Section NusAssembly.
  Context {T : Type} {O : Ops T}.
  Local Notation vec := (@vec T).

  Lemma universal_ff_full_eq thres cut t1 t2 t3 (src : list vec) sn a rcv rn :
    universal_ff_full thres cut t1 t2 t3 src sn a rcv rn =
    universal_ff thres cut (nusselt_ff t1 t2 t3 src sn rcv rn) src a rcv.
  Proof. reflexivity. Qed.

  (** [patch2patch_ff_full] is [Stokes.patch2patch_ff] fed with the model's Nusselt values *)
  Lemma p2p_full_eq thres cut t1 t2 t3 (pts : list (list vec)) normals areas pairs :
    patch2patch_ff_full thres cut t1 t2 t3 pts normals areas pairs =
    patch2patch_ff thres cut pts areas pairs (nusselt_matrix t1 t2 t3 pts normals (length areas)).
  Proof.
    unfold patch2patch_ff_full, patch2patch_ff. cbv zeta.
    apply tab_ext. intros i Hi. apply tab_ext. intros j Hj.
    destruct (pair_in pairs i j); [|reflexivity].
    rewrite universal_ff_full_eq. f_equal.
    unfold nusselt_matrix. rewrite get2_tab_total.
    apply Nat.ltb_lt in Hi. apply Nat.ltb_lt in Hj. now rewrite Hi, Hj.
  Qed.

  (** what a listed pair holds: the Stokes value, or the model's Nusselt value when the patches touch *)
  Theorem p2p_full_listed thres cut t1 t2 t3 (pts : list (list vec)) normals areas pairs i j :
    i < length areas -> j < length areas -> pair_in pairs i j = true ->
    get2 (patch2patch_ff_full thres cut t1 t2 t3 pts normals areas pairs) i j =
    if coincidence_check thres (nth j pts []) (nth i pts [])
    then nusselt_ff t1 t2 t3 (nth i pts []) (nthv normals i) (nth j pts []) (nthv normals j)
    else stokes_integration cut (nth i pts []) (nth j pts []) (nthT areas i).
  Proof.
    intros Hi Hj Hp. unfold patch2patch_ff_full. cbv zeta. rewrite get2_tab_total, Hp.
    apply Nat.ltb_lt in Hi. apply Nat.ltb_lt in Hj. rewrite Hi, Hj. cbn [andb].
    unfold universal_ff_full, universal_branch. now destruct (coincidence_check _ _ _).
  Qed.

  Theorem p2p_full_unlisted thres cut t1 t2 t3 (pts : list (list vec)) normals areas pairs i j :
    pair_in pairs i j = false ->
    get2 (patch2patch_ff_full thres cut t1 t2 t3 pts normals areas pairs) i j = 0%T.
  Proof. intros H. rewrite p2p_full_eq. now apply p2p_unlisted. Qed.

  Section WithField.
    Context {RL : RingLaws T} {OL : OrderLaws T} {FL : FieldLaws T}.

    (** exact zeros for invisible pairs and the reciprocity of the i<j rule, for a scene whose
        form-factor matrix is the fully computed assembly *)
    Theorem full_invisible_zero (sc : @scene T) thres cut t1 t2 t3 pts normals i j :
      s_F sc = patch2patch_ff_full thres cut t1 t2 t3 pts normals (s_areas sc) (vis_pairs sc) ->
      area sc i <> 0%T -> vis_sym sc i j = false ->
      (if i <? j then get2 (s_F sc) i j else get2 (s_F sc) j i) = 0%T /\
      ff_full sc i j = 0%T /\
      forall d b, get4 (tilde sc) i j d b = 0%T.
    Proof.
      intros HF. rewrite p2p_full_eq in HF. exact (invisible_zero sc thres cut pts _ i j HF).
    Qed.

    Theorem full_reciprocity (sc : @scene T) thres cut t1 t2 t3 pts normals i j :
      s_F sc = patch2patch_ff_full thres cut t1 t2 t3 pts normals (s_areas sc) (vis_pairs sc) ->
      i <> j -> area sc i <> 0%T -> area sc j <> 0%T ->
      (area sc i * ff_full sc i j)%T = (area sc j * ff_full sc j i)%T.
    Proof. intros _. exact (ff_full_reciprocity sc i j). Qed.
  End WithField.

  (** [universal_form_factor] with both branches computed is translation invariant (branch decision
      included: [_coincidence_check] looks at differences of vertices) *)
  Section WithRing.
    Context {RL : RingLaws T}.

    Lemma coincidence_check_tr thres t (p0 p1 : list vec) :
      coincidence_check thres (map (vtr t) p0) (map (vtr t) p1) = coincidence_check thres p0 p1.
    Proof.
      unfold coincidence_check.
      assert (E : forall (f : vec -> bool) l, existsb f (map (vtr t) l) = existsb (fun a => f (vtr t a)) l).
      { intros f l. induction l as [|a l IH]; simpl; [reflexivity|]. now rewrite IH. }
      assert (X : forall (f g : vec -> bool) l, (forall a, f a = g a) -> existsb f l = existsb g l).
      { intros f g l H. induction l as [|a l IH]; simpl; [reflexivity|]. now rewrite H, IH. }
      rewrite E. apply X. intros a. rewrite E. apply X. intros b. now rewrite vsub_tr.
    Qed.

    Theorem universal_ff_full_translate thres cut t1 t2 t3 (t : vec) src sn a rcv rn :
      2 <= length src -> 3 <= length rcv ->
      universal_ff_full thres cut t1 t2 t3 (map (vtr t) src) sn a (map (vtr t) rcv) rn =
      universal_ff_full thres cut t1 t2 t3 src sn a rcv rn.
    Proof.
      intros Hs Hr. unfold universal_ff_full, universal_branch. rewrite coincidence_check_tr.
      destruct (coincidence_check thres rcv src).
      - now apply nusselt_ff_translate.
      - unfold stokes_integration. apply stokes_gen_translate.
    Qed.
  End WithRing.
End NusAssembly.

(** ** 5. the composed room model ([Model/Full.v]) computes its form factors itself: the matrix of
    [room_scene] IS [patch2patch_ff_full] of the room's own tiling, normals, areas and visible-pair
    list -- no form-factor value is an input of the room *)
From SV Require Import Model.Tiling Model.Frame Model.Full.

Section NusRoom.
  Context {T : Type} {O : Ops T}.
  Variable rm : @room T.

  Lemma room_F_is_full :
    s_F (room_scene rm) =
    patch2patch_ff_full (rm_thres rm) (rm_cut rm) (rm_thr_seg rm) (rm_thr_dot rm) (rm_thr_lag rm)
      (rm_patch_pts rm) (pr_normals (rm_processed rm)) (s_areas (room_scene rm)) (vis_pairs (room_scene rm)).
  Proof. reflexivity. Qed.

  (** the patch polygons, normals and areas are those of the tiling of the walls *)
  Lemma room_geometry_is_tiling :
    rm_patch_pts rm = map verts (concat (map (fun q => create_patches q (rm_patch_size rm)) (rm_walls rm))) /\
    pr_normals (rm_processed rm) = map (fun w => nthv (rm_normals rm) w) (pr_wall_ids (rm_processed rm)) /\
    s_areas (room_scene rm) = map poly_area (rm_patch_pts rm).
  Proof. repeat split. Qed.

  Lemma room_areas_length : length (s_areas (room_scene rm)) = rm_np rm.
  Proof. cbn [room_scene s_areas]. unfold rm_areas, rm_np. apply map_length. Qed.

  (** a visible pair i < j holds the model's Nusselt value when the two patches touch and the
      Stokes value otherwise *)
  Lemma room_visible_entry i j :
    i < j -> j < rm_np rm -> vis_sym (room_scene rm) i j = true ->
    get2 (s_F (room_scene rm)) i j =
    if coincidence_check (rm_thres rm) (nth j (rm_patch_pts rm) []) (nth i (rm_patch_pts rm) [])
    then nusselt_ff (rm_thr_seg rm) (rm_thr_dot rm) (rm_thr_lag rm)
           (nth i (rm_patch_pts rm) []) (nthv (pr_normals (rm_processed rm)) i)
           (nth j (rm_patch_pts rm) []) (nthv (pr_normals (rm_processed rm)) j)
    else stokes_integration (rm_cut rm) (nth i (rm_patch_pts rm) []) (nth j (rm_patch_pts rm) [])
           (area (room_scene rm) i).
  Proof.
    intros Hij Hj Hv. rewrite room_F_is_full.
    apply p2p_full_listed; rewrite ?room_areas_length; [lia|exact Hj|].
    apply pair_in_In. apply in_vis_pairs. cbn [room_scene s_np].
    split; [lia|]. split; [exact Hj|].
    unfold vis_sym in Hv. destruct (Nat.ltb_spec i j); [exact Hv|lia].
  Qed.

  Theorem room_form_factors_computed {RL : RingLaws T} {OL : OrderLaws T} {FL : FieldLaws T} i j :
    let sc := room_scene rm in
    s_F sc = patch2patch_ff_full (rm_thres rm) (rm_cut rm) (rm_thr_seg rm) (rm_thr_dot rm) (rm_thr_lag rm)
               (rm_patch_pts rm) (pr_normals (rm_processed rm)) (s_areas sc) (vis_pairs sc) /\
    (i < j -> j < rm_np rm -> vis_sym sc i j = true ->
       get2 (s_F sc) i j =
       if coincidence_check (rm_thres rm) (nth j (rm_patch_pts rm) []) (nth i (rm_patch_pts rm) [])
       then nusselt_ff (rm_thr_seg rm) (rm_thr_dot rm) (rm_thr_lag rm)
              (nth i (rm_patch_pts rm) []) (nthv (pr_normals (rm_processed rm)) i)
              (nth j (rm_patch_pts rm) []) (nthv (pr_normals (rm_processed rm)) j)
       else stokes_integration (rm_cut rm) (nth i (rm_patch_pts rm) []) (nth j (rm_patch_pts rm) [])
              (area sc i)) /\
    (area sc i <> 0%T -> vis_sym sc i j = false ->
       (if i <? j then get2 (s_F sc) i j else get2 (s_F sc) j i) = 0%T /\
       ff_full sc i j = 0%T /\
       forall d b, get4 (tilde sc) i j d b = 0%T) /\
    (i <> j -> area sc i <> 0%T -> area sc j <> 0%T ->
       (area sc i * ff_full sc i j)%T = (area sc j * ff_full sc j i)%T).
  Proof.
    cbv zeta. split; [exact room_F_is_full|]. split; [exact (room_visible_entry i j)|]. split.
    - exact (full_invisible_zero (room_scene rm) _ _ _ _ _ _ _ i j room_F_is_full).
    - exact (full_reciprocity (room_scene rm) _ _ _ _ _ _ _ i j room_F_is_full).
  Qed.
End NusRoom.
