(** * Division facts in an ordered field, from [RingLaws], [OrderLaws] and the single field
    law [tdiv_mul : b <> 0 -> (a / b) * b = a].  (No new law class is needed.) *)
From Coq Require Import List Arith Bool Ring Lia.
Import ListNotations.
From SV Require Import Base.Ops Base.Sums.

Section FieldFacts.
  Context {T : Type} {O : Ops T} {RL : RingLaws T} {OL : OrderLaws T} {FL : FieldLaws T}.
  Add Ring TRingBF : (@ring_th T O RL).

  Lemma tlt_neq a b : (a < b)%T -> b <> a.
  Proof. intros H E. subst. exact (tlt_irrefl _ H). Qed.

  Lemma tsign a : a = 0%T \/ (0 < a)%T \/ (0 < - a)%T.
  Proof.
    destruct (tle_total 0%T a) as [H|H].
    - destruct (tle_lt_or_eq _ _ H) as [H1|H1]; [right; left; exact H1|left; now symmetry].
    - destruct (tle_lt_or_eq _ _ H) as [H1|H1]; [|left; exact H1].
      right; right. apply tlt_iff. intros H2. apply tlt_iff in H1. apply H1.
      replace a with (- - a)%T by ring. replace 0%T with (- 0)%T by ring. now apply topp_le.
  Qed.

  (** an ordered ring has no zero divisors *)
  Lemma tmul_eq_0 a b : (a * b)%T = 0%T -> a = 0%T \/ b = 0%T.
  Proof.
    intros H.
    destruct (tsign a) as [Ha|Ha]; [left; exact Ha|].
    destruct (tsign b) as [Hb|Hb]; [right; exact Hb|].
    exfalso.
    assert (X : forall x y, (0 < x)%T -> (0 < y)%T -> (x * y)%T = 0%T -> False).
    { intros x y Hx Hy E. pose proof (tmul_pos _ _ Hx Hy) as P. rewrite E in P. exact (tlt_irrefl _ P). }
    destruct Ha as [Ha|Ha], Hb as [Hb|Hb].
    - exact (X _ _ Ha Hb H).
    - apply (X _ _ Ha Hb). replace (a * - b)%T with (- (a * b))%T by ring. rewrite H. ring.
    - apply (X _ _ Ha Hb). replace (- a * b)%T with (- (a * b))%T by ring. rewrite H. ring.
    - apply (X _ _ Ha Hb). replace (- a * - b)%T with (a * b)%T by ring. exact H.
  Qed.

  Lemma tmul_neq_0 a b : a <> 0%T -> b <> 0%T -> (a * b)%T <> 0%T.
  Proof. intros Ha Hb E. destruct (tmul_eq_0 _ _ E); contradiction. Qed.

  Lemma tmul_cancel_r x y c : c <> 0%T -> (x * c)%T = (y * c)%T -> x = y.
  Proof.
    intros Hc E. assert (Z : ((x - y) * c)%T = 0%T) by (replace ((x - y) * c)%T with (x * c - y * c)%T by ring; rewrite E; ring).
    destruct (tmul_eq_0 _ _ Z) as [Z1|Z1]; [|contradiction].
    replace x with ((x - y) + y)%T by ring. rewrite Z1. ring.
  Qed.

  Lemma tdiv_unique a b x : b <> 0%T -> (x * b)%T = a -> (a / b)%T = x.
  Proof. intros Hb E. apply (tmul_cancel_r _ _ b Hb). rewrite tdiv_mul by exact Hb. now symmetry. Qed.

  Lemma ttwo_pos : (0 < 1 + 1)%T.
  Proof.
    apply (tlt_le_trans _ 1%T); [apply tone_pos|].
    replace 1%T with (1 + 0)%T at 1 by ring. apply tadd_le_mono_l, tzero_le_one.
  Qed.

  Lemma tdiv_nonneg a b : (0 <= a)%T -> (0 < b)%T -> (0 <= a / b)%T.
  Proof.
    intros Ha Hb. pose proof (tlt_neq _ _ Hb) as Hb0.
    destruct (tle_total 0%T (a / b)%T) as [H|H]; [exact H|].
    assert (N : (0 <= - (a / b) * b)%T) by (apply tmul_nonneg; [now apply topp_nonneg|now apply tlt_le]).
    replace (- (a / b) * b)%T with (- ((a / b) * b))%T in N by ring. rewrite tdiv_mul in N by exact Hb0.
    assert (Z : a = 0%T).
    { apply tle_antisym; [|exact Ha]. replace a with (- - a)%T by ring. replace 0%T with (- 0)%T by ring.
      now apply topp_le. }
    assert (E : (a / b)%T = 0%T) by (apply tdiv_unique; [exact Hb0|rewrite Z; ring]).
    rewrite E. apply tle_refl.
  Qed.

  Lemma tdiv_pos a b : (0 < a)%T -> (0 < b)%T -> (0 < a / b)%T.
  Proof.
    intros Ha Hb. pose proof (tlt_neq _ _ Hb) as Hb0.
    destruct (tle_lt_or_eq _ _ (tdiv_nonneg a b (tlt_le _ _ Ha) Hb)) as [H|H]; [exact H|].
    exfalso. pose proof (tdiv_mul a b Hb0) as E. rewrite <- H in E.
    replace (0 * b)%T with 0%T in E by ring. rewrite <- E in Ha. exact (tlt_irrefl _ Ha).
  Qed.

  (** a sum of positive terms over a non-empty list is positive *)
  Lemma sumf_pos {A} (l : list A) (f : A -> T) :
    l <> [] -> (forall a, In a l -> (0 < f a)%T) -> (0 < sumf l f)%T.
  Proof.
    destruct l as [|x l]; [congruence|]. intros _ H. simpl.
    apply (tlt_le_trans _ (f x)); [apply H; now left|].
    replace (f x) with (f x + 0)%T at 1 by ring. apply tadd_le_mono_l.
    apply sumf_nonneg. intros a Ha. apply tlt_le, H. now right.
  Qed.
End FieldFacts.
