(** * The two visibility scans of [geometry.py] are conjunctions over the surface list, and the
    patch matrix is the strict upper triangle of that relation.  No scalar law is used. *)
From Coq Require Import List Arith Bool Lia.
Import ListNotations.
From SV Require Import Base.Ops Base.Arr Model.Vec3 Model.Scene Model.Visibility.

Section Scan.
  Context {T : Type} {O : Ops T}.
  Variables (eps eta : T).

  (** a scan entered with [visible = False] leaves at once *)
  Lemma scan_while_false p q l : scan_while eps eta p q false l = false.
  Proof. destruct l; reflexivity. Qed.

  (** the early-exit while loop started on [True] is the conjunction over all surfaces *)
  Lemma scan_while_true p q l :
    scan_while eps eta p q true l = forallb (basic_visibility eps eta p q) l.
  Proof.
    induction l as [|s r IH]; [reflexivity|]. simpl.
    destruct (basic_visibility eps eta p q s); simpl; [exact IH|apply scan_while_false].
  Qed.

  Lemma scan_while_spec p q b l :
    scan_while eps eta p q b l = b && visible_all eps eta l p q.
  Proof.
    destruct b; simpl; [apply scan_while_true|apply scan_while_false].
  Qed.

  Lemma check_point2patch_spec pnt centers surfs :
    check_point2patch eps eta pnt centers surfs = map (visible_all eps eta surfs pnt) centers.
  Proof.
    unfold check_point2patch. apply map_ext. intros c. apply scan_while_true.
  Qed.

  Lemma check_point2patch_nth pnt centers surfs j :
    j < length centers ->
    nthb (check_point2patch eps eta pnt centers surfs) j
    = visible_all eps eta surfs pnt (nthv centers j).
  Proof.
    intros Hj. rewrite check_point2patch_spec. unfold nthb, nthv.
    rewrite nth_indep with (d' := visible_all eps eta surfs pnt vzero) by (now rewrite map_length).
    apply map_nth.
  Qed.

  (** every entry of the patch matrix, in or out of range *)
  Lemma check_patch2patch_entry centers surfs i j :
    get2b (check_patch2patch eps eta centers surfs) i j
    = (i <? j) && (j <? length centers)
      && visible_all eps eta surfs (nthv centers i) (nthv centers j).
  Proof.
    unfold check_patch2patch, get2b, nthl, nthb.
    destruct (Nat.ltb_spec j (length centers)) as [Hj|Hj].
    - destruct (Nat.ltb_spec i j) as [Hij|Hij].
      + rewrite nth_tab by lia. rewrite nth_tab by lia.
        rewrite scan_while_spec. destruct (Nat.ltb_spec i j); [reflexivity|lia].
      + simpl. destruct (Nat.lt_ge_cases i (length centers)) as [Hi|Hi].
        * rewrite nth_tab by lia. rewrite nth_tab by lia.
          rewrite scan_while_spec. destruct (Nat.ltb_spec i j); [lia|reflexivity].
        * rewrite nth_tab_out by lia. now destruct j.
    - rewrite andb_false_r. simpl.
      destruct (Nat.lt_ge_cases i (length centers)) as [Hi|Hi].
      + rewrite nth_tab by lia. now rewrite nth_tab_out by lia.
      + rewrite nth_tab_out by lia. now destruct j.
  Qed.

  Lemma check_patch2patch_upper centers surfs i j :
    i < j -> j < length centers ->
    get2b (check_patch2patch eps eta centers surfs) i j
    = visible_all eps eta surfs (nthv centers i) (nthv centers j).
  Proof.
    intros Hij Hj. rewrite check_patch2patch_entry.
    destruct (Nat.ltb_spec i j); [|lia]. destruct (Nat.ltb_spec j (length centers)); [|lia]. reflexivity.
  Qed.

  Lemma check_patch2patch_lower centers surfs i j :
    j <= i -> get2b (check_patch2patch eps eta centers surfs) i j = false.
  Proof.
    intros Hji. rewrite check_patch2patch_entry. destruct (Nat.ltb_spec i j); [lia|reflexivity].
  Qed.

  (** [vis_sym] of the pipeline model reads the stored upper triangle in both directions:
      symmetric by construction, whatever the matrix is *)
  Lemma vis_sym_swap (sc : @scene T) i j : i <> j -> vis_sym sc i j = vis_sym sc j i.
  Proof.
    intros Hne. unfold vis_sym.
    destruct (Nat.ltb_spec i j); destruct (Nat.ltb_spec j i); try reflexivity; lia.
  Qed.

  (** ... and when the matrix is the one the scan fills, it is the line-of-sight conjunction of
      the smaller-index centre towards the larger-index centre *)
  Lemma vis_sym_of_scan (sc : @scene T) centers surfs i j :
    s_visU sc = check_patch2patch eps eta centers surfs ->
    i < j -> j < length centers ->
    vis_sym sc i j = visible_all eps eta surfs (nthv centers i) (nthv centers j) /\
    vis_sym sc j i = visible_all eps eta surfs (nthv centers i) (nthv centers j).
  Proof.
    intros HU Hij Hj. unfold vis_sym. rewrite HU.
    destruct (Nat.ltb_spec i j); [|lia]. destruct (Nat.ltb_spec j i); [lia|].
    split; now apply check_patch2patch_upper.
  Qed.

  (** the pair list of [bake_geometry] lists exactly the visible pairs i < j *)
  Lemma vis_pairs_of_scan (sc : @scene T) centers surfs i j :
    s_visU sc = check_patch2patch eps eta centers surfs -> s_np sc = length centers ->
    (In (i, j) (vis_pairs sc) <->
     i < j /\ j < length centers /\
     visible_all eps eta surfs (nthv centers i) (nthv centers j) = true).
  Proof.
    intros HU Hn. unfold vis_pairs. rewrite in_flat_map. split.
    - intros (i' & Hi' & H). apply in_flat_map in H. destruct H as (j' & Hj' & H).
      rewrite HU, check_patch2patch_entry in H.
      destruct (Nat.ltb_spec i' j'); simpl in H; [|contradiction].
      destruct (Nat.ltb_spec j' (length centers)); simpl in H; [|contradiction].
      destruct (visible_all eps eta surfs (nthv centers i') (nthv centers j')) eqn:E; simpl in H; [|contradiction].
      destruct H as [H|[]]. inversion H; subst. auto.
    - intros (Hij & Hj & Hv). exists i. split; [apply in_seq; lia|].
      apply in_flat_map. exists j. split; [apply in_seq; lia|].
      rewrite HU, check_patch2patch_upper by assumption. rewrite Hv. now left.
  Qed.
End Scan.
