(** * C16: results of the final stages depend only on the configuration in force --
    the three-call tail  bake; init_source; exchange(recalculate)  from two states with the
    same configuration fields, and the history corollary. *)
From Coq Require Import List Arith Bool Lia.
Import ListNotations.
From SV Require Import Model.Object Spec.ObjectSpec Proofs.ObjectConfig.

(** ** Results depend only on the configuration in force.
    Two simulation objects that went through arbitrary, different histories but whose
    *configuration* (geometry, frequencies, BRDF tables / indices / direction sets,
    attenuation) is the same at the moment a fresh bake -> source -> exchange(recalculate)
    tail starts produce the same error tail_classes up to the first failure and, when the tail
    succeeds, the same observation for every receiver. *)
Definition tail (src tid ns order : nat) : list op :=
  [OpBake; OpInitSource src; OpExchange tid ns order true].
Definition rok (c : rclass) : bool := match c with ROk => true | _ => false end.
Fixpoint upto_fail (l : list rclass) : list rclass :=
  match l with [] => [] | c :: r => c :: (if rok c then upto_fail r else []) end.
Definition tail_classes (g : geo) (s : ostate) (h : list op) : list rclass := map oclass_of (otrace g s h).
Theorem tail_cfg g s s' src tid ns order :
  cfg_eq s s' ->
  upto_fail (tail_classes g s (tail src tid ns order)) = upto_fail (tail_classes g s' (tail src tid ns order)) /\
  (forallb rok (tail_classes g s (tail src tid ns order)) = true ->
   forall recv direct,
     ocollect g (orun g s (tail src tid ns order)) recv direct =
     ocollect g (orun g s' (tail src tid ns order)) recv direct).
Proof.
  intros H. unfold tail_classes, tail, orun.
  cbn [otrace map fold_left ostep upto_fail forallb].
  destruct (bake_cfg g s s' H) as [Hb1 Hb2].
  destruct (obake g s) as [c1 s1] eqn:E1.
  destruct (obake g s') as [c1' s1'] eqn:E1'.
  cbn [fst snd] in Hb1, Hb2. subst c1'.
  cbn [oclass_of ostate_of fst snd].
  destruct c1; cbn [rok andb]; try (split; [reflexivity|discriminate]).
  specialize (Hb2 eq_refl).
  destruct (init_cfg g s1 s1' src Hb2) as [Hi1 Hi2].
  destruct (oinit_source g s1 src) as [c2 s2] eqn:E2.
  destruct (oinit_source g s1' src) as [c2' s2'] eqn:E2'.
  cbn [fst snd] in Hi1, Hi2. subst c2'. 
  cbn [oclass_of ostate_of fst snd].
  destruct c2; cbn [rok andb]; try (split; [reflexivity|discriminate]).
  specialize (Hi2 eq_refl).
  destruct (exch_cfg g s2 s2' tid ns order Hi2) as [He1 He2].
  destruct (oexchange g s2 tid ns order true) as [c3 s3] eqn:E3.
  destruct (oexchange g s2' tid ns order true) as [c3' s3'] eqn:E3'.
  cbn [fst snd] in He1, He2. subst c3'. 
  cbn [oclass_of ostate_of fst snd].
  destruct c3; cbn [rok andb]; try (split; [reflexivity|discriminate]).
  split; [reflexivity|]. intros _ recv direct. apply collect_cfg. now apply He2.
Qed.

Corollary final_config_history_independent g h h' src tid ns order :
  cfg_eq (orun g (init g) h) (orun g (init g) h') ->
  upto_fail (tail_classes g (orun g (init g) h) (tail src tid ns order)) =
  upto_fail (tail_classes g (orun g (init g) h') (tail src tid ns order)) /\
  (forallb rok (tail_classes g (orun g (init g) h) (tail src tid ns order)) = true ->
   forall recv direct,
     ocollect g (orun g (init g) (h ++ tail src tid ns order)) recv direct =
     ocollect g (orun g (init g) (h' ++ tail src tid ns order)) recv direct).
Proof.
  intros H. destruct (tail_cfg g _ _ src tid ns order H) as [A B]. split; [exact A|].
  intros Hok recv direct.
  assert (E : forall x y, orun g (init g) (x ++ y) = orun g (orun g (init g) x) y)
    by (intros x y; unfold orun; apply fold_left_app).
  rewrite !E. exact (B Hok recv direct).
Qed.
