(** * C09 on the composed model: exchanging source and receiver in a room.

    For a room given by its wall polygons ([Model/Full.v]) with one outgoing direction slot and
    diffusely reflecting walls, and two points A and B:

      [room_mono rm tm A B K false] = [room_mono rm tm B A K false]   in every band and bin.

    The scene-level theorem ([ReciprocityVis.mono_reciprocal_vis]) is instantiated at
    [room_scene rm] with the point data the composed model builds for A and B.  What the
    scene-level theorem takes as hypotheses about the point data is DISCHARGED here from the
    model:
    - receiver factor = 4 x source share / area: [ShareLink.share_link_inv] for the room's own
      [pt_solution] values and its own patch areas;
    - same visibility in both roles: [room_point_vis rm pos] is one function of the position,
      used by [room_source] and by [room_receiver];
    - well-formedness of the scene ([FullProofs.room_scene_wf]), the slot count, the range of
      the selected incoming samples.
    What remains as hypothesis: non-zero patch areas, [tpi <> 0], [four <> 0] (both follow
    from the order laws), the one-bin offset between ceiling and truncation bins for the
    patches a point sees (follows from "no leg length is a multiple of c*dt", see
    [bins_linked_off_integers]), and that the delayed energy fits into the histogram (the
    receiver delays with np.roll: known finding receiver_wrap). *)
From Coq Require Import List Arith Bool Ring Lia.
Import ListNotations.
From SV Require Import Base.Ops Base.Arr Base.Sums Model.Vec3 Model.Exchange Model.Scene Model.Frame
  Model.Tiling Model.Visibility Model.PtSolution Model.Full
  Proofs.SceneRefine Proofs.HistProofs Proofs.ReceiverProofs Proofs.FieldFacts
  Proofs.Reciprocity Proofs.ReciprocityModel Proofs.ReciprocityVis Proofs.ShareLink
  Proofs.FullProofs Proofs.FullReceiver.

Lemma nearest_lt {T} {O : Ops T} (dirs : list (@vec T)) (v : @vec T) :
  dirs <> [] -> nearest dirs v < length dirs.
Proof.
  intros H. unfold nearest.
  rewrite <- (map_length (fun d => vdist2 d v) dirs). apply argmin_lt.
  intros E. apply H. destruct dirs; [reflexivity|discriminate E].
Qed.

Section RoomPoint.
  Context {T : Type} {O : Ops T}.
  Variable rm : @room T.

  (** a point of the room in both roles, as the composed model builds them *)
  Definition room_point (pos : @vec T) : @point_data T :=
    {| p_pos := pos; p_vis := room_point_vis rm pos;
       p_src_share := map (pt_solution (rm_thr rm) false pos) (rm_patch_pts rm);
       p_recv_share := map (pt_solution (rm_thr rm) true pos) (rm_patch_pts rm) |}.

  Lemma room_point_source pos : as_source (room_point pos) = room_source rm pos.
  Proof. reflexivity. Qed.
  Lemma room_point_receiver pos : as_receiver (room_point pos) = room_receiver rm pos.
  Proof. reflexivity. Qed.
  (** one visibility vector serves both roles *)
  Lemma room_roles_same_visibility pos :
    src_vis (room_source rm pos) = r_vis (room_receiver rm pos).
  Proof. reflexivity. Qed.
End RoomPoint.

Section RoomRecip.
  Context {T : Type} {O : Ops T} {RL : RingLaws T} {FL : FieldLaws T}.
  Add Ring TRingFRp : (@ring_th T O RL).

  Variable rm : @room T.
  Variable tm : @timing T.
  Variable b : nat.
  Local Notation sc := (room_scene rm).
  Local Notation N := (n_samples tm).

  Hypothesis one_slot : length (rm_ref_out rm) = 1.       (* diffuse: one outgoing slot *)
  Hypothesis in_nonempty : rm_ref_in rm <> [].
  Variable rho : nat -> T.                                (* reflectance of wall w in band b *)
  (** the BRDF table of every wall is constant over its incoming samples *)
  Hypothesis diffuse : forall w a, w < length (rm_walls rm) -> a < length (rm_ref_in rm) ->
    beta sc w a 0 b = rho w.
  Hypothesis Hb : b < rm_nb rm.
  Hypothesis area_nz : forall i, i < rm_np rm -> area sc i <> 0%T.
  Hypothesis pi_nz : @tpi T O <> 0%T.
  Hypothesis four_nz : @four T O <> 0%T.

  Lemma room_out_nonempty : rm_ref_out rm <> [].
  Proof. intros E. rewrite E in one_slot. discriminate one_slot. Qed.
  Lemma room_wf : wf_scene sc.
  Proof. exact (room_scene_wf rm room_out_nonempty). Qed.
  Lemma room_nd : s_nd sc = 1.
  Proof. exact one_slot. Qed.

  Lemma room_in_dirs_length k : k < rm_np rm -> length (in_dirs sc (wall sc k)) = length (rm_ref_in rm).
  Proof. intros Hk. rewrite (room_in_dirs rm k Hk). unfold wall_dirs. apply map_length. Qed.
  Lemma room_in_dirs_nonempty k : k < rm_np rm -> in_dirs sc (wall sc k) <> [].
  Proof.
    intros Hk E. apply (f_equal (@length _)) in E. rewrite (room_in_dirs_length k Hk) in E.
    destruct (rm_ref_in rm); [now apply in_nonempty|discriminate E].
  Qed.

  (** ** the diffuse hypothesis covers every table entry the model reads *)
  Lemma room_diffuse_pairs : diffuse_pairs sc b rho.
  Proof.
    intros i j _ Hj _. apply diffuse; [exact (room_wall_lt rm j Hj)|].
    rewrite <- (room_in_dirs_length j Hj). unfold in_index.
    apply nearest_lt, (room_in_dirs_nonempty j Hj).
  Qed.
  Lemma room_diffuse_src pos : diffuse_src sc b rho (room_point rm pos).
  Proof.
    intros i Hi _. apply diffuse; [exact (room_wall_lt rm i Hi)|].
    rewrite <- (room_in_dirs_length i Hi). unfold src_in_index.
    apply nearest_lt, (room_in_dirs_nonempty i Hi).
  Qed.

  (** ** role link, first half: from the model of pt_solution *)
  Lemma room_area_patch i : i < rm_np rm -> area sc i = poly_area (nth i (rm_patch_pts rm) []).
  Proof.
    intros Hi. unfold area, nthT. cbn [s_areas room_scene]. unfold rm_areas.
    rewrite nth_indep with (d' := poly_area []) by (rewrite map_length; exact Hi).
    apply (map_nth poly_area).
  Qed.

  Lemma room_share_link pos i : i < rm_np rm ->
    nthT (p_recv_share (room_point rm pos)) i =
    ((four * nthT (p_src_share (room_point rm pos)) i) * iaP sc i)%T.
  Proof.
    intros Hi.
    change (p_recv_share (room_point rm pos)) with (r_share (room_receiver rm pos)).
    change (p_src_share (room_point rm pos)) with (src_share (room_source rm pos)).
    rewrite (room_recv_share_nth rm pos i Hi), (room_src_share_nth rm pos i Hi).
    unfold iaP. rewrite (room_area_patch i Hi). unfold room_recv_factor, room_src_share.
    apply share_link_inv; [exact pi_nz|exact four_nz| |exact tmul_neq0].
    rewrite <- (room_area_patch i Hi). exact (area_nz i Hi).
  Qed.

  (** ** role link, second half: the bins of the two legs *)
  (** for the patches a point sees, the receiver-leg bin (ceiling) is the source-leg bin
      (truncation) plus one *)
  Definition room_bins_linked (pos : @vec T) : Prop :=
    forall k, k < rm_np rm -> nthb (room_point_vis rm pos) k = true ->
      room_recv_bin rm tm pos k = S (room_src_bin rm tm pos k).

  Lemma room_gP pos k : gP sc tm (room_point rm pos) k = room_recv_bin rm tm pos k.
  Proof. reflexivity. Qed.
  Lemma room_fP pos k : nthb (room_point_vis rm pos) k = true ->
    fP sc tm (room_point rm pos) k = room_src_bin rm tm pos k.
  Proof.
    intros Hv. unfold fP, scene_delta0, src_dist, room_src_bin.
    cbn [src_vis src_pos as_source room_point p_vis p_pos]. rewrite Hv. reflexivity.
  Qed.

  Lemma room_linked pos : room_bins_linked pos -> linked_vis sc tm (room_point rm pos).
  Proof.
    intros HB i Hi Hv. split; [exact (room_share_link pos i Hi)|].
    cbn [p_vis room_point] in Hv. rewrite room_gP, (room_fP pos i Hv). exact (HB i Hi Hv).
  Qed.

  (** ** the fitting condition, in room terms ([FullReceiver.room_recv_fits]) *)
  Lemma room_slot_zero pos k : k < rm_np rm -> room_recv_slot rm pos k = 0.
  Proof.
    intros Hk. rewrite <- (room_r_out_index rm pos k Hk).
    exact (r_slot_zero sc room_wf room_nd (room_receiver rm pos) k Hk).
  Qed.

  Lemma room_fits src rcv K : room_recv_fits rm tm src rcv K b ->
    fits_vis sc tm b K (room_point rm src) (room_point rm rcv).
  Proof.
    intros HF k Hk Hv. cbn [p_vis room_point] in Hv. destruct (HF k Hk Hv) as [Hd Hz].
    rewrite room_gP. split; [exact Hd|]. intros u H1 H2.
    rewrite <- (room_slot_zero rcv k Hk). exact (Hz u H1 H2).
  Qed.

  (** ** C09 on the composed model *)
  Theorem room_reciprocal (A B : @vec T) (K t : nat) :
    room_bins_linked A -> room_bins_linked B ->
    room_recv_fits rm tm A B K b -> room_recv_fits rm tm B A K b ->
    t < N ->
    get2 (room_mono rm tm A B K false) b t = get2 (room_mono rm tm B A K false) b t.
  Proof.
    intros HbA HbB HfAB HfBA Ht.
    exact (mono_reciprocal_vis sc tm b room_wf area_nz room_nd rho Hb room_diffuse_pairs
             (room_point rm A) (room_point rm B) K t
             (room_diffuse_src A) (room_diffuse_src B) (room_linked A HbA) (room_linked B HbB)
             (room_fits A B K HfAB) (room_fits B A K HfBA) Ht).
  Qed.
End RoomRecip.

(** ** the remaining hypotheses follow from simple conditions *)
Section Sufficient.
  Context {T : Type} {O : Ops T} {RL : RingLaws T} {OL : OrderLaws T} {FL : FloorLaws T}.
  Add Ring TRingFRs : (@ring_th T O RL).

  Lemma four_pos : (0 < @four T O)%T.
  Proof.
    unfold four.
    assert (H2 : (0 < 1 + 1)%T).
    { apply (tlt_le_trans _ 1%T); [apply tone_pos|].
      replace 1%T with (1 + 0)%T at 1 by ring. apply tadd_le_mono_l, tzero_le_one. }
    apply (tlt_le_trans _ (1 + 1)%T); [exact H2|].
    replace (1 + 1)%T with ((1 + 1) + 0)%T at 1 by ring. apply tadd_le_mono_l, tlt_le, H2.
  Qed.
  Lemma four_neq0 : @four T O <> 0%T.
  Proof. intros E. pose proof four_pos as H. rewrite E in H. exact (tlt_irrefl _ H). Qed.
  Lemma tpi_neq0 {AL : AcosLaws T} : @tpi T O <> 0%T.
  Proof. intros E. pose proof tpi_pos as H. rewrite E in H. exact (tlt_irrefl _ H). Qed.

  (** off the integers the ceiling is the truncation plus one *)
  Lemma ceil_is_S_trunc (x : T) : (0 <= x)%T -> x <> tofnat (ttrunc x) -> tceil x = S (ttrunc x).
  Proof.
    intros H0 Hne.
    assert (H1 : (tofnat (ttrunc x) <= x)%T) by now apply ttrunc_lo.
    assert (H2 : (x < tofnat (S (ttrunc x)))%T) by now apply ttrunc_hi.
    assert (H1' : (tofnat (ttrunc x) < x)%T).
    { destruct (tle_lt_or_eq _ _ H1) as [H|H]; [exact H|]. exfalso. apply Hne. now symmetry. }
    assert (Hpos : (0 < x)%T) by (eapply tle_lt_trans; [apply tofnat_nonneg|exact H1']).
    assert (H3 : (x <= tofnat (tceil x))%T) by now apply tceil_lo.
    assert (H4 : (tofnat (tceil x) < x + 1)%T) by now apply tceil_hi.
    assert (Hlo : ttrunc x < tceil x).
    { apply tofnat_lt_inv. eapply tlt_le_trans; [exact H1'|exact H3]. }
    assert (Hhi : tceil x < S (S (ttrunc x))).
    { apply tofnat_lt_inv. eapply (tlt_le_trans _ (x + 1)%T); [exact H4|].
      rewrite (tofnat_S (S (ttrunc x))). apply tadd_le_mono. now apply tlt_le. }
    lia.
  Qed.

  Variable rm : @room T.
  Variable tm : @timing T.

  (** if the scaled length of no visible leg is an integer, the bins of the two roles are linked *)
  Theorem bins_linked_off_integers (pos : @vec T) :
    (forall k, k < rm_np rm -> nthb (room_point_vis rm pos) k = true ->
       let x := ((vdist pos (nthv (rm_centers rm) k) / t_c tm) / t_dt tm)%T in
       (0 <= x)%T /\ x <> tofnat (ttrunc x)) ->
    room_bins_linked rm tm pos.
  Proof.
    intros H k Hk Hv. destruct (H k Hk Hv) as [H0 Hne].
    unfold room_recv_bin, room_src_bin, room_leg, delay_ceil, delay_floor.
    rewrite (vdist_sym (nthv (rm_centers rm) k) pos). now apply ceil_is_S_trunc.
  Qed.

  (** the scaled length of no leg to a visible patch is an integer *)
  Definition legs_off_integers (pos : @vec T) : Prop :=
    forall k, k < rm_np rm -> nthb (room_point_vis rm pos) k = true ->
      let x := ((vdist pos (nthv (rm_centers rm) k) / t_c tm) / t_dt tm)%T in
      (0 <= x)%T /\ x <> tofnat (ttrunc x).

  (** C09 on the composed model over an ordered field with floor / ceiling / pi laws: only
      geometric conditions and the fitting condition remain *)
  Theorem room_reciprocal_ordered {DL : FieldLaws T} {AL : AcosLaws T}
      (b : nat) (rho : nat -> T) (A B : @vec T) (K t : nat) :
    length (rm_ref_out rm) = 1 -> rm_ref_in rm <> [] ->
    (forall w a, w < length (rm_walls rm) -> a < length (rm_ref_in rm) ->
       beta (room_scene rm) w a 0 b = rho w) ->
    b < rm_nb rm ->
    (forall i, i < rm_np rm -> area (room_scene rm) i <> 0%T) ->
    legs_off_integers A -> legs_off_integers B ->
    room_recv_fits rm tm A B K b -> room_recv_fits rm tm B A K b ->
    t < n_samples tm ->
    get2 (room_mono rm tm A B K false) b t = get2 (room_mono rm tm B A K false) b t.
  Proof.
    intros H1 Hin Hd Hb Ha HA HB HfAB HfBA Ht.
    exact (room_reciprocal rm tm b H1 Hin rho Hd Hb Ha tpi_neq0 four_neq0 A B K t
             (bins_linked_off_integers A HA) (bins_linked_off_integers B HB) HfAB HfBA Ht).
  Qed.
End Sufficient.

(** ** the two named hypotheses can be checked by running the model *)
Section Checks.
  Context {T : Type} {O : Ops T}.
  Variable rm : @room T.
  Variable tm : @timing T.

  Definition bins_check (pos : @vec T) : bool :=
    forallb (fun k => if nthb (room_point_vis rm pos) k
                      then room_recv_bin rm tm pos k =? S (room_src_bin rm tm pos k) else true)
            (seq 0 (rm_np rm)).
  Lemma bins_check_ok pos : bins_check pos = true -> room_bins_linked rm tm pos.
  Proof.
    intros H k Hk Hv. unfold bins_check in H. rewrite forallb_forall in H.
    assert (Hin : In k (seq 0 (rm_np rm))) by (apply in_seq; lia).
    specialize (H k Hin). cbv beta in H. rewrite Hv in H. now apply Nat.eqb_eq.
  Qed.

  Definition fits_check (src rcv : @vec T) (K b : nat) : bool :=
    let E := room_hist rm tm src K in
    let N := n_samples tm in
    forallb (fun k => if nthb (room_point_vis rm rcv) k
                      then let g := room_recv_bin rm tm rcv k in
                           (g <? N) && forallb (fun u => teqb (get4 E k (room_recv_slot rm rcv k) b u) 0%T)
                                               (seq (N - g) g)
                      else true)
            (seq 0 (rm_np rm)).
  Lemma fits_check_ok src rcv K b : (forall x y : T, teqb x y = true -> x = y) ->
    fits_check src rcv K b = true -> room_recv_fits rm tm src rcv K b.
  Proof.
    intros Heq H k Hk Hv. unfold fits_check in H. cbv zeta in H. rewrite forallb_forall in H.
    assert (Hin : In k (seq 0 (rm_np rm))) by (apply in_seq; lia).
    specialize (H k Hin). cbv beta in H. rewrite Hv in H. apply andb_true_iff in H.
    destruct H as [Hg Hz]. apply Nat.ltb_lt in Hg. split; [exact Hg|].
    intros u H1 H2. rewrite forallb_forall in Hz. apply Heq. apply Hz. apply in_seq.
    fold (room_recv_bin rm tm rcv k) in *. lia.
  Qed.
End Checks.
