(** * [basic_visibility] does not depend on the order of its two points (exact field arithmetic).

    The intersection point of the line pq with the plane is the same point for both orders,
    the gate |dot(v,n)| > epsilon only sees |v|, the sign test dot(x-p, x-q) < 0 is symmetric
    and the endpoint branches swap consistently.  The only condition: 0 <= epsilon, so that an
    open gate guarantees a non-zero denominator. *)
From Coq Require Import List Arith Bool Ring Lia.
Import ListNotations.
From SV Require Import Base.Ops Base.Arr Model.Vec3 Model.Scene Model.Visibility Proofs.VisibilityScan.

(** the two laws of |.| that are used (a sub-bundle of [SqrtLaws], so that exact rational
    instances -- which have no total square root -- qualify) *)
Class AbsLaws (T : Type) {O : Ops T} : Prop := {
  abs_pos : forall x : T, (0 <= x)%T -> tabs x = x;
  abs_neg : forall x : T, (x <= 0)%T -> tabs x = (- x)%T
}.
#[global] Instance AbsLaws_of_SqrtLaws {T : Type} {O : Ops T} {SL : SqrtLaws T} : AbsLaws T :=
  {| abs_pos := tabs_pos; abs_neg := tabs_neg |}.

Section Sym.
  Context {T : Type} {O : Ops T} {RL : RingLaws T} {OL : OrderLaws T} {FL : FieldLaws T}
          {AL : AbsLaws T}.
  Add Ring TRingVisSym : (@ring_th T O RL).
  Local Notation vec := (@vec T).

  Lemma tabs_opp (x : T) : tabs (- x)%T = tabs x.
  Proof.
    destruct (tle_total 0%T x) as [H|H].
    - rewrite (abs_pos x H). rewrite abs_neg.
      + ring.
      + apply (proj2 (tle_sub _ _)). replace (0 - - x)%T with x by ring. exact H.
    - rewrite (abs_neg x H). apply abs_pos. now apply topp_nonneg.
  Qed.

  Lemma tabs_zero : tabs 0%T = 0%T.
  Proof. apply abs_pos, tle_refl. Qed.

  (** an open gate (with a non-negative tolerance) excludes a zero denominator *)
  Lemma gate_nonzero (eps d : T) : (0 <= eps)%T -> tltb eps (tabs d) = true -> d <> 0%T.
  Proof.
    intros He Hg Hd. subst d. rewrite tabs_zero in Hg.
    apply (proj1 (tlt_iff _ _)) in Hg. now apply Hg.
  Qed.

  Lemma tmul_cancel_r (k d : T) : d <> 0%T -> (k * d)%T = 0%T -> k = 0%T.
  Proof.
    intros Hd H. pose proof (tdiv_mul 1%T d Hd) as Hi.
    replace k with ((k * d) * (1 / d))%T.
    - rewrite H. ring.
    - replace ((k * d) * (1 / d))%T with (k * ((1 / d) * d))%T by ring. rewrite Hi. ring.
  Qed.

  (** one coordinate of the intersection point, both orders *)
  Lemma proj_coord_sym (d d' a a' r r' qc pc sc : T) :
    d' = (- d)%T -> (a - a')%T = d -> (r * d)%T = a -> (r' * d')%T = a' -> d <> 0%T ->
    (((qc - sc) + sc) + (- r) * (qc - pc))%T = (((pc - sc) + sc) + (- r') * (pc - qc))%T.
  Proof.
    intros Hd' Ha Hr Hr' Hd.
    assert (Hk : (r + r' - 1)%T = 0%T).
    { apply (tmul_cancel_r _ d Hd).
      replace ((r + r' - 1) * d)%T with ((r * d - r' * (- d)) - d)%T by ring.
      rewrite <- Hd', Hr, Hr', Ha. ring. }
    replace r' with (1 - r)%T.
    - ring.
    - transitivity ((1 - r) + (r + r' - 1))%T; [rewrite Hk|]; ring.
  Qed.

  Lemma vdot_comm (a b : vec) : vdot a b = vdot b a.
  Proof. unfold vdot. ring. Qed.

  Lemma vdot_sub_swap (p q n : vec) : vdot (vsub p q) n = (- vdot (vsub q p) n)%T.
  Proof. unfold vdot, vsub, mkv, vx, vy, vz. simpl. ring. Qed.

  (** the intersection of the line pq with the plane, as a point, for both orders *)
  Lemma project_to_plane_sym (eps : T) (p q s0 n : vec) :
    (0 <= eps)%T ->
    project_to_plane false eps p q s0 n = project_to_plane false eps q p s0 n.
  Proof.
    intros He. unfold project_to_plane. cbv zeta.
    rewrite (vdot_sub_swap p q n), tabs_opp.
    destruct (tltb eps (tabs (vdot (vsub q p) n))) eqn:Hg; [|reflexivity].
    pose proof (gate_nonzero _ _ He Hg) as Hd.
    assert (Hd' : (- vdot (vsub q p) n)%T <> 0%T).
    { intros H. apply Hd. replace (vdot (vsub q p) n) with (- - vdot (vsub q p) n)%T by ring.
      rewrite H. ring. }
    f_equal.
    pose proof (tdiv_mul (vdot n (vsub q s0)) (vdot (vsub q p) n) Hd) as Hr.
    pose proof (tdiv_mul (vdot n (vsub p s0)) (- vdot (vsub q p) n)%T Hd') as Hr'.
    assert (Ha : (vdot n (vsub q s0) - vdot n (vsub p s0))%T = vdot (vsub q p) n).
    { unfold vdot, vsub, mkv, vx, vy, vz. simpl. ring. }
    unfold vadd, vscale, vsub at 1 2 3 5 6 7, mkv, vx, vy, vz. simpl.
    f_equal; [f_equal|];
      apply (proj_coord_sym (vdot (vsub q p) n) (- vdot (vsub q p) n)%T
                            (vdot n (vsub q s0)) (vdot n (vsub p s0)));
      solve [reflexivity | assumption].
  Qed.

  (** C07_symmetric *)
  Lemma basic_visibility_sym (eps eta : T) (p q : vec) (s : surface) :
    (0 <= eps)%T -> basic_visibility eps eta p q s = basic_visibility eps eta q p s.
  Proof.
    intros He. unfold basic_visibility. cbv zeta.
    rewrite (project_to_plane_sym eps p q (s_p0 s) (s_nrm s) He).
    set (vin := pip eps eta s p). set (ein := pip eps eta s q).
    set (c1 := tltb (vdot (s_nrm s) (vsub q p)) 0%T).
    set (c2 := tltb (vdot (s_nrm s) (vsub p q)) 0%T).
    set (c3 := tltb (tabs (vdot (vsub p (s_p0 s)) (s_nrm s))) eta).
    set (c4 := tltb (tabs (vdot (vsub q (s_p0 s)) (s_nrm s))) eta).
    destruct (project_to_plane false eps q p (s_p0 s) (s_nrm s)) as [x|].
    - rewrite (vdot_comm (vsub x p) (vsub x q)).
      destruct vin, ein, c1, c2, c3, c4; reflexivity.
    - destruct vin, ein, c1, c2, c3, c4; reflexivity.
  Qed.

  Lemma visible_all_sym (eps eta : T) (surfs : list surface) (p q : vec) :
    (0 <= eps)%T -> visible_all eps eta surfs p q = visible_all eps eta surfs q p.
  Proof.
    intros He. unfold visible_all. induction surfs as [|s r IH]; [reflexivity|].
    simpl. rewrite IH. now rewrite (basic_visibility_sym eps eta p q s He).
  Qed.

  (** the relation the pipeline uses ([vis_sym] on the matrix the scan fills) is the
      line-of-sight conjunction between the two centres, in whichever order they are given *)
  Lemma vis_sym_line_of_sight (eps eta : T) (sc : @scene T) centers surfs i j :
    (0 <= eps)%T -> s_visU sc = check_patch2patch eps eta centers surfs ->
    i <> j -> i < length centers -> j < length centers ->
    vis_sym sc i j = visible_all eps eta surfs (nthv centers i) (nthv centers j).
  Proof.
    intros He HU Hne Hi Hj.
    destruct (Nat.lt_ge_cases i j) as [Hij|Hij].
    - now apply (proj1 (vis_sym_of_scan eps eta sc centers surfs i j HU Hij Hj)).
    - assert (Hji : j < i) by lia.
      rewrite (proj2 (vis_sym_of_scan eps eta sc centers surfs j i HU Hji Hi)).
      now apply visible_all_sym.
  Qed.
End Sym.
