(** * C17 (visibility kernel, conditional): [basic_visibility] reads its points only through
    differences and inner products -- EXCEPT inside [point_in_polygon], which rotates the polygon
    to the horizontal plane and shoots a ray along +x there.  So: under a rigid placement map
    [g x = M x + t] the line-of-sight test against a surface gives the same answer PROVIDED the
    (at most three) [point_in_polygon] queries it makes give the same answers in both poses.
    That proviso is not proved (and C07's known finding [ray_through_vertex] shows that
    [point_in_polygon] itself is pose dependent on a thin set). *)
From Coq Require Import List Arith Bool Ring Lia.
Import ListNotations.
From SV Require Import Base.Ops Base.Arr Model.Vec3 Model.Visibility.
From SV Require Import Spec.Isometry Proofs.PtSimilarity Proofs.PlacementTranslate Proofs.PlacementKernels.

Section VisPlace.
  Context {T : Type} {O : Ops T} {RL : RingLaws T}.
  Add Ring TRingPlV : (@ring_th T O RL).

  Variable M : @Isometry.mat T.
  Hypothesis HM : Isometry.orthogonal M.
  Variable t : @vec T.
  Notation g := (place M t).

  (** the surface carried along: every boundary point placed, the normal turned by [M] *)
  Definition place_surface (s : @surface T) : @surface T := (map g (s_pts s), Isometry.mapply M (s_nrm s)).

  Lemma place_p0 (s : @surface T) : s_pts s <> [] -> s_p0 (place_surface s) = g (s_p0 s).
  Proof.
    destruct s as [pts n]. unfold s_p0, place_surface, s_pts, nthv; simpl. intros Hne.
    destruct pts as [|p l]; [now elim Hne|reflexivity].
  Qed.

  Lemma dot_sub_nrm (a b n : @vec T) :
    vdot (vsub (g a) (g b)) (Isometry.mapply M n) = vdot (vsub a b) n.
  Proof. rewrite (place_sub M t). now apply mdot. Qed.
  Lemma dot_nrm_sub (a b n : @vec T) :
    vdot (Isometry.mapply M n) (vsub (g a) (g b)) = vdot n (vsub a b).
  Proof. rewrite (place_sub M t). now apply mdot. Qed.

  Lemma place_lin (w s0 v : @vec T) (fac : T) :
    vadd (vadd (Isometry.mapply M w) (g s0)) (vscale fac (Isometry.mapply M v)) =
    g (vadd (vadd w s0) (vscale fac v)).
  Proof.
    unfold place. rewrite !(madd M), (mscale M).
    destruct (Isometry.mapply M w) as [[? ?] ?], (Isometry.mapply M s0) as [[? ?] ?],
      (Isometry.mapply M v) as [[? ?] ?], t as [[? ?] ?].
    unfold vadd, vscale, mkv, vx, vy, vz; simpl. f_equal; [f_equal|]; ring.
  Qed.

  (** the intersection point with the plane is carried along by the map *)
  Theorem project_to_plane_place (chk : bool) (eps : T) (p q s0 n : @vec T) :
    project_to_plane chk eps (g p) (g q) (g s0) (Isometry.mapply M n) =
    option_map g (project_to_plane chk eps p q s0 n).
  Proof.
    unfold project_to_plane. rewrite !dot_sub_nrm, !dot_nrm_sub.
    destruct (if chk then tltb (vdot (vsub q p) n) (- eps)%T else tltb eps (tabs (vdot (vsub q p) n)));
      [|reflexivity].
    simpl. f_equal. rewrite !(place_sub M t). apply place_lin.
  Qed.

  (** the four-way branch *)
  Theorem basic_visibility_place (eps eta : T) (p q : @vec T) (s : @surface T) :
    s_pts s <> [] ->
    pip eps eta (place_surface s) (g p) = pip eps eta s p ->
    pip eps eta (place_surface s) (g q) = pip eps eta s q ->
    (forall x, project_to_plane false eps p q (s_p0 s) (s_nrm s) = Some x ->
               pip eps eta (place_surface s) (g x) = pip eps eta s x) ->
    basic_visibility eps eta (g p) (g q) (place_surface s) = basic_visibility eps eta p q s.
  Proof.
    intros Hne Hp Hq Hx. unfold basic_visibility.
    rewrite Hp, Hq, (place_p0 s Hne).
    change (s_nrm (place_surface s)) with (Isometry.mapply M (s_nrm s)).
    rewrite project_to_plane_place, !dot_sub_nrm, !dot_nrm_sub.
    destruct (project_to_plane false eps p q (s_p0 s) (s_nrm s)) as [x|] eqn:E; simpl.
    - rewrite (Hx x eq_refl), (place_dot_sub M HM t). reflexivity.
    - reflexivity.
  Qed.

  (** hence the whole scan over the blocking surfaces, for one pair of points *)
  Theorem visible_all_place (eps eta : T) (surfs : list (@surface T)) (p q : @vec T) :
    (forall s, In s surfs ->
       s_pts s <> [] /\
       pip eps eta (place_surface s) (g p) = pip eps eta s p /\
       pip eps eta (place_surface s) (g q) = pip eps eta s q /\
       (forall x, project_to_plane false eps p q (s_p0 s) (s_nrm s) = Some x ->
                  pip eps eta (place_surface s) (g x) = pip eps eta s x)) ->
    visible_all eps eta (map place_surface surfs) (g p) (g q) = visible_all eps eta surfs p q.
  Proof.
    intros H. unfold visible_all. induction surfs as [|s l IH]; [reflexivity|]. simpl.
    destruct (H s (or_introl eq_refl)) as (Hne & Hp & Hq & Hx).
    rewrite (basic_visibility_place eps eta p q s Hne Hp Hq Hx), IH; [reflexivity|].
    intros s' Hs'. apply H. now right.
  Qed.
End VisPlace.
