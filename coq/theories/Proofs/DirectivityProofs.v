(** * Source directivity: the factor enters multiplicatively, is invariant under a common
    rotation of source pose and scene, and a unit table changes nothing. *)
From Coq Require Import List Arith Bool Ring Lia.
Import ListNotations.
From SV Require Import Base.Ops Base.Arr Model.Vec3 Model.Exchange Model.Scene Model.Directivity
  Proofs.SceneRefine.

(** the one law the "unit directivity" clause needs; it holds in every commutative ring and
    for IEEE-754 binary64 multiplication (x * 1.0 is x for every x) *)
Class MulOneLaw (T : Type) {O : Ops T} : Prop := { tmul_one_r : forall x : T, (x * 1)%T = x }.

(** 3x3 matrices as three rows *)
Section Mat.
  Context {T : Type} {O : Ops T}.
  Definition mat : Type := (@vec T * @vec T * @vec T)%type.
  Definition mrow1 (M : mat) : vec := fst (fst M).
  Definition mrow2 (M : mat) : vec := snd (fst M).
  Definition mrow3 (M : mat) : vec := snd M.
  Definition mcol1 (M : mat) : vec := mkv (vx (mrow1 M)) (vx (mrow2 M)) (vx (mrow3 M)).
  Definition mcol2 (M : mat) : vec := mkv (vy (mrow1 M)) (vy (mrow2 M)) (vy (mrow3 M)).
  Definition mcol3 (M : mat) : vec := mkv (vz (mrow1 M)) (vz (mrow2 M)) (vz (mrow3 M)).
  (** matrix times vector *)
  Definition mv (M : mat) (a : vec) : vec :=
    mkv (vdot (mrow1 M) a) (vdot (mrow2 M) a) (vdot (mrow3 M) a).
  Definition mdet (M : mat) : T := vdot (mrow1 M) (vcross (mrow2 M) (mrow3 M)).
  (** M^T M = I: the columns are orthonormal *)
  Definition orthogonal (M : mat) : Prop :=
    vdot (mcol1 M) (mcol1 M) = 1%T /\ vdot (mcol2 M) (mcol2 M) = 1%T /\ vdot (mcol3 M) (mcol3 M) = 1%T /\
    vdot (mcol1 M) (mcol2 M) = 0%T /\ vdot (mcol1 M) (mcol3 M) = 0%T /\ vdot (mcol2 M) (mcol3 M) = 0%T.
  (** proper rotation *)
  Definition rotation (M : mat) : Prop := orthogonal M /\ mdet M = 1%T.

  Definition rotate_orientation (M : mat) (ori : @orientation T) : orientation :=
    mkOrientation (mv M (o_view ori)) (mv M (o_up ori)) (o_dv ori).
End Mat.

Section RingFacts.
  Context {T : Type} {O : Ops T} {RL : RingLaws T}.
  Add Ring TRingDirectivity : (@ring_th T O RL).

  Global Instance MulOne_of_Ring : MulOneLaw T.
  Proof. constructor. intros x. ring. Qed.

  Ltac destr_vec v := let x := fresh v "x" in let y := fresh v "y" in let z := fresh v "z" in
    destruct v as [[x y] z].
  Ltac destr_mat M := let r1 := fresh "r" in let r2 := fresh "s" in let r3 := fresh "u" in
    destruct M as [[r1 r2] r3]; destr_vec r1; destr_vec r2; destr_vec r3.
  Ltac crunch := unfold mv, mdet, mcol1, mcol2, mcol3, mrow1, mrow2, mrow3, vsub, vcross, vdot, vopp,
                 mkv, vx, vy, vz; simpl.

  Lemma vec_eq (a b c a' b' c' : T) : a = a' -> b = b' -> c = c' -> mkv a b c = mkv a' b' c'.
  Proof. now intros -> -> ->. Qed.

  (** linearity *)
  Lemma mv_sub (M : mat) a b : vsub (mv M a) (mv M b) = mv M (vsub a b).
  Proof.
    destr_mat M; destr_vec a; destr_vec b. crunch.
    apply vec_eq; ring.
  Qed.

  (** <M a, M b> as a bilinear form in the Gram matrix of the columns *)
  Lemma dot_mv_expand (M : mat) a b :
    vdot (mv M a) (mv M b) =
    (((vx a * vx b) * vdot (mcol1 M) (mcol1 M) + (vy a * vy b) * vdot (mcol2 M) (mcol2 M)
       + (vz a * vz b) * vdot (mcol3 M) (mcol3 M))
     + ((vx a * vy b + vy a * vx b) * vdot (mcol1 M) (mcol2 M)
        + (vx a * vz b + vz a * vx b) * vdot (mcol1 M) (mcol3 M)
        + (vy a * vz b + vz a * vy b) * vdot (mcol2 M) (mcol3 M)))%T.
  Proof. destr_mat M; destr_vec a; destr_vec b. crunch. ring. Qed.

  Lemma dot_mv (M : mat) a b : orthogonal M -> vdot (mv M a) (mv M b) = vdot a b.
  Proof.
    intros (H11 & H22 & H33 & H12 & H13 & H23).
    rewrite dot_mv_expand, H11, H22, H33, H12, H13, H23.
    destr_vec a; destr_vec b. crunch. ring.
  Qed.

  (** multiplicativity of the 3x3 determinant: det [M d, M a, M b] = det M * det [d, a, b] *)
  Lemma triple_mv (M : mat) d a b :
    vdot (mv M d) (vcross (mv M a) (mv M b)) = (mdet M * vdot d (vcross a b))%T.
  Proof. destr_mat M; destr_vec d; destr_vec a; destr_vec b. crunch. ring. Qed.

  Lemma dot_opp a b : vdot a (vopp b) = (- vdot a b)%T.
  Proof. destr_vec a; destr_vec b. crunch. ring. Qed.

  (** the frame coordinates of [_get_metrics] do not change under a common proper rotation *)
  Lemma metrics_w_corotate (M : mat) pos view up target : rotation M ->
    metrics_w (mv M pos) (mv M view) (mv M up) (mv M target) = metrics_w pos view up target.
  Proof.
    intros (Horth & Hdet). unfold metrics_w. cbv zeta. rewrite mv_sub.
    rewrite triple_mv, Hdet, !dot_opp, !(dot_mv M _ _ Horth).
    apply vec_eq; ring.
  Qed.

  Lemma frame_dir_n_corotate (M : mat) pos view up target : rotation M ->
    frame_dir_n (mv M pos) (mv M view) (mv M up) (mv M target) = frame_dir_n pos view up target.
  Proof. intros H. unfold frame_dir_n. now rewrite metrics_w_corotate. Qed.

  (** Gram determinant: det[d,v,u]^2 = det of the Gram matrix *)
  Lemma triple_sq d v u :
    (vdot d (vcross v u) * vdot d (vcross v u))%T =
    (vdot d d * (vdot v v * vdot u u - vdot v u * vdot v u)
     - vdot d v * (vdot d v * vdot u u - vdot d u * vdot v u)
     + vdot d u * (vdot d v * vdot v u - vdot d u * vdot v v))%T.
  Proof. destr_vec d; destr_vec v; destr_vec u. crunch. ring. Qed.

  (** for an orthonormal view/up the normaliser sqrt(<w,w>) is the distance |target - pos| *)
  Lemma metrics_w_norm pos view up target :
    vdot view view = 1%T -> vdot up up = 1%T -> vdot view up = 0%T ->
    let w := metrics_w pos view up target in
    vdot w w = vdot (vsub target pos) (vsub target pos).
  Proof.
    intros Hv Hu Hvu. cbv zeta. unfold metrics_w. cbv zeta.
    set (d := vsub target pos).
    assert (E : forall a b c : T, vdot (mkv a b c) (mkv a b c) = (a * a + b * b + c * c)%T)
      by (intros; reflexivity).
    rewrite E, triple_sq, !dot_opp, Hv, Hu, Hvu. ring.
  Qed.

  Section WithField.
    Context {FL : FieldLaws T}.

    Lemma div_as_mul (a s : T) : s <> 0%T -> (a / s)%T = (a * (1 / s))%T.
    Proof.
      intros Hs. pose proof (tdiv_mul a s Hs) as H1. pose proof (tdiv_mul 1%T s Hs) as H2.
      transitivity ((a / s) * ((1 / s) * s))%T; [rewrite H2; ring|].
      transitivity (((a / s) * s) * (1 / s))%T; [ring|]. now rewrite H1.
    Qed.

    Lemma mv_divs (M : mat) a s : s <> 0%T -> mv M (vdivs a s) = vdivs (mv M a) s.
    Proof.
      intros Hs. destr_mat M; destr_vec a. unfold vdivs. crunch.
      pose proof (fun x => div_as_mul x s Hs) as E. set (q := (1 / s)%T) in E. clearbody q.
      rewrite !E. apply vec_eq; ring.
    Qed.

    (** [SoundObject.__init__]'s normalisation commutes with an orthogonal map *)
    Lemma unit_of_mv (M : mat) a : orthogonal M -> tsqrt (vdot a a) <> 0%T ->
      unit_of (mv M a) = mv M (unit_of a).
    Proof. intros Horth Hs. unfold unit_of. now rewrite (dot_mv M a a Horth), mv_divs. Qed.

    Lemma frame_dir_corotate (M : mat) pos view up target : rotation M ->
      tsqrt (vdot view view) <> 0%T -> tsqrt (vdot up up) <> 0%T ->
      frame_dir (mv M pos) (mv M view) (mv M up) (mv M target) = frame_dir pos view up target.
    Proof.
      intros HM Hv Hu. unfold frame_dir.
      rewrite (unit_of_mv M view (proj1 HM) Hv), (unit_of_mv M up (proj1 HM) Hu).
      now apply frame_dir_n_corotate.
    Qed.

    (** every lookup and factor is unchanged *)
    Lemma dirfac_corotate (M : mat) ori pos target f : rotation M ->
      tsqrt (vdot (o_view ori) (o_view ori)) <> 0%T -> tsqrt (vdot (o_up ori) (o_up ori)) <> 0%T ->
      dir_index (rotate_orientation M ori) (mv M pos) (mv M target) = dir_index ori pos target /\
      dirfac (rotate_orientation M ori) (mv M pos) (mv M target) f = dirfac ori pos target f.
    Proof.
      intros HM Hv Hu.
      assert (E : dir_index (rotate_orientation M ori) (mv M pos) (mv M target) = dir_index ori pos target).
      { unfold dir_index. simpl. now rewrite frame_dir_corotate. }
      split; [exact E|]. unfold dirfac. now rewrite E.
    Qed.

    (** scene level: a scene [sc'] whose patch centres are the rotated centres of [sc], a
        source and a receiver at the rotated positions, the source orientation rotated too *)
    Lemma scene_corotate (M : mat) (sc sc' : @scene T) bandf ori (s s' : @source T) (r r' : @receiver T) :
      rotation M ->
      tsqrt (vdot (o_view ori) (o_view ori)) <> 0%T -> tsqrt (vdot (o_up ori) (o_up ori)) <> 0%T ->
      s_np sc' = s_np sc -> s_nb sc' = s_nb sc ->
      (forall i, i < s_np sc -> center sc' i = mv M (center sc i)) ->
      src_pos s' = mv M (src_pos s) -> r_pos r' = mv M (r_pos r) ->
      source_dirfac sc' bandf (rotate_orientation M ori) s' = source_dirfac sc bandf ori s /\
      recv_dirfac sc' bandf (rotate_orientation M ori) s' r' = recv_dirfac sc bandf ori s r.
    Proof.
      intros HM Hv Hu Hnp Hnb Hc Hs Hr. unfold source_dirfac, recv_dirfac. rewrite Hnp, Hnb. split.
      - apply tab_ext. intros i Hi. apply tab_ext. intros b Hb.
        unfold dirfac_patch. rewrite Hs, (Hc i Hi). now apply dirfac_corotate.
      - apply tab_ext. intros b Hb. unfold dirfac_recv. rewrite Hs, Hr. now apply dirfac_corotate.
    Qed.
  End WithField.
End RingFacts.

(** the factor enters multiplicatively (no law needed) *)
Section Factor.
  Context {T : Type} {O : Ops T}.
  Variable sc : @scene T.
  Variable bandf : list T.

  Lemma get2_tab n m (f : nat -> nat -> T) i j : i < n -> j < m ->
    get2 (tab n (fun i => tab m (fun j => f i j))) i j = f i j.
  Proof.
    intros Hi Hj. unfold get2, nthT, nthl. now rewrite (nth_tab n _ [] i Hi), (nth_tab m _ 0%T j Hj).
  Qed.

  Lemma source_dirfac_get ori s i b : i < s_np sc -> b < s_nb sc ->
    get2 (source_dirfac sc bandf ori s) i b =
    get2 (dv_table (o_dv ori)) (dir_index ori (src_pos s) (center sc i)) (freq_index ori (nthT bandf b)).
  Proof. intros Hi Hb. unfold source_dirfac. now rewrite get2_tab. Qed.

  Lemma recv_dirfac_get ori s r b : b < s_nb sc ->
    nthT (recv_dirfac sc bandf ori s r) b =
    get2 (dv_table (o_dv ori)) (dir_index ori (src_pos s) (r_pos r)) (freq_index ori (nthT bandf b)).
  Proof. intros Hb. unfold recv_dirfac, nthT. now rewrite (nth_tab _ _ 0%T b Hb). Qed.

  Lemma e0dir_factor ori s i d b : i < s_np sc -> b < s_nb sc ->
    e0dir_entry sc (with_directivity sc bandf ori s) i d b =
    (e0dir_entry sc (omni s) i d b *
     get2 (dv_table (o_dv ori)) (dir_index ori (src_pos s) (center sc i)) (freq_index ori (nthT bandf b)))%T.
  Proof.
    intros Hi Hb. unfold e0dir_entry, with_directivity, omni. simpl.
    now rewrite source_dirfac_get.
  Qed.

  Lemma direct_factor ori s r b : b < s_nb sc ->
    direct_val sc (with_directivity sc bandf ori s) r (Some (recv_dirfac sc bandf ori s r)) b =
    (direct_val sc (omni s) r None b *
     get2 (dv_table (o_dv ori)) (dir_index ori (src_pos s) (r_pos r)) (freq_index ori (nthT bandf b)))%T.
  Proof. intros Hb. unfold direct_val. now rewrite recv_dirfac_get. Qed.

  (** a source object without directivity is the omnidirectional source: the model has no
      orientation input in that case *)
  Lemma no_directivity_omni (s : @source T) : src_dirfac s = None -> s = omni s.
  Proof. destruct s as [p v sh df]. simpl. intros ->. reflexivity. Qed.

  (** a non-empty table that is 1 at every measured direction and frequency *)
  Definition unit_table (ori : @orientation T) : Prop :=
    dv_recv (o_dv ori) <> [] /\ dv_freqs (o_dv ori) <> [] /\
    forall k n, k < length (dv_recv (o_dv ori)) -> n < length (dv_freqs (o_dv ori)) ->
                get2 (dv_table (o_dv ori)) k n = 1%T.

  Lemma dir_index_lt ori pos target : dv_recv (o_dv ori) <> [] ->
    dir_index ori pos target < length (dv_recv (o_dv ori)).
  Proof.
    intros Hne. unfold dir_index, lookup, nearest.
    rewrite <- (map_length (fun d => vdist2 d (frame_dir pos (o_view ori) (o_up ori) target))).
    apply argmin_lt. intros E. apply (f_equal (@length _)) in E. rewrite map_length in E.
    destruct (dv_recv (o_dv ori)); [congruence|discriminate].
  Qed.

  Lemma freq_index_lt ori f : dv_freqs (o_dv ori) <> [] ->
    freq_index ori f < length (dv_freqs (o_dv ori)).
  Proof.
    intros Hne. unfold freq_index, nearest_freq.
    rewrite <- (map_length (fun fk => tabs (fk - f)%T)).
    apply argmin_lt. intros E. apply (f_equal (@length _)) in E. rewrite map_length in E.
    destruct (dv_freqs (o_dv ori)); [congruence|discriminate].
  Qed.

  Lemma unit_table_entry ori pos target f : unit_table ori ->
    get2 (dv_table (o_dv ori)) (dir_index ori pos target) (freq_index ori f) = 1%T.
  Proof. intros (H1 & H2 & H). apply H; [now apply dir_index_lt|now apply freq_index_lt]. Qed.

  Section Unit.
    Context {ML : MulOneLaw T}.

    Lemma e0dir_unit ori s : unit_table ori ->
      e0dir sc (with_directivity sc bandf ori s) = e0dir sc (omni s).
    Proof.
      intros Hu. unfold e0dir. apply tab_ext. intros i Hi. apply tab_ext. intros d Hd.
      apply tab_ext. intros b Hb. rewrite e0dir_factor by assumption. now rewrite (unit_table_entry _ _ _ _ Hu), tmul_one_r.
    Qed.

    Lemma direct_unit ori s r b : unit_table ori -> b < s_nb sc ->
      direct_val sc (with_directivity sc bandf ori s) r (Some (recv_dirfac sc bandf ori s r)) b =
      direct_val sc (omni s) r None b.
    Proof. intros Hu Hb. rewrite direct_factor by assumption. now rewrite (unit_table_entry _ _ _ _ Hu), tmul_one_r. Qed.

    Lemma patch_hist_unit ori s tm K : unit_table ori ->
      patch_hist sc tm (with_directivity sc bandf ori s) K = patch_hist sc tm (omni s) K.
    Proof. intros Hu. unfold patch_hist. now rewrite e0dir_unit. Qed.

    Lemma mono_unit ori s r tm E direct : unit_table ori ->
      mono sc tm E (with_directivity sc bandf ori s) r direct (Some (recv_dirfac sc bandf ori s r)) =
      mono sc tm E (omni s) r direct None.
    Proof.
      intros Hu. unfold mono. destruct direct; [|reflexivity].
      apply tab_ext. intros b Hb. apply tab_ext. intros t Ht.
      now rewrite (direct_unit ori s r b Hu Hb).
    Qed.
  End Unit.
End Factor.
