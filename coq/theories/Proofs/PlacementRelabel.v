(** * C17 (renumbering): the L0 recursion does not depend on how the patches are numbered.

    An axis permutation or a mirroring makes [_create_patches] enumerate the patches of a wall
    in another order.  If [sigma] is the renumbering (injective on the patches that occur), the
    pair list of the new scene is any permutation of the [sigma]-image of the old one, and the
    kernel data are the [sigma]-transported data (delay bins equal because the placement map is
    an isometry, see [PlacementKernels.v]), then every histogram of patch [sigma j] in the new
    scene is the histogram of patch [j] in the old one -- all orders, slots, bands and bins.
    Commutative ring only (a finite sum does not depend on the order of its terms). *)
From Coq Require Import List Arith Bool Ring Lia Permutation.
Import ListNotations.
From SV Require Import Base.Ops Base.Arr Base.Sums Model.Vec3 Model.Exchange Model.Scene
  Spec.ExchangeSpec Proofs.ExchangeL0 Proofs.ExchangeRefine Proofs.SceneRefine.

Section SumPerm.
  Context {T : Type} {O : Ops T} {RL : RingLaws T}.
  Add Ring TRingPlR0 : (@ring_th T O RL).

  (** finite sums are invariant under permutations of the index list *)
  Lemma sumf_perm {A} (l l' : list A) (f : A -> T) : Permutation l l' -> sumf l f = sumf l' f.
  Proof.
    intros HP. induction HP as [|x l l' HP IH|x y l|l l' l'' HP1 IH1 HP2 IH2]; simpl.
    - reflexivity.
    - now rewrite IH.
    - ring.
    - now rewrite IH1.
  Qed.
End SumPerm.

Section FilterPerm.
  Lemma Permutation_filter' {A} (p : A -> bool) (l l' : list A) :
    Permutation l l' -> Permutation (filter p l) (filter p l').
  Proof.
    intros HP. induction HP as [|x l l' HP IH|x y l|l l' l'' HP1 IH1 HP2 IH2]; simpl.
    - constructor.
    - destruct (p x); [now constructor|exact IH].
    - destruct (p y), (p x); try apply Permutation_refl. apply perm_swap.
    - eapply Permutation_trans; eassumption.
  Qed.
End FilterPerm.

Section Relabel.
  Context {T : Type} {O : Ops T} {RL : RingLaws T}.

  Variable sigma : nat -> nat.
  Definition sig2 (p : nat * nat) : nat * nat := (sigma (fst p), sigma (snd p)).

  Variables P P' : list (nat * nat).
  Variable dom : nat -> Prop.                       (* the patches that occur *)
  Hypothesis Hdom : forall i j, In (i, j) P -> dom i /\ dom j.
  Hypothesis Hinj : forall x y, dom x -> dom y -> sigma x = sigma y -> x = y.
  Hypothesis Hperm : Permutation P' (map sig2 P).

  Variables (delta delta' : nat -> nat -> nat) (c c' : nat -> nat -> nat -> nat -> T)
            (out out' : nat -> nat -> nat) (delta0 delta0' : nat -> nat)
            (e0 e0' : nat -> nat -> nat -> T).
  Hypothesis Hdelta : forall i j, In (i, j) P -> delta' (sigma i) (sigma j) = delta i j.
  Hypothesis Hout : forall i j, In (i, j) P -> out' (sigma i) (sigma j) = out i j.
  Hypothesis Hc : forall i j d b, In (i, j) P -> c' (sigma i) (sigma j) d b = c i j d b.
  Hypothesis Hd0 : forall j, dom j -> delta0' (sigma j) = delta0 j.
  Hypothesis He0 : forall j d b, dom j -> e0' (sigma j) d b = e0 j d b.

  (** the pairs arriving at [sigma j] are the images of the pairs arriving at [j] *)
  Lemma filter_map_sigma j (l : list (nat * nat)) : dom j -> (forall p, In p l -> dom (snd p)) ->
    filter (fun p => snd p =? sigma j) (map sig2 l) = map sig2 (filter (fun p => snd p =? j) l).
  Proof.
    intros Hj. induction l as [|p l IH]; intros Hl; [reflexivity|]. simpl.
    rewrite IH by (intros q Hq; apply Hl; now right).
    assert (Hp : dom (snd p)) by (apply Hl; now left).
    destruct (Nat.eqb_spec (snd p) j) as [E|NE].
    - rewrite E, Nat.eqb_refl. reflexivity.
    - destruct (Nat.eqb_spec (sigma (snd p)) (sigma j)) as [E|_]; [|reflexivity].
      exfalso. apply NE. now apply Hinj.
  Qed.

  Lemma into_relabel j : dom j -> Permutation (into P' (sigma j)) (map sig2 (into P j)).
  Proof.
    intros Hj. unfold into.
    rewrite <- (filter_map_sigma j P Hj).
    - now apply Permutation_filter'.
    - intros [a b] Hp. simpl. now destruct (Hdom a b Hp).
  Qed.

  (** ** the theorem: histograms correspond under the renumbering *)
  Theorem E_relabel k : forall j d b t, dom j ->
    E P' delta' c' out' delta0' e0' k (sigma j) d b t = E P delta c out delta0 e0 k j d b t.
  Proof.
    induction k as [|k IH]; intros j d b t Hj; simpl.
    - unfold E0. now rewrite Hd0, He0.
    - rewrite (sumf_perm _ _ _ (into_relabel j Hj)), sumf_map.
      apply sumf_ext. intros [i j'] Hp. apply in_into in Hp. destruct Hp as [HpP Hj']. simpl in Hj'. subst j'.
      simpl fst. destruct (Hdom i j HpP) as [Hi _].
      rewrite (Hdelta i j HpP), (Hout i j HpP), (Hc i j d b HpP). unfold shiftf.
      destruct (t <? delta i j); [reflexivity|]. f_equal. now apply IH.
  Qed.

  Corollary Tot_relabel K j d b t : dom j ->
    Tot P' delta' c' out' delta0' e0' K (sigma j) d b t = Tot P delta c out delta0 e0 K j d b t.
  Proof. intros Hj. unfold Tot. apply sumf_ext. intros k _. now apply E_relabel. Qed.

  (** every arrival (bin, weight) of the path expansion corresponds as well, up to the order in
      which the paths are listed *)
  Theorem contrib_relabel k : forall j d b, dom j ->
    Permutation (contrib P' delta' c' out' delta0' e0' k (sigma j) d b)
                (contrib P delta c out delta0 e0 k j d b).
  Proof.
    induction k as [|k IH]; intros j d b Hj; simpl.
    - rewrite Hd0, He0 by assumption. apply Permutation_refl.
    - eapply Permutation_trans.
      + apply Permutation_flat_map. exact (into_relabel j Hj).
      + rewrite flat_map_concat_map, map_map, <- flat_map_concat_map.
        assert (Hall : forall l, (forall p, In p l -> In p (into P j)) ->
          Permutation
            (flat_map (fun p => map (fun lw => (fst lw + delta' (fst (sig2 p)) (sigma j),
                                               (c' (fst (sig2 p)) (sigma j) d b * snd lw)%T))
                        (contrib P' delta' c' out' delta0' e0' k (fst (sig2 p)) (out' (fst (sig2 p)) (sigma j)) b)) l)
            (flat_map (fun p => map (fun lw => (fst lw + delta (fst p) j, (c (fst p) j d b * snd lw)%T))
                        (contrib P delta c out delta0 e0 k (fst p) (out (fst p) j) b)) l)).
        { induction l as [|[i j'] l IHl]; intros Hl; [apply Permutation_refl|]. simpl.
          assert (Hp : In (i, j') (into P j)) by (apply Hl; now left).
          apply in_into in Hp. destruct Hp as [HpP E]. simpl in E. subst j'.
          destruct (Hdom i j HpP) as [Hi _].
          apply Permutation_app; [|apply IHl; intros q Hq; apply Hl; now right].
          rewrite (Hdelta i j HpP), (Hout i j HpP), (Hc i j d b HpP).
          apply Permutation_map. now apply IH. }
        apply Hall. auto.
  Qed.
End Relabel.

(** ** the pipeline model: two scenes related by a renumbering of the patches *)
Section SceneRelabel.
  Context {T : Type} {O : Ops T} {RL : RingLaws T}.
  Variables sc sc' : @scene T.
  Variable sigma : nat -> nat.
  Variables (tm : @timing T) (s s' : @source T).

  Hypothesis WF : wf_scene sc.
  Hypothesis WF' : wf_scene sc'.
  Hypothesis Hnp : s_np sc' = s_np sc.
  Hypothesis Hnd : s_nd sc' = s_nd sc.
  Hypothesis Hnb : s_nb sc' = s_nb sc.
  Hypothesis Hrange : forall j, j < s_np sc -> sigma j < s_np sc.
  Hypothesis Hinj : forall x y, x < s_np sc -> y < s_np sc -> sigma x = sigma y -> x = y.
  (** the visible pairs of the new scene are the images of the old ones, in any order and with
      either orientation (the list [directed] holds both) *)
  Hypothesis Hpairs : Permutation (directed (vis_pairs sc'))
                                  (map (sig2 sigma) (directed (vis_pairs sc))).
  (** kernel data transported by [sigma] *)
  Hypothesis Hdelta : forall i j, i < s_np sc -> j < s_np sc ->
    scene_delta sc' tm (sigma i) (sigma j) = scene_delta sc tm i j.
  Hypothesis Hout : forall i j, i < s_np sc -> j < s_np sc ->
    out_index sc' (sigma i) (sigma j) = out_index sc i j.
  Hypothesis Htilde : forall i j d b, i < s_np sc -> j < s_np sc ->
    tilde_entry sc' (sigma i) (sigma j) d b = tilde_entry sc i j d b.
  Hypothesis Hd0 : forall j, j < s_np sc -> scene_delta0 sc' tm s' (sigma j) = scene_delta0 sc tm s j.
  Hypothesis He0 : forall j d b, j < s_np sc -> e0dir_entry sc' s' (sigma j) d b = e0dir_entry sc s j d b.

  Theorem patch_hist_relabel K j d b t :
    j < s_np sc -> d < s_nd sc -> b < s_nb sc -> t < n_samples tm ->
    get4 (patch_hist sc' tm s' K) (sigma j) d b t = get4 (patch_hist sc tm s K) j d b t.
  Proof.
    intros Hj Hd Hb Ht.
    rewrite (patch_hist_refines sc' tm s' K (sigma j) d b t WF')
      by (rewrite ?Hnp, ?Hnd, ?Hnb; auto).
    rewrite (patch_hist_refines sc tm s K j d b t WF) by assumption.
    apply (Tot_relabel sigma (directed (vis_pairs sc)) (directed (vis_pairs sc')) (fun x => x < s_np sc));
      try assumption.
    - intros i j' Hin. destruct (directed_pairs_ok sc i j' WF Hin) as (Hi & Hj' & _). now split.
    - intros i j' Hin. destruct (directed_pairs_ok sc i j' WF Hin) as (Hi & Hj' & _). now apply Hdelta.
    - intros i j' Hin. destruct (directed_pairs_ok sc i j' WF Hin) as (Hi & Hj' & _). now apply Hout.
    - intros i j' d' b' Hin. destruct (directed_pairs_ok sc i j' WF Hin) as (Hi & Hj' & _). now apply Htilde.
  Qed.
End SceneRelabel.
