(** * The directed visible-pair list as a matrix: duplicate-freeness, membership, and
    sums over pairs rewritten as sums over all patches. *)
From Coq Require Import List Arith Bool Ring Lia.
Import ListNotations.
From SV Require Import Base.Ops Base.Arr Base.Sums Model.Vec3 Model.Exchange Model.Scene
  Spec.ExchangeSpec Proofs.ExchangeL0 Proofs.SceneRefine.

Lemma NoDup_app_intro {A} (a b : list A) :
  NoDup a -> NoDup b -> (forall x, In x a -> ~ In x b) -> NoDup (a ++ b).
Proof.
  induction a as [|x a IH]; intros Ha Hb Hd; simpl; [exact Hb|].
  inversion Ha as [|? ? Hx Ha']; subst. constructor.
  - intros Hin. apply in_app_or in Hin. destruct Hin as [Hin|Hin]; [contradiction|].
    apply (Hd x); [now left|exact Hin].
  - apply IH; [exact Ha'|exact Hb|]. intros y Hy. apply Hd. now right.
Qed.

Lemma NoDup_flat_map {A B} (f : A -> list B) (l : list A) :
  NoDup l -> (forall x, In x l -> NoDup (f x)) ->
  (forall x y, In x l -> In y l -> x <> y -> forall b, In b (f x) -> ~ In b (f y)) ->
  NoDup (flat_map f l).
Proof.
  induction l as [|x l IH]; intros Hl Hf Hd; simpl; [constructor|].
  inversion Hl as [|? ? Hx Hl']; subst.
  apply NoDup_app_intro.
  - apply Hf. now left.
  - apply IH; [exact Hl'| |].
    + intros y Hy. apply Hf. now right.
    + intros y z Hy Hz. apply Hd; now right.
  - intros b Hb Hin. apply in_flat_map in Hin. destruct Hin as (y & Hy & Hby).
    assert (Hxy : x <> y) by (intros ->; contradiction).
    exact (Hd x y (or_introl eq_refl) (or_intror Hy) Hxy b Hb Hby).
Qed.

(** boolean membership of a pair *)
Definition pmem (m n : nat) (P : list (nat * nat)) : bool :=
  existsb (fun p => (fst p =? m) && (snd p =? n)) P.

Lemma pmem_In m n P : pmem m n P = true <-> In (m, n) P.
Proof.
  unfold pmem. rewrite existsb_exists. split.
  - intros ((a, b) & Hin & H). simpl in H. apply andb_true_iff in H. destruct H as [H1 H2].
    apply Nat.eqb_eq in H1, H2. now subst.
  - intros H. exists (m, n). split; [exact H|]. simpl. now rewrite !Nat.eqb_refl.
Qed.
Lemma pmem_false m n P : ~ In (m, n) P -> pmem m n P = false.
Proof. intros H. destruct (pmem m n P) eqn:E; [|reflexivity]. apply pmem_In in E. contradiction. Qed.

Section PairSums.
  Context {T : Type} {O : Ops T} {RL : RingLaws T}.
  Add Ring TRingPL : (@ring_th T O RL).

  (** a sum over the pairs that target [j] is a sum over all patches with a membership gate *)
  Lemma sum_into_matrix (P : list (nat * nat)) (ps : list nat) (j : nat) (g : nat -> T) :
    NoDup P -> NoDup ps -> (forall p, In p P -> In (fst p) ps) ->
    sumf (into P j) (fun p => g (fst p)) = sumf ps (fun m => if pmem m j P then g m else 0%T).
  Proof.
    intros HP Hps Hin. induction P as [|[a b] P' IH].
    - simpl. symmetry. apply sumf_zero.
    - inversion HP as [|? ? Hnot HP']; subst.
      assert (IH' := IH HP' (fun p Hp => Hin p (or_intror Hp))). clear IH.
      unfold into in *. simpl filter.
      destruct (Nat.eqb_spec b j) as [->|Hne].
      + simpl. rewrite IH'.
        rewrite (sumf_ext ps (fun m => if pmem m j ((a, j) :: P') then g m else 0%T)
                   (fun m => ((if a =? m then g a else 0) + (if pmem m j P' then g m else 0))%T)).
        * rewrite sumf_add. rewrite sumf_pick; [reflexivity|exact Hps|].
          apply (Hin (a, j)). now left.
        * intros m _. unfold pmem at 1. simpl. rewrite Nat.eqb_refl, andb_true_r.
          destruct (Nat.eqb_spec a m) as [<-|Hnm]; simpl.
          -- rewrite (pmem_false a j P') by exact Hnot. ring.
          -- fold (pmem m j P'). ring.
      + rewrite IH'. apply sumf_ext. intros m _. unfold pmem at 2. simpl.
        destruct (Nat.eqb_spec b j); [contradiction|]. rewrite andb_false_r. simpl. reflexivity.
  Qed.
End PairSums.

Section ScenePairs.
  Context {T : Type} {O : Ops T}.
  Variable sc : @scene T.
  Hypothesis WF : wf_scene sc.

  Lemma vis_pairs_NoDup : NoDup (vis_pairs sc).
  Proof.
    unfold vis_pairs. apply NoDup_flat_map.
    - apply seq_NoDup.
    - intros i _. apply NoDup_flat_map.
      + apply seq_NoDup.
      + intros j _. destruct (get2b (s_visU sc) i j); constructor; [intros []|constructor].
      + intros j j' _ _ Hne b Hb Hb'.
        destruct (get2b (s_visU sc) i j); [|destruct Hb].
        destruct (get2b (s_visU sc) i j'); [|destruct Hb'].
        destruct Hb as [<-|[]]. destruct Hb' as [E|[]]. congruence.
    - intros i i' _ _ Hne b Hb Hb'.
      apply in_flat_map in Hb. destruct Hb as (j & _ & Hb).
      apply in_flat_map in Hb'. destruct Hb' as (j' & _ & Hb').
      destruct (get2b (s_visU sc) i j); [|destruct Hb].
      destruct (get2b (s_visU sc) i' j'); [|destruct Hb'].
      destruct Hb as [<-|[]]. destruct Hb' as [E|[]]. congruence.
  Qed.

  Lemma vis_pairs_lt i j : In (i, j) (vis_pairs sc) -> i < j.
  Proof. intros H. apply in_vis_pairs in H. destruct H as (_ & _ & Hv). destruct WF as (Hup & _). now apply Hup. Qed.

  Lemma directed_NoDup : NoDup (directed (vis_pairs sc)).
  Proof.
    unfold directed. apply NoDup_flat_map.
    - apply vis_pairs_NoDup.
    - intros [i j] Hin. pose proof (vis_pairs_lt i j Hin). simpl.
      constructor; [intros [E|[]]; injection E; lia|constructor; [intros []|constructor]].
    - intros [i j] [i' j'] Hp Hq Hne b Hb Hb'.
      pose proof (vis_pairs_lt i j Hp). pose proof (vis_pairs_lt i' j' Hq).
      simpl in Hb, Hb'.
      destruct Hb as [<-|[<-|[]]]; destruct Hb' as [E|[E|[]]]; injection E; intros; subst; try lia; congruence.
  Qed.

  (** membership in the directed list is the symmetric visibility relation *)
  Lemma pmem_directed i j : i < s_np sc -> j < s_np sc ->
    pmem i j (directed (vis_pairs sc)) = vis_sym sc i j && negb (i =? j).
  Proof.
    intros Hi Hj. destruct WF as (Hup & _).
    destruct (pmem i j (directed (vis_pairs sc))) eqn:E.
    - apply pmem_In in E. destruct (directed_pairs_ok sc i j WF E) as (_ & _ & Hv). rewrite Hv.
      apply in_directed in E. destruct E as [E|E]; apply vis_pairs_lt in E;
        destruct (Nat.eqb_spec i j); try lia; reflexivity.
    - destruct (vis_sym sc i j) eqn:Hv; [|reflexivity]. destruct (Nat.eqb_spec i j) as [->|Hne]; [reflexivity|].
      exfalso. assert (In (i, j) (directed (vis_pairs sc))).
      { apply in_directed. unfold vis_sym in Hv. destruct (Nat.ltb_spec i j).
        - left. apply in_vis_pairs. auto.
        - right. apply in_vis_pairs. auto. }
      apply pmem_In in H. congruence.
  Qed.

  Lemma vis_sym_diag i : vis_sym sc i i = false.
  Proof.
    destruct WF as (Hup & _). unfold vis_sym. rewrite Nat.ltb_irrefl.
    destruct (get2b (s_visU sc) i i) eqn:E; [|reflexivity]. apply Hup in E. lia.
  Qed.
End ScenePairs.
