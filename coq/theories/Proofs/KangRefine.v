(** * The executable Kang model computes the L0 recursion restricted to [0, N):
    pointwise characterisation of one order step (with the column arithmetic of
    [get_form_factor]), refinement of all orders, window facts, receiver collection,
    direct sound, monotonicity in the maximum order. *)
From Coq Require Import List Arith Bool Ring Lia.
Import ListNotations.
From SV Require Import Base.Ops Base.Arr Base.Sums Model.Vec3 Model.Exchange Model.Kang
  Spec.ExchangeSpec Spec.KangSpec Proofs.ExchangeL0.

Section KangLists.
  Context {T : Type} {O : Ops T} {RL : RingLaws T}.
  Add Ring TRingKL : (@ring_th T O RL).

  Lemma nthT_tab N (f : nat -> T) t : t < N -> nthT (tab N f) t = f t.
  Proof. intros H. unfold nthT. now apply nth_tab. Qed.
  Lemma nthT_tab_out N (f : nat -> T) t : N <= t -> nthT (tab N f) t = 0%T.
  Proof. intros H. unfold nthT. now apply nth_tab_out. Qed.
  Lemma nthT_out (l : list T) t : length l <= t -> nthT l t = 0%T.
  Proof. intros H. unfold nthT. now apply nth_overflow. Qed.

  Lemma nthT_khzero N t : nthT (khzero N) t = 0%T.
  Proof.
    unfold khzero. destruct (Nat.lt_ge_cases t N); [now rewrite nthT_tab|now rewrite nthT_tab_out].
  Qed.
  Lemma khzero_length N : length (@khzero T O N) = N.
  Proof. apply tab_length. Qed.
  Lemma nthT_khadd N (a e : list T) t : t < N -> nthT (khadd N a e) t = (nthT a t + nthT e t)%T.
  Proof. intros H. unfold khadd. now rewrite nthT_tab. Qed.
  Lemma khadd_length N (a e : list T) : length (khadd N a e) = N.
  Proof. apply tab_length. Qed.

  Lemma nthT_map (f : T -> T) (l : list T) t : t < length l -> nthT (map f l) t = f (nthT l t).
  Proof.
    intros H. unfold nthT. rewrite nth_indep with (d' := f 0%T) by now rewrite map_length.
    apply map_nth.
  Qed.

  Lemma shift_trunc_length N d (h : list T) : length (shift_trunc N d h) = N.
  Proof. apply tab_length. Qed.
  Lemma nthT_shift_trunc N d (h : list T) t : t < N ->
    nthT (shift_trunc N d h) t = shiftf d (nthT h) t.
  Proof. intros H. unfold shift_trunc, shiftf. now rewrite nthT_tab. Qed.
  Lemma nthT_shift_trunc_out N d (h : list T) t : N <= t -> nthT (shift_trunc N d h) t = 0%T.
  Proof. intros H. unfold shift_trunc. now rewrite nthT_tab_out. Qed.

  (** accumulation loops: [acc += f x] over a list, and the two-level loop *)
  Lemma fold_khadd {A} N (f : A -> list T) (l : list A) : forall a0 t, t < N ->
    nthT (fold_left (fun acc x => khadd N acc (f x)) l a0) t
    = (nthT a0 t + sumf l (fun x => nthT (f x) t))%T.
  Proof.
    induction l as [|x l IH]; intros a0 t Ht; simpl; [ring|].
    rewrite IH by exact Ht. rewrite nthT_khadd by exact Ht. ring.
  Qed.
  Lemma fold_khadd2 {A B} N (inner : A -> list B) (f : A -> B -> list T) (l : list A) : forall a0 t, t < N ->
    nthT (fold_left (fun acc x => fold_left (fun acc y => khadd N acc (f x y)) (inner x) acc) l a0) t
    = (nthT a0 t + sumf l (fun x => sumf (inner x) (fun y => nthT (f x y) t)))%T.
  Proof.
    induction l as [|x l IH]; intros a0 t Ht; simpl; [ring|].
    rewrite IH by exact Ht. rewrite fold_khadd by exact Ht. ring.
  Qed.
  Lemma fold_khadd_length {A} N (f : A -> list T) (l : list A) : forall a0, length a0 = N ->
    length (fold_left (fun acc x => khadd N acc (f x)) l a0) = N.
  Proof.
    induction l as [|x l IH]; intros a0 H; simpl; [exact H|]. apply IH, khadd_length.
  Qed.
  Lemma fold_khadd2_length {A B} N (inner : A -> list B) (f : A -> B -> list T) (l : list A) :
    forall a0, length a0 = N ->
    length (fold_left (fun acc x => fold_left (fun acc y => khadd N acc (f x y)) (inner x) acc) l a0) = N.
  Proof.
    induction l as [|x l IH]; intros a0 H; simpl; [exact H|]. apply IH. now apply fold_khadd_length.
  Qed.

  (** reading a tabulated state *)
  Lemma khist_tab nw nb (np : nat -> nat) (F : nat -> nat -> nat -> list T) w b r :
    w < nw -> b < nb -> r < np w ->
    khist (tab nw (fun w => tab nb (fun b => tab (np w) (fun r => F w b r)))) w b r = F w b r.
  Proof.
    intros Hw Hb Hr. unfold khist, nthl.
    rewrite (nth_tab nw _ [] w Hw), (nth_tab nb _ [] b Hb), (nth_tab (np w) _ [] r Hr). reflexivity.
  Qed.
  Lemma khist_tab_length nw nb (np : nat -> nat) (F : nat -> nat -> nat -> list T) N w b r :
    (forall w b r, length (F w b r) = N) ->
    length (khist (tab nw (fun w => tab nb (fun b => tab (np w) (fun r => F w b r)))) w b r) = N
    \/ khist (tab nw (fun w => tab nb (fun b => tab (np w) (fun r => F w b r)))) w b r = [].
  Proof.
    intros HF. unfold khist, nthl.
    destruct (Nat.lt_ge_cases w nw) as [Hw|Hw];
      [rewrite (nth_tab nw _ [] w Hw)|rewrite (nth_tab_out nw _ [] w Hw); right; now destruct b, r].
    destruct (Nat.lt_ge_cases b nb) as [Hb|Hb];
      [rewrite (nth_tab nb _ [] b Hb)|rewrite (nth_tab_out nb _ [] b Hb); right; now destruct r].
    destruct (Nat.lt_ge_cases r (np w)) as [Hr|Hr];
      [rewrite (nth_tab (np w) _ [] r Hr); left; apply HF|rewrite (nth_tab_out (np w) _ [] r Hr); now right].
  Qed.
  Lemma khist_tab_cases nw nb (np : nat -> nat) (F : nat -> nat -> nat -> list T) w b r :
    (w < nw /\ b < nb /\ r < np w) \/
    khist (tab nw (fun w => tab nb (fun b => tab (np w) (fun r => F w b r)))) w b r = [].
  Proof.
    unfold khist, nthl.
    destruct (Nat.lt_ge_cases w nw) as [Hw|Hw];
      [rewrite (nth_tab nw _ [] w Hw)|rewrite (nth_tab_out nw _ [] w Hw); right; now destruct b, r].
    destruct (Nat.lt_ge_cases b nb) as [Hb|Hb];
      [rewrite (nth_tab nb _ [] b Hb)|rewrite (nth_tab_out nb _ [] b Hb); right; now destruct r].
    destruct (Nat.lt_ge_cases r (np w)) as [Hr|Hr];
      [left; auto|rewrite (nth_tab_out (np w) _ [] r Hr); now right].
  Qed.
  Lemma khist_tab_out_t nw nb (np : nat -> nat) (F : nat -> nat -> nat -> list T) N w b r t :
    (forall w b r, length (F w b r) = N) -> N <= t ->
    nthT (khist (tab nw (fun w => tab nb (fun b => tab (np w) (fun r => F w b r)))) w b r) t = 0%T.
  Proof.
    intros HF Ht. destruct (khist_tab_length nw nb np F N w b r HF) as [H|H].
    - apply nthT_out. lia.
    - rewrite H. unfold nthT. now destruct t.
  Qed.
End KangLists.

Section KangStep.
  Context {T : Type} {O : Ops T} {RL : RingLaws T}.
  Add Ring TRingKS : (@ring_th T O RL).

  Variable sc : @kscene T.

  (** ** the column arithmetic of [get_form_factor] *)
  Lemma kff_offset_acc oth w acc : kff_offset sc oth w acc = acc + kff_offset sc oth w 0.
  Proof.
    revert acc. induction oth as [|o rest IH]; intros acc; simpl; [lia|].
    destruct (o =? w); [lia|]. rewrite (IH (acc + knpat sc o)).
    pose proof (IH (0 + knpat sc o)) as H0. cbn [Nat.add] in *. lia.
  Qed.

  Lemma kff_row_nth (G : nat -> nat -> T) oth w r : In w oth -> r < knpat sc w ->
    nthT (kff_row sc G oth) (r + kff_offset sc oth w 0) = G w r.
  Proof.
    induction oth as [|o rest IH]; intros Hin Hr; [destruct Hin|].
    unfold kff_row. simpl flat_map. simpl kff_offset. unfold nthT.
    destruct (Nat.eqb_spec o w) as [->|Hne].
    - rewrite Nat.add_0_r. rewrite app_nth1 by now rewrite tab_length. now apply nth_tab.
    - destruct Hin as [Hin|Hin]; [congruence|].
      rewrite kff_offset_acc. rewrite app_nth2 by (rewrite tab_length; lia). rewrite tab_length.
      match goal with |- nth ?i _ _ = _ => replace i with (r + kff_offset sc rest w 0) by lia end.
      apply IH; assumption.
  Qed.

  (** the matrices are laid out as [calculate_form_factor] writes them: row [s] of wall [w'] is
      the concatenation over [other_wall_ids(w')] of the blocks [F w' s o 0 .. F w' s o (np o - 1)] *)
  Definition ff_layout (F : nat -> nat -> nat -> nat -> T) (ffs : list (list (list T))) : Prop :=
    forall w' s, w' < knw sc -> s < knpat sc w' ->
      nthl (nthl ffs w') s = kff_row sc (fun o r => F w' s o r) (kothers sc w').

  Lemma kget_ff_layout F ffs w' s w r : ff_layout F ffs ->
    w' < knw sc -> s < knpat sc w' -> In w (kothers sc w') -> r < knpat sc w ->
    kget_ff sc ffs w' s w r = F w' s w r.
  Proof.
    intros HL Hw' Hs Hin Hr. unfold kget_ff, get2. rewrite (HL w' s Hw' Hs).
    now apply (kff_row_nth (fun o r => F w' s o r)).
  Qed.

  Lemma kang_ffs_layout : ff_layout (kff_entry sc) (kang_ffs sc).
  Proof.
    intros w' s Hw' Hs. unfold kang_ffs, kff_matrix, nthl.
    rewrite (nth_tab (knw sc) _ [] w' Hw'). now rewrite (nth_tab (knpat sc w') _ [] s Hs).
  Qed.

  (** ** one order *)
  Variable N : nat.
  Variable ffs : list (list (list T)).

  Definition kdelta (w' s w r : nat) : nat := kdelay sc (kpdist sc w' s w r).
  Definition kair (w b w' s r : nat) : T := texp ((- katt sc w b) * kpdist sc w' s w r)%T.

  Lemma kterm_length cur w b r w' s : length (kterm sc N ffs cur w b r w' s) = N.
  Proof. unfold kterm. cbv zeta. rewrite map_length. apply shift_trunc_length. Qed.

  Lemma nthT_kterm cur w b r w' s t : t < N ->
    nthT (kterm sc N ffs cur w b r w' s) t =
    kcoef_scale (kget_ff sc ffs w' s w r) (kscat sc w b) (kalpha sc w b) (kair w b w' s r)
                (shiftf (kdelta w' s w r) (nthT (khist cur w' b s)) t).
  Proof.
    intros Ht. unfold kterm. cbv zeta. rewrite nthT_map by now rewrite shift_trunc_length.
    rewrite nthT_shift_trunc by exact Ht. reflexivity.
  Qed.

  Lemma kstep_hist_length cur w b r : length (kstep_hist sc N ffs cur w b r) = N.
  Proof. unfold kstep_hist. apply fold_khadd2_length. apply khzero_length. Qed.

  Lemma kstep_spec cur w b r t :
    w < knw sc -> b < ks_nb sc -> r < knpat sc w -> t < N ->
    nthT (khist (kstep sc N ffs cur) w b r) t =
    sumf (kothers sc w) (fun w' => sumf (seq 0 (knpat sc w')) (fun s =>
      kcoef_scale (kget_ff sc ffs w' s w r) (kscat sc w b) (kalpha sc w b) (kair w b w' s r)
                  (shiftf (kdelta w' s w r) (nthT (khist cur w' b s)) t))).
  Proof.
    intros Hw Hb Hr Ht. unfold kstep.
    rewrite (khist_tab (knw sc) (ks_nb sc) (knpat sc) (fun w b r => kstep_hist sc N ffs cur w b r))
      by assumption.
    unfold kstep_hist.
    rewrite (fold_khadd2 N (fun w' => seq 0 (knpat sc w')) (fun w' s => kterm sc N ffs cur w b r w' s))
      by exact Ht.
    rewrite nthT_khzero.
    match goal with |- (0 + ?a)%T = ?b => transitivity a; [ring|] end.
    apply sumf_ext. intros w' _. apply sumf_ext. intros s _. now apply nthT_kterm.
  Qed.

  (** nothing is stored beyond the window *)
  Lemma kstep_window cur w b r t : N <= t -> nthT (khist (kstep sc N ffs cur) w b r) t = 0%T.
  Proof.
    intros Ht. unfold kstep.
    apply (khist_tab_out_t (knw sc) (ks_nb sc) (knpat sc) (fun w b r => kstep_hist sc N ffs cur w b r) N);
      [|exact Ht].
    intros. apply kstep_hist_length.
  Qed.

  (** ** all orders: the list model is the L0 recursion restricted to [0, N) *)
  Variable F : nat -> nat -> nat -> nat -> T.
  Variable d0 : nat -> nat -> nat.
  Variable en : nat -> nat -> nat -> T.

  Definition kcoef (w' s w r b : nat) : T :=
    (((F w' s w r * kscat sc w b) * (1 - kalpha sc w b)) * kair w b w' s r)%T.

  Definition wf_others : Prop :=
    forall w w', w < knw sc -> In w' (kothers sc w) -> w' < knw sc /\ In w (kothers sc w').

  Hypothesis HL : ff_layout F ffs.
  Hypothesis WF : wf_others.

  Notation initm := (kinit_with sc d0 en N).
  Notation KEs := (KE (kothers sc) (knpat sc) kcoef kdelta d0 en).

  Lemma kinit_spec w b r t : w < knw sc -> b < ks_nb sc -> r < knpat sc w -> t < N ->
    nthT (khist initm w b r) t = KEs 0 w r b t.
  Proof.
    intros Hw Hb Hr Ht. unfold kinit_with.
    rewrite (khist_tab (knw sc) (ks_nb sc) (knpat sc)
      (fun w b r => tab N (fun t => if t =? d0 w r then (0 + en w r b)%T else 0%T))) by assumption.
    rewrite nthT_tab by exact Ht. simpl. unfold KE0. destruct (t =? d0 w r); ring.
  Qed.

  Lemma kinit_window w b r t : N <= t -> nthT (khist initm w b r) t = 0%T.
  Proof.
    intros Ht. unfold kinit_with.
    apply (khist_tab_out_t (knw sc) (ks_nb sc) (knpat sc)
      (fun w b r => tab N (fun t => if t =? d0 w r then (0 + en w r b)%T else 0%T)) N); [|exact Ht].
    intros. apply tab_length.
  Qed.

  (** the recursion step of the model, with the form factor read at the right column *)
  Theorem korder_step k w b r t :
    w < knw sc -> b < ks_nb sc -> r < knpat sc w -> t < N ->
    nthT (khist (korder sc N ffs initm (S k)) w b r) t =
    sumf (kothers sc w) (fun w' => sumf (seq 0 (knpat sc w')) (fun s =>
      (kcoef w' s w r b *
       (if t <? kdelta w' s w r then 0
        else nthT (khist (korder sc N ffs initm k) w' b s) (t - kdelta w' s w r)))%T)).
  Proof.
    intros Hw Hb Hr Ht. simpl korder. rewrite kstep_spec by assumption.
    apply sumf_ext. intros w' Hw'. destruct (WF w w' Hw Hw') as [Hw'n Hback].
    apply sumf_ext. intros s Hs. apply in_seq in Hs.
    rewrite (kget_ff_layout F ffs w' s w r HL) by (try assumption; lia).
    unfold kcoef_scale, kcoef, shiftf. ring.
  Qed.

  Theorem korder_refines k : forall w b r t,
    w < knw sc -> b < ks_nb sc -> r < knpat sc w -> t < N ->
    nthT (khist (korder sc N ffs initm k) w b r) t = KEs k w r b t.
  Proof.
    induction k as [|k IH]; intros w b r t Hw Hb Hr Ht.
    - simpl korder. now apply kinit_spec.
    - rewrite korder_step by assumption. simpl KE.
      apply sumf_ext. intros w' Hw'. destruct (WF w w' Hw Hw') as [Hw'n _].
      apply sumf_ext. intros s Hs. apply in_seq in Hs.
      unfold shiftf. destruct (t <? kdelta w' s w r) eqn:E; [ring|].
      rewrite IH by (try assumption; lia). reflexivity.
  Qed.

  Theorem korder_window k w b r t : N <= t -> nthT (khist (korder sc N ffs initm k) w b r) t = 0%T.
  Proof. intros Ht. destruct k; simpl korder; [now apply kinit_window|now apply kstep_window]. Qed.

  (** [korders_from] lists exactly these orders *)
  Lemma korders_from_nth K : forall cur k, k <= K ->
    kord (korders_from sc N ffs cur K) k = Nat.iter k (kstep sc N ffs) cur.
  Proof.
    induction K as [|K IH]; intros cur k Hk.
    - assert (k = 0) as -> by lia. reflexivity.
    - destruct k as [|k]; [reflexivity|].
      unfold kord. simpl korders_from. simpl nth. fold (kord (korders_from sc N ffs (kstep sc N ffs cur) K) k).
      rewrite IH by lia. clear. induction k as [|k IHk]; [reflexivity|]. simpl. now rewrite IHk.
  Qed.
  Lemma korder_iter k init : korder sc N ffs init k = Nat.iter k (kstep sc N ffs) init.
  Proof. induction k as [|k IH]; simpl; [reflexivity|now rewrite IH]. Qed.
  Lemma korders_from_order K k init : k <= K ->
    kord (korders_from sc N ffs init K) k = korder sc N ffs init k.
  Proof. intros H. rewrite korders_from_nth by exact H. now rewrite korder_iter. Qed.
End KangStep.

(** ** the L0 recursion itself: nothing before the delay *)
Section KangL0.
  Context {T : Type} {O : Ops T} {RL : RingLaws T}.
  Add Ring TRingK0 : (@ring_th T O RL).
  Variable others : nat -> list nat.
  Variable npat : nat -> nat.
  Variable coef : nat -> nat -> nat -> nat -> nat -> T.
  Variable delta : nat -> nat -> nat -> nat -> nat.
  Variable delta0 : nat -> nat -> nat.
  Variable en0 : nat -> nat -> nat -> T.
  Notation KEs := (KE others npat coef delta delta0 en0).

  Lemma KE_before k w r b t :
    (forall w' s, In w' (others w) -> s < npat w' -> t < delta w' s w r) -> KEs (S k) w r b t = 0%T.
  Proof.
    intros H. simpl. apply sumf_zero_ext. intros w' Hw'. apply sumf_zero_ext. intros s Hs.
    apply in_seq in Hs. apply shiftf_before. apply H; [exact Hw'|lia].
  Qed.

  Lemma KE0_only w r b t : t <> delta0 w r -> KEs 0 w r b t = 0%T.
  Proof. intros H. simpl. unfold KE0. destruct (Nat.eqb_spec t (delta0 w r)); [contradiction|reflexivity]. Qed.
End KangL0.

Section KangOrder.
  Context {T : Type} {O : Ops T} {RL : RingLaws T} {OL : OrderLaws T}.
  Add Ring TRingKO : (@ring_th T O RL).
  Variable others : nat -> list nat.
  Variable npat : nat -> nat.
  Variable coef : nat -> nat -> nat -> nat -> nat -> T.
  Variable delta : nat -> nat -> nat -> nat -> nat.
  Variable delta0 : nat -> nat -> nat.
  Variable en0 : nat -> nat -> nat -> T.
  Notation KEs := (KE others npat coef delta delta0 en0).

  Lemma KE_nonneg :
    (forall w' s w r b, (0 <= coef w' s w r b)%T) -> (forall w r b, (0 <= en0 w r b)%T) ->
    forall k w r b t, (0 <= KEs k w r b t)%T.
  Proof.
    intros Hc He. induction k as [|k IH]; intros w r b t.
    - simpl. unfold KE0. destruct (t =? delta0 w r); [apply He|apply tle_refl].
    - simpl. apply sumf_nonneg. intros w' _. apply sumf_nonneg. intros s _.
      unfold shiftf. destruct (t <? delta w' s w r); [apply tle_refl|].
      apply tmul_nonneg; [apply Hc|apply IH].
  Qed.
End KangOrder.

(** ** receiver collection and direct sound *)
Section KangReceiver.
  Context {T : Type} {O : Ops T} {RL : RingLaws T}.
  Add Ring TRingKR : (@ring_th T O RL).
  Variable sc : @kscene T.
  Variable N : nat.
  Variable E : list (@kstate T).
  Variable recv : @vec T.

  Definition order_at_receiver (k b t : nat) : T :=
    sumf (seq 0 (knw sc)) (fun w => sumf (seq 0 (knpat sc w)) (fun s =>
      (shiftf (krcv_delay sc recv w s) (nthT (khist (kord E k) w b s)) t * krcv_factor sc recv w s b)%T)).

  Lemma kwall_resp_length K w b : length (kwall_resp sc N E K recv w b) = N.
  Proof. unfold kwall_resp. apply fold_khadd2_length. apply khzero_length. Qed.

  Lemma kwall_resp_spec K w b t : t < N ->
    nthT (kwall_resp sc N E K recv w b) t =
    sumf (seq 0 (knpat sc w)) (fun s => sumf (seq 0 (S K)) (fun k =>
      (shiftf (krcv_delay sc recv w s) (nthT (khist (kord E k) w b s)) t * krcv_factor sc recv w s b)%T)).
  Proof.
    intros Ht. unfold kwall_resp.
    rewrite (fold_khadd2 N (fun _ => seq 0 (S K))
      (fun s k => map (fun a => (a * krcv_factor sc recv w s b)%T)
                      (shift_trunc N (krcv_delay sc recv w s) (khist (kord E k) w b s)))) by exact Ht.
    rewrite nthT_khzero.
    match goal with |- (0 + ?a)%T = ?b => transitivity a; [ring|] end.
    apply sumf_ext. intros s _. apply sumf_ext. intros k _.
    rewrite nthT_map by now rewrite shift_trunc_length.
    now rewrite nthT_shift_trunc.
  Qed.

  Lemma kresp_patches_length K b : length (kresp_patches sc N E K recv b) = N.
  Proof. unfold kresp_patches. apply fold_khadd_length. apply khzero_length. Qed.

  Theorem kresp_patches_spec K b t : t < N ->
    nthT (kresp_patches sc N E K recv b) t = sumf (seq 0 (S K)) (fun k => order_at_receiver k b t).
  Proof.
    intros Ht. unfold kresp_patches.
    rewrite (fold_khadd N (fun w => kwall_resp sc N E K recv w b)) by exact Ht.
    rewrite nthT_khzero.
    match goal with |- (0 + ?a)%T = ?b => transitivity a; [ring|] end.
    unfold order_at_receiver.
    rewrite (sumf_swap (seq 0 (S K)) (seq 0 (knw sc))).
    apply sumf_ext. intros w _. rewrite kwall_resp_spec by exact Ht.
    now rewrite (sumf_swap (seq 0 (S K)) (seq 0 (knpat sc w))).
  Qed.

  Lemma kresp_patches_S K b t : t < N ->
    nthT (kresp_patches sc N E (S K) recv b) t =
    (nthT (kresp_patches sc N E K recv b) t + order_at_receiver (S K) b t)%T.
  Proof.
    intros Ht. rewrite !kresp_patches_spec by exact Ht.
    rewrite (seq_S (S K) 0), sumf_app. simpl. ring.
  Qed.

  (** direct sound: [ignore_direct = false] adds exactly [kdirect_val] in bin [kdirect_bin] (when
      that bin exists) and changes nothing else *)
  Theorem kresp_direct K b t : t < N ->
    nthT (kresp sc N E K recv false b) t =
    (nthT (kresp sc N E K recv true b) t +
     (if t =? kdirect_bin sc recv then kdirect_val sc recv b else 0))%T.
  Proof.
    intros Ht. unfold kresp. cbv zeta.
    destruct (Nat.ltb_spec (kdirect_bin sc recv) N) as [Hb|Hb].
    - rewrite nthT_tab by exact Ht. destruct (t =? kdirect_bin sc recv); ring.
    - destruct (Nat.eqb_spec t (kdirect_bin sc recv)); [lia|ring].
  Qed.

  Lemma kresp_length K ign b : length (kresp sc N E K recv ign b) = N.
  Proof.
    unfold kresp. cbv zeta. destruct ign; [apply kresp_patches_length|].
    destruct (kdirect_bin sc recv <? N); [apply tab_length|apply kresp_patches_length].
  Qed.

  Theorem kresp_window K ign b t : N <= t -> nthT (kresp sc N E K recv ign b) t = 0%T.
  Proof. intros Ht. apply nthT_out. now rewrite kresp_length. Qed.

  Theorem kresp_dropped K b : N <= kdirect_bin sc recv ->
    kresp sc N E K recv false b = kresp sc N E K recv true b.
  Proof.
    intros H. unfold kresp. cbv zeta. destruct (Nat.ltb_spec (kdirect_bin sc recv) N); [lia|reflexivity].
  Qed.
End KangReceiver.

Section KangMonotone.
  Context {T : Type} {O : Ops T} {RL : RingLaws T} {OL : OrderLaws T}.
  Add Ring TRingKM : (@ring_th T O RL).
  Variable sc : @kscene T.
  Variable N : nat.
  Variable E : list (@kstate T).
  Variable recv : @vec T.

  Hypothesis E_nonneg : forall k w b s u, (0 <= nthT (khist (kord E k) w b s) u)%T.
  Hypothesis g_nonneg : forall w s b, (0 <= krcv_factor sc recv w s b)%T.

  Lemma order_at_receiver_nonneg k b t : (0 <= order_at_receiver sc E recv k b t)%T.
  Proof.
    unfold order_at_receiver. apply sumf_nonneg. intros w _. apply sumf_nonneg. intros s _.
    apply tmul_nonneg; [|apply g_nonneg].
    unfold shiftf. destruct (t <? krcv_delay sc recv w s); [apply tle_refl|apply E_nonneg].
  Qed.

  Theorem kresp_monotone K ign b t : t < N ->
    (nthT (kresp sc N E K recv ign b) t <= nthT (kresp sc N E (S K) recv ign b) t)%T.
  Proof.
    intros Ht.
    assert (H0 : (nthT (kresp sc N E K recv true b) t <= nthT (kresp sc N E (S K) recv true b) t)%T).
    { unfold kresp. cbv zeta. rewrite (kresp_patches_S sc N E recv K b t Ht).
      match goal with |- (?a <= ?a + ?x)%T => replace a with (a + 0)%T at 1 by ring end.
      apply tadd_le_mono_l. apply order_at_receiver_nonneg. }
    destruct ign; [exact H0|].
    rewrite !(kresp_direct sc N E recv _ b t Ht). now apply tadd_le_mono.
  Qed.
End KangMonotone.

(** ** what a delay does to the energy in the window *)
Section KangShiftEnergy.
  Context {T : Type} {O : Ops T} {RL : RingLaws T}.
  Add Ring TRingKE : (@ring_th T O RL).

  Lemma shift_trunc_energy N d (h : list T) : d <= N ->
    hsum N (nthT (shift_trunc N d h)) = hsum (N - d) (nthT h).
  Proof.
    intros Hd. rewrite <- (hsum_shift_gen N d (nthT h) Hd).
    apply hsum_ext. intros t Ht. now apply nthT_shift_trunc.
  Qed.
  Lemma shift_trunc_energy_big N d (h : list T) : N <= d -> hsum N (nthT (shift_trunc N d h)) = 0%T.
  Proof.
    intros Hd. rewrite <- (hsum_shift_big N d (nthT h) Hd).
    apply hsum_ext. intros t Ht. now apply nthT_shift_trunc.
  Qed.
  Lemma shift_trunc_facts N d (h : list T) :
    (forall t, t < N -> t < d -> nthT (shift_trunc N d h) t = 0%T) /\
    (forall t, t < N -> d <= t -> nthT (shift_trunc N d h) t = nthT h (t - d)) /\
    (forall t, N <= t -> nthT (shift_trunc N d h) t = 0%T) /\
    length (shift_trunc N d h) = N /\
    (d <= N -> hsum N (nthT (shift_trunc N d h)) = hsum (N - d) (nthT h)) /\
    (N <= d -> hsum N (nthT (shift_trunc N d h)) = 0%T).
  Proof.
    repeat split.
    - intros t Ht Hd. rewrite nthT_shift_trunc by exact Ht. now apply shiftf_before.
    - intros t Ht Hd. rewrite nthT_shift_trunc by exact Ht. now apply shiftf_after.
    - intros t Ht. now apply nthT_shift_trunc_out.
    - apply shift_trunc_length.
    - apply shift_trunc_energy.
    - apply shift_trunc_energy_big.
  Qed.
End KangShiftEnergy.

(** ** non-negative data give non-negative orders in the model *)
Section KangModelNonneg.
  Context {T : Type} {O : Ops T} {RL : RingLaws T} {OL : OrderLaws T} {EL : ExpLaws T}.
  Add Ring TRingKN : (@ring_th T O RL).
  Variable sc : @kscene T.
  Variable N : nat.
  Variable ffs : list (list (list T)).
  Variable F : nat -> nat -> nat -> nat -> T.
  Variable d0 : nat -> nat -> nat.
  Variable en : nat -> nat -> nat -> T.
  Hypothesis HL : ff_layout sc F ffs.
  Hypothesis WF : wf_others sc.
  Hypothesis F_nonneg : forall w' s w r, (0 <= F w' s w r)%T.
  Hypothesis scat_nonneg : forall w b, (0 <= kscat sc w b)%T.
  Hypothesis alpha_le_1 : forall w b, (kalpha sc w b <= 1)%T.
  Hypothesis en_nonneg : forall w r b, (0 <= en w r b)%T.

  Lemma kcoef_nonneg w' s w r b : (0 <= kcoef sc F w' s w r b)%T.
  Proof.
    unfold kcoef. apply tmul_nonneg; [apply tmul_nonneg; [apply tmul_nonneg|]|].
    - apply F_nonneg.
    - apply scat_nonneg.
    - apply (proj1 (tle_sub _ _)). apply alpha_le_1.
    - unfold kair. apply tlt_le, texp_pos.
  Qed.

  Lemma korder_nonneg k w b r u :
    (0 <= nthT (khist (korder sc N ffs (kinit_with sc d0 en N) k) w b r) u)%T.
  Proof.
    assert (Hc : (w < knw sc /\ b < ks_nb sc /\ r < knpat sc w) \/
                 khist (korder sc N ffs (kinit_with sc d0 en N) k) w b r = []).
    { destruct k; simpl korder; [unfold kinit_with|unfold kstep]; apply khist_tab_cases. }
    destruct Hc as [(Hw & Hb & Hr)|Hnil].
    - destruct (Nat.lt_ge_cases u N) as [Hu|Hu].
      + rewrite (korder_refines sc N ffs F d0 en HL WF k w b r u Hw Hb Hr Hu).
        apply KE_nonneg; [intros; apply kcoef_nonneg|apply en_nonneg].
      + rewrite (korder_window sc N ffs d0 en k w b r u Hu). apply tle_refl.
    - rewrite Hnil. unfold nthT. destruct u; apply tle_refl.
  Qed.

  Lemma korders_from_nonneg Kmax k w b r u :
    (0 <= nthT (khist (kord (korders_from sc N ffs (kinit_with sc d0 en N) Kmax) k) w b r) u)%T.
  Proof.
    destruct (Nat.le_gt_cases k Kmax) as [Hk|Hk].
    - rewrite korders_from_order by exact Hk. apply korder_nonneg.
    - unfold kord. rewrite nth_overflow.
      + unfold khist, nthl, nthT. destruct w, b, r, u; apply tle_refl.
      + clear -Hk. revert Hk. generalize (kinit_with sc d0 en N) as cur. revert k.
        induction Kmax as [|Kmax IH]; intros k cur Hk; simpl; [lia|].
        destruct k as [|k]; [lia|]. specialize (IH k (kstep sc N ffs cur)). simpl in IH. lia.
  Qed.

  Theorem kresp_monotone_model Kmax recv K ign b t :
    (forall w s b, (0 <= krcv_factor sc recv w s b)%T) -> t < N ->
    (nthT (kresp sc N (korders_from sc N ffs (kinit_with sc d0 en N) Kmax) K recv ign b) t <=
     nthT (kresp sc N (korders_from sc N ffs (kinit_with sc d0 en N) Kmax) (S K) recv ign b) t)%T.
  Proof.
    intros Hg Ht. apply kresp_monotone; [|exact Hg|exact Ht].
    intros. apply korders_from_nonneg.
  Qed.
End KangModelNonneg.

(** ** the receiver factor is non-negative whenever the receiver is not at a patch centre *)
Section KangFactorNonneg.
  Context {T : Type} {O : Ops T} {RL : RingLaws T} {OL : OrderLaws T} {FL : FieldLaws T}
          {EL : ExpLaws T} {SL : SqrtLaws T} {AL : AcosLaws T}.
  Add Ring TRingKF : (@ring_th T O RL).

  Lemma tdiv_nonneg (a b : T) : (0 <= a)%T -> (0 < b)%T -> (0 <= a / b)%T.
  Proof.
    intros Ha Hb.
    assert (Hb0 : b <> 0%T) by (intros ->; exact (tlt_irrefl _ Hb)).
    pose proof (tdiv_mul a b Hb0) as E.
    destruct (tle_total 0%T (a / b)%T) as [H|H]; [exact H|].
    apply topp_nonneg in H. destruct (tle_lt_or_eq _ _ H) as [Hlt|Heq].
    - exfalso. pose proof (tmul_pos _ _ Hlt Hb) as Hp.
      replace (- (a / b) * b)%T with (- a)%T in Hp by (rewrite <- E at 1; ring).
      assert (Hna : (- a <= - 0)%T) by now apply topp_le.
      replace (- 0)%T with 0%T in Hna by ring.
      exact (tlt_irrefl _ (tlt_le_trans _ _ _ Hp Hna)).
    - replace (a / b)%T with (- - (a / b))%T by ring. rewrite <- Heq.
      replace (- 0)%T with 0%T by ring. apply tle_refl.
  Qed.

  Variable sc : @kscene T.
  Lemma krcv_factor_nonneg recv w s b : (0 < krcv_R sc recv w s)%T -> (0 <= krcv_factor sc recv w s b)%T.
  Proof.
    intros HR. unfold krcv_factor. cbv zeta. apply tdiv_nonneg.
    - apply tmul_nonneg; [|apply tlt_le, texp_pos].
      unfold krcv_cos. apply tdiv_nonneg; [apply tabs_nonneg|exact HR].
    - apply tmul_pos; [apply tpi_pos|now apply tmul_pos].
  Qed.
End KangFactorNonneg.
