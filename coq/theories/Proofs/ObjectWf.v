(** * C15: the kind invariant [wf] holds in every reachable state.

    [wf s] says that every attribute has one of the kinds the public methods produce for it (it is
    the hypothesis under which [to_dict] / [from_dict] are inverse up to similarity,
    ObjectThms.roundtrip).  Here: [wf (init g)], every [ostep] preserves [wf] (whatever its class:
    the partial effects of failed calls are well-kinded too), hence [wf] on all reachable states,
    the round-trip theorem without the [wf] hypothesis, and the headline theorem: after a round
    trip at any reachable stage every continuation without direct-sound collects behaves
    identically on the original and on the restored object. *)
From Coq Require Import List Arith Bool Lia.
Import ListNotations.
From SV Require Import Model.Object Spec.ObjectSpec Proofs.ObjectProofs Proofs.ObjectThms
  Proofs.ObjectInitIdem Proofs.ObjectBisimFull.

Lemma field_eqb_eq a b : field_eqb a b = true -> a = b.
Proof. destruct a, b; cbn; intro E; try discriminate E; reflexivity. Qed.

Lemma wf_put f v s : fkind_ok f v = true -> wf s -> wf (put f v s).
Proof.
  intros Hv H f'. rewrite get_put. destruct (field_eqb f' f) eqn:E; [|apply H].
  apply field_eqb_eq in E. subst f'. exact Hv.
Qed.

Lemma wf_init g : wf (init g).
Proof. intro f. destruct f; reflexivity. Qed.

(** only the kind of a descriptor matters *)
Lemma fkind_ok_dk f d d' : dk d = dk d' -> fkind_ok f (Some d) = fkind_ok f (Some d').
Proof. destruct d, d'. cbn. intros ->. reflexivity. Qed.

(** ** the setters *)
Lemma check_set_freq_wf s fid nb s1 : wf s -> check_set_freq s fid nb = Some s1 -> wf s1.
Proof.
  intro H. unfold check_set_freq. destruct (o_freq s) as [f|].
  - destruct (_ && _); intro E; [|discriminate E]. apply some_inj in E. subst s1. exact H.
  - intro E. apply some_inj in E. subst s1. apply wf_put; [reflexivity|exact H].
Qed.

Lemma install_wf g s walls t d n : wf s -> wf (snd (install_brdf g s walls t d n)).
Proof.
  intro H. unfold install_brdf. cbv zeta.
  match goal with |- context [match o_dirs_in s with Some _ => s | None => ?x end] =>
    set (s1 := match o_dirs_in s with Some _ => s | None => x end) end.
  assert (H1 : wf s1).
  { unfold s1. destruct (o_dirs_in s); [exact H|]. repeat (apply wf_put; [reflexivity|]). exact H. }
  clearbody s1.
  pose proof (H1 FDirsIn) as Ki. pose proof (H1 FDirsOut) as Ko. cbn [get] in Ki, Ko.
  destruct (o_dirs_in s1) as [di|]; [|exact H1].
  destruct (o_dirs_out s1) as [do|]; [|exact H1].
  match goal with |- context [put FDirsOut ?a (put FDirsIn ?b s1)] =>
    set (s2 := put FDirsOut a (put FDirsIn b s1)) end.
  assert (H2 : wf s2).
  { unfold s2. apply wf_put; [destruct do; exact Ko|]. apply wf_put; [destruct di; exact Ki|]. exact H1. }
  clearbody s2.
  destruct (o_brdf s2) as [b|]; [|exact H2].
  destruct (dk b); try exact H2.
  match goal with |- context [put FBrdf ?a s2] => set (s3 := put FBrdf a s2) end.
  assert (H3 : wf s3) by (unfold s3; apply wf_put; [reflexivity|exact H2]).
  clearbody s3.
  pose proof (H3 FBrdfIndex) as Kx. cbn [get] in Kx.
  destruct (o_brdf_index s3) as [ix|]; [|exact H3].
  destruct ix as [k sh v o]. cbn [dk dsh dv dow]. cbn in Kx.
  destruct k; try discriminate Kx.
  cbn [snd]. apply wf_put; [reflexivity|exact H3].
Qed.

Lemma set_brdf_wf g s walls tab dirs n fid nb negz :
  wf s -> wf (snd (oset_brdf g s walls tab dirs n fid nb negz)).
Proof.
  intro H. unfold oset_brdf. destruct negz; [exact H|].
  destruct (negb _); [exact H|].
  destruct (check_set_freq s fid nb) as [s1|] eqn:E; [|exact H].
  apply install_wf. exact (check_set_freq_wf s fid nb s1 H E).
Qed.

Lemma set_att_wf s aid fid nb : wf s -> wf (snd (oset_att s aid fid nb)).
Proof.
  intro H. unfold oset_att.
  destruct (check_set_freq s fid nb) as [s1|] eqn:E; [|exact H].
  cbn [snd]. apply wf_put; [reflexivity|]. exact (check_set_freq_wf s fid nb s1 H E).
Qed.

(** ** the stages *)
Ltac wf_puts H := cbn [snd]; repeat (apply wf_put; [reflexivity|]); exact H.

Lemma bake_wf g s : wf s -> wf (snd (obake g s)).
Proof.
  intro H. unfold obake. cbv zeta.
  repeat match goal with
         | |- context [match ?x with _ => _ end] => destruct x
         end; wf_puts H.
Qed.

Lemma exchange_wf g s tid ns order recalc : wf s -> wf (snd (oexchange g s tid ns order recalc)).
Proof.
  intro H. unfold oexchange. cbv beta zeta.
  repeat match goal with
         | |- context [match ?x with _ => _ end] => destruct x
         end; wf_puts H.
Qed.

Lemma frq_kind s : wf s -> fkind_ok FFreq (frq s) = true.
Proof.
  intro H. unfold frq. pose proof (H FFreq) as K. cbn [get] in K.
  destruct (o_freq s); [exact K|reflexivity].
Qed.

Lemma dflt_brdf_wf g s1 : wf s1 -> wf (snd (dflt_brdf g s1)).
Proof.
  intro H. rewrite dflt_brdf_unfold. destruct (o_dirs_in s1); [exact H|].
  apply install_wf. apply wf_put; [apply frq_kind, H|exact H].
Qed.

Lemma dflt_att_wf s2 : wf s2 -> wf (dflt_att s2).
Proof.
  intro H. rewrite dflt_att_unfold. destruct (o_att s2); [exact H|].
  apply wf_put; [reflexivity|]. apply wf_put; [apply frq_kind, H|exact H].
Qed.

Lemma finish_wf g src tg s3 : wf s3 -> wf (snd (finish g src tg s3)).
Proof.
  intro H. unfold finish. cbv zeta.
  destruct (read_mats s3 true); [exact H|].
  destruct (tab_fits _ _ _ _); wf_puts H.
Qed.

Lemma init_source_wf g s src : wf s -> wf (snd (oinit_source g s src)).
Proof.
  intro H. rewrite init_factor.
  assert (H1 : wf (put FSource (src_desc src) s)) by (apply wf_put; [reflexivity|exact H]).
  pose proof (dflt_brdf_wf g _ H1) as H2.
  destruct (dflt_brdf g (put FSource (src_desc src) s)) as [c s2]. cbn [snd] in H2.
  unfold after_dflt. destruct c; try exact H2.
  apply finish_wf, dflt_att_wf, H2.
Qed.

(** ** the round trips *)
Lemma cvt_kind b f d : fkind_ok f d = true -> fkind_ok f (cvt b f d) = true.
Proof.
  destruct d as [[k sh v o]|]; [|reflexivity].
  destruct f; cbn; try reflexivity; destruct k; cbn; intro E; try discriminate E; reflexivity.
Qed.

Lemma rst_wf b s : wf s -> wf (rst b s).
Proof.
  intros H f. rewrite get_rst. destruct (serialised f) eqn:E.
  - apply cvt_kind, H.
  - destruct f; reflexivity.
Qed.

Lemma restore_step_wf g b s :
  wf s ->
  wf (ostate_of (match restore g b s with (c, Some s') => (c, s', ONone) | (c, None) => (c, s, ONone) end)).
Proof.
  intro H. rewrite (restore_wf g b s H).
  destruct (ocheck g (rst b s)); try exact H. exact (rst_wf b s H).
Qed.

(** ** every call *)
Theorem step_wf g s o : wf s -> wf (ostate_of (ostep g s o)).
Proof.
  intro H.
  destruct o as [walls tab dirs n fid nb negz|aid fid nb| |src|tid ns order recalc|recv direct| |];
    cbn [ostep].
  - pose proof (set_brdf_wf g s walls tab dirs n fid nb negz H) as K.
    destruct (oset_brdf g s walls tab dirs n fid nb negz). exact K.
  - pose proof (set_att_wf s aid fid nb H) as K. destruct (oset_att s aid fid nb). exact K.
  - pose proof (bake_wf g s H) as K. destruct (obake g s). exact K.
  - pose proof (init_source_wf g s src H) as K. destruct (oinit_source g s src). exact K.
  - pose proof (exchange_wf g s tid ns order recalc H) as K. destruct (oexchange g s tid ns order recalc). exact K.
  - destruct (ocollect g s recv direct). exact H.
  - apply restore_step_wf, H.
  - apply restore_step_wf, H.
Qed.

Theorem run_wf g h : forall s, wf s -> wf (orun g s h).
Proof.
  induction h as [|o r IH]; intros s H; [exact H|].
  change (orun g s (o :: r)) with (orun g (ostate_of (ostep g s o)) r).
  apply IH, step_wf, H.
Qed.

Theorem reachable_wf g s : reachable g s -> wf s.
Proof. intros [h ->]. exact (run_wf g h (init g) (wf_init g)). Qed.

Lemma reachable_init g : reachable g (init g).
Proof. exists []. reflexivity. Qed.
Lemma reachable_step g s o : reachable g s -> reachable g (ostate_of (ostep g s o)).
Proof.
  intros [h ->]. exists (h ++ [o]). unfold orun. rewrite fold_left_app. reflexivity.
Qed.
Lemma reachable_run g s h : reachable g s -> reachable g (orun g s h).
Proof.
  intros [h0 ->]. exists (h0 ++ h). unfold orun. rewrite fold_left_app. reflexivity.
Qed.

(** ** round trip at every reachable state, no kind hypothesis *)
Theorem roundtrip_reachable g b s :
  reachable g s ->
  (ocheck g s = ROk ->
   exists s', restore g b s = (ROk, Some s') /\ sim s s' /\ oeq s s' = true /\ oeq s' s = true) /\
  (ocheck g s <> ROk -> restore g b s = (ocheck g s, None)).
Proof. intro H. apply roundtrip. exact (reachable_wf g s H). Qed.

(** ** headline: a round trip at ANY reachable stage loses nothing any later call can see,
    direct-sound collects excepted *)
Theorem lossless_continuation g h0 viafile :
  let s := orun g (init g) h0 in
  ocheck g s = ROk ->
  exists s',
    restore g viafile s = (ROk, Some s') /\ sim s s' /\ oeq s s' = true /\ oeq s' s = true /\
    forall h, forallb (fun o => negb (direct_collect o)) h = true ->
      map (fun r => (oclass_of r, oobs_of r)) (otrace g s h) =
      map (fun r => (oclass_of r, oobs_of r)) (otrace g s' h) /\
      map normr (otrace g s h) = map normr (otrace g s' h) /\
      sim (orun g s h) (orun g s' h).
Proof.
  intros s Hc.
  assert (R : reachable g s) by (exists h0; reflexivity).
  destruct (roundtrip_reachable g viafile s R) as [K _].
  destruct (K Hc) as (s' & E & S & Q1 & Q2).
  exists s'. repeat (split; [assumption|]).
  intros h Hh. destruct (bisim_trace_full g h s s' Hh S) as [T F].
  split; [exact T|]. split; [exact (bisim_trace_states g h s s' Hh S)|exact F].
Qed.

(** a state refused by check() is refused by the round trip, at every reachable stage *)
Theorem refused_reachable g h0 viafile :
  let s := orun g (init g) h0 in
  ocheck g s <> ROk -> restore g viafile s = (ocheck g s, None).
Proof.
  intros s Hc.
  assert (R : reachable g s) by (exists h0; reflexivity).
  destruct (roundtrip_reachable g viafile s R) as [_ K]. exact (K Hc).
Qed.

(** the restored object is itself well-kinded, so it can be saved and restored again *)
Theorem restored_wf g b s s' : wf s -> restore g b s = (ROk, Some s') -> wf s'.
Proof.
  intros H. rewrite (restore_wf g b s H). destruct (ocheck g (rst b s)); intro E; try discriminate E.
  injection E as <-. exact (rst_wf b s H).
Qed.
