(** * C01 on the executable pipeline model, diffuse walls: the order-(k+1) energy summed over
    patches and time is the order-k energy of every patch redistributed by form factor x
    attenuation and multiplied by the reflectance of the wall of the RECEIVING patch. *)
From Coq Require Import List Arith Bool Ring Lia.
Import ListNotations.
From SV Require Import Base.Ops Base.Arr Base.Sums Model.Vec3 Model.Exchange Model.Scene
  Spec.ExchangeSpec Proofs.ExchangeL0 Proofs.SceneRefine Proofs.Reciprocity Proofs.ReciprocityModel.

Section MatrixBalance.
  Context {T : Type} {O : Ops T} {RL : RingLaws T}.
  Add Ring TRingBal : (@ring_th T O RL).
  Variable ps : list nat.
  Variable G : nat -> nat -> T.
  Variable rho : nat -> T.
  Variable delta : nat -> nat -> nat.

  Theorem stepM_balance (u : nat -> nat -> T) (N : nat) :
    (forall m j, In m ps -> In j ps -> delta m j <= N /\
        forall t, N - delta m j <= t -> t < N -> u m t = 0%T) ->
    sumf ps (fun j => hsum N (stepM ps G rho delta u j)) =
    sumf ps (fun j => (rho j * sumf ps (fun m => (G m j * hsum N (u m))%T))%T).
  Proof.
    intros Hfit. apply sumf_ext. intros j Hj. unfold stepM.
    rewrite hsum_sumf. rewrite <- sumf_scale. apply sumf_ext. intros m Hm.
    destruct (Hfit m j Hm Hj) as [Hd Hz].
    rewrite hsum_shift by (try exact Hd; intros t H1 H2; rewrite (Hz t H1 H2); ring).
    rewrite hsum_scale. ring.
  Qed.
End MatrixBalance.

Section ModelBalance.
  Context {T : Type} {O : Ops T} {RL : RingLaws T} {FL : FieldLaws T}.
  Variable sc : @scene T.
  Variable tm : @timing T.
  Variable b : nat.
  Hypothesis WF : wf_scene sc.
  Hypothesis area_nz : forall i, i < s_np sc -> area sc i <> 0%T.
  Hypothesis Hnd : s_nd sc = 1.
  Variable rho : nat -> T.
  Hypothesis Hdiff : forall w a d, beta sc w a d b = rho w.
  Hypothesis Hb : b < s_nb sc.
  Variable p : @point_data T.
  Variable N k : nat.

  Notation EE := (E (directed (vis_pairs sc)) (scene_delta sc tm) (tilde_entry sc) (out_index sc)
                    (scene_delta0 sc tm (as_source p)) (e0dir_entry sc (as_source p))).

  (** [Gm i j] = form factor x attenuation of the leg i -> j (0 if invisible);
      [rho (wall j)] = reflectance of the wall that receives *)
  Theorem model_balance :
    (forall m j, m < s_np sc -> j < s_np sc -> scene_delta sc tm m j <= N /\
        forall t, N - scene_delta sc tm m j <= t -> t < N -> EE k m 0 b t = 0%T) ->
    sumf (seq 0 (s_np sc)) (fun j => hsum N (EE (S k) j 0 b)) =
    sumf (seq 0 (s_np sc)) (fun j =>
      (rho (wall sc j) * sumf (seq 0 (s_np sc)) (fun m => (Gm sc b m j * hsum N (EE k m 0 b))%T))%T).
  Proof.
    intros Hfit.
    assert (EX : forall kk j t, j < s_np sc ->
              EE kk j 0 b t = X (ps sc) (Gm sc b) (rhoP sc rho) (deltaP sc tm) (sP sc b p) (fP sc tm p) kk j t)
      by (intros; now apply (E_is_X sc tm b WF Hnd rho Hdiff)).
    rewrite (sumf_ext _ _ (fun j => hsum N (X (ps sc) (Gm sc b) (rhoP sc rho) (deltaP sc tm) (sP sc b p) (fP sc tm p) (S k) j))).
    2:{ intros j Hj. apply in_seq in Hj. apply hsum_ext. intros t _. apply EX. lia. }
    change (X (ps sc) (Gm sc b) (rhoP sc rho) (deltaP sc tm) (sP sc b p) (fP sc tm p) (S k))
      with (stepM (ps sc) (Gm sc b) (rhoP sc rho) (deltaP sc tm)
              (X (ps sc) (Gm sc b) (rhoP sc rho) (deltaP sc tm) (sP sc b p) (fP sc tm p) k)).
    unfold ps at 1. rewrite (stepM_balance (ps sc)).
    - unfold ps, rhoP. apply sumf_ext. intros j Hj. f_equal. apply sumf_ext. intros m Hm.
      apply in_seq in Hm. f_equal. apply hsum_ext. intros t _. symmetry. apply EX. lia.
    - intros m j Hm Hj. apply in_ps in Hm, Hj. destruct (Hfit m j Hm Hj) as [Hd Hz].
      split; [exact Hd|]. intros t H1 H2. rewrite <- EX by exact Hm. now apply Hz.
  Qed.
End ModelBalance.
