(** * Field reasoning over [Ops]: [FieldLaws] only specifies [a / b] for [b <> 0], so the
    [field] tactic is set up for the total division [a * (1 / b)] and [tdiv] is rewritten
    into it under explicit non-zero side conditions. *)
From Coq Require Import List Arith Bool Ring Field Lia.
Import ListNotations.
From SV Require Import Base.Ops.

(** the part of [SqrtLaws] that concerns [tabs] only (satisfiable over the rationals) *)
Class AbsLaws (T : Type) {O : Ops T} : Prop := {
  abs_nonneg : forall x : T, (0 <= tabs x)%T;
  abs_pos : forall x : T, (0 <= x)%T -> tabs x = x;
  abs_neg : forall x : T, (x <= 0)%T -> tabs x = (- x)%T
}.
Global Instance SqrtLaws_AbsLaws {T : Type} {O : Ops T} {SL : SqrtLaws T} : AbsLaws T :=
  {| abs_nonneg := tabs_nonneg; abs_pos := tabs_pos; abs_neg := tabs_neg |}.

Section FieldFacts.
  Context {T : Type} {O : Ops T} {RL : RingLaws T} {OL : OrderLaws T} {FL : FieldLaws T}.
  Add Ring TRingFF : (@ring_th T O RL).

  Definition tinv (x : T) : T := (1 / x)%T.
  Definition fdiv (a b : T) : T := (a * tinv b)%T.

  Lemma tpos_neq0 a : (0 < a)%T -> a <> 0%T.
  Proof. intros H E. subst a. exact (tlt_irrefl _ H). Qed.
  Lemma tone_neq0 : (1 : T)%T <> 0%T.
  Proof. apply tpos_neq0, tone_pos. Qed.
  Lemma tinv_l x : x <> 0%T -> (tinv x * x)%T = 1%T.
  Proof. intros H. unfold tinv. now apply tdiv_mul. Qed.
  Lemma tmul_cancel_r a b c : c <> 0%T -> (a * c)%T = (b * c)%T -> a = b.
  Proof.
    intros Hc H.
    assert (E : forall u, u = ((u * c) * tinv c)%T).
    { intros u. transitivity (u * (tinv c * c))%T; [rewrite tinv_l by assumption; ring|ring]. }
    rewrite (E a), (E b), H. reflexivity.
  Qed.
  Lemma tdiv_fdiv a b : b <> 0%T -> (a / b)%T = fdiv a b.
  Proof.
    intros Hb. apply (tmul_cancel_r _ _ b Hb). rewrite tdiv_mul by assumption.
    unfold fdiv. replace (a * tinv b * b)%T with (a * (tinv b * b))%T by ring. rewrite tinv_l by assumption. ring.
  Qed.
  Lemma tdiv_0_l b : b <> 0%T -> (0 / b)%T = 0%T.
  Proof. intros Hb. rewrite tdiv_fdiv by assumption. unfold fdiv. ring. Qed.
  Lemma tdiv_mul_l a b : b <> 0%T -> (b * (a / b))%T = a.
  Proof. intros Hb. replace (b * (a / b))%T with ((a / b) * b)%T by ring. now apply tdiv_mul. Qed.
  Lemma tmul_div a b : b <> 0%T -> ((a * b) / b)%T = a.
  Proof. intros Hb. apply (tmul_cancel_r _ _ b Hb). now rewrite tdiv_mul. Qed.

  Lemma T_field_theory : field_theory 0%T 1%T tadd tmul tsub topp fdiv tinv (@eq T).
  Proof.
    constructor.
    - exact ring_th.
    - exact tone_neq0.
    - reflexivity.
    - exact tinv_l.
  Qed.

  (** positivity of numeral-like expressions *)
  Lemma tadd_pos a b : (0 < a)%T -> (0 < b)%T -> (0 < a + b)%T.
  Proof.
    intros Ha Hb. apply (tlt_le_trans _ a); [exact Ha|].
    replace a with (a + 0)%T at 1 by ring. apply tadd_le_mono_l. now apply tlt_le.
  Qed.
  Lemma tmul_neq0 a b : a <> 0%T -> b <> 0%T -> (a * b)%T <> 0%T.
  Proof.
    intros Ha Hb E. apply Ha. apply (tmul_cancel_r _ _ b Hb). rewrite E. ring.
  Qed.
End FieldFacts.

(** [0 < e] for an expression built from 1, +, * ; [e <> 0] likewise *)
Ltac tpos := repeat (first [apply tone_pos | apply tadd_pos | apply tmul_pos]).
Ltac tnz := apply tpos_neq0; tpos.
