(** * Diffuse-scene theorems (C01 balance, C03 sampling independence) with hypotheses a scene
    given by lists can meet.

    [BalanceModel.model_balance] (C01_model_balance) and
    [SolverProofs.diffuse_sampling_independent] (C03_diffuse_sampling_independent) assume
    [forall w a d, beta sc w a d b = rho w] for ALL indices.  [beta] is a total lookup into
    nested lists that returns 0 beyond the end of a list, so the hypothesis forces [rho w = 0]
    for every wall ([ReciprocityVis.diffuse_everywhere_forces_zero]): both theorems only cover
    scenes that reflect nothing.

    Here both are re-proved under hypotheses restricted
    - to the table entries the model READS ([..._vis]: the incoming sample selected for a visible
      pair / a visible source, the outgoing slots below [s_nd], the bands below [s_nb]), and
    - to the IN-RANGE indices of the tables ([..._bounded]: wall below the number of walls,
      incoming sample below the number of rows of that wall's table, slot below [s_nd], band
      below [s_nb]) together with the shape condition [tables_ok] that makes every read land
      in range.
    Non-vacuity (non-zero reflectances, every hypothesis checked by computation, non-zero
    conclusion): [Instances/NonVacuity.v]. *)
From Coq Require Import List Arith Bool Ring Lia.
Import ListNotations.
From SV Require Import Base.Ops Base.Arr Base.Sums Model.Vec3 Model.Exchange Model.Scene
  Spec.ExchangeSpec Proofs.ExchangeL0 Proofs.ExchangeRefine Proofs.SceneRefine Proofs.SolverProofs
  Proofs.Reciprocity Proofs.ReciprocityModel Proofs.ReciprocityVis Proofs.BalanceModel.

(** ** shape of the BRDF data; in-range diffuse hypothesis *)
Section InRange.
  Context {T : Type} {O : Ops T}.
  Variable sc : @scene T.

  (** number of incoming samples (rows) of the table of wall [w] *)
  Definition table_rows (w : nat) : nat := length (nthl (s_tables sc) (nthn (s_tidx sc) w)).

  (** every patch's wall has a table index, its incoming direction set is not empty and its
      table has a row for every incoming direction *)
  Definition tables_ok : Prop :=
    forall j, j < s_np sc ->
      wall sc j < length (s_tidx sc) /\ in_dirs sc (wall sc j) <> [] /\
      length (in_dirs sc (wall sc j)) <= table_rows (wall sc j).

  (** pi*BRDF = rho w in band [b], asked of the in-range table entries only *)
  Definition diffuse_in_range_band (b : nat) (rho : nat -> T) : Prop :=
    forall w a d, w < length (s_tidx sc) -> a < table_rows w -> d < s_nd sc ->
      beta sc w a d b = rho w.
  (** ... in every band *)
  Definition diffuse_in_range (rho : nat -> nat -> T) : Prop :=
    forall w a d b, w < length (s_tidx sc) -> a < table_rows w -> d < s_nd sc -> b < s_nb sc ->
      beta sc w a d b = rho w b.

  (** the same, asked only of the entries the model reads *)
  Definition diffuse_read_pairs (rho : nat -> nat -> T) : Prop :=
    forall i j d b, i < s_np sc -> j < s_np sc -> vis_sym sc i j = true -> d < s_nd sc -> b < s_nb sc ->
      beta sc (wall sc j) (in_index sc i j) d b = rho (wall sc j) b.
  Definition diffuse_read_src (s : @source T) (rho : nat -> nat -> T) : Prop :=
    forall i d b, i < s_np sc -> nthb (src_vis s) i = true -> d < s_nd sc -> b < s_nb sc ->
      beta sc (wall sc i) (src_in_index sc s i) d b = rho (wall sc i) b.

  Lemma nearest_in_range (dirs : list (@vec T)) (v : @vec T) : dirs <> [] -> nearest dirs v < length dirs.
  Proof.
    intros H. unfold nearest. rewrite <- (map_length (fun d => vdist2 d v) dirs).
    apply argmin_lt. intros E. apply H. now apply map_eq_nil in E.
  Qed.

  Lemma in_index_in_range i j : tables_ok -> j < s_np sc -> in_index sc i j < table_rows (wall sc j).
  Proof.
    intros TO Hj. destruct (TO j Hj) as (_ & Hne & Hle). unfold in_index.
    pose proof (nearest_in_range (in_dirs sc (wall sc j))
                  (vnormalize (vsub (center sc i) (center sc j))) Hne). lia.
  Qed.
  Lemma src_in_index_in_range (s : @source T) i : tables_ok -> i < s_np sc ->
    src_in_index sc s i < table_rows (wall sc i).
  Proof.
    intros TO Hi. destruct (TO i Hi) as (_ & Hne & Hle). unfold src_in_index.
    pose proof (nearest_in_range (in_dirs sc (wall sc i))
                  (vnormalize (vsub (src_pos s) (center sc i))) Hne). lia.
  Qed.

  Lemma in_range_read_pairs rho : tables_ok -> diffuse_in_range rho -> diffuse_read_pairs rho.
  Proof.
    intros TO H i j d b Hi Hj _ Hd Hb. apply H; try assumption.
    - now destruct (TO j Hj).
    - now apply in_index_in_range.
  Qed.
  Lemma in_range_read_src s rho : tables_ok -> diffuse_in_range rho -> diffuse_read_src s rho.
  Proof.
    intros TO H i d b Hi _ Hd Hb. apply H; try assumption.
    - now destruct (TO i Hi).
    - now apply src_in_index_in_range.
  Qed.
End InRange.

(** ** C01: energy balance of the executable model *)
Section ModelBalanceVis.
  Context {T : Type} {O : Ops T} {RL : RingLaws T}.
  Variable sc : @scene T.
  Variable tm : @timing T.
  Variable b : nat.
  Hypothesis WF : wf_scene sc.
  Hypothesis Hnd : s_nd sc = 1.
  Variable rho : nat -> T.
  Hypothesis Hb : b < s_nb sc.
  Variable p : @point_data T.
  Variable N k : nat.

  Notation EE := (E (directed (vis_pairs sc)) (scene_delta sc tm) (tilde_entry sc) (out_index sc)
                    (scene_delta0 sc tm (as_source p)) (e0dir_entry sc (as_source p))).

  (** diffuse hypothesis on the entries that are read: incoming sample selected for a visible
      pair, and for a patch the source sees; slot 0 *)
  Theorem model_balance_vis :
    diffuse_pairs sc b rho -> diffuse_src sc b rho p ->
    (forall m j, m < s_np sc -> j < s_np sc -> scene_delta sc tm m j <= N /\
        forall t, N - scene_delta sc tm m j <= t -> t < N -> EE k m 0 b t = 0%T) ->
    sumf (seq 0 (s_np sc)) (fun j => hsum N (EE (S k) j 0 b)) =
    sumf (seq 0 (s_np sc)) (fun j =>
      (rho (wall sc j) * sumf (seq 0 (s_np sc)) (fun m => (Gm sc b m j * hsum N (EE k m 0 b))%T))%T).
  Proof.
    intros Hdp Hds Hfit.
    assert (EX : forall kk j t, j < s_np sc ->
              EE kk j 0 b t = X (ps sc) (Gm sc b) (rhoP sc rho) (deltaP sc tm) (sP sc b p) (fP sc tm p) kk j t)
      by (intros kk j t Hj; now apply (E_is_X_vis sc tm b WF Hnd rho Hb Hdp p kk Hds)).
    rewrite (sumf_ext _ _ (fun j => hsum N (X (ps sc) (Gm sc b) (rhoP sc rho) (deltaP sc tm) (sP sc b p) (fP sc tm p) (S k) j))).
    2:{ intros j Hj. apply in_seq in Hj. apply hsum_ext. intros t _. apply EX. lia. }
    change (X (ps sc) (Gm sc b) (rhoP sc rho) (deltaP sc tm) (sP sc b p) (fP sc tm p) (S k))
      with (stepM (ps sc) (Gm sc b) (rhoP sc rho) (deltaP sc tm)
              (X (ps sc) (Gm sc b) (rhoP sc rho) (deltaP sc tm) (sP sc b p) (fP sc tm p) k)).
    unfold ps at 1. rewrite (stepM_balance (ps sc)).
    - unfold ps, rhoP. apply sumf_ext. intros j Hj. f_equal. apply sumf_ext. intros m Hm.
      apply in_seq in Hm. f_equal. apply hsum_ext. intros t _. symmetry. apply EX. lia.
    - intros m j Hm Hj. apply in_ps in Hm, Hj. destruct (Hfit m j Hm Hj) as [Hd Hz].
      split; [exact Hd|]. intros t H1 H2. rewrite <- EX by exact Hm. now apply Hz.
  Qed.

  (** in-range form: every table entry of an existing wall / existing row / slot 0 is rho w *)
  Theorem model_balance_bounded :
    tables_ok sc -> diffuse_in_range_band sc b rho ->
    (forall m j, m < s_np sc -> j < s_np sc -> scene_delta sc tm m j <= N /\
        forall t, N - scene_delta sc tm m j <= t -> t < N -> EE k m 0 b t = 0%T) ->
    sumf (seq 0 (s_np sc)) (fun j => hsum N (EE (S k) j 0 b)) =
    sumf (seq 0 (s_np sc)) (fun j =>
      (rho (wall sc j) * sumf (seq 0 (s_np sc)) (fun m => (Gm sc b m j * hsum N (EE k m 0 b))%T))%T).
  Proof.
    intros TO Hd. apply model_balance_vis.
    - intros i j Hi Hj _. apply Hd; [now destruct (TO j Hj)|now apply in_index_in_range|lia].
    - intros i Hi _. apply Hd; [now destruct (TO i Hi)|now apply src_in_index_in_range|lia].
  Qed.
End ModelBalanceVis.

(** ** C03: slot-free recursion, relationally between two samplings *)
Section SlotFreeRel.
  Context {T : Type} {O : Ops T}.
  Variable P : list (nat * nat).
  Variable delta : nat -> nat -> nat.
  Variable delta0 : nat -> nat.
  Variables (c c' : nat -> nat -> nat -> nat -> T) (out out' : nat -> nat -> nat)
            (e0 e0' : nat -> nat -> nat -> T).
  Variables (Rj Rd Rd' Rb : nat -> Prop).
  Hypothesis Hsrc : forall i j, In (i, j) P -> Rj i /\ Rd (out i j) /\ Rd' (out' i j).
  Hypothesis Hc : forall i j d d' b, In (i, j) P -> Rd d -> Rd' d' -> Rb b -> c i j d b = c' i j d' b.
  Hypothesis He : forall j d d' b, Rj j -> Rd d -> Rd' d' -> Rb b -> e0 j d b = e0' j d' b.

  Lemma E_slot_free_rel k : forall j d d' b t, Rj j -> Rd d -> Rd' d' -> Rb b ->
    E P delta c out delta0 e0 k j d b t = E P delta c' out' delta0 e0' k j d' b t.
  Proof.
    induction k as [|k IH]; intros j d d' b t Hj Hd Hd' Hb; simpl.
    - unfold E0. now rewrite (He j d d' b Hj Hd Hd' Hb).
    - apply sumf_ext. intros q Hq. unfold into in Hq. apply filter_In in Hq.
      destruct Hq as [HqP Hqj]. apply Nat.eqb_eq in Hqj. destruct q as [i j']. simpl in Hqj. subst j'.
      simpl fst. destruct (Hsrc i j HqP) as (Hi & Ho & Ho').
      unfold shiftf. destruct (t <? delta i j); [reflexivity|].
      rewrite (Hc i j d d' b HqP Hd Hd' Hb). f_equal. now apply IH.
  Qed.
End SlotFreeRel.

Section DiffuseVis.
  Context {T : Type} {O : Ops T} {RL : RingLaws T}.
  Add Ring TRingDB : (@ring_th T O RL).

  Theorem diffuse_sampling_independent_vis (sc sc' : @scene T) rho tm (s s' : @source T) K j d d' b t :
    same_room sc sc' ->
    diffuse_read_pairs sc rho -> diffuse_read_pairs sc' rho ->
    diffuse_read_src sc s rho -> diffuse_read_src sc' s' rho ->
    wf_scene sc -> wf_scene sc' ->
    src_pos s = src_pos s' -> src_vis s = src_vis s' -> src_share s = src_share s' ->
    src_dirfac s = None -> src_dirfac s' = None ->
    j < s_np sc -> d < s_nd sc -> d' < s_nd sc' -> b < s_nb sc -> t < n_samples tm ->
    get4 (patch_hist sc tm s K) j d b t = get4 (patch_hist sc' tm s' K) j d' b t.
  Proof.
    intros (Hnp & Hnb & Hc & Ha & Hw & Hv & HF & Hatt) Hp1 Hp2 Hs1 Hs2 WF WF' Hp Hvs Hsh Hdf Hdf' Hj Hd Hd' Hb Ht.
    rewrite (patch_hist_refines sc tm s K j d b t) by assumption.
    rewrite (patch_hist_refines sc' tm s' K j d' b t) by (try assumption; lia).
    assert (Hcen : forall i, center sc i = center sc' i) by (intros; unfold center; now rewrite Hc).
    assert (Hwall : forall i, wall sc i = wall sc' i) by (intros; unfold wall; now rewrite Hw).
    assert (Hpairs : vis_pairs sc = vis_pairs sc') by (unfold vis_pairs; now rewrite Hv, Hnp).
    assert (Hvsym : forall i j0, vis_sym sc i j0 = vis_sym sc' i j0) by (intros; unfold vis_sym; now rewrite Hv).
    assert (Hdist : forall i j0, dist sc i j0 = dist sc' i j0) by (intros; unfold dist; now rewrite !Hcen).
    assert (Hdl : forall i j0, scene_delta sc tm i j0 = scene_delta sc' tm i j0)
      by (intros; unfold scene_delta; now rewrite Hdist).
    assert (Hsd : forall j0, src_dist sc s j0 = src_dist sc' s' j0)
      by (intros; unfold src_dist; now rewrite Hp, Hvs, Hcen).
    assert (Hd0 : forall j0, scene_delta0 sc tm s j0 = scene_delta0 sc' tm s' j0)
      by (intros; unfold scene_delta0; now rewrite Hsd).
    unfold ExchangeSpec.Tot. apply sumf_ext. intros k _. rewrite <- Hpairs.
    rewrite (E_ext (directed (vis_pairs sc)) _ (scene_delta sc' tm) _ (tilde_entry sc) _ (out_index sc) _
               (scene_delta0 sc' tm s') _ (e0dir_entry sc s) (fun _ => True) (fun _ => True) (fun _ => True));
      try (intros; auto; fail).
    apply (E_slot_free_rel (directed (vis_pairs sc)) (scene_delta sc' tm) (scene_delta0 sc' tm s')
             (tilde_entry sc) (tilde_entry sc') (out_index sc) (out_index sc')
             (e0dir_entry sc s) (e0dir_entry sc' s')
             (fun i => i < s_np sc) (fun x => x < s_nd sc) (fun x => x < s_nd sc') (fun x => x < s_nb sc));
      try assumption.
    - intros i j0 Hin. destruct (directed_pairs_ok sc i j0 WF Hin) as (Hi & Hj0 & _).
      split; [exact Hi|]. split; [now apply out_index_lt|]. apply out_index_lt; [exact WF'|lia].
    - intros i j0 x x' b0 Hin Hx Hx' Hb0. destruct (directed_pairs_ok sc i j0 WF Hin) as (Hi & Hj0 & Hvis).
      unfold tilde_entry. rewrite <- Hvsym, Hvis.
      rewrite (Hp1 i j0 x b0 Hi Hj0 Hvis Hx Hb0).
      rewrite (Hp2 i j0 x' b0) by (try lia; try assumption; now rewrite <- Hvsym).
      unfold ff_full, area, attn, att. rewrite HF, Ha, Hdist, Hatt, Hwall. reflexivity.
    - intros j0 x x' b0 Hj0 Hx Hx' Hb0. unfold e0dir_entry. rewrite Hdf, Hdf'.
      unfold energy0. rewrite <- Hvs. destruct (nthb (src_vis s) j0) eqn:Hvj.
      + rewrite (Hs1 j0 x b0 Hj0 Hvj Hx Hb0).
        rewrite (Hs2 j0 x' b0) by (try lia; try assumption; now rewrite <- Hvs).
        unfold attn, att. rewrite Hsh, Hsd, Hatt, Hwall. reflexivity.
      + ring.
  Qed.

  Theorem diffuse_sampling_independent_bounded (sc sc' : @scene T) rho tm (s s' : @source T) K j d d' b t :
    same_room sc sc' ->
    tables_ok sc -> tables_ok sc' -> diffuse_in_range sc rho -> diffuse_in_range sc' rho ->
    wf_scene sc -> wf_scene sc' ->
    src_pos s = src_pos s' -> src_vis s = src_vis s' -> src_share s = src_share s' ->
    src_dirfac s = None -> src_dirfac s' = None ->
    j < s_np sc -> d < s_nd sc -> d' < s_nd sc' -> b < s_nb sc -> t < n_samples tm ->
    get4 (patch_hist sc tm s K) j d b t = get4 (patch_hist sc' tm s' K) j d' b t.
  Proof.
    intros SR TO TO' H H'. apply (diffuse_sampling_independent_vis sc sc' rho); try assumption.
    - now apply in_range_read_pairs.
    - now apply in_range_read_pairs.
    - now apply in_range_read_src.
    - now apply in_range_read_src.
  Qed.
End DiffuseVis.
