(** * [point_in_polygon] is correct for axis-aligned rectangles (the surfaces of shoebox rooms).

    Part 1 of this file: the winding count of the model in the horizontal plane, for the four
    sides of an axis-aligned rectangle in any of its 8 vertex orders.

    What the model does there (ray from [pt] in +x direction):
    - a side parallel to the ray has a left normal with x-component 0, so the gate
      [eps < |dot(v, nl)|] of [project_to_plane] (check_normal = false) is closed as soon as
      [0 <= eps]: the side is skipped.  (With [eps < 0] the gate would be open and the model
      would divide by zero -- hence the hypothesis.)
    - a side orthogonal to the ray has the unit left normal (-+1, 0), so the gate is open iff
      [eps < 1]; the line is met at [b = (X, pt.y)]; the crossing counts iff [pt.x < X] (strict)
      and [| |b-a0| + |b-a1| - |a1-a0| | <= eta].  The norms are absolute values of coordinate
      differences (sqrt(a*a) = |a|), and the expression is 0 for [pt.y] between the end points and
      twice the distance of [pt.y] from the interval otherwise.  So the side is met iff [pt.y] is
      within eta/2 of the interval: the smallest margin that makes the count geometric is
      eta/2 (strict), stated below as a margin [m] with [eta <= m + m] and [m < |pt.y - y_i|].
    - the sign is that of [dot(b - pt, nl) = (X - pt.x) * (-+1)]: -1 for a side running upwards,
      +1 for a side running downwards; the two orthogonal sides run in opposite directions, so the
      count is non-zero iff exactly one of them is to the right of [pt]. *)
From Coq Require Import List Arith Bool Ring Lia ZArith.
Import ListNotations.
From SV Require Import Base.Ops Base.Arr Model.Vec3 Model.Visibility Spec.VisibilitySpec
  Proofs.OrderField Proofs.VisibilitySym Proofs.VisibilitySegment.

Section PipRect2D.
  Context {T : Type} {O : Ops T} {RL : RingLaws T} {OL : OrderLaws T} {FL : FieldLaws T}
          {SL : SqrtLaws T}.
  Add Ring TRingPipRect : (@ring_th T O RL).
  Local Notation vec := (@vec T).
  Local Open Scope T_scope.

  (** ** scalar facts *)
  Lemma tlt_trichotomy (a b : T) : a < b \/ a = b \/ b < a.
  Proof.
    destruct (tle_total a b) as [H|H]; destruct (tle_lt_or_eq _ _ H) as [L|E]; auto.
  Qed.

  Lemma tneq_lt (a b : T) : a <> b -> a < b \/ b < a.
  Proof. intros N. destruct (tlt_trichotomy a b) as [H|[H|H]]; auto. contradiction. Qed.

  Lemma tltb_false_of_le (a b : T) : b <= a -> tltb a b = false.
  Proof. intros H. rewrite tltb_spec. unfold tle in H. now rewrite H. Qed.

  Lemma tleb_false_of_lt (a b : T) : b < a -> tleb a b = false.
  Proof.
    intros H. unfold tlt in H. rewrite tltb_spec in H. destruct (tleb a b); [discriminate|reflexivity].
  Qed.

  Lemma tsub_nonpos (a b : T) : a <= b -> a - b <= 0.
  Proof.
    intros H. apply tle_of_opp_nonneg. replace (- (a - b)) with (b - a) by ring.
    now apply (proj1 (tle_sub _ _)).
  Qed.

  Lemma tabs_sub_le (a b : T) : a <= b -> tabs (a - b) = b - a.
  Proof. intros H. rewrite tabs_neg by now apply tsub_nonpos. ring. Qed.

  Lemma tabs_sub_ge (a b : T) : b <= a -> tabs (a - b) = a - b.
  Proof. intros H. apply tabs_pos. now apply (proj1 (tle_sub _ _)). Qed.

  Lemma tabs_swap (a b : T) : tabs (a - b) = tabs (b - a).
  Proof. replace (a - b) with (- (b - a)) by ring. apply tabs_opp. Qed.

  Lemma tabs_one : tabs 1 = 1.
  Proof. apply tabs_pos, tzero_le_one. Qed.

  Lemma tabs_mone : tabs (- (1)) = 1.
  Proof. rewrite tabs_opp. apply tabs_one. Qed.

  Lemma tone_neq0 : (1 : T) <> 0.
  Proof. apply tpos_neq, tone_pos. Qed.

  Lemma tmone_lt0 : - (1) < (0 : T).
  Proof. apply tlt_pos_neg, tone_pos. Qed.

  Lemma tmone_neq0 : - (1) <> (0 : T).
  Proof. apply tlt_neq, tmone_lt0. Qed.

  Lemma tmone_neq_one : - (1) <> (1 : T).
  Proof. apply tlt_neq. apply (tlt_trans _ 0); [apply tmone_lt0|apply tone_pos]. Qed.

  Lemma tzero_neq_mone : (0 : T) <> - (1).
  Proof. intros E. apply tmone_neq0. now symmetry. Qed.

  Lemma tzero_neq_one : (0 : T) <> 1.
  Proof. intros E. apply tone_neq0. now symmetry. Qed.

  Lemma teqb_refl (a : T) : teqb a a = true.
  Proof. now apply teqb_spec. Qed.

  Lemma teqb_neq (a b : T) : a <> b -> teqb a b = false.
  Proof. intros N. destruct (teqb a b) eqn:E; [|reflexivity]. apply teqb_spec in E. contradiction. Qed.

  (** a positive margin excludes equality *)
  Lemma off_neq (m a c : T) : 0 <= m -> m < tabs (c - a) -> c <> a.
  Proof.
    intros Hm H E. subst c. replace (a - a) with (0 : T) in H by ring. rewrite tabs_zero in H.
    apply (proj1 (tlt_iff _ _)) in H. now apply H.
  Qed.

  Lemma half_nonneg (m : T) : 0 <= m + m -> 0 <= m.
  Proof.
    intros H. destruct (tle_total 0 m) as [L|L]; [exact L|].
    destruct (tle_lt_or_eq _ _ L) as [Lt|E]; [|subst m; apply tle_refl].
    exfalso. apply (proj1 (tlt_iff (m + m) 0)); [|exact H].
    apply (tlt_le_trans _ (m + 0)).
    - apply tadd_lt_mono_l. exact Lt.
    - replace (m + 0) with m by ring. exact L.
  Qed.

  (** ** square roots of squares *)
  Lemma sq_inj_nonneg (a b : T) : 0 <= a -> 0 <= b -> a * a = b * b -> a = b.
  Proof.
    intros Ha Hb E.
    assert (Hz : (a - b) * (a + b) = 0) by (replace ((a - b) * (a + b)) with (a * a - b * b) by ring; rewrite E; ring).
    destruct (tle_lt_or_eq _ _ (tadd_nonneg _ _ Ha Hb)) as [P|Z].
    - assert (K : a - b = 0) by (apply (tmul_cancel_r _ (a + b)); [now apply tpos_neq|exact Hz]).
      transitivity ((a - b) + b); [ring|]. rewrite K. ring.
    - (* a + b = 0 with both non-negative: both are 0 *)
      assert (Ha0 : a = 0).
      { apply tle_antisym; [|exact Ha]. replace a with ((a + b) - b) by ring. rewrite <- Z.
        replace (0 - b) with (- b) by ring. now apply tle_opp_nonpos. }
      assert (Hb0 : b = 0).
      { transitivity ((a + b) - a); [ring|]. rewrite <- Z, Ha0. ring. }
      now rewrite Ha0, Hb0.
  Qed.

  Lemma tsqrt_square_nonneg (a : T) : 0 <= a -> tsqrt (a * a) = a.
  Proof.
    intros Ha. assert (H2 : 0 <= a * a) by now apply tmul_nonneg.
    apply sq_inj_nonneg; [now apply tsqrt_nonneg|exact Ha|now apply tsqrt_sq].
  Qed.

  (** the norm of an axis-parallel vector is the absolute value of its component *)
  Lemma tsqrt_sq_abs (a : T) : tsqrt (a * a) = tabs a.
  Proof.
    destruct (tle_total 0 a) as [H|H].
    - rewrite (tabs_pos a H). now apply tsqrt_square_nonneg.
    - rewrite (tabs_neg a H). replace (a * a) with ((- a) * (- a)) by ring.
      apply tsqrt_square_nonneg. now apply topp_nonneg.
  Qed.

  Lemma tsqrt_one : tsqrt 1 = 1.
  Proof. replace (1 : T) with ((1 : T) * 1) at 1 by ring. apply tsqrt_square_nonneg, tzero_le_one. Qed.

  (** ** division *)
  Lemma tmul_inj_r (a b c : T) : c <> 0 -> a * c = b * c -> a = b.
  Proof.
    intros Hc H. assert (K : a - b = 0).
    { apply (tmul_cancel_r _ c Hc). replace ((a - b) * c) with (a * c - b * c) by ring. rewrite H. ring. }
    transitivity ((a - b) + b); [ring|]. rewrite K. ring.
  Qed.

  Lemma tdiv_one (a : T) : a / 1 = a.
  Proof. apply (tmul_inj_r _ _ 1 tone_neq0). rewrite tdiv_mul by exact tone_neq0. ring. Qed.

  Lemma tdiv_zero_l (b : T) : b <> 0 -> 0 / b = 0.
  Proof. intros Hb. apply (tmul_inj_r _ _ b Hb). rewrite tdiv_mul by exact Hb. ring. Qed.

  Lemma tdiv_self (a : T) : a <> 0 -> a / a = 1.
  Proof. intros Ha. apply (tmul_inj_r _ _ a Ha). rewrite tdiv_mul by exact Ha. ring. Qed.

  Lemma tdiv_opp_self (a : T) : a <> 0 -> (- a) / a = - (1).
  Proof. intros Ha. apply (tmul_inj_r _ _ a Ha). rewrite tdiv_mul by exact Ha. ring. Qed.

  Lemma tdiv_mul_cancel (s k : T) : s <> 0 -> (s * k) / s = k.
  Proof. intros Hs. apply (tmul_inj_r _ _ s Hs). rewrite tdiv_mul by exact Hs. ring. Qed.

  (** ** "strictly between", in either order of the bounds *)
  Definition between (a b c : T) : Prop := (a < c /\ c < b) \/ (b < c /\ c < a).

  Lemma between_swap (a b c : T) : between a b c <-> between b a c.
  Proof. unfold between. tauto. Qed.

  Lemma between_dec (a b c : T) : {between a b c} + {~ between a b c}.
  Proof.
    unfold between, tlt.
    destruct (tltb a c), (tltb c b), (tltb b c), (tltb c a);
      try (left; solve [left; split; reflexivity | right; split; reflexivity]);
      right; intros [[H1 H2]|[H1 H2]]; discriminate.
  Qed.

  Lemma tlt_opp (a b : T) : a < b <-> - b < - a.
  Proof.
    split; intros H; apply (proj2 (tlt_sub _ _)); apply (proj1 (tlt_sub _ _)) in H.
    - replace (- a - - b) with (b - a) by ring. exact H.
    - replace (b - a) with (- a - - b) by ring. exact H.
  Qed.

  Lemma between_opp (a b c : T) : between (- a) (- b) (- c) <-> between a b c.
  Proof. unfold between. rewrite <- !tlt_opp. tauto. Qed.

  Lemma tabs_opp_sub (a c : T) : tabs (- c - - a) = tabs (c - a).
  Proof. replace (- c - - a) with (- (c - a)) by ring. apply tabs_opp. Qed.

  (** ** the on-segment expression along one coordinate *)
  Definition onseg_expr (p a b : T) : T := (tabs (p - a) + tabs (p - b)) - tabs (b - a).

  Lemma onseg_expr_swap (p a b : T) : onseg_expr p a b = onseg_expr p b a.
  Proof. unfold onseg_expr. rewrite (tabs_swap b a). ring. Qed.

  Lemma onseg_inside (p lo hi : T) : lo <= p -> p <= hi -> onseg_expr p lo hi = 0.
  Proof.
    intros H1 H2. unfold onseg_expr.
    rewrite (tabs_sub_ge p lo H1), (tabs_sub_le p hi H2), (tabs_sub_ge hi lo (tle_trans _ _ _ H1 H2)). ring.
  Qed.

  Lemma onseg_below (p lo hi : T) : p <= lo -> lo <= hi -> onseg_expr p lo hi = (lo - p) + (lo - p).
  Proof.
    intros H1 H2. unfold onseg_expr.
    rewrite (tabs_sub_le p lo H1), (tabs_sub_le p hi (tle_trans _ _ _ H1 H2)), (tabs_sub_ge hi lo H2). ring.
  Qed.

  Lemma onseg_above (p lo hi : T) : hi <= p -> lo <= hi -> onseg_expr p lo hi = (p - hi) + (p - hi).
  Proof.
    intros H1 H2. unfold onseg_expr.
    rewrite (tabs_sub_ge p lo (tle_trans _ _ _ H2 H1)), (tabs_sub_ge p hi H1), (tabs_sub_ge hi lo H2). ring.
  Qed.

  (** twice something larger than the margin exceeds eta *)
  Lemma twice_margin (eta m k : T) : eta <= m + m -> m < k -> eta < k + k.
  Proof.
    intros He Hk. apply (tle_lt_trans _ (m + m)); [exact He|].
    apply (tlt_trans _ (m + k)).
    - now apply tadd_lt_mono_l.
    - replace (m + k) with (k + m) by ring. now apply tadd_lt_mono_l.
  Qed.

  Lemma onseg_test_in_lohi (eta p lo hi : T) :
    0 <= eta -> lo < p -> p < hi -> tleb (tabs (onseg_expr p lo hi)) eta = true.
  Proof.
    intros He H1 H2. rewrite (onseg_inside p lo hi (tlt_le _ _ H1) (tlt_le _ _ H2)), tabs_zero. exact He.
  Qed.

  Lemma onseg_test_out_lohi (eta m p lo hi : T) :
    0 <= eta -> eta <= m + m -> lo < hi -> m < tabs (p - lo) -> m < tabs (p - hi) ->
    ~ (lo < p /\ p < hi) -> tleb (tabs (onseg_expr p lo hi)) eta = false.
  Proof.
    intros He Hm Hlh Ml Mh Hn. apply tleb_false_of_lt.
    pose proof (half_nonneg m (tle_trans _ _ _ He Hm)) as Hm0.
    pose proof (off_neq m lo p Hm0 Ml) as Nl. pose proof (off_neq m hi p Hm0 Mh) as Nh.
    destruct (tneq_lt _ _ Nl) as [Pl|Pl].
    - (* p < lo *)
      pose proof (tlt_le _ _ Pl) as Ple.
      rewrite (onseg_below p lo hi Ple (tlt_le _ _ Hlh)).
      rewrite (tabs_sub_le p lo Ple) in Ml.
      pose proof (twice_margin eta m (lo - p) Hm Ml) as K.
      rewrite tabs_pos; [exact K|]. apply (tle_trans _ eta); [exact He|now apply tlt_le].
    - destruct (tneq_lt _ _ Nh) as [Ph|Ph].
      + exfalso. apply Hn. now split.
      + pose proof (tlt_le _ _ Ph) as Phe.
        rewrite (onseg_above p lo hi Phe (tlt_le _ _ Hlh)).
        rewrite (tabs_sub_ge p hi Phe) in Mh.
        pose proof (twice_margin eta m (p - hi) Hm Mh) as K.
        rewrite tabs_pos; [exact K|]. apply (tle_trans _ eta); [exact He|now apply tlt_le].
  Qed.

  (** the on-segment test of the model along one coordinate decides "strictly between" *)
  Lemma onseg_test_in (eta p a b : T) :
    0 <= eta -> between a b p -> tleb (tabs (onseg_expr p a b)) eta = true.
  Proof.
    intros He [[H1 H2]|[H1 H2]].
    - now apply onseg_test_in_lohi.
    - rewrite onseg_expr_swap. now apply onseg_test_in_lohi.
  Qed.

  Lemma onseg_test_out (eta m p a b : T) :
    0 <= eta -> eta <= m + m -> a <> b -> m < tabs (p - a) -> m < tabs (p - b) ->
    ~ between a b p -> tleb (tabs (onseg_expr p a b)) eta = false.
  Proof.
    intros He Hm Nab Ma Mb Hn. destruct (tneq_lt _ _ Nab) as [L|L].
    - apply (onseg_test_out_lohi eta m p a b He Hm L Ma Mb). intros H. apply Hn. now left.
    - rewrite onseg_expr_swap.
      apply (onseg_test_out_lohi eta m p b a He Hm L Mb Ma). intros H. apply Hn. now right.
  Qed.

  (** ** vectors *)
  Ltac vunfold := unfold vnorm2, vdot, vsub, vadd, vscale, vdivs, mkv, vx, vy, vz; cbn [fst snd].
  Ltac veq := vunfold; f_equal; [f_equal|]; ring.

  (** the direction of the ray, as the model computes it: (pt + (1,0,0)) - pt *)
  Lemma ray_dir (pt : vec) : vsub (vadd pt (mkv 1 0 0)) pt = mkv 1 0 0.
  Proof. destruct pt as [[x y] z]. veq. Qed.

  Lemma vdot_e1 (n : vec) : vdot (mkv 1 0 0) n = vx n.
  Proof. destruct n as [[x y] z]. vunfold. ring. Qed.

  (** norm of a vector along the y axis *)
  Lemma vnorm_y (X p q : T) : vnorm (vsub (mkv X p 0) (mkv X q 0)) = tabs (p - q).
  Proof.
    unfold vnorm. replace (vnorm2 (vsub (mkv X p 0) (mkv X q 0))) with ((p - q) * (p - q)) by (vunfold; ring).
    apply tsqrt_sq_abs.
  Qed.

  Lemma vnorm_x (Y p q : T) : vnorm (vsub (mkv p Y 0) (mkv q Y 0)) = tabs (p - q).
  Proof.
    unfold vnorm. replace (vnorm2 (vsub (mkv p Y 0) (mkv q Y 0))) with ((p - q) * (p - q)) by (vunfold; ring).
    apply tsqrt_sq_abs.
  Qed.

  Lemma tabs_neq0 (a : T) : a <> 0 -> tabs a <> 0.
  Proof.
    intros Ha E. destruct (tle_total 0 a) as [H|H].
    - rewrite (tabs_pos a H) in E. contradiction.
    - rewrite (tabs_neg a H) in E. apply Ha. replace a with (- - a) by ring. rewrite E. ring.
  Qed.

  Lemma tsub_neq0 (a b : T) : a <> b -> b - a <> 0.
  Proof. intros N E. apply N. transitivity (b - (b - a)); [ring|]. rewrite E. ring. Qed.

  (** ** one side of the polygon: the left normal and the count, separated *)
  Definition side_nl (a0 a1 : vec) : vec :=
    vdivs (mkv (- vy (vsub a1 a0)) (vx (vsub a1 a0)) 0) (vnorm (vsub a1 a0)).

  Definition count_at (eps eta : T) (pt a0 a1 nl : vec) : Z :=
    match project_to_plane false eps pt (vadd pt (mkv 1 0 0)) a1 nl with
    | Some b =>
        if tltb (vx pt) (vx b) then
          if tleb (tabs ((vnorm (vsub b a0) + vnorm (vsub b a1)) - vnorm (vsub a1 a0))) eta then
            let d := vdot (vsub b pt) nl in
            if tltb 0 d then 1%Z else if tltb d 0 then (-1)%Z else 0%Z
          else 0%Z
        else 0%Z
    | None => 0%Z
    end.

  Lemma side_count_eq (eps eta : T) (pt a0 a1 : vec) :
    side_count eps eta pt (a0, a1) = count_at eps eta pt a0 a1 (side_nl a0 a1).
  Proof. reflexivity. Qed.

  (** a side whose left normal has no x-component is parallel to the ray: skipped *)
  Lemma count_at_parallel (eps eta : T) (pt a0 a1 nl : vec) :
    0 <= eps -> vx nl = 0 -> count_at eps eta pt a0 a1 nl = 0%Z.
  Proof.
    intros He Hn. unfold count_at, project_to_plane. cbv zeta.
    rewrite ray_dir, vdot_e1, Hn, tabs_zero, (tltb_false_of_le eps 0 He). reflexivity.
  Qed.

  Lemma side_nl_horizontal (xa xb Y : T) :
    xa <> xb -> vx (side_nl (mkv xa Y 0) (mkv xb Y 0)) = 0.
  Proof.
    intros N. unfold side_nl. rewrite vnorm_x.
    unfold vdivs, vsub, mkv, vx, vy, vz. cbn [fst snd].
    replace (- (Y - Y)) with (0 : T) by ring.
    apply tdiv_zero_l, tabs_neq0, tsub_neq0, N.
  Qed.

  Lemma side_count_horizontal (eps eta : T) (pt : vec) (xa xb Y : T) :
    0 <= eps -> xa <> xb -> side_count eps eta pt (mkv xa Y 0, mkv xb Y 0) = 0%Z.
  Proof.
    intros He N. rewrite side_count_eq. apply count_at_parallel; [exact He|].
    now apply side_nl_horizontal.
  Qed.

  (** the unit left normal of a side that runs in +y / -y direction *)
  Lemma side_nl_up (X ya yb : T) : ya < yb -> side_nl (mkv X ya 0) (mkv X yb 0) = mkv (- (1)) 0 0.
  Proof.
    intros L. unfold side_nl. rewrite vnorm_y, (tabs_sub_ge yb ya (tlt_le _ _ L)).
    assert (Nz : yb - ya <> 0) by (apply tsub_neq0; now apply tlt_neq).
    unfold vdivs, vsub, mkv, vx, vy, vz. cbn [fst snd].
    replace (X - X) with (0 : T) by ring.
    rewrite (tdiv_opp_self _ Nz), (tdiv_zero_l _ Nz). reflexivity.
  Qed.

  Lemma side_nl_down (X ya yb : T) : yb < ya -> side_nl (mkv X ya 0) (mkv X yb 0) = mkv 1 0 0.
  Proof.
    intros L. unfold side_nl. rewrite vnorm_y, (tabs_sub_le yb ya (tlt_le _ _ L)).
    assert (Nz : ya - yb <> 0) by (apply tsub_neq0; now apply tlt_neq).
    unfold vdivs, vsub, mkv, vx, vy, vz. cbn [fst snd].
    replace (X - X) with (0 : T) by ring.
    replace (- (yb - ya)) with (ya - yb) by ring.
    rewrite (tdiv_self _ Nz), (tdiv_zero_l _ Nz). reflexivity.
  Qed.

  (** the ray meets the line x = X at (X, pt.y) *)
  Lemma ray_hit_vertical (eps px py X yb s : T) :
    0 <= eps -> eps < 1 -> s = 1 \/ s = - (1) ->
    project_to_plane false eps (mkv px py 0) (vadd (mkv px py 0) (mkv 1 0 0)) (mkv X yb 0) (mkv s 0 0)
    = Some (mkv X py 0).
  Proof.
    intros He He1 Hs. unfold project_to_plane. cbv zeta. rewrite ray_dir, vdot_e1.
    change (vx (mkv s 0 0)) with s.
    assert (Ha : tabs s = 1) by (destruct Hs as [->| ->]; [apply tabs_one|apply tabs_mone]).
    assert (Hs0 : s <> 0) by (destruct Hs as [->| ->]; [apply tone_neq0|apply tmone_neq0]).
    rewrite Ha. unfold tlt in He1. rewrite He1. f_equal.
    replace (vdot (mkv s 0 0) (vsub (vadd (mkv px py 0) (mkv 1 0 0)) (mkv X yb 0)))
      with (s * ((px + 1) - X)) by (vunfold; ring).
    rewrite (tdiv_mul_cancel _ _ Hs0). veq.
  Qed.

  (** the count of a side orthogonal to the ray, given its unit left normal (s, 0) *)
  Lemma count_at_vertical (eps eta px py X ya yb s : T) (sZ : Z) :
    0 <= eps -> eps < 1 -> (s = 1 /\ sZ = 1%Z) \/ (s = - (1) /\ sZ = (-1)%Z) ->
    count_at eps eta (mkv px py 0) (mkv X ya 0) (mkv X yb 0) (mkv s 0 0)
    = if tltb px X then if tleb (tabs (onseg_expr py ya yb)) eta then sZ else 0%Z else 0%Z.
  Proof.
    intros He He1 Hs. unfold count_at.
    rewrite (ray_hit_vertical eps px py X yb s He He1) by (destruct Hs as [[-> _]|[-> _]]; auto).
    change (vx (mkv px py 0)) with px. change (vx (mkv X py 0)) with X.
    destruct (tltb px X) eqn:Hx; [|reflexivity].
    rewrite !vnorm_y. fold (onseg_expr py ya yb).
    destruct (tleb (tabs (onseg_expr py ya yb)) eta); [|reflexivity].
    cbv zeta.
    replace (vdot (vsub (mkv X py 0) (mkv px py 0)) (mkv s 0 0)) with ((X - px) * s) by (vunfold; ring).
    assert (Hp : 0 < X - px) by now apply (proj1 (tlt_sub _ _)).
    destruct Hs as [[-> ->]|[-> ->]].
    - replace ((X - px) * 1) with (X - px) by ring. unfold tlt in Hp. now rewrite Hp.
    - replace ((X - px) * - (1)) with (- (X - px)) by ring.
      pose proof (tlt_pos_neg _ Hp) as Hn.
      rewrite (tlt_not_swap _ _ Hn). unfold tlt in Hn. now rewrite Hn.
  Qed.

  (** the count of a side orthogonal to the ray: -1 upwards, +1 downwards, if it lies to the right
      of [pt] and passes the on-segment test *)
  Lemma side_count_vertical (eps eta px py X ya yb : T) :
    0 <= eps -> eps < 1 -> ya <> yb ->
    side_count eps eta (mkv px py 0) (mkv X ya 0, mkv X yb 0)
    = if tltb px X then if tleb (tabs (onseg_expr py ya yb)) eta
                        then (if tltb ya yb then (-1)%Z else 1%Z) else 0%Z else 0%Z.
  Proof.
    intros He He1 N. rewrite side_count_eq. destruct (tneq_lt _ _ N) as [L|L].
    - rewrite (side_nl_up X ya yb L). unfold tlt in L. rewrite L.
      apply count_at_vertical; auto.
    - rewrite (side_nl_down X ya yb L), (tlt_not_swap _ _ L).
      apply count_at_vertical; auto.
  Qed.

  (** ** the winding count of a quadrilateral *)
  Lemma winding4 (eps eta : T) (pt p0 p1 p2 p3 : vec) :
    winding eps eta pt [p0; p1; p2; p3]
    = (side_count eps eta pt (p0, p1) + side_count eps eta pt (p1, p2)
       + side_count eps eta pt (p2, p3) + side_count eps eta pt (p3, p0))%Z.
  Proof. unfold winding, sides. cbn [combine app map fold_left]. rewrite Z.add_0_l. reflexivity. Qed.

  (** two opposite crossings at x = xr and x = xl: the sum is non-zero iff exactly one of them is
      to the right of px, i.e. iff px lies between (px on neither line) *)
  Lemma x_count_iff (px xl xr : T) (s t : Z) :
    (s = 1 /\ t = -1)%Z \/ (s = -1 /\ t = 1)%Z -> px <> xl -> px <> xr ->
    (((if tltb px xr then s else 0) + (if tltb px xl then t else 0))%Z <> 0%Z) <-> between xl xr px.
  Proof.
    intros Hst Nl Nr.
    assert (Hs : s <> 0%Z) by (destruct Hst as [[-> _]|[-> _]]; discriminate).
    assert (Ht : t <> 0%Z) by (destruct Hst as [[_ ->]|[_ ->]]; discriminate).
    assert (Hst0 : (s + t = 0)%Z) by (destruct Hst as [[-> ->]|[-> ->]]; reflexivity).
    destruct (tltb px xr) eqn:R, (tltb px xl) eqn:L.
    - split; [intros H; contradiction|].
      intros [[H1 _]|[H1 _]].
      + rewrite (tlt_not_swap _ _ H1) in L. discriminate.
      + rewrite (tlt_not_swap _ _ H1) in R. discriminate.
    - split; [intros _|intros _; now rewrite Z.add_0_r].
      left. split; [|exact R].
      destruct (tle_lt_or_eq _ _ (tlt_false_le _ _ L)) as [H|H]; [exact H|]. symmetry in H. contradiction.
    - split; [intros _|intros _; now rewrite Z.add_0_l].
      right. split; [|exact L].
      destruct (tle_lt_or_eq _ _ (tlt_false_le _ _ R)) as [H|H]; [exact H|]. symmetry in H. contradiction.
    - split; [intros H; exfalso; now apply H|].
      intros [[_ H2]|[_ H2]]; unfold tlt in H2; congruence.
  Qed.

  Section Rect2D.
    Variables (eps eta m px py xa xb ya yb : T).
    Hypothesis He : 0 <= eps.
    Hypothesis He1 : eps < 1.
    Hypothesis Heta : 0 <= eta.
    Hypothesis Hm : eta <= m + m.
    Hypothesis Nx : xa <> xb.
    Hypothesis Ny : ya <> yb.
    (** [pt] is on neither of the lines x = xa, x = xb, and farther than m from y = ya, y = yb *)
    Hypothesis Pxa : px <> xa.
    Hypothesis Pxb : px <> xb.
    Hypothesis Mya : m < tabs (py - ya).
    Hypothesis Myb : m < tabs (py - yb).

    Let Nx' : xb <> xa. Proof. intros E. apply Nx. now symmetry. Qed.
    Let Ny' : yb <> ya. Proof. intros E. apply Ny. now symmetry. Qed.

    (** sign of the crossing for an upward / downward side *)
    Lemma updown_signs :
      ((if tltb ya yb then (-1)%Z else 1%Z) = 1 /\ (if tltb yb ya then (-1)%Z else 1%Z) = -1)%Z \/
      ((if tltb ya yb then (-1)%Z else 1%Z) = -1 /\ (if tltb yb ya then (-1)%Z else 1%Z) = 1)%Z.
    Proof.
      destruct (tneq_lt _ _ Ny) as [L|L].
      - right. rewrite (tlt_not_swap _ _ L). unfold tlt in L. rewrite L. split; reflexivity.
      - left. rewrite (tlt_not_swap _ _ L). unfold tlt in L. rewrite L. split; reflexivity.
    Qed.

    (** vertex order (xa,ya) (xb,ya) (xb,yb) (xa,yb): first side parallel to the ray *)
    Lemma winding_rectH :
      winding eps eta (mkv px py 0) [mkv xa ya 0; mkv xb ya 0; mkv xb yb 0; mkv xa yb 0] <> 0%Z
      <-> between xa xb px /\ between ya yb py.
    Proof.
      rewrite winding4.
      rewrite (side_count_horizontal eps eta _ xa xb ya He Nx).
      rewrite (side_count_horizontal eps eta _ xb xa yb He Nx').
      rewrite (side_count_vertical eps eta px py xb ya yb He He1 Ny).
      rewrite (side_count_vertical eps eta px py xa yb ya He He1 Ny').
      rewrite Z.add_0_l, Z.add_0_r.
      destruct (between_dec ya yb py) as [B|B].
      - rewrite (onseg_test_in eta py ya yb Heta B).
        rewrite (onseg_test_in eta py yb ya Heta (proj1 (between_swap _ _ _) B)).
        rewrite (x_count_iff px xa xb _ _ updown_signs Pxa Pxb). tauto.
      - rewrite (onseg_test_out eta m py ya yb Heta Hm Ny Mya Myb B).
        rewrite (onseg_test_out eta m py yb ya Heta Hm Ny' Myb Mya
                   (fun H => B (proj1 (between_swap _ _ _) H))).
        destruct (tltb px xb), (tltb px xa); (split; [intros H; exfalso; now apply H|tauto]).
    Qed.

    (** vertex order (xa,ya) (xa,yb) (xb,yb) (xb,ya): first side orthogonal to the ray *)
    Lemma winding_rectV :
      winding eps eta (mkv px py 0) [mkv xa ya 0; mkv xa yb 0; mkv xb yb 0; mkv xb ya 0] <> 0%Z
      <-> between xa xb px /\ between ya yb py.
    Proof.
      rewrite winding4.
      rewrite (side_count_horizontal eps eta _ xa xb yb He Nx).
      rewrite (side_count_horizontal eps eta _ xb xa ya He Nx').
      rewrite (side_count_vertical eps eta px py xa ya yb He He1 Ny).
      rewrite (side_count_vertical eps eta px py xb yb ya He He1 Ny').
      rewrite !Z.add_0_r.
      destruct (between_dec ya yb py) as [B|B].
      - rewrite (onseg_test_in eta py ya yb Heta B).
        rewrite (onseg_test_in eta py yb ya Heta (proj1 (between_swap _ _ _) B)).
        rewrite (x_count_iff px xb xa _ _ updown_signs Pxb Pxa).
        rewrite (between_swap xb xa px). tauto.
      - rewrite (onseg_test_out eta m py ya yb Heta Hm Ny Mya Myb B).
        rewrite (onseg_test_out eta m py yb ya Heta Hm Ny' Myb Mya
                   (fun H => B (proj1 (between_swap _ _ _) H))).
        destruct (tltb px xb), (tltb px xa); (split; [intros H; exfalso; now apply H|tauto]).
    Qed.
  End Rect2D.
End PipRect2D.
