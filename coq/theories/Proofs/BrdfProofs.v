(** * Theorems about the BRDF constructors (Model/Brdf.v): energy, non-negativity, reciprocity. *)
From Coq Require Import List Arith Bool Ring Lia.
Import ListNotations.
From SV Require Import Base.Ops Base.Arr Base.Sums Model.Exchange Model.Brdf Spec.BrdfSpec
  Proofs.BrdfField.

(** ** Facts that need ring laws only *)
Section BrdfRing.
  Context {T : Type} {O : Ops T} {RL : RingLaws T}.
  Add Ring TRingBP1 : (@ring_th T O RL).

  Lemma sumf_nth (l : list T) : sumf l (fun x => x) = sumf (seq 0 (length l)) (nthT l).
  Proof.
    rewrite <- (tab_nth_id l 0%T) at 1. unfold tab. rewrite sumf_map. reflexivity.
  Qed.

  Lemma wsum_seq (w : list T) : wsum w = sumf (seq 0 (length w)) (nthT w).
  Proof. unfold wsum. rewrite suml_sumf. apply sumf_nth. Qed.

  Lemma nth_norm (w : list T) i : nthT (norm_weights w) i = (nthT w i * norm_factor w)%T.
  Proof.
    unfold norm_weights, nthT. set (k := norm_factor w).
    transitivity (nth i (map (fun x => (x * k)%T) w) ((fun x => (x * k)%T) 0%T)).
    - f_equal. ring.
    - exact (map_nth (fun x => (x * k)%T) w 0%T i).
  Qed.

  Lemma wsum_scale (c : T) (w : list T) : wsum (map (tmul c) w) = (c * wsum w)%T.
  Proof. unfold wsum. rewrite !suml_sumf, sumf_map. apply sumf_scale. Qed.

  Lemma get3_scat n nb cosv w mu s a i o b : i < n -> o < n -> b < nb ->
    get3 (from_scattering n nb cosv w mu s a) i o b = scat_entry cosv (norm_weights w) mu s a i o b.
  Proof.
    intros Hi Ho Hb. unfold get3, from_scattering, nthl, nthT.
    rewrite nth_tab by exact Hi. rewrite nth_tab by exact Ho. now rewrite nth_tab by exact Hb.
  Qed.

  Lemma get3_dir ns nr nb cosv w ds a i o b : i < ns -> o < nr -> b < nb ->
    get3 (from_directional ns nr nb cosv w ds a) i o b = dir_entry cosv (norm_weights w) ds a i o b.
  Proof.
    intros Hi Ho Hb. unfold get3, from_directional, nthl, nthT.
    rewrite nth_tab by exact Hi. rewrite nth_tab by exact Ho. now rewrite nth_tab by exact Hb.
  Qed.

  (** every entry is the diffuse level plus, at the mirror direction only, the specular excess *)
  Lemma scat_entry_split cosv wh mu s a i o b :
    scat_entry cosv wh mu s a i o b =
    (diffuse_part s a b + (if o =? nthn mu i then specular_part cosv wh mu s a i b else 0))%T.
  Proof.
    unfold scat_entry, scat_base, scat_cos_factor, diffuse_part, specular_part.
    destruct (o =? nthn mu i); ring.
  Qed.

  (** reciprocity: needs (H2) only *)
  Lemma scat_symmetric n nb cosv w mu s a i o b :
    mirror_H2 n mu w cosv -> i < n -> o < n -> b < nb ->
    get3 (from_scattering n nb cosv w mu s a) i o b = get3 (from_scattering n nb cosv w mu s a) o i b.
  Proof.
    intros H2 Hi Ho Hb. rewrite !get3_scat by assumption.
    unfold scat_entry, scat_cos_factor.
    destruct (H2 i Hi) as (Hmi & Hinv_i & Hw_i & Hc_i).
    destruct (H2 o Ho) as (Hmo & Hinv_o & Hw_o & Hc_o).
    destruct (Nat.eqb_spec o (nthn mu i)) as [E|NE].
    - assert (E' : i = nthn mu o) by (rewrite E; now symmetry).
      rewrite (proj2 (Nat.eqb_eq i (nthn mu o)) E').
      rewrite !nth_norm.
      (* cos_(mu i) * (w_i k)  =  cos_(mu o) * (w_o k)  with  o = mu i *)
      clear E'. subst o. rewrite Hinv_i, Hw_i, Hc_i. reflexivity.
    - destruct (Nat.eqb_spec i (nthn mu o)) as [E'|NE']; [|reflexivity].
      exfalso. apply NE. rewrite E'. now symmetry.
  Qed.
End BrdfRing.

(** ** Facts that need the ordered field *)
Section BrdfField.
  Context {T : Type} {O : Ops T} {RL : RingLaws T} {OL : OrderLaws T} {FL : FieldLaws T}.
  Add Ring TRingBP2 : (@ring_th T O RL).

  (** consequences of (H3) for the normalisation *)
  Lemma norm_facts n (w cosv : list T) :
    length w = n -> 0 < n -> pos_H3 n w cosv -> (0 < tpi)%T ->
    (0 < wsum w)%T /\ (0 < norm_factor w)%T /\ (norm_factor w * wsum w)%T = ((1 + 1) * tpi)%T.
  Proof.
    intros Hlen Hn H3 Hpi.
    assert (HW : (0 < wsum w)%T).
    { rewrite wsum_seq, Hlen. apply sumf_pos.
      - destruct n; [lia|]. simpl. congruence.
      - intros o Ho. apply in_seq in Ho. apply H3. lia. }
    split; [exact HW|]. split.
    - unfold norm_factor. apply tdiv_pos; [|exact HW]. apply tmul_pos; [apply ttwo_pos|exact Hpi].
    - unfold norm_factor. apply tdiv_mul. now apply tlt_neq.
  Qed.

  Lemma norm_weight_pos n (w cosv : list T) o :
    length w = n -> pos_H3 n w cosv -> (0 < tpi)%T -> o < n -> (0 < nthT (norm_weights w) o)%T.
  Proof.
    intros Hlen H3 Hpi Ho. rewrite nth_norm.
    destruct (norm_facts n w cosv Hlen ltac:(lia) H3 Hpi) as (_ & Hk & _).
    apply tmul_pos; [apply H3; exact Ho|exact Hk].
  Qed.

  (** under (H1) and (H3) the normalised weights integrate cos to exactly pi *)
  Lemma norm_cos_integral n (w cosv : list T) :
    length w = n -> 0 < n -> gauss_H1 n w cosv -> pos_H3 n w cosv -> (0 < tpi)%T ->
    sumf (seq 0 n) (fun o => (nthT cosv o * nthT (norm_weights w) o)%T) = tpi.
  Proof.
    intros Hlen Hn H1 H3 Hpi.
    destruct (norm_facts n w cosv Hlen Hn H3 Hpi) as (HW & Hk & HkW).
    rewrite (sumf_ext _ _ (fun o => (norm_factor w * (nthT w o * nthT cosv o))%T)).
    2:{ intros o _. rewrite nth_norm. ring. }
    rewrite sumf_scale.
    apply (tmul_cancel_r _ _ (1 + 1)%T); [apply tlt_neq, ttwo_pos|].
    set (S := sumf (seq 0 n) (fun o => (nthT w o * nthT cosv o)%T)) in *.
    replace (norm_factor w * S * (1 + 1))%T with (norm_factor w * ((1 + 1) * S))%T by ring.
    unfold gauss_H1 in H1. fold S in H1. rewrite H1. rewrite <- Hlen, <- wsum_seq, HkW. ring.
  Qed.

  (** diffuse energy: s (1 - a) *)
  Lemma scat_diffuse_energy n (w cosv s a : list T) b :
    length w = n -> 0 < n -> gauss_H1 n w cosv -> pos_H3 n w cosv -> (0 < tpi)%T ->
    sumf (seq 0 n) (fun o => (diffuse_part s a b * nthT cosv o * nthT (norm_weights w) o)%T)
    = (nthT s b * (1 - nthT a b))%T.
  Proof.
    intros Hlen Hn H1 H3 Hpi.
    rewrite (sumf_ext _ _ (fun o => (diffuse_part s a b * (nthT cosv o * nthT (norm_weights w) o))%T)).
    2:{ intros o _. ring. }
    rewrite sumf_scale, (norm_cos_integral n w cosv Hlen Hn H1 H3 Hpi).
    unfold diffuse_part.
    replace (nthT s b / tpi * (1 - nthT a b) * tpi)%T with ((nthT s b / tpi * tpi) * (1 - nthT a b))%T by ring.
    rewrite tdiv_mul by (now apply tlt_neq). reflexivity.
  Qed.

  (** specular energy: (1 - s)(1 - a), located at the mirror direction *)
  Lemma scat_specular_energy n (w cosv : list T) mu s a i b :
    length w = n -> mirror_weights n mu w -> pos_H3 n w cosv -> (0 < tpi)%T -> i < n ->
    (specular_part cosv (norm_weights w) mu s a i b
       * nthT cosv (nthn mu i) * nthT (norm_weights w) (nthn mu i))%T
    = ((1 - nthT s b) * (1 - nthT a b))%T.
  Proof.
    intros Hlen H2 H3 Hpi Hi. destruct (H2 i Hi) as (Hmi & Hw).
    unfold specular_part.
    assert (Ewh : nthT (norm_weights w) (nthn mu i) = nthT (norm_weights w) i) by (rewrite !nth_norm, Hw; reflexivity).
    rewrite Ewh.
    set (cf := (nthT cosv (nthn mu i) * nthT (norm_weights w) i)%T).
    assert (Hcf : cf <> 0%T).
    { apply tlt_neq. apply tmul_pos; [apply H3; exact Hmi|]. eapply norm_weight_pos; eassumption. }
    replace ((1 - nthT s b) / cf * (1 - nthT a b) * nthT cosv (nthn mu i) * nthT (norm_weights w) i)%T
      with (((1 - nthT s b) / cf * cf) * (1 - nthT a b))%T by (unfold cf; ring).
    rewrite tdiv_mul by exact Hcf. reflexivity.
  Qed.

  (** total reflected energy: 1 - a *)
  Lemma scat_energy n nb (w cosv : list T) mu s a i b :
    length w = n -> gauss_H1 n w cosv -> mirror_weights n mu w -> pos_H3 n w cosv -> (0 < tpi)%T ->
    i < n -> b < nb ->
    reflected n (from_scattering n nb cosv w mu s a) cosv (norm_weights w) i b = (1 - nthT a b)%T.
  Proof.
    intros Hlen H1 H2 H3 Hpi Hi Hb. destruct (H2 i Hi) as (Hmi & Hw).
    unfold reflected.
    rewrite (sumf_ext _ _ (fun o =>
      (diffuse_part s a b * nthT cosv o * nthT (norm_weights w) o
       + (if nthn mu i =? o
          then specular_part cosv (norm_weights w) mu s a i b
               * nthT cosv (nthn mu i) * nthT (norm_weights w) (nthn mu i)
          else 0))%T)).
    2:{ intros o Ho. apply in_seq in Ho. rewrite get3_scat by (try assumption; lia).
        rewrite scat_entry_split. rewrite (Nat.eqb_sym (nthn mu i) o).
        destruct (Nat.eqb_spec o (nthn mu i)) as [->|_]; ring. }
    rewrite sumf_add.
    rewrite (scat_diffuse_energy n w cosv s a b Hlen ltac:(lia) H1 H3 Hpi).
    rewrite sumf_pick by (try apply seq_NoDup; apply in_seq; lia).
    rewrite (scat_specular_energy n w cosv mu s a i b Hlen H2 H3 Hpi Hi).
    ring.
  Qed.

  Lemma mirror_H2_weights n mu (w cosv : list T) : mirror_H2 n mu w cosv -> mirror_weights n mu w.
  Proof. intros H i Hi. destruct (H i Hi) as (A & _ & B & _). now split. Qed.

  (** the full energy statement: total, entry-wise decomposition, diffuse share, specular share *)
  Lemma scat_energy_full n nb (w cosv : list T) mu s a i b :
    length w = n -> gauss_H1 n w cosv -> mirror_H2 n mu w cosv -> pos_H3 n w cosv -> (0 < tpi)%T ->
    i < n -> b < nb ->
    let B := from_scattering n nb cosv w mu s a in
    let wh := norm_weights w in
    reflected n B cosv wh i b = (1 - nthT a b)%T
    /\ (forall o, o < n ->
          get3 B i o b = (diffuse_part s a b
                          + (if o =? nthn mu i then specular_part cosv wh mu s a i b else 0))%T)
    /\ sumf (seq 0 n) (fun o => (diffuse_part s a b * nthT cosv o * nthT wh o)%T)
       = (nthT s b * (1 - nthT a b))%T
    /\ (specular_part cosv wh mu s a i b * nthT cosv (nthn mu i) * nthT wh (nthn mu i))%T
       = ((1 - nthT s b) * (1 - nthT a b))%T.
  Proof.
    intros Hlen H1 H2 H3 Hpi Hi Hb B wh. pose proof (mirror_H2_weights _ _ _ _ H2) as H2w.
    split; [now apply scat_energy|]. split; [|split].
    - intros o Ho. unfold B. rewrite get3_scat by assumption. apply scat_entry_split.
    - apply scat_diffuse_energy; try assumption. lia.
    - apply (scat_specular_energy n w cosv mu s a i b); assumption.
  Qed.

  (** non-negativity *)
  Lemma scat_nonneg n nb (w cosv : list T) mu s a i o b :
    length w = n -> (forall j, j < n -> nthn mu j < n) -> pos_H3 n w cosv -> (0 < tpi)%T ->
    unit_interval nb s -> unit_interval nb a -> i < n -> o < n -> b < nb ->
    (0 <= get3 (from_scattering n nb cosv w mu s a) i o b)%T.
  Proof.
    intros Hlen Hmu H3 Hpi Hs Ha Hi Ho Hb. rewrite get3_scat by assumption.
    destruct (Hs b Hb) as (Hs0 & Hs1). destruct (Ha b Hb) as (Ha0 & Ha1).
    assert (Hbase : (0 <= scat_base s b)%T).
    { unfold scat_base. apply tadd_nonneg; [apply tle_refl|]. now apply tdiv_nonneg. }
    unfold scat_entry. apply tmul_nonneg.
    - destruct (o =? nthn mu i); [|exact Hbase].
      apply tadd_nonneg; [exact Hbase|]. apply tdiv_nonneg.
      + now apply (proj1 (tle_sub _ _)).
      + unfold scat_cos_factor. apply tmul_pos; [apply H3, Hmu, Hi|]. eapply norm_weight_pos; eassumption.
    - now apply (proj1 (tle_sub _ _)).
  Qed.

  Lemma dir_nonneg ns nr nb (w cosv : list T) ds a i o b :
    length w = nr -> pos_H3 nr w cosv -> (0 < tpi)%T -> unit_interval nb a ->
    (0 <= get3 ds i o b)%T -> i < ns -> o < nr -> b < nb ->
    (0 <= get3 (from_directional ns nr nb cosv w ds a) i o b)%T.
  Proof.
    intros Hlen H3 Hpi Ha Hds Hi Ho Hb. rewrite get3_dir by assumption.
    destruct (Ha b Hb) as (Ha0 & Ha1). unfold dir_entry. apply tmul_nonneg.
    - apply tdiv_nonneg; [|apply H3; exact Ho]. apply tdiv_nonneg; [exact Hds|].
      eapply norm_weight_pos; eassumption.
    - now apply (proj1 (tle_sub _ _)).
  Qed.

  (** directional variant *)
  Lemma dir_energy ns nr nb (w cosv : list T) ds a i b :
    length w = nr -> rows_sum_one ns nr nb ds -> pos_H3 nr w cosv -> (0 < tpi)%T ->
    i < ns -> b < nb ->
    reflected nr (from_directional ns nr nb cosv w ds a) cosv (norm_weights w) i b = (1 - nthT a b)%T.
  Proof.
    intros Hlen Hrows H3 Hpi Hi Hb. unfold reflected.
    rewrite (sumf_ext _ _ (fun o => (get3 ds i o b * (1 - nthT a b))%T)).
    2:{ intros o Ho. apply in_seq in Ho. rewrite get3_dir by (try assumption; lia).
        unfold dir_entry.
        assert (Hwh : nthT (norm_weights w) o <> 0%T).
        { apply tlt_neq. eapply norm_weight_pos; try eassumption. lia. }
        assert (Hc : nthT cosv o <> 0%T) by (apply tlt_neq, H3; lia).
        set (x := get3 ds i o b) in *. set (wh := nthT (norm_weights w) o) in *. set (c := nthT cosv o) in *.
        replace (x / wh / c * (1 - nthT a b) * c * wh)%T with ((((x / wh) / c * c) * wh) * (1 - nthT a b))%T by ring.
        rewrite (tdiv_mul _ c Hc), (tdiv_mul _ wh Hwh). reflexivity. }
    rewrite sumf_scale_r, (Hrows i b Hi Hb). ring.
  Qed.

  (** rescaling all weights by a non-zero factor changes nothing *)
  Lemma norm_weights_scale (c : T) (w : list T) :
    c <> 0%T -> wsum w <> 0%T -> norm_weights (map (tmul c) w) = norm_weights w.
  Proof.
    intros Hc HW. unfold norm_weights. rewrite map_map. apply map_ext. intros x.
    assert (E : (norm_factor (map (tmul c) w) * c)%T = norm_factor w).
    { symmetry. unfold norm_factor at 1. apply tdiv_unique; [exact HW|].
      unfold norm_factor. rewrite wsum_scale.
      replace ((1 + 1) * tpi / (c * wsum w) * c * wsum w)%T
        with ((1 + 1) * tpi / (c * wsum w) * (c * wsum w))%T by ring.
      apply tdiv_mul. now apply tmul_neq_0. }
    rewrite <- E. ring.
  Qed.

  Lemma scat_scale_invariant (c : T) n nb cosv w mu s a :
    c <> 0%T -> wsum w <> 0%T ->
    from_scattering n nb cosv (map (tmul c) w) mu s a = from_scattering n nb cosv w mu s a.
  Proof. intros Hc HW. unfold from_scattering. now rewrite norm_weights_scale. Qed.

  Lemma dir_scale_invariant (c : T) ns nr nb cosv w ds a :
    c <> 0%T -> wsum w <> 0%T ->
    from_directional ns nr nb cosv (map (tmul c) w) ds a = from_directional ns nr nb cosv w ds a.
  Proof. intros Hc HW. unfold from_directional. now rewrite norm_weights_scale. Qed.
End BrdfField.
