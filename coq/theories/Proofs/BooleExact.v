(** * Boole's rule ([_newton_cotes_4th]) is linear in the samples and exact for every
    polynomial of degree <= 5 on five equidistant nodes. *)
From Coq Require Import List Arith Bool Ring Field Lia.
Import ListNotations.
From SV Require Import Base.Ops Base.Arr Model.Vec3 Model.Exchange Model.Stokes Proofs.FieldFacts.

Section BooleExact.
  Context {T : Type} {O : Ops T} {RL : RingLaws T} {OL : OrderLaws T} {FL : FieldLaws T}.
  Add Field TFieldBE : (@T_field_theory T O RL OL FL).

  Definition c3 : T := (c2 + 1)%T.
  Definition c5 : T := (c4 + 1)%T.
  Definition c6 : T := (c4 + c2)%T.

  Lemma c45_neq0 : (c45 : T) <> 0%T.
  Proof. unfold c45, c4, c2. tnz. Qed.

  (** p(x) = k0 + k1 x + ... + k5 x^5 and its primitive with P(0) = 0 *)
  Definition poly5 (k0 k1 k2 k3 k4 k5 x : T) : T :=
    (k0 + x * (k1 + x * (k2 + x * (k3 + x * (k4 + x * k5)))))%T.
  Definition prim5 (k0 k1 k2 k3 k4 k5 x : T) : T :=
    (x * (k0 + x * (k1 / c2 + x * (k2 / c3 + x * (k3 / c4 + x * (k4 / c5 + x * (k5 / c6)))))))%T.

  Lemma boole_h_linear (h a b y0 y1 y2 y3 y4 z0 z1 z2 z3 z4 : T) :
    boole_h h (a * y0 + b * z0)%T (a * y1 + b * z1)%T (a * y2 + b * z2)%T (a * y3 + b * z3)%T (a * y4 + b * z4)%T =
    (a * boole_h h y0 y1 y2 y3 y4 + b * boole_h h z0 z1 z2 z3 z4)%T.
  Proof. unfold boole_h. ring. Qed.

  Theorem boole_exact (k0 k1 k2 k3 k4 k5 a h : T) :
    let p := poly5 k0 k1 k2 k3 k4 k5 in
    let x := [a; a + h; a + c2 * h; a + c3 * h; a + c4 * h]%T in
    newton_cotes_4th x (map p x) =
    (prim5 k0 k1 k2 k3 k4 k5 (a + c4 * h) - prim5 k0 k1 k2 k3 k4 k5 a)%T.
  Proof.
    intros p x. unfold newton_cotes_4th, x, p. simpl map. unfold nthT. simpl nth.
    unfold boole_h, prim5, poly5.
    rewrite (tdiv_fdiv _ c45) by exact c45_neq0.
    rewrite !(tdiv_fdiv _ c2), !(tdiv_fdiv _ c3), !(tdiv_fdiv _ c4), !(tdiv_fdiv _ c5), !(tdiv_fdiv _ c6)
      by (unfold c6, c5, c4, c3, c2; tnz).
    unfold fdiv, c45, c32, c12, c7, c6, c5, c4, c3, c2.
    field.
    repeat split; tnz.
  Qed.

  (** the individual monomials, as the DESIGN states them *)
  Corollary boole_monomials (a h : T) :
    let x := [a; a + h; a + c2 * h; a + c3 * h; a + c4 * h]%T in
    let b := (a + c4 * h)%T in
    newton_cotes_4th x (map (fun _ => 1%T) x) = (b - a)%T /\
    newton_cotes_4th x (map (fun t => t) x) = ((b * b) / c2 - (a * a) / c2)%T /\
    newton_cotes_4th x (map (fun t => (t * t * t * t * t)%T) x) =
      ((b * b * b * b * b * b) / c6 - (a * a * a * a * a * a) / c6)%T.
  Proof.
    intros x b.
    assert (H2 : (c2 : T) <> 0%T) by (unfold c2; tnz).
    assert (H6 : (c6 : T) <> 0%T) by (unfold c6, c4, c2; tnz).
    pose proof (boole_exact 1 0 0 0 0 0 a h)%T as E0.
    pose proof (boole_exact 0 1 0 0 0 0 a h)%T as E1.
    pose proof (boole_exact 0 0 0 0 0 1 a h)%T as E5.
    cbv zeta in E0, E1, E5. unfold x, b.
    repeat split.
    - etransitivity; [etransitivity; [|exact E0]|].
      + simpl map. unfold poly5. f_equal. repeat (f_equal; try ring).
      + unfold prim5. rewrite !tdiv_0_l by (unfold c6, c5, c4, c3, c2; tnz). ring.
    - etransitivity; [etransitivity; [|exact E1]|].
      + simpl map. unfold poly5. f_equal. repeat (f_equal; try ring).
      + unfold prim5. rewrite !tdiv_0_l by (unfold c6, c5, c4, c3, c2; tnz).
        rewrite !(tdiv_fdiv _ c2) by exact H2. unfold fdiv. ring.
    - etransitivity; [etransitivity; [|exact E5]|].
      + simpl map. unfold poly5. f_equal. repeat (f_equal; try ring).
      + unfold prim5. rewrite !tdiv_0_l by (unfold c6, c5, c4, c3, c2; tnz).
        rewrite !(tdiv_fdiv _ c6) by exact H6. unfold fdiv. ring.
  Qed.
End BooleExact.
