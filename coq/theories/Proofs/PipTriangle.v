(** * The crossing number of a triangle: -1 (counter-clockwise) / +1 (clockwise) for a point
    strictly inside, 0 for a point strictly outside -- for every point that is on none of the three
    side lines and whose ray line y = pt.y passes through no vertex.  Together with
    Proofs/PipGeneral.v this makes [point_in_polygon] correct for triangles on axis planes in
    general position.

    The proof is sign bookkeeping on two ring identities: with p, q, r the cross products of pt
    against the sides AB, BC, CA and K twice the signed area,
        p + q + r = K,    q (A.y - pt.y) + r (B.y - pt.y) + p (C.y - pt.y) = 0
    (the y-component of the barycentric representation K pt = q A + r B + p C). *)
From Coq Require Import List Arith Bool Ring Lia ZArith.
Import ListNotations.
From SV Require Import Base.Ops Base.Arr Model.Vec3 Model.Visibility Spec.VisibilitySpec
  Proofs.OrderField Proofs.VisibilitySym Proofs.VisibilitySegment Proofs.PipRect
  Proofs.PipRectSurface Proofs.PipGeneral.

Section PipTriangle.
  Context {T : Type} {O : Ops T} {RL : RingLaws T} {OL : OrderLaws T}.
  Add Ring TRingPipTri : (@ring_th T O RL).
  Local Notation vec := (@vec T).
  Local Open Scope T_scope.

  (** ** signs *)
  Lemma lt0_neg (x : T) : x < 0 -> 0 < - x.
  Proof.
    intros H. apply tlt_iff. intros C. apply (proj1 (tlt_iff _ _) H).
    replace x with (- - x) by ring. now apply topp_nonneg.
  Qed.
  Lemma neg_lt0 (x : T) : 0 < x -> - x < 0.
  Proof.
    intros H. apply tlt_iff. intros C. apply (proj1 (tlt_iff _ _) H).
    apply (proj2 (tle_sub _ _)). replace (0 - x) with (- x) by ring. exact C.
  Qed.
  Lemma mul_pp (x y : T) : 0 < x -> 0 < y -> 0 < x * y.
  Proof. apply tmul_pos. Qed.
  Lemma mul_nn (x y : T) : x < 0 -> y < 0 -> 0 < x * y.
  Proof.
    intros Hx Hy. replace (x * y) with ((- x) * (- y)) by ring. apply tmul_pos; now apply lt0_neg.
  Qed.
  Lemma mul_pn (x y : T) : 0 < x -> y < 0 -> x * y < 0.
  Proof.
    intros Hx Hy. replace (x * y) with (- (x * (- y))) by ring. apply neg_lt0, tmul_pos; [exact Hx|now apply lt0_neg].
  Qed.
  Lemma mul_np (x y : T) : x < 0 -> 0 < y -> x * y < 0.
  Proof. intros Hx Hy. replace (x * y) with (y * x) by ring. now apply mul_pn. Qed.

  Lemma add_pos (x y : T) : 0 < x -> 0 < y -> 0 < x + y.
  Proof.
    intros Hx Hy. apply (tlt_le_trans _ x); [exact Hx|].
    replace x with (x + 0) at 1 by ring. apply tadd_le_mono_l. now apply tlt_le.
  Qed.
  Lemma add_neg (x y : T) : x < 0 -> y < 0 -> x + y < 0.
  Proof.
    intros Hx Hy. replace (x + y) with (- ((- x) + (- y))) by ring.
    apply neg_lt0, add_pos; now apply lt0_neg.
  Qed.

  Lemma sum3_pos_neq0 (x y z : T) : 0 < x -> 0 < y -> 0 < z -> x + y + z = 0 -> False.
  Proof.
    intros Hx Hy Hz E. pose proof (add_pos _ _ (add_pos _ _ Hx Hy) Hz) as H. rewrite E in H.
    exact (tlt_irrefl _ H).
  Qed.
  Lemma sum3_neg_neq0 (x y z : T) : x < 0 -> y < 0 -> z < 0 -> x + y + z = 0 -> False.
  Proof.
    intros Hx Hy Hz E. pose proof (add_neg _ _ (add_neg _ _ Hx Hy) Hz) as H. rewrite E in H.
    exact (tlt_irrefl _ H).
  Qed.
  Lemma sum3_neg_pos (x y z K : T) : x < 0 -> y < 0 -> z < 0 -> 0 < K -> x + y + z = K -> False.
  Proof.
    intros Hx Hy Hz HK E. pose proof (add_neg _ _ (add_neg _ _ Hx Hy) Hz) as H. rewrite E in H.
    apply (tlt_irrefl 0). now apply (tlt_le_trans _ K); [|apply tlt_le].
  Qed.

  Lemma neq_lt (a b : T) : a <> b -> a < b \/ b < a.
  Proof.
    intros N. destruct (tle_total a b) as [H|H]; destruct (tle_lt_or_eq _ _ H) as [L|E]; auto.
    - contradiction.
    - symmetry in E. contradiction.
  Qed.
  Lemma lt_not_swap (a b : T) : a < b -> tltb b a = false.
  Proof.
    intros H. destruct (tltb b a) eqn:E; [|reflexivity].
    exfalso. apply (proj1 (tlt_iff _ _) E). now apply tlt_le.
  Qed.

  (** ** the sign-level core *)
  Definition cc (a b p : T) : Z :=
    if tltb a 0 && tltb 0 b then (if tltb 0 p then (-1)%Z else 0%Z)
    else if tltb b 0 && tltb 0 a then (if tltb p 0 then 1%Z else 0%Z) else 0%Z.

  Ltac sign_bool H :=
    let B1 := fresh "B" in let B2 := fresh "B" in
    pose proof (lt_not_swap _ _ H) as B1; pose proof H as B2; unfold tlt in B2;
    rewrite ?B1, ?B2.
  Ltac prod_sign :=
    first [apply mul_pp; assumption | apply mul_nn; assumption
          | apply mul_pn; assumption | apply mul_np; assumption].

  Lemma tri_core (a b c p q r K : T) :
    a <> 0 -> b <> 0 -> c <> 0 -> p <> 0 -> q <> 0 -> r <> 0 ->
    0 < K -> p + q + r = K -> q * a + r * b + p * c = 0 ->
    (cc a b p + cc b c q + cc c a r)%Z = (if tltb 0 p && tltb 0 q && tltb 0 r then (-1)%Z else 0%Z).
  Proof.
    intros Na Nb Nc Np Nq Nr HK I1 I2. unfold cc.
    destruct (neq_lt _ _ Na) as [Ha|Ha]; destruct (neq_lt _ _ Nb) as [Hb|Hb];
      destruct (neq_lt _ _ Nc) as [Hc|Hc]; destruct (neq_lt _ _ Np) as [Hp|Hp];
      destruct (neq_lt _ _ Nq) as [Hq|Hq]; destruct (neq_lt _ _ Nr) as [Hr|Hr];
      sign_bool Ha; sign_bool Hb; sign_bool Hc; sign_bool Hp; sign_bool Hq; sign_bool Hr;
      first
        [ reflexivity
        | exfalso; exact (sum3_neg_pos p q r K Hp Hq Hr HK I1)
        | exfalso; apply (sum3_pos_neq0 (q * a) (r * b) (p * c)); [prod_sign|prod_sign|prod_sign|exact I2]
        | exfalso; apply (sum3_neg_neq0 (q * a) (r * b) (p * c)); [prod_sign|prod_sign|prod_sign|exact I2] ].
  Qed.

  (** ** from coordinates to signs *)
  Lemma tltb_sub0_l (x y : T) : tltb x y = tltb (x - y) 0.
  Proof.
    assert (H : x < y <-> x - y < 0).
    { split; intros L.
      - replace (x - y) with (- (y - x)) by ring. apply neg_lt0. now apply (proj1 (tlt_sub _ _)).
      - apply (proj2 (tlt_sub _ _)). replace (y - x) with (- (x - y)) by ring. now apply lt0_neg. }
    unfold tlt in H. destruct (tltb x y), (tltb (x - y) 0); try reflexivity.
    - symmetry. now apply H.
    - now apply H.
  Qed.
  Lemma tltb_sub0_r (x y : T) : tltb x y = tltb 0 (y - x).
  Proof.
    pose proof (tlt_sub x y) as H. unfold tlt in H.
    destruct (tltb x y), (tltb 0 (y - x)); try reflexivity.
    - symmetry. now apply H.
    - now apply H.
  Qed.

  Lemma cross_count_cc (pt a0 a1 : vec) :
    cross_count pt (a0, a1) = cc (vy a0 - vy pt) (vy a1 - vy pt) (cross2 a0 a1 pt).
  Proof.
    unfold cross_count, cc. cbn [fst snd].
    now rewrite (tltb_sub0_l (vy a0) (vy pt)), (tltb_sub0_r (vy pt) (vy a1)),
                (tltb_sub0_l (vy a1) (vy pt)), (tltb_sub0_r (vy pt) (vy a0)).
  Qed.

  Lemma crossing3 (pt A B C : vec) :
    crossing_number pt [A; B; C]
    = (cross_count pt (A, B) + cross_count pt (B, C) + cross_count pt (C, A))%Z.
  Proof. unfold crossing_number, sides. cbn [combine app map fold_left]. now rewrite Z.add_0_l. Qed.

  Lemma tri_identity_sum (pt A B C : vec) :
    cross2 A B pt + cross2 B C pt + cross2 C A pt = cross2 A B C.
  Proof. unfold cross2. ring. Qed.

  Lemma tri_identity_bary (pt A B C : vec) :
    cross2 B C pt * (vy A - vy pt) + cross2 C A pt * (vy B - vy pt) + cross2 A B pt * (vy C - vy pt) = 0.
  Proof. unfold cross2. ring. Qed.

  Lemma sub_neq0 (x y : T) : x <> y -> x - y <> 0.
  Proof. intros N E. apply N. transitivity ((x - y) + y); [ring|]. rewrite E. ring. Qed.

  (** ** counter-clockwise triangle *)
  Theorem crossing_triangle_ccw (pt A B C : vec) :
    vy A <> vy pt -> vy B <> vy pt -> vy C <> vy pt ->
    cross2 A B pt <> 0 -> cross2 B C pt <> 0 -> cross2 C A pt <> 0 ->
    0 < cross2 A B C ->
    crossing_number pt [A; B; C]
    = if tltb 0 (cross2 A B pt) && tltb 0 (cross2 B C pt) && tltb 0 (cross2 C A pt)
      then (-1)%Z else 0%Z.
  Proof.
    intros Na Nb Nc Np Nq Nr HK.
    rewrite crossing3, !cross_count_cc.
    apply (tri_core _ _ _ _ _ _ (cross2 A B C)); auto using sub_neq0.
    - apply tri_identity_sum.
    - apply tri_identity_bary.
  Qed.

  (** ** reversing a side negates its count *)
  Lemma cross2_rev (a0 a1 pt : vec) : cross2 a1 a0 pt = - cross2 a0 a1 pt.
  Proof. unfold cross2. ring. Qed.

  Lemma tltb_opp_l (x : T) : tltb 0 (- x) = tltb x 0.
  Proof.
    assert (H : 0 < - x <-> x < 0).
    { split; intros L; [replace x with (- - x) by ring; now apply neg_lt0|now apply lt0_neg]. }
    unfold tlt in H. destruct (tltb 0 (- x)), (tltb x 0); try reflexivity.
    - symmetry. now apply H.
    - now apply H.
  Qed.
  Lemma tltb_opp_r (x : T) : tltb (- x) 0 = tltb 0 x.
  Proof. rewrite <- (tltb_opp_l (- x)). f_equal. ring. Qed.

  Lemma cross_count_rev (pt a0 a1 : vec) : cross_count pt (a1, a0) = (- cross_count pt (a0, a1))%Z.
  Proof.
    unfold cross_count. cbn [fst snd]. rewrite (cross2_rev a0 a1 pt), tltb_opp_l, tltb_opp_r.
    destruct (tltb (vy a1) (vy pt)) eqn:E1, (tltb (vy pt) (vy a0)) eqn:E2;
      destruct (tltb (vy a0) (vy pt)) eqn:E3, (tltb (vy pt) (vy a1)) eqn:E4; cbn [andb];
      try (rewrite (lt_not_swap _ _ E1) in E4; discriminate);
      try (rewrite (lt_not_swap _ _ E2) in E3; discriminate);
      destruct (tltb (cross2 a0 a1 pt) 0), (tltb 0 (cross2 a0 a1 pt)); reflexivity.
  Qed.

  Lemma crossing_triangle_rev (pt A B C : vec) :
    crossing_number pt [A; C; B] = (- crossing_number pt [A; B; C])%Z.
  Proof.
    rewrite !crossing3, (cross_count_rev pt C A), (cross_count_rev pt B C), (cross_count_rev pt A B). ring.
  Qed.

  (** ** clockwise triangle *)
  Theorem crossing_triangle_cw (pt A B C : vec) :
    vy A <> vy pt -> vy B <> vy pt -> vy C <> vy pt ->
    cross2 A B pt <> 0 -> cross2 B C pt <> 0 -> cross2 C A pt <> 0 ->
    cross2 A B C < 0 ->
    crossing_number pt [A; B; C]
    = if tltb (cross2 A B pt) 0 && tltb (cross2 B C pt) 0 && tltb (cross2 C A pt) 0
      then 1%Z else 0%Z.
  Proof.
    intros Na Nb Nc Np Nq Nr HK.
    assert (Nn : forall x : T, x <> 0 -> - x <> 0).
    { intros x N E. apply N. replace x with (- - x) by ring. rewrite E. ring. }
    pose proof (crossing_triangle_rev pt A C B) as R. rewrite R.
    rewrite (crossing_triangle_ccw pt A C B); auto.
    - rewrite (cross2_rev C A pt), (cross2_rev B C pt), (cross2_rev A B pt), !tltb_opp_l.
      destruct (tltb (cross2 C A pt) 0), (tltb (cross2 B C pt) 0), (tltb (cross2 A B pt) 0); reflexivity.
    - rewrite (cross2_rev C A pt). auto.
    - rewrite (cross2_rev B C pt). auto.
    - rewrite (cross2_rev A B pt). auto.
    - replace (cross2 A C B) with (- cross2 A B C) by (unfold cross2; ring). now apply lt0_neg.
  Qed.

  (** strictly inside: on the same side of all three sides *)
  Definition inside_tri (A B C pt : vec) : Prop :=
    (0 < cross2 A B pt /\ 0 < cross2 B C pt /\ 0 < cross2 C A pt) \/
    (cross2 A B pt < 0 /\ cross2 B C pt < 0 /\ cross2 C A pt < 0).

  (** either orientation: the crossing number is non-zero exactly inside *)
  Theorem crossing_triangle (pt A B C : vec) :
    vy A <> vy pt -> vy B <> vy pt -> vy C <> vy pt ->
    cross2 A B pt <> 0 -> cross2 B C pt <> 0 -> cross2 C A pt <> 0 ->
    cross2 A B C <> 0 ->
    (crossing_number pt [A; B; C] <> 0%Z <-> inside_tri A B C pt).
  Proof.
    intros Na Nb Nc Np Nq Nr NK. unfold inside_tri.
    pose proof (tri_identity_sum pt A B C) as I1.
    destruct (neq_lt _ _ NK) as [HK|HK].
    - rewrite (crossing_triangle_cw pt A B C Na Nb Nc Np Nq Nr HK).
      destruct (tltb (cross2 A B pt) 0) eqn:E1, (tltb (cross2 B C pt) 0) eqn:E2,
               (tltb (cross2 C A pt) 0) eqn:E3; cbn [andb];
        (split; [intros H; try (exfalso; now apply H)|intros H]).
      all: try (right; repeat split; assumption).
      all: try discriminate.
      all: destruct H as [(H1 & H2 & H3)|(H1 & H2 & H3)];
        try (exfalso; pose proof (add_pos _ _ (add_pos _ _ H1 H2) H3) as P; rewrite I1 in P;
             exact (tlt_irrefl _ (tlt_trans _ _ _ P HK)));
        unfold tlt in H1, H2, H3; congruence.
    - rewrite (crossing_triangle_ccw pt A B C Na Nb Nc Np Nq Nr HK).
      destruct (tltb 0 (cross2 A B pt)) eqn:E1, (tltb 0 (cross2 B C pt)) eqn:E2,
               (tltb 0 (cross2 C A pt)) eqn:E3; cbn [andb];
        (split; [intros H; try (exfalso; now apply H)|intros H]).
      all: try (left; repeat split; assumption).
      all: try discriminate.
      all: destruct H as [(H1 & H2 & H3)|(H1 & H2 & H3)];
        try (exfalso; pose proof (add_neg _ _ (add_neg _ _ H1 H2) H3) as P; rewrite I1 in P;
             exact (tlt_irrefl _ (tlt_trans _ _ _ HK P)));
        unfold tlt in H1, H2, H3; congruence.
  Qed.
End PipTriangle.

(** ** [point_in_polygon] for a triangle on an axis plane, in general position *)
Section PipTriangleSurface.
  Context {T : Type} {O : Ops T} {RL : RingLaws T} {OL : OrderLaws T} {FL : FieldLaws T}
          {SL : SqrtLaws T}.
  Local Notation vec := (@vec T).
  Local Open Scope T_scope.

  (** general position of the (rotated, flattened) query point with respect to the triangle:
      the three sides satisfy [side_gp] (vertices off the eta/2 band of the ray's line, crossing
      sides steeper than epsilon), the point is on none of the three side lines, and the triangle
      is not degenerate *)
  Definition tri_gp (eps dl : T) (A B C pt : vec) : Prop :=
    side_gp eps dl pt (A, B) /\ side_gp eps dl pt (B, C) /\ side_gp eps dl pt (C, A) /\
    cross2 A B pt <> 0 /\ cross2 B C pt <> 0 /\ cross2 C A pt <> 0 /\ cross2 A B C <> 0.

  Theorem pip_correct_triangle (eps eta dl : T) (P0 P1 P2 p : vec) (ax : axis) (up : bool) :
    0 <= eps -> 0 <= eta -> eta <= dl + dl ->
    tabs (side_of ([P0; P1; P2], axis_normal ax up) p) <= eta ->
    tri_gp eps dl (proj2d ax up P0) (proj2d ax up P1) (proj2d ax up P2) (proj2d ax up p) ->
    pip_correct_at eps eta
      (fun x => inside_tri (proj2d ax up P0) (proj2d ax up P1) (proj2d ax up P2) (proj2d ax up x))
      ([P0; P1; P2], axis_normal ax up) p.
  Proof.
    intros He Heta Hdl Hg (G0 & G1 & G2 & Np & Nq & Nr & NK).
    unfold pip_correct_at, pip.
    change (s_pts ([P0; P1; P2], axis_normal ax up)) with [P0; P1; P2].
    change (s_nrm ([P0; P1; P2], axis_normal ax up)) with (axis_normal ax up).
    rewrite (pip_general_position eps eta dl p [P0; P1; P2] ax up He Heta Hdl Hg).
    - rewrite negb_true_iff, Z.eqb_neq. cbn [map].
      pose proof (half_nonneg dl (tle_trans _ _ _ Heta Hdl)) as Hd0.
      assert (Ny : forall s, side_gp eps dl (proj2d ax up p) s -> vy (fst s) <> vy (proj2d ax up p)).
      { intros s (M & _). intros E. exact (off_neq dl _ _ Hd0 M (eq_sym E)). }
      apply crossing_triangle; auto.
      + exact (Ny _ G0).
      + exact (Ny _ G1).
      + exact (Ny _ G2).
    - cbn [map]. unfold sides. cbn [combine app]. intros s [<-|[<-|[<-|[]]]]; assumption.
  Qed.
End PipTriangleSurface.
