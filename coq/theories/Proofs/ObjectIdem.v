(** * Repeating a stage with the same arguments changes nothing (brute-force case analysis). *)
From Coq Require Import List Arith Bool Lia.
Import ListNotations.
From SV Require Import Model.Object Spec.ObjectSpec Proofs.ObjectProofs.

Ltac dm1 :=
  match goal with
  | |- context [match option_map (nd _) ?v with _ => _ end] => is_var v; destruct v as [[? ? ? ?]|]
  | |- context [match ?v with _ => _ end] => is_var v; destruct v
  | |- context [match ?x with _ => _ end] =>
    lazymatch x with
    | context [match _ with _ => _ end] => fail
    | _ => destruct x eqn:?
    end
  end.
Ltac sm := cbn -[nats_eqb homog dir_counts tab_fits resolve wall_cfg fold_left upd_nth repeat seq
                 Nat.eqb Nat.ltb forallb app length].
Ltac dm := repeat (sm; dm1); sm.
Ltac fin := rewrite ?omnd_idem, ?nd_idem; unfold nd; cbn; rewrite ?nk_idem; try reflexivity; try congruence.

Lemma bake_idem g s : fst (obake g s) = ROk -> obake g (snd (obake g s)) = obake g s.
Proof.
  destruct s; unfold obake, tgeo, nbins, read_mats, read_dirs.
  dm; intros; try discriminate; fin.
Qed.

Lemma exchange_idem g s tid ns order :
  fst (oexchange g s tid ns order true) = ROk ->
  oexchange g (snd (oexchange g s tid ns order true)) tid ns order true = oexchange g s tid ns order true.
Proof.
  destruct s; unfold oexchange, tgeo.
  dm; intros; try discriminate; fin.
Qed.
