(** * The patch subdivision under the 48 signed axis permutations (proofs for C08 / C17).

    [m v = (e0 * v[sigma 0], e1 * v[sigma 1], e2 * v[sigma 2])], [sigma] a permutation of
    {0,1,2}, every [e_k] in {1,-1}.  For a wall in a coordinate plane whose two in-plane
    extents are at least the patch size ([wall_ok]):

    - the image wall is again such a wall; its flat axis is the [f'] with [sigma f' = f], its
      flat coordinate is [e_f' * c], and the extents / counts / cell sizes of axis [d] of the
      image are those of axis [sigma d] of the wall (so the two in-plane counts are swapped
      with the axes);
    - the list of patches of the image wall is a [Permutation] of the images of the patches of
      the wall, each image taken with ONE fixed reordering of its four vertices (one of the
      8 orders [reorder o], the same [o] for all patches);
    - the renumbering is explicit: cell (i,j) goes to the cell whose index on an axis is
      [i] (sign 1) or [n-1-i] (sign -1), rows and columns exchanged if [sigma] exchanges the
      in-plane axes.

    Mirroring is the place where exact field arithmetic is needed: the cell edges of the image
    are computed from the NEW minimum [-(x_max)], and [-(x_max) + (n-1-i) s = -(x_min + (i+1) s)]
    uses [x_max = x_min + n * (size/n)]. *)
From Coq Require Import List Arith Bool Ring Lia Permutation.
Import ListNotations.
From SV Require Import Base.Ops Base.Arr Base.Sums Model.Vec3 Model.Tiling
  Proofs.OrderField Proofs.TilingLists Proofs.TilingProofs.

(** ** 1. Reindexing a grid of blocks (lists only) *)
Section GridPerm.
  Context {A : Type}.

  (** index on an axis with [n] cells: kept, or counted from the other end *)
  Definition flip (s : bool) (n i : nat) : nat := if s then n - 1 - i else i.

  Lemma flip_lt s n i : i < n -> flip s n i < n.
  Proof. intros H. destruct s; unfold flip; lia. Qed.
  Lemma flip_invol s n i : i < n -> flip s n (flip s n i) = i.
  Proof. intros H. destruct s; unfold flip; lia. Qed.

  Lemma tab_rev {B} n (g : nat -> B) : tab n (fun i => g (n - 1 - i)) = rev (tab n g).
  Proof.
    induction n as [|n IH]; [reflexivity|].
    rewrite (tab_S n g), rev_unit, <- IH.
    unfold tab. cbn [seq map]. f_equal.
    - f_equal. lia.
    - rewrite <- seq_shift, map_map. apply map_ext_in. intros i Hi. f_equal. lia.
  Qed.

  Lemma tab_flip_perm {B} s n (g : nat -> B) : Permutation (tab n (fun i => g (flip s n i))) (tab n g).
  Proof.
    destruct s; unfold flip.
    - rewrite tab_rev. apply Permutation_sym, Permutation_rev.
    - apply Permutation_refl.
  Qed.

  Lemma concat_perm (l l' : list (list A)) : Permutation l l' -> Permutation (concat l) (concat l').
  Proof.
    induction 1 as [|x l l' _ IH|x y l|l l' l'' _ IH1 _ IH2]; cbn [concat].
    - apply Permutation_refl.
    - now apply Permutation_app_head.
    - apply Permutation_app_swap_app.
    - eapply perm_trans; eassumption.
  Qed.

  Lemma concat_tab_pointwise n (F G : nat -> list A) :
    (forall i, i < n -> Permutation (F i) (G i)) -> Permutation (concat (tab n F)) (concat (tab n G)).
  Proof.
    induction n as [|n IH]; intros H; [apply Permutation_refl|].
    rewrite !tab_S, !concat_app. apply Permutation_app.
    - apply IH. intros i Hi. apply H. lia.
    - cbn [concat]. rewrite !app_nil_r. apply H. lia.
  Qed.

  (** both indices kept or reversed *)
  Lemma grid_flip_perm sx sy nx ny (G : nat -> nat -> A) :
    Permutation (concat (tab nx (fun i => tab ny (fun j => G (flip sx nx i) (flip sy ny j)))))
                (concat (tab nx (fun i => tab ny (fun j => G i j)))).
  Proof.
    eapply perm_trans.
    - apply concat_perm.
      exact (tab_flip_perm sx nx (fun i => tab ny (fun j => G i (flip sy ny j)))).
    - apply concat_tab_pointwise. intros i _. exact (tab_flip_perm sy ny (G i)).
  Qed.

  Lemma flat_map_nil {B} (l : list B) : flat_map (fun _ : B => @nil A) l = [].
  Proof. induction l as [|b l IH]; [reflexivity|exact IH]. Qed.

  Lemma flat_map_cons_split {B} (h : B -> A) (k : B -> list A) (l : list B) :
    Permutation (flat_map (fun j => h j :: k j) l) (map h l ++ flat_map k l).
  Proof.
    induction l as [|b l IH]; cbn [flat_map map app]; [apply Permutation_refl|].
    apply perm_skip. eapply perm_trans; [apply Permutation_app_head; exact IH|].
    apply Permutation_app_swap_app.
  Qed.

  Lemma flat_map_transpose {B C} (G : B -> C -> A) (l1 : list B) (l2 : list C) :
    Permutation (flat_map (fun i => map (fun j => G i j) l2) l1)
                (flat_map (fun j => map (fun i => G i j) l1) l2).
  Proof.
    induction l1 as [|a l1 IH]; cbn [flat_map map].
    - rewrite flat_map_nil. apply Permutation_refl.
    - apply Permutation_sym.
      eapply perm_trans;
        [exact (flat_map_cons_split (fun j => G a j) (fun j => map (fun i => G i j) l1) l2)|].
      apply Permutation_app_head, Permutation_sym, IH.
  Qed.

  (** rows and columns exchanged *)
  Lemma grid_transpose_perm nx ny (G : nat -> nat -> A) :
    Permutation (concat (tab ny (fun j => tab nx (fun i => G i j))))
                (concat (tab nx (fun i => tab ny (fun j => G i j)))).
  Proof.
    unfold tab. rewrite <- !flat_map_concat_map.
    exact (flat_map_transpose (fun j i => G i j) (seq 0 ny) (seq 0 nx)).
  Qed.

  Lemma Forall2_map_self {B} (R : B -> A -> Prop) (F : A -> B) (l : list A) :
    (forall x, In x l -> R (F x) x) -> Forall2 R (map F l) l.
  Proof.
    induction l as [|x l IH]; intros H; cbn [map]; constructor.
    - apply H. now left.
    - apply IH. intros y Hy. apply H. now right.
  Qed.
End GridPerm.

(** ** 2. The six permutations of the axes *)
Section SigmaCases.
  Variable sigma : nat -> nat.
  Hypothesis Hperm : Permutation [sigma 0; sigma 1; sigma 2] [0; 1; 2].

  Lemma sigma_cases :
    (sigma 0 = 0 /\ sigma 1 = 1 /\ sigma 2 = 2) \/ (sigma 0 = 0 /\ sigma 1 = 2 /\ sigma 2 = 1) \/
    (sigma 0 = 1 /\ sigma 1 = 0 /\ sigma 2 = 2) \/ (sigma 0 = 1 /\ sigma 1 = 2 /\ sigma 2 = 0) \/
    (sigma 0 = 2 /\ sigma 1 = 0 /\ sigma 2 = 1) \/ (sigma 0 = 2 /\ sigma 1 = 1 /\ sigma 2 = 0).
  Proof.
    assert (I0 : In (sigma 0) [0; 1; 2]) by (apply (Permutation_in _ Hperm); simpl; auto).
    assert (I1 : In (sigma 1) [0; 1; 2]) by (apply (Permutation_in _ Hperm); simpl; auto).
    assert (I2 : In (sigma 2) [0; 1; 2]) by (apply (Permutation_in _ Hperm); simpl; auto).
    assert (ND : NoDup [sigma 0; sigma 1; sigma 2]).
    { apply (Permutation_NoDup (Permutation_sym Hperm)). repeat constructor; simpl; intuition lia. }
    assert (N01 : sigma 0 <> sigma 1).
    { intros E. inversion ND as [|x l Hn _]; subst. apply Hn. rewrite E. simpl; auto. }
    assert (N02 : sigma 0 <> sigma 2).
    { intros E. inversion ND as [|x l Hn _]; subst. apply Hn. rewrite E. simpl; auto. }
    assert (N12 : sigma 1 <> sigma 2).
    { intros E. inversion ND as [|x l _ ND']; subst. inversion ND' as [|x' l' Hn _]; subst.
      apply Hn. rewrite E. simpl; auto. }
    clear ND Hperm.
    destruct I0 as [I0|[I0|[I0|[]]]]; destruct I1 as [I1|[I1|[I1|[]]]]; destruct I2 as [I2|[I2|[I2|[]]]];
      try (exfalso; first [apply N01; congruence | apply N02; congruence | apply N12; congruence]);
      rewrite <- I0, <- I1, <- I2; clear; lia.
  Qed.

  Lemma px_lt f : f < 3 -> px f < 3.
  Proof. intros H. destruct f as [|[|[|f]]]; cbv; lia. Qed.
  Lemma py_lt f : f < 3 -> py f < 3.
  Proof. intros H. destruct f as [|[|[|f]]]; cbv; lia. Qed.

  (** the axis sent to the flat axis [f], and what happens to the two others: kept in order
      ([false]) or exchanged ([true]) *)
  Lemma flat_preimage f : f < 3 ->
    exists f' sw, f' < 3 /\ sigma f' = f /\
      (if sw : bool then sigma (px f') = py f /\ sigma (py f') = px f
       else sigma (px f') = px f /\ sigma (py f') = py f).
  Proof.
    intros Hf.
    assert (K : forall f', f' < 3 -> sigma f' = f ->
                (sigma (px f') = px f /\ sigma (py f') = py f) \/
                (sigma (px f') = py f /\ sigma (py f') = px f)).
    { intros f' Hf' E.
      destruct f as [|[|[|f]]]; [| | |lia]; destruct f' as [|[|[|f']]]; try lia;
        change (px 0) with 1 in *; change (py 0) with 2 in *; change (px 1) with 0 in *;
        change (py 1) with 2 in *; change (px 2) with 0 in *; change (py 2) with 1 in *;
        destruct sigma_cases as [C|[C|[C|[C|[C|C]]]]]; lia. }
    assert (Ex : exists f', f' < 3 /\ sigma f' = f).
    { destruct sigma_cases as [C|[C|[C|[C|[C|C]]]]]; destruct f as [|[|[|f]]]; try lia;
        first [exists 0; lia | exists 1; lia | exists 2; lia]. }
    destruct Ex as (f' & Hf' & E). destruct (K f' Hf' E) as [S|S].
    - exists f', false. auto.
    - exists f', true. auto.
  Qed.
End SigmaCases.

(** ** 3. Vocabulary: the map on walls, a vertex / a rectangle given by its coordinates *)
Section PermVocabulary.
  Context {T : Type} {O : Ops T}.

  Definition map_quad (m : @vec T -> @vec T) (q : @quad T) : @quad T :=
    mkQuad (m (q0 q)) (m (q1 q)) (m (q2 q)) (m (q3 q)).

  (** sign attached to the new axis [d], and the signed axis permutation itself *)
  Definition sgn (e0 e1 e2 : T) (d : nat) : T := match d with 0 => e0 | 1 => e1 | _ => e2 end.
  Definition smap (sigma : nat -> nat) (e0 e1 e2 : T) (v : @vec T) : @vec T :=
    mkv (e0 * vget v (sigma 0%nat))%T (e1 * vget v (sigma 1%nat))%T (e2 * vget v (sigma 2%nat))%T.

  (** [s = true]: the sign is -1 *)
  Definition sgn_is (s : bool) (e : T) : Prop := if s then e = (- (1))%T else e = 1%T.

  (** the point with coordinate [c] on the flat axis [f] and [(x, y)] on the in-plane axes *)
  Definition cellv (f : nat) (c x y : T) : @vec T :=
    match f with 0 => mkv c x y | 1 => mkv x c y | _ => mkv x y c end.
  Definition rectq (f : nat) (c xl xh yl yh : T) : @quad T :=
    mkQuad (cellv f c xl yl) (cellv f c xh yl) (cellv f c xh yh) (cellv f c xl yh).

  (** vertex reordering that turns the image of a cell into the code's vertex order
      (lower-left, lower-right, upper-right, upper-left in the NEW coordinates) *)
  Definition ord_of (sw sx sy : bool) : nat :=
    match sw, sx, sy with
    | false, false, false => 0 | false, true, false => 7
    | false, false, true => 5 | false, true, true => 2
    | true, false, false => 4 | true, true, false => 3
    | true, false, true => 1 | true, true, true => 6
    end.

  Lemma ord_of_lt sw sx sy : ord_of sw sx sy < 8.
  Proof. destruct sw, sx, sy; cbv; lia. Qed.

  Lemma verts_map_quad m (q : @quad T) : verts (map_quad m q) = map m (verts q).
  Proof. reflexivity. Qed.

  Lemma verts_reorder_perm o (q : @quad T) : Permutation (verts (reorder o q)) (verts q).
  Proof.
    assert (Hrot : forall q' : @quad T, Permutation (verts (rot_quad q')) (verts q')).
    { intros q'. unfold verts, rot_quad. cbn [q0 q1 q2 q3].
      apply Permutation_sym. exact (Permutation_cons_append [q1 q'; q2 q'; q3 q'] (q0 q')). }
    assert (Hit : forall n (q' : @quad T), Permutation (verts (Nat.iter n rot_quad q')) (verts q')).
    { induction n as [|n IH]; intros q'; [apply Permutation_refl|].
      change (Nat.iter (S n) rot_quad q') with (rot_quad (Nat.iter n rot_quad q')).
      eapply perm_trans; [apply Hrot|apply IH]. }
    unfold reorder. eapply perm_trans; [apply Hit|].
    destruct (o <? 4); [apply Permutation_refl|].
    unfold verts, rev_quad. cbn [q0 q1 q2 q3].
    apply perm_skip. apply Permutation_sym. exact (Permutation_rev [q1 q; q2 q; q3 q]).
  Qed.

  (** the eight orders on a quadrilateral written with a two-argument vertex function *)
  Lemma reorder_straight (cell : T -> T -> @vec T) sx sy X0 X1 Y0 Y1 :
    reorder (ord_of false sx sy) (mkQuad (cell X0 Y0) (cell X1 Y0) (cell X1 Y1) (cell X0 Y1)) =
    mkQuad (cell (if sx then X1 else X0) (if sy then Y1 else Y0))
           (cell (if sx then X0 else X1) (if sy then Y1 else Y0))
           (cell (if sx then X0 else X1) (if sy then Y0 else Y1))
           (cell (if sx then X1 else X0) (if sy then Y0 else Y1)).
  Proof. destruct sx, sy; reflexivity. Qed.
  Lemma reorder_swapped (cell : T -> T -> @vec T) sx sy X0 X1 Y0 Y1 :
    reorder (ord_of true sx sy) (mkQuad (cell X0 Y0) (cell X0 Y1) (cell X1 Y1) (cell X1 Y0)) =
    mkQuad (cell (if sx then X1 else X0) (if sy then Y1 else Y0))
           (cell (if sx then X0 else X1) (if sy then Y1 else Y0))
           (cell (if sx then X0 else X1) (if sy then Y0 else Y1))
           (cell (if sx then X1 else X0) (if sy then Y0 else Y1)).
  Proof. destruct sx, sy; reflexivity. Qed.

  Lemma vget_cellv_flat f c x y : f < 3 -> vget (cellv f c x y) f = c.
  Proof. intros H. destruct f as [|[|[|f]]]; [reflexivity|reflexivity|reflexivity|lia]. Qed.
  Lemma vget_cellv_px f c x y : f < 3 -> vget (cellv f c x y) (px f) = x.
  Proof. intros H. destruct f as [|[|[|f]]]; [reflexivity|reflexivity|reflexivity|lia]. Qed.
  Lemma vget_cellv_py f c x y : f < 3 -> vget (cellv f c x y) (py f) = y.
  Proof. intros H. destruct f as [|[|[|f]]]; [reflexivity|reflexivity|reflexivity|lia]. Qed.

  Lemma vec_ext_axes f (u v : @vec T) : f < 3 ->
    vget u f = vget v f -> vget u (px f) = vget v (px f) -> vget u (py f) = vget v (py f) -> u = v.
  Proof.
    intros H. destruct u as [[a b] c], v as [[a' b'] c'].
    destruct f as [|[|[|f]]]; [| | |lia];
      cbv [vget vx vy vz fst snd px py plane_axes]; intros E1 E2 E3; subst; reflexivity.
  Qed.

  Lemma vset2_cellv (v : @vec T) f c X Y : f < 3 -> vget v f = c ->
    vset (vset v (px f) X) (py f) Y = cellv f c X Y.
  Proof.
    intros H E. destruct v as [[a b] d].
    destruct f as [|[|[|f]]]; [| | |lia]; cbv [vget vx vy vz fst snd] in E; subst; reflexivity.
  Qed.

  (** a patch of a planar wall, written by its coordinates *)
  Lemma patch_at_rectq (q : @quad T) f c x0 y0 rx ry i j : f < 3 -> planar q f c ->
    patch_at q (px f) (py f) x0 y0 rx ry i j =
    rectq f c (gline x0 rx i) (gline x0 rx (S i)) (gline y0 ry j) (gline y0 ry (S j)).
  Proof.
    intros Hf Hpl. unfold patch_at, rectq, gline.
    f_equal; apply vset2_cellv; try exact Hf; apply Hpl; simpl; auto 6.
  Qed.

  Lemma vget_smap sigma e0 e1 e2 d (v : @vec T) : d < 3 ->
    vget (smap sigma e0 e1 e2 v) d = (sgn e0 e1 e2 d * vget v (sigma d))%T.
  Proof. intros H. destruct d as [|[|[|d]]]; [reflexivity|reflexivity|reflexivity|lia]. Qed.

  Lemma In_verts_map_quad m (q : @quad T) v' :
    In v' (verts (map_quad m q)) <-> exists v, In v (verts q) /\ v' = m v.
  Proof.
    rewrite verts_map_quad, in_map_iff. split; intros (v & A & B).
    - exists v. split; [exact B|now symmetry].
    - exists v. split; [now symmetry|exact A].
  Qed.
End PermVocabulary.

(** ** 4. The image of a wall and of its tiling *)
Section SignedPermTiling.
  Context {T : Type} {O : Ops T} {RL : RingLaws T} {OL : OrderLaws T} {FL : FieldLaws T}
          {FlL : FloorLaws T}.
  Add Ring TRingTPerm1 : (@ring_th T O RL).

  Variable sigma : nat -> nat.
  Variables e0 e1 e2 : T.
  Hypothesis Hperm : Permutation [sigma 0; sigma 1; sigma 2] [0; 1; 2].
  Hypothesis He0 : e0 = 1%T \/ e0 = (- (1))%T.
  Hypothesis He1 : e1 = 1%T \/ e1 = (- (1))%T.
  Hypothesis He2 : e2 = 1%T \/ e2 = (- (1))%T.

  Let m := smap sigma e0 e1 e2.
  Let ed := sgn e0 e1 e2.

  Lemma sgn_cases d : exists s, sgn_is s (ed d).
  Proof.
    assert (H : ed d = 1%T \/ ed d = (- (1))%T)
      by (subst ed; destruct d as [|[|d]]; cbn [sgn]; assumption).
    destruct H as [H|H]; [exists false|exists true]; exact H.
  Qed.

  Lemma col_min_char (q : @quad T) a x :
    (exists v, In v (verts q) /\ x = vget v a) -> (forall v, In v (verts q) -> (x <= vget v a)%T) ->
    col_min q a = x.
  Proof.
    intros (v & Hv & E) L. apply tle_antisym.
    - rewrite E. now apply col_min_le.
    - destruct (col_min_in q a) as (w & Hw & ->). now apply L.
  Qed.
  Lemma col_max_char (q : @quad T) a x :
    (exists v, In v (verts q) /\ x = vget v a) -> (forall v, In v (verts q) -> (vget v a <= x)%T) ->
    col_max q a = x.
  Proof.
    intros (v & Hv & E) L. apply tle_antisym.
    - destruct (col_max_in q a) as (w & Hw & ->). now apply L.
    - rewrite E. now apply col_max_ge.
  Qed.

  (** *** extents of the image wall *)
  Section Extents.
    Variable q : @quad T.
    Let q' := map_quad m q.

    Lemma col_min_image d s : d < 3 -> sgn_is s (ed d) ->
      col_min q' d = if s then (- col_max q (sigma d))%T else col_min q (sigma d).
    Proof.
      intros Hd Hs. destruct s; cbn [sgn_is] in Hs; apply col_min_char.
      - destruct (col_max_in q (sigma d)) as (v & Hv & E). exists (m v). split.
        + apply In_verts_map_quad. now exists v.
        + subst m. rewrite vget_smap by exact Hd. fold ed. rewrite Hs, E. ring.
      - intros v' Hv'. apply In_verts_map_quad in Hv'. destruct Hv' as (v & Hv & ->).
        subst m. rewrite vget_smap by exact Hd. fold ed. rewrite Hs.
        replace (- (1) * vget v (sigma d))%T with (- vget v (sigma d))%T by ring.
        apply topp_le. now apply col_max_ge.
      - destruct (col_min_in q (sigma d)) as (v & Hv & E). exists (m v). split.
        + apply In_verts_map_quad. now exists v.
        + subst m. rewrite vget_smap by exact Hd. fold ed. rewrite Hs, E. ring.
      - intros v' Hv'. apply In_verts_map_quad in Hv'. destruct Hv' as (v & Hv & ->).
        subst m. rewrite vget_smap by exact Hd. fold ed. rewrite Hs.
        replace (1 * vget v (sigma d))%T with (vget v (sigma d)) by ring.
        now apply col_min_le.
    Qed.

    Lemma col_max_image d s : d < 3 -> sgn_is s (ed d) ->
      col_max q' d = if s then (- col_min q (sigma d))%T else col_max q (sigma d).
    Proof.
      intros Hd Hs. destruct s; cbn [sgn_is] in Hs; apply col_max_char.
      - destruct (col_min_in q (sigma d)) as (v & Hv & E). exists (m v). split.
        + apply In_verts_map_quad. now exists v.
        + subst m. rewrite vget_smap by exact Hd. fold ed. rewrite Hs, E. ring.
      - intros v' Hv'. apply In_verts_map_quad in Hv'. destruct Hv' as (v & Hv & ->).
        subst m. rewrite vget_smap by exact Hd. fold ed. rewrite Hs.
        replace (- (1) * vget v (sigma d))%T with (- vget v (sigma d))%T by ring.
        apply topp_le. now apply col_min_le.
      - destruct (col_max_in q (sigma d)) as (v & Hv & E). exists (m v). split.
        + apply In_verts_map_quad. now exists v.
        + subst m. rewrite vget_smap by exact Hd. fold ed. rewrite Hs, E. ring.
      - intros v' Hv'. apply In_verts_map_quad in Hv'. destruct Hv' as (v & Hv & ->).
        subst m. rewrite vget_smap by exact Hd. fold ed. rewrite Hs.
        replace (1 * vget v (sigma d))%T with (vget v (sigma d)) by ring.
        now apply col_max_ge.
    Qed.

    Lemma size_image d : d < 3 -> size q' d = size q (sigma d).
    Proof.
      intros Hd. destruct (sgn_cases d) as (s & Hs). unfold size.
      rewrite (col_min_image d s Hd Hs), (col_max_image d s Hd Hs). destruct s; ring.
    Qed.
    Lemma patch_num_image p d : d < 3 -> patch_num q' p d = patch_num q p (sigma d).
    Proof. intros Hd. unfold patch_num. now rewrite size_image. Qed.
    Lemma real_size_image p d : d < 3 -> real_size q' p d = real_size q p (sigma d).
    Proof. intros Hd. unfold real_size. now rewrite size_image, patch_num_image. Qed.

    Lemma planar_image f f' c : f' < 3 -> sigma f' = f -> planar q f c -> planar q' f' (ed f' * c)%T.
    Proof.
      intros Hf' E Hpl v' Hv'. apply In_verts_map_quad in Hv'. destruct Hv' as (v & Hv & ->).
      subst m. rewrite vget_smap by exact Hf'. fold ed. rewrite E. f_equal. now apply Hpl.
    Qed.

    (** the image is a wall of the same kind, flat on the axis sent to [f] *)
    Lemma wall_ok_image p f c f' sw : wall_ok q p f c -> f' < 3 -> sigma f' = f ->
      (if sw : bool then sigma (px f') = py f /\ sigma (py f') = px f
       else sigma (px f') = px f /\ sigma (py f') = py f) ->
      wall_ok q' p f' (ed f' * c)%T.
    Proof.
      intros (Hf & Hpl & Hp & Hpx & Hpy) Hf' E S. unfold wall_ok.
      split; [exact Hf'|]. split; [now apply (planar_image f)|]. split; [exact Hp|].
      rewrite (size_image (px f') (px_lt f' Hf')), (size_image (py f') (py_lt f' Hf')).
      destruct sw; destruct S as [-> ->]; auto.
    Qed.
  End Extents.

  (** *** one direction: the grid lines of the image, counted from the new minimum *)
  Lemma mirror_line x0 r n i : i < n ->
    gline (- gline x0 r n)%T r (n - 1 - i) = (- gline x0 r (S i))%T /\
    gline (- gline x0 r n)%T r (S (n - 1 - i)) = (- gline x0 r i)%T.
  Proof.
    intros Hi. unfold gline. split.
    - assert (E : tofnat n = (tofnat (n - 1 - i) + tofnat (S i))%T)
        by (rewrite <- tofnat_add; f_equal; lia).
      rewrite E. ring.
    - assert (E : tofnat n = (tofnat (S (n - 1 - i)) + tofnat i)%T)
        by (rewrite <- tofnat_add; f_equal; lia).
      rewrite E. ring.
  Qed.

  Lemma lines_image (q : @quad T) p d' s i : (0 < p)%T -> d' < 3 -> sgn_is s (ed d') ->
    (p <= size q (sigma d'))%T -> i < patch_num q p (sigma d') ->
    let x0 := col_min q (sigma d') in
    let r := real_size q p (sigma d') in
    let n := patch_num q p (sigma d') in
    let x0' := col_min (map_quad m q) d' in
    let r' := real_size (map_quad m q) p d' in
    gline x0' r' (flip s n i) = (ed d' * (if s then gline x0 r (S i) else gline x0 r i))%T /\
    gline x0' r' (S (flip s n i)) = (ed d' * (if s then gline x0 r i else gline x0 r (S i)))%T.
  Proof.
    intros Hp Hd Hs Hsz Hi. cbv zeta.
    rewrite (col_min_image q d' s Hd Hs), (real_size_image q p d' Hd).
    destruct s; cbn [sgn_is] in Hs; unfold flip; rewrite Hs.
    - rewrite <- (gline_last q p Hp (sigma d') Hsz).
      destruct (mirror_line (col_min q (sigma d')) (real_size q p (sigma d'))
                  (patch_num q p (sigma d')) i Hi) as [M1 M2].
      rewrite M1, M2. split; ring.
    - split; ring.
  Qed.

  (** *** the image of a vertex / of a cell *)
  Lemma smap_cellv f f' sw c x y : f < 3 -> f' < 3 -> sigma f' = f ->
    (if sw : bool then sigma (px f') = py f /\ sigma (py f') = px f
     else sigma (px f') = px f /\ sigma (py f') = py f) ->
    m (cellv f c x y) =
    cellv f' (ed f' * c)%T (ed (px f') * (if sw then y else x))%T (ed (py f') * (if sw then x else y))%T.
  Proof.
    intros Hf Hf' E S. pose proof (px_lt f' Hf') as Hx. pose proof (py_lt f' Hf') as Hy.
    apply (vec_ext_axes f' _ _ Hf'); subst m;
      rewrite ?vget_cellv_flat, ?vget_cellv_px, ?vget_cellv_py by exact Hf';
      rewrite vget_smap by assumption; fold ed.
    - rewrite E. now rewrite vget_cellv_flat.
    - destruct sw; destruct S as [S1 S2]; rewrite S1;
        [now rewrite vget_cellv_py|now rewrite vget_cellv_px].
    - destruct sw; destruct S as [S1 S2]; rewrite S2;
        [now rewrite vget_cellv_px|now rewrite vget_cellv_py].
  Qed.

  Lemma rectq_image f f' sw c xl xh yl yh : f < 3 -> f' < 3 -> sigma f' = f ->
    (if sw : bool then sigma (px f') = py f /\ sigma (py f') = px f
     else sigma (px f') = px f /\ sigma (py f') = py f) ->
    let cell := cellv f' (ed f' * c)%T in
    let ea := ed (px f') in
    let eb := ed (py f') in
    map_quad m (rectq f c xl xh yl yh) =
    if sw then mkQuad (cell (ea * yl) (eb * xl))%T (cell (ea * yl) (eb * xh))%T
                      (cell (ea * yh) (eb * xh))%T (cell (ea * yh) (eb * xl))%T
    else mkQuad (cell (ea * xl) (eb * yl))%T (cell (ea * xh) (eb * yl))%T
                (cell (ea * xh) (eb * yh))%T (cell (ea * xl) (eb * yh))%T.
  Proof.
    intros Hf Hf' E S. cbv zeta. unfold map_quad, rectq. cbn [q0 q1 q2 q3].
    rewrite (smap_cellv f f' sw c xl yl Hf Hf' E S), (smap_cellv f f' sw c xh yl Hf Hf' E S),
            (smap_cellv f f' sw c xh yh Hf Hf' E S), (smap_cellv f f' sw c xl yh Hf Hf' E S).
    destruct sw; reflexivity.
  Qed.

  (** *** the tiling *)
  Section Wall.
    Variables (q : @quad T) (p : T) (f : nat) (c : T).
    Hypothesis Hok : wall_ok q p f c.
    Variables (f' : nat) (sw sx sy : bool).
    Hypothesis Hf' : f' < 3.
    Hypothesis Ef : sigma f' = f.
    Hypothesis Hsw : if sw then sigma (px f') = py f /\ sigma (py f') = px f
                     else sigma (px f') = px f /\ sigma (py f') = py f.
    Hypothesis Hsx : sgn_is sx (ed (px f')).
    Hypothesis Hsy : sgn_is sy (ed (py f')).

    Let q' := map_quad m q.
    Let c' := (ed f' * c)%T.
    Let o := ord_of sw sx sy.
    (** old cell (i,j) and new cell (i',j'), as the code writes them *)
    Let P i j := patch_at q (px f) (py f) (col_min q (px f)) (col_min q (py f))
                   (real_size q p (px f)) (real_size q p (py f)) i j.
    Let P' i j := patch_at q' (px f') (py f') (col_min q' (px f')) (col_min q' (py f'))
                    (real_size q' p (px f')) (real_size q' p (py f')) i j.
    Let nx := patch_num q p (px f).
    Let ny := patch_num q p (py f).

    Lemma image_ok : wall_ok q' p f' c'.
    Proof. exact (wall_ok_image q p f c f' sw Hok Hf' Ef Hsw). Qed.

    Lemma image_counts :
      patch_num q' p (px f') = (if sw then ny else nx) /\ patch_num q' p (py f') = (if sw then nx else ny).
    Proof.
      clear o. unfold q', nx, ny.
      rewrite (patch_num_image q p (px f') (px_lt f' Hf')), (patch_num_image q p (py f') (py_lt f' Hf')).
      destruct sw; destruct Hsw as [-> ->]; auto.
    Qed.

    (** cell (i,j) of the wall goes to the cell with the (possibly reversed, possibly exchanged)
        indices, its vertices reordered by [o] *)
    Lemma image_cell i j : i < nx -> j < ny ->
      (if sw then P' (flip sx ny j) (flip sy nx i) else P' (flip sx nx i) (flip sy ny j))
      = reorder o (map_quad m (P i j)).
    Proof.
      intros Hi Hj. destruct Hok as (Hf & Hpl & Hp & Hpx & Hpy).
      pose proof (px_lt f' Hf') as Hx'. pose proof (py_lt f' Hf') as Hy'.
      assert (Hpl' : planar q' f' c') by (subst q' c'; now apply (planar_image q f)).
      subst P P' o. cbv beta.
      rewrite (patch_at_rectq q f c _ _ _ _ i j Hf Hpl).
      rewrite (rectq_image f f' sw c _ _ _ _ Hf Hf' Ef Hsw). cbv zeta.
      destruct sw; destruct Hsw as [S1 S2].
      - (* in-plane axes exchanged: new x is old y *)
        rewrite (patch_at_rectq q' f' c' _ _ _ _ _ _ Hf' Hpl').
        rewrite reorder_swapped.
        assert (Hszx : (p <= size q (sigma (px f')))%T) by (rewrite S1; exact Hpy).
        assert (Hszy : (p <= size q (sigma (py f')))%T) by (rewrite S2; exact Hpx).
        assert (Hjx : j < patch_num q p (sigma (px f'))) by (rewrite S1; exact Hj).
        assert (Hiy : i < patch_num q p (sigma (py f'))) by (rewrite S2; exact Hi).
        destruct (lines_image q p (px f') sx j Hp Hx' Hsx Hszx Hjx) as [A1 A2].
        destruct (lines_image q p (py f') sy i Hp Hy' Hsy Hszy Hiy) as [B1 B2].
        cbv zeta in A1, A2, B1, B2. rewrite S1 in A1, A2. rewrite S2 in B1, B2.
        subst q' nx ny. rewrite A1, A2, B1, B2. unfold rectq.
        destruct sx, sy; reflexivity.
      - rewrite (patch_at_rectq q' f' c' _ _ _ _ _ _ Hf' Hpl').
        rewrite reorder_straight.
        assert (Hszx : (p <= size q (sigma (px f')))%T) by (rewrite S1; exact Hpx).
        assert (Hszy : (p <= size q (sigma (py f')))%T) by (rewrite S2; exact Hpy).
        assert (Hix : i < patch_num q p (sigma (px f'))) by (rewrite S1; exact Hi).
        assert (Hjy : j < patch_num q p (sigma (py f'))) by (rewrite S2; exact Hj).
        destruct (lines_image q p (px f') sx i Hp Hx' Hsx Hszx Hix) as [A1 A2].
        destruct (lines_image q p (py f') sy j Hp Hy' Hsy Hszy Hjy) as [B1 B2].
        cbv zeta in A1, A2, B1, B2. rewrite S1 in A1, A2. rewrite S2 in B1, B2.
        subst q' nx ny. rewrite A1, A2, B1, B2. unfold rectq.
        destruct sx, sy; reflexivity.
    Qed.

    Lemma create_old : create_patches q p = concat (tab nx (fun i => tab ny (fun j => P i j))).
    Proof.
      destruct Hok as (Hf & Hpl & Hp & Hpx & Hpy).
      rewrite (create_wall q p f Hf (planar_size_zero q f c Hpl) Hp Hpx Hpy). reflexivity.
    Qed.
    Lemma create_new :
      create_patches q' p =
      concat (tab (if sw then ny else nx) (fun i => tab (if sw then nx else ny) (fun j => P' i j))).
    Proof.
      destruct image_ok as (Hf & Hpl & Hp & Hpx & Hpy).
      rewrite (create_wall q' p f' Hf (planar_size_zero q' f' c' Hpl) Hp Hpx Hpy).
      destruct image_counts as [E1 E2]. unfold grid. rewrite E1, E2. reflexivity.
    Qed.

    (** explicit renumbering *)
    Lemma image_nth i j d : i < nx -> j < ny ->
      nth (if sw then flip sx ny j * nx + flip sy nx i else flip sx nx i * ny + flip sy ny j)
          (create_patches q' p) d
      = reorder o (map_quad m (nth (i * ny + j) (create_patches q p) d)).
    Proof.
      intros Hi Hj. rewrite create_old, create_new.
      rewrite (nth_concat_tab nx ny (fun i j => P i j) i j d Hi Hj).
      rewrite <- (image_cell i j Hi Hj).
      destruct sw.
      - apply (nth_concat_tab ny nx (fun i j => P' i j)); now apply flip_lt.
      - apply (nth_concat_tab nx ny (fun i j => P' i j)); now apply flip_lt.
    Qed.

    (** the list of patches of the image wall is a permutation of the images of the patches *)
    Lemma image_perm :
      Permutation (create_patches q' p) (map (fun Q => reorder o (map_quad m Q)) (create_patches q p)).
    Proof.
      rewrite create_old, create_new, map_concat_tab.
      pose proof image_cell as Hc. subst o. revert Hc. generalize (ord_of sw sx sy). intros o1 Hc.
      clear Hsw. destruct sw.
      - eapply perm_trans;
          [apply Permutation_sym; exact (grid_flip_perm sx sy ny nx (fun j i => P' j i))|].
        eapply perm_trans;
          [|exact (grid_transpose_perm nx ny (fun i j => reorder o1 (map_quad m (P i j))))].
        rewrite (tab_ext ny _ (fun j => tab nx (fun i => reorder o1 (map_quad m (P i j)))));
          [apply Permutation_refl|].
        intros j Hj. apply tab_ext. intros i Hi. exact (Hc i j Hi Hj).
      - eapply perm_trans;
          [apply Permutation_sym; exact (grid_flip_perm sx sy nx ny (fun i j => P' i j))|].
        rewrite (tab_ext nx _ (fun i => tab ny (fun j => reorder o1 (map_quad m (P i j)))));
          [apply Permutation_refl|].
        intros i Hi. apply tab_ext. intros j Hj. exact (Hc i j Hi Hj).
    Qed.
  End Wall.

  (** *** the statements *)
  Theorem tiling_signed_perm (q : @quad T) p f c : wall_ok q p f c ->
    exists f' o, f' < 3 /\ sigma f' = f /\ o < 8 /\
      wall_ok (map_quad m q) p f' (ed f' * c)%T /\
      (forall d, d < 3 -> size (map_quad m q) d = size q (sigma d) /\
                          patch_num (map_quad m q) p d = patch_num q p (sigma d) /\
                          real_size (map_quad m q) p d = real_size q p (sigma d)) /\
      Permutation (create_patches (map_quad m q) p)
                  (map (fun Q => reorder o (map_quad m Q)) (create_patches q p)).
  Proof.
    intros Hok. pose proof Hok as (Hf & _).
    destruct (flat_preimage sigma Hperm f Hf) as (f' & sw & Hf' & Ef & Hsw).
    destruct (sgn_cases (px f')) as (sx & Hsx). destruct (sgn_cases (py f')) as (sy & Hsy).
    exists f', (ord_of sw sx sy). split; [exact Hf'|]. split; [exact Ef|].
    split; [apply ord_of_lt|]. split; [exact (image_ok q p f c Hok f' sw Hf' Ef Hsw)|]. split.
    - intros d Hd. split; [now apply size_image|]. split; [now apply patch_num_image|].
      now apply real_size_image.
    - exact (image_perm q p f c Hok f' sw sx sy Hf' Ef Hsw Hsx Hsy).
  Qed.

  (** the same with the renumbering written out: [sw] = in-plane axes exchanged, [sx], [sy] =
      new first / second in-plane axis reversed *)
  Theorem tiling_signed_perm_index (q : @quad T) p f c : wall_ok q p f c ->
    exists f' (sw sx sy : bool), f' < 3 /\ sigma f' = f /\
      (if sw then sigma (px f') = py f /\ sigma (py f') = px f
       else sigma (px f') = px f /\ sigma (py f') = py f) /\
      sgn_is sx (ed (px f')) /\ sgn_is sy (ed (py f')) /\
      let nx := patch_num q p (px f) in
      let ny := patch_num q p (py f) in
      patch_num (map_quad m q) p (px f') = (if sw then ny else nx) /\
      patch_num (map_quad m q) p (py f') = (if sw then nx else ny) /\
      forall i j d, i < nx -> j < ny ->
        nth (if sw then flip sx ny j * nx + flip sy nx i else flip sx nx i * ny + flip sy ny j)
            (create_patches (map_quad m q) p) d
        = reorder (ord_of sw sx sy) (map_quad m (nth (i * ny + j) (create_patches q p) d)).
  Proof.
    intros Hok. pose proof Hok as (Hf & _).
    destruct (flat_preimage sigma Hperm f Hf) as (f' & sw & Hf' & Ef & Hsw).
    destruct (sgn_cases (px f')) as (sx & Hsx). destruct (sgn_cases (py f')) as (sy & Hsy).
    exists f', sw, sx, sy. split; [exact Hf'|]. split; [exact Ef|]. split; [exact Hsw|].
    split; [exact Hsx|]. split; [exact Hsy|]. cbv zeta.
    destruct (image_counts q p f f' sw Hf' Hsw) as [E1 E2].
    split; [exact E1|]. split; [exact E2|].
    intros i j d Hi Hj. exact (image_nth q p f c Hok f' sw sx sy Hf' Ef Hsw Hsx Hsy i j d Hi Hj).
  Qed.

  (** each patch viewed through its vertices only: there is a renumbering [L] of the patches of the
      image wall such that the k-th entry has, up to the order, the images of the vertices of
      the k-th patch of the wall *)
  Theorem tiling_signed_perm_vertices (q : @quad T) p f c : wall_ok q p f c ->
    exists L, Permutation (create_patches (map_quad m q) p) L /\
      Forall2 (fun Q' Q => Permutation (verts Q') (map m (verts Q))) L (create_patches q p).
  Proof.
    intros Hok. destruct (tiling_signed_perm q p f c Hok) as (f' & o & _ & _ & _ & _ & _ & Hp).
    exists (map (fun Q => reorder o (map_quad m Q)) (create_patches q p)). split; [exact Hp|].
    apply Forall2_map_self. intros Q _. rewrite <- verts_map_quad. apply verts_reorder_perm.
  Qed.

  (** Kang engine: the same list, so the same statement *)
  Theorem kang_signed_perm (q : @quad T) p f c : wall_ok q p f c ->
    exists o, o < 8 /\
      Permutation (kang_patches (map_quad m q) p)
                  (map (fun Q => reorder o (map_quad m Q)) (kang_patches q p)).
  Proof.
    intros Hok. destruct (tiling_signed_perm q p f c Hok) as (f' & o & _ & _ & Ho & _ & _ & Hp).
    exists o. split; [exact Ho|]. rewrite !kang_same. exact Hp.
  Qed.

  (** both engines with the same vertex order, and the patch count *)
  Theorem tiling_signed_perm_both (q : @quad T) p f c : wall_ok q p f c ->
    exists f' o, f' < 3 /\ sigma f' = f /\ o < 8 /\
      wall_ok (map_quad m q) p f' (ed f' * c)%T /\
      total_number_of_patches (map_quad m q) p = total_number_of_patches q p /\
      Permutation (create_patches (map_quad m q) p)
                  (map (fun Q => reorder o (map_quad m Q)) (create_patches q p)) /\
      Permutation (kang_patches (map_quad m q) p)
                  (map (fun Q => reorder o (map_quad m Q)) (kang_patches q p)).
  Proof.
    intros Hok. destruct (tiling_signed_perm q p f c Hok) as (f' & o & Hf' & Ef & Ho & Hw & _ & Hp).
    exists f', o. split; [exact Hf'|]. split; [exact Ef|]. split; [exact Ho|]. split; [exact Hw|].
    split; [|split; [exact Hp|rewrite !kang_same; exact Hp]].
    rewrite !total_eq_length, (Permutation_length Hp). apply map_length.
  Qed.
End SignedPermTiling.
