(** * Genuine shoebox rooms: general position is a theorem, visibility in closed form.

    [Proofs/FullVisibility.v] gives the line-of-sight scan of the composed model its geometric
    meaning GIVEN that the two patch centroids are in general position ([gen_pos]) with respect to
    every patch rectangle.  Here that hypothesis is discharged for the rooms the harness builds with
    [sp.testing.shoebox_room_stub]: the six inward-facing walls of a box
    [x0,x1] x [y0,y1] x [z0,z1], patch size not larger than any side ([is_shoebox]).

    - [room_cells]: in a room with axis-aligned rectangular walls, patch k IS the grid cell
      (i, j) of the wall it is attributed to ([cell_rect], corners on the grid lines
      [lo + i*s], [lo + (i+1)*s]);
    - [mid_grid]: a cell centre is at least half a cell away from EVERY grid line of its wall;
    - [shoebox_general_position]: every pair of patch centroids is in general position with
      respect to every patch rectangle (tolerances: 0 <= eps < 1, 0 < eta, 2 eps < p, 2 eta < p,
      eta <= 2 m < p for the patch size p -- every cell side is at least p);
    - [shoebox_visibility]: [vis_sym i j = true <-> wall i <> wall j];
    - [shoebox_point_visibility]: from a point strictly inside the box (farther than eps and eta
      from the six wall planes) every patch is visible ([room_point_vis], blockers = the six walls). *)
From Coq Require Import List Arith Bool Ring Lia ZArith.
Import ListNotations.
From SV Require Import Base.Ops Base.Arr Base.Sums Model.Vec3 Model.Exchange Model.Scene Model.Tiling
  Model.Visibility Model.Full Spec.VisibilitySpec
  Proofs.OrderField Proofs.TilingLists Proofs.TilingProofs
  Proofs.VisibilityScan Proofs.VisibilitySym Proofs.VisibilitySegment
  Proofs.PipRect Proofs.PipRectSurface Proofs.FullProofs Proofs.FullVisibility.

(** ** 1. list plumbing: the patch surfaces together with the wall they are attributed to *)
Section ListFacts.
  Lemma Forall2_nth_both {A B} (R : A -> B -> Prop) (l : list A) (l' : list B) (d : A) (d' : B) :
    Forall2 R l l' -> forall k, k < length l -> R (nth k l d) (nth k l' d').
  Proof.
    intros H. induction H as [|a b l l' Hab _ IH]; intros k Hk; [cbn [length] in Hk; lia|].
    destruct k as [|k]; [exact Hab|]. cbn [nth]. apply IH. cbn [length] in Hk. lia.
  Qed.

  Lemma Forall2_combine_fst {A B C} (R : A -> C -> Prop) :
    forall (l1 : list A) (l2 : list B) (rs : list C),
    length l1 = length l2 ->
    Forall2 (fun ab r => R (fst ab) r) (combine l1 l2) rs -> Forall2 R l1 rs.
  Proof.
    induction l1 as [|a l1 IH]; intros [|b l2] rs Hl H; cbn [length] in Hl; try discriminate.
    - cbn [combine] in H. inversion H. constructor.
    - cbn [combine] in H. inversion H as [|ab r l rs' Hab Hrest]; subst. constructor; [exact Hab|].
      apply (IH l2); [now injection Hl|exact Hrest].
  Qed.

  Lemma Forall2_weaken {A B} (R1 R2 : A -> B -> Prop) (l : list A) (l' : list B) :
    (forall a b, R1 a b -> R2 a b) -> Forall2 R1 l l' -> Forall2 R2 l l'.
  Proof. intros HR H. induction H; constructor; auto. Qed.

  Lemma combine_length_eq {A B} (l1 : list A) (l2 : list B) :
    length l1 = length l2 -> length (combine l1 l2) = length l1.
  Proof. intros H. rewrite combine_length, <- H. apply Nat.min_id. Qed.
End ListFacts.

Section ProcessIds.
  Context {T : Type} {O : Ops T}.
  Local Notation vec := (@vec T).

  Lemma block_surfs_ids (Q : @surface T * nat -> Prop) (n : vec) (w : nat) (b : list (@quad T)) :
    Forall (fun P => Q ((verts P, n), w)) b ->
    Forall Q (combine (combine (map verts b) (repeat n (length b))) (repeat w (length b))).
  Proof.
    intros H. induction H as [|P b HP _ IH]; [constructor|].
    cbn [map length repeat combine]. now constructor.
  Qed.

  Lemma process_surfs_ids_forall (Q : @surface T * nat -> Prop) (normals : list vec) (p : T) :
    forall (walls : list (@quad T)) (w0 : nat),
    (forall k, k < length walls ->
       Forall (fun P => Q ((verts P, nthv normals (w0 + k)), w0 + k)) (create_patches (nth k walls dquad) p)) ->
    Forall Q (combine
                (combine (map verts (concat (map (fun q => create_patches q p) walls)))
                         (map (fun w => nthv normals w)
                              (wall_ids_from w0 (map (@length _) (map (fun q => create_patches q p) walls)))))
                (wall_ids_from w0 (map (@length _) (map (fun q => create_patches q p) walls)))).
  Proof.
    induction walls as [|q walls IH]; intros w0 H; [constructor|].
    cbn [map concat wall_ids_from]. rewrite !map_app, map_repeat_eq.
    rewrite (combine_app_eq (map verts (create_patches q p))) by now rewrite map_length, repeat_length.
    rewrite combine_app_eq
      by (rewrite combine_length_eq by (now rewrite map_length, repeat_length);
          now rewrite map_length, repeat_length).
    apply Forall_app. split.
    - apply block_surfs_ids. specialize (H 0 (Nat.lt_0_succ _)). rewrite Nat.add_0_r in H. exact H.
    - apply IH. intros k Hk. specialize (H (S k) (proj1 (Nat.succ_lt_mono _ _) Hk)).
      rewrite Nat.add_succ_r in H. exact H.
  Qed.
End ProcessIds.

(** ** 2. every patch is a grid cell of its wall *)
Section RoomCells.
  Context {T : Type} {O : Ops T} {RL : RingLaws T} {OL : OrderLaws T} {FL : FieldLaws T}
          {FlL : FloorLaws T} {SL : SqrtLaws T}.
  Add Ring TRingShoebox1 : (@ring_th T O RL).
  Local Notation vec := (@vec T).

  (** cell (i, j) of the wall [q] (flat axis [f], plane coordinate [c], normal sign [up]) *)
  Definition cell_rect (q : @quad T) (p : T) (f : nat) (up : bool) (c : T) (i j : nat) : @rect T :=
    mkrect (ax_of f) up c
      (gline (col_min q (px f)) (real_size q p (px f)) i)
      (gline (col_min q (px f)) (real_size q p (px f)) (S i))
      (gline (col_min q (py f)) (real_size q p (py f)) j)
      (gline (col_min q (py f)) (real_size q p (py f)) (S j)) false.

  Definition is_cell (q : @quad T) (p : T) (f : nat) (up : bool) (c : T) (r : @rect T) : Prop :=
    exists i j, i < patch_num q p (px f) /\ j < patch_num q p (py f) /\ r = cell_rect q p f up c i j.

  Lemma wall_patches_are_cells (q : @quad T) (p : T) (f : nat) (c : T) (up : bool) :
    wall_ok q p f c ->
    Forall (fun P => exists r, (verts P, axis_normal (ax_of f) up) = rect_surface r /\ rect_wf r /\
                               is_cell q p f up c r)
           (create_patches q p).
  Proof.
    intros Hok. apply Forall_forall. intros P HP.
    destruct (In_nth _ _ dquad HP) as (k & Hk & <-).
    destruct (stmt_count q p f c Hok) as (_ & _ & _ & _ & Hlen & _).
    rewrite Hlen in Hk. destruct (index_decomp _ _ _ Hk) as (i & j & Hi & Hj & ->).
    destruct (stmt_cell q p f c i j dquad Hok Hi Hj) as (R & _ & Pl). cbv zeta in R, Pl.
    pose proof Hok as (Hf & Hpl & Hp & Hpx & Hpy).
    pose proof (planar_size_zero _ _ _ Hpl) as Hflat.
    exists (cell_rect q p f up c i j). split; [|split].
    - exact (cell_is_rect_surface _ f c _ _ _ _ up Hf R Pl).
    - split; cbn [cell_rect r_ua r_ub r_va r_vb]; apply gline_step_neq.
      + eapply real_size_pos; eassumption.
      + eapply real_size_pos; eassumption.
    - exists i, j. auto.
  Qed.

  (** [axis_walls] with the wall data named: flat axis, plane coordinate, sign of the normal *)
  Definition axis_walls_by (rm : @room T) (fw : nat -> nat) (cw : nat -> T) (uw : nat -> bool) : Prop :=
    forall w, w < length (rm_walls rm) ->
      wall_ok (nth w (rm_walls rm) dquad) (rm_patch_size rm) (fw w) (cw w) /\
      nthv (rm_normals rm) w = axis_normal (ax_of (fw w)) (uw w).

  Lemma axis_walls_by_axis_walls rm fw cw uw : axis_walls_by rm fw cw uw -> axis_walls rm.
  Proof. intros H w Hw. exists (fw w), (cw w), (uw w). exact (H w Hw). Qed.

  Definition patch_cell (rm : @room T) (fw : nat -> nat) (cw : nat -> T) (uw : nat -> bool)
             (sw : @surface T * nat) (r : @rect T) : Prop :=
    fst sw = rect_surface r /\ rect_wf r /\
    is_cell (nth (snd sw) (rm_walls rm) dquad) (rm_patch_size rm) (fw (snd sw)) (uw (snd sw)) (cw (snd sw)) r.

  Definition rm_wall_ids (rm : @room T) : list nat := pr_wall_ids (rm_processed rm).

  Lemma room_cells_forall2 rm fw cw uw :
    axis_walls_by rm fw cw uw ->
    exists rs, Forall2 (patch_cell rm fw cw uw) (combine (rm_patch_surfs rm) (rm_wall_ids rm)) rs.
  Proof.
    intros Hw. apply Forall_exists_Forall2.
    unfold rm_patch_surfs, rm_wall_ids, rm_patch_pts, rm_processed, process.
    cbn [pr_points pr_normals pr_wall_ids].
    apply (process_surfs_ids_forall
             (fun sw => exists r, patch_cell rm fw cw uw sw r)). intros k Hk.
    destruct (Hw k Hk) as (Hok & Hn). cbn [Nat.add]. rewrite Hn.
    pose proof (wall_patches_are_cells _ _ (fw k) (cw k) (uw k) Hok) as H.
    rewrite Forall_forall in H. apply Forall_forall. intros P HP.
    destruct (H P HP) as (r & Hs & Hwf & Hc). exists r. unfold patch_cell. cbn [fst snd]. auto.
  Qed.

  Lemma room_surfs_length rm : length (rm_patch_surfs rm) = rm_np rm.
  Proof.
    unfold rm_patch_surfs, rm_np. apply combine_length_eq.
    unfold rm_patch_pts, rm_processed. now rewrite map_length, process_points_length, process_normals_length.
  Qed.

  Lemma room_ids_length rm : length (rm_wall_ids rm) = rm_np rm.
  Proof.
    unfold rm_wall_ids, rm_np, rm_patch_pts, rm_processed.
    now rewrite map_length, process_points_length, process_ids_length.
  Qed.

  (** the list of patch rectangles, with the cell description of each *)
  Theorem room_cells rm fw cw uw :
    axis_walls_by rm fw cw uw ->
    exists rs, rects_of (rm_patch_surfs rm) rs /\
      forall k, k < rm_np rm ->
        let w := wall (room_scene rm) k in
        is_cell (nth w (rm_walls rm) dquad) (rm_patch_size rm) (fw w) (uw w) (cw w) (nth k rs drect).
  Proof.
    intros Hw. destruct (room_cells_forall2 rm fw cw uw Hw) as [rs Hrs]. exists rs. split.
    - apply (Forall2_combine_fst _ _ (rm_wall_ids rm)).
      + now rewrite room_surfs_length, room_ids_length.
      + revert Hrs. apply Forall2_weaken. intros sw r (H1 & H2 & _). split; assumption.
    - intros k Hk. cbv zeta.
      assert (Hlen : k < length (combine (rm_patch_surfs rm) (rm_wall_ids rm))).
      { rewrite combine_length_eq by now rewrite room_surfs_length, room_ids_length.
        now rewrite room_surfs_length. }
      pose proof (Forall2_nth_both _ _ _ ((nil, vzero), 0) drect Hrs k Hlen) as (_ & _ & Hc).
      rewrite combine_nth in Hc by now rewrite room_surfs_length, room_ids_length.
      cbn [snd] in Hc. exact Hc.
  Qed.
End RoomCells.

(** ** 3. points on the inner side of a rectangle's plane never make it block *)
Section InnerSide.
  Context {T : Type} {O : Ops T} {RL : RingLaws T} {OL : OrderLaws T} {FL : FieldLaws T}
          {SL : SqrtLaws T}.
  Add Ring TRingShoebox2 : (@ring_th T O RL).
  Local Notation vec := (@vec T).
  Local Open Scope T_scope.

  Lemma tadd_pos_pos (a b : T) : 0 < a -> 0 < b -> 0 < a + b.
  Proof.
    intros Ha Hb. apply (tlt_le_trans _ a); [exact Ha|].
    replace a with (a + 0) at 1 by ring. apply tadd_le_mono_l. now apply tlt_le.
  Qed.

  Lemma tle_double (w : T) : 0 <= w -> w <= w + w.
  Proof. intros H. replace w with (w + 0) at 1 by ring. now apply tadd_le_mono_l. Qed.

  (** twice x exceeds p > 2 e: x exceeds e *)
  Lemma half_gap (e p x : T) : e + e < p -> p <= x + x -> e < x.
  Proof. intros H1 H2. apply half_lt. now apply (tlt_le_trans _ p). Qed.

  (** the signed distance (times |n| = 1) from the plane of an axis-aligned rectangle *)
  Lemma side_of_rect (r : rect) (x : vec) :
    side_of (rect_surface r) x = sgn (r_up r) * (ccoord (r_axis r) x - r_c r).
  Proof.
    destruct r as [ax up c ua ub va vb vf]. destruct x as [[x1 x2] x3].
    unfold side_of, s_p0, s_pts, s_nrm, rect_surface, rect_pts, rect_nrm, axis_normal, nthv.
    cbn [r_axis r_up r_c r_ua r_ub r_va r_vb r_vfirst fst snd].
    destruct vf; cbn [nth]; destruct ax; unfold emb, ccoord, vdot, vsub, mkv, vx, vy, vz; cbn [fst snd]; ring.
  Qed.

  Variables (eps eta m : T).
  Hypothesis Heta : 0 < eta.

  (** strictly on the inner (normal) side of the plane of [r], beyond both tolerances *)
  Definition clear_of (r : rect) (x : vec) : Prop :=
    eps < side_of (rect_surface r) x /\ eta < side_of (rect_surface r) x.

  Lemma clear_pos (r : rect) (x : vec) : clear_of r x -> 0 < side_of (rect_surface r) x.
  Proof. intros [_ H]. exact (tlt_trans _ _ _ Heta H). Qed.

  Lemma clear_pt_off (r : rect) (x : vec) : clear_of r x -> pt_off eps eta r x.
  Proof.
    intros H. pose proof (clear_pos r x H) as Hp. destruct H as [H1 H2].
    unfold pt_off. rewrite (tabs_pos _ (tlt_le _ _ Hp)). split; assumption.
  Qed.

  Lemma pos_not_on (r : rect) (x : vec) :
    0 < side_of (rect_surface r) x -> ~ on_plane (rect_surface r) x.
  Proof. intros H Hon. unfold on_plane in Hon. rewrite Hon in H. exact (tlt_irrefl _ H). Qed.

  (** the open segment between two points of the inner side stays on the inner side *)
  Lemma lerp_inner (r : rect) (p q : vec) (t : T) :
    0 < side_of (rect_surface r) p -> 0 < side_of (rect_surface r) q -> 0 < t -> t < 1 ->
    0 < side_of (rect_surface r) (lerp p q t).
  Proof.
    intros Hp Hq H0 H1. rewrite side_lerp.
    replace (side_of (rect_surface r) p + t * (side_of (rect_surface r) q - side_of (rect_surface r) p))
      with ((1 - t) * side_of (rect_surface r) p + t * side_of (rect_surface r) q) by ring.
    apply tadd_pos_pos; apply tmul_pos; try assumption.
    now apply (proj1 (tlt_sub _ _)).
  Qed.

  Lemma gen_pos_off_off (r : rect) (p q : vec) :
    clear_of r p -> clear_of r q -> gen_pos eps eta m r p q.
  Proof.
    intros Hp Hq. left. split; [now apply clear_pt_off|]. split; [now apply clear_pt_off|].
    intros t H0 H1 Hon. exfalso.
    exact (pos_not_on r _ (lerp_inner r p q t (clear_pos r p Hp) (clear_pos r q Hq) H0 H1) Hon).
  Qed.

  Lemma not_blocked_inner (r : rect) (p q : vec) :
    0 < side_of (rect_surface r) p -> 0 < side_of (rect_surface r) q -> ~ blocked r p q.
  Proof.
    intros Hp Hq. unfold blocked. cbv zeta.
    intros [(_ & _ & (t & H0 & H1 & Hon & _))|[(Hon & _)|[(Hon & _)|(Hon & _)]]].
    - exact (pos_not_on r _ (lerp_inner r p q t Hp Hq H0 H1) Hon).
    - exact (pos_not_on r p Hp Hon).
    - exact (pos_not_on r q Hq Hon).
    - exact (pos_not_on r p Hp Hon).
  Qed.

  Lemma gen_pos_on_off (r : rect) (p q : vec) :
    pt_on m r p -> clear_of r q -> gen_pos eps eta m r p q.
  Proof. intros Hp Hq. right. left. split; [exact Hp|now apply clear_pt_off]. Qed.

  Lemma gen_pos_off_on (r : rect) (p q : vec) :
    clear_of r p -> pt_on m r q -> gen_pos eps eta m r p q.
  Proof. intros Hp Hq. right. right. left. split; [now apply clear_pt_off|exact Hq]. Qed.

  Lemma gen_pos_on_on (r : rect) (p q : vec) :
    pt_on m r p -> pt_on m r q -> gen_pos eps eta m r p q.
  Proof. intros Hp Hq. right. right. right. split; assumption. Qed.

  Lemma front_not_behind (r : rect) (this other : vec) :
    on_plane (rect_surface r) this -> 0 < side_of (rect_surface r) other ->
    ~ vdot (s_nrm (rect_surface r)) (vsub other this) < 0.
  Proof.
    intros Hon Hq Hneg. rewrite vdot_comm, denom_is_side_diff in Hneg.
    unfold on_plane in Hon. rewrite Hon in Hneg.
    replace (side_of (rect_surface r) other - 0) with (side_of (rect_surface r) other) in Hneg by ring.
    exact (tlt_irrefl _ (tlt_trans _ _ _ Hq Hneg)).
  Qed.

  (** one end in the plane, the other on the inner side: never blocked, in either order *)
  Lemma not_blocked_on_inner (r : rect) (this other : vec) :
    on_plane (rect_surface r) this -> 0 < side_of (rect_surface r) other ->
    ~ blocked r this other /\ ~ blocked r other this.
  Proof.
    intros Hon Hq. pose proof (pos_not_on r other Hq) as Nq.
    pose proof (front_not_behind r this other Hon Hq) as Nb.
    unfold blocked. cbv zeta. split.
    - intros [(H & _)|[(_ & _ & _ & H)|[(H & _)|(_ & H & _)]]]; contradiction.
    - intros [(_ & H & _)|[(H & _)|[(_ & _ & _ & H)|(H & _)]]]; contradiction.
  Qed.

  Lemma blocked_coplanar (r : rect) (p q : vec) :
    on_plane (rect_surface r) p -> on_plane (rect_surface r) q -> in_rect r p \/ in_rect r q ->
    blocked r p q.
  Proof. intros Hp Hq Hin. unfold blocked. cbv zeta. right. right. right. auto. Qed.
End InnerSide.

(** ** 4. a cell centre is at least half a cell away from every grid line *)
Section GridCentre.
  Context {T : Type} {O : Ops T} {RL : RingLaws T} {OL : OrderLaws T} {FL : FieldLaws T}
          {FlL : FloorLaws T} {SL : SqrtLaws T}.
  Add Ring TRingShoebox3 : (@ring_th T O RL).
  Local Notation vec := (@vec T).
  Local Open Scope T_scope.

  Lemma gline_add (x0 r : T) (k d : nat) : gline x0 r (k + d) = gline x0 r k + tofnat d * r.
  Proof. unfold gline. rewrite tofnat_add. ring. Qed.

  Lemma grid_slack (r : T) (d : nat) : 0 <= r -> r <= r + (tofnat d * r + tofnat d * r).
  Proof.
    intros Hr. replace r with (r + 0) at 1 by ring. apply tadd_le_mono_l.
    apply tadd_nonneg; apply tmul_nonneg; try apply tofnat_nonneg; exact Hr.
  Qed.

  (** [mid] is the midpoint of the grid lines i and i+1 *)
  Lemma mid_grid_below (x0 r mid : T) (i k : nat) :
    0 <= r -> mid + mid = gline x0 r i + gline x0 r (S i) -> (k <= i)%nat ->
    r <= (mid - gline x0 r k) + (mid - gline x0 r k).
  Proof.
    intros Hr Hm Hk. replace i with (k + (i - k))%nat in Hm by lia.
    rewrite <- Nat.add_succ_r in Hm. rewrite !gline_add, tofnat_S in Hm.
    replace ((mid - gline x0 r k) + (mid - gline x0 r k)) with ((mid + mid) - (gline x0 r k + gline x0 r k)) by ring.
    rewrite Hm.
    replace (gline x0 r k + tofnat (i - k) * r + (gline x0 r k + (tofnat (i - k) + 1) * r)
             - (gline x0 r k + gline x0 r k))
      with (r + (tofnat (i - k) * r + tofnat (i - k) * r)) by ring.
    now apply grid_slack.
  Qed.

  Lemma mid_grid_above (x0 r mid : T) (i k : nat) :
    0 <= r -> mid + mid = gline x0 r i + gline x0 r (S i) -> (i < k)%nat ->
    r <= (gline x0 r k - mid) + (gline x0 r k - mid).
  Proof.
    intros Hr Hm Hk. replace k with (S i + (k - S i))%nat by lia.
    rewrite gline_add. rewrite gline_S in Hm |- *.
    replace ((gline x0 r i + r + tofnat (k - S i) * r - mid) + (gline x0 r i + r + tofnat (k - S i) * r - mid))
      with (((gline x0 r i + r + tofnat (k - S i) * r) + (gline x0 r i + r + tofnat (k - S i) * r)) - (mid + mid)) by ring.
    rewrite Hm.
    replace (gline x0 r i + r + tofnat (k - S i) * r + (gline x0 r i + r + tofnat (k - S i) * r)
             - (gline x0 r i + (gline x0 r i + r)))
      with (r + (tofnat (k - S i) * r + tofnat (k - S i) * r)) by ring.
    now apply grid_slack.
  Qed.

  (** farther than m from every grid line when 2 m is less than a cell *)
  Lemma mid_grid_off (m x0 r mid : T) (i k : nat) :
    0 <= r -> mid + mid = gline x0 r i + gline x0 r (S i) -> m + m < r ->
    m < tabs (mid - gline x0 r k).
  Proof.
    intros Hr Hm Hmr. destruct (Nat.le_gt_cases k i) as [Hk|Hk].
    - pose proof (mid_grid_below x0 r mid i k Hr Hm Hk) as H.
      pose proof (half_lt _ _ (tlt_le_trans _ _ _ Hmr H)) as Hlt.
      assert (H0 : 0 <= mid - gline x0 r k).
      { apply half_nonneg. apply (tle_trans _ r); assumption. }
      rewrite (tabs_pos _ H0). exact Hlt.
    - pose proof (mid_grid_above x0 r mid i k Hr Hm Hk) as H.
      pose proof (half_lt _ _ (tlt_le_trans _ _ _ Hmr H)) as Hlt.
      assert (H0 : 0 <= gline x0 r k - mid).
      { apply half_nonneg. apply (tle_trans _ r); assumption. }
      rewrite tabs_swap, (tabs_pos _ H0). exact Hlt.
  Qed.

  (** the midpoint coordinates of a rectangle's centroid *)
  Lemma double_of_quad (h a b : T) : h * tofnat 4 = (a + b) + (b + a) -> h + h = a + b.
  Proof.
    intros H. assert (H2 : 0 < (1 + 1 : T)) by (apply pos_double, tone_pos).
    apply (tmul_eq_cancel_pos_r _ _ (1 + 1) H2).
    transitivity (h * tofnat 4); [rewrite K_eq; ring|rewrite H; ring].
  Qed.

  Lemma rect_mid_u_double (r : rect) : rect_mid_u r + rect_mid_u r = r_ua r + r_ub r.
  Proof. apply double_of_quad, rect_mid_u_mul. Qed.
  Lemma rect_mid_v_double (r : rect) : rect_mid_v r + rect_mid_v r = r_va r + r_vb r.
  Proof. apply double_of_quad, rect_mid_v_mul. Qed.

  Lemma ccoord_emb (ax : axis) (c u v : T) : ccoord ax (emb ax c u v) = c.
  Proof. destruct ax; reflexivity. Qed.
End GridCentre.

(** ** 5. the centres of the cells of one wall *)
Section WallCentres.
  Context {T : Type} {O : Ops T} {RL : RingLaws T} {OL : OrderLaws T} {FL : FieldLaws T}
          {FlL : FloorLaws T} {SL : SqrtLaws T}.
  Add Ring TRingShoebox4 : (@ring_th T O RL).
  Local Notation vec := (@vec T).
  Local Open Scope T_scope.

  Variables (q : @quad T) (p : T) (f : nat) (c : T) (up : bool).
  Hypothesis Hok : wall_ok q p f c.

  Lemma wall_axis_size (a : nat) : a = px f \/ a = py f -> p <= size q a.
  Proof. destruct Hok as (_ & _ & _ & Hx & Hy). intros [-> | ->]; assumption. Qed.

  Lemma wall_p_pos : 0 < p.
  Proof. destruct Hok as (_ & _ & Hp & _). exact Hp. Qed.

  Lemma wall_real_size_pos (a : nat) : a = px f \/ a = py f -> 0 < real_size q p a.
  Proof. intros Ha. apply real_size_pos; [exact wall_p_pos|now apply wall_axis_size]. Qed.

  Lemma wall_patch_num_pos (a : nat) : a = px f \/ a = py f -> (1 <= patch_num q p a)%nat.
  Proof.
    destruct (stmt_count q p f c Hok) as (_ & _ & Nx & Ny & _). intros [-> | ->]; assumption.
  Qed.

  (** every cell side is at least the requested patch size *)
  Lemma real_size_ge_p (a : nat) : a = px f \/ a = py f -> p <= real_size q p a.
  Proof.
    intros Ha. destruct (stmt_floor q p f c a Hok Ha) as [Hlo _].
    assert (Hn : 0 < tofnat (patch_num q p a)) by (apply tofnat_pos; pose proof (wall_patch_num_pos a Ha); lia).
    apply (tmul_le_cancel_pos_r _ _ _ Hn). unfold real_size.
    rewrite tdiv_mul by now apply tpos_neq.
    replace (p * tofnat (patch_num q p a)) with (tofnat (patch_num q p a) * p) by ring. exact Hlo.
  Qed.

  Lemma wall_gline_last (a : nat) : a = px f \/ a = py f ->
    gline (col_min q a) (real_size q p a) (patch_num q p a) = col_max q a.
  Proof. intros Ha. apply gline_last; [exact wall_p_pos|now apply wall_axis_size]. Qed.

  Lemma wall_gline_first (a : nat) : gline (col_min q a) (real_size q p a) 0 = col_min q a.
  Proof. apply gline_0. Qed.

  Definition cell_centre (i j : nat) : vec := centroid (rect_pts (cell_rect q p f up c i j)).

  Lemma cell_centre_emb (i j : nat) :
    cell_centre i j = emb (ax_of f) c (rect_mid_u (cell_rect q p f up c i j)) (rect_mid_v (cell_rect q p f up c i j)).
  Proof. unfold cell_centre. now rewrite rect_centroid. Qed.

  Lemma cell_centre_c (i j : nat) : ccoord (ax_of f) (cell_centre i j) = c.
  Proof. rewrite cell_centre_emb. apply ccoord_emb. Qed.

  Lemma cell_centre_u (i j : nat) :
    ucoord (ax_of f) (cell_centre i j) + ucoord (ax_of f) (cell_centre i j)
    = gline (col_min q (px f)) (real_size q p (px f)) i + gline (col_min q (px f)) (real_size q p (px f)) (S i).
  Proof. rewrite cell_centre_emb, ucoord_emb. now rewrite rect_mid_u_double. Qed.

  Lemma cell_centre_v (i j : nat) :
    vcoord (ax_of f) (cell_centre i j) + vcoord (ax_of f) (cell_centre i j)
    = gline (col_min q (py f)) (real_size q p (py f)) j + gline (col_min q (py f)) (real_size q p (py f)) (S j).
  Proof. rewrite cell_centre_emb, vcoord_emb. now rewrite rect_mid_v_double. Qed.

  (** in the plane of every rectangle of the wall's plane *)
  Lemma cell_centre_on (i j : nat) (r : rect) :
    r_axis r = ax_of f -> r_c r = c -> on_plane (rect_surface r) (cell_centre i j).
  Proof.
    intros Hax Hc. unfold on_plane. rewrite side_of_rect, Hax, Hc, cell_centre_c. ring.
  Qed.

  (** farther than m from every grid line of the wall, in both directions *)
  Lemma cell_centre_off_u (m : T) (i j k : nat) :
    m + m < p ->
    m < tabs (ucoord (ax_of f) (cell_centre i j) - gline (col_min q (px f)) (real_size q p (px f)) k).
  Proof.
    intros Hm. apply (mid_grid_off m _ _ _ i k).
    - apply tlt_le, wall_real_size_pos. now left.
    - apply cell_centre_u.
    - apply (tlt_le_trans _ p); [exact Hm|]. apply real_size_ge_p. now left.
  Qed.

  Lemma cell_centre_off_v (m : T) (i j k : nat) :
    m + m < p ->
    m < tabs (vcoord (ax_of f) (cell_centre i j) - gline (col_min q (py f)) (real_size q p (py f)) k).
  Proof.
    intros Hm. apply (mid_grid_off m _ _ _ j k).
    - apply tlt_le, wall_real_size_pos. now right.
    - apply cell_centre_v.
    - apply (tlt_le_trans _ p); [exact Hm|]. apply real_size_ge_p. now right.
  Qed.

  Lemma cell_centre_off_cell (m : T) (i j i' j' : nat) :
    m + m < p -> off_bands m (cell_rect q p f up c i' j') (cell_centre i j).
  Proof.
    intros Hm. unfold off_bands. cbn [cell_rect r_axis r_ua r_ub r_va r_vb].
    split; [exact (cell_centre_off_u m i j _ Hm)|].
    split; [exact (cell_centre_off_u m i j _ Hm)|].
    split; [exact (cell_centre_off_v m i j _ Hm)|exact (cell_centre_off_v m i j _ Hm)].
  Qed.

  Lemma cell_centre_pt_on (m : T) (i j i' j' : nat) (up' : bool) :
    m + m < p -> pt_on m (cell_rect q p f up' c i' j') (cell_centre i j).
  Proof.
    intros Hm. split.
    - now apply cell_centre_on.
    - unfold off_bands. cbn [cell_rect r_axis r_ua r_ub r_va r_vb].
      split; [exact (cell_centre_off_u m i j _ Hm)|].
    split; [exact (cell_centre_off_u m i j _ Hm)|].
    split; [exact (cell_centre_off_v m i j _ Hm)|exact (cell_centre_off_v m i j _ Hm)].
  Qed.

  (** at least half a patch inside the wall's extent *)
  Lemma cell_centre_u_lo (i j : nat) :
    p <= (ucoord (ax_of f) (cell_centre i j) - col_min q (px f)) + (ucoord (ax_of f) (cell_centre i j) - col_min q (px f)).
  Proof.
    apply (tle_trans _ (real_size q p (px f))); [apply real_size_ge_p; now left|].
    pose proof (mid_grid_below _ _ _ i 0 (tlt_le _ _ (wall_real_size_pos (px f) (or_introl eq_refl)))
                  (cell_centre_u i j) (Nat.le_0_l i)) as H.
    rewrite (wall_gline_first (px f)) in H. exact H.
  Qed.

  Lemma cell_centre_u_hi (i j : nat) : (i < patch_num q p (px f))%nat ->
    p <= (col_max q (px f) - ucoord (ax_of f) (cell_centre i j)) + (col_max q (px f) - ucoord (ax_of f) (cell_centre i j)).
  Proof.
    intros Hi. apply (tle_trans _ (real_size q p (px f))); [apply real_size_ge_p; now left|].
    rewrite <- (wall_gline_last (px f)) by now left.
    apply (mid_grid_above _ _ _ i); [apply tlt_le, wall_real_size_pos; now left|apply cell_centre_u|exact Hi].
  Qed.

  Lemma cell_centre_v_lo (i j : nat) :
    p <= (vcoord (ax_of f) (cell_centre i j) - col_min q (py f)) + (vcoord (ax_of f) (cell_centre i j) - col_min q (py f)).
  Proof.
    apply (tle_trans _ (real_size q p (py f))); [apply real_size_ge_p; now right|].
    pose proof (mid_grid_below _ _ _ j 0 (tlt_le _ _ (wall_real_size_pos (py f) (or_intror eq_refl)))
                  (cell_centre_v i j) (Nat.le_0_l j)) as H.
    rewrite (wall_gline_first (py f)) in H. exact H.
  Qed.

  Lemma cell_centre_v_hi (i j : nat) : (j < patch_num q p (py f))%nat ->
    p <= (col_max q (py f) - vcoord (ax_of f) (cell_centre i j)) + (col_max q (py f) - vcoord (ax_of f) (cell_centre i j)).
  Proof.
    intros Hj. apply (tle_trans _ (real_size q p (py f))); [apply real_size_ge_p; now right|].
    rewrite <- (wall_gline_last (py f)) by now right.
    apply (mid_grid_above _ _ _ j); [apply tlt_le, wall_real_size_pos; now right|apply cell_centre_v|exact Hj].
  Qed.
End WallCentres.

(** ** 6. the box [x0,x1] x [y0,y1] x [z0,z1] and its six inward-facing walls *)
Section Box.
  Context {T : Type} {O : Ops T} {RL : RingLaws T} {OL : OrderLaws T} {FL : FieldLaws T}
          {FlL : FloorLaws T} {SL : SqrtLaws T}.
  Add Ring TRingShoebox5 : (@ring_th T O RL).
  Local Notation vec := (@vec T).
  Local Open Scope T_scope.

  Variables (x0 x1 y0 y1 z0 z1 : T).

  (** the wall in the plane [axis f = c] *)
  Definition sb_quad (f : nat) (c : T) : @quad T :=
    match f with
    | 0%nat => mkQuad (mkv c y0 z0) (mkv c y0 z1) (mkv c y1 z1) (mkv c y1 z0)
    | 1%nat => mkQuad (mkv x0 c z0) (mkv x1 c z0) (mkv x1 c z1) (mkv x0 c z1)
    | _ => mkQuad (mkv x0 y0 c) (mkv x1 y0 c) (mkv x1 y1 c) (mkv x0 y1 c)
    end.
  Definition sb_lo (a : nat) : T := match a with 0%nat => x0 | 1%nat => y0 | _ => z0 end.
  Definition sb_hi (a : nat) : T := match a with 0%nat => x1 | 1%nat => y1 | _ => z1 end.
  (** [s = true]: the wall at the lower end of axis f, normal +e_f; [s = false]: upper end, -e_f *)
  Definition sb_coord (f : nat) (s : bool) : T := if s then sb_lo f else sb_hi f.

  (** walls, normals and up vectors in the order and with the vertex order of
      [sparrowpy.testing.shoebox_room_stub] (there with x0 = y0 = z0 = 0) *)
  Definition sb_walls : list (@quad T) :=
    [ mkQuad (mkv x0 y0 z0) (mkv x1 y0 z0) (mkv x1 y0 z1) (mkv x0 y0 z1);
      mkQuad (mkv x0 y1 z0) (mkv x1 y1 z0) (mkv x1 y1 z1) (mkv x0 y1 z1);
      mkQuad (mkv x0 y0 z0) (mkv x1 y0 z0) (mkv x1 y1 z0) (mkv x0 y1 z0);
      mkQuad (mkv x0 y0 z1) (mkv x1 y0 z1) (mkv x1 y1 z1) (mkv x0 y1 z1);
      mkQuad (mkv x0 y0 z0) (mkv x0 y0 z1) (mkv x0 y1 z1) (mkv x0 y1 z0);
      mkQuad (mkv x1 y0 z0) (mkv x1 y0 z1) (mkv x1 y1 z1) (mkv x1 y1 z0) ].
  Definition sb_normals : list vec :=
    [ mkv 0 1 0; mkv 0 (- (1)) 0; mkv 0 0 1; mkv 0 0 (- (1)); mkv 1 0 0; mkv (- (1)) 0 0 ].
  Definition sb_ups : list vec :=
    [ mkv 1 0 0; mkv 1 0 0; mkv 1 0 0; mkv 1 0 0; mkv 0 0 1; mkv 0 0 1 ].

  Definition sb_f (w : nat) : nat := match w with 0%nat | 1%nat => 1 | 2%nat | 3%nat => 2 | _ => 0 end%nat.
  Definition sb_s (w : nat) : bool := Nat.even w.
  Definition sb_c (w : nat) : T := sb_coord (sb_f w) (sb_s w).

  Lemma lt6_cases (w : nat) : (w < 6)%nat -> w = 0%nat \/ w = 1%nat \/ w = 2%nat \/ w = 3%nat \/ w = 4%nat \/ w = 5%nat.
  Proof. lia. Qed.

  Lemma sb_walls_nth (w : nat) : (w < 6)%nat -> nth w sb_walls dquad = sb_quad (sb_f w) (sb_c w).
  Proof. intros H. destruct (lt6_cases w H) as [->|[->|[->|[->|[->| ->]]]]]; reflexivity. Qed.

  Lemma sb_normals_nth (w : nat) : (w < 6)%nat -> nthv sb_normals w = axis_normal (ax_of (sb_f w)) (sb_s w).
  Proof. intros H. destruct (lt6_cases w H) as [->|[->|[->|[->|[->| ->]]]]]; reflexivity. Qed.

  Lemma sb_f_lt (w : nat) : (sb_f w < 3)%nat.
  Proof. destruct w as [|[|[|[|w]]]]; cbn [sb_f]; lia. Qed.

  (** different walls differ in the axis or in the side *)
  Lemma sb_wall_inj (w w' : nat) : (w < 6)%nat -> (w' < 6)%nat -> sb_f w = sb_f w' -> sb_s w = sb_s w' -> w = w'.
  Proof.
    intros H H'. destruct (lt6_cases w H) as [->|[->|[->|[->|[->| ->]]]]];
      destruct (lt6_cases w' H') as [->|[->|[->|[->|[->| ->]]]]];
      cbn [sb_f sb_s Nat.even]; intros E1 E2; try reflexivity; try discriminate.
  Qed.

  Lemma plane_axes_facts (f : nat) : (f < 3)%nat ->
    (px f < 3)%nat /\ (py f < 3)%nat /\ px f <> f /\ py f <> f /\
    (forall a, (a < 3)%nat -> a <> f -> a = px f \/ a = py f).
  Proof.
    intros Hf. destruct f as [|[|[|f]]]; try lia; unfold px, py, plane_axes; cbn [fst snd];
      (split; [lia|]; split; [lia|]; split; [lia|]; split; [lia|]; intros a Ha Na; lia).
  Qed.

  (** coordinates by axis index and by [axis] *)
  Lemma vget_axis (f : nat) (x : vec) : (f < 3)%nat ->
    vget x f = ccoord (ax_of f) x /\ vget x (px f) = ucoord (ax_of f) x /\ vget x (py f) = vcoord (ax_of f) x.
  Proof. intros Hf. destruct f as [|[|[|f]]]; try lia; repeat split; reflexivity. Qed.

  Hypothesis Hx : x0 < x1.
  Hypothesis Hy : y0 < y1.
  Hypothesis Hz : z0 < z1.

  Lemma sb_lo_lt_hi (a : nat) : sb_lo a < sb_hi a.
  Proof. destruct a as [|[|a]]; assumption. Qed.

  Lemma col_min_two (q : @quad T) (a : nat) (lo hi : T) :
    lo <= hi -> (forall v, In v (verts q) -> vget v a = lo \/ vget v a = hi) ->
    (exists v, In v (verts q) /\ vget v a = lo) -> col_min q a = lo.
  Proof.
    intros L All (v & Hv & E). apply tle_antisym.
    - rewrite <- E. now apply col_min_le.
    - destruct (col_min_in q a) as (v' & Hv' & ->). destruct (All v' Hv') as [-> | ->]; [apply tle_refl|exact L].
  Qed.

  Lemma col_max_two (q : @quad T) (a : nat) (lo hi : T) :
    lo <= hi -> (forall v, In v (verts q) -> vget v a = lo \/ vget v a = hi) ->
    (exists v, In v (verts q) /\ vget v a = hi) -> col_max q a = hi.
  Proof.
    intros L All (v & Hv & E). apply tle_antisym.
    - destruct (col_max_in q a) as (v' & Hv' & ->). destruct (All v' Hv') as [-> | ->]; [exact L|apply tle_refl].
    - rewrite <- E. now apply col_max_ge.
  Qed.

  Lemma sb_verts_two (f : nat) (c : T) (a : nat) : (f < 3)%nat -> (a < 3)%nat -> a <> f ->
    forall v, In v (verts (sb_quad f c)) -> vget v a = sb_lo a \/ vget v a = sb_hi a.
  Proof.
    intros Hf Ha Na v Hv.
    destruct f as [|[|[|f]]]; try lia; destruct a as [|[|[|a]]]; try lia;
      cbn [sb_quad verts q0 q1 q2 q3 In] in Hv;
      destruct Hv as [<-|[<-|[<-|[<-|[]]]]]; cbn [vget sb_lo sb_hi]; auto.
  Qed.

  Lemma sb_verts_lo (f : nat) (c : T) (a : nat) : (f < 3)%nat -> (a < 3)%nat -> a <> f ->
    exists v, In v (verts (sb_quad f c)) /\ vget v a = sb_lo a.
  Proof.
    intros Hf Ha Na. exists (q0 (sb_quad f c)). split; [left; reflexivity|].
    destruct f as [|[|[|f]]]; try lia; destruct a as [|[|[|a]]]; try lia; reflexivity.
  Qed.

  Lemma sb_verts_hi (f : nat) (c : T) (a : nat) : (f < 3)%nat -> (a < 3)%nat -> a <> f ->
    exists v, In v (verts (sb_quad f c)) /\ vget v a = sb_hi a.
  Proof.
    intros Hf Ha Na. exists (q2 (sb_quad f c)). split; [right; right; left; reflexivity|].
    destruct f as [|[|[|f]]]; try lia; destruct a as [|[|[|a]]]; try lia; reflexivity.
  Qed.

  Lemma sb_col_min (f : nat) (c : T) (a : nat) : (f < 3)%nat -> (a < 3)%nat -> a <> f ->
    col_min (sb_quad f c) a = sb_lo a.
  Proof.
    intros Hf Ha Na. apply (col_min_two _ _ _ (sb_hi a)).
    - apply tlt_le, sb_lo_lt_hi.
    - now apply sb_verts_two.
    - now apply sb_verts_lo.
  Qed.

  Lemma sb_col_max (f : nat) (c : T) (a : nat) : (f < 3)%nat -> (a < 3)%nat -> a <> f ->
    col_max (sb_quad f c) a = sb_hi a.
  Proof.
    intros Hf Ha Na. apply (col_max_two _ _ (sb_lo a)).
    - apply tlt_le, sb_lo_lt_hi.
    - now apply sb_verts_two.
    - now apply sb_verts_hi.
  Qed.

  Lemma sb_planar (f : nat) (c : T) : (f < 3)%nat -> planar (sb_quad f c) f c.
  Proof.
    intros Hf v Hv. destruct f as [|[|[|f]]]; try lia;
      cbn [sb_quad verts q0 q1 q2 q3 In] in Hv;
      destruct Hv as [<-|[<-|[<-|[<-|[]]]]]; reflexivity.
  Qed.

  Variable p : T.
  Hypothesis Hp : 0 < p.
  Hypothesis Hpx : p <= x1 - x0.
  Hypothesis Hpy : p <= y1 - y0.
  Hypothesis Hpz : p <= z1 - z0.

  Lemma sb_extent (a : nat) : p <= sb_hi a - sb_lo a.
  Proof. destruct a as [|[|a]]; assumption. Qed.

  Lemma sb_wall_ok (f : nat) (c : T) : (f < 3)%nat -> wall_ok (sb_quad f c) p f c.
  Proof.
    intros Hf. destruct (plane_axes_facts f Hf) as (Px & Py & Nx & Ny & _).
    split; [exact Hf|]. split; [now apply sb_planar|]. split; [exact Hp|].
    unfold size. rewrite !sb_col_min, !sb_col_max by assumption. split; apply sb_extent.
  Qed.

  (** inward signed distance from the plane of wall (f, s) *)
  Definition wside (f : nat) (s : bool) (x : vec) : T :=
    if s then vget x f - sb_lo f else sb_hi f - vget x f.
  (** a rectangle in the plane of wall (f, s), facing inwards *)
  Definition in_wall (f : nat) (s : bool) (r : @rect T) : Prop :=
    r_axis r = ax_of f /\ r_up r = s /\ r_c r = sb_coord f s.

  Lemma side_in_wall (f : nat) (s : bool) (r : rect) (x : vec) :
    (f < 3)%nat -> in_wall f s r -> side_of (rect_surface r) x = wside f s x.
  Proof.
    intros Hf (Hax & Hup & Hc). rewrite side_of_rect, Hax, Hup, Hc.
    destruct (vget_axis f x Hf) as (<- & _). unfold wside, sb_coord, sgn. destruct s; ring.
  Qed.

  (** the centre of cell (i, j) of wall (f, s) *)
  Definition sb_centre (f : nat) (s : bool) (i j : nat) : vec :=
    cell_centre (sb_quad f (sb_coord f s)) p f (sb_coord f s) s i j.
  Definition sb_cell (f : nat) (s : bool) (i j : nat) : @rect T :=
    cell_rect (sb_quad f (sb_coord f s)) p f s (sb_coord f s) i j.
  Definition sb_nu (f : nat) (s : bool) : nat := patch_num (sb_quad f (sb_coord f s)) p (px f).
  Definition sb_nv (f : nat) (s : bool) : nat := patch_num (sb_quad f (sb_coord f s)) p (py f).

  Lemma sb_cell_in_wall (f : nat) (s : bool) (i j : nat) : in_wall f s (sb_cell f s i j).
  Proof. repeat split. Qed.

  Lemma sb_centre_own (f : nat) (s : bool) (i j : nat) : (f < 3)%nat -> wside f s (sb_centre f s i j) = 0.
  Proof.
    intros Hf. unfold wside. destruct (vget_axis f (sb_centre f s i j) Hf) as (-> & _).
    unfold sb_centre. rewrite cell_centre_c. unfold sb_coord. destruct s; ring.
  Qed.

  (** ... is at least half a patch inside with respect to the five other wall planes *)
  Lemma sb_centre_deep (f : nat) (s : bool) (i j : nat) (f' : nat) (s' : bool) :
    (f < 3)%nat -> (f' < 3)%nat -> (i < sb_nu f s)%nat -> (j < sb_nv f s)%nat ->
    f' <> f \/ s' <> s ->
    p <= wside f' s' (sb_centre f s i j) + wside f' s' (sb_centre f s i j).
  Proof.
    intros Hf Hf' Hi Hj Hne.
    destruct (plane_axes_facts f Hf) as (Px & Py & Nx & Ny & Hax).
    pose proof (sb_wall_ok f (sb_coord f s) Hf) as Hok.
    destruct (Nat.eq_dec f' f) as [E|E].
    - (* the opposite wall *)
      subst f'. assert (Hs : s' = negb s) by (destruct Hne as [H|H]; [contradiction|destruct s, s'; try reflexivity; exfalso; apply H; reflexivity]).
      subst s'. unfold wside. destruct (vget_axis f (sb_centre f s i j) Hf) as (-> & _).
      unfold sb_centre. rewrite cell_centre_c. unfold sb_coord.
      apply (tle_trans _ (sb_hi f - sb_lo f)); [apply sb_extent|].
      assert (H0 : 0 <= sb_hi f - sb_lo f) by (apply (tle_trans _ p); [now apply tlt_le|apply sb_extent]).
      destruct s; cbn [negb].
      + replace (sb_hi f - sb_lo f + (sb_hi f - sb_lo f)) with ((sb_hi f - sb_lo f) + (sb_hi f - sb_lo f)) by ring.
        now apply tle_double.
      + replace (sb_hi f - sb_lo f + (sb_hi f - sb_lo f)) with ((sb_hi f - sb_lo f) + (sb_hi f - sb_lo f)) by ring.
        now apply tle_double.
    - (* an adjacent wall *)
      destruct (vget_axis f (sb_centre f s i j) Hf) as (_ & Eu & Ev).
      unfold wside. destruct (Hax f' Hf' E) as [-> | ->].
      + rewrite Eu. unfold sb_centre.
        destruct s'.
        * rewrite <- (sb_col_min f (sb_coord f s) (px f) Hf Px Nx). now apply cell_centre_u_lo.
        * rewrite <- (sb_col_max f (sb_coord f s) (px f) Hf Px Nx). now apply cell_centre_u_hi.
      + rewrite Ev. unfold sb_centre.
        destruct s'.
        * rewrite <- (sb_col_min f (sb_coord f s) (py f) Hf Py Ny). now apply cell_centre_v_lo.
        * rewrite <- (sb_col_max f (sb_coord f s) (py f) Hf Py Ny). now apply cell_centre_v_hi.
  Qed.
End Box.

(** ** 7. the shoebox room: general position and the closed form of visibility *)

(** the room of [sparrowpy.testing.shoebox_room_stub] (translated to the corner (x0,y0,z0)),
    patch size not larger than any side of the box *)
Definition is_shoebox {T : Type} {O : Ops T} (rm : @room T) (x0 x1 y0 y1 z0 z1 : T) : Prop :=
  rm_walls rm = sb_walls x0 x1 y0 y1 z0 z1 /\ rm_normals rm = sb_normals /\ rm_ups rm = sb_ups /\
  (x0 < x1)%T /\ (y0 < y1)%T /\ (z0 < z1)%T /\ (0 < rm_patch_size rm)%T /\
  (rm_patch_size rm <= x1 - x0)%T /\ (rm_patch_size rm <= y1 - y0)%T /\ (rm_patch_size rm <= z1 - z0)%T.

(** the tolerances of the code are small against the patch size *)
Definition sb_tolerances {T : Type} {O : Ops T} (rm : @room T) : Prop :=
  (0 <= rm_eps rm)%T /\ (rm_eps rm < 1)%T /\ (0 < rm_eta rm)%T /\
  (rm_eps rm + rm_eps rm < rm_patch_size rm)%T /\ (rm_eta rm + rm_eta rm < rm_patch_size rm)%T.

Section ShoeboxRoomProofs.
  Context {T : Type} {O : Ops T} {RL : RingLaws T} {OL : OrderLaws T} {FL : FieldLaws T}
          {FlL : FloorLaws T} {SL : SqrtLaws T}.
  Add Ring TRingShoebox6 : (@ring_th T O RL).
  Local Notation vec := (@vec T).
  Local Open Scope T_scope.

  Variables (x0 x1 y0 y1 z0 z1 : T).
  Variable rm : @room T.
  Local Notation p := (rm_patch_size rm).
  Local Notation eps := (rm_eps rm).
  Local Notation eta := (rm_eta rm).
  Local Notation np := (rm_np rm).
  Local Notation centre k := (nthv (rm_centers rm) k).
  Local Notation wsd := (wside x0 x1 y0 y1 z0 z1).
  Local Notation inw := (in_wall x0 x1 y0 y1 z0 z1).
  Local Notation cellr := (sb_cell x0 x1 y0 y1 z0 z1 p).
  Local Notation cellc := (sb_centre x0 x1 y0 y1 z0 z1 p).
  Local Notation nu := (sb_nu x0 x1 y0 y1 z0 z1 p).
  Local Notation nv := (sb_nv x0 x1 y0 y1 z0 z1 p).
  Local Notation wallof k := (wall (room_scene rm) k).

  Hypothesis Hwalls : rm_walls rm = sb_walls x0 x1 y0 y1 z0 z1.
  Hypothesis Hnormals : rm_normals rm = sb_normals.
  Hypothesis Hx : x0 < x1.
  Hypothesis Hy : y0 < y1.
  Hypothesis Hz : z0 < z1.
  Hypothesis Hp : 0 < p.
  Hypothesis Hpx : p <= x1 - x0.
  Hypothesis Hpy : p <= y1 - y0.
  Hypothesis Hpz : p <= z1 - z0.

  Lemma sb_wall_ok' (f : nat) (c : T) : (f < 3)%nat -> wall_ok (sb_quad x0 x1 y0 y1 z0 z1 f c) p f c.
  Proof. exact (sb_wall_ok x0 x1 y0 y1 z0 z1 Hx Hy Hz p Hp Hpx Hpy Hpz f c). Qed.

  Lemma sb_walls_length : length (rm_walls rm) = 6%nat.
  Proof. rewrite Hwalls. reflexivity. Qed.

  Lemma sb_axis_walls_by : axis_walls_by rm sb_f (sb_c x0 x1 y0 y1 z0 z1) sb_s.
  Proof.
    intros w Hw. rewrite sb_walls_length in Hw. rewrite Hwalls, Hnormals.
    rewrite (sb_walls_nth x0 x1 y0 y1 z0 z1 w Hw), (sb_normals_nth w Hw). split; [|reflexivity].
    apply sb_wall_ok', sb_f_lt.
  Qed.

  Lemma sb_axis_walls : axis_walls rm.
  Proof. exact (axis_walls_by_axis_walls rm _ _ _ sb_axis_walls_by). Qed.

  Variable rs : list (@rect T).
  Hypothesis Hrs : rects_of (rm_patch_surfs rm) rs.
  Hypothesis Hcells : forall k, (k < np)%nat ->
    let w := wallof k in
    is_cell (nth w (rm_walls rm) dquad) p (sb_f w) (sb_s w) (sb_c x0 x1 y0 y1 z0 z1 w) (nth k rs drect).

  (** patch k is cell (i, j) of wall (f, s), its centroid the centre of that cell *)
  Definition patch_on (k f : nat) (s : bool) : Prop :=
    (f < 3)%nat /\ exists i j, (i < nu f s)%nat /\ (j < nv f s)%nat /\
      nth k rs drect = cellr f s i j /\ centre k = cellc f s i j.

  Lemma wallof_lt (k : nat) : (k < np)%nat -> (wallof k < 6)%nat.
  Proof. intros Hk. rewrite <- sb_walls_length. now apply room_wall_lt. Qed.

  Lemma patch_on_wall (k : nat) : (k < np)%nat -> patch_on k (sb_f (wallof k)) (sb_s (wallof k)).
  Proof.
    intros Hk. pose proof (wallof_lt k Hk) as Hw. pose proof (Hcells k Hk) as Hc. cbv zeta in Hc.
    rewrite Hwalls, (sb_walls_nth x0 x1 y0 y1 z0 z1 _ Hw) in Hc.
    destruct Hc as (i & j & Hi & Hj & E).
    split; [apply sb_f_lt|]. exists i, j. split; [exact Hi|]. split; [exact Hj|]. split; [exact E|].
    rewrite (room_center_is_rect_centroid rm rs Hrs k Hk), E. reflexivity.
  Qed.

  Variable m : T.
  Hypothesis Heta : 0 < eta.
  Hypothesis Hep : eps + eps < p.
  Hypothesis Hetap : eta + eta < p.
  Hypothesis Hmp : m + m < p.

  Lemma patch_in_wall (k f : nat) (s : bool) : patch_on k f s -> inw f s (nth k rs drect).
  Proof. intros (_ & i & j & _ & _ & -> & _). apply sb_cell_in_wall. Qed.

  (** off the plane of every rectangle of another wall, on the inner side *)
  Lemma patch_clear (k f : nat) (s : bool) (f' : nat) (s' : bool) (r : rect) :
    patch_on k f s -> (f' < 3)%nat -> inw f' s' r -> f' <> f \/ s' <> s ->
    clear_of eps eta r (centre k).
  Proof.
    intros (Hf & i & j & Hi & Hj & _ & Ec) Hf' Hr Hne. unfold clear_of.
    rewrite (side_in_wall x0 x1 y0 y1 z0 z1 f' s' r _ Hf' Hr), Ec.
    pose proof (sb_centre_deep x0 x1 y0 y1 z0 z1 Hx Hy Hz p Hp Hpx Hpy Hpz f s i j f' s' Hf Hf' Hi Hj Hne) as Hd.
    split; [exact (half_gap _ _ _ Hep Hd)|exact (half_gap _ _ _ Hetap Hd)].
  Qed.

  (** in the plane of every cell of its own wall, off the edge bands *)
  Lemma patch_on_same (k k' f : nat) (s : bool) :
    patch_on k f s -> patch_on k' f s -> pt_on m (nth k' rs drect) (centre k).
  Proof.
    intros (Hf & i & j & _ & _ & _ & Ec) (_ & i' & j' & _ & _ & Er & _). rewrite Er, Ec.
    unfold sb_cell, sb_centre. apply cell_centre_pt_on; [now apply sb_wall_ok'|exact Hmp].
  Qed.

  Lemma patch_in_own (k f : nat) (s : bool) :
    (k < np)%nat -> patch_on k f s -> in_rect (nth k rs drect) (centre k).
  Proof.
    intros Hk (Hf & i & j & _ & _ & Er & _).
    destruct (room_rect_in rm rs Hrs k Hk) as [_ Hwf].
    rewrite (room_center_is_rect_centroid rm rs Hrs k Hk).
    pose proof (sb_wall_ok' f (sb_coord x0 x1 y0 y1 z0 z1 f s) Hf) as Hok.
    apply (rect_own_centroid 0 _ Hwf); rewrite Er; unfold sb_cell;
      cbn [cell_rect r_ua r_ub r_va r_vb]; rewrite gline_step;
      replace (0 + 0) with (0 : T) by ring.
    - pose proof (wall_real_size_pos _ _ _ _ Hok (px f) (or_introl eq_refl)) as Hr.
      rewrite (tabs_pos _ (tlt_le _ _ Hr)). exact Hr.
    - pose proof (wall_real_size_pos _ _ _ _ Hok (py f) (or_intror eq_refl)) as Hr.
      rewrite (tabs_pos _ (tlt_le _ _ Hr)). exact Hr.
  Qed.

  (** the position of centroid i relative to the rectangle of patch k *)
  Lemma patch_position (i k fi : nat) (si : bool) (f : nat) (s : bool) :
    patch_on i fi si -> patch_on k f s ->
    ((fi = f /\ si = s) /\ pt_on m (nth k rs drect) (centre i)) \/
    ((f <> fi \/ s <> si) /\ clear_of eps eta (nth k rs drect) (centre i)).
  Proof.
    intros Hi Hk. destruct (Nat.eq_dec f fi) as [Ef|Nf]; [destruct (Bool.bool_dec s si) as [Es|Ns]|].
    - left. subst fi si. split; [split; reflexivity|]. now apply (patch_on_same i k f s).
    - right. split; [now right|].
      apply (patch_clear i fi si f s); [exact Hi|exact (proj1 Hk)|now apply patch_in_wall|now right].
    - right. split; [now left|].
      apply (patch_clear i fi si f s); [exact Hi|exact (proj1 Hk)|now apply patch_in_wall|now left].
  Qed.

  Lemma rs_nth (r : rect) : In r rs -> exists k, (k < np)%nat /\ nth k rs drect = r.
  Proof.
    intros Hin. destruct (In_nth rs r drect Hin) as (k & Hk & E).
    exists k. split; [|exact E]. now rewrite <- (room_rects_length rm rs Hrs).
  Qed.

  (** GENERAL POSITION: every pair of centroids, every patch rectangle *)
  Theorem sb_gen_pos (i j : nat) (r : rect) :
    (i < np)%nat -> (j < np)%nat -> In r rs -> gen_pos eps eta m r (centre i) (centre j).
  Proof.
    intros Hi Hj Hr. destruct (rs_nth r Hr) as (k & Hk & <-).
    pose proof (patch_on_wall i Hi) as Pi. pose proof (patch_on_wall j Hj) as Pj.
    pose proof (patch_on_wall k Hk) as Pk.
    destruct (patch_position i k _ _ _ _ Pi Pk) as [[_ Oi]|[_ Ci]];
      destruct (patch_position j k _ _ _ _ Pj Pk) as [[_ Oj]|[_ Cj]].
    - now apply gen_pos_on_on.
    - now apply gen_pos_on_off.
    - now apply gen_pos_off_on.
    - now apply gen_pos_off_off.
  Qed.

  (** two patches of different walls: no patch rectangle blocks *)
  Lemma sb_not_blocked (i j : nat) (r : rect) :
    (i < np)%nat -> (j < np)%nat -> wallof i <> wallof j -> In r rs ->
    ~ blocked r (centre i) (centre j).
  Proof.
    intros Hi Hj Hne Hr. destruct (rs_nth r Hr) as (k & Hk & <-).
    pose proof (patch_on_wall i Hi) as Pi. pose proof (patch_on_wall j Hj) as Pj.
    pose proof (patch_on_wall k Hk) as Pk.
    destruct (patch_position i k _ _ _ _ Pi Pk) as [[[Efi Esi] Oi]|[_ Ci]];
      destruct (patch_position j k _ _ _ _ Pj Pk) as [[[Efj Esj] Oj]|[_ Cj]].
    - exfalso. apply Hne. apply sb_wall_inj; try (now apply wallof_lt); congruence.
    - exact (proj1 (not_blocked_on_inner _ _ _ (proj1 Oi) (clear_pos eps eta Heta _ _ Cj))).
    - exact (proj2 (not_blocked_on_inner _ _ _ (proj1 Oj) (clear_pos eps eta Heta _ _ Ci))).
    - exact (not_blocked_inner _ _ _ (clear_pos eps eta Heta _ _ Ci) (clear_pos eps eta Heta _ _ Cj)).
  Qed.

  (** two patches of the same wall: the rectangle of the first blocks (coplanar) *)
  Lemma sb_same_wall_blocked (i j : nat) :
    (i < np)%nat -> (j < np)%nat -> wallof i = wallof j ->
    blocked (nth i rs drect) (centre i) (centre j).
  Proof.
    intros Hi Hj E.
    pose proof (patch_on_wall i Hi) as Pi. pose proof (patch_on_wall j Hj) as Pj. rewrite <- E in Pj.
    apply blocked_coplanar.
    - exact (proj1 (patch_on_same i i _ _ Pi Pi)).
    - exact (proj1 (patch_on_same j i _ _ Pj Pi)).
    - left. exact (patch_in_own i _ _ Hi Pi).
  Qed.

  Hypothesis He : 0 <= eps.
  Hypothesis He1 : eps < 1.
  Hypothesis Hm : eta <= m + m.

  (** CLOSED FORM: two patches exchange energy iff they lie on different walls *)
  Theorem sb_visibility (i j : nat) :
    (i < j)%nat -> (j < np)%nat ->
    (vis_sym (room_scene rm) i j = true <-> wallof i <> wallof j).
  Proof.
    intros Hij Hj. assert (Hi : (i < np)%nat) by lia.
    rewrite (room_visibility_geometric rm rs m He He1 Heta Hm Hrs i j Hij Hj
               (fun r Hr => sb_gen_pos i j r Hi Hj Hr)).
    split.
    - intros H E. apply (H (nth i rs drect)).
      + apply nth_In. now rewrite (room_rects_length rm rs Hrs).
      + now apply sb_same_wall_blocked.
    - intros Hne r Hr. now apply sb_not_blocked.
  Qed.

  (** *** a point source / receiver strictly inside the box sees every patch
      ([room_point_vis]: the blockers are the six WALL rectangles) *)
  Definition wall_rect (f : nat) (s : bool) : @rect T :=
    mkrect (ax_of f) s (sb_coord x0 x1 y0 y1 z0 z1 f s)
           (sb_lo x0 y0 z0 (px f)) (sb_hi x1 y1 z1 (px f)) (sb_lo x0 y0 z0 (py f)) (sb_hi x1 y1 z1 (py f))
           (Nat.eqb f 0).

  Lemma wall_rect_surface (f : nat) (s : bool) : (f < 3)%nat ->
    (verts (sb_quad x0 x1 y0 y1 z0 z1 f (sb_coord x0 x1 y0 y1 z0 z1 f s)), axis_normal (ax_of f) s)
    = rect_surface (wall_rect f s).
  Proof. intros Hf. destruct f as [|[|[|f]]]; try lia; reflexivity. Qed.

  Lemma sb_wall_surfs :
    rm_wall_surfs rm = map (fun w => rect_surface (wall_rect (sb_f w) (sb_s w))) (seq 0 6).
  Proof. unfold rm_wall_surfs. rewrite Hwalls, Hnormals. reflexivity. Qed.

  Lemma wall_rect_wf (f : nat) (s : bool) : rect_wf (wall_rect f s).
  Proof.
    split; cbn [wall_rect r_ua r_ub r_va r_vb]; apply tlt_neq; now apply sb_lo_lt_hi.
  Qed.

  Lemma wall_rect_in_wall (f : nat) (s : bool) : inw f s (wall_rect f s).
  Proof. split; [reflexivity|split; reflexivity]. Qed.

  Lemma pos_of_double (w : T) : p <= w + w -> 0 < w.
  Proof.
    intros H. apply half_lt. replace (0 + 0) with (0 : T) by ring. exact (tlt_le_trans _ _ _ Hp H).
  Qed.

  Lemma tsub_pos_lt (a b : T) : 0 < b - a -> a < b.
  Proof. intros H. now apply (proj2 (tlt_sub _ _)). Qed.

  (** the centroid of a patch lies in its WALL rectangle, off the wall's edge bands *)
  Lemma patch_in_wall_rect (k f : nat) (s : bool) :
    patch_on k f s -> pt_on m (wall_rect f s) (centre k) /\ in_rect (wall_rect f s) (centre k).
  Proof.
    intros (Hf & i & j & Hi & Hj & _ & Ec). rewrite Ec. unfold sb_centre.
    set (c := sb_coord x0 x1 y0 y1 z0 z1 f s).
    pose proof (sb_wall_ok' f c Hf) as Hok.
    destruct (plane_axes_facts f Hf) as (Px & Py & Nx & Ny & _).
    pose proof (sb_col_min x0 x1 y0 y1 z0 z1 Hx Hy Hz f c (px f) Hf Px Nx) as Mu.
    pose proof (sb_col_max x0 x1 y0 y1 z0 z1 Hx Hy Hz f c (px f) Hf Px Nx) as Xu.
    pose proof (sb_col_min x0 x1 y0 y1 z0 z1 Hx Hy Hz f c (py f) Hf Py Ny) as Mv.
    pose proof (sb_col_max x0 x1 y0 y1 z0 z1 Hx Hy Hz f c (py f) Hf Py Ny) as Xv.
    pose proof (cell_centre_off_u _ _ _ _ s Hok m i j 0 Hmp) as Ou0.
    pose proof (cell_centre_off_u _ _ _ _ s Hok m i j (patch_num (sb_quad x0 x1 y0 y1 z0 z1 f c) p (px f)) Hmp) as Ou1.
    pose proof (cell_centre_off_v _ _ _ _ s Hok m i j 0 Hmp) as Ov0.
    pose proof (cell_centre_off_v _ _ _ _ s Hok m i j (patch_num (sb_quad x0 x1 y0 y1 z0 z1 f c) p (py f)) Hmp) as Ov1.
    rewrite (wall_gline_first _ p (px f)), Mu in Ou0.
    rewrite (wall_gline_last _ _ _ _ Hok (px f) (or_introl eq_refl)), Xu in Ou1.
    rewrite (wall_gline_first _ p (py f)), Mv in Ov0.
    rewrite (wall_gline_last _ _ _ _ Hok (py f) (or_intror eq_refl)), Xv in Ov1.
    pose proof (cell_centre_u_lo _ _ _ _ s Hok i j) as Lu. rewrite Mu in Lu.
    pose proof (cell_centre_u_hi _ _ _ _ s Hok i j Hi) as Hu. rewrite Xu in Hu.
    pose proof (cell_centre_v_lo _ _ _ _ s Hok i j) as Lv. rewrite Mv in Lv.
    pose proof (cell_centre_v_hi _ _ _ _ s Hok i j Hj) as Hv. rewrite Xv in Hv.
    split; [split|].
    - apply cell_centre_on; reflexivity.
    - unfold off_bands. cbn [wall_rect r_axis r_ua r_ub r_va r_vb].
      split; [exact Ou0|]. split; [exact Ou1|]. split; [exact Ov0|exact Ov1].
    - unfold in_rect. cbn [wall_rect r_axis r_ua r_ub r_va r_vb]. split; left; split; apply tsub_pos_lt.
      + exact (pos_of_double _ Lu).
      + exact (pos_of_double _ Hu).
      + exact (pos_of_double _ Lv).
      + exact (pos_of_double _ Hv).
  Qed.

  Variable pos : vec.
  Hypothesis Hpos : forall f s, (f < 3)%nat -> eps < wsd f s pos /\ eta < wsd f s pos.

  Lemma pos_clear (f : nat) (s : bool) (r : rect) : (f < 3)%nat -> inw f s r -> clear_of eps eta r pos.
  Proof.
    intros Hf Hr. unfold clear_of. rewrite (side_in_wall x0 x1 y0 y1 z0 z1 f s r _ Hf Hr). now apply Hpos.
  Qed.

  Lemma sb_point_wall_visible (k f : nat) (s : bool) (f' : nat) (s' : bool) :
    patch_on k f s -> (f' < 3)%nat ->
    basic_visibility eps eta pos (centre k) (rect_surface (wall_rect f' s')) = true.
  Proof.
    intros Pk Hf'.
    pose proof (pos_clear f' s' _ Hf' (wall_rect_in_wall f' s')) as Cp.
    assert (H : gen_pos eps eta m (wall_rect f' s') pos (centre k) /\
                ~ blocked (wall_rect f' s') pos (centre k)).
    { destruct (Nat.eq_dec f' f) as [Ef|Nf]; [destruct (Bool.bool_dec s' s) as [Es|Ns]|].
      - subst f' s'. destruct (patch_in_wall_rect k f s Pk) as [On _]. split.
        + now apply gen_pos_off_on.
        + exact (proj2 (not_blocked_on_inner _ _ _ (proj1 On) (clear_pos eps eta Heta _ _ Cp))).
      - assert (Ck : clear_of eps eta (wall_rect f' s') (centre k))
          by (apply (patch_clear k f s f' s'); [exact Pk|exact Hf'|apply wall_rect_in_wall|now right]).
        split; [now apply gen_pos_off_off|].
        exact (not_blocked_inner _ _ _ (clear_pos eps eta Heta _ _ Cp) (clear_pos eps eta Heta _ _ Ck)).
      - assert (Ck : clear_of eps eta (wall_rect f' s') (centre k))
          by (apply (patch_clear k f s f' s'); [exact Pk|exact Hf'|apply wall_rect_in_wall|now left]).
        split; [now apply gen_pos_off_off|].
        exact (not_blocked_inner _ _ _ (clear_pos eps eta Heta _ _ Cp) (clear_pos eps eta Heta _ _ Ck)). }
    destruct H as [Hg Hb].
    destruct (basic_visibility eps eta pos (centre k) (rect_surface (wall_rect f' s'))) eqn:E; [reflexivity|].
    exfalso. apply Hb.
    exact (proj1 (blocked_iff_rect eps eta m He He1 Heta Hm _ _ _ (wall_rect_wf f' s') Hg) E).
  Qed.

  Theorem sb_point_visibility (k : nat) : (k < np)%nat -> nthb (room_point_vis rm pos) k = true.
  Proof.
    intros Hk. unfold room_point_vis.
    rewrite check_point2patch_nth by (unfold rm_centers; rewrite map_length; exact Hk).
    unfold visible_all. apply forallb_forall. intros s Hs.
    rewrite sb_wall_surfs in Hs. apply in_map_iff in Hs. destruct Hs as (w & <- & Hw).
    apply (sb_point_wall_visible k _ _ (sb_f w) (sb_s w) (patch_on_wall k Hk)). apply sb_f_lt.
  Qed.
End ShoeboxRoomProofs.

(** ** 8. the theorems, stated for [is_shoebox] rooms *)
Section ShoeboxTheorems.
  Context {T : Type} {O : Ops T} {RL : RingLaws T} {OL : OrderLaws T} {FL : FieldLaws T}
          {FlL : FloorLaws T} {SL : SqrtLaws T}.
  Local Open Scope T_scope.

  Theorem shoebox_axis_walls (rm : @room T) (x0 x1 y0 y1 z0 z1 : T) :
    is_shoebox rm x0 x1 y0 y1 z0 z1 -> axis_walls rm.
  Proof.
    intros (Hw & Hn & _ & Hx & Hy & Hz & Hp & Hpx & Hpy & Hpz).
    exact (sb_axis_walls x0 x1 y0 y1 z0 z1 rm Hw Hn Hx Hy Hz Hp Hpx Hpy Hpz).
  Qed.

  (** the list of patch rectangles of a shoebox room *)
  Lemma shoebox_cells (rm : @room T) (x0 x1 y0 y1 z0 z1 : T) :
    is_shoebox rm x0 x1 y0 y1 z0 z1 ->
    exists rs, rects_of (rm_patch_surfs rm) rs /\
      forall k, (k < rm_np rm)%nat ->
        let w := wall (room_scene rm) k in
        is_cell (nth w (rm_walls rm) dquad) (rm_patch_size rm) (sb_f w) (sb_s w)
                (sb_c x0 x1 y0 y1 z0 z1 w) (nth k rs drect).
  Proof.
    intros (Hw & Hn & _ & Hx & Hy & Hz & Hp & Hpx & Hpy & Hpz).
    exact (room_cells rm _ _ _ (sb_axis_walls_by x0 x1 y0 y1 z0 z1 rm Hw Hn Hx Hy Hz Hp Hpx Hpy Hpz)).
  Qed.

  (** the index range of the theorems below is not empty: every wall carries a patch *)
  Lemma shoebox_np_ge_6 (rm : @room T) (x0 x1 y0 y1 z0 z1 : T) :
    is_shoebox rm x0 x1 y0 y1 z0 z1 -> (6 <= rm_np rm)%nat.
  Proof.
    intros (Hw & Hn & _ & Hx & Hy & Hz & Hp & Hpx & Hpy & Hpz).
    assert (Hpos : forall f c, (f < 3)%nat ->
              (1 <= total_number_of_patches (sb_quad x0 x1 y0 y1 z0 z1 f c) (rm_patch_size rm))%nat).
    { intros f c Hf.
      destruct (stmt_count _ _ f c (sb_wall_ok x0 x1 y0 y1 z0 z1 Hx Hy Hz _ Hp Hpx Hpy Hpz f c Hf))
        as (_ & _ & Nx & Ny & _ & ->).
      exact (Nat.mul_le_mono 1 _ 1 _ Nx Ny). }
    unfold rm_np, rm_patch_pts, rm_processed. rewrite map_length, process_points_length, Hw.
    change (sb_walls x0 x1 y0 y1 z0 z1)
      with [sb_quad x0 x1 y0 y1 z0 z1 1 y0; sb_quad x0 x1 y0 y1 z0 z1 1 y1;
            sb_quad x0 x1 y0 y1 z0 z1 2 z0; sb_quad x0 x1 y0 y1 z0 z1 2 z1;
            sb_quad x0 x1 y0 y1 z0 z1 0 x0; sb_quad x0 x1 y0 y1 z0 z1 0 x1].
    unfold sumn. cbn [map fold_left].
    pose proof (Hpos 1%nat y0 ltac:(lia)). pose proof (Hpos 1%nat y1 ltac:(lia)).
    pose proof (Hpos 2%nat z0 ltac:(lia)). pose proof (Hpos 2%nat z1 ltac:(lia)).
    pose proof (Hpos 0%nat x0 ltac:(lia)). pose proof (Hpos 0%nat x1 ltac:(lia)). lia.
  Qed.

  (** GENERAL POSITION is a theorem for shoebox rooms: the hypothesis of
      [room_visibility_geometric] holds for every pair of patches and every patch rectangle *)
  Theorem shoebox_general_position (rm : @room T) (x0 x1 y0 y1 z0 z1 m : T) :
    is_shoebox rm x0 x1 y0 y1 z0 z1 ->
    0 < rm_eta rm ->
    rm_eps rm + rm_eps rm < rm_patch_size rm -> rm_eta rm + rm_eta rm < rm_patch_size rm ->
    m + m < rm_patch_size rm ->
    exists rs, rects_of (rm_patch_surfs rm) rs /\
      forall i j, (i < rm_np rm)%nat -> (j < rm_np rm)%nat ->
        forall r, In r rs ->
          gen_pos (rm_eps rm) (rm_eta rm) m r (nthv (rm_centers rm) i) (nthv (rm_centers rm) j).
  Proof.
    intros Hsb Heta Hep Hetap Hmp. destruct (shoebox_cells rm x0 x1 y0 y1 z0 z1 Hsb) as (rs & Hrs & Hc).
    destruct Hsb as (Hw & Hn & _ & Hx & Hy & Hz & Hp & Hpx & Hpy & Hpz).
    exists rs. split; [exact Hrs|]. intros i j Hi Hj r Hr.
    exact (sb_gen_pos x0 x1 y0 y1 z0 z1 rm Hw Hx Hy Hz Hp Hpx Hpy Hpz rs Hrs Hc m Heta Hep Hetap Hmp i j r Hi Hj Hr).
  Qed.

  (** CLOSED FORM of the patch-to-patch visibility of a shoebox room *)
  Theorem shoebox_visibility (rm : @room T) (x0 x1 y0 y1 z0 z1 : T) :
    is_shoebox rm x0 x1 y0 y1 z0 z1 -> sb_tolerances rm ->
    forall i j, (i < j)%nat -> (j < rm_np rm)%nat ->
      (vis_sym (room_scene rm) i j = true <-> wall (room_scene rm) i <> wall (room_scene rm) j).
  Proof.
    intros Hsb (He & He1 & Heta & Hep & Hetap).
    destruct (shoebox_cells rm x0 x1 y0 y1 z0 z1 Hsb) as (rs & Hrs & Hc).
    destruct Hsb as (Hw & Hn & _ & Hx & Hy & Hz & Hp & Hpx & Hpy & Hpz).
    exact (sb_visibility x0 x1 y0 y1 z0 z1 rm Hw Hx Hy Hz Hp Hpx Hpy Hpz rs Hrs Hc (rm_eta rm)
             Heta Hep Hetap Hetap He He1 (eta_margin _ (tlt_le _ _ Heta))).
  Qed.

  (** a point strictly inside the box: farther than eps and eta from the six wall planes *)
  Definition sb_inside (rm : @room T) (x0 x1 y0 y1 z0 z1 : T) (pos : @vec T) : Prop :=
    forall f s, (f < 3)%nat ->
      rm_eps rm < wside x0 x1 y0 y1 z0 z1 f s pos /\ rm_eta rm < wside x0 x1 y0 y1 z0 z1 f s pos.

  (** every patch of a shoebox room is visible from an interior point *)
  Theorem shoebox_point_visibility (rm : @room T) (x0 x1 y0 y1 z0 z1 : T) (pos : @vec T) :
    is_shoebox rm x0 x1 y0 y1 z0 z1 -> sb_tolerances rm -> sb_inside rm x0 x1 y0 y1 z0 z1 pos ->
    forall k, (k < rm_np rm)%nat -> nthb (room_point_vis rm pos) k = true.
  Proof.
    intros Hsb (He & He1 & Heta & Hep & Hetap) Hpos.
    destruct (shoebox_cells rm x0 x1 y0 y1 z0 z1 Hsb) as (rs & Hrs & Hc).
    destruct Hsb as (Hw & Hn & _ & Hx & Hy & Hz & Hp & Hpx & Hpy & Hpz).
    exact (sb_point_visibility x0 x1 y0 y1 z0 z1 rm Hw Hn Hx Hy Hz Hp Hpx Hpy Hpz rs Hrs Hc (rm_eta rm)
             Heta Hep Hetap Hetap He He1 (eta_margin _ (tlt_le _ _ Heta)) pos Hpos).
  Qed.

  (** hence the source illuminates every patch: no entry of the visibility vector is false *)
  Corollary shoebox_point_visibility_all (rm : @room T) (x0 x1 y0 y1 z0 z1 : T) (pos : @vec T) :
    is_shoebox rm x0 x1 y0 y1 z0 z1 -> sb_tolerances rm -> sb_inside rm x0 x1 y0 y1 z0 z1 pos ->
    room_point_vis rm pos = repeat true (rm_np rm).
  Proof.
    intros Hsb Htol Hpos.
    pose proof (shoebox_point_visibility rm x0 x1 y0 y1 z0 z1 pos Hsb Htol Hpos) as H.
    assert (Hlen : length (room_point_vis rm pos) = rm_np rm).
    { unfold room_point_vis, check_point2patch, rm_centers, rm_np. now rewrite !map_length. }
    revert H Hlen. generalize (room_point_vis rm pos) as l, (rm_np rm) as n.
    induction l as [|b l IH]; intros n H Hlen; cbn [length] in Hlen; subst n; [reflexivity|].
    cbn [repeat]. f_equal.
    - exact (H 0%nat (Nat.lt_0_succ _)).
    - apply IH; [|reflexivity]. intros k Hk. exact (H (S k) (proj1 (Nat.succ_lt_mono _ _) Hk)).
  Qed.
End ShoeboxTheorems.
