(** * Brute-force case analyses: the public calls commute with the normalisation. *)
From Coq Require Import List Arith Bool Lia.
Import ListNotations.
From SV Require Import Model.Object Spec.ObjectSpec Proofs.ObjectProofs.

Ltac dm1 :=
  match goal with
  | |- context [match option_map (nd _) ?v with _ => _ end] => is_var v; destruct v as [[? ? ? ?]|]
  | |- context [match ?v with _ => _ end] => is_var v; destruct v
  | |- context [match ?x with _ => _ end] =>
    lazymatch x with
    | context [match _ with _ => _ end] => fail
    | _ => destruct x eqn:?
    end
  end.
Ltac sm := cbn -[nats_eqb homog dir_counts tab_fits resolve wall_cfg fold_left upd_nth repeat seq
                 Nat.eqb Nat.ltb forallb app length].
Ltac dm := repeat (sm; dm1); sm.
Ltac fin := rewrite ?omnd_idem, ?nd_idem; unfold nd; cbn; rewrite ?nk_idem; try reflexivity; try congruence.

Lemma install_brdf_norm g s walls tabt dirs n :
  pnorm (install_brdf g (norm s) walls tabt dirs n) = pnorm (install_brdf g s walls tabt dirs n).
Proof.
  destruct s; unfold pnorm, install_brdf, norm, omap.
  dm; fin.
Qed.

Lemma set_brdf_norm g s walls tab dirs n fid nb negz :
  pnorm (oset_brdf g (norm s) walls tab dirs n fid nb negz) =
  pnorm (oset_brdf g s walls tab dirs n fid nb negz).
Proof.
  unfold oset_brdf. destruct negz; [unfold pnorm; cbn [fst snd]; rewrite norm_norm; reflexivity|].
  destruct (negb (forallb (fun w => w <? g_nw g) walls));
    [unfold pnorm; cbn [fst snd]; rewrite norm_norm; reflexivity|].
  pose proof (check_set_freq_norm s fid nb) as H.
  destruct (check_set_freq (norm s) fid nb) as [a|], (check_set_freq s fid nb) as [b|];
    cbn in H; try discriminate.
  - apply some_inj in H.
    rewrite <- (install_brdf_norm g a), <- (install_brdf_norm g b), H. reflexivity.
  - unfold pnorm; cbn [fst snd]; rewrite norm_norm; reflexivity.
Qed.

