(** * List facts behind the tiling model: indexing into a concatenation of blocks,
    running sums, the wall-id blocks, the append loop of the Kang engine. *)
From Coq Require Import List Arith Bool Lia.
Import ListNotations.
From SV Require Import Base.Ops Base.Arr Model.Vec3 Model.Tiling.

Lemma fold_add_acc (l : list nat) (a : nat) : fold_left Nat.add l a = a + fold_left Nat.add l 0.
Proof.
  revert a. induction l as [|x l IH]; intros a; simpl; [lia|].
  rewrite (IH (a + x)), (IH x). lia.
Qed.
Lemma sumn_nil : sumn [] = 0.
Proof. reflexivity. Qed.
Lemma sumn_cons a l : sumn (a :: l) = a + sumn l.
Proof. unfold sumn. simpl. apply fold_add_acc. Qed.
Lemma sumn_app l1 l2 : sumn (l1 ++ l2) = sumn l1 + sumn l2.
Proof. induction l1 as [|a l IH]; simpl; [reflexivity|]. rewrite !sumn_cons, IH. lia. Qed.

(** running sum of the first [w] entries: [np.sum(patches_per_wall[:w])] *)
Definition prefix_sum (l : list nat) (w : nat) : nat := sumn (firstn w l).
Arguments prefix_sum : simpl never.

Lemma prefix_sum_0 l : prefix_sum l 0 = 0.
Proof. reflexivity. Qed.
Lemma prefix_sum_cons_S a l w : prefix_sum (a :: l) (S w) = a + prefix_sum l w.
Proof. unfold prefix_sum. simpl. apply sumn_cons. Qed.
Lemma prefix_sum_all l : prefix_sum l (length l) = sumn l.
Proof. unfold prefix_sum. now rewrite firstn_all. Qed.
Lemma prefix_sum_S l w : w < length l -> prefix_sum l (S w) = prefix_sum l w + nth w l 0.
Proof.
  revert w. induction l as [|a l IH]; intros w H; simpl in H; [lia|].
  destruct w as [|w].
  - rewrite prefix_sum_cons_S, !prefix_sum_0. simpl. lia.
  - rewrite !prefix_sum_cons_S, IH by lia. simpl. lia.
Qed.
Lemma prefix_sum_mono l w w' : w <= w' -> prefix_sum l w <= prefix_sum l w'.
Proof.
  revert w w'. induction l as [|a l IH]; intros w w' H.
  - unfold prefix_sum. rewrite !firstn_nil. lia.
  - destruct w as [|w]; [rewrite prefix_sum_0; lia|].
    destruct w' as [|w']; [lia|]. rewrite !prefix_sum_cons_S. specialize (IH w w'). lia.
Qed.
Lemma prefix_sum_le_total l w : prefix_sum l w <= sumn l.
Proof.
  destruct (Nat.le_gt_cases w (length l)) as [H|H].
  - rewrite <- prefix_sum_all. now apply prefix_sum_mono.
  - unfold prefix_sum. rewrite firstn_all2 by lia. lia.
Qed.
Lemma prefix_sum_const l m : (forall x, In x l -> x = m) -> forall w, w <= length l -> prefix_sum l w = w * m.
Proof.
  induction l as [|a l IH]; intros Hm w Hw; simpl in Hw.
  - assert (w = 0) by lia. subst. reflexivity.
  - destruct w as [|w]; [reflexivity|]. rewrite prefix_sum_cons_S, IH; [|intros x Hx; apply Hm; now right|lia].
    rewrite (Hm a) by now left. simpl. lia.
Qed.

(** every index below the total lies in exactly one block *)
Lemma block_decomp l k : k < sumn l ->
  exists w j, w < length l /\ j < nth w l 0 /\ k = prefix_sum l w + j.
Proof.
  revert k. induction l as [|a l IH]; intros k H.
  - rewrite sumn_nil in H. lia.
  - rewrite sumn_cons in H. destruct (Nat.lt_ge_cases k a) as [L|L].
    + exists 0, k. split; [simpl; lia|]. split; [exact L|]. rewrite prefix_sum_0. lia.
    + destruct (IH (k - a)) as (w & j & Hw & Hj & E); [lia|].
      exists (S w), j. rewrite prefix_sum_cons_S. simpl. repeat split; lia.
Qed.

Lemma block_unique l w j w' j' :
  w < length l -> w' < length l -> j < nth w l 0 -> j' < nth w' l 0 ->
  prefix_sum l w + j = prefix_sum l w' + j' -> w = w' /\ j = j'.
Proof.
  intros Hw Hw' Hj Hj' E.
  assert (w = w').
  { destruct (Nat.lt_trichotomy w w') as [L|[L|L]]; [|exact L|]; exfalso.
    - pose proof (prefix_sum_mono l (S w) w' L) as M. rewrite prefix_sum_S in M by exact Hw. lia.
    - pose proof (prefix_sum_mono l (S w') w L) as M. rewrite prefix_sum_S in M by exact Hw'. lia. }
  subst w'. split; [reflexivity|lia].
Qed.

(** indexing into a concatenation *)
Lemma length_concat_sumn {A} (ls : list (list A)) : length (concat ls) = sumn (map (@length A) ls).
Proof. induction ls as [|r ls IH]; simpl; [reflexivity|]. now rewrite app_length, sumn_cons, IH. Qed.

Lemma nth_concat {A} (ls : list (list A)) w j d :
  w < length ls -> j < length (nth w ls []) ->
  nth (prefix_sum (map (@length A) ls) w + j) (concat ls) d = nth j (nth w ls []) d.
Proof.
  revert w. induction ls as [|r ls IH]; intros w Hw Hj; simpl in Hw; [lia|].
  destruct w as [|w]; simpl.
  - rewrite ?prefix_sum_0. simpl. simpl in Hj. now apply app_nth1.
  - rewrite prefix_sum_cons_S. rewrite app_nth2 by lia.
    replace (length r + prefix_sum (map (@length A) ls) w + j - length r)
      with (prefix_sum (map (@length A) ls) w + j) by lia.
    apply IH; [lia|exact Hj].
Qed.

(** the rectangular case: [n] blocks of [m] entries *)
Lemma grid_rows_const {A} n m (f : nat -> nat -> A) x :
  In x (map (@length A) (tab n (fun i => tab m (f i)))) -> x = m.
Proof.
  intros H. apply in_map_iff in H. destruct H as (r & E & Hr). apply In_tab in Hr.
  destruct Hr as (i & _ & ->). now rewrite tab_length in E.
Qed.

Lemma length_concat_tab {A} n m (f : nat -> nat -> A) :
  length (concat (tab n (fun i => tab m (f i)))) = n * m.
Proof.
  rewrite length_concat_sumn, <- prefix_sum_all, map_length, tab_length.
  apply prefix_sum_const; [apply grid_rows_const|]. now rewrite map_length, tab_length.
Qed.

Lemma nth_concat_tab {A} n m (f : nat -> nat -> A) i j d : i < n -> j < m ->
  nth (i * m + j) (concat (tab n (fun i => tab m (f i)))) d = f i j.
Proof.
  intros Hi Hj.
  rewrite <- (prefix_sum_const (map (@length A) (tab n (fun i => tab m (f i)))) m (grid_rows_const n m f) i)
    by (rewrite map_length, tab_length; lia).
  rewrite nth_concat.
  - rewrite (nth_tab n _ [] i Hi). now apply nth_tab.
  - now rewrite tab_length.
  - rewrite (nth_tab n _ [] i Hi). now rewrite tab_length.
Qed.

Lemma index_decomp n m k : k < n * m -> exists i j, i < n /\ j < m /\ k = i * m + j.
Proof.
  intros H. assert (Hm : m <> 0) by (intros ->; lia).
  exists (k / m), (k mod m). repeat split.
  - apply Nat.div_lt_upper_bound; [exact Hm|lia].
  - now apply Nat.mod_upper_bound.
  - rewrite (Nat.div_mod k m Hm) at 1. lia.
Qed.

Lemma index_inj m i j i' j' : j < m -> j' < m -> i * m + j = i' * m + j' -> i = i' /\ j = j'.
Proof.
  intros Hj Hj' E.
  assert (i = i') by nia. subst. split; [reflexivity|lia].
Qed.

(** wall ids *)
Lemma nth_repeat_lt {A} (a : A) n j d : j < n -> nth j (repeat a n) d = a.
Proof. revert j. induction n as [|n IH]; intros j H; [lia|]. destruct j; simpl; [reflexivity|apply IH; lia]. Qed.

Lemma length_wall_ids counts : forall w0, length (wall_ids_from w0 counts) = sumn counts.
Proof.
  induction counts as [|c r IH]; intros w0; simpl; [reflexivity|].
  now rewrite app_length, repeat_length, IH, sumn_cons.
Qed.

Lemma nth_wall_ids counts : forall w0 w j d, w < length counts -> j < nth w counts 0 ->
  nth (prefix_sum counts w + j) (wall_ids_from w0 counts) d = w0 + w.
Proof.
  induction counts as [|c r IH]; intros w0 w j d Hw Hj; simpl in Hw; [lia|].
  destruct w as [|w]; simpl.
  - rewrite ?prefix_sum_0. simpl in Hj. simpl. rewrite app_nth1 by now rewrite repeat_length.
    rewrite nth_repeat_lt by exact Hj. lia.
  - rewrite prefix_sum_cons_S. rewrite app_nth2 by (rewrite repeat_length; lia).
    rewrite repeat_length. replace (c + prefix_sum r w + j - c) with (prefix_sum r w + j) by lia.
    simpl in Hj. rewrite IH by (try lia; exact Hj). lia.
Qed.

(** patch [k] carries wall id [w] iff [k] lies in wall [w]'s contiguous block *)
Lemma wall_ids_block counts k w d : k < sumn counts -> w < length counts ->
  (nth k (wall_ids_from 0 counts) d = w <-> prefix_sum counts w <= k < prefix_sum counts (S w)).
Proof.
  intros Hk Hw. destruct (block_decomp counts k Hk) as (w' & j' & Hw' & Hj' & ->).
  rewrite nth_wall_ids by assumption. simpl. split.
  - intros ->. rewrite prefix_sum_S by exact Hw. lia.
  - intros [L U]. rewrite prefix_sum_S in U by exact Hw.
    destruct (block_unique counts w' j' w (prefix_sum counts w' + j' - prefix_sum counts w)) as [E _];
      try assumption; lia.
Qed.

(** the Kang engine's append loops build the same list as the tabulation *)
Lemma fold_snoc_map {A B} (h : B -> A) (l : list B) (acc : list A) :
  fold_left (fun acc' y => acc' ++ [h y]) l acc = acc ++ map h l.
Proof.
  revert acc. induction l as [|y l IH]; intros acc; simpl; [now rewrite app_nil_r|].
  rewrite IH, <- app_assoc. reflexivity.
Qed.

Lemma fold_snoc_grid {A} (g : nat -> nat -> A) (l1 l2 : list nat) (acc : list A) :
  fold_left (fun acc ix => fold_left (fun acc' iy => acc' ++ [g ix iy]) l2 acc) l1 acc
  = acc ++ concat (map (fun ix => map (g ix) l2) l1).
Proof.
  revert acc. induction l1 as [|x l1 IH]; intros acc; simpl; [now rewrite app_nil_r|].
  rewrite IH, fold_snoc_map, <- app_assoc. reflexivity.
Qed.

Lemma map_concat_tab {A B} (h : A -> B) n m (f : nat -> nat -> A) :
  map h (concat (tab n (fun i => tab m (f i)))) = concat (tab n (fun i => tab m (fun j => h (f i j)))).
Proof.
  unfold tab. rewrite concat_map, map_map. f_equal. apply map_ext. intros i. now rewrite map_map.
Qed.
