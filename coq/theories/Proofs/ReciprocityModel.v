(** * C09 on the executable pipeline model: for a diffusely reflecting scene (one outgoing
    slot) the mono curve collected at B for a source at A equals the curve collected at A for a
    source at B, bin for bin, for every order -- the model's patch histograms are the matrix
    recursion of [Reciprocity.v], whose Green function is symmetric up to the area weights. *)
From Coq Require Import List Arith Bool Ring Lia.
Import ListNotations.
From SV Require Import Base.Ops Base.Arr Base.Sums Model.Vec3 Model.Exchange Model.Scene
  Spec.ExchangeSpec Proofs.ExchangeL0 Proofs.ExchangeRefine Proofs.SceneRefine Proofs.HistProofs
  Proofs.ReceiverProofs Proofs.PairLists Proofs.Reciprocity.

Section FieldBits.
  Context {T : Type} {O : Ops T} {RL : RingLaws T} {FL : FieldLaws T}.
  Add Ring TRingRM0 : (@ring_th T O RL).

  Lemma tinv_r (a : T) : a <> 0%T -> (a * (1 / a))%T = 1%T.
  Proof. intros H. rewrite (Rmul_comm (@ring_th T O RL)). now apply tdiv_mul. Qed.
  Lemma tdiv_as_mul (a c : T) : c <> 0%T -> (a / c)%T = (a * (1 / c))%T.
  Proof.
    intros H. transitivity ((a / c) * (c * (1 / c)))%T; [rewrite tinv_r by exact H; ring|].
    transitivity (((a / c) * c) * (1 / c))%T; [ring|]. now rewrite tdiv_mul.
  Qed.

  Lemma vnorm2_sub_sym (a c : @vec T) : vnorm2 (vsub a c) = vnorm2 (vsub c a).
  Proof.
    destruct a as [[a1 a2] a3], c as [[c1 c2] c3].
    unfold vnorm2, vdot, vsub, mkv, vx, vy, vz. simpl. ring.
  Qed.
  Lemma vdist_sym (a c : @vec T) : vdist a c = vdist c a.
  Proof. unfold vdist, vnorm. now rewrite vnorm2_sub_sym. Qed.
End FieldBits.

Section RecipModel.
  Context {T : Type} {O : Ops T} {RL : RingLaws T} {FL : FieldLaws T}.
  Add Ring TRingRM : (@ring_th T O RL).

  Variable sc : @scene T.
  Variable tm : @timing T.
  Variable b : nat.                                   (* the band under consideration *)
  Hypothesis WF : wf_scene sc.
  Hypothesis area_nz : forall i, i < s_np sc -> area sc i <> 0%T.

  Definition ps : list nat := seq 0 (s_np sc).
  Definition Gm (i j : nat) : T :=
    if vis_sym sc i j then (ff_full sc i j * attn sc b (dist sc i j))%T else 0%T.
  Definition iaP (i : nat) : T := (1 / area sc i)%T.
  Definition deltaP (i j : nat) : nat := scene_delta sc tm i j.

  Lemma in_ps i : In i ps <-> i < s_np sc.
  Proof. unfold ps. rewrite in_seq. lia. Qed.
  Lemma ps_NoDup : NoDup ps.
  Proof. apply seq_NoDup. Qed.

  Lemma dist_sym i j : dist sc i j = dist sc j i.
  Proof. unfold dist. apply vdist_sym. Qed.
  Lemma deltaP_sym i j : deltaP i j = deltaP j i.
  Proof. unfold deltaP, scene_delta. now rewrite dist_sym. Qed.
  Lemma areaP_inv i : In i ps -> (area sc i * iaP i)%T = 1%T.
  Proof. intros H. apply tinv_r, area_nz. now apply in_ps. Qed.

  Lemma vis_sym_comm i j : vis_sym sc i j = vis_sym sc j i.
  Proof.
    unfold vis_sym. destruct (Nat.ltb_spec i j), (Nat.ltb_spec j i); try lia; try reflexivity.
    assert (i = j) by lia. now subst.
  Qed.

  (** form-factor reciprocity of the baked matrix (area-ratio rule) with symmetric attenuation *)
  Lemma Gm_recip i j : In i ps -> In j ps -> (Gm i j * iaP j)%T = (Gm j i * iaP i)%T.
  Proof.
    intros Hi Hj. apply in_ps in Hi, Hj. unfold Gm. rewrite (vis_sym_comm j i), (dist_sym j i).
    destruct (vis_sym sc i j); cbv iota; [|ring].
    assert (Hai := area_nz i Hi). assert (Haj := area_nz j Hj).
    unfold ff_full, iaP.
    destruct (Nat.ltb_spec i j), (Nat.ltb_spec j i); try lia.
    - rewrite (tdiv_as_mul (get2 (s_F sc) i j * area sc i)%T (area sc j)) by exact Haj.
      transitivity (get2 (s_F sc) i j * attn sc b (dist sc i j) * (1 / area sc j) * (area sc i * (1 / area sc i)))%T;
        [rewrite tinv_r by exact Hai; ring|ring].
    - rewrite (tdiv_as_mul (get2 (s_F sc) j i * area sc j)%T (area sc i)) by exact Hai.
      transitivity (get2 (s_F sc) j i * attn sc b (dist sc i j) * (1 / area sc i) * (area sc j * (1 / area sc j)))%T;
        [ring|rewrite tinv_r by exact Haj; ring].
    - assert (i = j) by lia. subst. reflexivity.
  Qed.

  Hypothesis Hnd : s_nd sc = 1.                       (* diffuse walls: one outgoing slot *)
  Variable rho : nat -> T.                            (* reflectance of wall w in band b *)
  Hypothesis Hdiff : forall w a d, beta sc w a d b = rho w.
  Hypothesis Hb : b < s_nb sc.
  Definition rhoP (j : nat) : T := rho (wall sc j).

  (** a point of the room in both roles *)
  Record point_data := mkPoint {
    p_pos : @vec T; p_vis : list bool; p_src_share : list T; p_recv_share : list T }.
  Definition as_source (p : point_data) : @source T := mkSource (p_pos p) (p_vis p) (p_src_share p) None.
  Definition as_receiver (p : point_data) : @receiver T := mkReceiver (p_pos p) (p_vis p) (p_recv_share p).

  (** source family of a point: unreflected energy and source->patch bin per patch *)
  Definition sP (p : point_data) (i : nat) : T := energy0 sc (as_source p) i b.
  Definition fP (p : point_data) (i : nat) : nat := scene_delta0 sc tm (as_source p) i.
  Definition gP (p : point_data) (i : nat) : nat := r_delay sc tm (as_receiver p) i.

  Notation P := (directed (vis_pairs sc)).
  Notation EE p := (E P (scene_delta sc tm) (tilde_entry sc) (out_index sc)
                      (scene_delta0 sc tm (as_source p)) (e0dir_entry sc (as_source p))).

  Lemma slot_zero i j : In (i, j) P -> out_index sc i j = 0.
  Proof.
    intros H. destruct (directed_pairs_ok sc i j WF H) as (Hi & _ & _).
    pose proof (out_index_lt sc i j WF Hi). lia.
  Qed.

  Lemma tilde_as_G i j : tilde_entry sc i j 0 b = (Gm i j * rhoP j)%T.
  Proof. unfold tilde_entry, Gm, rhoP. rewrite Hdiff. destruct (vis_sym sc i j); ring. Qed.

  (** the L0 recursion of the model is the matrix recursion *)
  Lemma E_is_X (p : point_data) k : forall j t, j < s_np sc ->
    EE p k j 0 b t = X ps Gm rhoP deltaP (sP p) (fP p) k j t.
  Proof.
    induction k as [|k IH]; intros j t Hj.
    - simpl. unfold E0, X, src_fam. simpl. unfold fP, sP, e0dir_entry, rhoP. simpl. now rewrite Hdiff.
    - change (X ps Gm rhoP deltaP (sP p) (fP p) (S k) j t)
        with (stepM ps Gm rhoP deltaP (X ps Gm rhoP deltaP (sP p) (fP p) k) j t).
      simpl E.
      set (g := fun m => shiftf (scene_delta sc tm m j)
                   (fun u => (tilde_entry sc m j 0 b * EE p k m 0 b u)%T) t).
      rewrite (sumf_ext (into P j) _ (fun q => g (fst q))).
      2:{ intros [i j'] Hq. apply in_into in Hq. destruct Hq as [HqP Hq2]. simpl in Hq2. subst j'.
          simpl fst. unfold g. now rewrite (slot_zero i j HqP). }
      rewrite (sum_into_matrix P ps j g (directed_NoDup sc WF) ps_NoDup).
      2:{ intros [i j'] Hq. apply in_ps. simpl. now destruct (directed_pairs_ok sc i j' WF Hq). }
      unfold stepM. apply sumf_ext. intros m Hm. apply in_ps in Hm.
      rewrite (pmem_directed sc WF m j Hm Hj). unfold g, deltaP.
      destruct (vis_sym sc m j) eqn:Hv; simpl.
      + destruct (Nat.eqb_spec m j) as [->|Hne]; simpl.
        * now rewrite (vis_sym_diag sc WF j) in Hv.
        * apply shiftf_ext_all. intros u. rewrite tilde_as_G. f_equal. now apply IH.
      + unfold shiftf. destruct (t <? scene_delta sc tm m j); [reflexivity|].
        unfold Gm. rewrite Hv. ring.
  Qed.

  (** ** receiver side *)
  Variables pA pB : point_data.
  Variable K : nat.
  Let N := n_samples tm.

  (** the two roles of a point are linked: receiver factor = 4 x source share / area, the
      same visibility, and the receiver-leg bin (ceiling) is one more than the source-leg bin
      (truncation) -- no leg length is an exact multiple of c*dt *)
  Definition linked (p : point_data) : Prop :=
    forall i, i < s_np sc ->
      nthT (p_recv_share p) i = ((four * nthT (p_src_share p) i) * iaP i)%T /\
      gP p i = S (fP p i).
  (** the delayed patch energy fits into the histogram (otherwise np.roll wraps: finding) *)
  Definition fits (src rcv : point_data) : Prop :=
    forall k, k < s_np sc -> gP rcv k < N /\
      forall u, N - gP rcv k <= u -> u < N -> get4 (patch_hist sc tm (as_source src) K) k 0 b u = 0%T.

  Lemma r_dist_src (p : point_data) k : nthb (p_vis p) k = true ->
    r_dist sc (as_receiver p) k = src_dist sc (as_source p) k.
  Proof. intros Hv. unfold r_dist, src_dist. simpl. rewrite Hv. apply vdist_sym. Qed.

  (** receiver weight of a point = four x its source weight / area *)
  Lemma recv_weight (p : point_data) k : linked p -> k < s_np sc ->
    (r_factor (as_receiver p) k * attn sc b (r_dist sc (as_receiver p) k))%T =
    (four * (sP p k * iaP k))%T.
  Proof.
    intros HL Hk. destruct (HL k Hk) as [Hsh _]. unfold r_factor, sP, energy0. simpl.
    destruct (nthb (p_vis p) k) eqn:Hv; [|ring].
    rewrite (r_dist_src p k Hv). unfold src_dist. simpl. rewrite Hv, Hsh. ring.
  Qed.

  Lemma mono_as_response (src rcv : point_data) t : linked rcv -> fits src rcv -> t < N ->
    get2 (mono sc tm (patch_hist sc tm (as_source src) K) (as_source src) (as_receiver rcv) false None) b t =
    (four * response_upto ps Gm rhoP iaP deltaP (sP src) (fP src) (sP rcv) (gP rcv) K t)%T.
  Proof.
    intros HL HF Ht. unfold mono. rewrite mono_is_sum by assumption.
    unfold response_upto, response. fold ps.
    transitivity (sumf ps (fun k => (four * sumf (seq 0 (S K)) (fun kk =>
      ((sP rcv k * iaP k) * shiftf (gP rcv k) (X ps Gm rhoP deltaP (sP src) (fP src) kk k) t)))%T)).
    2:{ rewrite sumf_scale. f_equal. apply sumf_swap. }
    apply sumf_ext. intros k Hk. apply in_ps in Hk.
    destruct (HF k Hk) as [Hg Hz].
    assert (Hslot : r_out_index sc (as_receiver rcv) k = 0).
    { destruct WF as (_ & Hlen & _). unfold r_out_index, nearest.
      assert (Hl : length (out_dirs sc (wall sc k)) = 1) by (rewrite (Hlen k Hk); exact Hnd).
      destruct (out_dirs sc (wall sc k)) as [|d0 [|d1 r]]; simpl in Hl; try discriminate. reflexivity. }
    rewrite (patchwise_fits sc tm _ (as_receiver rcv) k b t Hk Hb Ht Hg).
    2:{ intros u H1 H2. rewrite Hslot. now apply Hz. }
    fold (gP rcv k). unfold r_term. rewrite Hslot.
    rewrite <- sumf_scale. unfold shiftf.
    destruct (Nat.ltb_spec t (gP rcv k)) as [Hlt|Hge].
    - symmetry. apply sumf_zero_ext. intros kk _. ring.
    - rewrite (patch_hist_refines sc tm (as_source src) K k 0 b (t - gP rcv k)) by (try assumption; lia).
      unfold ExchangeSpec.Tot.
      transitivity ((sumf (seq 0 (S K)) (fun kk => EE src kk k 0 b (t - gP rcv k))) *
                    (r_factor (as_receiver rcv) k * attn sc b (r_dist sc (as_receiver rcv) k)))%T; [ring|].
      rewrite (recv_weight rcv k HL Hk). rewrite <- sumf_scale_r.
      apply sumf_ext. intros kk _. rewrite E_is_X by exact Hk. ring.
  Qed.

  (** ** C09 on the model *)
  Theorem mono_reciprocal t :
    linked pA -> linked pB -> fits pA pB -> fits pB pA -> t < N ->
    get2 (mono sc tm (patch_hist sc tm (as_source pA) K) (as_source pA) (as_receiver pB) false None) b t =
    get2 (mono sc tm (patch_hist sc tm (as_source pB) K) (as_source pB) (as_receiver pA) false None) b t.
  Proof.
    intros HLA HLB HFAB HFBA Ht.
    rewrite (mono_as_response pA pB t HLB HFAB Ht), (mono_as_response pB pA t HLA HFBA Ht).
    f_equal.
    apply (reciprocity_upto ps ps_NoDup Gm rhoP (area sc) iaP deltaP areaP_inv deltaP_sym Gm_recip).
    - intros i Hi. apply in_ps in Hi. now destruct (HLA i Hi).
    - intros j Hj. apply in_ps in Hj. now destruct (HLB j Hj).
  Qed.
End RecipModel.
