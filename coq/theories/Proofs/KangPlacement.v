(** * Generic placement maps of a Kang scene, and the cyclic axis permutation.

    A placement map moves patch centres / wall centres / source / receiver by [fp], patch sizes
    by [fsz] and normals by [fn].  If it preserves distances, the two scalar formulas and the
    receiver cosine (on the indices that exist), the whole model is unchanged.  Instantiated with
    the cyclic permutation x -> y -> z -> x for scenes whose walls are axis-aligned. *)
From Coq Require Import List Arith Bool Ring Lia.
Import ListNotations.
From SV Require Import Base.Ops Base.Arr Base.Sums Model.Vec3 Model.Exchange Model.Kang
  Proofs.KangInvariance.

Section KangPlacement.
  Context {T : Type} {O : Ops T}.
  Variables fp fsz fn : @vec T -> @vec T.

  Definition pm_wall (w : @kwall T) : @kwall T :=
    mkKwall (map fp (kw_centers w)) (map fsz (kw_sizes w)) (fn (kw_normal w))
            (fp (kw_wcenter w)) (kw_maxsize w) (kw_others w) (kw_scat w) (kw_alpha w) (kw_att w).
  Definition pm_scene (sc : @kscene T) : @kscene T :=
    mkKscene (map pm_wall (ks_walls sc)) (ks_nb sc) (ks_c sc) (ks_fs sc) (ks_len sc)
             (fp (ks_src sc)) (ks_power sc).

  Variable sc : @kscene T.
  Notation sc' := (pm_scene sc).

  Lemma knw_pm : knw sc' = knw sc.
  Proof. unfold knw. simpl. apply map_length. Qed.
  Lemma kwl_pm w : w < knw sc -> kwl sc' w = pm_wall (kwl sc w).
  Proof.
    unfold kwl, knw. simpl. intros H.
    rewrite nth_indep with (d' := pm_wall kwall_nil) by now rewrite map_length.
    apply map_nth.
  Qed.
  Lemma kwl_pm_out w : knw sc <= w -> kwl sc' w = kwall_nil /\ kwl sc w = kwall_nil.
  Proof.
    unfold kwl, knw. simpl. intros H. split; apply nth_overflow; [rewrite map_length|]; exact H.
  Qed.

  Ltac field_pm w :=
    let H := fresh "H" in
    destruct (Nat.lt_ge_cases w (knw sc)) as [H|H];
    [rewrite (kwl_pm w H); reflexivity
    |destruct (kwl_pm_out w H) as [-> ->]; reflexivity].

  Lemma knpat_pm w : knpat sc' w = knpat sc w.
  Proof.
    unfold knpat. destruct (Nat.lt_ge_cases w (knw sc)) as [H|H].
    - rewrite (kwl_pm w H). simpl. apply map_length.
    - destruct (kwl_pm_out w H) as [-> ->]. reflexivity.
  Qed.
  Lemma kothers_pm w : kothers sc' w = kothers sc w.
  Proof. unfold kothers. field_pm w. Qed.
  Lemma kscat_pm w b : kscat sc' w b = kscat sc w b.
  Proof. unfold kscat. field_pm w. Qed.
  Lemma kalpha_pm w b : kalpha sc' w b = kalpha sc w b.
  Proof. unfold kalpha. field_pm w. Qed.
  Lemma katt_pm w b : katt sc' w b = katt sc w b.
  Proof. unfold katt. field_pm w. Qed.

  Lemma knpat_in_range_pm w r : r < knpat sc w -> w < knw sc.
  Proof.
    intros Hr. destruct (Nat.lt_ge_cases w (knw sc)) as [H|H]; [exact H|].
    unfold knpat in Hr. rewrite (proj2 (kwl_pm_out w H)) in Hr. simpl in Hr. lia.
  Qed.
  Lemma knormal_pm w : w < knw sc -> kw_normal (kwl sc' w) = fn (kw_normal (kwl sc w)).
  Proof. intros H. rewrite (kwl_pm w H). reflexivity. Qed.
  Lemma kmaxsize_pm w : kw_maxsize (kwl sc' w) = kw_maxsize (kwl sc w).
  Proof. field_pm w. Qed.
  Lemma kwcenter_pm w : w < knw sc -> kw_wcenter (kwl sc' w) = fp (kw_wcenter (kwl sc w)).
  Proof. intros H. rewrite (kwl_pm w H). reflexivity. Qed.
  Lemma kpc_pm w r : r < knpat sc w -> kpc sc' w r = fp (kpc sc w r).
  Proof.
    intros Hr. pose proof (knpat_in_range_pm w r Hr) as Hw. unfold kpc. rewrite (kwl_pm w Hw). simpl.
    unfold nthv. rewrite nth_indep with (d' := fp vzero) by (rewrite map_length; exact Hr).
    apply (map_nth fp).
  Qed.
  Lemma kpsize_pm w r : fsz vzero = vzero -> w < knw sc -> kpsize sc' w r = fsz (kpsize sc w r).
  Proof.
    intros H0 Hw. unfold kpsize. rewrite (kwl_pm w Hw). simpl. unfold nthv.
    rewrite <- H0 at 1. apply (map_nth fsz).
  Qed.

  (** what the map has to preserve *)
  Hypothesis Hdist : forall a b, vnorm (vsub (fp a) (fp b)) = vnorm (vsub a b).
  Hypothesis Hdist2 : forall a b, vdist2 (fp a) (fp b) = vdist2 a b.
  Hypothesis Hff : forall w s o r, In o (kothers sc w) -> s < knpat sc w -> r < knpat sc o ->
    kff_entry sc' w s o r = kff_entry sc w s o r.
  Hypothesis He0 : forall w r, r < knpat sc w -> ke0_pair sc' w r = ke0_pair sc w r.
  Hypothesis Hcos : forall recv w s, s < knpat sc w ->
    vdot (kw_normal (kwl sc' w)) (kvabs (vsub (fp recv) (fp (kpc sc w s)))) =
    vdot (kw_normal (kwl sc w)) (kvabs (vsub recv (kpc sc w s))).

  Lemma kpdist_pm w' s w r : s < knpat sc w' -> r < knpat sc w -> kpdist sc' w' s w r = kpdist sc w' s w r.
  Proof. intros Hs Hr. unfold kpdist. rewrite !kpc_pm by assumption. apply Hdist. Qed.
  Lemma ksrc_dist_pm w r : r < knpat sc w -> ksrc_dist sc' w r = ksrc_dist sc w r.
  Proof.
    intros Hr. unfold ksrc_dist. rewrite kpc_pm by exact Hr.
    change (ks_src sc') with (fp (ks_src sc)). apply Hdist.
  Qed.
  Lemma ke0_pm w r b : r < knpat sc w -> ke0 sc' w r b = ke0 sc w r b.
  Proof.
    intros Hr. unfold ke0. cbv zeta.
    rewrite (He0 w r Hr), (ksrc_dist_pm w r Hr), kalpha_pm, katt_pm. reflexivity.
  Qed.
  Lemma kinit_pm N : kinit sc' N = kinit sc N.
  Proof.
    unfold kinit, kinit_with. rewrite knw_pm. change (ks_nb sc') with (ks_nb sc).
    apply tab_ext. intros w Hw. apply tab_ext. intros b Hb. rewrite knpat_pm.
    apply tab_ext. intros r Hr. apply tab_ext. intros t Ht.
    unfold kdelay0. rewrite (ksrc_dist_pm w r Hr), (ke0_pm w r b Hr). reflexivity.
  Qed.
  Lemma kff_offset_pm oth w : forall acc, kff_offset sc' oth w acc = kff_offset sc oth w acc.
  Proof.
    induction oth as [|o rest IH]; intros acc; simpl; [reflexivity|].
    rewrite knpat_pm. destruct (o =? w); [reflexivity|apply IH].
  Qed.
  Lemma kff_row_pm (G G' : nat -> nat -> T) oth :
    (forall o r, In o oth -> r < knpat sc o -> G' o r = G o r) -> kff_row sc' G' oth = kff_row sc G oth.
  Proof.
    intros H. unfold kff_row. induction oth as [|o rest IH]; simpl; [reflexivity|].
    f_equal.
    - rewrite knpat_pm. apply tab_ext. intros r Hr. apply H; [now left|exact Hr].
    - apply IH. intros o' r Hin Hr. apply H; [now right|exact Hr].
  Qed.
  Lemma kang_ffs_pm : kang_ffs sc' = kang_ffs sc.
  Proof.
    unfold kang_ffs. rewrite knw_pm. apply tab_ext. intros w Hw.
    unfold kff_matrix. rewrite knpat_pm, kothers_pm. apply tab_ext. intros s Hs.
    apply kff_row_pm. intros o r Hin Hr. now apply Hff.
  Qed.
  Lemma kget_ff_pm ffs w' s w r : kget_ff sc' ffs w' s w r = kget_ff sc ffs w' s w r.
  Proof. unfold kget_ff. now rewrite kothers_pm, kff_offset_pm. Qed.
  Lemma kterm_pm N ffs cur w b r w' s : s < knpat sc w' -> r < knpat sc w ->
    kterm sc' N ffs cur w b r w' s = kterm sc N ffs cur w b r w' s.
  Proof.
    intros Hs Hr. unfold kterm. cbv zeta.
    rewrite (kpdist_pm w' s w r Hs Hr), kget_ff_pm, katt_pm, kscat_pm, kalpha_pm. reflexivity.
  Qed.
  Lemma kstep_pm N ffs cur : kstep sc' N ffs cur = kstep sc N ffs cur.
  Proof.
    unfold kstep. rewrite knw_pm. change (ks_nb sc') with (ks_nb sc).
    apply tab_ext. intros w Hw. apply tab_ext. intros b Hb. rewrite knpat_pm.
    apply tab_ext. intros r Hr. unfold kstep_hist. rewrite kothers_pm.
    apply fold_left_ext_in. intros acc w' _. rewrite knpat_pm.
    apply fold_left_ext_in. intros acc2 s Hs. apply in_seq in Hs.
    rewrite kterm_pm by (try assumption; lia). reflexivity.
  Qed.
  Lemma korders_from_pm N ffs K : forall cur, korders_from sc' N ffs cur K = korders_from sc N ffs cur K.
  Proof.
    induction K as [|K IH]; intros cur; simpl; [reflexivity|]. rewrite kstep_pm. f_equal. apply IH.
  Qed.
  Lemma kang_run_pm K : kang_run sc' K = kang_run sc K.
  Proof.
    unfold kang_run. rewrite kang_ffs_pm, kinit_pm. change (kN sc') with (kN sc). apply korders_from_pm.
  Qed.

  Lemma krcv_R_pm recv w s : s < knpat sc w -> krcv_R sc' (fp recv) w s = krcv_R sc recv w s.
  Proof. intros Hs. unfold krcv_R. rewrite (kpc_pm w s Hs). apply Hdist. Qed.
  Lemma krcv_delay_pm recv w s : s < knpat sc w -> krcv_delay sc' (fp recv) w s = krcv_delay sc recv w s.
  Proof. intros Hs. unfold krcv_delay. rewrite (krcv_R_pm recv w s Hs). reflexivity. Qed.
  Lemma krcv_cos_pm recv w s : s < knpat sc w -> krcv_cos sc' (fp recv) w s = krcv_cos sc recv w s.
  Proof.
    intros Hs. unfold krcv_cos. rewrite (krcv_R_pm recv w s Hs), (kpc_pm w s Hs).
    now rewrite (Hcos recv w s Hs).
  Qed.
  Lemma krcv_factor_pm recv w s b : s < knpat sc w ->
    krcv_factor sc' (fp recv) w s b = krcv_factor sc recv w s b.
  Proof.
    intros Hs. unfold krcv_factor. cbv zeta.
    now rewrite (krcv_R_pm recv w s Hs), (krcv_cos_pm recv w s Hs), katt_pm.
  Qed.
  Lemma kwall_resp_pm N E K recv w b :
    kwall_resp sc' N E K (fp recv) w b = kwall_resp sc N E K recv w b.
  Proof.
    unfold kwall_resp. rewrite knpat_pm.
    apply fold_left_ext_in. intros acc s Hs. apply in_seq in Hs.
    apply fold_left_ext_in. intros acc2 k _.
    rewrite krcv_factor_pm, krcv_delay_pm by lia. reflexivity.
  Qed.
  Lemma kresp_patches_pm N E K recv b :
    kresp_patches sc' N E K (fp recv) b = kresp_patches sc N E K recv b.
  Proof.
    unfold kresp_patches. rewrite knw_pm. apply fold_left_ext_in. intros acc w _.
    now rewrite kwall_resp_pm.
  Qed.
  Lemma kdirect_r_pm recv : kdirect_r sc' (fp recv) = kdirect_r sc recv.
  Proof. unfold kdirect_r. change (ks_src sc') with (fp (ks_src sc)). now rewrite Hdist2. Qed.
  Lemma kdirect_val_pm recv b : kdirect_val sc' (fp recv) b = kdirect_val sc recv b.
  Proof. unfold kdirect_val. cbv zeta. now rewrite kdirect_r_pm, katt_pm. Qed.
  Lemma kdirect_bin_pm recv : kdirect_bin sc' (fp recv) = kdirect_bin sc recv.
  Proof. unfold kdirect_bin. rewrite kdirect_r_pm. reflexivity. Qed.
  Lemma kresp_pm N E K recv ign b : kresp sc' N E K (fp recv) ign b = kresp sc N E K recv ign b.
  Proof. unfold kresp. cbv zeta. now rewrite kresp_patches_pm, kdirect_bin_pm, kdirect_val_pm. Qed.
  Lemma kang_resp_pm E K recv ign : kang_resp sc' E K (fp recv) ign = kang_resp sc E K recv ign.
  Proof.
    unfold kang_resp. change (ks_nb sc') with (ks_nb sc). change (kN sc') with (kN sc).
    apply tab_ext. intros b _. apply kresp_pm.
  Qed.

  Theorem kang_placement :
    kang_ffs sc' = kang_ffs sc /\
    (forall N, kinit sc' N = kinit sc N) /\
    (forall K, kang_run sc' K = kang_run sc K) /\
    (forall E K recv ign, kang_resp sc' E K (fp recv) ign = kang_resp sc E K recv ign).
  Proof.
    split; [exact kang_ffs_pm|]. split; [exact kinit_pm|]. split; [exact kang_run_pm|exact kang_resp_pm].
  Qed.
End KangPlacement.

(** ** the cyclic permutation x -> y -> z -> x on axis-aligned scenes *)
Section KangCyclic.
  Context {T : Type} {O : Ops T} {RL : RingLaws T}.
  Add Ring TRingKC : (@ring_th T O RL).

  Definition cyc_scene (sc : @kscene T) : @kscene T := pm_scene vcyc vcyc vcyc sc.

  (** exactly the component [a] passes the test [p] *)
  Definition single (p : nat -> bool) (a : nat) : Prop := a < 3 /\ forall i, i < 3 -> p i = (i =? a).

  Lemma kaxis_of_single n a : single (fun i => kgt_abs (kcomp n i) keps5) a ->
    kaxis_of n = a /\ kaxis_of (vcyc n) = (a + 1) mod 3.
  Proof.
    intros [Ha H]. pose proof (H 0 ltac:(lia)) as H0. pose proof (H 1 ltac:(lia)) as H1.
    pose proof (H 2 ltac:(lia)) as H2. simpl in H0, H1, H2.
    unfold kaxis_of. change (vx (vcyc n)) with (vz n). change (vy (vcyc n)) with (vx n).
    change (vz (vcyc n)) with (vy n). rewrite H0, H1, H2.
    destruct a as [|[|[|a]]]; simpl; try lia; split; reflexivity.
  Qed.
  Lemma kaxis99_single n a : single (fun i => kgt_abs (kcomp n i) kc099) a ->
    kaxis99 n = a /\ kaxis99 (vcyc n) = (a + 1) mod 3.
  Proof.
    intros [Ha H]. pose proof (H 0 ltac:(lia)) as H0. pose proof (H 1 ltac:(lia)) as H1.
    pose proof (H 2 ltac:(lia)) as H2. simpl in H0, H1, H2.
    unfold kaxis99. change (vx (vcyc n)) with (vz n). change (vy (vcyc n)) with (vx n).
    change (vz (vcyc n)) with (vy n). rewrite H0, H1, H2.
    destruct a as [|[|[|a]]]; simpl; try lia; split; reflexivity.
  Qed.

  Lemma vdot_cyc (a b : @vec T) : vdot (vcyc a) (vcyc b) = vdot a b.
  Proof. unfold vdot, vcyc, mkv, vx, vy, vz. simpl. ring. Qed.
  Lemma vdist2_cyc (a b : @vec T) : vdist2 (vcyc a) (vcyc b) = vdist2 a b.
  Proof. unfold vdist2, vsub, vcyc, mkv, vx, vy, vz. simpl. ring. Qed.
  Lemma kff_par_swap (a b c dd : T) : kff_par a b c dd = kff_par b a c dd.
  Proof.
    unfold kff_par. cbv zeta.
    replace (ksq a + ksq b + ksq c)%T with (ksq b + ksq a + ksq c)%T by ring. reflexivity.
  Qed.

  Variable sc : @kscene T.

  Definition cyc_ok : Prop :=
    (forall w, w < knw sc -> exists a, single (fun i => kgt_abs (kcomp (kw_normal (kwl sc w)) i) keps5) a) /\
    (forall w, w < knw sc -> exists a, single (fun i => kgt_abs (kcomp (kw_normal (kwl sc w)) i) kc099) a) /\
    (forall w o, w < knw sc -> o < knw sc -> In o (kothers sc w) ->
       teqb (vdot (kw_normal (kwl sc o)) (kw_normal (kwl sc w))) 0%T = true ->
       kaxis_of (kw_normal (kwl sc w)) <> kaxis_of (kw_normal (kwl sc o))) /\
    (forall w o, w < knw sc -> o < knw sc -> In o (kothers sc w) ->
       teqb (vdot (kw_normal (kwl sc o)) (kw_normal (kwl sc w))) 0%T = false ->
       exists a, single (fun i => tltb keps5
         (kcomp (kvabs (vsub (kw_wcenter (kwl sc o)) (kw_wcenter (kwl sc w)))) i)) a).

  Hypothesis OK : cyc_ok.

  Lemma ke0_pair_cyc w r : r < knpat sc w -> ke0_pair (cyc_scene sc) w r = ke0_pair sc w r.
  Proof.
    intros Hr. pose proof (knpat_in_range_pm vcyc vcyc vcyc sc w r Hr) as Hw.
    destruct OK as (_ & H99 & _). destruct (H99 w Hw) as [a Ha].
    destruct (kaxis99_single _ a Ha) as [E1 E2]. destruct Ha as [Ha _].
    unfold ke0_pair, cyc_scene. cbv zeta.
    rewrite (knormal_pm vcyc vcyc vcyc sc w Hw), (kpc_pm vcyc vcyc vcyc sc w r Hr),
            (kpsize_pm vcyc vcyc vcyc sc w r eq_refl Hw).
    change (ks_src (pm_scene vcyc vcyc vcyc sc)) with (vcyc (ks_src sc)).
    rewrite E1, E2.
    destruct a as [|[|[|a]]]; [reflexivity|reflexivity|reflexivity|lia].
  Qed.

  Lemma kff_entry_cyc w s o r : In o (kothers sc w) -> s < knpat sc w -> r < knpat sc o ->
    kff_entry (cyc_scene sc) w s o r = kff_entry sc w s o r.
  Proof.
    intros Hin Hs Hr. pose proof (knpat_in_range_pm vcyc vcyc vcyc sc w s Hs) as Hw.
    pose proof (knpat_in_range_pm vcyc vcyc vcyc sc o r Hr) as Ho.
    destruct OK as (H5 & _ & Hne & Hpar).
    unfold kff_entry, cyc_scene. cbv zeta.
    rewrite (knormal_pm vcyc vcyc vcyc sc w Hw), (knormal_pm vcyc vcyc vcyc sc o Ho),
            (kmaxsize_pm vcyc vcyc vcyc sc w), (kpc_pm vcyc vcyc vcyc sc w s Hs),
            (kpc_pm vcyc vcyc vcyc sc o r Hr), (kwcenter_pm vcyc vcyc vcyc sc w Hw),
            (kwcenter_pm vcyc vcyc vcyc sc o Ho).
    rewrite vdot_cyc.
    destruct (teqb (vdot (kw_normal (kwl sc o)) (kw_normal (kwl sc w))) 0%T) eqn:E.
    - destruct (H5 w Hw) as [a Ha]. destruct (H5 o Ho) as [c Hc].
      destruct (kaxis_of_single _ a Ha) as [A1 A2]. destruct (kaxis_of_single _ c Hc) as [C1 C2].
      pose proof (Hne w o Hw Ho Hin E) as Hd. rewrite A1, C1 in Hd.
      destruct Ha as [Ha _], Hc as [Hc _]. rewrite A1, A2, C1, C2.
      destruct a as [|[|[|a]]]; destruct c as [|[|[|c]]]; try lia; try congruence; reflexivity.
    - destruct (Hpar w o Hw Ho Hin E) as [a [Ha H]].
      set (df := kvabs (vsub (kw_wcenter (kwl sc o)) (kw_wcenter (kwl sc w)))) in *.
      pose proof (H 0 ltac:(lia)) as H0. pose proof (H 1 ltac:(lia)) as H1.
      pose proof (H 2 ltac:(lia)) as H2.
      change (kcomp df 0) with (vx df) in H0. change (kcomp df 1) with (vy df) in H1.
      change (kcomp df 2) with (vz df) in H2.
      change (vx (kvabs (vsub (vcyc (kw_wcenter (kwl sc o))) (vcyc (kw_wcenter (kwl sc w)))))) with (vz df).
      change (vy (kvabs (vsub (vcyc (kw_wcenter (kwl sc o))) (vcyc (kw_wcenter (kwl sc w)))))) with (vx df).
      change (vz (kvabs (vsub (vcyc (kw_wcenter (kwl sc o))) (vcyc (kw_wcenter (kwl sc w)))))) with (vy df).
      rewrite H0, H1, H2.
      destruct a as [|[|[|a]]]; simpl; try lia.
      + apply kff_par_swap.
      + reflexivity.
      + apply kff_par_swap.
  Qed.

  Lemma krcv_cos_cyc recv w s : s < knpat sc w ->
    vdot (kw_normal (kwl (cyc_scene sc) w)) (kvabs (vsub (vcyc recv) (vcyc (kpc sc w s)))) =
    vdot (kw_normal (kwl sc w)) (kvabs (vsub recv (kpc sc w s))).
  Proof.
    intros Hs. pose proof (knpat_in_range_pm vcyc vcyc vcyc sc w s Hs) as Hw.
    unfold cyc_scene. rewrite (knormal_pm vcyc vcyc vcyc sc w Hw).
    unfold vdot, kvabs, vsub, vcyc, mkv, vx, vy, vz. simpl. ring.
  Qed.

  Theorem kang_cyclic :
    kang_ffs (cyc_scene sc) = kang_ffs sc /\
    (forall N, kinit (cyc_scene sc) N = kinit sc N) /\
    (forall K, kang_run (cyc_scene sc) K = kang_run sc K) /\
    (forall E K recv ign, kang_resp (cyc_scene sc) E K (vcyc recv) ign = kang_resp sc E K recv ign).
  Proof.
    apply (kang_placement vcyc vcyc vcyc sc).
    - intros a b. apply (proj1 (vcyc_dist a b)).
    - apply vdist2_cyc.
    - apply kff_entry_cyc.
    - apply ke0_pair_cyc.
    - apply krcv_cos_cyc.
  Qed.
End KangCyclic.
