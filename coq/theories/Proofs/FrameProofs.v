(** * Wall frames are rigid; nearest-sample lookups (C14). *)
From Coq Require Import List Arith Bool Ring Lia.
Import ListNotations.
From SV Require Import Base.Ops Base.Arr Base.Sums Model.Vec3 Model.Frame.

Section FrameRing.
  Context {T : Type} {O : Ops T} {RL : RingLaws T}.
  Add Ring TRingF : (@ring_th T O RL).

  Ltac vec3 := repeat match goal with v : vec |- _ => destruct v as [[? ?] ?] end;
               unfold vnorm2, vdist2, rot, rotT in *; unfold vdot, vcross, vadd, vsub, vscale, mkv, vx, vy, vz in *; simpl in *.

  Lemma vec_eq (a b : @vec T) : vx a = vx b -> vy a = vy b -> vz a = vz b -> a = b.
  Proof. destruct a as [[? ?] ?], b as [[? ?] ?]. unfold vx, vy, vz. simpl. intros -> -> ->. reflexivity. Qed.

  Lemma cross_dot_l (a b : @vec T) : vdot (vcross a b) a = 0%T.
  Proof. vec3. ring. Qed.
  Lemma cross_dot_r (a b : @vec T) : vdot (vcross a b) b = 0%T.
  Proof. vec3. ring. Qed.
  Lemma vdot_comm (a b : @vec T) : vdot a b = vdot b a.
  Proof. vec3. ring. Qed.
  (** Lagrange identity *)
  Lemma cross_norm2 (a b : @vec T) :
    vdot (vcross a b) (vcross a b) = (vdot a a * vdot b b - vdot a b * vdot a b)%T.
  Proof. vec3. ring. Qed.

  Lemma rot_dot_expand (n u v w : @vec T) :
    vdot (rot n u v) (rot n u w) =
    ((vx v * vx w) * vdot u u + (vy v * vy w) * vdot (vcross n u) (vcross n u) + (vz v * vz w) * vdot n n
     + (vx v * vy w + vy v * vx w) * vdot (vcross n u) u
     + (vx v * vz w + vz v * vx w) * vdot n u
     + (vy v * vz w + vz v * vy w) * vdot (vcross n u) n)%T.
  Proof. vec3. ring. Qed.

  Definition orthonormal (n u : @vec T) : Prop :=
    vdot n n = 1%T /\ vdot u u = 1%T /\ vdot n u = 0%T.

  (** the wall rotation preserves inner products, hence lengths and angles: it is rigid *)
  Theorem rot_isometry n u v w : orthonormal n u -> vdot (rot n u v) (rot n u w) = vdot v w.
  Proof.
    intros (Hn & Hu & Hnu). rewrite rot_dot_expand, cross_norm2, cross_dot_l, cross_dot_r, Hn, Hu, Hnu.
    vec3. ring.
  Qed.
  Corollary rot_unit n u v : orthonormal n u -> vnorm2 v = 1%T -> vnorm2 (rot n u v) = 1%T.
  Proof. intros H Hv. unfold vnorm2 in *. now rewrite rot_isometry. Qed.

  (** +z goes to the wall normal, +x to the wall's up vector *)
  Theorem rot_ez n u : rot n u (mkv 0 0 1)%T = n.
  Proof. apply vec_eq; vec3; ring. Qed.
  Theorem rot_ex n u : rot n u (mkv 1 0 0)%T = u.
  Proof. apply vec_eq; vec3; ring. Qed.

  (** the component along the wall normal is the reference z: directions of the upper half
      space stay in the wall's outer half space *)
  Theorem rot_normal_component n u v : orthonormal n u -> vdot (rot n u v) n = vz v.
  Proof.
    intros (Hn & Hu & Hnu).
    assert (E : vdot (rot n u v) n = (vx v * vdot n u + vy v * vdot (vcross n u) n + vz v * vdot n n)%T)
      by (vec3; ring).
    rewrite E, cross_dot_l, Hn, Hnu. ring.
  Qed.

  (** expressing a rotated vector in the wall frame gives it back *)
  Theorem rotT_rot n u v : orthonormal n u -> rotT n u (rot n u v) = v.
  Proof.
    intros (Hn & Hu & Hnu).
    assert (Hc : vdot (vcross n u) (vcross n u) = 1%T) by (rewrite cross_norm2, Hn, Hu, Hnu; ring).
    pose proof (cross_dot_l n u) as H1. pose proof (cross_dot_r n u) as H2.
    apply vec_eq.
    - assert (E : vx (rotT n u (rot n u v)) =
                  (vx v * vdot u u + vy v * vdot (vcross n u) u + vz v * vdot n u)%T) by (vec3; ring).
      rewrite E, Hu, H2, Hnu. ring.
    - assert (E : vy (rotT n u (rot n u v)) =
                  (vx v * vdot (vcross n u) u + vy v * vdot (vcross n u) (vcross n u) + vz v * vdot (vcross n u) n)%T)
        by (vec3; ring).
      rewrite E, Hc, H1, H2. ring.
    - assert (E : vz (rotT n u (rot n u v)) =
                  (vx v * vdot n u + vy v * vdot (vcross n u) n + vz v * vdot n n)%T) by (vec3; ring).
      rewrite E, Hn, H1, Hnu. ring.
  Qed.

  (** outer-product form of the Lagrange identity:
      (n x u) ((n x u) . v) = (|n|^2 |u|^2 - (n.u)^2) v - |u|^2 (n.v) n - |n|^2 (u.v) u
                              + (n.u) ((u.v) n + (n.v) u) *)
  Lemma cross_outer (n u v : @vec T) :
    vscale (vdot (vcross n u) v) (vcross n u) =
    vadd (vsub (vsub (vscale (vdot n n * vdot u u - vdot n u * vdot n u)%T v)
                     (vscale (vdot u u * vdot n v)%T n))
               (vscale (vdot n n * vdot u v)%T u))
         (vscale (vdot n u) (vadd (vscale (vdot u v) n) (vscale (vdot n v) u))).
  Proof. apply vec_eq; vec3; ring. Qed.

  (** completeness: the frame (u, n x u, n) spans the space -- every vector is recovered from its
      wall-frame coordinates; with [rotT_rot] the wall rotation is a bijection with inverse [rotT] *)
  Theorem rot_rotT n u v : orthonormal n u -> rot n u (rotT n u v) = v.
  Proof.
    intros (Hn & Hu & Hnu).
    assert (E : rot n u (rotT n u v) =
                vadd (vadd (vscale (vdot u v) u) (vscale (vdot (vcross n u) v) (vcross n u)))
                     (vscale (vdot n v) n)) by (apply vec_eq; vec3; ring).
    rewrite E, cross_outer, Hn, Hu, Hnu. apply vec_eq; vec3; ring.
  Qed.

  Lemma rot_sub n u v w : vsub (rot n u v) (rot n u w) = rot n u (vsub v w).
  Proof. apply vec_eq; vec3; ring. Qed.
  Lemma vdist2_dot (a b : @vec T) : vdist2 a b = vdot (vsub a b) (vsub a b).
  Proof. vec3. ring. Qed.

  (** squared distances between rotated directions and a rotated vector are those of the
      originals: looking up the nearest rotated sample to the true direction [rot w] is looking
      up the nearest reference sample to the direction expressed in the wall frame [w] *)
  Theorem rot_dist2 n u d w : orthonormal n u -> vdist2 (rot n u d) (rot n u w) = vdist2 d w.
  Proof. intros H. rewrite !vdist2_dot, rot_sub. now apply rot_isometry. Qed.

  Theorem nearest_frame_equiv n u (dirs : list (@vec T)) w : orthonormal n u ->
    nearest (map (rot n u) dirs) (rot n u w) = nearest dirs w.
  Proof.
    intros H. unfold nearest. rewrite map_map. f_equal. apply map_ext. intros d. now apply rot_dist2.
  Qed.

  (** for unit vectors squared distance is 2 - 2 cos(angle): nearest = smallest angle *)
  Theorem dist2_unit (a b : @vec T) : vnorm2 a = 1%T -> vnorm2 b = 1%T ->
    vdist2 a b = ((1 + 1) - (1 + 1) * vdot a b)%T.
  Proof.
    intros Ha Hb. assert (E : vdist2 a b = (vnorm2 a + vnorm2 b - (1 + 1) * vdot a b)%T) by (vec3; ring).
    rewrite E, Ha, Hb. ring.
  Qed.
End FrameRing.

Section Argmin.
  Context {T : Type} {O : Ops T} {RL : RingLaws T} {OL : OrderLaws T}.

  Lemma tltb_true a b : tltb a b = true <-> (a < b)%T.
  Proof. reflexivity. Qed.
  Lemma tltb_false a b : tltb a b = false -> (b <= a)%T.
  Proof. rewrite tltb_spec. unfold tle. destruct (tleb b a); simpl; congruence. Qed.

  Definition val (l : list T) (i : nat) : T := nth i l 0%T.
  (** [k] is the first index of a minimum of [l] *)
  Definition first_min (l : list T) (k : nat) : Prop :=
    k < length l /\ (forall i, i < length l -> (val l k <= val l i)%T) /\
    (forall i, i < k -> (val l k < val l i)%T).

  Lemma argmin_from_spec (r : list T) : forall (pre : list T) best,
    first_min pre best ->
    first_min (pre ++ r) (argmin_from tltb r (length pre) best (val pre best)).
  Proof.
    induction r as [|x r IH]; intros pre best Hfm; simpl.
    - now rewrite app_nil_r.
    - destruct Hfm as (Hb & Hmin & Hfirst).
      assert (Hpre : forall i, i < length pre -> val (pre ++ [x]) i = val pre i)
        by (intros i Hi; unfold val; now rewrite app_nth1).
      assert (Hx : val (pre ++ [x]) (length pre) = x)
        by (unfold val; rewrite app_nth2, Nat.sub_diag by lia; reflexivity).
      replace (pre ++ x :: r) with ((pre ++ [x]) ++ r) by (rewrite <- app_assoc; reflexivity).
      replace (S (length pre)) with (length (pre ++ [x])) by (rewrite app_length; simpl; lia).
      destruct (tltb x (val pre best)) eqn:E.
      + apply tltb_true in E.
        specialize (IH (pre ++ [x]) (length pre)). rewrite Hx in IH. apply IH.
        split; [rewrite app_length; simpl; lia|]. rewrite Hx. split.
        * intros i Hi. rewrite app_length in Hi. simpl in Hi.
          destruct (Nat.eq_dec i (length pre)) as [->|Hne]; [rewrite Hx; apply tle_refl|].
          rewrite Hpre by lia. apply tlt_le. eapply tlt_le_trans; [exact E|apply Hmin; lia].
        * intros i Hi. rewrite Hpre by lia. eapply tlt_le_trans; [exact E|apply Hmin; lia].
      + apply tltb_false in E.
        specialize (IH (pre ++ [x]) best). rewrite (Hpre best Hb) in IH. apply IH.
        split; [rewrite app_length; simpl; lia|]. rewrite (Hpre best Hb). split.
        * intros i Hi. rewrite app_length in Hi. simpl in Hi.
          destruct (Nat.eq_dec i (length pre)) as [->|Hne]; [now rewrite Hx|].
          rewrite Hpre by lia. apply Hmin. lia.
        * intros i Hi. rewrite Hpre by lia. now apply Hfirst.
  Qed.

  (** [np.argmin]: an index of a minimal entry, the smallest such index *)
  Theorem argmin_first_min (l : list T) : l <> [] -> first_min l (argmin tltb l).
  Proof.
    destruct l as [|x r]; [congruence|]. intros _. simpl.
    change (first_min ([x] ++ r) (argmin_from tltb r (length [x]) 0 (val [x] 0))).
    apply argmin_from_spec. split; [simpl; lia|]. split.
    - intros i Hi. simpl in Hi. assert (i = 0) as -> by lia. apply tle_refl.
    - intros i Hi. lia.
  Qed.

  (** the lookup returns a sample that is nearest (in squared distance, hence in angle for unit
      vectors) to the given direction, ties to the smallest index *)
  Theorem nearest_spec (dirs : list (@vec T)) (v : @vec T) : dirs <> [] ->
    let k := nearest dirs v in
    k < length dirs /\
    (forall i, i < length dirs -> (vdist2 (nthv dirs k) v <= vdist2 (nthv dirs i) v)%T) /\
    (forall i, i < k -> (vdist2 (nthv dirs k) v < vdist2 (nthv dirs i) v)%T).
  Proof.
    intros Hne k. unfold k, nearest.
    assert (Hne' : map (fun d => vdist2 d v) dirs <> []) by (destruct dirs; simpl; congruence).
    destruct (argmin_first_min _ Hne') as (Hk & Hmin & Hfirst).
    rewrite map_length in Hk, Hmin.
    assert (Hval : forall i, i < length dirs ->
              val (map (fun d => vdist2 d v) dirs) i = vdist2 (nthv dirs i) v).
    { intros i Hi. unfold val, nthv. rewrite nth_indep with (d' := vdist2 vzero v) by (now rewrite map_length).
      exact (map_nth (fun d => vdist2 d v) dirs vzero i). }
    split; [exact Hk|]. split.
    - intros i Hi. rewrite <- !Hval by assumption. now apply Hmin.
    - intros i Hi. rewrite <- !Hval by lia. now apply Hfirst.
  Qed.
End Argmin.
