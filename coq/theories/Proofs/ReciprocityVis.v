(** * C09 on the executable pipeline model, with hypotheses a concrete scene can meet.

    [ReciprocityModel.mono_reciprocal] asks three things of EVERY patch index and EVERY table
    index, which a scene given by lists cannot deliver unless nothing is reflected at all:

    - [forall w a d, beta sc w a d b = rho w]: a table read beyond its end returns 0, so this
      forces [rho w = 0] for every wall ([diffuse_everywhere_forces_zero] below);
    - [linked]: the one-bin offset between the receiver-leg bin and the source-leg bin is asked
      of hidden patches too, whose source-leg distance the model replaces by 0;
    - [fits]: the receiver-leg bin of hidden patches must lie inside the histogram as well.

    Here the same Green-function argument is run with the hypotheses restricted to what the
    model reads: the BRDF entries at the incoming samples that are actually selected (slot 0),
    and the role link / fitting condition for the patches the point SEES.  Hidden patches drop
    out on both sides because their source energy and their receiver factor are 0. *)
From Coq Require Import List Arith Bool Ring Lia.
Import ListNotations.
From SV Require Import Base.Ops Base.Arr Base.Sums Model.Vec3 Model.Exchange Model.Scene
  Spec.ExchangeSpec Proofs.ExchangeL0 Proofs.ExchangeRefine Proofs.SceneRefine Proofs.HistProofs
  Proofs.ReceiverProofs Proofs.PairLists Proofs.Reciprocity Proofs.ReciprocityModel.

(** the all-indices diffuse hypothesis of [mono_reciprocal] / [C09_model] only allows
    reflectance 0: read the table one row beyond its end *)
Lemma diffuse_everywhere_forces_zero {T} {O : Ops T} (sc : @scene T) (b : nat) (rho : nat -> T) :
  (forall w a d, beta sc w a d b = rho w) -> forall w, rho w = 0%T.
Proof.
  intros H w.
  rewrite <- (H w (length (nthl (s_tables sc) (nthn (s_tidx sc) w))) 0).
  unfold beta. set (L := nthl (s_tables sc) (nthn (s_tidx sc) w)).
  assert (E : nthl L (length L) = []) by (unfold nthl; apply nth_overflow; lia).
  rewrite E. unfold nthl, nthT. cbn [nth]. now destruct b.
Qed.

Section RecipVis.
  Context {T : Type} {O : Ops T} {RL : RingLaws T} {FL : FieldLaws T}.
  Add Ring TRingRV : (@ring_th T O RL).

  Variable sc : @scene T.
  Variable tm : @timing T.
  Variable b : nat.
  Hypothesis WF : wf_scene sc.
  Hypothesis area_nz : forall i, i < s_np sc -> area sc i <> 0%T.
  Hypothesis Hnd : s_nd sc = 1.
  Variable rho : nat -> T.
  Hypothesis Hb : b < s_nb sc.

  (** diffuse reflection, asked only of the table entries the model reads: the incoming sample
      selected for a visible pair, and the one selected for a visible source, outgoing slot 0 *)
  Definition diffuse_pairs : Prop :=
    forall i j, i < s_np sc -> j < s_np sc -> vis_sym sc i j = true ->
      beta sc (wall sc j) (in_index sc i j) 0 b = rho (wall sc j).
  Definition diffuse_src (p : point_data) : Prop :=
    forall i, i < s_np sc -> nthb (p_vis p) i = true ->
      beta sc (wall sc i) (src_in_index sc (as_source p) i) 0 b = rho (wall sc i).

  Hypothesis Hdp : diffuse_pairs.

  Notation P := (directed (vis_pairs sc)).
  Notation EE p := (E P (scene_delta sc tm) (tilde_entry sc) (out_index sc)
                      (scene_delta0 sc tm (as_source p)) (e0dir_entry sc (as_source p))).
  Notation XX p := (X (ps sc) (Gm sc b) (rhoP sc rho) (deltaP sc tm) (sP sc b p) (fP sc tm p)).

  Lemma tilde_as_G_vis i j : i < s_np sc -> j < s_np sc ->
    tilde_entry sc i j 0 b = (Gm sc b i j * rhoP sc rho j)%T.
  Proof.
    intros Hi Hj. unfold tilde_entry, Gm, rhoP.
    destruct (vis_sym sc i j) eqn:Hv; [rewrite (Hdp i j Hi Hj Hv)|]; ring.
  Qed.

  Lemma sP_hidden (p : point_data) i : nthb (p_vis p) i = false -> sP sc b p i = 0%T.
  Proof. intros Hv. unfold sP, energy0. cbn [src_vis as_source]. now rewrite Hv. Qed.

  Lemma e0_as_src (p : point_data) j : diffuse_src p -> j < s_np sc ->
    e0dir_entry sc (as_source p) j 0 b = (sP sc b p j * rhoP sc rho j)%T.
  Proof.
    intros Hds Hj. unfold e0dir_entry. cbn [src_dirfac as_source]. unfold rhoP.
    destruct (nthb (p_vis p) j) eqn:Hv.
    - rewrite (Hds j Hj Hv). reflexivity.
    - fold (sP sc b p j). rewrite (sP_hidden p j Hv). ring.
  Qed.

  (** the L0 recursion of the model is the matrix recursion *)
  Lemma E_is_X_vis (p : point_data) k : diffuse_src p -> forall j t, j < s_np sc ->
    EE p k j 0 b t = XX p k j t.
  Proof.
    intros Hds. induction k as [|k IH]; intros j t Hj.
    - cbn [E]. unfold E0, X. cbn [iterM]. unfold src_fam.
      change (scene_delta0 sc tm (as_source p) j) with (fP sc tm p j).
      rewrite (e0_as_src p j Hds Hj). reflexivity.
    - change (XX p (S k) j t)
        with (stepM (ps sc) (Gm sc b) (rhoP sc rho) (deltaP sc tm) (XX p k) j t).
      cbn [E].
      set (g := fun m => shiftf (scene_delta sc tm m j)
                   (fun u => (tilde_entry sc m j 0 b * EE p k m 0 b u)%T) t).
      rewrite (sumf_ext (into P j) _ (fun q => g (fst q))).
      2:{ intros [i j'] Hq. apply in_into in Hq. destruct Hq as [HqP Hq2]. cbn [snd] in Hq2. subst j'.
          cbn [fst]. unfold g. now rewrite (slot_zero sc b WF Hnd Hb i j HqP). }
      rewrite (sum_into_matrix P (ps sc) j g (directed_NoDup sc WF) (ps_NoDup sc)).
      2:{ intros [i j'] Hq. apply in_ps. cbn [fst]. now destruct (directed_pairs_ok sc i j' WF Hq). }
      unfold stepM. apply sumf_ext. intros m Hm. apply in_ps in Hm.
      rewrite (pmem_directed sc WF m j Hm Hj). unfold g, deltaP.
      destruct (vis_sym sc m j) eqn:Hv; cbn [andb negb].
      + destruct (Nat.eqb_spec m j) as [->|Hne]; cbn [andb negb].
        * now rewrite (vis_sym_diag sc WF j) in Hv.
        * apply shiftf_ext_all. intros u. rewrite (tilde_as_G_vis m j Hm Hj). f_equal. now apply IH.
      + unfold shiftf. destruct (t <? scene_delta sc tm m j); [reflexivity|].
        unfold Gm. rewrite Hv. ring.
  Qed.

  (** ** receiver side *)
  Variables pA pB : @point_data T.
  Variable K : nat.
  Let N := n_samples tm.

  (** the two roles of a point are linked on the patches it sees: receiver factor = 4 x source
      share / area, and the receiver-leg bin (ceiling) is one more than the source-leg bin
      (truncation) *)
  Definition linked_vis (p : point_data) : Prop :=
    forall i, i < s_np sc -> nthb (p_vis p) i = true ->
      nthT (p_recv_share p) i = ((four * nthT (p_src_share p) i) * iaP sc i)%T /\
      gP sc tm p i = S (fP sc tm p i).
  (** the delayed energy of every patch the receiver sees fits into the histogram *)
  Definition fits_vis (src rcv : point_data) : Prop :=
    forall k, k < s_np sc -> nthb (p_vis rcv) k = true -> gP sc tm rcv k < N /\
      forall u, N - gP sc tm rcv k <= u -> u < N ->
        get4 (patch_hist sc tm (as_source src) K) k 0 b u = 0%T.

  (** receiver-leg bins with the hidden patches moved to where the abstract theorem wants them
      (they carry weight 0) *)
  Definition gV (p : point_data) (k : nat) : nat :=
    if nthb (p_vis p) k then gP sc tm p k else S (fP sc tm p k).

  Lemma recv_weight_vis (p : point_data) k : linked_vis p -> k < s_np sc -> nthb (p_vis p) k = true ->
    (r_factor (as_receiver p) k * attn sc b (r_dist sc (as_receiver p) k))%T =
    (four * (sP sc b p k * iaP sc k))%T.
  Proof.
    intros HL Hk Hv. destruct (HL k Hk Hv) as [Hsh _]. unfold r_factor, sP, energy0.
    cbn [r_vis r_share as_receiver src_vis src_share as_source]. rewrite Hv.
    rewrite (r_dist_src sc p k Hv). unfold src_dist. cbn [src_vis as_source]. rewrite Hv, Hsh. ring.
  Qed.

  Lemma r_slot_zero (r : @receiver T) k : k < s_np sc -> r_out_index sc r k = 0.
  Proof.
    intros Hk. destruct WF as (_ & Hlen & _). unfold r_out_index, nearest.
    assert (Hl : length (out_dirs sc (wall sc k)) = 1) by (rewrite (Hlen k Hk); exact Hnd).
    destruct (out_dirs sc (wall sc k)) as [|d0 [|d1 r']]; cbn [length] in Hl; try discriminate.
    reflexivity.
  Qed.

  Lemma mono_as_response_vis (src rcv : point_data) t :
    diffuse_src src -> linked_vis rcv -> fits_vis src rcv -> t < N ->
    get2 (mono sc tm (patch_hist sc tm (as_source src) K) (as_source src) (as_receiver rcv) false None) b t =
    (four * response_upto (ps sc) (Gm sc b) (rhoP sc rho) (iaP sc) (deltaP sc tm)
              (sP sc b src) (fP sc tm src) (sP sc b rcv) (gV rcv) K t)%T.
  Proof.
    intros Hds HL HF Ht. unfold mono. rewrite mono_is_sum by assumption.
    unfold response_upto, response. fold (ps sc).
    transitivity (sumf (ps sc) (fun k => (four * sumf (seq 0 (S K)) (fun kk =>
      ((sP sc b rcv k * iaP sc k) * shiftf (gV rcv k) (XX src kk k) t)))%T)).
    2:{ rewrite sumf_scale. f_equal. apply sumf_swap. }
    apply sumf_ext. intros k Hk. apply in_ps in Hk.
    destruct (nthb (p_vis rcv) k) eqn:Hv.
    - destruct (HF k Hk Hv) as [Hg Hz].
      pose proof (r_slot_zero (as_receiver rcv) k Hk) as Hslot.
      rewrite (patchwise_fits sc tm _ (as_receiver rcv) k b t Hk Hb Ht Hg).
      2:{ intros u H1 H2. rewrite Hslot. now apply Hz. }
      unfold gV. rewrite Hv. fold (gP sc tm rcv k). unfold r_term. rewrite Hslot.
      rewrite <- sumf_scale. unfold shiftf.
      destruct (Nat.ltb_spec t (gP sc tm rcv k)) as [Hlt|Hge].
      + symmetry. apply sumf_zero_ext. intros kk _. ring.
      + rewrite (patch_hist_refines sc tm (as_source src) K k 0 b (t - gP sc tm rcv k))
          by (try assumption; lia).
        unfold ExchangeSpec.Tot.
        transitivity ((sumf (seq 0 (S K)) (fun kk => EE src kk k 0 b (t - gP sc tm rcv k))) *
                      (r_factor (as_receiver rcv) k * attn sc b (r_dist sc (as_receiver rcv) k)))%T; [ring|].
        rewrite (recv_weight_vis rcv k HL Hk Hv). rewrite <- sumf_scale_r.
        apply sumf_ext. intros kk _. rewrite (E_is_X_vis src kk Hds) by exact Hk. ring.
    - rewrite (patchwise_hidden sc tm _ (as_receiver rcv) k b t Hv).
      rewrite (sP_hidden rcv k Hv). symmetry.
      transitivity (four * 0)%T; [|ring]. f_equal.
      apply sumf_zero_ext. intros kk _. ring.
  Qed.

  (** ** C09 on the model, visible-patch hypotheses *)
  Theorem mono_reciprocal_vis t :
    diffuse_src pA -> diffuse_src pB ->
    linked_vis pA -> linked_vis pB -> fits_vis pA pB -> fits_vis pB pA -> t < N ->
    get2 (mono sc tm (patch_hist sc tm (as_source pA) K) (as_source pA) (as_receiver pB) false None) b t =
    get2 (mono sc tm (patch_hist sc tm (as_source pB) K) (as_source pB) (as_receiver pA) false None) b t.
  Proof.
    intros HdA HdB HLA HLB HFAB HFBA Ht.
    rewrite (mono_as_response_vis pA pB t HdA HLB HFAB Ht), (mono_as_response_vis pB pA t HdB HLA HFBA Ht).
    f_equal.
    apply (reciprocity_upto (ps sc) (ps_NoDup sc) (Gm sc b) (rhoP sc rho) (area sc) (iaP sc) (deltaP sc tm)
             (areaP_inv sc area_nz) (deltaP_sym sc tm) (Gm_recip sc b area_nz)).
    - intros i Hi. apply in_ps in Hi. unfold gV. destruct (nthb (p_vis pA) i) eqn:Hv; [|reflexivity].
      now destruct (HLA i Hi Hv).
    - intros j Hj. apply in_ps in Hj. unfold gV. destruct (nthb (p_vis pB) j) eqn:Hv; [|reflexivity].
      now destruct (HLB j Hj Hv).
  Qed.

  (** the hypotheses of [mono_reciprocal] imply the ones used here *)
  Lemma linked_linked_vis p : linked sc tm p -> linked_vis p.
  Proof. intros H i Hi _. exact (H i Hi). Qed.
  Lemma fits_fits_vis src rcv : fits sc tm b K src rcv -> fits_vis src rcv.
  Proof. intros H k Hk _. exact (H k Hk). Qed.
End RecipVis.
