(** * C17, layer 1: translating a ROOM DESCRIPTION (the wall polygons) by a vector [t], together
    with the source and the receiver, leaves the result of the composed model ([Model/Full.v])
    IDENTICAL -- nothing is assumed about the baked data of the translated room, they are derived:

    - the tiling of the translated walls is the translated tiling (C08), same wall ids and normals;
    - patch polygons, centroids are shifted by [t]; areas are unchanged;
    - [point_in_polygon] (rotation to the horizontal plane, ray along +x, winding count),
      [project_to_plane], [basic_visibility] and both visibility scans are translation invariant
      (proved here: every comparison the kernels make is between differences, or between two
      abscissae shifted by the same amount);
    - the form-factor matrix (Stokes AND Nusselt branch, [C05_universal_full_translation]) is the same
      matrix;
    - the source / receiver shares [pt_solution] are the same ([C04_similarity_translation]);
    hence [room_scene], [room_source], [room_receiver] of the translated room are the translated
    scene / source / receiver of [PlacementTranslate.v], and [translate_pipeline] applies.

    Laws: commutative ring, total order (shifted comparisons, min/max of the tiling), field and the
    embedding of the naturals (the centroid [sum / 4] of shifted vertices). *)
From Coq Require Import List Arith Bool Ring Lia ZArith.
Import ListNotations.
From SV Require Import Base.Ops Base.Arr Base.Sums Model.Vec3 Model.Exchange Model.Scene Model.Frame
  Model.Tiling Model.Visibility Model.Stokes Model.Nusselt Model.PtSolution Model.Full.
From SV Require Import Proofs.OrderField Proofs.TilingLists Proofs.TilingProofs Proofs.FieldFacts
  Proofs.StokesSum Proofs.NusseltProofs Proofs.PtSimilarity Proofs.SceneRefine Proofs.PlacementTranslate.

(** ** 1. the visibility kernels under translation *)
Section VisTranslate.
  Context {T : Type} {O : Ops T} {RL : RingLaws T} {OL : OrderLaws T}.
  Add Ring TRingFTr1 : (@ring_th T O RL).
  Local Notation vec := (@vec T).

  Definition sh (t p : vec) : vec := vadd p t.

  Lemma tltb_add_r (a b c : T) : tltb (a + c)%T (b + c)%T = tltb a b.
  Proof. now rewrite !tltb_spec, tleb_add_r. Qed.

  Lemma vsub_sh (t a b : vec) : vsub (sh t a) (sh t b) = vsub a b.
  Proof. apply vsub_shift. Qed.

  Lemma sh_lin (t w s0 v : vec) (fac : T) :
    vadd (vadd w (sh t s0)) (vscale fac v) = sh t (vadd (vadd w s0) (vscale fac v)).
  Proof.
    destruct t as [[t1 t2] t3], w as [[w1 w2] w3], s0 as [[s1 s2] s3], v as [[v1 v2] v3].
    unfold sh, vadd, vscale, mkv, vx, vy, vz; cbn [fst snd]. f_equal; [f_equal|]; ring.
  Qed.

  (** the intersection point with a plane moves with the scene *)
  Lemma project_to_plane_sh (chk : bool) (eps : T) (t p q s0 n : vec) :
    project_to_plane chk eps (sh t p) (sh t q) (sh t s0) n =
    option_map (sh t) (project_to_plane chk eps p q s0 n).
  Proof.
    unfold project_to_plane. rewrite !vsub_sh.
    destruct (if chk then tltb (vdot (vsub q p) n) (- eps)%T else tltb eps (tabs (vdot (vsub q p) n)));
      [|reflexivity].
    cbn [option_map]. f_equal. apply sh_lin.
  Qed.

  Lemma sh_ex (t p : vec) : vadd (sh t p) (mkv 1 0 0)%T = sh t (vadd p (mkv 1 0 0)%T).
  Proof.
    destruct t as [[t1 t2] t3], p as [[p1 p2] p3].
    unfold sh, vadd, mkv, vx, vy, vz; cbn [fst snd]. f_equal; [f_equal|]; ring.
  Qed.
  Lemma vx_sh (t p : vec) : vx (sh t p) = (vx p + vx t)%T.
  Proof. destruct t as [[t1 t2] t3], p as [[p1 p2] p3]. reflexivity. Qed.

  (** one polygon side of the winding count *)
  Lemma side_count_sh (eps eta : T) (t pt a0 a1 : vec) :
    side_count eps eta (sh t pt) (sh t a0, sh t a1) = side_count eps eta pt (a0, a1).
  Proof.
    unfold side_count. cbn [fst snd]. rewrite (vsub_sh t a1 a0), sh_ex, project_to_plane_sh.
    destruct (project_to_plane false eps pt (vadd pt (mkv 1 0 0)%T) a1
                (vdivs (mkv (- vy (vsub a1 a0)) (vx (vsub a1 a0)) 0)%T (vnorm (vsub a1 a0)))) as [b|];
      [|reflexivity].
    cbn [option_map]. rewrite !vx_sh, tltb_add_r, !vsub_sh. reflexivity.
  Qed.

  Lemma sides_map_sh (t : vec) (poly : list vec) :
    sides (map (sh t) poly) = map (fun s => (sh t (fst s), sh t (snd s))) (sides poly).
  Proof.
    destruct poly as [|h tl]; [reflexivity|].
    change (sides (map (sh t) (h :: tl)))
      with (combine (map (sh t) (h :: tl)) (map (sh t) tl ++ [sh t h])).
    change (sides (h :: tl)) with (combine (h :: tl) (tl ++ [h])).
    replace (map (sh t) tl ++ [sh t h]) with (map (sh t) (tl ++ [h])) by (rewrite map_app; reflexivity).
    apply combine_map_both.
  Qed.

  Lemma winding_sh (eps eta : T) (t pt : vec) (poly : list vec) :
    winding eps eta (sh t pt) (map (sh t) poly) = winding eps eta pt poly.
  Proof.
    unfold winding. rewrite sides_map_sh, map_map. f_equal.
    apply map_ext. intros [a0 a1]. cbn [fst snd]. apply side_count_sh.
  Qed.

  Lemma mvec_sh (r : @Visibility.mat T) (t p : vec) :
    flat (mvec r (sh t p)) = sh (flat (mvec r t)) (flat (mvec r p)).
  Proof.
    destruct r as [[r0 r1] r2], r0 as [[a1 a2] a3], r1 as [[b1 b2] b3], r2 as [[c1 c2] c3],
      t as [[t1 t2] t3], p as [[p1 p2] p3].
    unfold flat, mvec, sh, vadd, vdot, Visibility.mrow0, Visibility.mrow1, Visibility.mrow2, mkv, vx, vy, vz;
      cbn [fst snd]. f_equal; [f_equal|]; ring.
  Qed.

  (** [_point_in_polygon] *)
  Theorem point_in_polygon_sh (eps eta : T) (t p : vec) (poly : list vec) (n : vec) :
    point_in_polygon eps eta (sh t p) (map (sh t) poly) n = point_in_polygon eps eta p poly n.
  Proof.
    destruct poly as [|h tl].
    - unfold point_in_polygon. cbn [map]. unfold winding, sides. cbn [map fold_left].
      change (Z.eqb 0 0) with true. cbn [negb].
      destruct (tltb eta (tabs (vdot (vsub (sh t p) (nthv [] 0)) n)));
        destruct (tltb eta (tabs (vdot (vsub p (nthv [] 0)) n))); reflexivity.
    - unfold point_in_polygon.
      change (nthv (map (sh t) (h :: tl)) 0) with (sh t h). change (nthv (h :: tl) 0) with h.
      rewrite vsub_sh.
      destruct (tltb eta (tabs (vdot (vsub p h) n))); [reflexivity|].
      rewrite mvec_sh, map_map.
      rewrite (map_ext (fun x => flat (mvec (rotation_to_z n) (sh t x)))
                       (fun x => sh (flat (mvec (rotation_to_z n) t)) (flat (mvec (rotation_to_z n) x))))
        by (intros x; apply mvec_sh).
      rewrite <- (map_map (fun x => flat (mvec (rotation_to_z n) x)) (sh (flat (mvec (rotation_to_z n) t)))).
      now rewrite winding_sh.
  Qed.

  Definition sh_surface (t : vec) (s : @surface T) : @surface T := (map (sh t) (s_pts s), s_nrm s).

  Lemma pip_sh (eps eta : T) (t : vec) (s : @surface T) (p : vec) :
    pip eps eta (sh_surface t s) (sh t p) = pip eps eta s p.
  Proof. unfold pip, sh_surface, s_pts, s_nrm. cbn [fst snd]. apply point_in_polygon_sh. Qed.

  Lemma p0_sh (t : vec) (s : @surface T) : s_pts s <> [] -> s_p0 (sh_surface t s) = sh t (s_p0 s).
  Proof.
    destruct s as [pts n]. unfold s_p0, sh_surface, s_pts, nthv; cbn [fst snd]. intros Hne.
    destruct pts as [|p l]; [now elim Hne|reflexivity].
  Qed.

  (** [_basic_visibility] *)
  Theorem basic_visibility_sh (eps eta : T) (t p q : vec) (s : @surface T) :
    s_pts s <> [] ->
    basic_visibility eps eta (sh t p) (sh t q) (sh_surface t s) = basic_visibility eps eta p q s.
  Proof.
    intros Hne. unfold basic_visibility.
    rewrite !pip_sh, (p0_sh t s Hne).
    change (s_nrm (sh_surface t s)) with (s_nrm s).
    rewrite project_to_plane_sh, !vsub_sh.
    destruct (project_to_plane false eps p q (s_p0 s) (s_nrm s)) as [x|]; cbn [option_map].
    - rewrite pip_sh, !vsub_sh. reflexivity.
    - reflexivity.
  Qed.

  Lemma scan_while_sh (eps eta : T) (t p q : vec) (surfs : list (@surface T)) :
    (forall s, In s surfs -> s_pts s <> []) ->
    forall b, scan_while eps eta (sh t p) (sh t q) b (map (sh_surface t) surfs) =
              scan_while eps eta p q b surfs.
  Proof.
    induction surfs as [|s l IH]; intros Hne b; [reflexivity|].
    cbn [map scan_while]. destruct b; [|reflexivity].
    rewrite (basic_visibility_sh eps eta t p q s) by (apply Hne; now left).
    apply IH. intros s' Hs'. apply Hne. now right.
  Qed.

  Lemma nthv_map_sh (t : vec) (l : list vec) i : i < length l -> nthv (map (sh t) l) i = sh t (nthv l i).
  Proof.
    intros Hi. unfold nthv. rewrite nth_indep with (d' := sh t vzero) by (now rewrite map_length).
    apply map_nth.
  Qed.

  (** [_check_point2patch_visibility], [_check_patch2patch_visibility] *)
  Theorem check_point2patch_sh (eps eta : T) (t pnt : vec) (centers : list vec) (surfs : list (@surface T)) :
    (forall s, In s surfs -> s_pts s <> []) ->
    check_point2patch eps eta (sh t pnt) (map (sh t) centers) (map (sh_surface t) surfs) =
    check_point2patch eps eta pnt centers surfs.
  Proof.
    intros Hne. unfold check_point2patch. rewrite map_map. apply map_ext. intros c.
    now apply scan_while_sh.
  Qed.

  Theorem check_patch2patch_sh (eps eta : T) (t : vec) (centers : list vec) (surfs : list (@surface T)) :
    (forall s, In s surfs -> s_pts s <> []) ->
    check_patch2patch eps eta (map (sh t) centers) (map (sh_surface t) surfs) =
    check_patch2patch eps eta centers surfs.
  Proof.
    intros Hne. unfold check_patch2patch. rewrite map_length.
    apply tab_ext. intros i Hi. apply tab_ext. intros j Hj.
    rewrite !nthv_map_sh by assumption. now apply scan_while_sh.
  Qed.
End VisTranslate.

(** ** 2. list helpers *)
Section ListFacts.
  Lemma combine_map_l {A B C} (f : A -> B) (l : list A) (l2 : list C) :
    combine (map f l) l2 = map (fun ab => (f (fst ab), snd ab)) (combine l l2).
  Proof.
    revert l2. induction l as [|a l IH]; intros [|c l2]; cbn [map combine]; try reflexivity.
    now rewrite IH.
  Qed.
  Lemma nth_map_nil {A B} (f : A -> B) (l : list (list A)) i :
    nth i (map (map f) l) [] = map f (nth i l []).
  Proof. exact (map_nth (map f) l [] i). Qed.
  Lemma In_combine_map_verts {T} {O : Ops T} (qs : list (@Tiling.quad T)) (ns : list (@vec T)) (s : @surface T) :
    In s (combine (map verts qs) ns) -> s_pts s <> [].
  Proof.
    intros H. destruct s as [pts n]. apply in_combine_l in H. apply in_map_iff in H.
    destruct H as (q & <- & _). unfold s_pts. cbn [fst verts]. discriminate.
  Qed.
End ListFacts.

(** ** 3. tiling, centroids, areas of translated walls *)
Section GeoTranslate.
  Context {T : Type} {O : Ops T} {RL : RingLaws T} {OL : OrderLaws T} {FL : FieldLaws T}
          {FlL : FloorLaws T}.
  Add Ring TRingFTr2 : (@ring_th T O RL).
  Local Notation vec := (@vec T).

  Lemma verts_translate (t : vec) (q : @Tiling.quad T) : verts (translate_quad t q) = map (sh t) (verts q).
  Proof. reflexivity. Qed.

  (** [_process_patches] of the translated walls *)
  Theorem process_translate (t : vec) (walls : list (@Tiling.quad T)) (normals : list vec) (p : T) :
    process (map (translate_quad t) walls) normals p =
    mkProcessed (map (translate_quad t) (pr_points (process walls normals p)))
                (pr_normals (process walls normals p)) (pr_n (process walls normals p))
                (pr_wall_ids (process walls normals p)).
  Proof.
    unfold process. cbn [pr_points pr_normals pr_n pr_wall_ids].
    assert (E1 : map (fun q => create_patches q p) (map (translate_quad t) walls) =
                 map (map (translate_quad t)) (map (fun q => create_patches q p) walls)).
    { rewrite !map_map. apply map_ext. intros q. apply create_patches_translate. }
    assert (E2 : map (@length (@Tiling.quad T)) (map (map (translate_quad t)) (map (fun q => create_patches q p) walls)) =
                 map (@length (@Tiling.quad T)) (map (fun q => create_patches q p) walls)).
    { rewrite (map_map (map (translate_quad t))). apply map_ext. intros l. apply map_length. }
    assert (E3 : map (fun q => total_number_of_patches q p) (map (translate_quad t) walls) =
                 map (fun q => total_number_of_patches q p) walls).
    { rewrite map_map. apply map_ext. intros q.
      rewrite !total_eq_length, create_patches_translate. apply map_length. }
    rewrite E1, E2, E3, <- concat_map. reflexivity.
  Qed.

  (** centroid of shifted vertices *)
  Lemma vadd_swap (x y a : vec) : vadd (vadd x y) a = vadd (vadd x a) y.
  Proof.
    destruct x as [[x1 x2] x3], y as [[y1 y2] y3], a as [[a1 a2] a3].
    unfold vadd, mkv, vx, vy, vz; cbn [fst snd]. f_equal; [f_equal|]; ring.
  Qed.
  Lemma vadd_assoc_r (x a y : vec) : vadd x (vadd a y) = vadd (vadd x a) y.
  Proof.
    destruct x as [[x1 x2] x3], y as [[y1 y2] y3], a as [[a1 a2] a3].
    unfold vadd, mkv, vx, vy, vz; cbn [fst snd]. f_equal; [f_equal|]; ring.
  Qed.
  Lemma fold_vadd_shift (l : list vec) : forall x y : vec,
    fold_left vadd l (vadd x y) = vadd (fold_left vadd l x) y.
  Proof.
    induction l as [|a l IH]; intros x y; cbn [fold_left]; [reflexivity|].
    rewrite (vadd_swap x y a). apply IH.
  Qed.
  Lemma vsum_sh (t : vec) (l : list vec) : forall acc : vec,
    fold_left vadd (map (sh t) l) acc = vadd (fold_left vadd l acc) (vscale (tofnat (length l)) t).
  Proof.
    induction l as [|a l IH]; intros acc; cbn [map fold_left length].
    - rewrite tofnat_0. destruct acc as [[a1 a2] a3], t as [[t1 t2] t3].
      unfold vadd, vscale, mkv, vx, vy, vz; cbn [fst snd]. f_equal; [f_equal|]; ring.
    - rewrite IH. unfold sh. rewrite (vadd_assoc_r acc a t), fold_vadd_shift.
      rewrite tofnat_S.
      destruct (fold_left vadd l (vadd acc a)) as [[s1 s2] s3], t as [[t1 t2] t3].
      unfold vadd, vscale, mkv, vx, vy, vz; cbn [fst snd]. f_equal; [f_equal|]; ring.
  Qed.
  Lemma div_shift (s n x : T) : n <> 0%T -> ((s + n * x) / n)%T = (s / n + x)%T.
  Proof.
    intros Hn. apply (FieldFacts.tmul_cancel_r _ _ n Hn). rewrite tdiv_mul by exact Hn.
    replace ((s / n + x) * n)%T with ((s / n) * n + n * x)%T by ring. now rewrite tdiv_mul.
  Qed.
  Theorem centroid_sh (t : vec) (l : list vec) : l <> [] -> centroid (map (sh t) l) = sh t (centroid l).
  Proof.
    intros Hne. unfold centroid, vsum. rewrite vsum_sh, map_length.
    assert (Hn : tofnat (length l) <> 0%T).
    { apply tpos_neq, tofnat_pos. destruct l; [now elim Hne|cbn [length]; lia]. }
    destruct (fold_left vadd l vzero) as [[s1 s2] s3], t as [[t1 t2] t3].
    unfold sh, vdivs, vadd, vscale, mkv, vx, vy, vz; cbn [fst snd].
    rewrite !(div_shift _ _ _ Hn). reflexivity.
  Qed.

  Lemma poly_area_sh (t : vec) (l : list vec) : poly_area (map (sh t) l) = poly_area l.
  Proof. apply (poly_area_map (sh t)). intros a b c. apply tri_area_translate. Qed.
End GeoTranslate.

(** ** 4. the translated room *)
Section RoomTranslateDef.
  Context {T : Type} {O : Ops T}.
  (** every wall polygon shifted by [t]; normals, up vectors, patch size, BRDF data, tolerances kept *)
  Definition translate_room (t : @vec T) (rm : @room T) : @room T :=
    mkRoom (map (translate_quad t) (rm_walls rm)) (rm_normals rm) (rm_ups rm) (rm_patch_size rm)
           (rm_ref_in rm) (rm_ref_out rm) (rm_tables rm) (rm_tidx rm) (rm_att rm) (rm_nb rm)
           (rm_thr rm) (rm_eps rm) (rm_eta rm) (rm_thres rm) (rm_cut rm) (rm_thr_seg rm)
           (rm_thr_dot rm) (rm_thr_lag rm).
End RoomTranslateDef.

Section RoomTranslate.
  Context {T : Type} {O : Ops T} {RL : RingLaws T} {OL : OrderLaws T} {FL : FieldLaws T}
          {FlL : FloorLaws T}.
  Local Notation vec := (@vec T).

  Variable t : vec.
  Variable rm : @room T.
  Let rm' := translate_room t rm.

  (** tiling: same number of patches, same wall ids and normals, every patch shifted *)
  Theorem room_processed_translate :
    rm_processed rm' =
    mkProcessed (map (translate_quad t) (pr_points (rm_processed rm)))
                (pr_normals (rm_processed rm)) (pr_n (rm_processed rm)) (pr_wall_ids (rm_processed rm)).
  Proof. unfold rm_processed, rm', translate_room. cbn [rm_walls rm_normals rm_patch_size]. apply process_translate. Qed.

  Theorem room_patch_pts_translate : rm_patch_pts rm' = map (map (sh t)) (rm_patch_pts rm).
  Proof.
    unfold rm_patch_pts. rewrite room_processed_translate. cbn [pr_points].
    rewrite !map_map. apply map_ext. intros q. apply verts_translate.
  Qed.
  Lemma room_np_translate : rm_np rm' = rm_np rm.
  Proof. unfold rm_np. rewrite room_patch_pts_translate. apply map_length. Qed.
  Lemma room_patch_pts_quads (l : list vec) : In l (rm_patch_pts rm) -> exists q : @Tiling.quad T, l = verts q.
  Proof. unfold rm_patch_pts. intros H. apply in_map_iff in H. destruct H as (q & <- & _). now exists q. Qed.

  Theorem room_centers_translate : rm_centers rm' = map (sh t) (rm_centers rm).
  Proof.
    unfold rm_centers. rewrite room_patch_pts_translate, !map_map. apply map_ext_in.
    intros l Hl. destruct (room_patch_pts_quads l Hl) as (q & ->). apply centroid_sh. discriminate.
  Qed.
  Theorem room_areas_translate : rm_areas rm' = rm_areas rm.
  Proof.
    unfold rm_areas. rewrite room_patch_pts_translate, map_map. apply map_ext. intros l. apply poly_area_sh.
  Qed.
  Lemma room_wall_ids_translate : pr_wall_ids (rm_processed rm') = pr_wall_ids (rm_processed rm).
  Proof. now rewrite room_processed_translate. Qed.
  Lemma room_normals_translate : pr_normals (rm_processed rm') = pr_normals (rm_processed rm).
  Proof. now rewrite room_processed_translate. Qed.

  Lemma room_patch_surfs_translate : rm_patch_surfs rm' = map (sh_surface t) (rm_patch_surfs rm).
  Proof.
    unfold rm_patch_surfs. rewrite room_patch_pts_translate, room_normals_translate.
    rewrite combine_map_l. apply map_ext. intros [pts n]. reflexivity.
  Qed.
  Lemma room_wall_surfs_translate : rm_wall_surfs rm' = map (sh_surface t) (rm_wall_surfs rm).
  Proof.
    unfold rm_wall_surfs, rm', translate_room. cbn [rm_walls rm_normals].
    rewrite map_map.
    rewrite (map_ext (fun q => verts (translate_quad t q)) (fun q => map (sh t) (verts q)))
      by (intros q; apply verts_translate).
    rewrite <- (map_map verts (map (sh t))), combine_map_l. apply map_ext. intros [pts n]. reflexivity.
  Qed.

  (** patch-to-patch visibility: the same matrix *)
  Theorem room_visU_translate : rm_visU rm' = rm_visU rm.
  Proof.
    unfold rm_visU. rewrite room_centers_translate, room_patch_surfs_translate.
    change (rm_eps rm') with (rm_eps rm). change (rm_eta rm') with (rm_eta rm).
    apply check_patch2patch_sh. intros s Hs. unfold rm_patch_surfs, rm_patch_pts in Hs.
    exact (In_combine_map_verts _ _ s Hs).
  Qed.
  Lemma room_pairs_translate : rm_pairs rm' = rm_pairs rm.
  Proof. unfold rm_pairs. now rewrite room_visU_translate, room_np_translate. Qed.

  (** point-to-patch visibility (walls as blockers) from the shifted point *)
  Theorem room_point_vis_translate (pos : vec) : room_point_vis rm' (sh t pos) = room_point_vis rm pos.
  Proof.
    unfold room_point_vis. rewrite room_centers_translate, room_wall_surfs_translate.
    change (rm_eps rm') with (rm_eps rm). change (rm_eta rm') with (rm_eta rm).
    apply check_point2patch_sh. intros s Hs. unfold rm_wall_surfs in Hs.
    exact (In_combine_map_verts _ _ s Hs).
  Qed.

  (** the form-factor matrix, Stokes and Nusselt entries alike: the same matrix *)
  Theorem room_F_translate : rm_F rm' = rm_F rm.
  Proof.
    unfold rm_F. rewrite room_patch_pts_translate, room_normals_translate, room_areas_translate,
      room_pairs_translate.
    change (rm_thres rm') with (rm_thres rm). change (rm_cut rm') with (rm_cut rm).
    change (rm_thr_seg rm') with (rm_thr_seg rm). change (rm_thr_dot rm') with (rm_thr_dot rm).
    change (rm_thr_lag rm') with (rm_thr_lag rm).
    unfold patch2patch_ff_full.
    assert (Hlen : length (rm_areas rm) = length (rm_patch_pts rm)) by (unfold rm_areas; apply map_length).
    apply tab_ext. intros i Hi. apply tab_ext. intros j Hj.
    destruct (pair_in (rm_pairs rm) i j); [|reflexivity].
    rewrite !nth_map_nil.
    assert (Hq : forall k, k < length (rm_areas rm) -> length (nth k (rm_patch_pts rm) []) = 4).
    { intros k Hk. rewrite Hlen in Hk.
      destruct (room_patch_pts_quads (nth k (rm_patch_pts rm) []) (nth_In _ _ Hk)) as (q & ->). reflexivity. }
    apply (universal_ff_full_translate (rm_thres rm) (rm_cut rm) (rm_thr_seg rm) (rm_thr_dot rm) (rm_thr_lag rm) t).
    - rewrite (Hq i Hi). lia.
    - rewrite (Hq j Hj). lia.
  Qed.

  (** the baked scene of the translated room IS the translated scene *)
  Theorem room_scene_translate : room_scene rm' = translate_scene t (room_scene rm).
  Proof.
    unfold room_scene, translate_scene.
    cbn [s_np s_nd s_nb s_centers s_areas s_wall s_visU s_F s_att s_tables s_tidx s_in s_out].
    rewrite room_np_translate, room_centers_translate, room_areas_translate, room_wall_ids_translate,
      room_visU_translate, room_F_translate.
    unfold rm', translate_room.
    cbn [rm_walls rm_normals rm_ups rm_ref_in rm_ref_out rm_tables rm_tidx rm_att rm_nb].
    rewrite map_length. reflexivity.
  Qed.

  (** source and receiver records at the shifted positions: shifted position, same visibility,
      same shares *)
  Lemma pt_shares_translate (recv : bool) (pos : vec) :
    map (pt_solution (rm_thr rm) recv (sh t pos)) (rm_patch_pts rm') =
    map (pt_solution (rm_thr rm) recv pos) (rm_patch_pts rm).
  Proof.
    rewrite room_patch_pts_translate, map_map. apply map_ext. intros l.
    apply pt_solution_translate.
  Qed.
  Theorem room_source_translate (pos : vec) :
    room_source rm' (sh t pos) = translate_source t (room_source rm pos).
  Proof.
    unfold room_source, source_at, translate_source. cbn [src_pos src_vis src_share src_dirfac].
    change (rm_thr rm') with (rm_thr rm).
    now rewrite room_point_vis_translate, pt_shares_translate.
  Qed.
  Theorem room_receiver_translate (pos : vec) :
    room_receiver rm' (sh t pos) = translate_receiver t (room_receiver rm pos).
  Proof.
    unfold room_receiver, receiver_at, translate_receiver. cbn [r_pos r_vis r_share].
    change (rm_thr rm') with (rm_thr rm).
    now rewrite room_point_vis_translate, pt_shares_translate.
  Qed.

  Lemma room_scene_centers_length : s_np (room_scene rm) <= length (s_centers (room_scene rm)).
  Proof. cbn [room_scene s_np s_centers]. unfold rm_np, rm_centers. now rewrite map_length. Qed.

  (** the histograms of every order and the whole output curve *)
  Theorem room_patch_hist_translate (tm : @timing T) (src : vec) (K : nat) :
    patch_hist (room_scene rm') tm (room_source rm' (sh t src)) K =
    patch_hist (room_scene rm) tm (room_source rm src) K.
  Proof.
    rewrite room_scene_translate, room_source_translate.
    exact (proj1 (proj2 (proj2 (proj2 (proj2 (proj2
      (translate_pipeline t (room_scene rm) (room_source rm src) (room_receiver rm src) tm K [] false None
         room_scene_centers_length))))))).
  Qed.

  Theorem room_mono_translate (tm : @timing T) (src rcv : vec) (K : nat) (direct : bool) :
    room_mono rm' tm (sh t src) (sh t rcv) K direct = room_mono rm tm src rcv K direct.
  Proof.
    unfold room_mono. cbv zeta.
    rewrite room_patch_hist_translate.
    rewrite room_scene_translate, room_source_translate, room_receiver_translate.
    exact (proj2 (proj2 (proj2 (proj2 (proj2 (proj2 (proj2
      (translate_pipeline t (room_scene rm) (room_source rm src) (room_receiver rm rcv) tm K
         (patch_hist (room_scene rm) tm (room_source rm src) K) direct None
         room_scene_centers_length)))))))).
  Qed.
End RoomTranslate.
