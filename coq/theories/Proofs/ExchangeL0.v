(** * Theorems about the L0 radiosity recursion (any commutative ring / ordered ring). *)
From Coq Require Import List Arith Bool Ring Lia.
Import ListNotations.
From SV Require Import Base.Ops Base.Sums Spec.ExchangeSpec.

Section ShiftRing.
  Context {T : Type} {O : Ops T} {RL : RingLaws T}.
  Add Ring TRingS : (@ring_th T O RL).

  Lemma sumf_shift_seq d (h : nat -> T) n : forall s,
    sumf (seq (d + s) n) (shiftf d h) = sumf (seq s n) h.
  Proof.
    induction n as [|n IH]; intros s; simpl; [reflexivity|].
    unfold shiftf at 1. destruct (Nat.ltb_spec (d + s) d); [lia|].
    replace (d + s - d) with s by lia. f_equal.
    replace (S (d + s)) with (d + S s) by lia. apply IH.
  Qed.

  (** delaying by [d] within a window of [N] bins keeps exactly the first [N-d] bins *)
  Lemma hsum_shift_gen N d (h : nat -> T) : d <= N -> hsum N (shiftf d h) = hsum (N - d) h.
  Proof.
    intros Hd. unfold hsum.
    assert (seq 0 N = seq 0 d ++ seq d (N - d)) as ->.
    { replace N with (d + (N - d)) at 1 by lia. rewrite seq_app. reflexivity. }
    rewrite sumf_app.
    rewrite (sumf_zero_ext (seq 0 d)).
    2:{ intros t Ht; apply in_seq in Ht. unfold shiftf. destruct (Nat.ltb_spec t d); [reflexivity|lia]. }
    pose proof (sumf_shift_seq d h (N - d) 0) as X.
    replace (d + 0) with d in X by lia. rewrite X. ring.
  Qed.

  Lemma hsum_shift_big N d (h : nat -> T) : N <= d -> hsum N (shiftf d h) = 0%T.
  Proof.
    intros H. unfold hsum. apply sumf_zero_ext. intros t Ht. apply in_seq in Ht.
    unfold shiftf. destruct (Nat.ltb_spec t d); [reflexivity|lia].
  Qed.

  (** ... and loses nothing when the last [d] bins of [h] are empty *)
  Lemma hsum_shift N d (h : nat -> T) : d <= N ->
    (forall t, N - d <= t -> t < N -> h t = 0%T) -> hsum N (shiftf d h) = hsum N h.
  Proof.
    intros Hd Hz. rewrite hsum_shift_gen by exact Hd.
    rewrite (hsum_split N (N - d) h) by lia.
    rewrite (sumf_zero_ext (seq (N - d) (N - (N - d)))); [ring|].
    intros t Ht; apply in_seq in Ht. apply Hz; lia.
  Qed.

  Lemma shiftf_before d (h : nat -> T) t : t < d -> shiftf d h t = 0%T.
  Proof. intros H. unfold shiftf. destruct (Nat.ltb_spec t d); [reflexivity|lia]. Qed.
  Lemma shiftf_after d (h : nat -> T) t : d <= t -> shiftf d h t = h (t - d).
  Proof. intros H. unfold shiftf. destruct (Nat.ltb_spec t d); [lia|reflexivity]. Qed.
  Lemma shiftf_ext d (g h : nat -> T) t : (forall u, u <= t -> g u = h u) -> shiftf d g t = shiftf d h t.
  Proof. intros H. unfold shiftf. destruct (t <? d); [reflexivity|apply H; lia]. Qed.
End ShiftRing.

Section L0Ring.
  Context {T : Type} {O : Ops T} {RL : RingLaws T}.
  Add Ring TRingL0 : (@ring_th T O RL).

  Variable P : list (nat * nat).
  Variable delta : nat -> nat -> nat.
  Variable c : nat -> nat -> nat -> nat -> T.
  Variable out : nat -> nat -> nat.
  Variable delta0 : nat -> nat.
  Variable e0 : nat -> nat -> nat -> T.

  Notation E := (E P delta c out delta0 e0).
  Notation Tot := (Tot P delta c out delta0 e0).
  Notation contrib := (contrib P delta c out delta0 e0).

  Lemma in_into j p : In p (into P j) <-> In p P /\ snd p = j.
  Proof. unfold into. rewrite filter_In, Nat.eqb_eq. reflexivity. Qed.

  (** ** order accumulation *)
  Lemma Tot_0 j d b t : Tot 0 j d b t = E 0 j d b t.
  Proof. unfold ExchangeSpec.Tot. simpl. ring. Qed.
  Lemma Tot_S K j d b t : Tot (S K) j d b t = (Tot K j d b t + E (S K) j d b t)%T.
  Proof.
    unfold ExchangeSpec.Tot. rewrite (seq_S (S K) 0). rewrite sumf_app. simpl. ring.
  Qed.

  (** ** energy balance of one reflection order, per outgoing slot and band (C01.1)

      If the window of [N] bins holds every arrival of order [k+1] -- i.e. for every
      directed pair the last [delta] bins of the radiating patch's order-k histogram
      are empty -- the energy of order [k+1] summed over patches and time equals the
      order-k energy of each radiating patch redistributed by the transfer factors. *)
  Theorem balance (patches : list nat) (N k d b : nat) :
    NoDup patches -> (forall p, In p P -> In (snd p) patches) ->
    (forall p, In p P -> delta (fst p) (snd p) <= N /\
        forall t, N - delta (fst p) (snd p) <= t -> t < N ->
                  E k (fst p) (out (fst p) (snd p)) b t = 0%T) ->
    sumf patches (fun j => hsum N (E (S k) j d b)) =
    sumf P (fun p => (c (fst p) (snd p) d b * hsum N (E k (fst p) (out (fst p) (snd p)) b))%T).
  Proof.
    intros Hnd Hin Hfit. simpl.
    rewrite (sumf_ext patches _
      (fun j => sumf (filter (fun p => snd p =? j) P)
         (fun p => (c (fst p) (snd p) d b * hsum N (E k (fst p) (out (fst p) (snd p)) b))%T))).
    - apply (sumf_partition P snd); assumption.
    - intros j Hj. rewrite hsum_sumf. apply sumf_ext. intros p Hp.
      apply in_into in Hp. destruct Hp as [HpP Hpj]. subst j.
      destruct (Hfit p HpP) as [Hd Hz].
      rewrite hsum_shift by (try exact Hd; intros t H1 H2; rewrite (Hz t H1 H2); ring).
      apply hsum_scale.
  Qed.

  (** without the window hypothesis the balance is an inequality-free identity on the
      truncated window: what is kept is the first [N - delta] bins of each source *)
  Theorem balance_truncated (patches : list nat) (N k d b : nat) :
    NoDup patches -> (forall p, In p P -> In (snd p) patches) ->
    sumf patches (fun j => hsum N (E (S k) j d b)) =
    sumf P (fun p => (c (fst p) (snd p) d b *
                      hsum (N - delta (fst p) (snd p)) (E k (fst p) (out (fst p) (snd p)) b))%T).
  Proof.
    intros Hnd Hin. simpl.
    rewrite (sumf_ext patches _
      (fun j => sumf (filter (fun p => snd p =? j) P)
         (fun p => (c (fst p) (snd p) d b *
                    hsum (N - delta (fst p) (snd p)) (E k (fst p) (out (fst p) (snd p)) b))%T))).
    - apply (sumf_partition P snd); assumption.
    - intros j Hj. rewrite hsum_sumf. apply sumf_ext. intros p Hp.
      apply in_into in Hp. destruct Hp as [HpP Hpj]. subst j.
      destruct (Nat.le_gt_cases (delta (fst p) (snd p)) N) as [Hd|Hd].
      + rewrite hsum_shift_gen by exact Hd. apply hsum_scale.
      + rewrite hsum_shift_big by lia. replace (N - delta (fst p) (snd p)) with 0 by lia.
        unfold hsum. simpl. ring.
  Qed.

  (** ** path expansion (C02.1): each contribution lands in the bin that is the sum of
      its per-leg bins, with the product of the transfer factors as weight -- and
      nowhere else *)
  Definition at_bin (t : nat) (lw : nat * T) : T := if t =? fst lw then snd lw else 0%T.

  Theorem E_contrib k : forall j d b t, E k j d b t = sumf (contrib k j d b) (at_bin t).
  Proof.
    induction k as [|k IH]; intros j d b t.
    - simpl. unfold E0, at_bin. simpl. ring.
    - simpl. induction (into P j) as [|p l IHl]; [reflexivity|].
      simpl. rewrite sumf_app, <- IHl. f_equal.
      rewrite sumf_map. unfold shiftf.
      destruct (Nat.ltb_spec t (delta (fst p) j)) as [Hlt|Hge].
      + symmetry. apply sumf_zero_ext. intros lw _. unfold at_bin. simpl.
        destruct (Nat.eqb_spec t (fst lw + delta (fst p) j)); [lia|reflexivity].
      + rewrite IH, <- sumf_scale. apply sumf_ext. intros lw _. unfold at_bin. simpl.
        destruct (Nat.eqb_spec (t - delta (fst p) j) (fst lw));
          destruct (Nat.eqb_spec t (fst lw + delta (fst p) j)); try lia; ring.
  Qed.

  (** every arrival bin of order k+1 is an arrival bin of order k plus one leg *)
  Lemma contrib_S_bins k j d b l w :
    In (l, w) (contrib (S k) j d b) ->
    exists i l' w', In (i, j) P /\ In (l', w') (contrib k i (out i j) b) /\ l = l' + delta i j.
  Proof.
    simpl. rewrite in_flat_map. intros (p & Hp & Hin). apply in_into in Hp. destruct Hp as [HpP Hj].
    apply in_map_iff in Hin. destruct Hin as ((l', w') & Heq & Hin'). simpl in Heq.
    injection Heq as Hl Hw. exists (fst p), l', w'. subst j. split; [|split; [exact Hin'|lia]].
    destruct p; exact HpP.
  Qed.

  (** nothing arrives at a patch before its earliest path *)
  Theorem E_before_first k j d b t :
    (forall l w, In (l, w) (contrib k j d b) -> t < l) -> E k j d b t = 0%T.
  Proof.
    intros H. rewrite E_contrib. apply sumf_zero_ext. intros (l, w) Hin. unfold at_bin. simpl.
    specialize (H l w Hin). destruct (Nat.eqb_spec t l); [lia|reflexivity].
  Qed.

  (** order 0 is a single impulse in the source->patch bin *)
  Lemma E0_bin j d b t : t <> delta0 j -> E 0 j d b t = 0%T.
  Proof. intros H. simpl. unfold E0. destruct (Nat.eqb_spec t (delta0 j)); [contradiction|reflexivity]. Qed.

  (** ** a fully absorbing patch re-radiates nothing at any order (C01.4) *)
  Theorem E_absorbing j d b :
    e0 j d b = 0%T -> (forall i, c i j d b = 0%T) -> forall k t, E k j d b t = 0%T.
  Proof.
    intros He Hc k t. destruct k as [|k]; simpl.
    - unfold E0. rewrite He. destruct (t =? delta0 j); reflexivity.
    - apply sumf_zero_ext. intros p _. unfold shiftf. destruct (t <? _); [reflexivity|].
      rewrite Hc. ring.
  Qed.
End L0Ring.

(** ** dependence only on the data of one band, and on the slot only through c / e0 (C12) *)
Section L0Band.
  Context {T : Type} {O : Ops T} {RL : RingLaws T}.
  Variable P : list (nat * nat).
  Variable delta : nat -> nat -> nat.
  Variable out : nat -> nat -> nat.
  Variable delta0 : nat -> nat.

  Theorem E_band_independent c c' e0 e0' b b' :
    (forall i j d, c i j d b = c' i j d b') -> (forall j d, e0 j d b = e0' j d b') ->
    forall k j d t, E P delta c out delta0 e0 k j d b t = E P delta c' out delta0 e0' k j d b' t.
  Proof.
    intros Hc He. induction k as [|k IH]; intros j d t; simpl.
    - unfold E0. now rewrite He.
    - apply sumf_ext. intros p _. unfold shiftf. destruct (t <? _); [reflexivity|].
      now rewrite Hc, IH.
  Qed.

  (** diffuse tables: if transfer factors and initial energy do not depend on the
      outgoing slot, neither does any histogram, whatever the slot maps are *)
  Theorem E_slot_independent c e0 out' :
    (forall i j d d' b, c i j d b = c i j d' b) -> (forall j d d' b, e0 j d b = e0 j d' b) ->
    forall k j d d' b t, E P delta c out delta0 e0 k j d b t = E P delta c out' delta0 e0 k j d' b t.
  Proof.
    intros Hc He. induction k as [|k IH]; intros j d d' b t; simpl.
    - unfold E0. now rewrite (He j d d').
    - apply sumf_ext. intros p _. unfold shiftf. destruct (t <? _); [reflexivity|].
      rewrite (Hc _ _ d d'). f_equal. apply IH.
  Qed.
End L0Band.

Section L0Order.
  Context {T : Type} {O : Ops T} {RL : RingLaws T} {OL : OrderLaws T}.
  Add Ring TRingL0o : (@ring_th T O RL).

  Variable P : list (nat * nat).
  Variable delta : nat -> nat -> nat.
  Variable c : nat -> nat -> nat -> nat -> T.
  Variable out : nat -> nat -> nat.
  Variable delta0 : nat -> nat.
  Variable e0 : nat -> nat -> nat -> T.
  Notation E := (E P delta c out delta0 e0).
  Notation Tot := (Tot P delta c out delta0 e0).

  Hypothesis c_nonneg : forall i j d b, (0 <= c i j d b)%T.
  Hypothesis e0_nonneg : forall j d b, (0 <= e0 j d b)%T.

  (** all histogram values are non-negative (C03.3) *)
  Theorem E_nonneg k : forall j d b t, (0 <= E k j d b t)%T.
  Proof.
    induction k as [|k IH]; intros j d b t; simpl.
    - unfold E0. destruct (t =? delta0 j); [apply e0_nonneg|apply tle_refl].
    - apply sumf_nonneg. intros p _. unfold shiftf. destruct (t <? _); [apply tle_refl|].
      apply tmul_nonneg; [apply c_nonneg|apply IH].
  Qed.

  Theorem Tot_nonneg K j d b t : (0 <= Tot K j d b t)%T.
  Proof. unfold ExchangeSpec.Tot. apply sumf_nonneg. intros k _. apply E_nonneg. Qed.

  (** the result for order K+1 is the result for order K plus a non-negative term (C03.2) *)
  Theorem Tot_monotone K j d b t : (Tot K j d b t <= Tot (S K) j d b t)%T.
  Proof.
    rewrite Tot_S. replace (Tot K j d b t) with (Tot K j d b t + 0)%T at 1 by ring.
    apply tadd_le_mono_l, E_nonneg.
  Qed.

  (** shortening the histogram only removes energy (C01.5) *)
  Theorem window_monotone N N' K j d b : N' <= N -> (hsum N' (Tot K j d b) <= hsum N (Tot K j d b))%T.
  Proof. intros H. apply hsum_mono_N; [exact H|]. intros t. apply Tot_nonneg. Qed.

  (** ** energy bound of one order (C01.3): with per-source row sums bounded by [r],
      the order-(k+1) energy is at most [r] times the order-k energy.
      Stated for one outgoing slot (diffuse rooms): [out] is constantly [d]. *)
  Theorem energy_bound (patches : list nat) (N k d b : nat) (r : T) :
    NoDup patches -> (forall p, In p P -> In (snd p) patches /\ In (fst p) patches) ->
    (forall i j, out i j = d) -> (0 <= r)%T ->
    (forall i, In i patches ->
       (sumf (filter (fun p => fst p =? i) P) (fun p => c (fst p) (snd p) d b) <= r)%T) ->
    (sumf patches (fun j => hsum N (E (S k) j d b)) <= r * sumf patches (fun i => hsum N (E k i d b)))%T.
  Proof.
    intros Hnd Hin Hout Hr Hrow.
    rewrite (balance_truncated P delta c out delta0 e0 patches N k d b Hnd (fun p H => proj1 (Hin p H))).
    (* drop the truncation: hsum (N - delta) <= hsum N *)
    eapply tle_trans.
    { apply sumf_le. intros p Hp.
      apply (tmul_le_mono_nonneg_l _ (hsum N (E k (fst p) d b))); [apply c_nonneg|].
      rewrite Hout. apply hsum_mono_N; [lia|]. intros t. apply E_nonneg. }
    (* regroup by radiating patch *)
    rewrite <- (sumf_partition P fst patches) by (try assumption; intros p Hp; apply (Hin p Hp)).
    rewrite <- sumf_scale. apply sumf_le. intros i Hi.
    rewrite (sumf_ext _ _ (fun p => (c (fst p) (snd p) d b * hsum N (E k i d b))%T)).
    2:{ intros p Hp. apply filter_In in Hp. destruct Hp as [_ Hp]. apply Nat.eqb_eq in Hp. now rewrite Hp. }
    rewrite sumf_scale_r. apply tmul_le_mono_nonneg_r; [|apply Hrow, Hi].
    apply hsum_nonneg. intros t _. apply E_nonneg.
  Qed.
End L0Order.
