(** * The interior-angle sum does not depend on the start vertex or the winding (C04).

    What is proved: for the SUM over the index set, written with [sumf] in a commutative ring,
    [sum_i angle(S', i) = sum_i angle(S, i)] when [S'] is a cyclic shift or the reversal of [S];
    the proof is a re-indexing of the same summands ([angle(S', i) = angle(S, sigma i)] for a
    permutation [sigma] of [0..n-1]).  The executable list model accumulates with [fold_left];
    in a ring that fold equals [sumf] ([angle_sum_sumf]), so [excess] and the source-mode
    [pt_solution] are invariant as ring elements.  In floating point the fold visits the same
    summands in a different order, i.e. the result differs by rounding only. *)
From Coq Require Import List Arith Bool Ring Lia.
Import ListNotations.
From SV Require Import Base.Ops Base.Arr Base.Sums
  Model.Vec3 Model.Exchange Model.Scene Model.PtSolution.

Section Index.
  Lemma prev_next n i : i < n -> prev_idx n (next_idx n i) = i.
  Proof.
    intros H. unfold next_idx. destruct (S i =? n) eqn:E.
    - apply Nat.eqb_eq in E. simpl. lia.
    - reflexivity.
  Qed.

  Lemma next_prev n i : i < n -> next_idx n (prev_idx n i) = i.
  Proof.
    intros H. unfold next_idx. destruct i as [|k]; simpl prev_idx.
    - replace (S (n - 1)) with n by lia. now rewrite Nat.eqb_refl.
    - destruct (S k =? n) eqn:E; [apply Nat.eqb_eq in E; lia|reflexivity].
  Qed.

  Lemma next_lt n i : i < n -> next_idx n i < n.
  Proof.
    intros H. unfold next_idx. destruct (S i =? n) eqn:E; [lia|]. apply Nat.eqb_neq in E. lia.
  Qed.

  Lemma prev_lt n i : i < n -> prev_idx n i < n.
  Proof. intros H. destruct i; simpl; lia. Qed.

  (** reversal: [j = n-1-i] *)
  Lemma rev_prev n i : i < n -> n - S (prev_idx n i) = next_idx n (n - S i).
  Proof.
    intros H. unfold next_idx. destruct i as [|k]; simpl prev_idx.
    - replace (S (n - 1)) with n by lia. rewrite Nat.eqb_refl. lia.
    - destruct (S (n - S (S k)) =? n) eqn:E; [apply Nat.eqb_eq in E; lia|lia].
  Qed.

  Lemma rev_next n i : i < n -> n - S (next_idx n i) = prev_idx n (n - S i).
  Proof.
    intros H. unfold next_idx. destruct (S i =? n) eqn:E.
    - apply Nat.eqb_eq in E. replace (n - S i) with 0 by lia. simpl. lia.
    - apply Nat.eqb_neq in E. replace (n - S i) with (S (n - S (S i))) by lia. reflexivity.
  Qed.
End Index.

Section VertexOrder.
  Context {T : Type} {O : Ops T} {RL : RingLaws T}.
  Add Ring TRingVO : (@ring_th T O RL).

  (** the order-free angle sum *)
  Definition asum (thr : T) (S : list (@vec T)) : T := sumf (seq 0 (length S)) (angle_at thr S).

  Lemma angle_sum_asum thr (S : list (@vec T)) : angle_sum thr S = asum thr S.
  Proof. unfold angle_sum, asum. exact (suml_sumf _ _). Qed.

  Lemma vdot_comm (u v : @vec T) : vdot u v = vdot v u.
  Proof. unfold vdot. ring. Qed.

  Lemma angle_of_swap thr (c a b : @vec T) : angle_of thr c a b = angle_of thr c b a.
  Proof. unfold angle_of. now rewrite vdot_comm. Qed.

  (** *** re-indexing sums *)
  Lemma sumf_next n (F : nat -> T) : sumf (seq 0 n) (fun i => F (next_idx n i)) = sumf (seq 0 n) F.
  Proof.
    destruct n as [|m]; [reflexivity|].
    rewrite seq_S at 1. rewrite sumf_app. simpl sumf at 2.
    rewrite (sumf_ext (seq 0 m) (fun i => F (next_idx (S m) i)) (fun i => F (S i))).
    - unfold next_idx at 1. rewrite Nat.eqb_refl.
      change (seq 0 (S m)) with (0 :: seq 1 m). rewrite sumf_cons.
      rewrite <- seq_shift, sumf_map. simpl. ring.
    - intros i Hi. apply in_seq in Hi. unfold next_idx.
      destruct (S i =? S m) eqn:E; [apply Nat.eqb_eq in E; lia|reflexivity].
  Qed.

  Lemma sumf_rev_index n (F : nat -> T) : sumf (seq 0 n) (fun i => F (n - S i)) = sumf (seq 0 n) F.
  Proof.
    induction n as [|n IH]; [reflexivity|].
    change (seq 0 (S n)) with (0 :: seq 1 n) at 1. rewrite sumf_cons.
    rewrite <- seq_shift, sumf_map.
    rewrite (sumf_ext (seq 0 n) (fun a => F (S n - S (S a))) (fun i => F (n - S i)))
      by (intros; reflexivity).
    rewrite IH. rewrite seq_S, sumf_app. simpl. replace (n - 0) with n by lia. ring.
  Qed.

  (** *** cyclic shift by one vertex *)
  Lemma nthv_rot1 (a : @vec T) (l : list (@vec T)) i :
    i < S (length l) -> nthv (l ++ [a]) i = nthv (a :: l) (next_idx (S (length l)) i).
  Proof.
    intros H. unfold nthv, next_idx. destruct (S i =? S (length l)) eqn:E.
    - apply Nat.eqb_eq in E. rewrite app_nth2 by lia. replace (i - length l) with 0 by lia. reflexivity.
    - apply Nat.eqb_neq in E. rewrite app_nth1 by lia. reflexivity.
  Qed.

  Lemma angle_at_rot1 thr (a : @vec T) (l : list (@vec T)) i :
    i < S (length l) ->
    angle_at thr (l ++ [a]) i = angle_at thr (a :: l) (next_idx (S (length l)) i).
  Proof.
    intros H. unfold angle_at.
    replace (length (l ++ [a])) with (S (length l)) by (rewrite app_length; simpl; lia).
    simpl length. set (n := S (length l)) in *.
    rewrite (nthv_rot1 a l i H).
    rewrite (nthv_rot1 a l (prev_idx n i) (prev_lt n i H)).
    rewrite (nthv_rot1 a l (next_idx n i) (next_lt n i H)).
    fold n. rewrite (next_prev n i H), (prev_next n i H). reflexivity.
  Qed.

  Lemma asum_rot1 thr (a : @vec T) (l : list (@vec T)) : asum thr (l ++ [a]) = asum thr (a :: l).
  Proof.
    unfold asum. replace (length (l ++ [a])) with (S (length l)) by (rewrite app_length; simpl; lia).
    simpl length.
    rewrite (sumf_ext _ (angle_at thr (l ++ [a]))
               (fun i => angle_at thr (a :: l) (next_idx (S (length l)) i))).
    - apply (sumf_next (S (length l)) (angle_at thr (a :: l))).
    - intros i Hi. apply in_seq in Hi. apply angle_at_rot1. lia.
  Qed.

  (** *** any cyclic shift *)
  Theorem asum_rotate thr (l1 l2 : list (@vec T)) : asum thr (l1 ++ l2) = asum thr (l2 ++ l1).
  Proof.
    revert l2. induction l1 as [|a l1 IH]; intros l2.
    - now rewrite app_nil_r.
    - change ((a :: l1) ++ l2) with (a :: (l1 ++ l2)). rewrite <- asum_rot1.
      rewrite <- app_assoc. rewrite IH. now rewrite <- app_assoc.
  Qed.

  (** *** reversal *)
  Lemma nthv_rev (P : list (@vec T)) i : i < length P -> nthv (rev P) i = nthv P (length P - S i).
  Proof. intros H. unfold nthv. now apply rev_nth. Qed.

  Lemma angle_at_rev thr (P : list (@vec T)) i :
    i < length P -> angle_at thr (rev P) i = angle_at thr P (length P - S i).
  Proof.
    intros H. unfold angle_at. rewrite rev_length. set (n := length P) in *.
    rewrite (nthv_rev P i H).
    rewrite (nthv_rev P (prev_idx n i) (prev_lt n i H)).
    rewrite (nthv_rev P (next_idx n i) (next_lt n i H)).
    fold n. rewrite (rev_prev n i H), (rev_next n i H). apply angle_of_swap.
  Qed.

  Theorem asum_rev thr (P : list (@vec T)) : asum thr (rev P) = asum thr P.
  Proof.
    unfold asum. rewrite rev_length.
    rewrite (sumf_ext _ (angle_at thr (rev P)) (fun i => angle_at thr P (length P - S i))).
    - apply (sumf_rev_index (length P) (angle_at thr P)).
    - intros i Hi. apply in_seq in Hi. apply angle_at_rev. lia.
  Qed.

  (** *** transfer to the executable model (as ring elements) *)
  Lemma on_sphere_app pt (l1 l2 : list (@vec T)) :
    on_sphere pt (l1 ++ l2) = on_sphere pt l1 ++ on_sphere pt l2.
  Proof. apply map_app. Qed.
  Lemma on_sphere_rev pt (l : list (@vec T)) : on_sphere pt (rev l) = rev (on_sphere pt l).
  Proof. apply map_rev. Qed.

  Theorem excess_rotate thr pt (l1 l2 : list (@vec T)) :
    excess thr pt (l1 ++ l2) = excess thr pt (l2 ++ l1).
  Proof.
    unfold excess. rewrite !angle_sum_asum, !on_sphere_app, (asum_rotate thr).
    rewrite !app_length, (Nat.add_comm (length l1)). reflexivity.
  Qed.

  Theorem excess_rev thr pt (l : list (@vec T)) : excess thr pt (rev l) = excess thr pt l.
  Proof.
    unfold excess. rewrite !angle_sum_asum, on_sphere_rev, asum_rev, rev_length. reflexivity.
  Qed.

  Theorem vertex_order thr pt (l1 l2 l : list (@vec T)) :
    (asum thr (on_sphere pt (l1 ++ l2)) = asum thr (on_sphere pt (l2 ++ l1)) /\
     asum thr (on_sphere pt (rev l)) = asum thr (on_sphere pt l)) /\
    (pt_solution thr false pt (l1 ++ l2) = pt_solution thr false pt (l2 ++ l1) /\
     pt_solution thr false pt (rev l) = pt_solution thr false pt l).
  Proof.
    split; split.
    - rewrite !on_sphere_app. apply asum_rotate.
    - rewrite on_sphere_rev. apply asum_rev.
    - unfold pt_solution. now rewrite excess_rotate.
    - unfold pt_solution. now rewrite excess_rev.
  Qed.
End VertexOrder.
