(** * Placement invariance of the Kang model.

    Translation: the whole model (form factors and order-0 energies included) depends on the
    positions only through differences, so translating patch centres, wall centres, source
    and receiver by the same vector changes nothing -- in any ordered commutative ring.
    Cyclic axis permutation: distances (hence delays, air attenuation, direct sound). *)
From Coq Require Import List Arith Bool Ring Lia.
Import ListNotations.
From SV Require Import Base.Ops Base.Arr Base.Sums Model.Vec3 Model.Exchange Model.Kang.

Section VecShift.
  Context {T : Type} {O : Ops T} {RL : RingLaws T}.
  Add Ring TRingKV : (@ring_th T O RL).

  Lemma vec_eq (a b : @vec T) : vx a = vx b -> vy a = vy b -> vz a = vz b -> a = b.
  Proof.
    destruct a as [[a1 a2] a3], b as [[b1 b2] b3]. unfold vx, vy, vz. simpl. intros; subst; reflexivity.
  Qed.
  Lemma vx_vadd (a b : @vec T) : vx (vadd a b) = (vx a + vx b)%T. Proof. reflexivity. Qed.
  Lemma vy_vadd (a b : @vec T) : vy (vadd a b) = (vy a + vy b)%T. Proof. reflexivity. Qed.
  Lemma vz_vadd (a b : @vec T) : vz (vadd a b) = (vz a + vz b)%T. Proof. reflexivity. Qed.
  Lemma kcomp_vadd (a b : @vec T) i : kcomp (vadd a b) i = (kcomp a i + kcomp b i)%T.
  Proof. destruct i as [|[|i]]; reflexivity. Qed.
  Lemma sub_shift (a b x : T) : ((a + x) - (b + x))%T = (a - b)%T.
  Proof. ring. Qed.
  Lemma vsub_shift (a b v : @vec T) : vsub (vadd a v) (vadd b v) = vsub a b.
  Proof. apply vec_eq; unfold vsub, vadd, mkv, vx, vy, vz; simpl; ring. Qed.

  (** cyclic permutation of the axes: the old x coordinate becomes the new y coordinate *)
  Definition vcyc (a : @vec T) : @vec T := mkv (vz a) (vx a) (vy a).
  Lemma vcyc_dist (a b : @vec T) :
    vnorm (vsub (vcyc a) (vcyc b)) = vnorm (vsub a b) /\
    tsqrt (vdist2 (vcyc a) (vcyc b)) = tsqrt (vdist2 a b).
  Proof.
    split; unfold vnorm, vnorm2, vdot, vdist2, vsub, vcyc, mkv, vx, vy, vz; simpl; f_equal; ring.
  Qed.

  Lemma kff_orth_shift (dl dl' dm dn dd x : T) :
    kff_orth (dl + x)%T (dl' + x)%T dm dn dd = kff_orth dl dl' dm dn dd.
  Proof.
    unfold kff_orth. cbv zeta. generalize (khalf * dd)%T as h. intros h.
    replace (dl + x - h - (dl' + x))%T with (dl - h - dl')%T by ring.
    replace (dl + x + h - (dl' + x))%T with (dl + h - dl')%T by ring.
    replace (dl + x - (dl' + x))%T with (dl - dl')%T by ring.
    reflexivity.
  Qed.
End VecShift.

Section ScalarShiftOrder.
  Context {T : Type} {O : Ops T} {RL : RingLaws T} {OL : OrderLaws T}.
  Add Ring TRingKW : (@ring_th T O RL).

  Lemma tleb_shift (a b x : T) : tleb (a + x)%T (b + x)%T = tleb a b.
  Proof.
    destruct (tleb a b) eqn:E.
    - exact (tadd_le_mono a b x E).
    - destruct (tleb (a + x)%T (b + x)%T) eqn:E2; [|reflexivity]. exfalso.
      pose proof (tadd_le_mono _ _ (- x)%T E2) as H.
      replace (a + x + - x)%T with a in H by ring. replace (b + x + - x)%T with b in H by ring.
      unfold tle in H. congruence.
  Qed.

  Lemma ke0_geom_shift (dl dm dn ddl ddm Sx Sy Sz x y : T) :
    ke0_geom (dl + x)%T (dm + y)%T dn ddl ddm (Sx + x)%T (Sy + y)%T Sz
    = ke0_geom dl dm dn ddl ddm Sx Sy Sz.
  Proof.
    unfold ke0_geom. cbv zeta.
    generalize (ddl / ktwo)%T as hl. generalize (ddm / ktwo)%T as hm. intros hm hl.
    replace (dl + x + hl - (Sx + x))%T with (dl + hl - Sx)%T by ring.
    replace (dl + x - hl - (Sx + x))%T with (dl - hl - Sx)%T by ring.
    replace (dm + y - (Sy + y))%T with (dm - Sy)%T by ring.
    replace (dm + y + hm - (Sy + y))%T with (dm + hm - Sy)%T by ring.
    replace (dm + y - hm - (Sy + y))%T with (dm - hm - Sy)%T by ring.
    replace (dl + x - hl)%T with (dl - hl + x)%T by ring.
    replace (dl + x + hl)%T with (dl + hl + x)%T by ring.
    replace (dm + y - hm)%T with (dm - hm + y)%T by ring.
    replace (dm + y + hm)%T with (dm + hm + y)%T by ring.
    rewrite !tleb_shift. reflexivity.
  Qed.
End ScalarShiftOrder.

Lemma fold_left_ext_in {A B} (f g : A -> B -> A) (l : list B) :
  (forall a x, In x l -> f a x = g a x) -> forall a, fold_left f l a = fold_left g l a.
Proof.
  induction l as [|x l IH]; simpl; intros H a; [reflexivity|].
  rewrite H by now left. apply IH. intros; apply H; now right.
Qed.

Section KangTranslate.
  Context {T : Type} {O : Ops T} {RL : RingLaws T} {OL : OrderLaws T}.
  Add Ring TRingKT : (@ring_th T O RL).

  Variable v : @vec T.

  Definition tr_wall (w : @kwall T) : @kwall T :=
    mkKwall (map (fun p => vadd p v) (kw_centers w)) (kw_sizes w) (kw_normal w)
            (vadd (kw_wcenter w) v) (kw_maxsize w) (kw_others w) (kw_scat w) (kw_alpha w) (kw_att w).
  Definition tr_scene (sc : @kscene T) : @kscene T :=
    mkKscene (map tr_wall (ks_walls sc)) (ks_nb sc) (ks_c sc) (ks_fs sc) (ks_len sc)
             (vadd (ks_src sc) v) (ks_power sc).

  Variable sc : @kscene T.
  Notation sc' := (tr_scene sc).

  Lemma knw_tr : knw sc' = knw sc.
  Proof. unfold knw. simpl. apply map_length. Qed.
  Lemma kwl_tr w : w < knw sc -> kwl sc' w = tr_wall (kwl sc w).
  Proof.
    unfold kwl, knw. simpl. intros H.
    rewrite nth_indep with (d' := tr_wall kwall_nil) by now rewrite map_length.
    apply map_nth.
  Qed.
  Lemma kwl_tr_out w : knw sc <= w -> kwl sc' w = kwall_nil /\ kwl sc w = kwall_nil.
  Proof.
    unfold kwl, knw. simpl. intros H. split; apply nth_overflow; [rewrite map_length|]; exact H.
  Qed.

  Ltac field_tr w :=
    let H := fresh "H" in
    destruct (Nat.lt_ge_cases w (knw sc)) as [H|H];
    [rewrite (kwl_tr w H); reflexivity
    |destruct (kwl_tr_out w H) as [-> ->]; reflexivity].

  Lemma knpat_tr w : knpat sc' w = knpat sc w.
  Proof.
    unfold knpat. destruct (Nat.lt_ge_cases w (knw sc)) as [H|H].
    - rewrite (kwl_tr w H). simpl. apply map_length.
    - destruct (kwl_tr_out w H) as [-> ->]. reflexivity.
  Qed.
  Lemma kothers_tr w : kothers sc' w = kothers sc w.
  Proof. unfold kothers. field_tr w. Qed.
  Lemma kscat_tr w b : kscat sc' w b = kscat sc w b.
  Proof. unfold kscat. field_tr w. Qed.
  Lemma kalpha_tr w b : kalpha sc' w b = kalpha sc w b.
  Proof. unfold kalpha. field_tr w. Qed.
  Lemma katt_tr w b : katt sc' w b = katt sc w b.
  Proof. unfold katt. field_tr w. Qed.
  Lemma knormal_tr w : kw_normal (kwl sc' w) = kw_normal (kwl sc w).
  Proof. field_tr w. Qed.
  Lemma kmaxsize_tr w : kw_maxsize (kwl sc' w) = kw_maxsize (kwl sc w).
  Proof. field_tr w. Qed.
  Lemma kpsize_tr w r : kpsize sc' w r = kpsize sc w r.
  Proof. unfold kpsize. field_tr w. Qed.

  Lemma knpat_in_range w r : r < knpat sc w -> w < knw sc.
  Proof.
    intros Hr. destruct (Nat.lt_ge_cases w (knw sc)) as [H|H]; [exact H|].
    unfold knpat in Hr. rewrite (proj2 (kwl_tr_out w H)) in Hr. simpl in Hr. lia.
  Qed.
  Lemma kwcenter_tr w : w < knw sc -> kw_wcenter (kwl sc' w) = vadd (kw_wcenter (kwl sc w)) v.
  Proof. intros H. rewrite (kwl_tr w H). reflexivity. Qed.
  Lemma kpc_tr w r : r < knpat sc w -> kpc sc' w r = vadd (kpc sc w r) v.
  Proof.
    intros Hr. pose proof (knpat_in_range w r Hr) as Hw. unfold kpc. rewrite (kwl_tr w Hw). simpl.
    unfold nthv. rewrite nth_indep with (d' := vadd vzero v) by (rewrite map_length; exact Hr).
    apply (map_nth (fun p => vadd p v)).
  Qed.

  Lemma kpdist_tr w' s w r : s < knpat sc w' -> r < knpat sc w -> kpdist sc' w' s w r = kpdist sc w' s w r.
  Proof. intros Hs Hr. unfold kpdist. rewrite !kpc_tr by assumption. now rewrite vsub_shift. Qed.

  Lemma ksrc_dist_tr w r : r < knpat sc w -> ksrc_dist sc' w r = ksrc_dist sc w r.
  Proof.
    intros Hr. unfold ksrc_dist. rewrite kpc_tr by exact Hr.
    change (ks_src sc') with (vadd (ks_src sc) v). now rewrite vsub_shift.
  Qed.

  Lemma ke0_pair_tr w r : r < knpat sc w -> ke0_pair sc' w r = ke0_pair sc w r.
  Proof.
    intros Hr. unfold ke0_pair. cbv zeta. rewrite knormal_tr, kpsize_tr, (kpc_tr w r Hr).
    change (ks_src sc') with (vadd (ks_src sc) v).
    destruct (kaxis99 (kw_normal (kwl sc w))) as [|[|[|[|n]]]]; try reflexivity;
      rewrite !kcomp_vadd, !sub_shift; apply ke0_geom_shift.
  Qed.

  Lemma ke0_tr w r b : r < knpat sc w -> ke0 sc' w r b = ke0 sc w r b.
  Proof.
    intros Hr. unfold ke0. cbv zeta.
    rewrite (ke0_pair_tr w r Hr), (ksrc_dist_tr w r Hr), kalpha_tr, katt_tr. reflexivity.
  Qed.

  Lemma kinit_tr N : kinit sc' N = kinit sc N.
  Proof.
    unfold kinit, kinit_with. rewrite knw_tr. change (ks_nb sc') with (ks_nb sc).
    apply tab_ext. intros w Hw. apply tab_ext. intros b Hb. rewrite knpat_tr.
    apply tab_ext. intros r Hr. apply tab_ext. intros t Ht.
    unfold kdelay0. rewrite (ksrc_dist_tr w r Hr), (ke0_tr w r b Hr). reflexivity.
  Qed.

  Lemma kff_entry_tr w s o r : s < knpat sc w -> r < knpat sc o -> kff_entry sc' w s o r = kff_entry sc w s o r.
  Proof.
    intros Hs Hr. pose proof (knpat_in_range w s Hs) as Hw. pose proof (knpat_in_range o r Hr) as Ho.
    unfold kff_entry. cbv zeta.
    rewrite !knormal_tr, kmaxsize_tr, (kpc_tr w s Hs), (kpc_tr o r Hr), (kwcenter_tr w Hw), (kwcenter_tr o Ho).
    rewrite vsub_shift.
    destruct (teqb (vdot (kw_normal (kwl sc o)) (kw_normal (kwl sc w))) 0%T).
    - rewrite !kcomp_vadd, !sub_shift. apply kff_orth_shift.
    - rewrite !vx_vadd, !vy_vadd, !vz_vadd, !sub_shift. reflexivity.
  Qed.

  Lemma kff_offset_tr oth w : forall acc, kff_offset sc' oth w acc = kff_offset sc oth w acc.
  Proof.
    induction oth as [|o rest IH]; intros acc; simpl; [reflexivity|].
    rewrite knpat_tr. destruct (o =? w); [reflexivity|apply IH].
  Qed.

  Lemma kff_row_tr (G G' : nat -> nat -> T) oth :
    (forall o r, r < knpat sc o -> G' o r = G o r) -> kff_row sc' G' oth = kff_row sc G oth.
  Proof.
    intros H. unfold kff_row. induction oth as [|o rest IH]; simpl; [reflexivity|].
    f_equal; [|exact IH]. rewrite knpat_tr. apply tab_ext. intros r Hr. now apply H.
  Qed.

  Lemma kang_ffs_tr : kang_ffs sc' = kang_ffs sc.
  Proof.
    unfold kang_ffs. rewrite knw_tr. apply tab_ext. intros w Hw.
    unfold kff_matrix. rewrite knpat_tr, kothers_tr. apply tab_ext. intros s Hs.
    apply kff_row_tr. intros o r Hr. now apply kff_entry_tr.
  Qed.

  Lemma kget_ff_tr ffs w' s w r : kget_ff sc' ffs w' s w r = kget_ff sc ffs w' s w r.
  Proof. unfold kget_ff. now rewrite kothers_tr, kff_offset_tr. Qed.

  Lemma kterm_tr N ffs cur w b r w' s : s < knpat sc w' -> r < knpat sc w ->
    kterm sc' N ffs cur w b r w' s = kterm sc N ffs cur w b r w' s.
  Proof.
    intros Hs Hr. unfold kterm. cbv zeta.
    rewrite (kpdist_tr w' s w r Hs Hr), kget_ff_tr, katt_tr, kscat_tr, kalpha_tr. reflexivity.
  Qed.

  Lemma kstep_tr N ffs cur : kstep sc' N ffs cur = kstep sc N ffs cur.
  Proof.
    unfold kstep. rewrite knw_tr. change (ks_nb sc') with (ks_nb sc).
    apply tab_ext. intros w Hw. apply tab_ext. intros b Hb. rewrite knpat_tr.
    apply tab_ext. intros r Hr. unfold kstep_hist. rewrite kothers_tr.
    apply fold_left_ext_in. intros acc w' _. rewrite knpat_tr.
    apply fold_left_ext_in. intros acc2 s Hs. apply in_seq in Hs.
    rewrite kterm_tr by (try assumption; lia). reflexivity.
  Qed.

  Lemma korders_from_tr N ffs K : forall cur, korders_from sc' N ffs cur K = korders_from sc N ffs cur K.
  Proof.
    induction K as [|K IH]; intros cur; simpl; [reflexivity|]. rewrite kstep_tr. f_equal. apply IH.
  Qed.

  Lemma kang_run_tr K : kang_run sc' K = kang_run sc K.
  Proof.
    unfold kang_run. rewrite kang_ffs_tr, kinit_tr. change (kN sc') with (kN sc). apply korders_from_tr.
  Qed.

  (** receiver *)
  Lemma krcv_R_tr recv w s : s < knpat sc w -> krcv_R sc' (vadd recv v) w s = krcv_R sc recv w s.
  Proof. intros Hs. unfold krcv_R. rewrite (kpc_tr w s Hs). now rewrite vsub_shift. Qed.
  Lemma krcv_delay_tr recv w s : s < knpat sc w -> krcv_delay sc' (vadd recv v) w s = krcv_delay sc recv w s.
  Proof. intros Hs. unfold krcv_delay. rewrite (krcv_R_tr recv w s Hs). reflexivity. Qed.
  Lemma krcv_cos_tr recv w s : s < knpat sc w -> krcv_cos sc' (vadd recv v) w s = krcv_cos sc recv w s.
  Proof.
    intros Hs. unfold krcv_cos. rewrite (krcv_R_tr recv w s Hs), knormal_tr, (kpc_tr w s Hs).
    now rewrite vsub_shift.
  Qed.
  Lemma krcv_factor_tr recv w s b : s < knpat sc w ->
    krcv_factor sc' (vadd recv v) w s b = krcv_factor sc recv w s b.
  Proof.
    intros Hs. unfold krcv_factor. cbv zeta.
    now rewrite (krcv_R_tr recv w s Hs), (krcv_cos_tr recv w s Hs), katt_tr.
  Qed.

  Lemma kwall_resp_tr N E K recv w b :
    kwall_resp sc' N E K (vadd recv v) w b = kwall_resp sc N E K recv w b.
  Proof.
    unfold kwall_resp. rewrite knpat_tr.
    apply fold_left_ext_in. intros acc s Hs. apply in_seq in Hs.
    apply fold_left_ext_in. intros acc2 k _.
    rewrite krcv_factor_tr, krcv_delay_tr by lia. reflexivity.
  Qed.

  Lemma kresp_patches_tr N E K recv b :
    kresp_patches sc' N E K (vadd recv v) b = kresp_patches sc N E K recv b.
  Proof.
    unfold kresp_patches. rewrite knw_tr. apply fold_left_ext_in. intros acc w _.
    now rewrite kwall_resp_tr.
  Qed.

  Lemma kdirect_r_tr recv : kdirect_r sc' (vadd recv v) = kdirect_r sc recv.
  Proof.
    unfold kdirect_r. change (ks_src sc') with (vadd (ks_src sc) v).
    unfold vdist2. cbv zeta. now rewrite vsub_shift.
  Qed.
  Lemma kdirect_val_tr recv b : kdirect_val sc' (vadd recv v) b = kdirect_val sc recv b.
  Proof. unfold kdirect_val. cbv zeta. now rewrite kdirect_r_tr, katt_tr. Qed.
  Lemma kdirect_bin_tr recv : kdirect_bin sc' (vadd recv v) = kdirect_bin sc recv.
  Proof. unfold kdirect_bin. rewrite kdirect_r_tr. reflexivity. Qed.

  Lemma kresp_tr N E K recv ign b : kresp sc' N E K (vadd recv v) ign b = kresp sc N E K recv ign b.
  Proof.
    unfold kresp. cbv zeta. now rewrite kresp_patches_tr, kdirect_bin_tr, kdirect_val_tr.
  Qed.

  Lemma kang_resp_tr E K recv ign : kang_resp sc' E K (vadd recv v) ign = kang_resp sc E K recv ign.
  Proof.
    unfold kang_resp. change (ks_nb sc') with (ks_nb sc). change (kN sc') with (kN sc).
    apply tab_ext. intros b _. apply kresp_tr.
  Qed.

  Theorem kang_translate :
    kang_ffs sc' = kang_ffs sc /\
    (forall N, kinit sc' N = kinit sc N) /\
    (forall K, kang_run sc' K = kang_run sc K) /\
    (forall E K recv ign, kang_resp sc' E K (vadd recv v) ign = kang_resp sc E K recv ign).
  Proof.
    split; [exact kang_ffs_tr|]. split; [exact kinit_tr|]. split; [exact kang_run_tr|exact kang_resp_tr].
  Qed.
End KangTranslate.
