(** * The Stokes model as a double weighted sum.

    For one coordinate, the sampled boundary of a patch together with Boole's rule is a list of
    (coefficient, boundary-point index) pairs -- [quad].  The outer integral of
    [stokes_integration] is the bilinear form of the two lists with the ln-distance matrix.
    Consequences: symmetry in the two patches (with any cut-off rule), translation invariance,
    equality with the cut-off-free sum when no segment extent lies in (0, cut]. *)
From Coq Require Import List Arith Bool Ring Lia.
Import ListNotations.
From SV Require Import Base.Ops Base.Arr Base.Sums Model.Vec3 Model.Exchange Model.Stokes Proofs.FieldFacts.

Section StokesSum.
  Context {T : Type} {O : Ops T} {RL : RingLaws T}.
  Add Ring TRingSS : (@ring_th T O RL).

  (** generic: an accumulating fold is a sum *)
  Lemma fold_left_sum {A} (F : T -> A -> T) (g : A -> T) (l : list A) :
    (forall acc a, In a l -> F acc a = (acc + g a)%T) ->
    forall acc, fold_left F l acc = (acc + sumf l g)%T.
  Proof.
    induction l as [|a l IH]; intros H acc; simpl; [ring|].
    rewrite IH by (intros; apply H; now right). rewrite H by now left. ring.
  Qed.
  Lemma sumf_flat_map {A B} (f : A -> list B) (l : list A) (g : B -> T) :
    sumf (flat_map f l) g = sumf l (fun a => sumf (f a) g).
  Proof. induction l as [|a l IH]; simpl; [reflexivity|]. now rewrite sumf_app, IH. Qed.
  Lemma flat_map_ext_in {A B} (f g : A -> list B) (l : list A) :
    (forall a, In a l -> f a = g a) -> flat_map f l = flat_map g l.
  Proof.
    induction l as [|a l IH]; intros H; simpl; [reflexivity|].
    rewrite (H a) by now left. rewrite IH; [reflexivity|]. intros; apply H; now right.
  Qed.

  (** Boole weights and the segment index of [sample_conn 5 n] *)
  Definition bw (k : nat) : T :=
    match k with 0 => c7 | 1 => c32 | 2 => c12 | 3 => c32 | _ => c7 end.
  Definition seg_idx (n i ii : nat) : nat := (i * 4 + ii) mod (4 * n).
  Definition bcoef (h : T) : T := ((c2 * h) / c45)%T.

  Lemma sample_conn5 n :
    sample_conn 5 n = map (fun i => map (seg_idx n i) [0; 1; 2; 3; 4]) (seq 0 n).
  Proof. reflexivity. Qed.

  Section OneAct.
    Variable act : T -> bool.

    (** coordinate [dim] of the [ii]-th sample of segment [i] *)
    Definition sx (b : list vec) (n dim i ii : nat) : T := coord dim (nthv b (seg_idx n i ii)).

    (** quadrature list of one segment / of the whole boundary in coordinate [dim] *)
    Definition quad_seg (b : list vec) (n dim i : nat) : list (T * nat) :=
      if act (sx b n dim i 4 - sx b n dim i 0)%T
      then map (fun ii => ((bcoef (sx b n dim i 1 - sx b n dim i 0) * bw ii)%T, seg_idx n i ii)) [0; 1; 2; 3; 4]
      else [].
    Definition quad (b : list vec) (n dim : nat) : list (T * nat) :=
      flat_map (quad_seg b n dim) (seq 0 n).

    Lemma seg_term b n dim i (Y : nat -> T) :
      let seg := map (seg_idx n i) [0; 1; 2; 3; 4] in
      (if act (seg_extent (seg_coords b seg dim))
       then newton_cotes_4th (seg_coords b seg dim) (map Y seg) else 0%T) =
      sumf (quad_seg b n dim i) (fun p => (fst p * Y (snd p))%T).
    Proof.
      intros seg. unfold quad_seg.
      change (seg_extent (seg_coords b seg dim)) with (sx b n dim i 4 - sx b n dim i 0)%T.
      destruct (act _); [|reflexivity].
      change (newton_cotes_4th (seg_coords b seg dim) (map Y seg)) with
        (boole_h (sx b n dim i 1 - sx b n dim i 0)%T (Y (seg_idx n i 0)) (Y (seg_idx n i 1))
                 (Y (seg_idx n i 2)) (Y (seg_idx n i 3)) (Y (seg_idx n i 4))).
      unfold boole_h, bcoef. simpl. ring.
    Qed.

    Lemma seg_fold b n dim (Y : nat -> T) (l : list nat) acc :
      fold_left (fun acc seg =>
          let x := seg_coords b seg dim in
          if act (seg_extent x) then (acc + newton_cotes_4th x (map Y seg))%T else acc)
        (map (fun i => map (seg_idx n i) [0; 1; 2; 3; 4]) l) acc =
      (acc + sumf (flat_map (quad_seg b n dim) l) (fun p => (fst p * Y (snd p))%T))%T.
    Proof.
      rewrite (fold_left_sum _ (fun seg => if act (seg_extent (seg_coords b seg dim))
                    then newton_cotes_4th (seg_coords b seg dim) (map Y seg) else 0%T)).
      - f_equal. rewrite sumf_map, sumf_flat_map. apply sumf_ext. intros i _. apply seg_term.
      - intros a seg _. cbv zeta. destruct (act _); ring.
    Qed.

    (** the inner integral of boundary point [k] and the outer integral of one coordinate *)
    Lemma inner_int_quad fm jb nj dim k :
      inner_int act fm jb (sample_conn 5 nj) dim k =
      sumf (quad jb nj dim) (fun q => (fst q * get2 fm k (snd q))%T).
    Proof.
      unfold inner_int, quad. rewrite sample_conn5.
      rewrite (seg_fold jb nj dim (fun l => get2 fm k l)). ring.
    Qed.

    Lemma outer_dim_quad fm ib ni jb nj dim acc0 :
      outer_dim act fm ib (sample_conn 5 ni) jb (sample_conn 5 nj) dim acc0 =
      (acc0 + sumf (quad ib ni dim) (fun p =>
                (fst p * sumf (quad jb nj dim) (fun q => (fst q * get2 fm (snd p) (snd q))%T))%T))%T.
    Proof.
      unfold outer_dim, quad. rewrite (sample_conn5 ni).
      rewrite (seg_fold ib ni dim (fun k => inner_int act fm jb (sample_conn 5 nj) dim k)).
      f_equal. apply sumf_ext. intros p _. now rewrite inner_int_quad.
    Qed.

    (** bilinear form of two quadrature lists with a matrix *)
    Definition bil (QI QJ : list (T * nat)) (f : nat -> nat -> T) : T :=
      sumf QI (fun p => (fst p * sumf QJ (fun q => (fst q * f (snd p) (snd q))%T))%T).
    Definition dsum (ib : list vec) (ni : nat) (jb : list vec) (nj : nat) (f : nat -> nat -> T) : T :=
      sumf [0; 1; 2] (fun dim => bil (quad ib ni dim) (quad jb nj dim) f).

    Lemma stokes_outer_dsum pi pj :
      stokes_outer act pi pj =
      dsum (sample_pts 5 pi) (length pi) (sample_pts 5 pj) (length pj)
           (get2 (load_stokes_entries (sample_pts 5 pi) (sample_pts 5 pj))).
    Proof.
      unfold stokes_outer, dsum. cbv zeta.
      rewrite (fold_left_sum _ (fun dim => bil (quad (sample_pts 5 pi) (length pi) dim)
                                               (quad (sample_pts 5 pj) (length pj) dim)
                                               (get2 (load_stokes_entries (sample_pts 5 pi) (sample_pts 5 pj))))).
      - simpl seq. ring.
      - intros acc dim _. apply outer_dim_quad.
    Qed.

    Lemma bil_swap QI QJ f : bil QI QJ f = bil QJ QI (fun l k => f k l).
    Proof.
      unfold bil.
      rewrite (sumf_ext QI _ (fun p => sumf QJ (fun q => (fst p * (fst q * f (snd p) (snd q)))%T)))
        by (intros p _; now rewrite sumf_scale).
      rewrite sumf_swap. apply sumf_ext. intros q _.
      rewrite <- sumf_scale. apply sumf_ext. intros p _. ring.
    Qed.
    Lemma bil_ext QI QJ f g :
      (forall p q, In p QI -> In q QJ -> f (snd p) (snd q) = g (snd p) (snd q)) -> bil QI QJ f = bil QI QJ g.
    Proof.
      intros H. unfold bil. apply sumf_ext. intros p Hp. f_equal. apply sumf_ext. intros q Hq.
      now rewrite H.
    Qed.

    (** entries of the ln-distance matrix *)
    Lemma get2_load ib jb k l :
      get2 (load_stokes_entries ib jb) k l =
      if (k <? length ib) && (l <? length jb) then stokes_entry (nthv ib k) (nthv jb l) else 0%T.
    Proof.
      unfold get2, nthT, nthl, load_stokes_entries, nthv.
      destruct (Nat.ltb_spec k (length ib)) as [Hk|Hk]; simpl.
      - rewrite (nth_indep _ [] (map (fun q => stokes_entry vzero q) jb)) by (rewrite map_length; exact Hk).
        rewrite (map_nth (fun p => map (fun q => stokes_entry p q) jb) ib vzero k). cbv beta.
        destruct (Nat.ltb_spec l (length jb)) as [Hl|Hl].
        + rewrite (nth_indep _ 0%T (stokes_entry (nth k ib vzero) vzero)) by (rewrite map_length; exact Hl).
          now rewrite (map_nth (fun q => stokes_entry (nth k ib vzero) q) jb vzero l).
        + apply nth_overflow. rewrite map_length. exact Hl.
      - rewrite (nth_overflow (map (fun p => map (fun q => stokes_entry p q) jb) ib) [])
          by (rewrite map_length; exact Hk). now destruct l.
    Qed.

    Lemma vsub_norm_sym (p q : @vec T) : vnorm (vsub p q) = vnorm (vsub q p).
    Proof.
      unfold vnorm, vnorm2, vdot, vsub, mkv, vx, vy, vz. simpl. f_equal. ring.
    Qed.
    Lemma stokes_entry_sym (p q : @vec T) : stokes_entry p q = stokes_entry q p.
    Proof. unfold stokes_entry. now rewrite vsub_norm_sym. Qed.
    Lemma load_sym ib jb k l :
      get2 (load_stokes_entries ib jb) k l = get2 (load_stokes_entries jb ib) l k.
    Proof.
      rewrite !get2_load. rewrite (andb_comm (l <? length jb)).
      destruct (_ && _); [apply stokes_entry_sym|reflexivity].
    Qed.

    (** the double Boole sum is symmetric in the two patches -- with ANY segment rule [act] *)
    Theorem stokes_outer_sym pi pj : stokes_outer act pi pj = stokes_outer act pj pi.
    Proof.
      rewrite !stokes_outer_dsum. unfold dsum. apply sumf_ext. intros dim _.
      rewrite bil_swap. apply bil_ext. intros p q _ _. apply load_sym.
    Qed.

    (** ** translation *)
    Definition vtr (t p : @vec T) : vec := vadd p t.

    Lemma vsub_tr t a b : vsub (vtr t b) (vtr t a) = vsub b a.
    Proof. unfold vtr, vsub, vadd, mkv, vx, vy, vz. simpl. f_equal; [f_equal|]; ring. Qed.
    Lemma coord_tr t p dim : coord dim (vtr t p) = (coord dim p + coord dim t)%T.
    Proof. destruct p as [[x y] z], t as [[tx ty] tz]. destruct dim as [|[|dim]]; reflexivity. Qed.
    Lemma nthv_map_tr t el i : i < length el -> nthv (map (vtr t) el) i = vtr t (nthv el i).
    Proof.
      intros H. unfold nthv. rewrite (nth_indep _ vzero (vtr t vzero)) by now rewrite map_length.
      apply map_nth.
    Qed.
    Lemma vadd_tr_comm t a w : vadd (vtr t a) w = vtr t (vadd a w).
    Proof. unfold vtr, vadd, mkv, vx, vy, vz. simpl. f_equal; [f_equal|]; ring. Qed.

    Lemma bpoint_tr t el k : k < length el * 4 -> bpoint 4 (map (vtr t) el) k = vtr t (bpoint 4 el k).
    Proof.
      intros Hk. unfold bpoint. rewrite map_length.
      assert (Hn : length el <> 0) by lia.
      assert (Hi : k / 4 < length el) by (apply Nat.div_lt_upper_bound; lia).
      assert (Hi' : (k / 4 + 1) mod length el < length el) by now apply Nat.mod_upper_bound.
      rewrite !nthv_map_tr by assumption. rewrite vsub_tr. apply vadd_tr_comm.
    Qed.
    Lemma sample_pts_tr t el : sample_pts 5 (map (vtr t) el) = map (vtr t) (sample_pts 5 el).
    Proof.
      unfold sample_pts, tab. rewrite map_length, map_map. apply map_ext_in.
      intros k Hk. apply in_seq in Hk. change (5 - 1) with 4 in *. apply bpoint_tr. lia.
    Qed.
    Lemma sample_pts_length el : length (sample_pts 5 el) = 4 * length el.
    Proof. unfold sample_pts. rewrite tab_length. change (5 - 1) with 4. lia. Qed.

    Lemma seg_idx_lt n i ii : n <> 0 -> seg_idx n i ii < 4 * n.
    Proof. intros H. unfold seg_idx. apply Nat.mod_upper_bound. lia. Qed.

    Lemma quad_tr t b n dim : length b = 4 * n -> quad (map (vtr t) b) n dim = quad b n dim.
    Proof.
      intros Hl. unfold quad. apply flat_map_ext_in. intros i Hi. apply in_seq in Hi.
      assert (Hn : n <> 0) by lia.
      assert (E : forall ii, sx (map (vtr t) b) n dim i ii = (sx b n dim i ii + coord dim t)%T).
      { intros ii. unfold sx. rewrite nthv_map_tr by (rewrite Hl; now apply seg_idx_lt). apply coord_tr. }
      unfold quad_seg. rewrite !E.
      replace (sx b n dim i 4 + coord dim t - (sx b n dim i 0 + coord dim t))%T
        with (sx b n dim i 4 - sx b n dim i 0)%T by ring.
      replace (sx b n dim i 1 + coord dim t - (sx b n dim i 0 + coord dim t))%T
        with (sx b n dim i 1 - sx b n dim i 0)%T by ring.
      reflexivity.
    Qed.

    Lemma load_tr t ib jb k l :
      get2 (load_stokes_entries (map (vtr t) ib) (map (vtr t) jb)) k l = get2 (load_stokes_entries ib jb) k l.
    Proof.
      rewrite !get2_load, !map_length.
      destruct (Nat.ltb_spec k (length ib)); destruct (Nat.ltb_spec l (length jb)); simpl; try reflexivity.
      rewrite !nthv_map_tr by assumption. unfold stokes_entry. now rewrite vsub_tr.
    Qed.

    (** translating both patches by [t] changes nothing -- with ANY segment rule [act] that looks at
        the coordinate extent only (the code's cut-off included) *)
    Theorem stokes_outer_translate t pi pj :
      stokes_outer act (map (vtr t) pi) (map (vtr t) pj) = stokes_outer act pi pj.
    Proof.
      rewrite !stokes_outer_dsum. rewrite !sample_pts_tr, !map_length. unfold dsum.
      apply sumf_ext. intros dim _.
      rewrite !quad_tr by apply sample_pts_length.
      apply bil_ext. intros p q _ _. apply load_tr.
    Qed.
    Theorem stokes_gen_translate t pi pj a :
      stokes_gen act (map (vtr t) pi) (map (vtr t) pj) a = stokes_gen act pi pj a.
    Proof. unfold stokes_gen. now rewrite stokes_outer_translate. Qed.
  End OneAct.
End StokesSum.

(** * Facts that need division: reciprocity including the area normalisation, and the
    cut-off-free sum. *)
Section StokesField.
  Context {T : Type} {O : Ops T} {RL : RingLaws T} {OL : OrderLaws T} {FL : FieldLaws T}.
  Add Ring TRingSS2 : (@ring_th T O RL).

  Lemma c4_neq0 : (c4 : T) <> 0%T.
  Proof. unfold c4, c2. tnz. Qed.
  Lemma c45_neq0' : (c45 : T) <> 0%T.
  Proof. unfold c45, c4, c2. tnz. Qed.
  Lemma tnat4 : (tnat 4 : T) = c4.
  Proof. unfold c4, c2. simpl. ring. Qed.
  Lemma bcoef_0 : bcoef (0 : T)%T = 0%T.
  Proof. unfold bcoef. replace (c2 * 0)%T with (0 : T)%T by ring. apply tdiv_0_l, c45_neq0'. Qed.

  Lemma coord_vadd dim (a b : @vec T) : coord dim (vadd a b) = (coord dim a + coord dim b)%T.
  Proof. destruct a as [[? ?] ?], b as [[? ?] ?]. destruct dim as [|[|dim]]; reflexivity. Qed.
  Lemma coord_vsub dim (a b : @vec T) : coord dim (vsub a b) = (coord dim a - coord dim b)%T.
  Proof. destruct a as [[? ?] ?], b as [[? ?] ?]. destruct dim as [|[|dim]]; reflexivity. Qed.
  Lemma coord_vscale dim s (a : @vec T) : coord dim (vscale s a) = (s * coord dim a)%T.
  Proof. destruct a as [[? ?] ?]. destruct dim as [|[|dim]]; reflexivity. Qed.
  Lemma coord_vdivs dim s (a : @vec T) : coord dim (vdivs a s) = (coord dim a / s)%T.
  Proof. destruct a as [[? ?] ?]. destruct dim as [|[|dim]]; reflexivity. Qed.

  (** signed coordinate extent of edge [i] of a polygon *)
  Definition edge_ext (el : list (@vec T)) (dim i : nat) : T :=
    (coord dim (nthv el ((i + 1) mod length el)) - coord dim (nthv el i))%T.

  Lemma coord_bpoint el dim i ii : ii < 4 ->
    coord dim (bpoint 4 el (i * 4 + ii)) =
    (coord dim (nthv el i) + (tnat ii * edge_ext el dim i) / tnat 4)%T.
  Proof.
    intros Hii. unfold bpoint, edge_ext.
    replace ((i * 4 + ii) / 4) with i by (rewrite Nat.div_add_l by lia; rewrite (Nat.div_small ii 4) by lia; lia).
    replace ((i * 4 + ii) mod 4) with ii
      by (rewrite Nat.add_comm, Nat.mod_add by lia; now rewrite Nat.mod_small).
    now rewrite coord_vadd, coord_vdivs, coord_vscale, coord_vsub.
  Qed.

  (** the five samples of segment [i]: vertex, ..., next vertex *)
  Lemma sx_inner el dim i ii : i < length el -> ii < 4 ->
    sx (sample_pts 5 el) (length el) dim i ii =
    (coord dim (nthv el i) + (tnat ii * edge_ext el dim i) / tnat 4)%T.
  Proof.
    intros Hi Hii. unfold sx, seg_idx. rewrite Nat.mod_small by lia.
    unfold sample_pts, nthv. change (5 - 1) with 4. rewrite nth_tab by lia. now apply coord_bpoint.
  Qed.
  Lemma sx_last el dim i : i < length el ->
    sx (sample_pts 5 el) (length el) dim i 4 = coord dim (nthv el ((i + 1) mod length el)).
  Proof.
    intros Hi. unfold sx, seg_idx.
    replace (i * 4 + 4) with (4 * (i + 1)) by lia.
    rewrite Nat.mul_mod_distr_l by lia.
    assert (Hm : (i + 1) mod length el < length el) by (apply Nat.mod_upper_bound; lia).
    unfold sample_pts, nthv. change (5 - 1) with 4. rewrite nth_tab by lia.
    replace (4 * ((i + 1) mod length el)) with (((i + 1) mod length el) * 4 + 0) by lia.
    rewrite coord_bpoint by lia. change (tnat 0 : T) with (0 : T)%T.
    replace (0 * edge_ext el dim ((i + 1) mod length el))%T with (0 : T)%T by ring.
    rewrite tdiv_0_l by (rewrite tnat4; apply c4_neq0).
    unfold nthv. ring.
  Qed.
  Lemma sx_first el dim i : i < length el ->
    sx (sample_pts 5 el) (length el) dim i 0 = coord dim (nthv el i).
  Proof.
    intros Hi. rewrite sx_inner by lia. change (tnat 0 : T) with (0 : T)%T.
    replace (0 * edge_ext el dim i)%T with (0 : T)%T by ring.
    rewrite tdiv_0_l by (rewrite tnat4; apply c4_neq0). ring.
  Qed.
  (** the tested extent is the vertex difference; the Boole step vanishes with it *)
  Lemma sx_extent el dim i : i < length el ->
    (sx (sample_pts 5 el) (length el) dim i 4 - sx (sample_pts 5 el) (length el) dim i 0)%T = edge_ext el dim i.
  Proof. intros Hi. now rewrite sx_last, sx_first. Qed.
  Lemma sx_step_zero el dim i : i < length el -> edge_ext el dim i = 0%T ->
    (sx (sample_pts 5 el) (length el) dim i 1 - sx (sample_pts 5 el) (length el) dim i 0)%T = 0%T.
  Proof.
    intros Hi He. rewrite sx_first by assumption. rewrite sx_inner by lia. rewrite He.
    replace (tnat 1 * 0)%T with (0 : T)%T by ring.
    rewrite tdiv_0_l by (rewrite tnat4; apply c4_neq0). ring.
  Qed.

  (** two segment rules that differ only on segments of extent exactly 0 give the same sums *)
  Definition rules_agree (act1 act2 : T -> bool) (el : list (@vec T)) : Prop :=
    forall dim i, i < length el -> edge_ext el dim i = 0%T \/ act1 (edge_ext el dim i) = act2 (edge_ext el dim i).

  Lemma quad_sum_agree act1 act2 el dim (Y : nat -> T) : rules_agree act1 act2 el ->
    sumf (quad act1 (sample_pts 5 el) (length el) dim) (fun p => (fst p * Y (snd p))%T) =
    sumf (quad act2 (sample_pts 5 el) (length el) dim) (fun p => (fst p * Y (snd p))%T).
  Proof.
    intros H. unfold quad. rewrite !sumf_flat_map. apply sumf_ext. intros i Hi. apply in_seq in Hi.
    unfold quad_seg. rewrite sx_extent by lia.
    destruct (H dim i) as [He|He]; [lia| |now rewrite He].
    rewrite sx_step_zero by (assumption || lia). rewrite bcoef_0.
    destruct (act1 _), (act2 _); simpl; ring.
  Qed.

  Lemma bil_agree act1 act2 pi pj dim f : rules_agree act1 act2 pi -> rules_agree act1 act2 pj ->
    bil (quad act1 (sample_pts 5 pi) (length pi) dim) (quad act1 (sample_pts 5 pj) (length pj) dim) f =
    bil (quad act2 (sample_pts 5 pi) (length pi) dim) (quad act2 (sample_pts 5 pj) (length pj) dim) f.
  Proof.
    intros Hi Hj. unfold bil.
    rewrite (quad_sum_agree act1 act2 pi dim
               (fun k => sumf (quad act1 (sample_pts 5 pj) (length pj) dim) (fun q => (fst q * f k (snd q))%T)) Hi).
    apply sumf_ext. intros p _. f_equal.
    apply (quad_sum_agree act1 act2 pj dim (fun l => f (snd p) l) Hj).
  Qed.

  Theorem stokes_outer_agree act1 act2 pi pj : rules_agree act1 act2 pi -> rules_agree act1 act2 pj ->
    stokes_outer act1 pi pj = stokes_outer act2 pi pj.
  Proof.
    intros Hi Hj. rewrite !stokes_outer_dsum. unfold dsum. apply sumf_ext. intros dim _.
    now apply bil_agree.
  Qed.

  (** C05_similarity (a): no segment has a coordinate extent in (0, cut] *)
  Definition no_small_extent (cut : T) (el : list (@vec T)) : Prop :=
    forall dim i, i < length el -> edge_ext el dim i = 0%T \/ cut_active cut (edge_ext el dim i) = true.

  Theorem stokes_cut_is_nocut cut pi pj a : no_small_extent cut pi -> no_small_extent cut pj ->
    stokes_integration cut pi pj a = stokes_nocut pi pj a.
  Proof.
    intros Hi Hj. unfold stokes_integration, stokes_nocut, stokes_gen.
    rewrite (stokes_outer_agree (cut_active cut) (fun _ => true) pi pj); [reflexivity| |].
    - intros dim i H. destruct (Hi dim i H) as [E|E]; [now left|right; exact E].
    - intros dim i H. destruct (Hj dim i H) as [E|E]; [now left|right; exact E].
  Qed.
End StokesField.

(** * Reciprocity of the Stokes value including the normalisation by the area *)
Section StokesRecip.
  Context {T : Type} {O : Ops T} {RL : RingLaws T} {OL : OrderLaws T} {FL : FieldLaws T} {AL : AbsLaws T}.
  Add Ring TRingSS3 : (@ring_th T O RL).

  Lemma tabs_scale (a y : T) : (0 < a)%T -> tabs (a * y)%T = (a * tabs y)%T.
  Proof.
    intros Ha. assert (Ha' : (0 <= a)%T) by now apply tlt_le.
    destruct (tle_total 0%T y) as [Hy|Hy].
    - rewrite (abs_pos y Hy). apply abs_pos. now apply tmul_nonneg.
    - rewrite (abs_neg y Hy). rewrite abs_neg; [ring|].
      assert (H : (0 <= a * - y)%T) by (apply tmul_nonneg; [assumption|now apply topp_nonneg]).
      apply topp_le in H. replace (- (a * - y))%T with (a * y)%T in H by ring.
      replace (- 0)%T with (0 : T)%T in H by ring. exact H.
  Qed.

  Lemma area_cancel (a d X : T) : a <> 0%T -> d <> 0%T -> (a * (X / (d * a)))%T = (X / d)%T.
  Proof.
    intros Ha Hd. apply (tmul_cancel_r _ _ d Hd). rewrite (tdiv_mul X d Hd).
    replace (a * (X / (d * a)) * d)%T with ((X / (d * a)) * (d * a))%T by ring.
    apply tdiv_mul. now apply tmul_neq0.
  Qed.

  Theorem stokes_reciprocity act pi pj (ai aj : T) :
    (0 < tpi)%T -> (0 < ai)%T -> (0 < aj)%T ->
    (ai * stokes_gen act pi pj ai)%T = (aj * stokes_gen act pj pi aj)%T.
  Proof.
    intros Hpi Hi Hj. unfold stokes_gen.
    assert (Hd : (c2 * tpi)%T <> 0%T) by (apply tmul_neq0; [unfold c2; tnz|now apply tpos_neq0]).
    rewrite <- !tabs_scale by assumption.
    rewrite !area_cancel by first [assumption | apply tpos_neq0; assumption].
    now rewrite (stokes_outer_sym act pi pj).
  Qed.
End StokesRecip.

(** * Similarity statements: carried by [Proofs/StokesSimilarity.v]

    With [M] a 3x3 matrix acting on [vec] ([mapply M] of Spec/Isometry.v):

    (cut 0)  [stokes_cut0_is_nocut]: [stokes_integration 0 pi pj a = stokes_nocut pi pj a] for all
      patches (no extent lies in (0, 0]; instance of [stokes_cut_is_nocut] above).  This is the code
      as repaired in /repo ([np.abs(x[-1]-x[0]) > 0]).

    (b-iso)  [stokes_nocut_rigid], [stokes_nocut_orthogonal], [stokes_cut0_rigid]:
      forall M t pi pj a, (forall x y, vdot (mapply M x) (mapply M y) = vdot x y) ->
        stokes_nocut (map (fun x => vadd (mapply M x) t) pi) (map (fun x => vadd (mapply M x) t) pj) a
        = stokes_nocut pi pj a.
      With every segment active [dsum] = sum over (segment i, segment j) of
      (2/45)^2 * <e_i, e_j> * G(i,j) ([dsum_true]); [e_i] the step vector of segment i, [G] the block of
      Boole weights and ln-distance entries; the entries only contain |p - q|.

    (b-scale) [stokes_nocut_scale], [stokes_outer_nocut_scale], [stokes_cut0_scale]:
      forall s pi pj a, 0 < s ->
        (forall p q, In p (sample_pts 5 pi) -> In q (sample_pts 5 pj) -> 0 < vnorm (vsub p q)) ->
        tpi <> 0 -> a <> 0 ->
        stokes_nocut (map (vscale s) pi) (map (vscale s) pj) (s * s * a) = stokes_nocut pi pj a
      under [SqrtLaws] and [LnLaws] (ln (x y) = ln x + ln y for positive x, y).  The ln s term multiplies
      the sum of the step vectors of a closed polygon, which is 0 ([step_sum_zero]).  The two side
      conditions [tpi <> 0], [a <> 0] are needed because [FieldLaws] says nothing about x / 0; the
      double sum itself picks up s*s without them.

    (c) [stokes_integration_sperm]: signed axis permutations, ANY cut-off included.
      forall (sigma : nat -> nat) (e0 e1 e2 : T) cut pi pj a,
        Permutation [sigma 0; sigma 1; sigma 2] [0; 1; 2] ->
        (e0 = 1 \/ e0 = - 1) -> (e1 = 1 \/ e1 = - 1) -> (e2 = 1 \/ e2 = - 1) ->
        let M p := (e0 * coord (sigma 0) p, e1 * coord (sigma 1) p, e2 * coord (sigma 2) p) in
        stokes_integration cut (map M pi) (map M pj) a = stokes_integration cut pi pj a.

    The statement for a POSITIVE cut-off under general rotations / scalings is false: that was the
    finding [similarity_cutoff] on the pinned code (cut = 1e-3), since repaired in /repo (cut = 0).

    C05_partial, not proved and not attempted: F <= 1, row sums of a closed room within 2.5 % of 1,
    and every statement about the Nusselt branch (accuracy of the quadratures, cf. DESIGN.md C06). *)
