(** * C16: the final stages depend on the configuration in force UP TO the normalisation of kinds and
    ownership tags ([ObjectSpec.norm]).

    [ObjectConfig.cfg_eq] is Leibniz equality of the twelve configuration descriptors (kind, shape,
    provenance, ownership).  A dictionary / file round trip changes kinds (object ndarray -> list) and
    ownership tags, so a restored object is never [cfg_eq] to the object it was saved from, and the
    history theorem of [ObjectTail] does not speak about histories that differ by a round trip.
    Here the hypothesis is weakened to [cfg_eq (norm s) (norm s')] -- the configurations agree after
    normalisation -- by composing [tail_cfg] with the full bisimulation of C15
    ([ObjectBisimFull.bisim_trace_full]: the tail contains no direct-sound collect).  The conclusion is
    the same for the classes; the receiver collection is compared without direct sound (the direct
    sound reads the unserialised [_source], which [norm] drops: finding restore_direct_sound). *)
From Coq Require Import List Arith Bool Lia.
Import ListNotations.
From SV Require Import Model.Object Spec.ObjectSpec Proofs.ObjectProofs Proofs.ObjectConfig Proofs.ObjectTail
  Proofs.ObjectBisimFull.

Lemma classes_of_pairs (l l' : list (rclass * ostate * obs)) :
  map (fun r => (oclass_of r, oobs_of r)) l = map (fun r => (oclass_of r, oobs_of r)) l' ->
  map oclass_of l = map oclass_of l'.
Proof.
  intros H. apply (f_equal (map fst)) in H. rewrite !map_map in H. exact H.
Qed.

Lemma tail_no_direct src tid ns order :
  forallb (fun o => negb (direct_collect o)) (tail src tid ns order) = true.
Proof. reflexivity. Qed.

Lemma collect_of_step g s recv direct :
  ocollect g s recv direct = (oclass_of (ostep g s (OpCollect recv direct)), oobs_of (ostep g s (OpCollect recv direct))).
Proof. cbn [ostep]. destruct (ocollect g s recv direct) as [c ob]. reflexivity. Qed.

Lemma collect_sim g s s' recv : sim s s' -> ocollect g s recv false = ocollect g s' recv false.
Proof.
  intros H. rewrite !collect_of_step.
  pose proof (bisim_step_full g s s' (OpCollect recv false) eq_refl H) as E. unfold normr in E.
  exact (f_equal2 pair (f_equal (fun x => fst (fst x)) E) (f_equal snd E)).
Qed.

Theorem tail_cfg_sim g s s' src tid ns order :
  cfg_eq (norm s) (norm s') ->
  upto_fail (tail_classes g s (tail src tid ns order)) = upto_fail (tail_classes g s' (tail src tid ns order)) /\
  (forallb rok (tail_classes g s (tail src tid ns order)) = true ->
   forall recv,
     ocollect g (orun g s (tail src tid ns order)) recv false =
     ocollect g (orun g s' (tail src tid ns order)) recv false).
Proof.
  intros H.
  destruct (bisim_trace_full g (tail src tid ns order) s (norm s) (tail_no_direct _ _ _ _) (sim_sym _ _ (sim_norm s)))
    as [T1 S1].
  destruct (bisim_trace_full g (tail src tid ns order) s' (norm s') (tail_no_direct _ _ _ _) (sim_sym _ _ (sim_norm s')))
    as [T2 S2].
  apply classes_of_pairs in T1. apply classes_of_pairs in T2.
  destruct (tail_cfg g (norm s) (norm s') src tid ns order H) as [C1 C2].
  unfold tail_classes in *. split.
  - rewrite T1, T2. exact C1.
  - intros Hok recv. rewrite T1 in Hok.
    rewrite (collect_sim g _ _ recv S1), (collect_sim g _ _ recv S2). exact (C2 Hok recv false).
Qed.

Corollary final_config_history_independent_sim g h h' src tid ns order :
  cfg_eq (norm (orun g (init g) h)) (norm (orun g (init g) h')) ->
  upto_fail (tail_classes g (orun g (init g) h) (tail src tid ns order)) =
  upto_fail (tail_classes g (orun g (init g) h') (tail src tid ns order)) /\
  (forallb rok (tail_classes g (orun g (init g) h) (tail src tid ns order)) = true ->
   forall recv,
     ocollect g (orun g (init g) (h ++ tail src tid ns order)) recv false =
     ocollect g (orun g (init g) (h' ++ tail src tid ns order)) recv false).
Proof.
  intros H. destruct (tail_cfg_sim g _ _ src tid ns order H) as [A B]. split; [exact A|].
  intros Hok recv.
  assert (E : forall x y, orun g (init g) (x ++ y) = orun g (orun g (init g) x) y)
    by (intros x y; unfold orun; apply fold_left_app).
  rewrite !E. exact (B Hok recv).
Qed.

(** [cfg_eq] implies its normalised form: the new hypothesis is weaker *)
Lemma cfg_eq_norm s s' : cfg_eq s s' -> cfg_eq (norm s) (norm s').
Proof.
  intros [H1 H2 H3 H4 H5 H6 H7 H8 H9 H10 H11 H12].
  constructor; unfold norm; destruct s, s'; cbn in *; congruence.
Qed.
