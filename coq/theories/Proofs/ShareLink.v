(** * The two modes of [pt_solution] are linked: receiver factor = 4 x source share / area.
    This discharges the first half of [ReciprocityModel.linked] from the model of the
    point-to-patch kernel. *)
From Coq Require Import List Arith Bool Ring.
Import ListNotations.
From SV Require Import Base.Ops Model.Vec3 Model.Scene Model.PtSolution Proofs.ReciprocityModel.

Section ShareLink.
  Context {T : Type} {O : Ops T} {RL : RingLaws T} {FL : FieldLaws T}.
  Add Ring TRingSL : (@ring_th T O RL).

  Lemma tmul_cancel_inv (x y c : T) : c <> 0%T -> (x * c)%T = (y * c)%T -> x = y.
  Proof.
    intros Hc H. transitivity ((x * c) * (1 / c))%T.
    - transitivity (x * (c * (1 / c)))%T; [rewrite tinv_r by exact Hc; ring|ring].
    - rewrite H. transitivity (y * (c * (1 / c)))%T; [ring|rewrite tinv_r by exact Hc; ring].
  Qed.

  Theorem share_link (thr : T) (pt : @vec T) (pts : list (@vec T)) :
    tpi <> 0%T -> @four T O <> 0%T -> poly_area pts <> 0%T ->
    (forall a c : T, a <> 0%T -> c <> 0%T -> (a * c)%T <> 0%T) ->
    (pt_solution thr true pt pts * poly_area pts)%T = (four * pt_solution thr false pt pts)%T.
  Proof.
    intros Hpi H4 HA Hnz. unfold pt_solution, source_area.
    apply (tmul_cancel_inv _ _ tpi Hpi).
    transitivity ((excess thr pt pts / (tpi * poly_area pts)) * (tpi * poly_area pts))%T; [ring|].
    rewrite tdiv_mul by (apply Hnz; assumption).
    transitivity ((excess thr pt pts / (tpi * four)) * (tpi * four))%T; [|ring].
    now rewrite tdiv_mul by (apply Hnz; assumption).
  Qed.

  (** in the form used by [linked]: recv = (four * src) * (1 / area) *)
  Corollary share_link_inv (thr : T) (pt : @vec T) (pts : list (@vec T)) :
    tpi <> 0%T -> @four T O <> 0%T -> poly_area pts <> 0%T ->
    (forall a c : T, a <> 0%T -> c <> 0%T -> (a * c)%T <> 0%T) ->
    pt_solution thr true pt pts = ((four * pt_solution thr false pt pts) * (1 / poly_area pts))%T.
  Proof.
    intros Hpi H4 HA Hnz. rewrite <- (share_link thr pt pts Hpi H4 HA Hnz).
    transitivity (pt_solution thr true pt pts * (poly_area pts * (1 / poly_area pts)))%T; [|ring].
    rewrite tinv_r by exact HA. ring.
  Qed.
End ShareLink.
