(** * [point_in_polygon] decides membership for every axis-aligned rectangular surface
    (the six wall orientations of a shoebox room, any of the 8 vertex orders), and the segment
    logic of [basic_visibility] for such surfaces without any assumption on [point_in_polygon].

    [rotation_to_z n] is computed for the six unit axis normals:
    - n = (0,0,1): the vectors coincide, identity;
    - n = (0,0,-1): c = -1, the fixed flip matrix diag(-1,1,-1);
    - n = (nx,ny,0) with nx^2+ny^2 = 1 (in particular the four horizontal axis normals): c = 0,
      the general Rodrigues branch with |v| = 1 and (1-c)/s^2 = 1.
    After dropping z the image of a point is (+-u, +-v) or (+-v, +-u) in the in-plane coordinates
    (u,v) of the wall, so axis-aligned rectangles go to axis-aligned rectangles and the result of
    Proofs/PipRect.v transfers. *)
From Coq Require Import List Arith Bool Ring Lia ZArith.
Import ListNotations.
From SV Require Import Base.Ops Base.Arr Model.Vec3 Model.Visibility Spec.VisibilitySpec
  Proofs.OrderField Proofs.VisibilitySym Proofs.VisibilitySegment Proofs.PipRect.

Section PipRectSurface.
  Context {T : Type} {O : Ops T} {RL : RingLaws T} {OL : OrderLaws T} {FL : FieldLaws T}
          {SL : SqrtLaws T}.
  Add Ring TRingPipRectS : (@ring_th T O RL).
  Local Notation vec := (@vec T).
  Local Open Scope T_scope.

  Lemma vec_ext3 (a b c a' b' c' : T) : a = a' -> b = b' -> c = c' -> (a, b, c) = (a', b', c').
  Proof. now intros -> -> ->. Qed.
  Lemma mat_ext9 (r0 r1 r2 r0' r1' r2' : T * T * T) :
    r0 = r0' -> r1 = r1' -> r2 = r2' -> (r0, r1, r2) = (r0', r1', r2').
  Proof. now intros -> -> ->. Qed.

  Ltac vunfold := unfold vnorm2, vdot, vcross, vsub, vadd, vscale, vdivs, mkv, vx, vy, vz; cbn [fst snd].
  Ltac veq := vunfold; apply vec_ext3; ring.
  Ltac munfold :=
    unfold flat, mvec, madd, mscale_r, mmul, mrow_mul, kmat, mat_id, mat_flip, vscale_r,
           mcol0, mcol1, mcol2, mrow0, mrow1, mrow2, mkm; cbn [fst snd]; vunfold.

  (** ** the rotation to the z axis for the six axis normals *)
  Lemma veqb_refl (v : vec) : veqb v v = true.
  Proof. unfold veqb. now rewrite !teqb_refl. Qed.

  Lemma vnorm_unit (v : vec) : vnorm2 v = 1 -> vnorm v = 1.
  Proof. unfold vnorm. intros ->. apply tsqrt_one. Qed.

  Lemma vdivs_one (v : vec) : vdivs v 1 = v.
  Proof. destruct v as [[x y] z]. unfold vdivs, mkv, vx, vy, vz. cbn [fst snd]. now rewrite !tdiv_one. Qed.

  Lemma vnorm_ez : vnorm (@ez T O) = 1.
  Proof. apply vnorm_unit. unfold ez. vunfold. ring. Qed.

  Lemma rotation_to_z_up : rotation_to_z (mkv 0 0 1 : vec) = mat_id.
  Proof. unfold rotation_to_z, rotation_matrix. fold (@ez T O). now rewrite veqb_refl. Qed.

  Lemma rotation_to_z_down : rotation_to_z (mkv 0 0 (- (1)) : vec) = mat_flip.
  Proof.
    unfold rotation_to_z, rotation_matrix.
    assert (Hv : veqb (mkv 0 0 (- (1)) : vec) ez = false).
    { unfold veqb, ez. cbn [vx vy vz mkv fst snd].
      rewrite (teqb_neq _ _ tmone_neq_one). apply andb_false_r. }
    rewrite Hv. cbv zeta.
    rewrite vnorm_ez, (vnorm_unit (mkv 0 0 (- (1)))) by (vunfold; ring).
    rewrite !vdivs_one.
    replace (vdot (mkv 0 0 (- (1))) ez) with (- (1) : T) by (unfold ez; vunfold; ring).
    now rewrite (teqb_neq _ _ tmone_neq_one), teqb_refl.
  Qed.

  (** every horizontal unit normal: the first two rows of the Rodrigues matrix *)
  Lemma rotation_to_z_horizontal (nx ny : T) :
    nx * nx + ny * ny = 1 ->
    rotation_to_z (mkv nx ny 0)
    = mkm (mkv (1 - nx * nx) (- (nx * ny)) (- nx)) (mkv (- (nx * ny)) (1 - ny * ny) (- ny))
          (mkv nx ny (1 - (nx * nx + ny * ny))).
  Proof.
    intros H. unfold rotation_to_z, rotation_matrix.
    assert (Hv : veqb (mkv nx ny 0) ez = false).
    { unfold veqb, ez. cbn [vx vy vz mkv fst snd].
      rewrite (teqb_neq _ _ tzero_neq_one). apply andb_false_r. }
    rewrite Hv. cbv zeta.
    rewrite vnorm_ez, (vnorm_unit (mkv nx ny 0)) by (vunfold; rewrite <- H; ring).
    rewrite !vdivs_one.
    replace (vdot (mkv nx ny 0) ez) with (0 : T) by (unfold ez; vunfold; ring).
    rewrite (teqb_neq _ _ tzero_neq_one), (teqb_neq _ _ tzero_neq_mone).
    replace (vcross (mkv nx ny 0) ez) with (mkv ny (- nx) 0) by (unfold ez; veq).
    rewrite (vnorm_unit (mkv ny (- nx) 0)) by (vunfold; rewrite <- H; ring).
    replace ((1 - 0) / (1 * 1)) with (1 : T)
      by (replace (1 - 0) with (1 : T) by ring; replace (1 * 1) with (1 : T) by ring; now rewrite tdiv_one).
    munfold. apply mat_ext9; apply vec_ext3; ring.
  Qed.

  (** ** the six wall orientations *)
  Inductive axis : Type := AxX | AxY | AxZ.

  (** the point with coordinate [c] along the axis and in-plane coordinates (u, v) *)
  Definition emb (ax : axis) (c u v : T) : vec :=
    match ax with AxX => mkv c u v | AxY => mkv u c v | AxZ => mkv u v c end.
  Definition ccoord (ax : axis) (x : vec) : T := match ax with AxX => vx x | AxY => vy x | AxZ => vz x end.
  Definition ucoord (ax : axis) (x : vec) : T := match ax with AxX => vy x | AxY => vx x | AxZ => vx x end.
  Definition vcoord (ax : axis) (x : vec) : T := match ax with AxX => vz x | AxY => vz x | AxZ => vy x end.

  Definition sgn (up : bool) : T := if up then 1 else - (1).
  Definition axis_normal (ax : axis) (up : bool) : vec := emb ax (sgn up) 0 0.

  (** what [point_in_polygon] makes of a point: rotate to z, drop z *)
  Definition proj2d (ax : axis) (up : bool) (q : vec) : vec :=
    match ax, up with
    | AxZ, true => mkv (vx q) (vy q) 0
    | AxZ, false => mkv (- vx q) (vy q) 0
    | AxX, true => mkv (- vz q) (vy q) 0
    | AxX, false => mkv (vz q) (vy q) 0
    | AxY, true => mkv (vx q) (- vz q) 0
    | AxY, false => mkv (vx q) (vz q) 0
    end.

  Lemma rot_proj (ax : axis) (up : bool) (q : vec) :
    flat (mvec (rotation_to_z (axis_normal ax up)) q) = proj2d ax up q.
  Proof.
    destruct q as [[q1 q2] q3].
    destruct ax, up; unfold axis_normal, emb, sgn, proj2d.
    - rewrite (rotation_to_z_horizontal 1 0) by ring. munfold. apply vec_ext3; ring.
    - rewrite (rotation_to_z_horizontal (- (1)) 0) by ring. munfold. apply vec_ext3; ring.
    - rewrite (rotation_to_z_horizontal 0 1) by ring. munfold. apply vec_ext3; ring.
    - rewrite (rotation_to_z_horizontal 0 (- (1))) by ring. munfold. apply vec_ext3; ring.
    - rewrite rotation_to_z_up. munfold. apply vec_ext3; ring.
    - rewrite rotation_to_z_down. munfold. apply vec_ext3; ring.
  Qed.

  (** [point_in_polygon] past the coplanarity gate, for an axis normal *)
  Lemma pip_axis (eps eta : T) (p : vec) (poly : list vec) (ax : axis) (up : bool) :
    tabs (vdot (vsub p (nthv poly 0)) (axis_normal ax up)) <= eta ->
    point_in_polygon eps eta p poly (axis_normal ax up)
    = negb (Z.eqb (winding eps eta (proj2d ax up p) (map (proj2d ax up) poly)) 0%Z).
  Proof.
    intros Hg. unfold point_in_polygon. rewrite (tltb_false_of_le _ _ Hg).
    rewrite rot_proj. rewrite (map_ext _ _ (rot_proj ax up)). reflexivity.
  Qed.

  (** ** axis-aligned rectangular surfaces *)
  Record rect : Type := mkrect {
    r_axis : axis;        (* the axis the surface is orthogonal to *)
    r_up : bool;          (* normal = + / - the unit vector of that axis *)
    r_c : T;              (* position of the plane along the axis *)
    r_ua : T; r_ub : T;   (* the two corners in the in-plane coordinates (u, v): (ua,va) is the *)
    r_va : T; r_vb : T;   (* first vertex, (ub,vb) the opposite one *)
    r_vfirst : bool       (* second vertex is (ua,vb) (true) or (ub,va) (false) *)
  }.

  Definition rect_pts (r : rect) : list vec :=
    let e := emb (r_axis r) (r_c r) in
    if r_vfirst r
    then [e (r_ua r) (r_va r); e (r_ua r) (r_vb r); e (r_ub r) (r_vb r); e (r_ub r) (r_va r)]
    else [e (r_ua r) (r_va r); e (r_ub r) (r_va r); e (r_ub r) (r_vb r); e (r_ua r) (r_vb r)].
  Definition rect_nrm (r : rect) : vec := axis_normal (r_axis r) (r_up r).
  Definition rect_surface (r : rect) : surface := (rect_pts r, rect_nrm r).
  (** non-degenerate *)
  Definition rect_wf (r : rect) : Prop := r_ua r <> r_ub r /\ r_va r <> r_vb r.

  (** the open rectangle (as a prism: the in-plane coordinates only) and the closed one *)
  Definition in_rect (r : rect) (x : vec) : Prop :=
    between (r_ua r) (r_ub r) (ucoord (r_axis r) x) /\ between (r_va r) (r_vb r) (vcoord (r_axis r) x).
  Definition between_c (a b c : T) : Prop := (a <= c /\ c <= b) \/ (b <= c /\ c <= a).
  Definition in_rect_closed (r : rect) (x : vec) : Prop :=
    between_c (r_ua r) (r_ub r) (ucoord (r_axis r) x) /\ between_c (r_va r) (r_vb r) (vcoord (r_axis r) x).
  (** farther than [m] from the four edge lines *)
  Definition off_bands (m : T) (r : rect) (x : vec) : Prop :=
    m < tabs (ucoord (r_axis r) x - r_ua r) /\ m < tabs (ucoord (r_axis r) x - r_ub r) /\
    m < tabs (vcoord (r_axis r) x - r_va r) /\ m < tabs (vcoord (r_axis r) x - r_vb r).

  Lemma between_c_off (m a b c : T) :
    0 <= m -> m < tabs (c - a) -> m < tabs (c - b) -> (between_c a b c <-> between a b c).
  Proof.
    intros Hm Ma Mb. pose proof (off_neq m a c Hm Ma) as Na. pose proof (off_neq m b c Hm Mb) as Nb.
    assert (S : forall x y : T, x <= y -> x <> y -> x < y).
    { intros x y L N. destruct (tle_lt_or_eq _ _ L); [assumption|contradiction]. }
    unfold between_c, between. split.
    - intros [[H1 H2]|[H1 H2]]; [left|right]; split; apply S; auto.
    - intros [[H1 H2]|[H1 H2]]; [left|right]; split; now apply tlt_le.
  Qed.

  Lemma in_rect_closed_iff (m : T) (r : rect) (x : vec) :
    0 <= m -> off_bands m r x -> (in_rect_closed r x <-> in_rect r x).
  Proof.
    intros Hm (M1 & M2 & M3 & M4). unfold in_rect_closed, in_rect.
    rewrite (between_c_off m _ _ _ Hm M1 M2), (between_c_off m _ _ _ Hm M3 M4). tauto.
  Qed.

  Lemma topp_neq (a b : T) : a <> b -> - a <> - b.
  Proof. intros N E. apply N. replace a with (- - a) by ring. rewrite E. ring. Qed.

  (** the 2-D result with a margin on all four lines, both vertex-order families *)
  Lemma winding_rect2 (eps eta m px py xa xb ya yb : T) (vfirst : bool) :
    0 <= eps -> eps < 1 -> 0 <= eta -> eta <= m + m -> xa <> xb -> ya <> yb ->
    m < tabs (px - xa) -> m < tabs (px - xb) -> m < tabs (py - ya) -> m < tabs (py - yb) ->
    (winding eps eta (mkv px py 0)
       (if vfirst then [mkv xa ya 0; mkv xa yb 0; mkv xb yb 0; mkv xb ya 0]
        else [mkv xa ya 0; mkv xb ya 0; mkv xb yb 0; mkv xa yb 0]) <> 0%Z)
    <-> between xa xb px /\ between ya yb py.
  Proof.
    intros He He1 Heta Hm Nx Ny Mxa Mxb Mya Myb.
    pose proof (half_nonneg m (tle_trans _ _ _ Heta Hm)) as Hm0.
    pose proof (off_neq m xa px Hm0 Mxa) as Pxa. pose proof (off_neq m xb px Hm0 Mxb) as Pxb.
    destruct vfirst.
    - now apply (winding_rectV eps eta m).
    - now apply (winding_rectH eps eta m).
  Qed.

  (** ** result 1 + 2: [point_in_polygon] is correct for every axis-aligned rectangular surface,
      at every point within eta of its plane and farther than [m] (eta <= 2 m) from its four
      edge lines *)
  Theorem pip_correct_rect (eps eta m : T) (r : rect) (x : vec) :
    0 <= eps -> eps < 1 -> 0 <= eta -> eta <= m + m -> rect_wf r ->
    tabs (side_of (rect_surface r) x) <= eta -> off_bands m r x ->
    pip_correct_at eps eta (in_rect r) (rect_surface r) x.
  Proof.
    intros He He1 Heta Hm [Nu Nv] Hg (M1 & M2 & M3 & M4).
    unfold pip_correct_at, pip.
    change (s_nrm (rect_surface r)) with (axis_normal (r_axis r) (r_up r)).
    change (s_pts (rect_surface r)) with (rect_pts r).
    rewrite (pip_axis eps eta x (rect_pts r) (r_axis r) (r_up r) Hg).
    rewrite negb_true_iff, Z.eqb_neq.
    destruct r as [ax up c ua ub va vb vf]. destruct x as [[x1 x2] x3].
    unfold in_rect, rect_pts.
    cbn [r_axis r_up r_c r_ua r_ub r_va r_vb r_vfirst] in *.
    pose proof (topp_neq _ _ Nu) as Nu'. pose proof (topp_neq _ _ Nv) as Nv'.
    destruct ax, up; unfold proj2d, emb, ucoord, vcoord in *; cbn [vx vy vz mkv fst snd] in *;
      destruct vf; cbn [map vx vy vz mkv fst snd].
    (* AxX, +: (u,v) -> (-v, u) *)
    - rewrite (winding_rect2 eps eta m (- x3) x2 (- va) (- vb) ua ub false) by (rewrite ?tabs_opp_sub; assumption).
      rewrite between_opp. tauto.
    - rewrite (winding_rect2 eps eta m (- x3) x2 (- va) (- vb) ua ub true) by (rewrite ?tabs_opp_sub; assumption).
      rewrite between_opp. tauto.
    (* AxX, -: (u,v) -> (v, u) *)
    - rewrite (winding_rect2 eps eta m x3 x2 va vb ua ub false) by assumption. tauto.
    - rewrite (winding_rect2 eps eta m x3 x2 va vb ua ub true) by assumption. tauto.
    (* AxY, +: (u,v) -> (u, -v) *)
    - rewrite (winding_rect2 eps eta m x1 (- x3) ua ub (- va) (- vb) true) by (rewrite ?tabs_opp_sub; assumption).
      rewrite between_opp. tauto.
    - rewrite (winding_rect2 eps eta m x1 (- x3) ua ub (- va) (- vb) false) by (rewrite ?tabs_opp_sub; assumption).
      rewrite between_opp. tauto.
    (* AxY, -: (u,v) -> (u, v) *)
    - rewrite (winding_rect2 eps eta m x1 x3 ua ub va vb true) by assumption. tauto.
    - rewrite (winding_rect2 eps eta m x1 x3 ua ub va vb false) by assumption. tauto.
    (* AxZ, +: (u,v) -> (u, v) *)
    - rewrite (winding_rect2 eps eta m x1 x2 ua ub va vb true) by assumption. tauto.
    - rewrite (winding_rect2 eps eta m x1 x2 ua ub va vb false) by assumption. tauto.
    (* AxZ, -: (u,v) -> (-u, v) *)
    - rewrite (winding_rect2 eps eta m (- x1) x2 (- ua) (- ub) va vb true) by (rewrite ?tabs_opp_sub; assumption).
      rewrite between_opp. tauto.
    - rewrite (winding_rect2 eps eta m (- x1) x2 (- ua) (- ub) va vb false) by (rewrite ?tabs_opp_sub; assumption).
      rewrite between_opp. tauto.
  Qed.

  (** the same for the closed rectangle: off the bands the two agree *)
  Theorem pip_correct_rect_closed (eps eta m : T) (r : rect) (x : vec) :
    0 <= eps -> eps < 1 -> 0 <= eta -> eta <= m + m -> rect_wf r ->
    tabs (side_of (rect_surface r) x) <= eta -> off_bands m r x ->
    pip_correct_at eps eta (in_rect_closed r) (rect_surface r) x.
  Proof.
    intros He He1 Heta Hm Hwf Hg Hoff.
    pose proof (pip_correct_rect eps eta m r x He He1 Heta Hm Hwf Hg Hoff) as H.
    unfold pip_correct_at in *.
    rewrite (in_rect_closed_iff m r x (half_nonneg m (tle_trans _ _ _ Heta Hm)) Hoff). exact H.
  Qed.

  (** the margin eta itself is enough (the smallest is eta/2) *)
  Lemma eta_margin (eta : T) : 0 <= eta -> eta <= eta + eta.
  Proof.
    intros H. replace eta with (eta + 0) at 1 by ring. now apply tadd_le_mono_l.
  Qed.

  Lemma on_plane_gate (eta : T) (s : surface) (x : vec) :
    0 <= eta -> on_plane s x -> tabs (side_of s x) <= eta.
  Proof. intros He H. unfold on_plane in H. now rewrite H, tabs_zero. Qed.

  (** ** result 3: the segment logic of [basic_visibility] for axis-aligned rectangular
      surfaces, with no assumption on [point_in_polygon] *)

  (** (a) both endpoints off the plane (farther than eta and, one of them, than eps), the point
      where the line pq crosses the plane -- if there is one -- farther than [m] from the four
      edge lines: hidden <-> the open segment meets the rectangle *)
  Theorem segment_logic_rect (eps eta m : T) (r : rect) (p q : vec) :
    0 <= eps -> eps < 1 -> 0 <= eta -> eta <= m + m -> rect_wf r ->
    eps < tabs (side_of (rect_surface r) p) ->
    eta < tabs (side_of (rect_surface r) p) -> eta < tabs (side_of (rect_surface r) q) ->
    (forall t : T, on_plane (rect_surface r) (lerp p q t) -> off_bands m r (lerp p q t)) ->
    (basic_visibility eps eta p q (rect_surface r) = false
     <-> seg_meets (in_rect r) (rect_surface r) p q).
  Proof.
    intros He He1 Heta Hm Hwf Hpe Hp Hq Hoff.
    apply (basic_visibility_off_plane eps eta (in_rect r) (rect_surface r) p q He Hpe Hp Hq).
    intros t Hon. apply (pip_correct_rect eps eta m r _ He He1 Heta Hm Hwf).
    - now apply on_plane_gate.
    - now apply Hoff.
  Qed.

  (** (b) one endpoint in the rectangle (within eta of the plane, off the bands), the other off
      the plane: hidden <-> the other end is behind the surface, for either argument order *)
  Theorem segment_logic_rect_endpoint (eps eta m : T) (r : rect) (this other : vec) :
    0 <= eps -> eps < 1 -> 0 <= eta -> eta <= m + m -> rect_wf r ->
    tabs (side_of (rect_surface r) this) <= eta -> off_bands m r this -> in_rect r this ->
    eta < tabs (side_of (rect_surface r) other) ->
    (basic_visibility eps eta this other (rect_surface r) = false
     <-> vdot (s_nrm (rect_surface r)) (vsub other this) < 0) /\
    (basic_visibility eps eta other this (rect_surface r) = false
     <-> vdot (s_nrm (rect_surface r)) (vsub other this) < 0).
  Proof.
    intros He He1 Heta Hm Hwf Hg Hoff Hin Hother.
    apply (basic_visibility_on_surface eps eta (in_rect r)); [exact Hin| |exact Hother].
    now apply (pip_correct_rect eps eta m).
  Qed.

  (** (c) both endpoints within eta of the plane and off the bands, one of them in the
      rectangle: hidden (coplanar) *)
  Theorem segment_logic_rect_coplanar (eps eta m : T) (r : rect) (p q : vec) :
    0 <= eps -> eps < 1 -> 0 <= eta -> eta <= m + m -> rect_wf r ->
    tabs (side_of (rect_surface r) p) < eta -> tabs (side_of (rect_surface r) q) < eta ->
    off_bands m r p -> off_bands m r q -> in_rect r p \/ in_rect r q ->
    basic_visibility eps eta p q (rect_surface r) = false.
  Proof.
    intros He He1 Heta Hm Hwf Hp Hq Hop Hoq Hin.
    apply (basic_visibility_coplanar eps eta (in_rect r) (rect_surface r) p q Hp Hq); [| |exact Hin].
    - apply (pip_correct_rect eps eta m); auto. now apply tlt_le.
    - apply (pip_correct_rect eps eta m); auto. now apply tlt_le.
  Qed.

  (** ** result 1 in the words of the task: the horizontal rectangle [x0,x1] x [y0,y1] at height z,
      normal (0,0,+-1), in each of its 8 vertex orders *)
  Definition rect_orders8 (x0 x1 y0 y1 z : T) : list (list vec) :=
    let A := mkv x0 y0 z in let B := mkv x1 y0 z in let C := mkv x1 y1 z in let D := mkv x0 y1 z in
    [[A; B; C; D]; [B; C; D; A]; [C; D; A; B]; [D; A; B; C];
     [D; C; B; A]; [C; B; A; D]; [B; A; D; C]; [A; D; C; B]].

  Lemma between_lt (a b c : T) : a < b -> (between a b c <-> a < c /\ c < b).
  Proof.
    intros L. unfold between. split; [|tauto].
    intros [H|[H1 H2]]; [exact H|]. exfalso.
    exact (tlt_irrefl _ (tlt_trans _ _ _ L (tlt_trans _ _ _ H1 H2))).
  Qed.
  Lemma between_gt (a b c : T) : a < b -> (between b a c <-> a < c /\ c < b).
  Proof. intros L. rewrite between_swap. now apply between_lt. Qed.

  Ltac fin8 :=
    split; [reflexivity|]; split; [assumption|]; split; [assumption|];
    split; [intros c; first [apply between_lt | apply between_gt]; assumption|];
    split; [intros c; first [apply between_lt | apply between_gt]; assumption|];
    split; intros m c; tauto.

  Lemma rect_orders8_param (x0 x1 y0 y1 z : T) (up : bool) (poly : list vec) :
    x0 < x1 -> y0 < y1 -> In poly (rect_orders8 x0 x1 y0 y1 z) ->
    exists ua ub va vb vf,
      poly = rect_pts (mkrect AxZ up z ua ub va vb vf) /\ ua <> ub /\ va <> vb /\
      (forall c : T, between ua ub c <-> x0 < c /\ c < x1) /\
      (forall c : T, between va vb c <-> y0 < c /\ c < y1) /\
      (forall m c : T, (m < tabs (c - ua) /\ m < tabs (c - ub)) <-> (m < tabs (c - x0) /\ m < tabs (c - x1))) /\
      (forall m c : T, (m < tabs (c - va) /\ m < tabs (c - vb)) <-> (m < tabs (c - y0) /\ m < tabs (c - y1))).
  Proof.
    intros Hx Hy Hin.
    pose proof (tlt_neq _ _ Hx) as Nx. pose proof (tlt_neq _ _ Hy) as Ny.
    assert (Nx' : x1 <> x0) by (intros E; apply Nx; now symmetry).
    assert (Ny' : y1 <> y0) by (intros E; apply Ny; now symmetry).
    unfold rect_orders8 in Hin. cbv zeta in Hin. cbn [In] in Hin.
    destruct Hin as [H|[H|[H|[H|[H|[H|[H|[H|[]]]]]]]]]; subst poly.
    - exists x0, x1, y0, y1, false. fin8.
    - exists x1, x0, y0, y1, true. fin8.
    - exists x1, x0, y1, y0, false. fin8.
    - exists x0, x1, y1, y0, true. fin8.
    - exists x0, x1, y1, y0, false. fin8.
    - exists x1, x0, y1, y0, true. fin8.
    - exists x1, x0, y0, y1, false. fin8.
    - exists x0, x1, y0, y1, true. fin8.
  Qed.

  Theorem pip_horizontal_rect (eps eta m x0 x1 y0 y1 z : T) (up : bool) (poly : list vec) (x : vec) :
    0 <= eps -> eps < 1 -> 0 <= eta -> eta <= m + m ->
    x0 < x1 -> y0 < y1 -> In poly (rect_orders8 x0 x1 y0 y1 z) ->
    tabs (vz x - z) <= eta ->
    m < tabs (vx x - x0) -> m < tabs (vx x - x1) -> m < tabs (vy x - y0) -> m < tabs (vy x - y1) ->
    (point_in_polygon eps eta x poly (mkv 0 0 (sgn up)) = true
     <-> (x0 < vx x /\ vx x < x1) /\ (y0 < vy x /\ vy x < y1)).
  Proof.
    intros He He1 Heta Hm Hx Hy Hin Hz M1 M2 M3 M4.
    destruct (rect_orders8_param x0 x1 y0 y1 z up poly Hx Hy Hin)
      as (ua & ub & va & vb & vf & -> & Nu & Nv & Bu & Bv & Ou & Ov).
    set (r := mkrect AxZ up z ua ub va vb vf).
    assert (Hg : tabs (side_of (rect_surface r) x) <= eta).
    { replace (side_of (rect_surface r) x) with (sgn up * (vz x - z)).
      - destruct up; unfold sgn.
        + replace (1 * (vz x - z)) with (vz x - z) by ring. exact Hz.
        + replace (- (1) * (vz x - z)) with (- (vz x - z)) by ring. rewrite tabs_opp. exact Hz.
      - unfold side_of, s_p0, s_pts, s_nrm, rect_surface, rect_pts, rect_nrm, axis_normal, nthv, r.
        cbn [r_axis r_up r_c r_ua r_ub r_va r_vb r_vfirst fst snd emb].
        destruct vf; cbn [nth]; vunfold; ring. }
    assert (Hoff : off_bands m r x).
    { unfold off_bands, r. cbn [r_axis r_ua r_ub r_va r_vb ucoord vcoord].
      pose proof (proj2 (Ou m (vx x)) (conj M1 M2)). pose proof (proj2 (Ov m (vy x)) (conj M3 M4)). tauto. }
    pose proof (pip_correct_rect eps eta m r x He He1 Heta Hm (conj Nu Nv) Hg Hoff) as H.
    unfold pip_correct_at, pip, in_rect in H.
    change (s_pts (rect_surface r)) with (rect_pts r) in H.
    change (s_nrm (rect_surface r)) with (mkv 0 0 (sgn up)) in H.
    unfold r in H at 2 3 4 5 6 7. cbn [r_axis r_ua r_ub r_va r_vb ucoord vcoord] in H.
    rewrite H, (Bu (vx x)), (Bv (vy x)). tauto.
  Qed.
End PipRectSurface.
