(** * The composed model (Model/Full.v) produces well-formed scenes, so every pipeline theorem
    applies to it: for ANY room description, the patch histograms computed from the polygons
    are the L0 recursion on the scene's own parameters, and the visible pairs are exactly the
    pairs in line of sight according to the visibility model. *)
From Coq Require Import List Arith Bool Ring Lia.
Import ListNotations.
From SV Require Import Base.Ops Base.Arr Base.Sums Model.Vec3 Model.Exchange Model.Scene Model.Frame
  Model.Tiling Model.Visibility Model.Stokes Model.PtSolution Model.Full
  Spec.ExchangeSpec Proofs.ExchangeL0 Proofs.SceneRefine Proofs.VisibilityScan.

Lemma wall_ids_from_range (counts : list nat) : forall w0 w,
  In w (wall_ids_from w0 counts) -> w0 <= w < w0 + length counts.
Proof.
  induction counts as [|c r IH]; intros w0 w H; simpl in *; [destruct H|].
  apply in_app_or in H. destruct H as [H|H].
  - apply repeat_spec in H. lia.
  - apply IH in H. lia.
Qed.

Section FullProofs.
  Context {T : Type} {O : Ops T}.
  Variable rm : @room T.
  Hypothesis ref_out_nonempty : rm_ref_out rm <> [].

  Lemma room_wall_lt i : i < rm_np rm -> wall (room_scene rm) i < length (rm_walls rm).
  Proof.
    intros Hi. unfold wall, room_scene. simpl s_wall. unfold rm_processed, process. simpl pr_wall_ids.
    unfold rm_np, rm_patch_pts, rm_processed, process in Hi. simpl pr_points in Hi.
    rewrite map_length in Hi.
    assert (Hlen : length (wall_ids_from 0 (map (@length _) (map (fun q => create_patches q (rm_patch_size rm)) (rm_walls rm))))
                   = length (concat (map (fun q => create_patches q (rm_patch_size rm)) (rm_walls rm)))).
    { generalize (map (fun q => create_patches q (rm_patch_size rm)) (rm_walls rm)) as l.
      intros l. generalize 0 as w0. induction l as [|x l IH]; intros w0; simpl; [reflexivity|].
      rewrite !app_length, repeat_length, IH. reflexivity. }
    unfold nthn.
    assert (Hin : In (nth i (wall_ids_from 0 (map (@length _) (map (fun q => create_patches q (rm_patch_size rm)) (rm_walls rm)))) 0)
                     (wall_ids_from 0 (map (@length _) (map (fun q => create_patches q (rm_patch_size rm)) (rm_walls rm)))))
      by (apply nth_In; rewrite Hlen; exact Hi).
    apply wall_ids_from_range in Hin. rewrite !map_length in Hin. lia.
  Qed.

  Theorem room_scene_wf : wf_scene (room_scene rm).
  Proof.
    repeat split.
    - intros i j H. simpl s_visU in H. unfold rm_visU in H.
      rewrite check_patch2patch_entry in H.
      destruct (Nat.ltb_spec i j); [assumption|discriminate].
    - intros i Hi. simpl s_np in Hi. pose proof (room_wall_lt i Hi) as Hw.
      unfold out_dirs. simpl s_out. simpl s_nd.
      rewrite nth_indep with (d' := wall_dirs (nthv (rm_normals rm) 0) (nthv (rm_ups rm) 0) (rm_ref_out rm))
        by (rewrite map_length, seq_length; exact Hw).
      rewrite (map_nth (fun w => wall_dirs (nthv (rm_normals rm) w) (nthv (rm_ups rm) w) (rm_ref_out rm))).
      unfold wall_dirs. now rewrite map_length.
    - simpl s_nd. destruct (rm_ref_out rm); [congruence|simpl; lia].
  Qed.

  (** for every room: the histograms computed from the polygons are the radiosity recursion *)
  Theorem room_hist_is_recursion {RL : RingLaws T} tm src K j d b t :
    let sc := room_scene rm in
    let s := room_source rm src in
    j < s_np sc -> d < s_nd sc -> b < s_nb sc -> t < n_samples tm ->
    get4 (patch_hist sc tm s K) j d b t =
    Tot (directed (vis_pairs sc)) (scene_delta sc tm) (tilde_entry sc) (out_index sc)
        (scene_delta0 sc tm s) (e0dir_entry sc s) K j d b t.
  Proof. intros sc s Hj Hd Hb Ht. apply (patch_hist_refines sc tm s K j d b t); try assumption. exact room_scene_wf. Qed.

  (** ... and two patches exchange energy iff their centroids are in line of sight of every
      PATCH surface (the scan of the visibility model), in either order *)
  Theorem room_pairs_are_line_of_sight i j :
    i < j -> j < rm_np rm ->
    vis_sym (room_scene rm) i j =
    visible_all (rm_eps rm) (rm_eta rm) (rm_patch_surfs rm) (nthv (rm_centers rm) i) (nthv (rm_centers rm) j).
  Proof.
    intros Hij Hj. unfold vis_sym. destruct (Nat.ltb_spec i j); [|lia].
    simpl s_visU. unfold rm_visU. apply check_patch2patch_upper; [exact Hij|].
    unfold rm_centers. rewrite map_length. exact Hj.
  Qed.

  (** hidden patches receive exactly nothing from the source *)
  Theorem room_hidden_zero src j b :
    nthb (room_point_vis rm src) j = false -> energy0 (room_scene rm) (room_source rm src) j b = 0%T.
  Proof. intros H. unfold energy0, room_source, source_at. simpl src_vis. now rewrite H. Qed.
End FullProofs.
