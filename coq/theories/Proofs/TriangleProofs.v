(** * The geometric half of C02: a reflected path is never shorter than the direct path
    (triangle inequality of the Euclidean norm from the sqrt laws), hence -- with the code's
    per-leg bin functions -- a source->patch->receiver contribution never lands before the
    direct-sound bin. *)
From Coq Require Import List Arith Bool Ring Lia.
Import ListNotations.
From SV Require Import Base.Ops Base.Arr Base.Sums Model.Vec3 Model.Exchange Model.Scene
  Proofs.OrderField Proofs.HistProofs Proofs.SceneRefine Proofs.ReceiverProofs Proofs.ReciprocityModel.

Section Triangle.
  Context {T : Type} {O : Ops T} {RL : RingLaws T} {OL : OrderLaws T} {SL : SqrtLaws T}.
  Add Ring TRingTri : (@ring_th T O RL).

  Lemma sq_le_inv (x y : T) : (0 <= y)%T -> (x * x <= y * y)%T -> (x <= y)%T.
  Proof.
    intros Hy H. destruct (tle_dec x y) as [Hle|Hlt]; [exact Hle|]. exfalso.
    assert (Hx : (0 < x)%T) by (eapply tle_lt_trans; eassumption).
    assert (H1 : (y * y <= y * x)%T) by (apply tmul_le_mono_nonneg_l; [exact Hy|now apply tlt_le]).
    assert (H2 : (y * x < x * x)%T) by (apply tmul_lt_mono_pos_r; assumption).
    apply (tle_not_lt _ _ H). eapply tle_lt_trans; eassumption.
  Qed.

  Lemma vnorm2_nonneg (a : @vec T) : (0 <= vnorm2 a)%T.
  Proof.
    destruct a as [[a1 a2] a3]. unfold vnorm2, vdot, vx, vy, vz. simpl.
    apply tadd_nonneg; [apply tadd_nonneg|]; apply tsq_nonneg.
  Qed.
  Lemma vnorm_nonneg (a : @vec T) : (0 <= vnorm a)%T.
  Proof. unfold vnorm. apply tsqrt_nonneg, vnorm2_nonneg. Qed.
  Lemma vnorm_sq (a : @vec T) : (vnorm a * vnorm a)%T = vnorm2 a.
  Proof. unfold vnorm. apply tsqrt_sq, vnorm2_nonneg. Qed.

  (** Cauchy-Schwarz via Lagrange's identity *)
  Lemma cauchy_schwarz_sq (a b : @vec T) : (vdot a b * vdot a b <= vnorm2 a * vnorm2 b)%T.
  Proof.
    apply (proj2 (tle_sub _ _)).
    replace (vnorm2 a * vnorm2 b - vdot a b * vdot a b)%T with (vnorm2 (vcross a b)).
    - apply vnorm2_nonneg.
    - destruct a as [[a1 a2] a3], b as [[b1 b2] b3].
      unfold vnorm2, vdot, vcross, mkv, vx, vy, vz. simpl. ring.
  Qed.
  Lemma cauchy_schwarz (a b : @vec T) : (vdot a b <= vnorm a * vnorm b)%T.
  Proof.
    apply sq_le_inv; [apply tmul_nonneg; apply vnorm_nonneg|].
    replace ((vnorm a * vnorm b) * (vnorm a * vnorm b))%T
      with ((vnorm a * vnorm a) * (vnorm b * vnorm b))%T by ring.
    rewrite !vnorm_sq. apply cauchy_schwarz_sq.
  Qed.

  Theorem vnorm_triangle (a b : @vec T) : (vnorm (vadd a b) <= vnorm a + vnorm b)%T.
  Proof.
    apply sq_le_inv; [apply tadd_nonneg; apply vnorm_nonneg|].
    rewrite vnorm_sq.
    replace ((vnorm a + vnorm b) * (vnorm a + vnorm b))%T
      with (vnorm a * vnorm a + vnorm b * vnorm b + (1 + 1) * (vnorm a * vnorm b))%T by ring.
    rewrite !vnorm_sq.
    replace (vnorm2 (vadd a b)) with (vnorm2 a + vnorm2 b + (1 + 1) * vdot a b)%T.
    - apply tadd_le_mono_l. apply tmul_le_mono_nonneg_l; [|apply cauchy_schwarz].
      apply tadd_nonneg; apply tzero_le_one.
    - destruct a as [[a1 a2] a3], b as [[b1 b2] b3].
      unfold vnorm2, vdot, vadd, mkv, vx, vy, vz. simpl. ring.
  Qed.

  (** the direct path is never longer than a path via a third point *)
  Theorem vdist_triangle (s c r : @vec T) : (vdist r s <= vdist s c + vdist c r)%T.
  Proof.
    unfold vdist.
    replace (vsub r s) with (vadd (vsub c s) (vsub r c)).
    - eapply tle_trans; [apply vnorm_triangle|].
      assert (E1 : vnorm (vsub c s) = vnorm (vsub s c)) by (unfold vnorm; now rewrite vnorm2_sub_sym).
      assert (E2 : vnorm (vsub r c) = vnorm (vsub c r)) by (unfold vnorm; now rewrite vnorm2_sub_sym).
      rewrite E1, E2. apply tle_refl.
    - destruct s as [[s1 s2] s3], c as [[c1 c2] c3], r as [[r1 r2] r3].
      unfold vadd, vsub, mkv, vx, vy, vz. simpl. f_equal; [f_equal|]; ring.
  Qed.
End Triangle.

Section BinsModel.
  Context {T : Type} {O : Ops T} {RL : RingLaws T} {OL : OrderLaws T} {FL : FieldLaws T}
          {SL : SqrtLaws T} {FlL : FloorLaws T}.
  Add Ring TRingBM : (@ring_th T O RL).

  (** distance -> time in bins: x / c / dt is additive and monotone for c, dt > 0 *)
  Lemma scale_as_mul (x c dt : T) : c <> 0%T -> dt <> 0%T ->
    ((x / c) / dt)%T = (x * ((1 / c) * (1 / dt)))%T.
  Proof.
    intros Hc Hd. rewrite (tdiv_as_mul (x / c)%T dt Hd), (tdiv_as_mul x c Hc). ring.
  Qed.
  Lemma scale_add (x y c dt : T) : c <> 0%T -> dt <> 0%T ->
    (((x + y) / c) / dt)%T = ((x / c) / dt + (y / c) / dt)%T.
  Proof. intros Hc Hd. rewrite !scale_as_mul by assumption. ring. Qed.
  Lemma scale_mono (x y c dt : T) : (0 < c)%T -> (0 < dt)%T -> (x <= y)%T -> ((x / c) / dt <= (y / c) / dt)%T.
  Proof.
    intros Hc Hd H.
    assert (Hcn : c <> 0%T) by (intros E; rewrite E in Hc; now apply tlt_irrefl in Hc).
    assert (Hdn : dt <> 0%T) by (intros E; rewrite E in Hd; now apply tlt_irrefl in Hd).
    rewrite !scale_as_mul by assumption.
    apply tmul_le_mono_nonneg_r; [|exact H].
    apply tmul_nonneg; apply tlt_le, tdiv_pos; try apply tone_pos; assumption.
  Qed.
  Lemma scale_nonneg (x c dt : T) : (0 < c)%T -> (0 < dt)%T -> (0 <= x)%T -> (0 <= (x / c) / dt)%T.
  Proof. intros Hc Hd Hx. apply tdiv_nonneg; [apply tdiv_nonneg; assumption|exact Hd]. Qed.

  Variable sc : @scene T.
  Variable tm : @timing T.
  Hypothesis c_pos : (0 < t_c tm)%T.
  Hypothesis dt_pos : (0 < t_dt tm)%T.

  (** C02 on the executable model: an order-0 contribution (source -> patch j -> receiver)
      never lands before the direct-sound bin *)
  Theorem order0_not_before_direct (s : @source T) (r : @receiver T) j :
    nthb (src_vis s) j = true ->
    direct_bin tm s r <= scene_delta0 sc tm s j + r_delay sc tm r j.
  Proof.
    intros Hv. unfold direct_bin, scene_delta0, r_delay, delay_floor, delay_ceil, direct_r, src_dist, r_dist.
    rewrite Hv.
    assert (Hcn : t_c tm <> 0%T) by (intros E; rewrite E in c_pos; now apply tlt_irrefl in c_pos).
    assert (Hdn : t_dt tm <> 0%T) by (intros E; rewrite E in dt_pos; now apply tlt_irrefl in dt_pos).
    apply bins_triangle.
    - apply scale_nonneg; try assumption. apply vnorm_nonneg.
    - apply scale_nonneg; try assumption. apply vnorm_nonneg.
    - apply scale_nonneg; try assumption. apply vnorm_nonneg.
    - rewrite <- scale_add by assumption. apply scale_mono; try assumption.
      apply (vdist_triangle (src_pos s) (center sc j) (r_pos r)).
  Qed.
End BinsModel.
