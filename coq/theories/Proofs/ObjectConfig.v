(** * C16: the final stages depend only on the configuration fields of the object, never on
    cached results or on the call history that produced them.

    Two states that agree on the configuration fields (geometry, frequencies, BRDF list and
    index, direction lists, attenuation) answer  bake; init_source src; exchange(recalculate)
    with the same classes and, when these are Ok, with the same provenance of baked factors,
    slot map, initial energy, distances and histogram -- whatever else the two states hold. *)
From Coq Require Import List Arith Bool Lia.
Import ListNotations.
From SV Require Import Model.Object Spec.ObjectSpec.

Record cfg_eq (s s' : ostate) : Prop := mkCfgEq {
  ce_wp : o_walls_points s = o_walls_points s';
  ce_wn : o_walls_normal s = o_walls_normal s';
  ce_wu : o_walls_up s = o_walls_up s';
  ce_pp : o_patches_points s = o_patches_points s';
  ce_np : o_n_patches s = o_n_patches s';
  ce_wi : o_wall_ids s = o_wall_ids s';
  ce_fr : o_freq s = o_freq s';
  ce_br : o_brdf s = o_brdf s';
  ce_bi : o_brdf_index s = o_brdf_index s';
  ce_di : o_dirs_in s = o_dirs_in s';
  ce_do : o_dirs_out s = o_dirs_out s';
  ce_at : o_att s = o_att s' }.

Record baked_eq (s s' : ostate) : Prop := mkBakedEq {
  be_cfg : cfg_eq s s';
  be_vis : o_vis s = o_vis s';
  be_pairs : o_pairs s = o_pairs s';
  be_ff : o_ff s = o_ff s';
  be_tilde : o_tilde s = o_tilde s';
  be_p2o : o_p2o s = o_p2o s' }.

Record sourced_eq (s s' : ostate) : Prop := mkSourcedEq {
  se_baked : baked_eq s s';
  se_dist : o_dist s = o_dist s';
  se_e0 : o_e0 s = o_e0 s';
  se_src : o_source s = o_source s';
  se_srcvis : o_source_vis s = o_source_vis s' }.

Lemma tgeo_cfg s s' : cfg_eq s s' -> tgeo s = tgeo s'.
Proof. intros [H1 H2 H3 H4 H5 H6 _ _ _ _ _ _]. unfold tgeo. now rewrite H1, H2, H3, H4, H5, H6. Qed.
Lemma nbins_cfg s s' : cfg_eq s s' -> nbins s = nbins s'.
Proof. intros H. unfold nbins. now rewrite (ce_fr _ _ H). Qed.
Lemma read_mats_cfg s s' b : cfg_eq s s' -> read_mats s b = read_mats s' b.
Proof.
  intros H. unfold read_mats. now rewrite (ce_di _ _ H), (ce_do _ _ H), (ce_br _ _ H), (ce_bi _ _ H).
Qed.

Lemma read_dirs_err d c : read_dirs d = MErr c -> c <> ROk.
Proof.
  unfold read_dirs. destruct (dir_counts _); [destruct (homog _ _)|]; intros E; inversion E; discriminate.
Qed.
Lemma read_mats_err s b c : read_mats s b = MErr c -> c <> ROk.
Proof.
  unfold read_mats. destruct (o_dirs_in s) as [di|]; [|intros E; inversion E; discriminate].
  destruct (o_dirs_out s) as [do|]; [|intros E; inversion E; discriminate].
  destruct (read_dirs di) eqn:E1; [intros E; inversion E; subst; eapply read_dirs_err; eassumption|].
  destruct (read_dirs do) eqn:E2; [intros E; inversion E; subst; eapply read_dirs_err; eassumption|].
  destruct (negb b); [intros E; inversion E|].
  destruct (o_brdf s), (o_brdf_index s); try (intros E; inversion E; discriminate).
  destruct (homog _ _); intros E; inversion E; discriminate.
Qed.

Ltac cfg_split := repeat match goal with
  | |- cfg_eq _ _ => constructor
  | |- baked_eq _ _ => constructor
  | |- sourced_eq _ _ => constructor end.

Lemma put_cfg_other f v v' s s' :
  cfg_eq s s' ->
  match f with FVis | FPairs | FFF | FTilde | FP2O | FDist | FE0 | FEtc | FSource | FSourceVis
             | FC | FDt | FDur => True | _ => False end ->
  cfg_eq (put f v s) (put f v' s').
Proof. intros [] Hf. destruct f; try contradiction; constructor; assumption. Qed.

Theorem bake_cfg g s s' : cfg_eq s s' ->
  fst (obake g s) = fst (obake g s') /\
  (fst (obake g s) = ROk -> baked_eq (snd (obake g s)) (snd (obake g s'))).
Proof.
  intros H. pose proof H as [H1 H2 H3 H4 H5 H6 H7 H8 H9 H10 H11 H12].
  unfold obake. rewrite (tgeo_cfg s s' H), (nbins_cfg s s' H).
  set (s1 := put FFF _ (put FPairs _ (put FVis _ s))).
  set (s1' := put FFF _ (put FPairs _ (put FVis _ s'))).
  assert (C1 : cfg_eq s1 s1') by (unfold s1, s1'; constructor; cbn; assumption).
  assert (Ed : o_dirs_in s1 = o_dirs_in s1') by (unfold s1, s1'; cbn; exact H10).
  rewrite Ed. destruct (o_dirs_in s1').
  - rewrite (read_mats_cfg s1 s1' true C1). rewrite H12.
    destruct (read_mats s1' true) eqn:Em; [split; [reflexivity|cbn; intros Hc; exfalso; exact (read_mats_err _ _ _ Em Hc)]|].
    destruct (tab_fits _ _ _ _); (split; [reflexivity|cbn; intros Hok; try discriminate]).
    unfold s1, s1'; cfg_split; cbn; try assumption; reflexivity.
  - rewrite H12. split; [reflexivity|]. intros _. unfold s1, s1'; cfg_split; cbn; try assumption; reflexivity.
Qed.

(** brute-force helpers (as in ObjectIdem.v) *)
Ltac dm1c :=
  match goal with
  | |- context [match ?v with _ => _ end] => is_var v; destruct v
  | |- context [match ?x with _ => _ end] =>
    lazymatch x with
    | context [match _ with _ => _ end] => fail
    | _ => destruct x eqn:?
    end
  end.
Ltac smc := cbn -[nats_eqb homog dir_counts tab_fits resolve wall_cfg fold_left upd_nth repeat seq
                  Nat.eqb Nat.ltb forallb app length].
Ltac dmc := repeat (smc; dm1c); smc.

Theorem init_cfg g s s' src : baked_eq s s' ->
  fst (oinit_source g s src) = fst (oinit_source g s' src) /\
  (fst (oinit_source g s src) = ROk -> sourced_eq (snd (oinit_source g s src)) (snd (oinit_source g s' src))).
Proof.
  intros [[H1 H2 H3 H4 H5 H6 H7 H8 H9 H10 H11 H12] Hv Hp Hf Ht Ho].
  unfold oinit_source, install_brdf, read_mats, read_dirs, nbins, tgeo, default_freq.
  smc. rewrite H1, H2, H3, H4, H5, H6, H7, H8, H9, H10, H11, H12.
  dmc; (split; [reflexivity|]); intros Hok; try discriminate Hok;
    repeat constructor; smc; try assumption; try reflexivity.
Qed.

Record final_eq (s s' : ostate) : Prop := mkFinalEq {
  fe_sourced : sourced_eq s s';
  fe_etc : o_etc s = o_etc s';
  fe_c : o_c s = o_c s';
  fe_dt : o_dt s = o_dt s';
  fe_dur : o_dur s = o_dur s' }.

Theorem exch_cfg g s s' tid ns order : sourced_eq s s' ->
  fst (oexchange g s tid ns order true) = fst (oexchange g s' tid ns order true) /\
  (fst (oexchange g s tid ns order true) = ROk ->
   final_eq (snd (oexchange g s tid ns order true)) (snd (oexchange g s' tid ns order true))).
Proof.
  intros [[[H1 H2 H3 H4 H5 H6 H7 H8 H9 H10 H11 H12] Hv Hp Hf Ht Ho] Hd He Hs Hsv].
  unfold oexchange, tgeo.
  destruct (o_etc s), (o_etc s'); smc;
    rewrite ?H1, ?H2, ?H3, ?H4, ?H5, ?H6, ?Hv, ?Hp, ?Hf, ?Ht, ?Ho, ?Hd, ?He;
    dmc; (split; [reflexivity|]); intros Hok; try discriminate Hok;
    repeat constructor; smc; try assumption; try reflexivity.
Qed.

Theorem collect_cfg g s s' recv direct : final_eq s s' ->
  ocollect g s recv direct = ocollect g s' recv direct.
Proof.
  intros [[[[H1 H2 H3 H4 H5 H6 H7 H8 H9 H10 H11 H12] Hv Hp Hf Ht Ho] Hd He Hs Hsv] Hetc Hc Hdt Hdur].
  unfold ocollect, tgeo.
  now rewrite Hetc, H11, H12, H1, H2, H3, H4, H5, H6, Hc, Hdt, Hs.
Qed.

