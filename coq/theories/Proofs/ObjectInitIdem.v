(** * C16: repeating init_source_energy with the same argument changes nothing, and the tail
    bake; init_source; exchange(recalculate)  run twice equals the tail run once when the first
    init_source had no default to install.

    [oinit_source] is factored as  defaults (BRDF, attenuation)  followed by [finish]:
      - after a successful call the direction lists and the attenuation are set, so the second
        call skips both default branches ([dflt_brdf_ok], [dflt_att_ok]);
      - the defaults touch neither the geometry nor [_source], so the second call hands the same
        geometry term to [finish];
      - [finish] reads only the material fields and writes [_source_visibility], [energy_init_source]
        and [distance_patches_to_source]: repeating it on its own result rewrites the same three
        descriptors ([finish_idem]). *)
From Coq Require Import List Arith Bool Lia.
Import ListNotations.
From SV Require Import Model.Object Spec.ObjectSpec Proofs.ObjectConfig Proofs.ObjectThms Proofs.ObjectTail.

(** ** the three parts of [oinit_source] *)
Definition src_desc (src : nat) : option desc := Some (mkD KObj [] (T0 SSrc [src]) Alias).

Definition dflt_brdf (g : geo) (s1 : ostate) : rclass * ostate :=
  match o_dirs_in s1 with
  | Some _ => (ROk, s1)
  | None =>
    let fr := match o_freq s1 with Some f => Some f | None => default_freq end in
    let nb := match fr with Some f => hd 0 (dsh f) | None => 1 end in
    let sf := put FFreq fr s1 in
    let '(c, s') := install_brdf g sf (seq 0 (g_nw g)) (T0 SDefTab [nb]) 0 1 in
    (c, s')
  end.

Definition dflt_att (s2 : ostate) : ostate :=
  match o_att s2 with
  | Some _ => s2
  | None =>
    let fr := match o_freq s2 with Some f => Some f | None => default_freq end in
    let nb := match fr with Some f => hd 0 (dsh f) | None => 1 end in
    put FAtt (fresh KArrF [nb] (T0 SZeroAtt [nb])) (put FFreq fr s2)
  end.

(** [tg] is the geometry term of the state the call started from *)
Definition finish (g : geo) (src : nat) (tg : term) (s3 : ostate) : rclass * ostate :=
  let np := g_np g in
  let nb := nbins s3 in
  match read_mats s3 true with
  | MErr c => (c, s3)
  | MOk nin nout ein eout idx tabs =>
    let s4 := put FSourceVis (fresh KArrB [np] (TApp SSrcVis [src] [tg])) s3 in
    if tab_fits nin nout nb (resolve idx tabs 0)
    then (ROk, put FDist (fresh KArrF [np] (TApp SDist [src] [tg]))
                 (put FE0 (fresh KArrF [np; nout; nb]
                    (TApp SE0 [src] [tg; optv (o_att s3); wall_cfg (g_nw g) idx tabs ein])) s4))
    else (RUnspec, s4)
  end.

Definition after_dflt (g : geo) (src : nat) (tg : term) (r2 : rclass * ostate) : rclass * ostate :=
  match r2 with
  | (ROk, s2) => finish g src tg (dflt_att s2)
  | (c, s2) => (c, s2)
  end.

Lemma init_factor g s src :
  oinit_source g s src = after_dflt g src (tgeo s) (dflt_brdf g (put FSource (src_desc src) s)).
Proof. reflexivity. Qed.

(** ** frame facts *)
Definition is_geo (f : field) : bool :=
  match f with
  | FWallsPoints | FWallsNormal | FWallsUp | FPatchesPoints | FNPatches | FWallIds => true
  | _ => false
  end.

Lemma tgeo_put f v s : is_geo f = false -> tgeo (put f v s) = tgeo s.
Proof. destruct f; cbn; intros E; try discriminate E; reflexivity. Qed.

(** a successful [install_brdf] leaves the direction lists set and keeps geometry, [_source] and the
    attenuation *)
Lemma install_ok g s walls t d n :
  fst (install_brdf g s walls t d n) = ROk ->
  o_dirs_in (snd (install_brdf g s walls t d n)) <> None /\
  tgeo (snd (install_brdf g s walls t d n)) = tgeo s /\
  o_source (snd (install_brdf g s walls t d n)) = o_source s.
Proof.
  destruct s; unfold install_brdf, tgeo.
  dmc; intros Hok; try discriminate Hok; (split; [discriminate|split; reflexivity]).
Qed.

Lemma dflt_brdf_ok g s1 :
  fst (dflt_brdf g s1) = ROk ->
  o_dirs_in (snd (dflt_brdf g s1)) <> None /\
  tgeo (snd (dflt_brdf g s1)) = tgeo s1 /\
  o_source (snd (dflt_brdf g s1)) = o_source s1.
Proof.
  unfold dflt_brdf. destruct (o_dirs_in s1) eqn:Ed.
  - intros _. cbn [fst snd]. rewrite Ed. split; [discriminate|split; reflexivity].
  - cbv zeta.
    set (fr := match o_freq s1 with Some f => Some f | None => default_freq end).
    set (sf := put FFreq fr s1).
    set (nb := match fr with Some f => hd 0 (dsh f) | None => 1 end).
    pose proof (install_ok g sf (seq 0 (g_nw g)) (T0 SDefTab [nb]) 0 1) as H.
    destruct (install_brdf g sf (seq 0 (g_nw g)) (T0 SDefTab [nb]) 0 1) as [c s'].
    cbn [fst snd] in *. intros Hok. destruct (H Hok) as (A & B & C).
    split; [exact A|]. split.
    + rewrite B. unfold sf. apply tgeo_put. reflexivity.
    + rewrite C. unfold sf. destruct s1; reflexivity.
Qed.

Lemma dflt_att_ok s2 :
  o_att (dflt_att s2) <> None /\ o_dirs_in (dflt_att s2) = o_dirs_in s2 /\
  tgeo (dflt_att s2) = tgeo s2 /\ o_source (dflt_att s2) = o_source s2.
Proof.
  unfold dflt_att. destruct (o_att s2) eqn:Ea.
  - rewrite Ea. split; [discriminate|]. repeat split; reflexivity.
  - cbv zeta. split; [destruct s2; cbn; discriminate|].
    split; [destruct s2; reflexivity|]. split; [|destruct s2; reflexivity].
    rewrite !tgeo_put by reflexivity. reflexivity.
Qed.

(** ** the second call on the result of [finish] *)
Lemma finish_idem g src s3 :
  o_source s3 = src_desc src -> o_dirs_in s3 <> None -> o_att s3 <> None ->
  fst (finish g src (tgeo s3) s3) = ROk ->
  oinit_source g (snd (finish g src (tgeo s3) s3)) src = finish g src (tgeo s3) s3.
Proof.
  destruct s3. cbn [Object.o_source Object.o_dirs_in Object.o_att]. intros -> Hd Ha.
  destruct o_dirs_in as [di|]; [|contradiction Hd; reflexivity].
  destruct o_att as [at0|]; [|contradiction Ha; reflexivity].
  clear Hd Ha.
  unfold oinit_source, finish, read_mats, read_dirs, nbins, tgeo, src_desc.
  dmc; intros Hok; try discriminate Hok; try reflexivity; congruence.
Qed.

(** ** idempotence of init_source_energy *)
Theorem init_idem g s src :
  fst (oinit_source g s src) = ROk ->
  oinit_source g (snd (oinit_source g s src)) src = oinit_source g s src.
Proof.
  rewrite init_factor. unfold after_dflt.
  pose proof (dflt_brdf_ok g (put FSource (src_desc src) s)) as H.
  destruct (dflt_brdf g (put FSource (src_desc src) s)) as [c s2].
  cbn [fst snd] in H.
  destruct c; try (cbn [fst]; intros Hok; discriminate Hok).
  destruct (H eq_refl) as (Hd & Hg & Hs).
  destruct (dflt_att_ok s2) as (Ha & Hd' & Hg' & Hs').
  assert (Eg : tgeo s = tgeo (dflt_att s2)).
  { rewrite Hg', Hg. symmetry. apply tgeo_put. reflexivity. }
  rewrite Eg. apply finish_idem.
  - rewrite Hs', Hs. destruct s; reflexivity.
  - rewrite Hd'. exact Hd.
  - exact Ha.
Qed.
