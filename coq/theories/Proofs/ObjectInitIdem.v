(** * C16: repeating init_source_energy with the same argument changes nothing, and the tail
    bake; init_source; exchange(recalculate)  run twice equals the tail run once when the first
    init_source had no default to install.

    [oinit_source] is factored as  defaults (BRDF, attenuation)  followed by [finish]:
      - after a successful call the direction lists and the attenuation are set, so the second
        call skips both default branches ([dflt_brdf_ok], [dflt_att_ok]);
      - the defaults touch neither the geometry nor [_source], so the second call hands the same
        geometry term to [finish];
      - [finish] reads only the material fields and writes [_source_visibility], [energy_init_source]
        and [distance_patches_to_source]: repeating it on its own result rewrites the same three
        descriptors ([finish_idem]). *)
From Coq Require Import List Arith Bool Lia.
Import ListNotations.
From SV Require Import Model.Object Spec.ObjectSpec Proofs.ObjectConfig Proofs.ObjectThms Proofs.ObjectTail.

(** ** the three parts of [oinit_source] *)
Definition src_desc (src : nat) : option desc := Some (mkD KObj [] (T0 SSrc [src]) Alias).

Definition dflt_brdf (g : geo) (s1 : ostate) : rclass * ostate :=
  match o_dirs_in s1 with
  | Some _ => (ROk, s1)
  | None =>
    let fr := match o_freq s1 with Some f => Some f | None => default_freq end in
    let nb := match fr with Some f => hd 0 (dsh f) | None => 1 end in
    let sf := put FFreq fr s1 in
    let '(c, s') := install_brdf g sf (seq 0 (g_nw g)) (T0 SDefTab [nb]) 0 1 in
    (c, s')
  end.

Definition dflt_att (s2 : ostate) : ostate :=
  match o_att s2 with
  | Some _ => s2
  | None =>
    let fr := match o_freq s2 with Some f => Some f | None => default_freq end in
    let nb := match fr with Some f => hd 0 (dsh f) | None => 1 end in
    put FAtt (fresh KArrF [nb] (T0 SZeroAtt [nb])) (put FFreq fr s2)
  end.

(** [tg] is the geometry term of the state the call started from *)
Definition finish (g : geo) (src : nat) (tg : term) (s3 : ostate) : rclass * ostate :=
  let np := g_np g in
  let nb := nbins s3 in
  match read_mats s3 true with
  | MErr c => (c, s3)
  | MOk nin nout ein eout idx tabs =>
    let s4 := put FSourceVis (fresh KArrB [np] (TApp SSrcVis [src] [tg])) s3 in
    if tab_fits nin nout nb (resolve idx tabs 0)
    then (ROk, put FDist (fresh KArrF [np] (TApp SDist [src] [tg]))
                 (put FE0 (fresh KArrF [np; nout; nb]
                    (TApp SE0 [src] [tg; optv (o_att s3); wall_cfg (g_nw g) idx tabs ein])) s4))
    else (RUnspec, s4)
  end.

Definition after_dflt (g : geo) (src : nat) (tg : term) (r2 : rclass * ostate) : rclass * ostate :=
  match r2 with
  | (ROk, s2) => finish g src tg (dflt_att s2)
  | (c, s2) => (c, s2)
  end.

Lemma init_factor g s src :
  oinit_source g s src = after_dflt g src (tgeo s) (dflt_brdf g (put FSource (src_desc src) s)).
Proof. reflexivity. Qed.

(** ** frame facts *)
Definition is_geo (f : field) : bool :=
  match f with
  | FWallsPoints | FWallsNormal | FWallsUp | FPatchesPoints | FNPatches | FWallIds => true
  | _ => false
  end.

Lemma tgeo_put f v s : is_geo f = false -> tgeo (put f v s) = tgeo s.
Proof. destruct f; cbn; intros E; try discriminate E; reflexivity. Qed.

(** a successful [install_brdf] leaves the direction lists set and keeps geometry, [_source] and the
    attenuation *)
Lemma install_ok g s walls t d n :
  fst (install_brdf g s walls t d n) = ROk ->
  o_dirs_in (snd (install_brdf g s walls t d n)) <> None /\
  tgeo (snd (install_brdf g s walls t d n)) = tgeo s /\
  o_source (snd (install_brdf g s walls t d n)) = o_source s.
Proof.
  destruct s; unfold install_brdf, tgeo.
  dmc; intros Hok; try discriminate Hok; (split; [discriminate|split; reflexivity]).
Qed.

Lemma dflt_brdf_ok g s1 :
  fst (dflt_brdf g s1) = ROk ->
  o_dirs_in (snd (dflt_brdf g s1)) <> None /\
  tgeo (snd (dflt_brdf g s1)) = tgeo s1 /\
  o_source (snd (dflt_brdf g s1)) = o_source s1.
Proof.
  unfold dflt_brdf. destruct (o_dirs_in s1) eqn:Ed.
  - intros _. cbn [fst snd]. rewrite Ed. split; [discriminate|split; reflexivity].
  - cbv zeta.
    set (fr := match o_freq s1 with Some f => Some f | None => default_freq end).
    set (sf := put FFreq fr s1).
    set (nb := match fr with Some f => hd 0 (dsh f) | None => 1 end).
    pose proof (install_ok g sf (seq 0 (g_nw g)) (T0 SDefTab [nb]) 0 1) as H.
    destruct (install_brdf g sf (seq 0 (g_nw g)) (T0 SDefTab [nb]) 0 1) as [c s'].
    cbn [fst snd] in *. intros Hok. destruct (H Hok) as (A & B & C).
    split; [exact A|]. split.
    + rewrite B. unfold sf. apply tgeo_put. reflexivity.
    + rewrite C. unfold sf. destruct s1; reflexivity.
Qed.

Lemma dflt_att_ok s2 :
  o_att (dflt_att s2) <> None /\ o_dirs_in (dflt_att s2) = o_dirs_in s2 /\
  tgeo (dflt_att s2) = tgeo s2 /\ o_source (dflt_att s2) = o_source s2.
Proof.
  unfold dflt_att. destruct (o_att s2) eqn:Ea.
  - rewrite Ea. split; [discriminate|]. repeat split; reflexivity.
  - cbv zeta. split; [destruct s2; cbn; discriminate|].
    split; [destruct s2; reflexivity|]. split; [|destruct s2; reflexivity].
    rewrite !tgeo_put by reflexivity. reflexivity.
Qed.

(** ** the second call on the result of [finish] *)
Lemma finish_idem g src s3 :
  o_source s3 = src_desc src -> o_dirs_in s3 <> None -> o_att s3 <> None ->
  fst (finish g src (tgeo s3) s3) = ROk ->
  oinit_source g (snd (finish g src (tgeo s3) s3)) src = finish g src (tgeo s3) s3.
Proof.
  destruct s3. cbn [Object.o_source Object.o_dirs_in Object.o_att]. intros -> Hd Ha.
  destruct o_dirs_in as [di|]; [|contradiction Hd; reflexivity].
  destruct o_att as [at0|]; [|contradiction Ha; reflexivity].
  clear Hd Ha.
  unfold oinit_source, finish, read_mats, read_dirs, nbins, tgeo, src_desc.
  dmc; intros Hok; try discriminate Hok; try reflexivity; congruence.
Qed.

(** ** idempotence of init_source_energy *)
Theorem init_idem g s src :
  fst (oinit_source g s src) = ROk ->
  oinit_source g (snd (oinit_source g s src)) src = oinit_source g s src.
Proof.
  rewrite init_factor. unfold after_dflt.
  pose proof (dflt_brdf_ok g (put FSource (src_desc src) s)) as H.
  destruct (dflt_brdf g (put FSource (src_desc src) s)) as [c s2].
  cbn [fst snd] in H.
  destruct c; try (cbn [fst]; intros Hok; discriminate Hok).
  destruct (H eq_refl) as (Hd & Hg & Hs).
  destruct (dflt_att_ok s2) as (Ha & Hd' & Hg' & Hs').
  assert (Eg : tgeo s = tgeo (dflt_att s2)).
  { rewrite Hg', Hg. symmetry. apply tgeo_put. reflexivity. }
  rewrite Eg. apply finish_idem.
  - rewrite Hs', Hs. destruct s; reflexivity.
  - rewrite Hd'. exact Hd.
  - exact Ha.
Qed.

(** instances: the default-install branch (an object without materials) and an object with
    materials; both calls answer Ok and the second leaves all 25 attributes as they are *)
Definition gI : geo := mkGeo 6 10 41.
Example init_idem_instance_defaults :
  let s := snd (obake gI (init gI)) in
  o_dirs_in s = None /\
  fst (oinit_source gI s 1) = ROk /\
  oinit_source gI (snd (oinit_source gI s 1)) 1 = oinit_source gI s 1.
Proof. vm_compute. repeat split; reflexivity. Qed.
Example init_idem_instance_materials :
  let s := orun gI (init gI) [OpSetBrdf [0; 1; 2; 3; 4; 5] 1 1 4 1 2 false; OpSetAtt 1 1 2; OpBake] in
  o_dirs_in s <> None /\
  fst (oinit_source gI s 1) = ROk /\
  oinit_source gI (snd (oinit_source gI s 1)) 1 = oinit_source gI s 1.
Proof. vm_compute. repeat split; try reflexivity. discriminate. Qed.

(** ** the three stages keep the configuration fields *)
Lemma cfg_refl s : cfg_eq s s.
Proof. constructor; reflexivity. Qed.
Lemma cfg_sym s s' : cfg_eq s s' -> cfg_eq s' s.
Proof. intros []. constructor; symmetry; assumption. Qed.
Lemma cfg_trans s s' s'' : cfg_eq s s' -> cfg_eq s' s'' -> cfg_eq s s''.
Proof. intros [] []. constructor; etransitivity; eassumption. Qed.

Definition noncfg (f : field) : Prop :=
  match f with
  | FVis | FPairs | FFF | FTilde | FP2O | FDist | FE0 | FEtc | FSource | FSourceVis | FC | FDt | FDur => True
  | _ => False
  end.

Lemma cfg_put_l f v s s' : noncfg f -> cfg_eq s s' -> cfg_eq (put f v s) s'.
Proof. intros Hf []. destruct f; try contradiction Hf; constructor; assumption. Qed.

Ltac cfg_puts := cbn [snd]; repeat (apply cfg_put_l; [exact I|]); apply cfg_refl.
Ltac dmatch := repeat match goal with |- context [match ?x with _ => _ end] => destruct x end.

(** bake_geometry never touches a configuration field, whatever its class *)
Lemma bake_keeps_cfg g s : cfg_eq (snd (obake g s)) s.
Proof. unfold obake. cbv zeta. dmatch; cfg_puts. Qed.

(** calculate_energy_exchange never touches a configuration field *)
Lemma exch_keeps_cfg g s tid ns order b : cfg_eq (snd (oexchange g s tid ns order b)) s.
Proof. unfold oexchange. cbv zeta. dmatch; cfg_puts. Qed.

(** init_source_energy keeps the configuration fields when it has no default to install *)
Lemma init_keeps_cfg g s src :
  o_dirs_in s <> None -> o_att s <> None -> cfg_eq (snd (oinit_source g s src)) s.
Proof.
  intros Hd Ha. rewrite init_factor.
  set (s1 := put FSource (src_desc src) s).
  assert (C0 : cfg_eq s1 s) by (apply cfg_put_l; [exact I|apply cfg_refl]).
  clearbody s1.
  unfold dflt_brdf.
  destruct (o_dirs_in s1) eqn:E1; [|rewrite (ce_di _ _ C0) in E1; contradiction].
  unfold after_dflt, dflt_att.
  destruct (o_att s1) eqn:E2; [|rewrite (ce_at _ _ C0) in E2; contradiction].
  unfold finish. cbv zeta.
  dmatch; cbn [snd]; repeat (apply cfg_put_l; [exact I|]); exact C0.
Qed.

(** [final_eq] compares all 25 attributes *)
Lemma final_eq_eq s s' : final_eq s s' -> s = s'.
Proof.
  intros [[[[H1 H2 H3 H4 H5 H6 H7 H8 H9 H10 H11 H12] Hv Hp Hf Ht Ho] Hd He Hs Hsv] Hetc Hc Hdt Hdur].
  destruct s, s'. cbn in *. subst. reflexivity.
Qed.

(** ** the tail run twice *)
Definition tail_state (g : geo) (s : ostate) (src tid ns order : nat) : ostate :=
  snd (oexchange g (snd (oinit_source g (snd (obake g s)) src)) tid ns order true).

Lemma orun_tail g s src tid ns order : orun g s (tail src tid ns order) = tail_state g s src tid ns order.
Proof.
  unfold orun, tail, tail_state. cbn [fold_left ostep].
  destruct (obake g s) as [c1 s1]. cbn [ostate_of fst snd].
  destruct (oinit_source g s1 src) as [c2 s2]. cbn [ostate_of fst snd].
  destruct (oexchange g s2 tid ns order true) as [c3 s3]. reflexivity.
Qed.

Lemma tail_classes_tail g s src tid ns order :
  tail_classes g s (tail src tid ns order) =
  [fst (obake g s); fst (oinit_source g (snd (obake g s)) src);
   fst (oexchange g (snd (oinit_source g (snd (obake g s)) src)) tid ns order true)].
Proof.
  unfold tail_classes, tail. cbn [otrace map ostep].
  destruct (obake g s) as [c1 s1]. cbn [ostate_of oclass_of fst snd].
  destruct (oinit_source g s1 src) as [c2 s2]. cbn [ostate_of oclass_of fst snd].
  destruct (oexchange g s2 tid ns order true) as [c3 s3]. reflexivity.
Qed.

Lemma rok_true c : rok c = true -> c = ROk.
Proof. destruct c; cbn; intros E; try discriminate E; reflexivity. Qed.

(** When the object already has its materials and an attenuation (so that init_source_energy has no
    default to install), a successful tail  bake; init_source src; exchange(recalculate)  run a
    second time answers Ok three times again and ends in the SAME state (all 25 attributes). *)
Theorem tail_twice g s src tid ns order :
  o_dirs_in s <> None -> o_att s <> None ->
  forallb rok (tail_classes g s (tail src tid ns order)) = true ->
  tail_classes g (orun g s (tail src tid ns order)) (tail src tid ns order) = [ROk; ROk; ROk] /\
  orun g s (tail src tid ns order ++ tail src tid ns order) = orun g s (tail src tid ns order).
Proof.
  intros Hd Ha Hok.
  assert (E : orun g s (tail src tid ns order ++ tail src tid ns order) =
              orun g (orun g s (tail src tid ns order)) (tail src tid ns order))
    by (unfold orun; apply fold_left_app).
  rewrite E, !orun_tail, tail_classes_tail. rewrite tail_classes_tail in Hok.
  cbn [forallb] in Hok.
  apply andb_prop in Hok. destruct Hok as [K1 Hok].
  apply andb_prop in Hok. destruct Hok as [K2 Hok].
  apply andb_prop in Hok. destruct Hok as [K3 _].
  apply rok_true in K1. apply rok_true in K2. apply rok_true in K3.
  set (s1 := snd (obake g s)) in *.
  set (s2 := snd (oinit_source g s1 src)) in *.
  assert (C1 : cfg_eq s1 s) by apply bake_keeps_cfg.
  assert (C2 : cfg_eq s2 s1).
  { apply init_keeps_cfg.
    - rewrite (ce_di _ _ C1). exact Hd.
    - rewrite (ce_at _ _ C1). exact Ha. }
  unfold tail_state. fold s1. fold s2.
  set (s3 := snd (oexchange g s2 tid ns order true)) in *.
  assert (C3 : cfg_eq s3 s) by
    (eapply cfg_trans; [apply exch_keeps_cfg|]; eapply cfg_trans; eassumption).
  destruct (bake_cfg g s3 s C3) as [B1 B2].
  rewrite K1 in B1. specialize (B2 B1). fold s1 in B2.
  destruct (init_cfg g _ _ src B2) as [I1 I2].
  fold s2 in I1, I2. rewrite K2 in I1. specialize (I2 I1).
  destruct (exch_cfg g _ _ tid ns order I2) as [X1 X2].
  fold s3 in X1, X2. rewrite K3 in X1. specialize (X2 X1).
  split.
  - rewrite B1, I1, X1. reflexivity.
  - apply final_eq_eq. exact X2.
Qed.

(** The attenuation proviso is needed in the MODEL: with materials but without an attenuation the
    first bake records "no attenuation" in the provenance of form_factors_tilde, init_source_energy
    then installs the zero attenuation, and the second bake records that one.  (Numerically both
    mean exp(-0 d) = 1: this is a difference of provenance, not a finding about the numbers; the
    materials proviso is the finding default_install_rebake, see
    Instances/ObjectExamples.default_brdf_refuted.) *)
Lemma tail_twice_needs_att :
  exists g s src tid ns order,
    o_dirs_in s <> None /\ o_att s = None /\
    tail_classes g s (tail src tid ns order ++ tail src tid ns order) = [ROk; ROk; ROk; ROk; ROk; ROk] /\
    o_tilde (orun g s (tail src tid ns order ++ tail src tid ns order)) <>
    o_tilde (orun g s (tail src tid ns order)).
Proof.
  exists gI, (orun gI (init gI) [OpSetBrdf [0; 1; 2; 3; 4; 5] 1 1 4 1 2 false]), 1, 1, 20, 2.
  split; [vm_compute; discriminate|]. split; [vm_compute; reflexivity|].
  split; [vm_compute; reflexivity|]. vm_compute. intros H. discriminate H.
Qed.
