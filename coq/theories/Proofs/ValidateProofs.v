(** * Proofs about the validation model (C18). *)
From Coq Require Import List Arith Bool ZArith Lia.
Import ListNotations.
From SV Require Import Base.Ops Model.Validate Spec.ValidateSpec.

Lemma shape_eqb_spec a b : shape_eqb a b = true <-> a = b.
Proof.
  revert b. induction a as [|x a IH]; intros [|y b]; simpl; split; intros H;
    try reflexivity; try discriminate.
  - apply andb_true_iff in H. destruct H as [H1 H2]. apply Nat.eqb_eq in H1.
    apply IH in H2. congruence.
  - injection H as Hx Ha. subst. rewrite Nat.eqb_refl. simpl. now apply IH.
Qed.

Lemma shape_eqb_refl a : shape_eqb a a = true.
Proof. now apply shape_eqb_spec. Qed.

Lemma shape_eqb_neq a b : a <> b -> shape_eqb a b = false.
Proof.
  intros H. destruct (shape_eqb a b) eqn:E; [|reflexivity].
  apply shape_eqb_spec in E. contradiction.
Qed.

Lemma all_clauses_complete c : In c all_clauses.
Proof. destruct c; simpl; tauto. Qed.

Section ValidateProofs.
  Context {T : Type} {O : Ops T} {OL : OrderLaws T}.
  Notation state := (state T).

  Definition test_of (c : clause) : state -> verdict :=
    match c with
    | CWalls => t_walls | CUp => t_up | CNormal => t_normal | CPatches => t_patches
    | CIdsShape => t_ids_shape | CIdsRange => t_ids_range | CIdsCover => t_ids_cover
    | CFreq => t_freq | CFormFactors => t_form_factors | CBrdfIndex => t_brdf_index
    | CInDirs => t_in_dirs | COutDirs => t_out_dirs | CTilde => t_tilde
    | CAttenuation => t_attenuation | CSpeed => t_speed | CResolution => t_resolution
    | CDuration => t_duration | CDistance => t_distance | CEnergyInit => t_energy_init
    | CHist => t_histogram
    end.

  Lemma cascade_tests : @cascade T O = map test_of all_clauses.
  Proof. reflexivity. Qed.

  (** ** the cascade *)
  Lemma run_ok (l : list clause) (s : state) :
    (forall c, In c l -> test_of c s = None) -> run_cascade (map test_of l) s = Ok.
  Proof.
    induction l as [|c l IH]; intros H; simpl; [reflexivity|].
    rewrite (H c) by (left; reflexivity). apply IH. intros c' Hc'. apply H. now right.
  Qed.

  Lemma run_value_error (l : list clause) (s : state) :
    (forall c, In c l -> test_of c s = None \/ test_of c s = Some ValueError) ->
    (exists c, In c l /\ test_of c s <> None) ->
    run_cascade (map test_of l) s = ValueError.
  Proof.
    induction l as [|c l IH]; intros Hall (c0 & Hin & Hne); simpl.
    - destruct Hin.
    - destruct (Hall c (or_introl eq_refl)) as [E|E]; rewrite E; [|reflexivity].
      apply IH.
      + intros c' Hc'. apply Hall. now right.
      + destruct Hin as [Hin|Hin]; [subst c0; contradiction|].
        exists c0. split; assumption.
  Qed.

  (** ** small facts *)
  Lemma raise_if_none b : raise_if b = None <-> b = false.
  Proof. destruct b; simpl; split; intros H; congruence. Qed.

  Lemma raise_if_cases b : raise_if b = None \/ raise_if b = Some ValueError.
  Proof. destruct b; simpl; auto. Qed.

  Lemma forallb_coord l : forallb is_coord l = true <-> (forall k, In k l -> k = Coord).
  Proof.
    rewrite forallb_forall. split; intros H k Hk.
    - specialize (H k Hk). destruct k; [reflexivity|discriminate].
    - rewrite (H k Hk). reflexivity.
  Qed.

  Lemma in_range_spec nw z : in_range nw z = true <-> (0 <= z < Z.of_nat nw)%Z.
  Proof. unfold in_range. rewrite andb_true_iff, Z.leb_le, Z.ltb_lt. tauto. Qed.

  Lemma has_wall_spec l w : has_wall l w = true <-> In (Z.of_nat w) l.
  Proof.
    unfold has_wall. rewrite existsb_exists. split.
    - intros (z & Hin & E). apply Z.eqb_eq in E. now subst.
    - intros H. exists (Z.of_nat w). split; [assumption|apply Z.eqb_refl].
  Qed.

  (** ** soundness, test by test *)
  Lemma test_sound c (s : state) : holds c s -> test_of c s = None.
  Proof.
    destruct c; unfold holds, test_of, positive, opt_holds.
    - (* walls *) intros [k H]. unfold t_walls, conv_walls.
      remember (n_walls s) as nw. rewrite H. reflexivity.
    - (* up *) intros H. unfold t_up. rewrite H. simpl atleast_2d. now rewrite shape_eqb_refl.
    - (* normal *) intros H. unfold t_normal. rewrite H. simpl atleast_2d.
      now rewrite shape_eqb_refl.
    - (* patches *) intros [k H]. unfold t_patches, conv_patches. rewrite H. simpl.
      now rewrite Nat.eqb_refl.
    - (* ids shape *) intros (l & H & Hl). unfold t_ids_shape. rewrite H. simpl ids_shape.
      rewrite Hl. now rewrite shape_eqb_refl.
    - (* ids range *) intros H. unfold t_ids_range. apply raise_if_none.
      apply negb_false_iff. apply forallb_forall. intros z Hz. apply in_range_spec. now apply H.
    - (* ids cover *) intros H. unfold t_ids_cover. apply raise_if_none.
      apply negb_false_iff. apply forallb_forall. intros w Hw. apply in_seq in Hw.
      apply has_wall_spec. apply H. lia.
    - (* freq *) unfold t_freq. destruct (v_frequencies s) as [sh|]; [|reflexivity].
      intros H. rewrite H. reflexivity.
    - (* form factors *) unfold t_form_factors. destruct (v_form_factors s) as [sh|]; [|reflexivity].
      intros H. rewrite H. now rewrite shape_eqb_refl.
    - (* brdf index *) unfold t_brdf_index. destruct (v_brdf_index s) as [sh|]; [|reflexivity].
      intros H. rewrite H. now rewrite Nat.eqb_refl.
    - (* in dirs *) unfold t_in_dirs.
      destruct (v_brdf_incoming_directions s) as [l|]; [|reflexivity].
      intros H. apply forallb_coord in H. now rewrite H.
    - (* out dirs *) unfold t_out_dirs.
      destruct (v_brdf_outgoing_directions s) as [l|]; [|reflexivity].
      intros [Hne H]. apply forallb_coord in H. rewrite H. simpl.
      destruct l; [contradiction|reflexivity].
    - (* tilde *) unfold t_tilde. destruct (v_form_factors_tilde s) as [sh|]; [|reflexivity].
      intros H. rewrite H. now rewrite shape_eqb_refl.
    - (* attenuation *) unfold t_attenuation.
      destruct (v_air_attenuation s) as [sh|]; [|reflexivity].
      intros H. rewrite H. simpl. now rewrite Nat.eqb_refl.
    - (* speed *) unfold t_speed, t_positive. destruct (v_speed_of_sound s) as [v|]; [|reflexivity].
      cbn beta iota. unfold tlt. intros H. rewrite tltb_spec in H.
      apply negb_true_iff in H. now rewrite H.
    - unfold t_resolution, t_positive.
      destruct (v_etc_time_resolution s) as [v|]; [|reflexivity].
      cbn beta iota. unfold tlt. intros H. rewrite tltb_spec in H.
      apply negb_true_iff in H. now rewrite H.
    - unfold t_duration, t_positive. destruct (v_etc_duration s) as [v|]; [|reflexivity].
      cbn beta iota. unfold tlt. intros H. rewrite tltb_spec in H.
      apply negb_true_iff in H. now rewrite H.
    - (* distance *) unfold t_distance.
      destruct (v_distance_patches_to_source s) as [sh|]; [|reflexivity].
      intros H. rewrite H. now rewrite shape_eqb_refl.
    - (* energy init *) unfold t_energy_init.
      destruct (v_energy_init_source s) as [sh|]; [|reflexivity].
      intros H. rewrite H. now rewrite shape_eqb_refl.
    - (* histogram *) unfold t_histogram.
      destruct (v_energy_exchange_etc s) as [sh|]; [|reflexivity].
      intros (d & r & Hd & Hr & H). rewrite Hd, Hr, H. now rewrite shape_eqb_refl.
  Qed.
  (** ** unless the state is [Foreign], no test leaves the documented exception class *)
  Lemma test_no_other c (s : state) :
    ~ Foreign s -> test_of c s = None \/ test_of c s = Some ValueError.
  Proof.
    intros NF. destruct c; unfold test_of.
    - apply raise_if_cases.
    - apply raise_if_cases.
    - apply raise_if_cases.
    - apply raise_if_cases.
    - apply raise_if_cases.
    - apply raise_if_cases.
    - apply raise_if_cases.
    - unfold t_freq. destruct (v_frequencies s); [apply raise_if_cases|now left].
    - unfold t_form_factors. destruct (v_form_factors s); [apply raise_if_cases|now left].
    - unfold t_brdf_index. destruct (v_brdf_index s) as [[|n r]|] eqn:E.
      + exfalso. apply NF. left. exact E.
      + apply raise_if_cases.
      + now left.
    - unfold t_in_dirs. destruct (v_brdf_incoming_directions s); [apply raise_if_cases|now left].
    - unfold t_out_dirs. destruct (v_brdf_outgoing_directions s) as [l|] eqn:E; [|now left].
      destruct (negb (forallb is_coord l)); [now right|].
      destruct l; [|now left]. exfalso. apply NF. right. left. exact E.
    - unfold t_tilde. destruct (v_form_factors_tilde s); [apply raise_if_cases|now left].
    - unfold t_attenuation. destruct (v_air_attenuation s) as [sh|]; [|now left].
      destruct (negb (length sh =? 1)); [now right|apply raise_if_cases].
    - unfold t_speed, t_positive. destruct (v_speed_of_sound s); [apply raise_if_cases|now left].
    - unfold t_resolution, t_positive.
      destruct (v_etc_time_resolution s); [apply raise_if_cases|now left].
    - unfold t_duration, t_positive. destruct (v_etc_duration s); [apply raise_if_cases|now left].
    - unfold t_distance.
      destruct (v_distance_patches_to_source s); [apply raise_if_cases|now left].
    - unfold t_energy_init. destruct (v_energy_init_source s); [apply raise_if_cases|now left].
    - unfold t_histogram. destruct (v_energy_exchange_etc s) as [sh|] eqn:E; [|now left].
      assert (Hh : v_energy_exchange_etc s <> None) by (rewrite E; discriminate).
      destruct (v_etc_duration s) as [d|] eqn:Ed.
      + destruct (v_etc_time_resolution s) as [r|] eqn:Er; [apply raise_if_cases|].
        exfalso. apply NF. right. right. split; [exact Hh|now right].
      + exfalso. apply NF. right. right. split; [exact Hh|now left].
  Qed.

  (** ** completeness, test by test: a violated clause makes its own test fail, unless the
      violation is one of the [masked] ones or the state is [Foreign] *)
  Lemma raise_if_true b : b = true -> raise_if b <> None.
  Proof. intros ->. discriminate. Qed.

  Lemma test_complete c (s : state) :
    ~ Foreign s -> ~ holds c s -> ~ masked c s -> test_of c s <> None.
  Proof.
    intros NF; destruct c; unfold holds, masked, test_of, positive, opt_holds; intros H M.
    - (* walls *) unfold t_walls, n_walls, conv_walls in *.
      destruct (v_walls_points s) as [|a [|b [|c0 [|d r]]]]; cbn in *; try discriminate.
      destruct (Nat.eqb_spec c0 3) as [E|E]; cbn; [|discriminate].
      exfalso. apply H. exists b. now rewrite E.
    - (* up *) unfold t_up. apply raise_if_true. apply negb_true_iff. apply shape_eqb_neq.
      destruct (v_walls_up_vector s) as [|a [|b [|c0 r]]]; cbn; try congruence.
      intros E. injection E as E1 E2. apply M. split; congruence.
    - (* normal *) unfold t_normal. apply raise_if_true. apply negb_true_iff. apply shape_eqb_neq.
      destruct (v_walls_normal s) as [|a [|b [|c0 r]]]; cbn; try congruence.
      intros E. injection E as E1 E2. apply M. split; congruence.
    - (* patches *) unfold t_patches, conv_patches in *.
      destruct (v_patches_points s) as [|a [|b [|c0 [|d r]]]]; cbn in *;
        try discriminate; try (apply raise_if_true; rewrite ?orb_true_r; reflexivity).
      destruct (Nat.eqb_spec a (v_n_patches s)) as [Ea|Ea]; cbn; [|discriminate].
      destruct (Nat.eqb_spec c0 3) as [E|E]; cbn; [|discriminate].
      exfalso. apply H. exists b. now rewrite E, Ea.
    - (* ids shape *) unfold t_ids_shape. apply raise_if_true. apply negb_true_iff.
      apply shape_eqb_neq.
      destruct (v_patch_to_wall_ids s) as [z|l|a b r]; cbn; try congruence.
      + intros E. apply M. split; [now exists z|congruence].
      + intros E. apply H. exists l. split; [reflexivity|congruence].
    - (* ids range *) unfold t_ids_range. apply raise_if_true. apply negb_true_iff.
      destruct (forallb _ _) eqn:E; [|reflexivity].
      exfalso. apply H. intros z Hz. apply in_range_spec.
      rewrite forallb_forall in E. now apply E.
    - (* ids cover *) unfold t_ids_cover. apply raise_if_true. apply negb_true_iff.
      destruct (forallb _ _) eqn:E; [|reflexivity].
      exfalso. apply H. intros w Hw. apply has_wall_spec.
      rewrite forallb_forall in E. apply E. apply in_seq. lia.
    - (* freq *) unfold t_freq. destruct (v_frequencies s) as [sh|]; [|tauto].
      apply raise_if_true. apply negb_true_iff. apply Nat.eqb_neq. exact H.
    - (* form factors *) unfold t_form_factors. destruct (v_form_factors s) as [sh|]; [|tauto].
      apply raise_if_true. apply negb_true_iff. now apply shape_eqb_neq.
    - (* brdf index *) unfold t_brdf_index.
      destruct (v_brdf_index s) as [[|n r]|] eqn:E; [discriminate| |tauto].
      apply raise_if_true. apply negb_true_iff. apply Nat.eqb_neq. intros En.
      destruct r as [|x r].
      + apply H. now rewrite En.
      + apply M. exists n, (x :: r). repeat split; [assumption|discriminate].
    - (* in dirs *) unfold t_in_dirs.
      destruct (v_brdf_incoming_directions s) as [l|]; [|tauto].
      apply raise_if_true. apply negb_true_iff.
      destruct (forallb is_coord l) eqn:E; [|reflexivity].
      exfalso. apply H. now apply forallb_coord.
    - (* out dirs *) unfold t_out_dirs.
      destruct (v_brdf_outgoing_directions s) as [l|] eqn:El; [|tauto].
      destruct (forallb is_coord l) eqn:E; cbn; [|discriminate].
      destruct l as [|k l]; [discriminate|].
      exfalso. apply H. split; [discriminate|now apply forallb_coord].
    - (* tilde *) unfold t_tilde. destruct (v_form_factors_tilde s) as [sh|]; [|tauto].
      apply raise_if_true. apply negb_true_iff. now apply shape_eqb_neq.
    - (* attenuation *) unfold t_attenuation.
      destruct (v_air_attenuation s) as [sh|]; [|tauto].
      destruct sh as [|n [|m r]]; cbn; try discriminate.
      apply raise_if_true. apply negb_true_iff. apply Nat.eqb_neq. congruence.
    - (* speed *) unfold t_speed, t_positive. destruct (v_speed_of_sound s) as [v|]; [|tauto].
      apply raise_if_true. unfold tlt in H. rewrite tltb_spec in H.
      destruct (tleb v 0%T); [reflexivity|]. exfalso. now apply H.
    - unfold t_resolution, t_positive.
      destruct (v_etc_time_resolution s) as [v|]; [|tauto].
      apply raise_if_true. unfold tlt in H. rewrite tltb_spec in H.
      destruct (tleb v 0%T); [reflexivity|]. exfalso. now apply H.
    - unfold t_duration, t_positive. destruct (v_etc_duration s) as [v|]; [|tauto].
      apply raise_if_true. unfold tlt in H. rewrite tltb_spec in H.
      destruct (tleb v 0%T); [reflexivity|]. exfalso. now apply H.
    - (* distance *) unfold t_distance.
      destruct (v_distance_patches_to_source s) as [sh|]; [|tauto].
      apply raise_if_true. apply negb_true_iff. now apply shape_eqb_neq.
    - (* energy init *) unfold t_energy_init.
      destruct (v_energy_init_source s) as [sh|]; [|tauto].
      apply raise_if_true. apply negb_true_iff. now apply shape_eqb_neq.
    - (* histogram *) unfold t_histogram.
      destruct (v_energy_exchange_etc s) as [sh|] eqn:E; [|tauto].
      destruct (v_etc_duration s) as [d|]; [|discriminate].
      destruct (v_etc_time_resolution s) as [r|]; [|discriminate].
      apply raise_if_true. apply negb_true_iff. apply shape_eqb_neq. intros Es.
      apply H. exists d, r. repeat split. exact Es.
  Qed.

  (** ** the theorems *)
  Theorem construct_sound (s : state) : Consistent s -> construct s = Ok.
  Proof.
    intros H. unfold construct. rewrite cascade_tests. apply run_ok.
    intros c _. apply test_sound, H.
  Qed.

  Theorem construct_complete (s : state) (c : clause) :
    ~ Foreign s -> ~ holds c s -> ~ masked c s -> construct s = ValueError.
  Proof.
    intros NF H M. unfold construct. rewrite cascade_tests. apply run_value_error.
    - intros c' _. now apply test_no_other.
    - exists c. split; [apply all_clauses_complete|now apply test_complete].
  Qed.
End ValidateProofs.

(** ** witnesses: clause violations the code does not answer with ValueError.
    All of them live in a one-wall, one-patch scene with unset scalars, so they exist for every
    scalar type. *)
Section Witnesses.
  Context {T : Type} {O : Ops T}.

  (** the saved state of [from_polygon] on one rectangular wall that is one patch *)
  Definition tiny_state : state T :=
    mkState T [1; 4; 3] [1; 3] [1; 3] [1; 4; 3] 1 (IdsVec [0%Z])
            None None None None None None None None None 1 None None None None None None None None.

  Definition set_up (s : state T) (sh : shape) : state T :=
    mkState T (v_walls_points s) (v_walls_normal s) sh (v_patches_points s) (v_n_patches s)
      (v_patch_to_wall_ids s) (v_visibility_matrix s) (v_visible_patches s) (v_form_factors s)
      (v_form_factors_tilde s) (v_frequencies s) (v_brdf s) (v_brdf_index s)
      (v_brdf_incoming_directions s) (v_brdf_outgoing_directions s) (v_out_csize s)
      (v_patch_2_brdf_outgoing_index s) (v_air_attenuation s) (v_speed_of_sound s)
      (v_etc_time_resolution s) (v_etc_duration s) (v_distance_patches_to_source s)
      (v_energy_init_source s) (v_energy_exchange_etc s).
  Definition set_normal (s : state T) (sh : shape) : state T :=
    mkState T (v_walls_points s) sh (v_walls_up_vector s) (v_patches_points s) (v_n_patches s)
      (v_patch_to_wall_ids s) (v_visibility_matrix s) (v_visible_patches s) (v_form_factors s)
      (v_form_factors_tilde s) (v_frequencies s) (v_brdf s) (v_brdf_index s)
      (v_brdf_incoming_directions s) (v_brdf_outgoing_directions s) (v_out_csize s)
      (v_patch_2_brdf_outgoing_index s) (v_air_attenuation s) (v_speed_of_sound s)
      (v_etc_time_resolution s) (v_etc_duration s) (v_distance_patches_to_source s)
      (v_energy_init_source s) (v_energy_exchange_etc s).
  Definition set_ids (s : state T) (d : ids_desc) : state T :=
    mkState T (v_walls_points s) (v_walls_normal s) (v_walls_up_vector s) (v_patches_points s)
      (v_n_patches s) d (v_visibility_matrix s) (v_visible_patches s) (v_form_factors s)
      (v_form_factors_tilde s) (v_frequencies s) (v_brdf s) (v_brdf_index s)
      (v_brdf_incoming_directions s) (v_brdf_outgoing_directions s) (v_out_csize s)
      (v_patch_2_brdf_outgoing_index s) (v_air_attenuation s) (v_speed_of_sound s)
      (v_etc_time_resolution s) (v_etc_duration s) (v_distance_patches_to_source s)
      (v_energy_init_source s) (v_energy_exchange_etc s).
  Definition set_brdf_index (s : state T) (x : option shape) : state T :=
    mkState T (v_walls_points s) (v_walls_normal s) (v_walls_up_vector s) (v_patches_points s)
      (v_n_patches s) (v_patch_to_wall_ids s) (v_visibility_matrix s) (v_visible_patches s)
      (v_form_factors s) (v_form_factors_tilde s) (v_frequencies s) (v_brdf s) x
      (v_brdf_incoming_directions s) (v_brdf_outgoing_directions s) (v_out_csize s)
      (v_patch_2_brdf_outgoing_index s) (v_air_attenuation s) (v_speed_of_sound s)
      (v_etc_time_resolution s) (v_etc_duration s) (v_distance_patches_to_source s)
      (v_energy_init_source s) (v_energy_exchange_etc s).
  Definition set_out_dirs (s : state T) (x : option (list dirkind)) : state T :=
    mkState T (v_walls_points s) (v_walls_normal s) (v_walls_up_vector s) (v_patches_points s)
      (v_n_patches s) (v_patch_to_wall_ids s) (v_visibility_matrix s) (v_visible_patches s)
      (v_form_factors s) (v_form_factors_tilde s) (v_frequencies s) (v_brdf s) (v_brdf_index s)
      (v_brdf_incoming_directions s) x (v_out_csize s)
      (v_patch_2_brdf_outgoing_index s) (v_air_attenuation s) (v_speed_of_sound s)
      (v_etc_time_resolution s) (v_etc_duration s) (v_distance_patches_to_source s)
      (v_energy_init_source s) (v_energy_exchange_etc s).
  Definition set_hist (s : state T) (x : option shape) : state T :=
    mkState T (v_walls_points s) (v_walls_normal s) (v_walls_up_vector s) (v_patches_points s)
      (v_n_patches s) (v_patch_to_wall_ids s) (v_visibility_matrix s) (v_visible_patches s)
      (v_form_factors s) (v_form_factors_tilde s) (v_frequencies s) (v_brdf s) (v_brdf_index s)
      (v_brdf_incoming_directions s) (v_brdf_outgoing_directions s) (v_out_csize s)
      (v_patch_2_brdf_outgoing_index s) (v_air_attenuation s) (v_speed_of_sound s)
      (v_etc_time_resolution s) (v_etc_duration s) (v_distance_patches_to_source s)
      (v_energy_init_source s) x.

  Lemma tiny_accepted : construct tiny_state = Ok.
  Proof. reflexivity. Qed.

  Lemma masked_up_vector :
    exists s : state T, ~ holds CUp s /\ construct s = Ok.
  Proof. exists (set_up tiny_state [3]). split; [cbn; discriminate|reflexivity]. Qed.

  Lemma masked_normal :
    exists s : state T, ~ holds CNormal s /\ construct s = Ok.
  Proof. exists (set_normal tiny_state [3]). split; [cbn; discriminate|reflexivity]. Qed.

  Lemma masked_wall_ids :
    exists s : state T, ~ holds CIdsShape s /\ construct s = Ok.
  Proof.
    exists (set_ids tiny_state (IdsScalar 0%Z)). split; [|reflexivity].
    cbn. intros (l & E & _). discriminate.
  Qed.

  Lemma weak_brdf_index :
    (exists s : state T, ~ holds CBrdfIndex s /\ construct s = Ok) /\
    (exists s : state T, ~ holds CBrdfIndex s /\ construct s = OtherError).
  Proof.
    split.
    - exists (set_brdf_index tiny_state (Some [1; 2])). split; [cbn; discriminate|reflexivity].
    - exists (set_brdf_index tiny_state (Some [])). split; [cbn; discriminate|reflexivity].
  Qed.

  Lemma empty_out_dirs :
    exists s : state T, ~ holds COutDirs s /\ construct s = OtherError.
  Proof.
    exists (set_out_dirs tiny_state (Some [])). split; [|reflexivity].
    cbn. intros [H _]. now apply H.
  Qed.

  Lemma hist_without_duration :
    exists s : state T, ~ holds CHist s /\ construct s = OtherError.
  Proof.
    exists (set_hist tiny_state (Some [1; 1; 1; 5])). split; [|reflexivity].
    cbn. intros (d & r & E & _). discriminate.
  Qed.
End Witnesses.
