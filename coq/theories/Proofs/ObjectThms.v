(** * Round trip under the kind invariant, equality, refutation witnesses (C15, C16). *)
From Coq Require Import List Arith Bool Lia.
Import ListNotations.
From SV Require Import Model.Object Spec.ObjectSpec Proofs.ObjectProofs.

(** ** __eq__ is reflexive on dictionaries *)
Lemma nats_eqb_refl l : nats_eqb l l = true.
Proof. induction l; cbn; [reflexivity|]. rewrite Nat.eqb_refl. exact IHl. Qed.

Fixpoint term_eqb_refl (t : term) : term_eqb t t = true.
Proof.
  destruct t as [f n a]. cbn. rewrite Nat.eqb_refl, nats_eqb_refl. cbn.
  induction a as [|x r IH]; [reflexivity|].
  rewrite (term_eqb_refl x). cbn. exact IH.
Qed.

Lemma dval_eqb_refl v : dval_eqb v v = true.
Proof. destruct v; cbn; rewrite ?Nat.eqb_refl, ?nats_eqb_refl, ?term_eqb_refl; reflexivity. Qed.
Lemma field_eqb_refl f : field_eqb f f = true.
Proof. destruct f; reflexivity. Qed.
Lemma dict_eqb_refl d : dict_eqb d d = true.
Proof. induction d as [|[f v] r IH]; cbn; [reflexivity|]. rewrite field_eqb_refl, dval_eqb_refl. exact IH. Qed.

(** ** what the constructor makes of one saved attribute *)
Definition cvt (b : bool) (f : field) (d : option desc) : option desc :=
  match d with
  | None => None
  | Some x =>
    if is_dirs f then Some (mkD KList (dsh x) (dv x) (if b then Fresh else Alias))
    else Some (mkD (dk x) (dsh x) (dv x) Fresh)
  end.

Lemma conv_enc b f d :
  serialised f = true -> fkind_ok f d = true -> conv b f (enc d) = Some (cvt b f d).
Proof.
  destruct d as [[k sh v o]|]; destruct f; cbn; try discriminate; try reflexivity;
    destruct k; cbn; intros; try discriminate; reflexivity.
Qed.

Definition rst (b : bool) (s : ostate) : ostate :=
  mkO (cvt b FWallsPoints (o_walls_points s)) (cvt b FWallsNormal (o_walls_normal s))
      (cvt b FWallsUp (o_walls_up s)) (cvt b FPatchesPoints (o_patches_points s))
      (cvt b FNPatches (o_n_patches s)) (cvt b FWallIds (o_wall_ids s)) (cvt b FVis (o_vis s))
      (cvt b FPairs (o_pairs s)) (cvt b FFF (o_ff s)) (cvt b FTilde (o_tilde s)) (cvt b FFreq (o_freq s))
      (cvt b FBrdf (o_brdf s)) (cvt b FBrdfIndex (o_brdf_index s)) (cvt b FDirsIn (o_dirs_in s))
      (cvt b FDirsOut (o_dirs_out s)) (cvt b FP2O (o_p2o s)) (cvt b FAtt (o_att s)) (cvt b FC (o_c s))
      (cvt b FDt (o_dt s)) (cvt b FDur (o_dur s)) (cvt b FDist (o_dist s)) (cvt b FE0 (o_e0 s))
      (cvt b FEtc (o_etc s)) None None.

Lemma restore_wf g b s :
  wf s ->
  restore g b s = match ocheck g (rst b s) with ROk => (ROk, Some (rst b s)) | e => (e, None) end.
Proof.
  intros H. unfold restore, from_dict, cv, to_dict. cbn [map dict_fields dget field_eqb].
  rewrite !conv_enc by (try reflexivity; apply H).
  reflexivity.
Qed.

Lemma ocheck_rst g b s : ocheck g (rst b s) = ocheck g s.
Proof.
  destruct s. unfold ocheck, rst, nbins, all_dirs, shape_is. cbn [Object.o_dirs_in Object.o_dirs_out Object.o_tilde Object.o_att Object.o_e0 Object.o_etc Object.o_dur Object.o_freq].
  destruct o_dirs_in, o_dirs_out, o_tilde, o_att, o_e0, o_etc, o_dur, o_freq; reflexivity.
Qed.

Lemma cvt_norm b f d : fkind_ok f d = true -> nv f (cvt b f d) = nv f d.
Proof.
  destruct d as [[k sh v o]|]; [|reflexivity].
  destruct f; cbn; try reflexivity; destruct k; cbn; intros; try discriminate; reflexivity.
Qed.

Lemma ostate_ext a b : (forall f, get f a = get f b) -> a = b.
Proof.
  intros H. destruct a, b.
  pose proof (H FWallsPoints) as E0; cbn [get] in E0.
  pose proof (H FWallsNormal) as E1; cbn [get] in E1.
  pose proof (H FWallsUp) as E2; cbn [get] in E2.
  pose proof (H FPatchesPoints) as E3; cbn [get] in E3.
  pose proof (H FNPatches) as E4; cbn [get] in E4.
  pose proof (H FWallIds) as E5; cbn [get] in E5.
  pose proof (H FVis) as E6; cbn [get] in E6.
  pose proof (H FPairs) as E7; cbn [get] in E7.
  pose proof (H FFF) as E8; cbn [get] in E8.
  pose proof (H FTilde) as E9; cbn [get] in E9.
  pose proof (H FFreq) as E10; cbn [get] in E10.
  pose proof (H FBrdf) as E11; cbn [get] in E11.
  pose proof (H FBrdfIndex) as E12; cbn [get] in E12.
  pose proof (H FDirsIn) as E13; cbn [get] in E13.
  pose proof (H FDirsOut) as E14; cbn [get] in E14.
  pose proof (H FP2O) as E15; cbn [get] in E15.
  pose proof (H FAtt) as E16; cbn [get] in E16.
  pose proof (H FC) as E17; cbn [get] in E17.
  pose proof (H FDt) as E18; cbn [get] in E18.
  pose proof (H FDur) as E19; cbn [get] in E19.
  pose proof (H FDist) as E20; cbn [get] in E20.
  pose proof (H FE0) as E21; cbn [get] in E21.
  pose proof (H FEtc) as E22; cbn [get] in E22.
  pose proof (H FSource) as E23; cbn [get] in E23.
  pose proof (H FSourceVis) as E24; cbn [get] in E24.
  cbn in *. subst. reflexivity.
Qed.

Lemma get_rst b f s : get f (rst b s) = if serialised f then cvt b f (get f s) else None.
Proof. destruct f; reflexivity. Qed.

Lemma rst_sim b s : wf s -> sim s (rst b s).
Proof.
  intros H. unfold sim. apply ostate_ext. intro f. rewrite !get_norm, get_rst.
  unfold nv at 1 2. destruct (serialised f) eqn:E; [|reflexivity].
  pose proof (cvt_norm b f _ (H f)) as C. unfold nv in C. rewrite E in C. symmetry. exact C.
Qed.

Lemma enc_cvt b f d : fkind_ok f d = true -> enc (cvt b f d) = enc d.
Proof.
  destruct d as [[k sh v o]|]; [|reflexivity].
  destruct f; cbn; try reflexivity; destruct k; cbn; intros; try discriminate; reflexivity.
Qed.

Lemma rst_to_dict b s : wf s -> to_dict (rst b s) = to_dict s.
Proof.
  intros H. unfold to_dict. cbn [map dict_fields].
  change (get FWallsPoints (rst b s)) with (cvt b FWallsPoints (get FWallsPoints s)).
  change (get FWallsNormal (rst b s)) with (cvt b FWallsNormal (get FWallsNormal s)).
  change (get FWallsUp (rst b s)) with (cvt b FWallsUp (get FWallsUp s)).
  change (get FPatchesPoints (rst b s)) with (cvt b FPatchesPoints (get FPatchesPoints s)).
  change (get FNPatches (rst b s)) with (cvt b FNPatches (get FNPatches s)).
  change (get FWallIds (rst b s)) with (cvt b FWallIds (get FWallIds s)).
  change (get FVis (rst b s)) with (cvt b FVis (get FVis s)).
  change (get FPairs (rst b s)) with (cvt b FPairs (get FPairs s)).
  change (get FFF (rst b s)) with (cvt b FFF (get FFF s)).
  change (get FTilde (rst b s)) with (cvt b FTilde (get FTilde s)).
  change (get FFreq (rst b s)) with (cvt b FFreq (get FFreq s)).
  change (get FBrdf (rst b s)) with (cvt b FBrdf (get FBrdf s)).
  change (get FBrdfIndex (rst b s)) with (cvt b FBrdfIndex (get FBrdfIndex s)).
  change (get FDirsIn (rst b s)) with (cvt b FDirsIn (get FDirsIn s)).
  change (get FDirsOut (rst b s)) with (cvt b FDirsOut (get FDirsOut s)).
  change (get FP2O (rst b s)) with (cvt b FP2O (get FP2O s)).
  change (get FAtt (rst b s)) with (cvt b FAtt (get FAtt s)).
  change (get FC (rst b s)) with (cvt b FC (get FC s)).
  change (get FDt (rst b s)) with (cvt b FDt (get FDt s)).
  change (get FDur (rst b s)) with (cvt b FDur (get FDur s)).
  change (get FDist (rst b s)) with (cvt b FDist (get FDist s)).
  change (get FE0 (rst b s)) with (cvt b FE0 (get FE0 s)).
  change (get FEtc (rst b s)) with (cvt b FEtc (get FEtc s)).
  rewrite !enc_cvt by (apply H). reflexivity.
Qed.

(** C15_roundtrip (under the kind invariant): a state accepted by check() is restored to a
    similar state that compares equal; a state refused by check() is refused by from_dict. *)
Lemma roundtrip g b s :
  wf s ->
  (ocheck g s = ROk ->
   exists s', restore g b s = (ROk, Some s') /\ sim s s' /\ oeq s s' = true /\ oeq s' s = true) /\
  (ocheck g s <> ROk -> restore g b s = (ocheck g s, None)).
Proof.
  intros H. rewrite (restore_wf g b s H), ocheck_rst. split.
  - intros Hc. rewrite Hc. exists (rst b s). split; [reflexivity|]. split; [apply rst_sim, H|].
    unfold oeq. rewrite (rst_to_dict b s H), dict_eqb_refl. split; reflexivity.
  - intros Hc. destruct (ocheck g s); try reflexivity. contradiction.
Qed.

(** ** bisimulation for the calls whose commutation with the normalisation is proved *)
Lemma set_att_idem s aid fid nb :
  fst (oset_att s aid fid nb) = ROk ->
  oset_att (snd (oset_att s aid fid nb)) aid fid nb = oset_att s aid fid nb.
Proof.
  unfold oset_att, check_set_freq.
  destruct (o_freq s) as [f|] eqn:E.
  - destruct ((hd 0 (dsh f) =? nb) && nats_eqb (tnums (dv f)) [fid]) eqn:C; cbn [fst snd]; [|discriminate].
    intros _. replace (o_freq (put FAtt (Some (mkD KArrF [nb] (T0 SAtt [aid]) Alias)) s)) with (Some f)
      by (destruct s; cbn in *; congruence).
    rewrite C. destruct s; reflexivity.
  - cbn [fst snd]. intros _.
    replace (o_freq (put FAtt (Some (mkD KArrF [nb] (T0 SAtt [aid]) Alias))
                      (put FFreq (Some (mkD KArrF [nb] (T0 SFreq [fid]) Alias)) s)))
      with (Some (mkD KArrF [nb] (T0 SFreq [fid]) Alias)) by (destruct s; reflexivity).
    cbn [dsh dv hd tnums T0]. rewrite Nat.eqb_refl. cbn [nats_eqb]. rewrite Nat.eqb_refl. cbn [andb].
    destruct s; reflexivity.
Qed.

(** the material part of the tilde / e0 provenance depends on the table list and the index only
    through the per-wall resolution: overwritten tables and the order of the setter calls vanish *)
Lemma wall_cfg_resolve nw idx1 tabs1 idx2 tabs2 din :
  (forall w, w < nw -> resolve idx1 tabs1 w = resolve idx2 tabs2 w) ->
  wall_cfg nw idx1 tabs1 din = wall_cfg nw idx2 tabs2 din.
Proof.
  intros H. unfold wall_cfg. f_equal. apply map_ext_in. intros w Hw.
  apply in_seq in Hw. rewrite (H w) by lia. reflexivity.
Qed.

(** declared read sets: only the direct-sound collect reads an attribute outside to_dict *)
Lemma reads_in_dict o f : direct_collect o = false -> In f (reads o) -> In f dict_fields.
Proof.
  destruct o as [? ? ? ? ? ? ?|? ? ?| | |? ? ? ?|? d| |]; cbn; try (destruct d; [discriminate|]);
    cbn; intros _ H; repeat (destruct H as [H|H]; [subst f; cbn; tauto|]); try contradiction; exact H.
Qed.
