(** * C17, layers 2-4 on the baked scene: the composed model of a room carried through a signed
    axis permutation [m], compared with the composed model of the room itself, patch [pi k] against
    patch [k] ([pi] any renumbering in the sense of [FullPlacement.relabels]; one exists).

    DERIVED (no baked datum of the image room is assumed):
    - every travel-time bin: patch to patch, source to patch, patch to receiver, direct sound;
    - the point-to-patch shares of source and receiver, hence the initial energies [energy0];
    - the wall frames of the BRDF direction sets for the 24 ROTATIONS ([sdet = 1]): the direction
      sets of the image room are the images of the direction sets, so every incoming sample /
      outgoing slot index is the same.  For the 24 maps that contain a mirroring this is FALSE in
      general: the frame is built with a cross product, [wall_dir (m n) (m u) d =
      m (wall_dir n u (d_x, sdet * d_y, d_z))] ([wall_dir_sperm]) -- the tangential y axis flips;
    - the Stokes entries of the form-factor matrix (any cut-off), the touching test that selects
      the branch, the area-ratio entries below the diagonal;
    - the permutation of the directed visible-pair list.
    HYPOTHESES that remain: the patch-to-patch visibility matrix and the source visibility vector
    are the transported ones (C07: proved only conditionally on [point_in_polygon], and in closed
    form for shoebox rooms); visible pairs lie on different walls; and the entries of the form-
    factor matrix on the NUSSELT branch (touching patches) are the transported ones -- that
    integrator is genuinely not invariant under axis permutations (regular sample grid spanned by
    the first and last edge of the vertex list), the property only claims a numerical bound there. *)
From Coq Require Import List Arith Bool Ring Lia Permutation FinFun.
Import ListNotations.
From SV Require Import Base.Ops Base.OpsGeom Base.Arr Base.Sums Model.Vec3 Model.Exchange Model.Scene
  Model.Frame Model.Tiling Model.Visibility Model.Stokes Model.Nusselt Model.PtSolution Model.Full.
From SV Require Import Spec.Isometry Spec.ExchangeSpec Proofs.OrderField Proofs.TilingLists Proofs.TilingProofs
  Proofs.TilingPerm Proofs.FieldFacts Proofs.StokesSum Proofs.StokesSimilarity Proofs.StokesReorder
  Proofs.PtSimilarity Proofs.SceneRefine Proofs.ReceiverProofs Proofs.PairLists Proofs.VisibilityScan
  Proofs.NusseltProofs Proofs.PlacementTranslate Proofs.PlacementKernels Proofs.PlacementRelabel
  Proofs.FullProofs Proofs.FullTranslate Proofs.FullPlacement.

(** ** 0. list facts *)
Section ListFacts2.
  Lemma NoDup_map_inj_in {A B} (f : A -> B) (l : list A) :
    (forall x y, In x l -> In y l -> f x = f y -> x = y) -> NoDup l -> NoDup (map f l).
  Proof.
    intros Hinj HN. induction HN as [|a l Hna HN IH]; cbn [map]; constructor.
    - intros Hin. apply in_map_iff in Hin. destruct Hin as (x & E & Hx).
      assert (x = a) by (apply Hinj; [now right|now left|exact E]). subst x. contradiction.
    - apply IH. intros x y Hx Hy. apply Hinj; now right.
  Qed.
End ListFacts2.

(** ** 1. the visible-pair list of a renumbered scene *)
Section DirectedPerm.
  Context {T : Type} {O : Ops T}.
  Variables sc sc' : @scene T.
  Hypothesis WF : wf_scene sc.
  Hypothesis WF' : wf_scene sc'.
  Hypothesis Hnp : s_np sc' = s_np sc.
  Variable pi : nat -> nat.
  Hypothesis Hfun : bFun (s_np sc) pi.
  Hypothesis Hinj : bInjective (s_np sc) pi.
  Hypothesis Hvis : forall i j, i < s_np sc -> j < s_np sc -> vis_sym sc' (pi i) (pi j) = vis_sym sc i j.

  Lemma In_directed_iff (s : @scene T) (W : wf_scene s) i j : i < s_np s -> j < s_np s ->
    (In (i, j) (directed (vis_pairs s)) <-> vis_sym s i j = true /\ i <> j).
  Proof.
    intros Hi Hj. rewrite <- pmem_In, (pmem_directed s W i j Hi Hj).
    destruct (vis_sym s i j); destruct (Nat.eqb_spec i j); cbn [andb negb]; split; intros H;
      try discriminate; try (destruct H; congruence); try (split; [reflexivity|assumption]); reflexivity.
  Qed.

  Theorem directed_relabel_perm :
    Permutation (directed (vis_pairs sc')) (map (sig2 pi) (directed (vis_pairs sc))).
  Proof.
    apply NoDup_Permutation.
    - apply directed_NoDup, WF'.
    - apply NoDup_map_inj_in; [|apply directed_NoDup, WF].
      intros [a b] [c d] Hab Hcd E.
      destruct (directed_pairs_ok sc a b WF Hab) as (Ha & Hb & _).
      destruct (directed_pairs_ok sc c d WF Hcd) as (Hc & Hd & _).
      unfold sig2 in E. cbn [fst snd] in E. injection E as E1 E2.
      f_equal; apply Hinj; assumption.
    - intros [a b]. split.
      + intros Hin. destruct (directed_pairs_ok sc' a b WF' Hin) as (Ha & Hb & _).
        rewrite Hnp in Ha, Hb.
        destruct (proj1 (bInjective_bSurjective Hfun) Hinj a Ha) as (i & Hi & <-).
        destruct (proj1 (bInjective_bSurjective Hfun) Hinj b Hb) as (j & Hj & <-).
        apply (In_directed_iff sc' WF') in Hin; [|rewrite Hnp; now apply Hfun|rewrite Hnp; now apply Hfun].
        destruct Hin as [Hv Hne]. rewrite (Hvis i j Hi Hj) in Hv.
        apply in_map_iff. exists (i, j). split; [reflexivity|].
        apply (In_directed_iff sc WF); [assumption|assumption|]. split; [exact Hv|congruence].
      + intros Hin. apply in_map_iff in Hin. destruct Hin as ([i j] & E & Hin).
        unfold sig2 in E. cbn [fst snd] in E. injection E as <- <-.
        destruct (directed_pairs_ok sc i j WF Hin) as (Hi & Hj & _).
        apply (In_directed_iff sc WF) in Hin; [|assumption|assumption]. destruct Hin as [Hv Hne].
        apply (In_directed_iff sc' WF'); [rewrite Hnp; now apply Hfun|rewrite Hnp; now apply Hfun|].
        split; [now rewrite (Hvis i j Hi Hj)|]. intros E. apply Hne. now apply Hinj.
  Qed.
End DirectedPerm.

(** ** 2. wall frames under a signed axis permutation *)
Section Frames.
  Context {T : Type} {O : Ops T} {RL : RingLaws T} {OL : OrderLaws T} {FL : FieldLaws T}
          {FlL : FloorLaws T} {DL : DivLaws T} {AL : AbsLaws T}.
  Add Ring TRingFPS1 : (@ring_th T O RL).
  Local Notation vec := (@vec T).

  Variable sigma : nat -> nat.
  Variables e0 e1 e2 : T.
  Hypothesis Hperm : Permutation [sigma 0; sigma 1; sigma 2] [0; 1; 2].
  Hypothesis He0 : e0 = 1%T \/ e0 = (- (1))%T.
  Hypothesis He1 : e1 = 1%T \/ e1 = (- (1))%T.
  Hypothesis He2 : e2 = 1%T \/ e2 = (- (1))%T.
  Notation m := (smap sigma e0 e1 e2).
  Notation det := (sdet sigma e0 e1 e2).

  Lemma ml : vlinear m.
  Proof. exact (m_linear sigma e0 e1 e2). Qed.

  Lemma rot_sperm (n u d : vec) :
    rot (m n) (m u) d = m (rot n u (mkv (vx d) (det * vy d) (vz d))%T).
  Proof.
    unfold rot. rewrite (smap_cross sigma e0 e1 e2 Hperm He0 He1 He2).
    rewrite !(lin_add m ml), !(lin_scale m ml). cbn [vx vy vz mkv fst snd].
    assert (E : forall (a b : T) (X : vec), vscale a (vscale b X) = vscale (b * a)%T X).
    { intros a b [[x y] z]. unfold vscale, mkv, vx, vy, vz; cbn [fst snd]. apply triple_eq; ring. }
    now rewrite E.
  Qed.

  (** the frame of the image wall: the image of the frame with the tangential y axis scaled by the
      handedness of [m] *)
  Theorem wall_dir_sperm (n u d : vec) :
    wall_dir (m n) (m u) d = m (wall_dir n u (mkv (vx d) (det * vy d) (vz d))%T).
  Proof.
    unfold wall_dir.
    rewrite !(m_vnormalize sigma e0 e1 e2 Hperm He0 He1 He2), rot_sperm.
    apply (m_vnormalize sigma e0 e1 e2 Hperm He0 He1 He2).
  Qed.

  Hypothesis Hdet : det = 1%T.

  Theorem wall_dir_rotation (n u d : vec) : wall_dir (m n) (m u) d = m (wall_dir n u d).
  Proof.
    rewrite wall_dir_sperm, Hdet. do 2 f_equal. destruct d as [[x y] z].
    unfold mkv, vx, vy, vz; cbn [fst snd]. apply triple_eq; ring.
  Qed.
  Theorem wall_dirs_rotation (n u : vec) (dirs : list vec) :
    wall_dirs (m n) (m u) dirs = map m (wall_dirs n u dirs).
  Proof. unfold wall_dirs. rewrite map_map. apply map_ext. intros d. apply wall_dir_rotation. Qed.
End Frames.

(** ** 3. the two baked scenes *)
Section RoomScene.
  Context {T : Type} {O : Ops T} {RL : RingLaws T} {OL : OrderLaws T} {FL : FieldLaws T}
          {FlL : FloorLaws T} {DL : DivLaws T} {AL : AbsLaws T}.
  Add Ring TRingFPS2 : (@ring_th T O RL).
  Local Notation vec := (@vec T).
  Local Notation quad := (@Tiling.quad T).

  Variable sigma : nat -> nat.
  Variables e0 e1 e2 : T.
  Hypothesis Hperm : Permutation [sigma 0; sigma 1; sigma 2] [0; 1; 2].
  Hypothesis He0 : e0 = 1%T \/ e0 = (- (1))%T.
  Hypothesis He1 : e1 = 1%T \/ e1 = (- (1))%T.
  Hypothesis He2 : e2 = 1%T \/ e2 = (- (1))%T.
  Notation m := (smap sigma e0 e1 e2).
  Notation M := (smat sigma e0 e1 e2).

  Variable rm : @room T.
  Hypothesis Hwalls : walls_ok rm.
  Notation rm' := (sperm_room sigma e0 e1 e2 rm).
  Notation sc := (room_scene rm).
  Notation sc' := (room_scene rm').
  Notation np := (rm_np rm).

  Variable pi : nat -> nat.
  Hypothesis Hpi : relabels sigma e0 e1 e2 rm pi.

  Lemma pi_lt k : k < np -> pi k < np.
  Proof. exact (relabel_lt sigma e0 e1 e2 rm pi Hpi k). Qed.
  Lemma pi_lt' k : k < np -> pi k < rm_np rm'.
  Proof. intros Hk. rewrite (sperm_room_np sigma e0 e1 e2 Hperm He0 He1 He2 rm Hwalls). now apply pi_lt. Qed.

  (** *** the shape of the image scene *)
  Lemma sc_np : s_np sc' = s_np sc.
  Proof. cbn [room_scene s_np]. exact (sperm_room_np sigma e0 e1 e2 Hperm He0 He1 He2 rm Hwalls). Qed.
  Lemma sc_nd : s_nd sc' = s_nd sc.
  Proof. reflexivity. Qed.
  Lemma sc_nb : s_nb sc' = s_nb sc.
  Proof. reflexivity. Qed.

  (** *** centres, walls, areas (LAYER 2 on the scene) *)
  Lemma sc_center k : k < np -> center sc' (pi k) = m (center sc k).
  Proof.
    intros Hk. unfold center. cbn [room_scene s_centers].
    exact (relabel_center sigma e0 e1 e2 Hperm He0 He1 He2 rm Hwalls pi Hpi k Hk).
  Qed.
  Lemma sc_wall k : k < np -> wall sc' (pi k) = wall sc k.
  Proof.
    intros Hk. unfold wall. cbn [room_scene s_wall].
    exact (relabel_wall sigma e0 e1 e2 rm pi Hpi k Hk).
  Qed.
  Lemma sc_area k : k < np -> area sc' (pi k) = area sc k.
  Proof.
    intros Hk. unfold area. cbn [room_scene s_areas].
    exact (relabel_area sigma e0 e1 e2 Hperm He0 He1 He2 rm Hwalls pi Hpi k Hk).
  Qed.

  Lemma place0 (x : vec) : place M vzero x = m x.
  Proof.
    unfold place. rewrite mapply_smat. destruct (m x) as [[a b] c].
    unfold vadd, vzero, mkv, vx, vy, vz; cbn [fst snd]. apply triple_eq; ring.
  Qed.
  Lemma sc_center_place k : k < s_np sc -> center sc' (pi k) = place M vzero (center sc k).
  Proof. intros Hk. rewrite place0. now apply sc_center. Qed.

  (** *** every travel-time bin *)
  Theorem sc_dist i j : i < np -> j < np -> dist sc' (pi i) (pi j) = dist sc i j.
  Proof.
    intros Hi Hj.
    exact (placed_dist M (smat_orthogonal sigma e0 e1 e2 Hperm He0 He1 He2) vzero sc sc' pi sc_center_place i j Hi Hj).
  Qed.
  Theorem sc_delta tm i j : i < np -> j < np -> scene_delta sc' tm (pi i) (pi j) = scene_delta sc tm i j.
  Proof. intros Hi Hj. unfold scene_delta. now rewrite sc_dist. Qed.

  (** *** source and receiver at the carried positions *)
  Variables spos rpos : vec.
  Notation src := (room_source rm spos).
  Notation src' := (room_source rm' (m spos)).
  Notation rcv := (room_receiver rm rpos).
  Notation rcv' := (room_receiver rm' (m rpos)).

  Lemma nthT_map_pts (f : list vec -> T) (r : @room T) k : k < rm_np r ->
    nthT (map f (rm_patch_pts r)) k = f (verts (nth k (pr_points (rm_processed r)) dquad)).
  Proof.
    intros Hk. unfold nthT.
    rewrite nth_indep with (d' := f []) by (rewrite map_length; exact Hk).
    rewrite map_nth. f_equal. now apply room_pts_nth.
  Qed.

  (** LAYER 3a: the solid-angle shares of source and receiver *)
  Theorem sc_share (recv : bool) (pos : vec) k : k < np ->
    nthT (map (pt_solution (rm_thr rm) recv (m pos)) (rm_patch_pts rm')) (pi k) =
    nthT (map (pt_solution (rm_thr rm) recv pos) (rm_patch_pts rm)) k.
  Proof.
    intros Hk. rewrite (nthT_map_pts _ rm' (pi k) (pi_lt' k Hk)), (nthT_map_pts _ rm k Hk).
    exact (patch_image_pt_solution sigma e0 e1 e2 Hperm He0 He1 He2 _ _
             (relabel_image sigma e0 e1 e2 rm pi Hpi k Hk)
             (room_patches_para rm Hwalls k Hk) (rm_thr rm) recv pos).
  Qed.
  Corollary sc_src_share k : k < np -> nthT (src_share src') (pi k) = nthT (src_share src) k.
  Proof. intros Hk. unfold room_source, source_at. cbn [src_share]. exact (sc_share false spos k Hk). Qed.
  Corollary sc_rcv_share k : k < np -> nthT (r_share rcv') (pi k) = nthT (r_share rcv) k.
  Proof. intros Hk. unfold room_receiver, receiver_at. cbn [r_share]. exact (sc_share true rpos k Hk). Qed.

  (** visibility from the source / receiver position: transported (hypothesis) *)
  Hypothesis Hsv : forall k, k < np ->
    nthb (room_point_vis rm' (m spos)) (pi k) = nthb (room_point_vis rm spos) k.

  Lemma sc_src_vis k : k < np -> nthb (src_vis src') (pi k) = nthb (src_vis src) k.
  Proof. intros Hk. unfold room_source, source_at. cbn [src_vis]. now apply Hsv. Qed.
  Lemma sc_src_pos : src_pos src' = place M vzero (src_pos src).
  Proof. unfold room_source, source_at. cbn [src_pos]. now rewrite place0. Qed.

  Theorem sc_src_dist k : k < np -> src_dist sc' src' (pi k) = src_dist sc src k.
  Proof.
    intros Hk.
    exact (placed_src_dist M (smat_orthogonal sigma e0 e1 e2 Hperm He0 He1 He2) vzero sc sc' pi
             sc_center_place src src' k Hk sc_src_pos (sc_src_vis k Hk)).
  Qed.
  Theorem sc_delta0 tm k : k < np -> scene_delta0 sc' tm src' (pi k) = scene_delta0 sc tm src k.
  Proof. intros Hk. unfold scene_delta0. now rewrite sc_src_dist. Qed.

  (** LAYER 3b: the initial energy of every patch and band *)
  Theorem sc_energy0 k b : k < np -> energy0 sc' src' (pi k) b = energy0 sc src k b.
  Proof.
    intros Hk. unfold energy0. rewrite (sc_src_vis k Hk), (sc_src_dist k Hk), (sc_src_share k Hk).
    reflexivity.
  Qed.

  (** receiver side: distance, arrival bin, direct-sound bin *)
  Lemma sc_rcv_pos : r_pos rcv' = place M vzero (r_pos rcv).
  Proof. unfold room_receiver, receiver_at. cbn [r_pos]. now rewrite place0. Qed.
  Theorem sc_r_delay tm k : k < np -> r_delay sc' tm rcv' (pi k) = r_delay sc tm rcv k.
  Proof.
    intros Hk.
    exact (placed_r_delay M (smat_orthogonal sigma e0 e1 e2 Hperm He0 He1 He2) vzero sc sc' pi
             sc_center_place tm rcv rcv' k Hk sc_rcv_pos).
  Qed.
  Theorem sc_direct_bin tm : direct_bin tm src' rcv' = direct_bin tm src rcv.
  Proof.
    exact (placed_direct_bin M (smat_orthogonal sigma e0 e1 e2 Hperm He0 He1 He2) vzero tm src src' rcv rcv'
             sc_src_pos sc_rcv_pos).
  Qed.

  (** *** BRDF tables and direction sets *)
  Lemma sc_beta w a d b : beta sc' w a d b = beta sc w a d b.
  Proof. reflexivity. Qed.
  Lemma sc_attn b x : attn sc' b x = attn sc b x.
  Proof. reflexivity. Qed.

  Section Rotation.
    Hypothesis Hdet : sdet sigma e0 e1 e2 = 1%T.

    Lemma dirs_table (ref : list vec) (w : nat) :
      nth w (map (fun w => wall_dirs (nthv (rm_normals rm') w) (nthv (rm_ups rm') w) ref)
                 (seq 0 (length (rm_walls rm')))) [] =
      map m (nth w (map (fun w => wall_dirs (nthv (rm_normals rm) w) (nthv (rm_ups rm) w) ref)
                        (seq 0 (length (rm_walls rm)))) []).
    Proof.
      cbn [sperm_room rm_walls rm_normals rm_ups]. rewrite map_length.
      rewrite <- nth_map_nil, map_map. f_equal. apply map_ext. intros v.
      rewrite !(nthv_map_m sigma e0 e1 e2).
      exact (wall_dirs_rotation sigma e0 e1 e2 Hperm He0 He1 He2 Hdet _ _ ref).
    Qed.
    Lemma sc_in_dirs w : in_dirs sc' w = map m (in_dirs sc w).
    Proof. unfold in_dirs. cbn [room_scene s_in]. cbn [sperm_room rm_ref_in]. exact (dirs_table (rm_ref_in rm) w). Qed.
    Lemma sc_out_dirs w : out_dirs sc' w = map m (out_dirs sc w).
    Proof. unfold out_dirs. cbn [room_scene s_out]. cbn [sperm_room rm_ref_out]. exact (dirs_table (rm_ref_out rm) w). Qed.

    Lemma nearest_dir (dirs : list vec) (a b : vec) :
      nearest (map m dirs) (vnormalize (vsub (m a) (m b))) = nearest dirs (vnormalize (vsub a b)).
    Proof.
      rewrite <- (lin_sub m (m_linear sigma e0 e1 e2)), (m_vnormalize sigma e0 e1 e2 Hperm He0 He1 He2).
      apply (nearest_m sigma e0 e1 e2 Hperm He0 He1 He2).
    Qed.

    Theorem sc_in_index i j : i < np -> j < np -> in_index sc' (pi i) (pi j) = in_index sc i j.
    Proof.
      intros Hi Hj. unfold in_index. rewrite (sc_wall j Hj), sc_in_dirs, (sc_center i Hi), (sc_center j Hj).
      apply nearest_dir.
    Qed.
    Theorem sc_out_index i j : i < np -> j < np -> out_index sc' (pi i) (pi j) = out_index sc i j.
    Proof.
      intros Hi Hj. unfold out_index. rewrite (sc_wall i Hi), sc_out_dirs, (sc_center i Hi), (sc_center j Hj).
      apply nearest_dir.
    Qed.
    Theorem sc_src_in_index k : k < np -> src_in_index sc' src' (pi k) = src_in_index sc src k.
    Proof.
      intros Hk. unfold src_in_index. rewrite (sc_wall k Hk), sc_in_dirs, (sc_center k Hk).
      unfold room_source, source_at. cbn [src_pos]. apply nearest_dir.
    Qed.
    Theorem sc_r_out_index k : k < np -> r_out_index sc' rcv' (pi k) = r_out_index sc rcv k.
    Proof.
      intros Hk. unfold r_out_index. rewrite (sc_wall k Hk), sc_out_dirs, (sc_center k Hk).
      unfold room_receiver, receiver_at. cbn [r_pos]. apply nearest_dir.
    Qed.

    (** LAYER 3c: the directional initial energies *)
    Theorem sc_e0dir_entry k d b : k < np -> e0dir_entry sc' src' (pi k) d b = e0dir_entry sc src k d b.
    Proof.
      intros Hk. unfold e0dir_entry.
      rewrite (sc_energy0 k b Hk), (sc_wall k Hk), (sc_src_in_index k Hk), sc_beta. reflexivity.
    Qed.
  End Rotation.

  (** *** LAYER 4: the form-factor matrix *)
  Notation pts r k := (nth k (rm_patch_pts r) []).
  Notation nrm r k := (nthv (pr_normals (rm_processed r)) k).

  Lemma sc_coincidence i j : i < np -> j < np ->
    coincidence_check (rm_thres rm) (pts rm' (pi j)) (pts rm' (pi i)) =
    coincidence_check (rm_thres rm) (pts rm j) (pts rm i).
  Proof.
    intros Hi Hj.
    rewrite (room_pts_nth rm' (pi i) (pi_lt' i Hi)), (room_pts_nth rm' (pi j) (pi_lt' j Hj)),
      (room_pts_nth rm i Hi), (room_pts_nth rm j Hj).
    exact (patch_image_coincidence sigma e0 e1 e2 Hperm He0 He1 He2 _ _ _ _
             (relabel_image sigma e0 e1 e2 rm pi Hpi i Hi) (relabel_image sigma e0 e1 e2 rm pi Hpi j Hj)
             (rm_thres rm)).
  Qed.

  (** entries on the Stokes branch: DERIVED, with any cut-off *)
  Theorem sc_F_stokes i j : i < j -> j < np -> pi i < pi j ->
    vis_sym sc i j = true -> vis_sym sc' (pi i) (pi j) = true ->
    coincidence_check (rm_thres rm) (pts rm j) (pts rm i) = false ->
    get2 (s_F sc') (pi i) (pi j) = get2 (s_F sc) i j.
  Proof.
    intros Hij Hj Hpij Hv Hv' Hco. assert (Hi : i < np) by lia.
    rewrite (room_visible_entry rm' (pi i) (pi j) Hpij (pi_lt' j Hj) Hv').
    rewrite (room_visible_entry rm i j Hij Hj Hv).
    change (rm_thres rm') with (rm_thres rm). rewrite (sc_coincidence i j Hi Hj), Hco.
    change (rm_cut rm') with (rm_cut rm). rewrite (sc_area i Hi).
    rewrite (room_pts_nth rm' (pi i) (pi_lt' i Hi)), (room_pts_nth rm' (pi j) (pi_lt' j Hj)),
      (room_pts_nth rm i Hi), (room_pts_nth rm j Hj).
    exact (patch_image_stokes sigma e0 e1 e2 Hperm He0 He1 He2 _ _ _ _
             (relabel_image sigma e0 e1 e2 rm pi Hpi i Hi) (relabel_image sigma e0 e1 e2 rm pi Hpi j Hj)
             (rm_cut rm) (area sc i)).
  Qed.

  (** entries on the Nusselt branch: the value is the integrator's on the image patches; equality
      with the original value is the hypothesis [nusselt_transported] below *)
  Definition nusselt_transported : Prop :=
    forall i j, i < j -> j < np -> vis_sym sc i j = true ->
      coincidence_check (rm_thres rm) (pts rm j) (pts rm i) = true ->
      nusselt_ff (rm_thr_seg rm) (rm_thr_dot rm) (rm_thr_lag rm)
        (pts rm' (pi i)) (nrm rm' (pi i)) (pts rm' (pi j)) (nrm rm' (pi j)) =
      nusselt_ff (rm_thr_seg rm) (rm_thr_dot rm) (rm_thr_lag rm)
        (pts rm i) (nrm rm i) (pts rm j) (nrm rm j).

  Theorem sc_F_entry i j : nusselt_transported -> i < j -> j < np -> pi i < pi j ->
    vis_sym sc i j = true -> vis_sym sc' (pi i) (pi j) = true ->
    get2 (s_F sc') (pi i) (pi j) = get2 (s_F sc) i j.
  Proof.
    intros HN Hij Hj Hpij Hv Hv'. assert (Hi : i < np) by lia.
    destruct (coincidence_check (rm_thres rm) (pts rm j) (pts rm i)) eqn:Hco.
    - rewrite (room_visible_entry rm' (pi i) (pi j) Hpij (pi_lt' j Hj) Hv').
      rewrite (room_visible_entry rm i j Hij Hj Hv).
      change (rm_thres rm') with (rm_thres rm). rewrite (sc_coincidence i j Hi Hj), Hco.
      exact (HN i j Hij Hj Hv Hco).
    - now apply sc_F_stokes.
  Qed.

  (** *** the hypotheses on the patch-to-patch visibility *)
  Definition vis_transported : Prop :=
    forall i j, i < np -> j < np -> vis_sym sc' (pi i) (pi j) = vis_sym sc i j.
  Definition vis_across_walls : Prop :=
    forall i j, i < np -> j < np -> vis_sym sc i j = true -> wall sc i <> wall sc j.

  Hypothesis Hvis : vis_transported.
  Hypothesis Hacross : vis_across_walls.
  Hypothesis HNus : nusselt_transported.

  Lemma pi_mono i j : i < j -> j < np -> vis_sym sc i j = true -> pi i < pi j.
  Proof.
    intros Hij Hj Hv. assert (Hi : i < np) by lia.
    apply (relabel_mono sigma e0 e1 e2 Hperm He0 He1 He2 rm Hwalls pi Hpi i j Hij Hj).
    exact (Hacross i j Hi Hj Hv).
  Qed.

  (** the full form-factor matrix (area-ratio rule below the diagonal) *)
  Theorem sc_ff_full i j : i < np -> j < np -> vis_sym sc i j = true ->
    ff_full sc' (pi i) (pi j) = ff_full sc i j.
  Proof.
    intros Hi Hj Hv. pose proof (Hvis i j Hi Hj) as Hv'. rewrite Hv in Hv'.
    unfold ff_full.
    destruct (Nat.lt_trichotomy i j) as [L|[E|L]].
    - pose proof (pi_mono i j L Hj Hv) as Lp.
      destruct (Nat.ltb_spec i j); [|lia]. destruct (Nat.ltb_spec (pi i) (pi j)); [|lia].
      now apply sc_F_entry.
    - subst j. exfalso. exact (Hacross i i Hi Hi Hv eq_refl).
    - assert (Hne : i <> j) by lia.
      assert (Hvji : vis_sym sc j i = true) by (rewrite <- (vis_sym_swap sc i j Hne); exact Hv).
      assert (Hne' : pi i <> pi j).
      { intros E. apply Hne. exact (relabel_inj sigma e0 e1 e2 rm pi Hpi i j Hi Hj E). }
      assert (Hvji' : vis_sym sc' (pi j) (pi i) = true) by (rewrite <- (vis_sym_swap sc' _ _ Hne'); exact Hv').
      pose proof (pi_mono j i L Hi Hvji) as Lp.
      destruct (Nat.ltb_spec i j); [lia|]. destruct (Nat.ltb_spec (pi i) (pi j)); [lia|].
      rewrite (sc_F_entry j i HNus L Hi Lp Hvji Hvji'), (sc_area i Hi), (sc_area j Hj). reflexivity.
  Qed.

  Section RotationBake.
    Hypothesis Hdet : sdet sigma e0 e1 e2 = 1%T.

    (** the baked transfer factor of every ordered pair *)
    Theorem sc_tilde_entry i j d b : i < np -> j < np ->
      tilde_entry sc' (pi i) (pi j) d b = tilde_entry sc i j d b.
    Proof.
      intros Hi Hj. unfold tilde_entry. rewrite (Hvis i j Hi Hj).
      destruct (vis_sym sc i j) eqn:Hv; [|reflexivity].
      rewrite (sc_ff_full i j Hi Hj Hv), (sc_dist i j Hi Hj), (sc_wall j Hj),
        (sc_in_index Hdet i j Hi Hj), sc_attn, sc_beta. reflexivity.
    Qed.

    Hypothesis Hout_ne : rm_ref_out rm <> [].

    (** PARTIAL end result: the patch histograms of the image room are the renumbered histograms *)
    Theorem room_patch_hist_relabel tm K j d b t :
      j < np -> d < s_nd sc -> b < s_nb sc -> t < n_samples tm ->
      get4 (patch_hist sc' tm src' K) (pi j) d b t = get4 (patch_hist sc tm src K) j d b t.
    Proof.
      assert (WF : wf_scene sc) by (apply room_scene_wf; exact Hout_ne).
      assert (WF' : wf_scene sc') by (apply room_scene_wf; exact Hout_ne).
      assert (Hfun : bFun (s_np sc) pi) by (destruct Hpi as (H & _); exact H).
      assert (Hinj : bInjective (s_np sc) pi) by (destruct Hpi as (_ & H & _); exact H).
      apply (patch_hist_relabel sc sc' pi tm src src' WF WF' sc_np sc_nd sc_nb Hfun Hinj).
      - exact (directed_relabel_perm sc sc' WF WF' sc_np pi Hfun Hinj Hvis).
      - intros i j'. apply sc_delta.
      - intros i j'. apply (sc_out_index Hdet).
      - intros i j' d' b'. apply sc_tilde_entry.
      - intros j'. apply sc_delta0.
      - intros j' d' b'. apply (sc_e0dir_entry Hdet).
    Qed.
  End RotationBake.
End RoomScene.

(** ** 4. the receiver collection: the mono curve of the image room *)
Section SeqPerm.
  Lemma seq_reindex_perm (n : nat) (f : nat -> nat) :
    bFun n f -> bInjective n f -> Permutation (map f (seq 0 n)) (seq 0 n).
  Proof.
    intros Hf Hinj. apply NoDup_Permutation_bis.
    - apply NoDup_map_inj_in; [|apply seq_NoDup].
      intros x y Hx Hy. apply in_seq in Hx. apply in_seq in Hy. apply Hinj; lia.
    - now rewrite map_length.
    - intros y Hy. apply in_map_iff in Hy. destruct Hy as (x & <- & Hx). apply in_seq in Hx.
      apply in_seq. pose proof (Hf x). lia.
  Qed.
End SeqPerm.

Section RoomMono.
  Context {T : Type} {O : Ops T} {RL : RingLaws T} {OL : OrderLaws T} {FL : FieldLaws T}
          {FlL : FloorLaws T} {DL : DivLaws T} {AL : AbsLaws T}.
  Add Ring TRingFPS3 : (@ring_th T O RL).
  Local Notation vec := (@vec T).

  Variable sigma : nat -> nat.
  Variables e0 e1 e2 : T.
  Hypothesis Hperm : Permutation [sigma 0; sigma 1; sigma 2] [0; 1; 2].
  Hypothesis He0 : e0 = 1%T \/ e0 = (- (1))%T.
  Hypothesis He1 : e1 = 1%T \/ e1 = (- (1))%T.
  Hypothesis He2 : e2 = 1%T \/ e2 = (- (1))%T.
  Hypothesis Hdet : sdet sigma e0 e1 e2 = 1%T.
  Notation m := (smap sigma e0 e1 e2).

  Variable rm : @room T.
  Hypothesis Hwalls : walls_ok rm.
  Hypothesis Hout_ne : rm_ref_out rm <> [].
  Notation rm' := (sperm_room sigma e0 e1 e2 rm).
  Notation sc := (room_scene rm).
  Notation sc' := (room_scene rm').
  Notation np := (rm_np rm).

  Variable pi : nat -> nat.
  Hypothesis Hpi : relabels sigma e0 e1 e2 rm pi.
  Variables spos rpos : vec.
  Notation src := (room_source rm spos).
  Notation src' := (room_source rm' (m spos)).
  Notation rcv := (room_receiver rm rpos).
  Notation rcv' := (room_receiver rm' (m rpos)).

  Hypothesis Hsv : forall k, k < np ->
    nthb (room_point_vis rm' (m spos)) (pi k) = nthb (room_point_vis rm spos) k.
  Hypothesis Hrv : forall k, k < np ->
    nthb (room_point_vis rm' (m rpos)) (pi k) = nthb (room_point_vis rm rpos) k.
  Hypothesis Hvis : vis_transported sigma e0 e1 e2 rm pi.
  Hypothesis Hacross : vis_across_walls rm.
  Hypothesis HNus : nusselt_transported sigma e0 e1 e2 rm pi.

  Lemma r_out_index_lt (r : @room T) (pos : vec) k : rm_ref_out r <> [] -> k < rm_np r ->
    r_out_index (room_scene r) (room_receiver r pos) k < s_nd (room_scene r).
  Proof.
    intros Hne Hk. destruct (room_scene_wf r Hne) as (_ & Hlen & Hpos).
    unfold r_out_index, nearest. rewrite <- (Hlen k Hk).
    rewrite <- (map_length (fun d => vdist2 d (vnormalize (vsub (r_pos (room_receiver r pos)) (center (room_scene r) k))))).
    apply argmin_lt. intros E. apply (f_equal (@length _)) in E. rewrite map_length, (Hlen k Hk) in E.
    cbn [length] in E. lia.
  Qed.

  Lemma sc_r_dist k : k < np -> r_dist sc' rcv' (pi k) = r_dist sc rcv k.
  Proof.
    intros Hk. unfold r_dist.
    rewrite (sc_center sigma e0 e1 e2 Hperm He0 He1 He2 rm Hwalls pi Hpi k Hk).
    unfold room_receiver, receiver_at. cbn [r_pos]. apply (m_vdist sigma e0 e1 e2 Hperm He0 He1 He2).
  Qed.
  Lemma sc_r_factor k : k < np -> r_factor rcv' (pi k) = r_factor rcv k.
  Proof.
    intros Hk. unfold r_factor.
    rewrite (sc_rcv_share sigma e0 e1 e2 Hperm He0 He1 He2 rm Hwalls pi Hpi rpos k Hk).
    unfold room_receiver, receiver_at. cbn [r_vis]. now rewrite (Hrv k Hk).
  Qed.

  (** what patch [pi k] of the image room sends towards the carried receiver *)
  Theorem sc_r_term tm K k b u : k < np -> b < s_nb sc -> u < n_samples tm ->
    r_term sc' (patch_hist sc' tm src' K) rcv' (pi k) b u = r_term sc (patch_hist sc tm src K) rcv k b u.
  Proof.
    intros Hk Hb Hu. unfold r_term.
    rewrite (sc_r_out_index sigma e0 e1 e2 Hperm He0 He1 He2 rm Hwalls pi Hpi rpos Hdet k Hk).
    rewrite (room_patch_hist_relabel sigma e0 e1 e2 Hperm He0 He1 He2 rm Hwalls pi Hpi spos Hsv Hvis Hacross HNus
               Hdet Hout_ne tm K k (r_out_index sc rcv k) b u Hk (r_out_index_lt rm rpos k Hout_ne Hk) Hb Hu).
    now rewrite (sc_r_factor k Hk), (sc_r_dist k Hk).
  Qed.

  Theorem sc_patchwise tm K k b t : k < np -> b < s_nb sc -> t < n_samples tm ->
    get3 (patchwise sc' tm (patch_hist sc' tm src' K) rcv') (pi k) b t =
    get3 (patchwise sc tm (patch_hist sc tm src K) rcv) k b t.
  Proof.
    intros Hk Hb Ht.
    assert (Hk' : pi k < s_np sc').
    { cbn [room_scene s_np]. rewrite (sperm_room_np sigma e0 e1 e2 Hperm He0 He1 He2 rm Hwalls).
      exact (relabel_lt sigma e0 e1 e2 rm pi Hpi k Hk). }
    rewrite (patchwise_entry sc' tm _ rcv' (pi k) b t Hk' Hb Ht).
    rewrite (patchwise_entry sc tm _ rcv k b t Hk Hb Ht).
    rewrite (sc_r_delay sigma e0 e1 e2 Hperm He0 He1 He2 rm Hwalls pi Hpi rpos tm k Hk).
    apply sc_r_term; [exact Hk|exact Hb|]. apply Nat.mod_upper_bound. lia.
  Qed.

  Lemma sc_direct_val b : direct_val sc' src' rcv' None b = direct_val sc src rcv None b.
  Proof.
    unfold direct_val, direct_r, room_source, source_at, room_receiver, receiver_at. cbn [src_pos r_pos].
    rewrite <- (lin_sub m (m_linear sigma e0 e1 e2)), (m_vnorm sigma e0 e1 e2 Hperm He0 He1 He2).
    reflexivity.
  Qed.

  (** the output curve of the image room, bin by bin *)
  Theorem room_mono_relabel tm K direct b t : b < rm_nb rm -> t < n_samples tm ->
    get2 (room_mono rm' tm (m spos) (m rpos) K direct) b t = get2 (room_mono rm tm spos rpos K direct) b t.
  Proof.
    intros Hb Ht. unfold room_mono. cbv zeta.
    assert (Hb' : b < s_nb sc) by exact Hb.
    assert (Hsum : get2 (mono sc' tm (patch_hist sc' tm src' K) src' rcv' false None) b t =
                   get2 (mono sc tm (patch_hist sc tm src K) src rcv false None) b t).
    { unfold mono. rewrite (mono_is_sum sc' tm _ b t Hb Ht), (mono_is_sum sc tm _ b t Hb' Ht).
      assert (Hnp : s_np sc' = s_np sc) by exact (sc_np sigma e0 e1 e2 Hperm He0 He1 He2 rm Hwalls).
      rewrite Hnp. cbn [room_scene s_np].
      destruct Hpi as (Hfun & Hinj & _).
      rewrite <- (sumf_perm _ _ (fun k => get3 (patchwise sc' tm (patch_hist sc' tm src' K) rcv') k b t)
                    (seq_reindex_perm np pi Hfun Hinj)).
      rewrite sumf_map. apply sumf_ext. intros k Hk. apply in_seq in Hk.
      apply sc_patchwise; [lia|exact Hb|exact Ht]. }
    destruct direct; [|exact Hsum].
    rewrite (mono_direct sc' tm _ src' rcv' None b t Hb Ht), (mono_direct sc tm _ src rcv None b t Hb' Ht).
    rewrite Hsum, (sc_direct_bin sigma e0 e1 e2 Hperm He0 He1 He2 rm spos rpos tm), sc_direct_val.
    reflexivity.
  Qed.

  Lemma mono_shape (s0 : @scene T) tm E s r direct :
    mono s0 tm E s r direct None =
    tab (s_nb s0) (fun b => tab (n_samples tm) (fun t => get2 (mono s0 tm E s r direct None) b t)).
  Proof.
    destruct direct; unfold mono; [|unfold mono_of]; apply tab_ext; intros b Hb; apply tab_ext; intros t Ht;
      now rewrite get2_tab by assumption.
  Qed.

  (** ... hence the IDENTICAL output list *)
  Theorem room_mono_rotation tm K direct :
    room_mono rm' tm (m spos) (m rpos) K direct = room_mono rm tm spos rpos K direct.
  Proof.
    pose proof (room_mono_relabel tm K direct) as H. unfold room_mono in *. cbv zeta in *.
    rewrite (mono_shape sc'), (mono_shape sc).
    apply tab_ext. intros b Hb. apply tab_ext. intros t Ht. now apply H.
  Qed.
End RoomMono.
