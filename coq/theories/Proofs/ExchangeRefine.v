(** * R1: the executable list model of the energy exchange computes the L0 recursion
    restricted to the window [0, N).  (Truncating after every order = truncating once
    at the end, because delays only move energy forward.) *)
From Coq Require Import List Arith Bool Ring Lia.
Import ListNotations.
From SV Require Import Base.Ops Base.Arr Base.Sums Model.Exchange Spec.ExchangeSpec Proofs.ExchangeL0.

Section Refine.
  Context {T : Type} {O : Ops T} {RL : RingLaws T}.
  Add Ring TRingR : (@ring_th T O RL).

  Lemma get4_tab np nd nb N (f : nat -> nat -> nat -> nat -> T) j d b t :
    j < np -> d < nd -> b < nb -> t < N ->
    get4 (tab np (fun j => tab nd (fun d => tab nb (fun b => tab N (fun t => f j d b t))))) j d b t
    = f j d b t.
  Proof.
    intros Hj Hd Hb Ht. unfold get4, nthT, nthl.
    rewrite (nth_tab np _ [] j Hj), (nth_tab nd _ [] d Hd), (nth_tab nb _ [] b Hb), (nth_tab N _ 0%T t Ht).
    reflexivity.
  Qed.

  Lemma get4_tab_out_t np nd nb N (f : nat -> nat -> nat -> nat -> T) j d b t :
    N <= t ->
    get4 (tab np (fun j => tab nd (fun d => tab nb (fun b => tab N (fun t => f j d b t))))) j d b t
    = 0%T.
  Proof.
    intros Ht. unfold get4, nthT, nthl.
    destruct (Nat.lt_ge_cases j np) as [Hj|Hj];
      [rewrite (nth_tab np _ [] j Hj)|rewrite (nth_tab_out np _ [] j Hj); now destruct d, b, t].
    destruct (Nat.lt_ge_cases d nd) as [Hd|Hd];
      [rewrite (nth_tab nd _ [] d Hd)|rewrite (nth_tab_out nd _ [] d Hd); now destruct b, t].
    destruct (Nat.lt_ge_cases b nb) as [Hb|Hb];
      [rewrite (nth_tab nb _ [] b Hb)|rewrite (nth_tab_out nb _ [] b Hb); now destruct t].
    now rewrite (nth_tab_out N _ 0%T t Ht).
  Qed.

  (** conditional left fold = sum over the filtered list *)
  Lemma fold_cond_sum {A} (q : A -> bool) (g : A -> T) (l : list A) (a : T) :
    fold_left (fun acc p => if q p then (acc + g p)%T else acc) l a = (a + sumf (filter q l) g)%T.
  Proof.
    revert a. induction l as [|p l IH]; intros a; simpl; [ring|].
    rewrite IH. destruct (q p); simpl; ring.
  Qed.

  (** model inputs *)
  Variable dpairs : list (nat * nat).
  Variables np nd nb N : nat.
  Variable fft : @arr4 T.
  Variable p2o delay : list (list nat).
  Variable e0l : @arr3 T.
  Variable delay0 : list nat.

  (** the L0 reading of those inputs *)
  Definition delta_of i j := get2n delay i j.
  Definition c_of i j d b := get4 fft i j d b.
  Definition out_of i j := get2n p2o i j.
  Definition delta0_of j := nthn delay0 j.
  Definition e0_of j d b := get3 e0l j d b.
  Notation E := (E dpairs delta_of c_of out_of delta0_of e0_of).
  Notation Tot := (Tot dpairs delta_of c_of out_of delta0_of e0_of).

  Definition wf_pairs : Prop :=
    forall i j, In (i, j) dpairs -> i < np /\ j < np /\ get2n p2o i j < nd.
  Hypothesis WF : wf_pairs.

  Notation stepm := (step dpairs np nd nb N fft p2o delay).
  Notation initm := (init_hist np nd nb N e0l delay0).

  Lemma init_refines j d b t : j < np -> d < nd -> b < nb -> t < N ->
    get4 initm j d b t = E 0 j d b t.
  Proof. intros. unfold init_hist. rewrite get4_tab by assumption. reflexivity. Qed.

  Lemma fold_cond2_sum {A} (q r : A -> bool) (g : A -> T) (l : list A) (a : T) :
    fold_left (fun acc p => if q p then (if r p then acc else (acc + g p)%T) else acc) l a
    = (a + sumf (filter q l) (fun p => if r p then 0%T else g p))%T.
  Proof.
    revert a. induction l as [|p l IH]; intros a; simpl; [ring|].
    rewrite IH. destruct (q p); simpl; [destruct (r p)|]; ring.
  Qed.

  Lemma step_spec prev j d b t : j < np -> d < nd -> b < nb -> t < N ->
    get4 (stepm prev) j d b t =
    sumf (into dpairs j) (fun p =>
      shiftf (delta_of (fst p) j) (fun u => (c_of (fst p) j d b * get4 prev (fst p) (out_of (fst p) j) b u)%T) t).
  Proof.
    intros Hj Hd Hb Ht. unfold step. rewrite get4_tab by assumption. cbv zeta.
    etransitivity.
    - apply (fold_cond2_sum (fun p => snd p =? j) (fun p => t <? get2n delay (fst p) j)
               (fun p => (get4 fft (fst p) j d b *
                          get4 prev (fst p) (get2n p2o (fst p) j) b (t - get2n delay (fst p) j))%T)).
    - unfold into, shiftf, delta_of, c_of, out_of. ring.
  Qed.

  (** the individual orders *)
  Theorem order_refines k : forall j d b t, j < np -> d < nd -> b < nb -> t < N ->
    get4 (order_k k dpairs np nd nb N fft p2o delay initm) j d b t = E k j d b t.
  Proof.
    induction k as [|k IH]; intros j d b t Hj Hd Hb Ht.
    - simpl order_k. now apply init_refines.
    - simpl order_k. rewrite step_spec by assumption. simpl E.
      apply sumf_ext. intros p Hp. apply in_into in Hp. destruct Hp as [HpP Hpj].
      destruct p as [i j']. simpl in Hpj. subst j'. simpl fst.
      destruct (WF i j HpP) as (Hi & _ & Ho).
      apply shiftf_ext. intros u Hu. f_equal. apply IH; try assumption. unfold out_of. lia.
  Qed.

  Lemma add4_spec a b' j d b t : j < np -> d < nd -> b < nb -> t < N ->
    get4 (add4 np nd nb N a b') j d b t = (get4 a j d b t + get4 b' j d b t)%T.
  Proof. intros. unfold add4. now rewrite get4_tab. Qed.

  Lemma iter_succ_r' {A} (f : A -> A) m x : Nat.iter m f (f x) = Nat.iter (S m) f x.
  Proof. induction m as [|m IH]; simpl; [reflexivity|]. simpl in IH. now rewrite IH. Qed.

  Lemma iter_step_order m :
    Nat.iter m stepm initm = order_k m dpairs np nd nb N fft p2o delay initm.
  Proof. induction m as [|m IH]; simpl; [reflexivity|now rewrite IH]. Qed.

  Lemma run_spec K : forall cur tot j d b t, j < np -> d < nd -> b < nb -> t < N ->
    get4 (run K dpairs np nd nb N fft p2o delay cur tot) j d b t =
    (get4 tot j d b t + sumf (seq 1 K) (fun m => get4 (Nat.iter m stepm cur) j d b t))%T.
  Proof.
    induction K as [|K IH]; intros cur tot j d b t Hj Hd Hb Ht.
    - simpl. ring.
    - simpl run. rewrite IH by assumption. rewrite add4_spec by assumption.
      change (seq 1 (S K)) with (1 :: seq 2 K). rewrite sumf_cons.
      rewrite <- (seq_shift K 1), sumf_map.
      rewrite (sumf_ext (seq 1 K) _ (fun m => get4 (Nat.iter (S m) stepm cur) j d b t)).
      + simpl Nat.iter at 2. ring.
      + intros m _. now rewrite iter_succ_r'.
  Qed.

  (** R1 *)
  Theorem exchange_refines K vis j d b t :
    dpairs = directed vis -> j < np -> d < nd -> b < nb -> t < N ->
    get4 (exchange K vis np nd nb N e0l delay0 fft p2o delay) j d b t = Tot K j d b t.
  Proof.
    intros Hdp Hj Hd Hb Ht. unfold exchange. rewrite <- Hdp. rewrite run_spec by assumption.
    rewrite init_refines by assumption.
    unfold ExchangeSpec.Tot. change (seq 0 (S K)) with (0 :: seq 1 K). rewrite sumf_cons.
    f_equal. apply sumf_ext. intros m _. rewrite iter_step_order. now apply order_refines.
  Qed.

  (** nothing is ever written outside the window: bins >= N do not exist in the result *)
  Theorem exchange_window K vis j d b t : N <= t ->
    get4 (exchange K vis np nd nb N e0l delay0 fft p2o delay) j d b t = 0%T.
  Proof.
    intros Ht. unfold exchange. destruct K as [|K].
    - simpl. unfold init_hist. now apply get4_tab_out_t.
    - revert Ht. generalize (init_hist np nd nb N e0l delay0) at 1 as cur.
      generalize (init_hist np nd nb N e0l delay0) as tot.
      induction K as [|K IH]; intros tot cur Ht.
      + simpl. unfold add4. now apply get4_tab_out_t.
      + simpl run. simpl run in IH. apply IH. exact Ht.
  Qed.
End Refine.
