(** * Histogram primitives: zero-fill shift, cyclic roll, floor/ceil bin arithmetic. *)
From Coq Require Import List Arith Bool Ring Lia.
Import ListNotations.
From SV Require Import Base.Ops Base.Arr Base.Sums Model.Exchange.

Section ShiftList.
  Context {T : Type} {O : Ops T}.

  Lemma nthT_tab N (f : nat -> T) t : t < N -> nthT (tab N f) t = f t.
  Proof. intros H. unfold nthT. now apply nth_tab. Qed.
  Lemma nthT_tab_out N (f : nat -> T) t : N <= t -> nthT (tab N f) t = 0%T.
  Proof. intros H. unfold nthT. now apply nth_tab_out. Qed.
  Lemma nthT_out (h : list T) t : length h <= t -> nthT h t = 0%T.
  Proof. intros H. unfold nthT. now apply nth_overflow. Qed.

  (** the zero-fill shift: nothing before the delay, nothing wraps, nothing beyond N *)
  Lemma shift_trunc_length N d h : length (shift_trunc N d h) = N.
  Proof. apply tab_length. Qed.
  Lemma shift_trunc_nth N d h t : t < N ->
    nthT (shift_trunc N d h) t = if t <? d then 0%T else nthT h (t - d).
  Proof. intros H. unfold shift_trunc. now rewrite nthT_tab. Qed.
  Lemma shift_trunc_before N d h t : t < d -> nthT (shift_trunc N d h) t = 0%T.
  Proof.
    intros H. destruct (Nat.lt_ge_cases t N) as [Ht|Ht].
    - rewrite shift_trunc_nth by exact Ht. destruct (Nat.ltb_spec t d); [reflexivity|lia].
    - unfold shift_trunc. now apply nthT_tab_out.
  Qed.
  Lemma shift_trunc_beyond N d h t : N <= t -> nthT (shift_trunc N d h) t = 0%T.
  Proof. intros H. unfold shift_trunc. now apply nthT_tab_out. Qed.
  (** a delay of N bins or more drops everything *)
  Lemma shift_trunc_all_dropped N d h t : N <= d -> nthT (shift_trunc N d h) t = 0%T.
  Proof.
    intros H. destruct (Nat.lt_ge_cases t N) as [Ht|Ht]; [apply shift_trunc_before; lia|now apply shift_trunc_beyond].
  Qed.

  (** [np.roll] *)
  Lemma roll_length N d h : length (roll N d h) = N.
  Proof. apply tab_length. Qed.
  Lemma roll_nth N d h t : t < N -> nthT (roll N d h) t = nthT h ((t + (N - d mod N)) mod N).
  Proof. intros H. unfold roll. now rewrite nthT_tab. Qed.

  (** when the delayed histogram fits -- the last [d] bins are empty -- roll is the shift *)
  Lemma roll_eq_shift_when_fits N d h :
    d < N -> (forall t, N - d <= t -> t < N -> nthT h t = 0%T) ->
    roll N d h = shift_trunc N d h.
  Proof.
    intros Hd Hz. unfold roll, shift_trunc. apply tab_ext. intros t Ht.
    rewrite (Nat.mod_small d N Hd).
    destruct (Nat.ltb_spec t d) as [Hlt|Hge].
    - rewrite Nat.mod_small by lia. apply Hz; lia.
    - replace (t + (N - d)) with ((t - d) + 1 * N) by lia.
      rewrite Nat.mod_add by lia. rewrite Nat.mod_small by lia. reflexivity.
  Qed.

  (** ... and otherwise roll moves the tail to the front: the entry in bin [t < d] is the
      entry that the shift drops *)
  Lemma roll_wraps N d h t : d < N -> t < d -> nthT (roll N d h) t = nthT h (t + N - d).
  Proof.
    intros Hd Ht. rewrite roll_nth by lia. rewrite (Nat.mod_small d N Hd).
    rewrite Nat.mod_small by lia. f_equal. lia.
  Qed.
End ShiftList.

Section Bins.
  Context {T : Type} {O : Ops T} {RL : RingLaws T} {OL : OrderLaws T} {FL : FloorLaws T}.
  Add Ring TRingB : (@ring_th T O RL).

  Lemma tofnat_add n m : tofnat (n + m) = (tofnat n + tofnat m)%T.
  Proof.
    induction n as [|n IH]; simpl.
    - rewrite tofnat_0. ring.
    - rewrite !tofnat_S, IH. ring.
  Qed.
  Lemma tofnat_nonneg n : (0 <= tofnat n)%T.
  Proof.
    induction n as [|n IH]; [rewrite tofnat_0; apply tle_refl|].
    rewrite tofnat_S. apply tadd_nonneg; [exact IH|apply tzero_le_one].
  Qed.
  Lemma tofnat_mono n m : n <= m -> (tofnat n <= tofnat m)%T.
  Proof.
    intros H. replace m with (n + (m - n)) by lia. rewrite tofnat_add.
    replace (tofnat n) with (tofnat n + 0)%T at 1 by ring. apply tadd_le_mono_l, tofnat_nonneg.
  Qed.
  Lemma tofnat_lt_inv n m : (tofnat n < tofnat m)%T -> n < m.
  Proof.
    intros H. destruct (Nat.lt_ge_cases n m) as [|Hge]; [assumption|].
    exfalso. apply tlt_iff in H. apply H. now apply tofnat_mono.
  Qed.

  (** source -> patch -> receiver never beats the direct path: with truncation on the
      first leg and ceiling on the last, floor(D) <= floor(a) + ceil(b) whenever the
      (scaled) lengths satisfy the triangle inequality D <= a + b. *)
  Theorem bins_triangle (D a b : T) :
    (0 <= D)%T -> (0 <= a)%T -> (0 <= b)%T -> (D <= a + b)%T ->
    ttrunc D <= ttrunc a + tceil b.
  Proof.
    intros HD Ha Hb Htri.
    assert (H1 : (tofnat (ttrunc D) <= D)%T) by now apply ttrunc_lo.
    assert (H2 : (a < tofnat (S (ttrunc a)))%T) by now apply ttrunc_hi.
    assert (H3 : (b <= tofnat (tceil b))%T) by now apply tceil_lo.
    assert (H4 : (tofnat (ttrunc D) < tofnat (S (ttrunc a) + tceil b))%T).
    { rewrite tofnat_add. eapply tle_lt_trans; [exact H1|]. eapply tle_lt_trans; [exact Htri|].
      eapply tle_lt_trans; [apply tadd_le_mono_l; exact H3|].
      apply tlt_iff. intros Hc. apply tlt_iff in H2. apply H2.
      apply (proj2 (tle_sub _ _)).
      apply (proj1 (tle_sub _ _)) in Hc.
      replace (a - tofnat (S (ttrunc a)))%T
        with (a + tofnat (tceil b) - (tofnat (S (ttrunc a)) + tofnat (tceil b)))%T by ring.
      exact Hc. }
    apply tofnat_lt_inv in H4. lia.
  Qed.

  Lemma tadd_lt_mono_l a b c : (a < b)%T -> (c + a < c + b)%T.
  Proof.
    intros H. apply tlt_iff. intros Hc. apply tlt_iff in H. apply H.
    apply (proj2 (tle_sub _ _)). apply (proj1 (tle_sub _ _)) in Hc.
    replace (a - b)%T with (c + a - (c + b))%T by ring. exact Hc.
  Qed.
  Lemma tadd_lt_le_mono a b c d : (a < b)%T -> (c <= d)%T -> (a + c < b + d)%T.
  Proof.
    intros H1 H2. eapply tle_lt_trans; [apply tadd_le_mono_l; exact H2|].
    replace (a + d)%T with (d + a)%T by ring. replace (b + d)%T with (d + b)%T by ring.
    now apply tadd_lt_mono_l.
  Qed.

  (** each additional truncated leg can lose less than one bin *)
  Definition sum_trunc (legs : list T) : nat := fold_right (fun x acc => ttrunc x + acc) 0 legs.

  Lemma legs_bound_strict (legs : list T) : legs <> [] -> (forall x, In x legs -> (0 <= x)%T) ->
    (sumf legs (fun x => x) < tofnat (sum_trunc legs + length legs))%T.
  Proof.
    induction legs as [|x r IH]; [congruence|]. intros _ Hnn.
    assert (Hx : (x < tofnat (S (ttrunc x)))%T) by (apply ttrunc_hi, Hnn; now left).
    destruct r as [|y r'].
    - simpl. replace (ttrunc x + 0 + 1) with (S (ttrunc x)) by lia.
      replace (x + 0)%T with x by ring. exact Hx.
    - assert (Hr : (sumf (y :: r') (fun x => x) < tofnat (sum_trunc (y :: r') + length (y :: r')))%T).
      { apply IH; [congruence|]. intros z Hz. apply Hnn. now right. }
      rewrite sumf_cons.
      replace (sum_trunc (x :: y :: r') + length (x :: y :: r'))
        with (S (ttrunc x) + (sum_trunc (y :: r') + length (y :: r'))) by (simpl; lia).
      rewrite tofnat_add. apply tadd_lt_le_mono; [exact Hx|now apply tlt_le].
  Qed.

  (** a path source -> i_0 -> ... -> i_k -> receiver whose legs are binned by truncation
      (k+1 legs, the source leg included) and by ceiling on the receiver leg arrives no
      earlier than k bins before the direct-sound bin *)
  Theorem bins_chain (D : T) (legs : list T) (b : T) :
    legs <> [] -> (0 <= D)%T -> (forall x, In x legs -> (0 <= x)%T) -> (0 <= b)%T ->
    (D <= sumf legs (fun x => x) + b)%T ->
    ttrunc D + 1 <= sum_trunc legs + length legs + tceil b.
  Proof.
    intros Hne HD Hnn Hb Htri.
    assert (H1 : (tofnat (ttrunc D) <= D)%T) by now apply ttrunc_lo.
    assert (H3 : (b <= tofnat (tceil b))%T) by now apply tceil_lo.
    assert (H4 : (tofnat (ttrunc D) < tofnat ((sum_trunc legs + length legs) + tceil b))%T).
    { rewrite tofnat_add. eapply tle_lt_trans; [exact H1|]. eapply tle_lt_trans; [exact Htri|].
      apply tadd_lt_le_mono; [now apply legs_bound_strict|exact H3]. }
    apply tofnat_lt_inv in H4. lia.
  Qed.
End Bins.
