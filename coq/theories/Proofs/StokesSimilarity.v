(** * Similarity invariance of the Stokes double Boole sum (C05_similarity, C17 kernels).

    - cut-off 0 (the repaired code, [np.abs(x[-1]-x[0]) > 0]): the code's value IS the
      cut-off-free sum [stokes_nocut] -- a skipped segment has extent exactly 0 and its Boole
      term vanishes.
    - With every segment integrated, the sum over the three coordinates collapses to
      [sum_i sum_j (2/45)^2 <e_i, e_j> G(i,j)], where [e_i] is the step vector of segment [i]
      and [G] collects the Boole weights and the ln-distance entries.  Hence invariance under
      every linear map that preserves inner products (composed with a translation), and
      under uniform scaling by [s > 0] with the area scaled by [s*s]: there the [ln s]
      term multiplies the sum of the step vectors of a closed polygon, which is 0.
    - signed axis permutations, with ANY cut-off in place. *)
From Coq Require Import List Arith Bool Ring Lia Permutation.
Import ListNotations.
From SV Require Import Base.Ops Base.Arr Base.Sums Model.Vec3 Model.Exchange Model.Stokes
  Spec.Isometry Proofs.FieldFacts Proofs.StokesSum Proofs.PtSimilarity.

(** the logarithm turns products of positive numbers into sums *)
Class LnLaws (T : Type) {O : Ops T} : Prop := {
  tln_mul : forall x y : T, (0 < x)%T -> (0 < y)%T -> tln (x * y)%T = (tln x + tln y)%T
}.

(** * 1. cut-off 0 *)
Section Cut0.
  Context {T : Type} {O : Ops T} {RL : RingLaws T} {OL : OrderLaws T} {FL : FieldLaws T} {AL : AbsLaws T}.
  Add Ring TRingSim1 : (@ring_th T O RL).

  Lemma tabs_pos_of_neq0 (e : T) : e <> 0%T -> (0 < tabs e)%T.
  Proof.
    intros He. destruct (tle_total 0%T e) as [H|H].
    - rewrite (abs_pos e H). destruct (tle_lt_or_eq _ _ H) as [L|E]; [exact L|].
      exfalso. apply He. now symmetry.
    - rewrite (abs_neg e H). assert (N : (0 <= - e)%T) by now apply topp_nonneg.
      destruct (tle_lt_or_eq _ _ N) as [L|E]; [exact L|].
      exfalso. apply He. replace e with (- - e)%T by ring. rewrite <- E. ring.
  Qed.

  (** no extent lies in the empty interval (0, 0] *)
  Lemma no_small_extent_0 (el : list (@vec T)) : no_small_extent 0%T el.
  Proof.
    intros dim i _. destruct (teqb (edge_ext el dim i) 0%T) eqn:E.
    - left. now apply teqb_spec.
    - right. unfold cut_active. apply tabs_pos_of_neq0. intros H. apply teqb_spec in H. congruence.
  Qed.

  Theorem stokes_cut0_is_nocut (pi pj : list (@vec T)) (a : T) :
    stokes_integration 0%T pi pj a = stokes_nocut pi pj a.
  Proof. apply stokes_cut_is_nocut; apply no_small_extent_0. Qed.
End Cut0.

(** * 2. the cut-off-free sum in terms of step vectors *)
Section NocutForm.
  Context {T : Type} {O : Ops T} {RL : RingLaws T} {OL : OrderLaws T} {FL : FieldLaws T}.
  Add Ring TRingSim2 : (@ring_th T O RL).

  Definition all_act : T -> bool := fun _ => true.

  (** [2/45] and the Boole coefficient as a multiple of the step *)
  Definition kb : T := (c2 * tinv c45)%T.
  Lemma bcoef_lin (h : T) : bcoef h = (kb * h)%T.
  Proof. unfold bcoef, kb. rewrite (tdiv_fdiv _ _ c45_neq0'). unfold fdiv. ring. Qed.

  (** step vector of segment [i]: second sample minus first sample *)
  Definition stepv (b : list (@vec T)) (n i : nat) : vec :=
    vsub (nthv b (seg_idx n i 1)) (nthv b (seg_idx n i 0)).
  Lemma sx_step b n dim i : (sx b n dim i 1 - sx b n dim i 0)%T = coord dim (stepv b n i).
  Proof. unfold sx, stepv. now rewrite coord_vsub. Qed.

  (** Boole-weighted sum of [Y] over the five samples of segment [i] *)
  Definition Zs (n : nat) (Y : nat -> T) (i : nat) : T :=
    sumf [0; 1; 2; 3; 4] (fun ii => (bw ii * Y (seg_idx n i ii))%T).
  Definition GG (ni nj : nat) (f : nat -> nat -> T) (i j : nat) : T :=
    Zs ni (fun k => Zs nj (f k) j) i.
  (** sum of the Boole weights (= 90) *)
  Definition bwsum : T := sumf [0; 1; 2; 3; 4] (fun ii => bw ii).

  Lemma Zs_ext n Y Y' i : (forall k, Y k = Y' k) -> Zs n Y i = Zs n Y' i.
  Proof. intros H. unfold Zs. apply sumf_ext. intros ii _. now rewrite H. Qed.
  Lemma Zs_ext_lt n Y Y' i : n <> 0 -> (forall k, k < 4 * n -> Y k = Y' k) -> Zs n Y i = Zs n Y' i.
  Proof.
    intros Hn H. unfold Zs. apply sumf_ext. intros ii _. rewrite H; [reflexivity|]. now apply seg_idx_lt.
  Qed.
  Lemma Zs_zero n i : Zs n (fun _ => 0%T) i = 0%T.
  Proof. unfold Zs. cbn [sumf fold_right]. ring. Qed.
  Lemma Zs_add n Y1 Y2 i : Zs n (fun k => (Y1 k + Y2 k)%T) i = (Zs n Y1 i + Zs n Y2 i)%T.
  Proof. unfold Zs. cbn [sumf fold_right]. ring. Qed.
  Lemma Zs_scale n c Y i : Zs n (fun k => (c * Y k)%T) i = (c * Zs n Y i)%T.
  Proof. unfold Zs. cbn [sumf fold_right]. ring. Qed.
  Lemma Zs_const n c i : Zs n (fun _ => c) i = (c * bwsum)%T.
  Proof. unfold Zs, bwsum. cbn [sumf fold_right]. ring. Qed.
  Lemma Zs_linear {A} n (l : list A) (c : A -> T) (g : nat -> A -> T) i :
    Zs n (fun k => sumf l (fun j => (c j * g k j)%T)) i = sumf l (fun j => (c j * Zs n (fun k => g k j) i)%T).
  Proof.
    induction l as [|a l IH].
    - cbn [sumf fold_right]. apply Zs_zero.
    - cbn [sumf fold_right].
      rewrite (Zs_add n (fun k => (c a * g k a)%T)
                 (fun k => fold_right (fun a0 acc => (c a0 * g k a0 + acc)%T) 0%T l)).
      rewrite Zs_scale. f_equal. exact IH.
  Qed.

  Lemma GG_ext ni nj f g i j : (forall k l, f k l = g k l) -> GG ni nj f i j = GG ni nj g i j.
  Proof. intros H. unfold GG. apply Zs_ext. intros k. apply Zs_ext. intros l. apply H. Qed.
  Lemma GG_ext_lt ni nj f g i j : ni <> 0 -> nj <> 0 ->
    (forall k l, k < 4 * ni -> l < 4 * nj -> f k l = g k l) -> GG ni nj f i j = GG ni nj g i j.
  Proof.
    intros Hi Hj H. unfold GG. apply Zs_ext_lt; [exact Hi|]. intros k Hk.
    apply Zs_ext_lt; [exact Hj|]. intros l Hl. now apply H.
  Qed.
  Lemma GG_shift ni nj c f i j :
    GG ni nj (fun k l => (c + f k l)%T) i j = (c * (bwsum * bwsum) + GG ni nj f i j)%T.
  Proof.
    unfold GG.
    rewrite (Zs_ext ni _ (fun k => (c * bwsum + Zs nj (f k) j)%T))
      by (intros k; rewrite (Zs_add nj (fun _ => c) (f k)); now rewrite Zs_const).
    rewrite (Zs_add ni (fun _ => (c * bwsum)%T) (fun k => Zs nj (f k) j)), Zs_const. ring.
  Qed.

  (** one coordinate of one boundary, every segment integrated *)
  Lemma quad_sum_true b n dim (Y : nat -> T) :
    sumf (quad all_act b n dim) (fun p => (fst p * Y (snd p))%T) =
    sumf (seq 0 n) (fun i => ((kb * coord dim (stepv b n i)) * Zs n Y i)%T).
  Proof.
    unfold quad. rewrite sumf_flat_map. apply sumf_ext. intros i _.
    unfold quad_seg, all_act. rewrite sumf_map. unfold Zs. rewrite <- sumf_scale.
    apply sumf_ext. intros ii _. cbn [fst snd]. rewrite bcoef_lin, sx_step. ring.
  Qed.

  Lemma bil_true ib ni jb nj dim f :
    bil (quad all_act ib ni dim) (quad all_act jb nj dim) f =
    sumf (seq 0 ni) (fun i => sumf (seq 0 nj) (fun j =>
      (((kb * coord dim (stepv ib ni i)) * (kb * coord dim (stepv jb nj j))) * GG ni nj f i j)%T)).
  Proof.
    unfold bil.
    rewrite (quad_sum_true ib ni dim
               (fun k => sumf (quad all_act jb nj dim) (fun q => (fst q * f k (snd q))%T))).
    apply sumf_ext. intros i _.
    rewrite (Zs_ext ni _ (fun k => sumf (seq 0 nj)
               (fun j => ((kb * coord dim (stepv jb nj j)) * Zs nj (f k) j)%T)))
      by (intros k; apply (quad_sum_true jb nj dim (f k))).
    rewrite (Zs_linear ni (seq 0 nj) (fun j => (kb * coord dim (stepv jb nj j))%T)
               (fun k j => Zs nj (f k) j) i).
    rewrite <- sumf_scale. apply sumf_ext. intros j _. unfold GG. ring.
  Qed.

  Lemma sumf_swap3 {A B C} (la : list A) (lb : list B) (lc : list C) (F : A -> B -> C -> T) :
    sumf la (fun a => sumf lb (fun b => sumf lc (fun c => F a b c))) =
    sumf lb (fun b => sumf lc (fun c => sumf la (fun a => F a b c))).
  Proof.
    rewrite (sumf_swap la lb (fun a b => sumf lc (fun c => F a b c))).
    apply sumf_ext. intros b _. apply (sumf_swap la lc (fun a c => F a b c)).
  Qed.

  Lemma vdot_coords (u v : @vec T) :
    sumf [0; 1; 2] (fun dim => (coord dim u * coord dim v)%T) = vdot u v.
  Proof. cbn [sumf fold_right coord]. unfold vdot. ring. Qed.

  (** the double sum: inner products of step vectors times the weight/entry block *)
  Theorem dsum_true ib ni jb nj f :
    dsum all_act ib ni jb nj f =
    sumf (seq 0 ni) (fun i => sumf (seq 0 nj) (fun j =>
      (((kb * kb) * vdot (stepv ib ni i) (stepv jb nj j)) * GG ni nj f i j)%T)).
  Proof.
    unfold dsum.
    rewrite (sumf_ext [0; 1; 2] _ (fun dim => sumf (seq 0 ni) (fun i => sumf (seq 0 nj) (fun j =>
      (((kb * coord dim (stepv ib ni i)) * (kb * coord dim (stepv jb nj j))) * GG ni nj f i j)%T))))
      by (intros dim _; apply bil_true).
    rewrite (sumf_swap3 [0; 1; 2] (seq 0 ni) (seq 0 nj)
      (fun dim i j => (((kb * coord dim (stepv ib ni i)) * (kb * coord dim (stepv jb nj j))) * GG ni nj f i j)%T)).
    apply sumf_ext. intros i _. apply sumf_ext. intros j _.
    rewrite <- vdot_coords. cbn [sumf fold_right]. ring.
  Qed.

  (** ** linear maps of 3-space *)
  Definition vlinear (g : @vec T -> @vec T) : Prop :=
    (forall a b, g (vadd a b) = vadd (g a) (g b)) /\ (forall c v, g (vscale c v) = vscale c (g v)).

  Lemma vscale0 (v : @vec T) : vscale 0%T v = vzero.
  Proof. vec3 v. unfold vscale, vzero, mkv, vx, vy, vz. simpl. f_equal; [f_equal|]; ring. Qed.
  Lemma vsub_as_add (a b : @vec T) : vsub a b = vadd a (vscale (- (1))%T b).
  Proof. vec3 a; vec3 b. unfold vsub, vadd, vscale, mkv, vx, vy, vz. simpl. f_equal; [f_equal|]; ring. Qed.
  Lemma vdivs_as_scale (v : @vec T) c : c <> 0%T -> vdivs v c = vscale (tinv c) v.
  Proof.
    intros Hc. vec3 v. unfold vdivs, vscale, mkv, vx, vy, vz. simpl.
    rewrite !(tdiv_fdiv _ c Hc). unfold fdiv. f_equal; [f_equal|]; ring.
  Qed.

  Section LinearMap.
    Variable g : @vec T -> @vec T.
    Hypothesis Hg : vlinear g.

    Lemma lin_add a b : g (vadd a b) = vadd (g a) (g b).
    Proof. apply (proj1 Hg). Qed.
    Lemma lin_scale c v : g (vscale c v) = vscale c (g v).
    Proof. apply (proj2 Hg). Qed.
    Lemma lin_zero : g vzero = vzero.
    Proof. rewrite <- (vscale0 vzero) at 1. rewrite lin_scale. apply vscale0. Qed.
    Lemma lin_sub a b : g (vsub a b) = vsub (g a) (g b).
    Proof. now rewrite !vsub_as_add, lin_add, lin_scale. Qed.
    Lemma lin_divs v c : c <> 0%T -> g (vdivs v c) = vdivs (g v) c.
    Proof. intros Hc. now rewrite !(vdivs_as_scale _ c Hc), lin_scale. Qed.

    Lemma nthv_map_lin (l : list (@vec T)) i : nthv (map g l) i = g (nthv l i).
    Proof.
      unfold nthv. transitivity (nth i (map g l) (g vzero)); [now rewrite lin_zero|apply map_nth].
    Qed.

    Lemma bpoint_lin el k : bpoint 4 (map g el) k = g (bpoint 4 el k).
    Proof.
      unfold bpoint. cbv zeta. rewrite map_length, !nthv_map_lin.
      assert (H4 : (tnat 4 : T) <> 0%T) by (rewrite tnat4; apply c4_neq0).
      now rewrite lin_add, (lin_divs _ _ H4), lin_scale, lin_sub.
    Qed.
    (** the boundary samples are affine combinations of the vertices *)
    Lemma sample_pts_lin el : sample_pts 5 (map g el) = map g (sample_pts 5 el).
    Proof.
      unfold sample_pts, tab. rewrite map_length, map_map. apply map_ext.
      intros k. change (5 - 1) with 4. apply bpoint_lin.
    Qed.
    Lemma stepv_lin b n i : stepv (map g b) n i = g (stepv b n i).
    Proof. unfold stepv. now rewrite !nthv_map_lin, lin_sub. Qed.
  End LinearMap.

  Lemma mapply_linear (M : @mat T) : vlinear (mapply M).
  Proof.
    split.
    - intros u v. destruct M as [[r1 r2] r3]. vec3 r1; vec3 r2; vec3 r3; vec3 u; vec3 v.
      unfold mapply, mrow1, mrow2, mrow3, vadd, vdot, mkv, vx, vy, vz. simpl. f_equal; [f_equal|]; ring.
    - intros c v. destruct M as [[r1 r2] r3]. vec3 r1; vec3 r2; vec3 r3; vec3 v.
      unfold mapply, mrow1, mrow2, mrow3, vscale, vdot, mkv, vx, vy, vz. simpl. f_equal; [f_equal|]; ring.
  Qed.
  Lemma vscale_linear (s : T) : vlinear (vscale s).
  Proof.
    split.
    - intros u v. vec3 u; vec3 v. unfold vscale, vadd, mkv, vx, vy, vz. simpl. f_equal; [f_equal|]; ring.
    - intros c v. vec3 v. unfold vscale, mkv, vx, vy, vz. simpl. f_equal; [f_equal|]; ring.
  Qed.

  (** * 3. (b-iso) linear maps that preserve inner products, and rigid motions *)
  Section Iso.
    Variable g : @vec T -> @vec T.
    Hypothesis Hg : vlinear g.
    Hypothesis Hdot : forall x y, vdot (g x) (g y) = vdot x y.

    Lemma load_iso ib jb k l :
      get2 (load_stokes_entries (map g ib) (map g jb)) k l = get2 (load_stokes_entries ib jb) k l.
    Proof.
      rewrite !get2_load, !map_length.
      destruct ((k <? length ib) && (l <? length jb)); [|reflexivity].
      rewrite !(nthv_map_lin g Hg). unfold stokes_entry, vnorm, vnorm2.
      now rewrite <- (lin_sub g Hg), Hdot.
    Qed.

    Theorem stokes_outer_nocut_iso pi pj :
      stokes_outer all_act (map g pi) (map g pj) = stokes_outer all_act pi pj.
    Proof.
      rewrite !stokes_outer_dsum, !(sample_pts_lin g Hg), !map_length, !dsum_true.
      apply sumf_ext. intros i _. apply sumf_ext. intros j _.
      rewrite !(stepv_lin g Hg), Hdot. f_equal. apply GG_ext. intros k l. apply load_iso.
    Qed.

    Theorem stokes_nocut_iso pi pj a : stokes_nocut (map g pi) (map g pj) a = stokes_nocut pi pj a.
    Proof.
      unfold stokes_nocut, stokes_gen. change (fun _ : T => true) with all_act.
      now rewrite stokes_outer_nocut_iso.
    Qed.

    (** composed with a translation *)
    Theorem stokes_nocut_rigid_gen (t : @vec T) pi pj a :
      stokes_nocut (map (fun x => vadd (g x) t) pi) (map (fun x => vadd (g x) t) pj) a = stokes_nocut pi pj a.
    Proof.
      change (fun x => vadd (g x) t) with (fun x => vtr t (g x)).
      rewrite <- (map_map g (vtr t) pi), <- (map_map g (vtr t) pj).
      unfold stokes_nocut. rewrite (stokes_gen_translate (fun _ => true) t (map g pi) (map g pj) a).
      apply stokes_nocut_iso.
    Qed.
  End Iso.

  (** for matrices: any [M] that preserves inner products, in particular [M^T M = I] *)
  Theorem stokes_nocut_rigid (M : @mat T) (t : @vec T) pi pj a :
    (forall x y, vdot (mapply M x) (mapply M y) = vdot x y) ->
    stokes_nocut (map (fun x => vadd (mapply M x) t) pi) (map (fun x => vadd (mapply M x) t) pj) a =
    stokes_nocut pi pj a.
  Proof. intros H. exact (stokes_nocut_rigid_gen (mapply M) (mapply_linear M) H t pi pj a). Qed.

  Theorem stokes_nocut_linear_isometry (M : @mat T) pi pj a :
    (forall x y, vdot (mapply M x) (mapply M y) = vdot x y) ->
    stokes_nocut (map (mapply M) pi) (map (mapply M) pj) a = stokes_nocut pi pj a.
  Proof. intros H. exact (stokes_nocut_iso (mapply M) (mapply_linear M) H pi pj a). Qed.

  Theorem stokes_nocut_orthogonal (M : @mat T) (t : @vec T) pi pj a : orthogonal M ->
    stokes_nocut (map (fun x => vadd (mapply M x) t) pi) (map (fun x => vadd (mapply M x) t) pj) a =
    stokes_nocut pi pj a.
  Proof. intros HM. apply stokes_nocut_rigid. intros x y. now apply mdot. Qed.

  (** ** closed polygon: the step vectors add up to 0 *)
  Lemma sumf_cyclic_shift n (h : nat -> T) :
    sumf (seq 0 n) (fun i => h ((i + 1) mod n)) = sumf (seq 0 n) h.
  Proof.
    destruct n as [|m]; [reflexivity|].
    rewrite seq_S at 1. rewrite sumf_app. cbn [sumf fold_right Nat.add].
    replace ((m + 1) mod S m) with 0 by (replace (m + 1) with (S m) by lia; now rewrite Nat.mod_same).
    rewrite (sumf_ext (seq 0 m) _ (fun i => h (S i))).
    - change (seq 0 (S m)) with (0 :: seq 1 m). rewrite <- seq_shift, sumf_cons, sumf_map. ring.
    - intros i Hi. apply in_seq in Hi. rewrite Nat.mod_small by lia. f_equal. lia.
  Qed.

  Lemma edge_ext_sum el dim : sumf (seq 0 (length el)) (fun i => edge_ext el dim i) = 0%T.
  Proof.
    unfold edge_ext.
    rewrite (sumf_ext _ _ (fun i => (coord dim (nthv el ((i + 1) mod length el)) + (- (1)) * coord dim (nthv el i))%T))
      by (intros; ring).
    rewrite sumf_add, sumf_scale.
    rewrite (sumf_cyclic_shift (length el) (fun i => coord dim (nthv el i))). ring.
  Qed.

  Lemma step_coord el dim i : i < length el ->
    coord dim (stepv (sample_pts 5 el) (length el) i) = (tinv c4 * edge_ext el dim i)%T.
  Proof.
    intros Hi. rewrite <- sx_step. rewrite sx_first by exact Hi. rewrite sx_inner by lia.
    rewrite tnat4, (tdiv_fdiv _ _ c4_neq0). unfold fdiv. cbn [tnat]. ring.
  Qed.

  (** telescoping: the coordinate steps of [sample_conn 5 n] / [sample_pts 5] around the polygon *)
  Lemma step_sum_zero el dim :
    sumf (seq 0 (length el)) (fun i => coord dim (stepv (sample_pts 5 el) (length el) i)) = 0%T.
  Proof.
    rewrite (sumf_ext _ _ (fun i => (tinv c4 * edge_ext el dim i)%T))
      by (intros i Hi; apply in_seq in Hi; apply step_coord; lia).
    rewrite sumf_scale, edge_ext_sum. ring.
  Qed.

  Lemma vdot_step_sum_zero (u : @vec T) el :
    sumf (seq 0 (length el)) (fun j => vdot u (stepv (sample_pts 5 el) (length el) j)) = 0%T.
  Proof.
    rewrite (sumf_ext _ _ (fun j =>
      (vx u * coord 0 (stepv (sample_pts 5 el) (length el) j) +
       (vy u * coord 1 (stepv (sample_pts 5 el) (length el) j) +
        vz u * coord 2 (stepv (sample_pts 5 el) (length el) j)))%T))
      by (intros j _; unfold vdot; cbn [coord]; ring).
    rewrite !sumf_add, !sumf_scale, !step_sum_zero. ring.
  Qed.
End NocutForm.

(** * 4. (b-scale) uniform scaling *)
Section Scale.
  Context {T : Type} {O : Ops T} {RL : RingLaws T} {OL : OrderLaws T} {FL : FieldLaws T}
          {SL : SqrtLaws T} {LL : LnLaws T}.
  Add Ring TRingSim3 : (@ring_th T O RL).

  Lemma vnorm2_nonneg (d : @vec T) : (0 <= vnorm2 d)%T.
  Proof. unfold vnorm2, vdot. apply tadd_nonneg; [apply tadd_nonneg|]; apply tsq_nonneg. Qed.

  Lemma vdot_scale s (u v : @vec T) : vdot (vscale s u) (vscale s v) = ((s * s) * vdot u v)%T.
  Proof. vec3 u; vec3 v. unfold vdot, vscale, mkv, vx, vy, vz. simpl. ring. Qed.

  Variable s : T.
  Hypothesis Hs : (0 < s)%T.
  Variables pi pj : list (@vec T).
  (** the two sampled boundaries are at positive distance (patches that do not touch) *)
  Hypothesis Hpos : forall p q, In p (sample_pts 5 pi) -> In q (sample_pts 5 pj) -> (0 < vnorm (vsub p q))%T.

  Lemma stokes_entry_scale p q : In p (sample_pts 5 pi) -> In q (sample_pts 5 pj) ->
    stokes_entry (vscale s p) (vscale s q) = (tln s + stokes_entry p q)%T.
  Proof.
    intros Hp Hq. unfold stokes_entry. rewrite vsub_scale.
    rewrite (vnorm_scale s _ (tlt_le _ _ Hs) (vnorm2_nonneg _)).
    apply tln_mul; [exact Hs|now apply Hpos].
  Qed.

  Lemma load_scale k l : k < 4 * length pi -> l < 4 * length pj ->
    get2 (load_stokes_entries (map (vscale s) (sample_pts 5 pi)) (map (vscale s) (sample_pts 5 pj))) k l =
    (tln s + get2 (load_stokes_entries (sample_pts 5 pi) (sample_pts 5 pj)) k l)%T.
  Proof.
    intros Hk Hl. rewrite !get2_load, !map_length, !sample_pts_length.
    apply Nat.ltb_lt in Hk. apply Nat.ltb_lt in Hl. rewrite Hk, Hl. cbn [andb].
    apply Nat.ltb_lt in Hk. apply Nat.ltb_lt in Hl.
    rewrite !(nthv_map_lin (vscale s) (vscale_linear s)).
    apply stokes_entry_scale; unfold nthv; apply nth_In; now rewrite sample_pts_length.
  Qed.

  Theorem stokes_outer_nocut_scale :
    stokes_outer all_act (map (vscale s) pi) (map (vscale s) pj) = ((s * s) * stokes_outer all_act pi pj)%T.
  Proof.
    rewrite !stokes_outer_dsum, !(sample_pts_lin (vscale s) (vscale_linear s)), !map_length, !dsum_true.
    set (ib := sample_pts 5 pi). set (jb := sample_pts 5 pj).
    set (f := get2 (load_stokes_entries ib jb)).
    rewrite (sumf_ext (seq 0 (length pi)) _ (fun i =>
      ((((s * s) * ((kb * kb) * (tln s * (bwsum * bwsum)))) *
          sumf (seq 0 (length pj)) (fun j => vdot (stepv ib (length pi) i) (stepv jb (length pj) j))) +
       (s * s) * sumf (seq 0 (length pj)) (fun j =>
          (((kb * kb) * vdot (stepv ib (length pi) i) (stepv jb (length pj) j)) * GG (length pi) (length pj) f i j)%T))%T)).
    - rewrite sumf_add.
      rewrite (sumf_zero_ext (seq 0 (length pi))).
      + rewrite sumf_scale. ring.
      + intros i _. unfold jb. rewrite vdot_step_sum_zero. ring.
    - intros i Hi. apply in_seq in Hi.
      rewrite <- !sumf_scale, <- sumf_add. apply sumf_ext. intros j Hj. apply in_seq in Hj.
      rewrite !(stepv_lin (vscale s) (vscale_linear s)), vdot_scale.
      rewrite (GG_ext_lt (length pi) (length pj) _ (fun k l => (tln s + f k l)%T) i j)
        by (try lia; intros k l Hk Hl; unfold f, ib, jb; now apply load_scale).
      rewrite GG_shift. ring.
  Qed.

  (** the value: the area of the scaled patch is [s*s*a] *)
  Theorem stokes_nocut_scale (a : T) : tpi <> 0%T -> a <> 0%T ->
    stokes_nocut (map (vscale s) pi) (map (vscale s) pj) ((s * s) * a)%T = stokes_nocut pi pj a.
  Proof.
    intros Hpi Ha. unfold stokes_nocut, stokes_gen. change (fun _ : T => true) with (@all_act T).
    rewrite stokes_outer_nocut_scale. f_equal.
    assert (Hs0 : s <> 0%T) by now apply tpos_neq0.
    assert (Hss : (s * s)%T <> 0%T) by now apply tmul_neq0.
    assert (Hd : ((c2 * tpi) * a)%T <> 0%T).
    { apply tmul_neq0; [apply tmul_neq0; [unfold c2; tnz|exact Hpi]|exact Ha]. }
    replace ((c2 * tpi) * ((s * s) * a))%T with ((s * s) * ((c2 * tpi) * a))%T by ring.
    now apply tdiv_cancel.
  Qed.

  Theorem stokes_cut0_scale (a : T) : tpi <> 0%T -> a <> 0%T ->
    stokes_integration 0%T (map (vscale s) pi) (map (vscale s) pj) ((s * s) * a)%T =
    stokes_integration 0%T pi pj a.
  Proof. intros Hpi Ha. rewrite !stokes_cut0_is_nocut. now apply stokes_nocut_scale. Qed.
End Scale.

(** * the code with cut-off 0 under rigid motions *)
Section Cut0Rigid.
  Context {T : Type} {O : Ops T} {RL : RingLaws T} {OL : OrderLaws T} {FL : FieldLaws T} {AL : AbsLaws T}.

  Theorem stokes_cut0_rigid (M : @mat T) (t : @vec T) pi pj a :
    (forall x y, vdot (mapply M x) (mapply M y) = vdot x y) ->
    stokes_integration 0%T (map (fun x => vadd (mapply M x) t) pi) (map (fun x => vadd (mapply M x) t) pj) a =
    stokes_integration 0%T pi pj a.
  Proof. intros H. rewrite !stokes_cut0_is_nocut. now apply stokes_nocut_rigid. Qed.

  Theorem stokes_cut0_orthogonal (M : @mat T) (t : @vec T) pi pj a : orthogonal M ->
    stokes_integration 0%T (map (fun x => vadd (mapply M x) t) pi) (map (fun x => vadd (mapply M x) t) pj) a =
    stokes_integration 0%T pi pj a.
  Proof. intros H. rewrite !stokes_cut0_is_nocut. now apply stokes_nocut_orthogonal. Qed.
End Cut0Rigid.

(** * 5. (c) the 48 signed axis permutations, with ANY cut-off in place *)
Section SignedPerm.
  Context {T : Type} {O : Ops T} {RL : RingLaws T} {OL : OrderLaws T} {FL : FieldLaws T} {AL : AbsLaws T}.
  Add Ring TRingSim4 : (@ring_th T O RL).

  Lemma sumf_permutation {A} (l l' : list A) (f : A -> T) : Permutation l l' -> sumf l f = sumf l' f.
  Proof.
    induction 1 as [|x l l' _ IH|x y l|l l' l'' _ IH1 _ IH2].
    - reflexivity.
    - now rewrite !sumf_cons, IH.
    - rewrite !sumf_cons. ring.
    - now rewrite IH1.
  Qed.

  Lemma tabs_opp_al (x : T) : tabs (- x)%T = tabs x.
  Proof.
    destruct (tle_total 0%T x) as [H|H].
    - rewrite (abs_pos x H). rewrite abs_neg; [ring|].
      apply topp_le in H. replace (- 0)%T with (0 : T)%T in H by ring. exact H.
    - rewrite (abs_neg x H). apply abs_pos. now apply topp_nonneg.
  Qed.

  Variable sigma : nat -> nat.
  Variables e0 e1 e2 : T.
  Hypothesis Hperm : Permutation [sigma 0; sigma 1; sigma 2] [0; 1; 2].
  Hypothesis He0 : e0 = 1%T \/ e0 = (- (1))%T.
  Hypothesis He1 : e1 = 1%T \/ e1 = (- (1))%T.
  Hypothesis He2 : e2 = 1%T \/ e2 = (- (1))%T.

  Definition ed (d : nat) : T := match d with 0 => e0 | 1 => e1 | _ => e2 end.
  (** [p |-> (e0 * p[sigma 0], e1 * p[sigma 1], e2 * p[sigma 2])] *)
  Definition sperm (p : @vec T) : vec :=
    mkv (e0 * coord (sigma 0) p)%T (e1 * coord (sigma 1) p)%T (e2 * coord (sigma 2) p)%T.

  Lemma ed_cases d : ed d = 1%T \/ ed d = (- (1))%T.
  Proof. destruct d as [|[|d]]; cbn [ed]; assumption. Qed.
  Lemma ed_sq d : (ed d * ed d)%T = 1%T.
  Proof. destruct (ed_cases d) as [E|E]; rewrite E; ring. Qed.
  Lemma tabs_ed d x : tabs (ed d * x)%T = tabs x.
  Proof.
    destruct (ed_cases d) as [E|E]; rewrite E.
    - now replace (1 * x)%T with x by ring.
    - replace (- (1) * x)%T with (- x)%T by ring. apply tabs_opp_al.
  Qed.
  Lemma coord_sperm d p : d < 3 -> coord d (sperm p) = (ed d * coord (sigma d) p)%T.
  Proof. intros Hd. destruct d as [|[|[|d]]]; try lia; reflexivity. Qed.

  Lemma sperm_linear : vlinear sperm.
  Proof.
    split.
    - intros a b. unfold sperm. rewrite !coord_vadd. unfold vadd at 1. unfold mkv, vx, vy, vz. simpl.
      f_equal; [f_equal|]; ring.
    - intros c v. unfold sperm. rewrite !coord_vscale. unfold vscale at 1. unfold mkv, vx, vy, vz. simpl.
      f_equal; [f_equal|]; ring.
  Qed.

  Lemma sperm_dot x y : vdot (sperm x) (sperm y) = vdot x y.
  Proof.
    transitivity (sumf [sigma 0; sigma 1; sigma 2] (fun d => (coord d x * coord d y)%T)).
    - unfold sperm, vdot, mkv, vx, vy, vz. cbn [fst snd sumf fold_right].
      pose proof (ed_sq 0) as Q0. pose proof (ed_sq 1) as Q1. pose proof (ed_sq 2) as Q2. cbn [ed] in Q0, Q1, Q2.
      transitivity (((e0 * e0) * (coord (sigma 0) x * coord (sigma 0) y) +
                     (e1 * e1) * (coord (sigma 1) x * coord (sigma 1) y)) +
                     (e2 * e2) * (coord (sigma 2) x * coord (sigma 2) y))%T; [ring|].
      rewrite Q0, Q1, Q2. ring.
    - rewrite (sumf_permutation _ _ _ Hperm). apply vdot_coords.
  Qed.

  Variable cut : T.
  Let act := @cut_active T O cut.

  Lemma sx_sperm b n d i ii : d < 3 -> sx (map sperm b) n d i ii = (ed d * sx b n (sigma d) i ii)%T.
  Proof. intros Hd. unfold sx. rewrite (nthv_map_lin sperm sperm_linear). now apply coord_sperm. Qed.

  Lemma quad_sum_sperm b n d (Y : nat -> T) : d < 3 ->
    sumf (quad act (map sperm b) n d) (fun p => (fst p * Y (snd p))%T) =
    (ed d * sumf (quad act b n (sigma d)) (fun p => (fst p * Y (snd p))%T))%T.
  Proof.
    intros Hd. unfold quad. rewrite !sumf_flat_map, <- sumf_scale. apply sumf_ext. intros i _.
    unfold quad_seg. rewrite !(sx_sperm b n d i _ Hd).
    replace (ed d * sx b n (sigma d) i 4 - ed d * sx b n (sigma d) i 0)%T
      with (ed d * (sx b n (sigma d) i 4 - sx b n (sigma d) i 0))%T by ring.
    replace (ed d * sx b n (sigma d) i 1 - ed d * sx b n (sigma d) i 0)%T
      with (ed d * (sx b n (sigma d) i 1 - sx b n (sigma d) i 0))%T by ring.
    replace (act (ed d * (sx b n (sigma d) i 4 - sx b n (sigma d) i 0))%T)
      with (act (sx b n (sigma d) i 4 - sx b n (sigma d) i 0)%T)
      by (unfold act, cut_active; now rewrite tabs_ed).
    destruct (act _).
    - rewrite !sumf_map, <- sumf_scale. apply sumf_ext. intros ii _. cbn [fst snd].
      rewrite !bcoef_lin. ring.
    - cbn [sumf fold_right]. ring.
  Qed.

  Lemma bil_sperm ib ni jb nj d f : d < 3 ->
    bil (quad act (map sperm ib) ni d) (quad act (map sperm jb) nj d) f =
    bil (quad act ib ni (sigma d)) (quad act jb nj (sigma d)) f.
  Proof.
    intros Hd. unfold bil.
    rewrite (quad_sum_sperm ib ni d
               (fun k => sumf (quad act (map sperm jb) nj d) (fun q => (fst q * f k (snd q))%T)) Hd).
    rewrite <- sumf_scale. apply sumf_ext. intros p _.
    rewrite (quad_sum_sperm jb nj d (fun l => f (snd p) l) Hd).
    transitivity (((ed d * ed d) * (fst p * sumf (quad act jb nj (sigma d)) (fun q => (fst q * f (snd p) (snd q))%T)))%T);
      [ring|]. rewrite ed_sq. ring.
  Qed.

  Theorem stokes_outer_sperm pi pj :
    stokes_outer act (map sperm pi) (map sperm pj) = stokes_outer act pi pj.
  Proof.
    rewrite !stokes_outer_dsum, !(sample_pts_lin sperm sperm_linear), !map_length. unfold dsum.
    set (ib := sample_pts 5 pi). set (jb := sample_pts 5 pj).
    rewrite (sumf_ext [0; 1; 2] _ (fun d => bil (quad act ib (length pi) (sigma d)) (quad act jb (length pj) (sigma d))
                                               (get2 (load_stokes_entries ib jb)))).
    - rewrite <- (sumf_map sigma [0; 1; 2]
                    (fun d' => bil (quad act ib (length pi) d') (quad act jb (length pj) d') (get2 (load_stokes_entries ib jb)))).
      cbn [map]. apply sumf_permutation. exact Hperm.
    - intros d Hd. assert (Hd3 : d < 3) by (cbn [In] in Hd; lia).
      rewrite (bil_sperm ib (length pi) jb (length pj) d _ Hd3).
      apply bil_ext. intros p q _ _. apply (load_iso sperm sperm_linear sperm_dot).
  Qed.

  Theorem stokes_integration_sperm pi pj a :
    stokes_integration cut (map sperm pi) (map sperm pj) a = stokes_integration cut pi pj a.
  Proof. unfold stokes_integration, stokes_gen. fold act. now rewrite stokes_outer_sperm. Qed.
End SignedPerm.
