(** * C03: the pipeline model against the independently stated recursion; diffuse tables make
    the result independent of the direction sampling. *)
From Coq Require Import List Arith Bool Ring Lia.
Import ListNotations.
From SV Require Import Base.Ops Base.Arr Base.Sums Model.Vec3 Model.Exchange Model.Scene
  Spec.ExchangeSpec Proofs.ExchangeL0 Proofs.ExchangeRefine Proofs.SceneRefine.

Section Generic.
  Context {T : Type} {O : Ops T}.
  Variable P : list (nat * nat).
  Variable delta : nat -> nat -> nat.
  Variable delta0 : nat -> nat.

  (** one equation per order, exactly as the property states it *)
  Lemma E_step c out e0 k j d b t :
    E P delta c out delta0 e0 (S k) j d b t =
    sumf (into P j) (fun p =>
      if t <? delta (fst p) j then 0%T
      else (c (fst p) j d b * E P delta c out delta0 e0 k (fst p) (out (fst p) j) b (t - delta (fst p) j))%T).
  Proof. reflexivity. Qed.

  (** transfer factors and initial energies that ignore the slot: histograms ignore the slot
      and the slot maps, even across different samplings *)
  Lemma E_slot_free c c' out out' e0 e0' :
    (forall i j d d' b, c i j d b = c' i j d' b) -> (forall j d d' b, e0 j d b = e0' j d' b) ->
    forall k j d d' b t,
      E P delta c out delta0 e0 k j d b t = E P delta c' out' delta0 e0' k j d' b t.
  Proof.
    intros Hc He. induction k as [|k IH]; intros j d d' b t; simpl.
    - unfold E0. now rewrite (He j d d').
    - apply sumf_ext. intros p _. unfold shiftf. destruct (t <? _); [reflexivity|].
      rewrite (Hc _ _ d d'). f_equal. apply IH.
  Qed.
End Generic.

Section Diffuse.
  Context {T : Type} {O : Ops T} {RL : RingLaws T}.

  (** same room, possibly different direction samplings and tables *)
  Definition same_room (sc sc' : @scene T) : Prop :=
    s_np sc = s_np sc' /\ s_nb sc = s_nb sc' /\ s_centers sc = s_centers sc' /\
    s_areas sc = s_areas sc' /\ s_wall sc = s_wall sc' /\ s_visU sc = s_visU sc' /\
    s_F sc = s_F sc' /\ s_att sc = s_att sc'.
  (** every table is constant in both direction indices: pi*BRDF = rho w b *)
  Definition diffuse (sc : @scene T) (rho : nat -> nat -> T) : Prop :=
    forall w a d b, beta sc w a d b = rho w b.

  Theorem diffuse_sampling_independent (sc sc' : @scene T) rho tm (s s' : @source T) K j d d' b t :
    same_room sc sc' -> diffuse sc rho -> diffuse sc' rho -> wf_scene sc -> wf_scene sc' ->
    src_pos s = src_pos s' -> src_vis s = src_vis s' -> src_share s = src_share s' ->
    src_dirfac s = None -> src_dirfac s' = None ->
    j < s_np sc -> d < s_nd sc -> d' < s_nd sc' -> b < s_nb sc -> t < n_samples tm ->
    get4 (patch_hist sc tm s K) j d b t = get4 (patch_hist sc' tm s' K) j d' b t.
  Proof.
    intros (Hnp & Hnb & Hc & Ha & Hw & Hv & HF & Hatt) Hd1 Hd2 WF WF' Hp Hvs Hsh Hdf Hdf' Hj Hd Hd' Hb Ht.
    rewrite (patch_hist_refines sc tm s K j d b t) by assumption.
    rewrite (patch_hist_refines sc' tm s' K j d' b t) by (try assumption; lia).
    assert (Hcen : forall i, center sc i = center sc' i) by (intros; unfold center; now rewrite Hc).
    assert (Hwall : forall i, wall sc i = wall sc' i) by (intros; unfold wall; now rewrite Hw).
    assert (Hpairs : vis_pairs sc = vis_pairs sc') by (unfold vis_pairs; now rewrite Hv, Hnp).
    assert (Hdist : forall i j0, dist sc i j0 = dist sc' i j0) by (intros; unfold dist; now rewrite !Hcen).
    assert (Hdl : forall i j0, scene_delta sc tm i j0 = scene_delta sc' tm i j0)
      by (intros; unfold scene_delta; now rewrite Hdist).
    assert (Hsd : forall j0, src_dist sc s j0 = src_dist sc' s' j0)
      by (intros; unfold src_dist; now rewrite Hp, Hvs, Hcen).
    assert (Hd0 : forall j0, scene_delta0 sc tm s j0 = scene_delta0 sc' tm s' j0)
      by (intros; unfold scene_delta0; now rewrite Hsd).
    unfold ExchangeSpec.Tot. apply sumf_ext. intros k _. rewrite <- Hpairs.
    rewrite (E_ext (directed (vis_pairs sc)) _ (scene_delta sc' tm) _ (tilde_entry sc) _ (out_index sc) _
               (scene_delta0 sc' tm s') _ (e0dir_entry sc s) (fun _ => True) (fun _ => True) (fun _ => True));
      try (intros; auto; fail).
    apply E_slot_free.
    - intros i j0 x x' b0. unfold tilde_entry, vis_sym, ff_full, area, attn, att.
      rewrite Hv, HF, Ha, Hdist, Hatt, Hd1, Hd2, Hwall. reflexivity.
    - intros j0 x x' b0. unfold e0dir_entry, energy0, attn, att.
      rewrite Hdf, Hdf', Hvs, Hsh, Hsd, Hatt, Hd1, Hd2, Hwall. reflexivity.
  Qed.
End Diffuse.

(** non-negativity of the model's transfer factors and initial energies from non-negative data *)
Section NonNeg.
  Context {T : Type} {O : Ops T} {RL : RingLaws T} {OL : OrderLaws T} {EL : ExpLaws T}.
  Variable sc : @scene T.
  Hypothesis ff_nonneg : forall i j, (0 <= ff_full sc i j)%T.
  Hypothesis beta_nonneg : forall w a d b, (0 <= beta sc w a d b)%T.

  Lemma attn_nonneg' b x : (0 <= attn sc b x)%T.
  Proof. unfold attn. apply tlt_le, texp_pos. Qed.

  Theorem tilde_nonneg i j d b : (0 <= tilde_entry sc i j d b)%T.
  Proof.
    unfold tilde_entry. destruct (vis_sym sc i j); [|apply tle_refl].
    apply tmul_nonneg; [apply tmul_nonneg; [apply ff_nonneg|apply attn_nonneg']|apply beta_nonneg].
  Qed.

  Theorem e0dir_nonneg (s : @source T) i d b :
    (forall k, (0 <= nthT (src_share s) k)%T) -> src_dirfac s = None ->
    (0 <= e0dir_entry sc s i d b)%T.
  Proof.
    intros Hsh Hdf. unfold e0dir_entry. rewrite Hdf. apply tmul_nonneg; [|apply beta_nonneg].
    unfold energy0. destruct (nthb (src_vis s) i); [|apply tle_refl].
    apply tmul_nonneg; [apply attn_nonneg'|apply Hsh].
  Qed.
End NonNeg.
