(** * C15: similarity is a bisimulation for EVERY public call except the direct-sound collect.

    [sim s s'] (equal normal forms: presence, shape, provenance of the 23 serialised attributes,
    kinds up to "object ndarray -> list" for the two direction lists) is shown to be preserved by
    bake_geometry, init_source_energy, calculate_energy_exchange (with and without recalculate) and
    to give equal answers of collect_energy_receiver_mono(direct_sound=False); together with the
    setter / round-trip cases of ObjectBisimThm this covers every op with [direct_collect o = false].

    The proofs are structured, not brute force: every stage reads the state only through
      - [tgeo], [nbins], [read_mats], [optv (get f _)]   (invariant under [norm]), and
      - shape / provenance of a serialised descriptor       (kept by [nd]),
    and writes either fresh descriptors or descriptors of the state itself, so that the successor
    states are [put]s over similar states of values with equal normal forms ([norm_put]). *)
From Coq Require Import List Arith Bool Lia.
Import ListNotations.
From SV Require Import Model.Object Spec.ObjectSpec Proofs.ObjectProofs Proofs.ObjectBisim
  Proofs.ObjectBisimThm Proofs.ObjectInitIdem.

(** ** what similar states agree on *)
Lemma sim_refl s : sim s s.
Proof. reflexivity. Qed.
Lemma sim_sym s s' : sim s s' -> sim s' s.
Proof. unfold sim. intro H. symmetry. exact H. Qed.
Lemma sim_trans a b c : sim a b -> sim b c -> sim a c.
Proof. unfold sim. intros H1 H2. rewrite H1. exact H2. Qed.
Lemma sim_norm s : sim (norm s) s.
Proof. unfold sim. apply norm_norm. Qed.

Lemma sim_tgeo s s' : sim s s' -> tgeo s = tgeo s'.
Proof. unfold sim. intro H. rewrite <- (tgeo_norm s), <- (tgeo_norm s'), H. reflexivity. Qed.
Lemma sim_nbins s s' : sim s s' -> nbins s = nbins s'.
Proof. unfold sim. intro H. rewrite <- (nbins_norm s), <- (nbins_norm s'), H. reflexivity. Qed.
Lemma sim_read_mats s s' b : sim s s' -> read_mats s b = read_mats s' b.
Proof. unfold sim. intro H. rewrite <- (read_mats_norm s), <- (read_mats_norm s'), H. reflexivity. Qed.
Lemma sim_get f s s' : sim s s' -> nv f (get f s) = nv f (get f s').
Proof. unfold sim. intro H. rewrite <- !get_norm, H. reflexivity. Qed.

Lemma sim_put f v v' s s' : nv f v = nv f v' -> sim s s' -> sim (put f v s) (put f v' s').
Proof. unfold sim. intros Hv H. rewrite !norm_put, Hv, H. reflexivity. Qed.
Lemma sim_put_same f v s s' : sim s s' -> sim (put f v s) (put f v s').
Proof. intro H. apply sim_put; [reflexivity|exact H]. Qed.

(** the part of a descriptor the stages look at: shape and provenance *)
Definition shv (d : option desc) : option (list nat * term) :=
  option_map (fun x => (dsh x, dv x)) d.
Lemma nv_shv f a b : serialised f = true -> nv f a = nv f b -> shv a = shv b.
Proof.
  unfold nv. intros ->. destruct a as [[k sh v o]|], b as [[k' sh' v' o']|]; cbn;
    intros E; try discriminate E; [|reflexivity].
  injection E as _ E1 E2. subst. reflexivity.
Qed.
Lemma sim_shv f s s' : serialised f = true -> sim s s' -> shv (get f s) = shv (get f s').
Proof. intros Hf H. apply (nv_shv f); [exact Hf|apply sim_get, H]. Qed.
Lemma shv_optv a b : shv a = shv b -> optv a = optv b.
Proof.
  destruct a as [[k sh v o]|], b as [[k' sh' v' o']|]; cbn; intros E; try discriminate E; [|reflexivity].
  injection E as _ E2. exact E2.
Qed.
Lemma sim_optv f s s' : serialised f = true -> sim s s' -> optv (get f s) = optv (get f s').
Proof. intros Hf H. apply shv_optv, (sim_shv f); assumption. Qed.

(** destructing a pair of descriptors with equal shape / provenance *)
Lemma shv_cases a b : shv a = shv b ->
  (a = None /\ b = None) \/
  (exists k k' sh v o o', a = Some (mkD k sh v o) /\ b = Some (mkD k' sh v o')).
Proof.
  destruct a as [[k sh v o]|], b as [[k' sh' v' o']|]; cbn; intros E; try discriminate E.
  - injection E as E1 E2. subst. right. exists k, k', sh', v', o, o'. split; reflexivity.
  - left. split; reflexivity.
Qed.

(** pairs of results with equal class and similar states *)
Lemma pnorm_pair c a b : sim a b -> pnorm (c, a) = pnorm (c, b).
Proof. unfold pnorm, sim. cbn [fst snd]. intros ->. reflexivity. Qed.
Lemma pnorm_inv r r' : pnorm r = pnorm r' -> fst r = fst r' /\ sim (snd r) (snd r').
Proof.
  unfold pnorm, sim. intro H. split; [exact (f_equal fst H)|exact (f_equal snd H)].
Qed.

(** ** calculate_energy_exchange *)
Lemma exchange_sim g s s' tid ns order recalc :
  sim s s' -> pnorm (oexchange g s tid ns order recalc) = pnorm (oexchange g s' tid ns order recalc).
Proof.
  intro H. unfold oexchange. cbv beta zeta.
  rewrite (sim_tgeo s s' H).
  pose proof (sim_optv FDist s s' eq_refl H) as Ed; cbn [get] in Ed; rewrite Ed; clear Ed.
  pose proof (sim_optv FP2O s s' eq_refl H) as Ed; cbn [get] in Ed; rewrite Ed; clear Ed.
  pose proof (sim_optv FPairs s s' eq_refl H) as Ed; cbn [get] in Ed; rewrite Ed; clear Ed.
  pose proof (sim_shv FEtc s s' eq_refl H) as E1; cbn [get] in E1.
  pose proof (sim_shv FE0 s s' eq_refl H) as E2; cbn [get] in E2.
  pose proof (sim_shv FTilde s s' eq_refl H) as E3; cbn [get] in E3.
  destruct (shv_cases _ _ E1) as [[C1 C1']|(? & ? & ? & ? & ? & ? & C1 & C1')]; rewrite C1, C1'; clear E1 C1 C1';
  destruct (shv_cases _ _ E2) as [[C2 C2']|(? & ? & ? & ? & ? & ? & C2 & C2')]; rewrite C2, C2'; clear E2 C2 C2';
  destruct (shv_cases _ _ E3) as [[C3 C3']|(? & ? & ? & ? & ? & ? & C3 & C3')]; rewrite C3, C3'; clear E3 C3 C3';
  cbn [dsh dv];
  repeat match goal with
         | |- context [match ?x with _ => _ end] => destruct x
         end;
  apply pnorm_pair; repeat apply sim_put_same; exact H.
Qed.

(** ** collect_energy_receiver_mono(direct_sound=False) *)
Definition rd_out (s : ostate) : mats :=
  match o_dirs_out s with Some do => read_dirs do | None => MErr RType end.
Lemma rd_out_norm s : rd_out (norm s) = rd_out s.
Proof. unfold rd_out. autorewrite with onorm. destruct (o_dirs_out s); reflexivity. Qed.
Lemma sim_rd_out s s' : sim s s' -> rd_out s = rd_out s'.
Proof. unfold sim. intro H. rewrite <- (rd_out_norm s), <- (rd_out_norm s'), H. reflexivity. Qed.

Lemma collect_sim g s s' recv :
  sim s s' -> ocollect g s recv false = ocollect g s' recv false.
Proof.
  intro H. unfold ocollect. cbn [negb].
  change (match o_dirs_out s with Some do => read_dirs do | None => MErr RType end) with (rd_out s).
  change (match o_dirs_out s' with Some do => read_dirs do | None => MErr RType end) with (rd_out s').
  rewrite (sim_tgeo s s' H), (sim_rd_out s s' H).
  pose proof (sim_optv FAtt s s' eq_refl H) as Ed; cbn [get] in Ed; rewrite Ed; clear Ed.
  pose proof (sim_optv FC s s' eq_refl H) as Ed; cbn [get] in Ed; rewrite Ed; clear Ed.
  pose proof (sim_optv FDt s s' eq_refl H) as Ed; cbn [get] in Ed; rewrite Ed; clear Ed.
  pose proof (sim_shv FEtc s s' eq_refl H) as E1; cbn [get] in E1.
  destruct (shv_cases _ _ E1) as [[C1 C1']|(? & ? & ? & ? & ? & ? & C1 & C1')]; rewrite C1, C1';
    reflexivity.
Qed.

(** ** bake_geometry *)
Lemma sim_dirs_in_some s s' : sim s s' ->
  (o_dirs_in s = None /\ o_dirs_in s' = None) \/
  (exists d d', o_dirs_in s = Some d /\ o_dirs_in s' = Some d').
Proof.
  intro H. pose proof (sim_shv FDirsIn s s' eq_refl H) as E. cbn [get] in E.
  destruct (o_dirs_in s) as [d|], (o_dirs_in s') as [d'|]; cbn in E; try discriminate E.
  - right. exists d, d'. split; reflexivity.
  - left. split; reflexivity.
Qed.

Lemma bake_sim g s s' : sim s s' -> pnorm (obake g s) = pnorm (obake g s').
Proof.
  intro H. unfold obake. cbv zeta.
  rewrite (sim_tgeo s s' H), (sim_nbins s s' H).
  pose proof (sim_optv FAtt s s' eq_refl H) as Ed; cbn [get] in Ed; rewrite Ed; clear Ed.
  set (s1 := put FFF _ (put FPairs _ (put FVis _ s))).
  set (s1' := put FFF _ (put FPairs _ (put FVis _ s'))).
  assert (H1 : sim s1 s1') by (unfold s1, s1'; repeat apply sim_put_same; exact H).
  clearbody s1 s1'.
  rewrite (sim_read_mats s1 s1' true H1).
  destruct (sim_dirs_in_some s1 s1' H1) as [[C C']|(d & d' & C & C')]; rewrite C, C'.
  - apply pnorm_pair; repeat apply sim_put_same; exact H1.
  - destruct (read_mats s1' true); [apply pnorm_pair; exact H1|].
    destruct (tab_fits _ _ _ _); apply pnorm_pair; repeat apply sim_put_same; exact H1.
Qed.

(** ** init_source_energy, along the factoring of ObjectInitIdem *)
Definition frq (s : ostate) : option desc :=
  match o_freq s with Some f => Some f | None => default_freq end.
Definition frq_nb (s : ostate) : nat :=
  match frq s with Some f => hd 0 (dsh f) | None => 1 end.

Lemma sim_frq s s' : sim s s' -> shv (frq s) = shv (frq s').
Proof.
  intro H. pose proof (sim_shv FFreq s s' eq_refl H) as E. cbn [get] in E. unfold frq.
  destruct (o_freq s) as [d|], (o_freq s') as [d'|]; cbn in E; try discriminate E; [exact E|reflexivity].
Qed.
Lemma sim_frq_nv s s' : sim s s' -> nv FFreq (frq s) = nv FFreq (frq s').
Proof.
  intro H. pose proof (sim_get FFreq s s' H) as E. cbn [get] in E. unfold frq.
  destruct (o_freq s) as [d|], (o_freq s') as [d'|]; cbn in E; try discriminate E; [exact E|reflexivity].
Qed.
Lemma sim_frq_nb s s' : sim s s' -> frq_nb s = frq_nb s'.
Proof.
  intro H. pose proof (sim_frq s s' H) as E. unfold frq_nb.
  destruct (frq s) as [[k sh v o]|], (frq s') as [[k' sh' v' o']|]; cbn in E; try discriminate E; [|reflexivity].
  injection E as E1 E2. subst. reflexivity.
Qed.

Lemma install_sim g a b walls t d n :
  sim a b -> pnorm (install_brdf g a walls t d n) = pnorm (install_brdf g b walls t d n).
Proof.
  unfold sim. intro H.
  rewrite <- (install_brdf_norm g a), <- (install_brdf_norm g b), H. reflexivity.
Qed.

Lemma dflt_brdf_unfold g s1 :
  dflt_brdf g s1 =
  match o_dirs_in s1 with
  | Some _ => (ROk, s1)
  | None => install_brdf g (put FFreq (frq s1) s1) (seq 0 (g_nw g)) (T0 SDefTab [frq_nb s1]) 0 1
  end.
Proof.
  unfold dflt_brdf, frq_nb, frq. destruct (o_dirs_in s1); [reflexivity|]. cbv zeta.
  destruct (install_brdf _ _ _ _ _ _). reflexivity.
Qed.

Lemma dflt_brdf_sim g a b : sim a b -> pnorm (dflt_brdf g a) = pnorm (dflt_brdf g b).
Proof.
  intro H. rewrite !dflt_brdf_unfold.
  destruct (sim_dirs_in_some a b H) as [[C C']|(d & d' & C & C')]; rewrite C, C'.
  - rewrite (sim_frq_nb a b H). apply install_sim. apply sim_put; [apply sim_frq_nv, H|exact H].
  - apply pnorm_pair, H.
Qed.

Lemma dflt_att_unfold s2 :
  dflt_att s2 =
  match o_att s2 with
  | Some _ => s2
  | None => put FAtt (fresh KArrF [frq_nb s2] (T0 SZeroAtt [frq_nb s2])) (put FFreq (frq s2) s2)
  end.
Proof. reflexivity. Qed.

Lemma dflt_att_sim a b : sim a b -> sim (dflt_att a) (dflt_att b).
Proof.
  intro H. rewrite !dflt_att_unfold.
  pose proof (sim_shv FAtt a b eq_refl H) as E. cbn [get] in E.
  destruct (o_att a) as [x|], (o_att b) as [y|]; cbn in E; try discriminate E; [exact H|].
  rewrite (sim_frq_nb a b H). apply sim_put_same. apply sim_put; [apply sim_frq_nv, H|exact H].
Qed.

Lemma finish_sim g src tg a b : sim a b -> pnorm (finish g src tg a) = pnorm (finish g src tg b).
Proof.
  intro H. unfold finish. cbv zeta.
  rewrite (sim_nbins a b H), (sim_read_mats a b true H).
  pose proof (sim_optv FAtt a b eq_refl H) as Ed; cbn [get] in Ed; rewrite Ed; clear Ed.
  destruct (read_mats b true); [apply pnorm_pair; exact H|].
  destruct (tab_fits _ _ _ _); apply pnorm_pair; repeat apply sim_put_same; exact H.
Qed.

Lemma after_dflt_sim g src tg r r' :
  pnorm r = pnorm r' -> pnorm (after_dflt g src tg r) = pnorm (after_dflt g src tg r').
Proof.
  intro H. destruct (pnorm_inv r r' H) as [Hc Hs]. destruct r as [c a], r' as [c' b].
  cbn [fst snd] in Hc, Hs. subst c'. unfold after_dflt.
  destruct c; try (apply pnorm_pair; exact Hs).
  apply finish_sim, dflt_att_sim, Hs.
Qed.

Lemma init_source_sim g s s' src :
  sim s s' -> pnorm (oinit_source g s src) = pnorm (oinit_source g s' src).
Proof.
  intro H. rewrite !init_factor, (sim_tgeo s s' H).
  apply after_dflt_sim, dflt_brdf_sim, sim_put_same, H.
Qed.

(** ** every call except the direct-sound collect *)
Theorem bisim_step_full g s s' o :
  direct_collect o = false -> sim s s' -> normr (ostep g s o) = normr (ostep g s' o).
Proof.
  intros Hd H.
  destruct o as [walls tab dirs n fid nb negz|aid fid nb| |src|tid ns order recalc|recv direct| |].
  - apply bisim_step; [reflexivity|exact H].
  - apply bisim_step; [reflexivity|exact H].
  - cbn [ostep]. apply pnorm_normr, bake_sim, H.
  - cbn [ostep]. apply pnorm_normr, init_source_sim, H.
  - cbn [ostep]. apply pnorm_normr, exchange_sim, H.
  - destruct direct; [discriminate Hd|]. cbn [ostep].
    rewrite (collect_sim g s s' recv H). destruct (ocollect g s' recv false) as [c ob].
    unfold normr, oclass_of, ostate_of, oobs_of. cbn [fst snd]. unfold sim in H. rewrite H. reflexivity.
  - apply bisim_step; [reflexivity|exact H].
  - apply bisim_step; [reflexivity|exact H].
Qed.

(** every continuation without direct-sound collects: equal classes and observations, similar ends *)
Theorem bisim_trace_full g h : forall s s',
  forallb (fun o => negb (direct_collect o)) h = true -> sim s s' ->
  map (fun r => (oclass_of r, oobs_of r)) (otrace g s h) = map (fun r => (oclass_of r, oobs_of r)) (otrace g s' h) /\
  sim (orun g s h) (orun g s' h).
Proof.
  induction h as [|o r IH]; intros s s' Hc H; [split; [reflexivity|exact H]|].
  cbn [forallb] in Hc. apply andb_prop in Hc. destruct Hc as [Ho Hr].
  apply negb_true_iff in Ho.
  pose proof (bisim_step_full g s s' o Ho H) as E. unfold normr in E.
  pose proof (f_equal (fun x => fst (fst x)) E) as E1. pose proof (f_equal (fun x => snd (fst x)) E) as E2.
  pose proof (f_equal snd E) as E3. cbn [fst snd] in E1, E2, E3.
  destruct (IH (ostate_of (ostep g s o)) (ostate_of (ostep g s' o)) Hr E2) as [T S].
  split.
  - cbn [otrace map]. rewrite E1, E3. f_equal. exact T.
  - exact S.
Qed.

(** the similar states of the whole trace, not only of its end *)
Theorem bisim_trace_states g h : forall s s',
  forallb (fun o => negb (direct_collect o)) h = true -> sim s s' ->
  map normr (otrace g s h) = map normr (otrace g s' h).
Proof.
  induction h as [|o r IH]; intros s s' Hc H; [reflexivity|].
  cbn [forallb] in Hc. apply andb_prop in Hc. destruct Hc as [Ho Hr].
  apply negb_true_iff in Ho.
  pose proof (bisim_step_full g s s' o Ho H) as E.
  cbn [otrace map]. rewrite E. f_equal. apply IH; [exact Hr|].
  unfold normr in E. exact (f_equal (fun x => snd (fst x)) E).
Qed.
