(** * The pipeline model ([Scene.patch_hist]) computes the L0 recursion whose parameters
    are read off the scene: transfer factor = form factor x attenuation x pi*BRDF of the
    receiving wall, delays = centre-to-centre travel-time bins. *)
From Coq Require Import List Arith Bool Ring Lia.
Import ListNotations.
From SV Require Import Base.Ops Base.Arr Base.Sums Model.Vec3 Model.Exchange Model.Scene
  Spec.ExchangeSpec Proofs.ExchangeL0 Proofs.ExchangeRefine.

(** argmin returns a valid index *)
Lemma argmin_from_lt {A} (lt : A -> A -> bool) (l : list A) : forall idx best bestv,
  best < idx -> argmin_from lt l idx best bestv < idx + length l.
Proof.
  induction l as [|x r IH]; intros idx best bestv H; simpl; [lia|].
  destruct (lt x bestv).
  - specialize (IH (S idx) idx x). lia.
  - specialize (IH (S idx) best bestv). lia.
Qed.
Lemma argmin_lt {A} (lt : A -> A -> bool) (l : list A) : l <> [] -> argmin lt l < length l.
Proof.
  destruct l as [|x r]; [congruence|]. intros _. simpl.
  pose proof (argmin_from_lt lt r 1 0 x). lia.
Qed.

(** extensionality of the L0 recursion on the indices that are actually used *)
Section EExt.
  Context {T : Type} {O : Ops T}.
  Variable P : list (nat * nat).
  Variables (delta delta' : nat -> nat -> nat) (c c' : nat -> nat -> nat -> nat -> T)
            (out out' : nat -> nat -> nat) (delta0 delta0' : nat -> nat) (e0 e0' : nat -> nat -> nat -> T).
  Variables (Rj Rd Rb : nat -> Prop).
  Hypothesis Hsrc : forall i j, In (i, j) P -> Rj i /\ Rd (out i j).
  Hypothesis Hdelta : forall i j, In (i, j) P -> delta i j = delta' i j.
  Hypothesis Hout : forall i j, In (i, j) P -> out i j = out' i j.
  Hypothesis Hc : forall i j d b, In (i, j) P -> Rd d -> Rb b -> c i j d b = c' i j d b.
  Hypothesis Hd0 : forall j, Rj j -> delta0 j = delta0' j.
  Hypothesis He0 : forall j d b, Rj j -> Rd d -> Rb b -> e0 j d b = e0' j d b.

  Lemma E_ext k : forall j d b t, Rj j -> Rd d -> Rb b ->
    E P delta c out delta0 e0 k j d b t = E P delta' c' out' delta0' e0' k j d b t.
  Proof.
    induction k as [|k IH]; intros j d b t Hj Hd Hb; simpl.
    - unfold E0. rewrite Hd0, He0 by assumption. reflexivity.
    - apply sumf_ext. intros p Hp. unfold into in Hp. apply filter_In in Hp.
      destruct Hp as [HpP Hpj]. apply Nat.eqb_eq in Hpj. destruct p as [i j']. simpl in Hpj. subst j'.
      simpl fst. destruct (Hsrc i j HpP) as [Hi Ho].
      rewrite <- (Hdelta i j HpP), <- (Hout i j HpP). unfold shiftf.
      destruct (t <? delta i j); [reflexivity|].
      rewrite (Hc i j d b HpP Hd Hb). f_equal. now apply IH.
  Qed.
End EExt.

Section SceneRefine.
  Context {T : Type} {O : Ops T}.
  Variable sc : @scene T.

  Definition scene_delta (tm : @timing T) (i j : nat) : nat :=
    delay_floor (dist sc i j) (t_c tm) (t_dt tm).
  Definition scene_delta0 (tm : @timing T) (s : @source T) (j : nat) : nat :=
    delay_floor (src_dist sc s j) (t_c tm) (t_dt tm).

  (** shape conditions on the scene data *)
  Definition wf_scene : Prop :=
    (forall i j, get2b (s_visU sc) i j = true -> i < j) /\
    (forall i, i < s_np sc -> length (out_dirs sc (wall sc i)) = s_nd sc) /\
    0 < s_nd sc.

  Lemma in_vis_pairs i j :
    In (i, j) (vis_pairs sc) <-> i < s_np sc /\ j < s_np sc /\ get2b (s_visU sc) i j = true.
  Proof.
    unfold vis_pairs. rewrite in_flat_map. split.
    - intros (i' & Hi' & H). apply in_seq in Hi'. apply in_flat_map in H.
      destruct H as (j' & Hj' & H). apply in_seq in Hj'.
      destruct (get2b (s_visU sc) i' j') eqn:E; [|destruct H].
      destruct H as [H|[]]. injection H as -> ->. repeat split; [lia|lia|exact E].
    - intros (Hi & Hj & Hv). exists i. split; [apply in_seq; lia|].
      apply in_flat_map. exists j. split; [apply in_seq; lia|]. rewrite Hv. now left.
  Qed.

  Lemma in_directed (l : list (nat * nat)) i j :
    In (i, j) (directed l) <-> In (i, j) l \/ In (j, i) l.
  Proof.
    unfold directed. rewrite in_flat_map. split.
    - intros ((a, b) & Hin & H). simpl in H. destruct H as [H|[H|[]]]; injection H as <- <-; auto.
    - intros [H|H]; [exists (i, j)|exists (j, i)]; (split; [exact H|simpl; auto]).
  Qed.

  Lemma directed_pairs_ok i j : wf_scene -> In (i, j) (directed (vis_pairs sc)) ->
    i < s_np sc /\ j < s_np sc /\ vis_sym sc i j = true.
  Proof.
    intros (Hup & _) H. apply in_directed in H. unfold vis_sym.
    destruct H as [H|H]; apply in_vis_pairs in H; destruct H as (H1 & H2 & Hv);
      pose proof (Hup _ _ Hv) as Hlt.
    - destruct (Nat.ltb_spec i j); [auto|lia].
    - destruct (Nat.ltb_spec i j); [lia|auto].
  Qed.

  Lemma get2n_tab n m (f : nat -> nat -> nat) i j : i < n -> j < m ->
    get2n (tab n (fun i => tab m (fun j => f i j))) i j = f i j.
  Proof.
    intros Hi Hj. unfold get2n, nthn, nthl. now rewrite (nth_tab n _ [] i Hi), (nth_tab m _ 0 j Hj).
  Qed.

  Lemma p2o_entry i j : i < s_np sc -> j < s_np sc ->
    get2n (p2o sc) i j = if vis_sym sc i j then out_index sc i j else s_nd sc.
  Proof. intros. unfold p2o. now rewrite get2n_tab. Qed.

  Lemma out_index_lt i j : wf_scene -> i < s_np sc -> out_index sc i j < s_nd sc.
  Proof.
    intros (_ & Hlen & Hpos) Hi. unfold out_index, nearest.
    rewrite <- (Hlen i Hi). rewrite <- (map_length (fun d => vdist2 d (vnormalize (vsub (center sc j) (center sc i))))).
    apply argmin_lt. intros E. apply (f_equal (@length _)) in E. rewrite map_length, (Hlen i Hi) in E.
    simpl in E. lia.
  Qed.

  Lemma tilde_entry_get i j d b : i < s_np sc -> j < s_np sc -> d < s_nd sc -> b < s_nb sc ->
    get4 (tilde sc) i j d b = tilde_entry sc i j d b.
  Proof. intros. unfold tilde. now rewrite get4_tab. Qed.

  Lemma tilde_visible i j d b :
    i < s_np sc -> j < s_np sc -> d < s_nd sc -> b < s_nb sc -> vis_sym sc i j = true ->
    get4 (tilde sc) i j d b =
    ((ff_full sc i j * attn sc b (dist sc i j)) * beta sc (wall sc j) (in_index sc i j) d b)%T.
  Proof. intros Hi Hj Hd Hb Hv. rewrite tilde_entry_get by assumption. unfold tilde_entry. now rewrite Hv. Qed.

  Lemma tilde_invisible i j d b : vis_sym sc i j = false -> get4 (tilde sc) i j d b = 0%T.
  Proof.
    intros Hv.
    destruct (Nat.lt_ge_cases i (s_np sc)) as [Hi|Hi];
    [destruct (Nat.lt_ge_cases j (s_np sc)) as [Hj|Hj];
     [destruct (Nat.lt_ge_cases d (s_nd sc)) as [Hd|Hd];
      [destruct (Nat.lt_ge_cases b (s_nb sc)) as [Hb|Hb]|]|]|].
    - rewrite tilde_entry_get by assumption. unfold tilde_entry. now rewrite Hv.
    - unfold tilde. now apply get4_tab_out_t.
    - unfold tilde, get4, nthT, nthl. rewrite (nth_tab _ _ [] i Hi), (nth_tab _ _ [] j Hj).
      rewrite (nth_tab_out _ _ [] d Hd). now destruct b.
    - unfold tilde, get4, nthT, nthl. rewrite (nth_tab _ _ [] i Hi).
      rewrite (nth_tab_out _ _ [] j Hj). now destruct d, b.
    - unfold tilde, get4, nthT, nthl. rewrite (nth_tab_out _ _ [] i Hi). now destruct j, d, b.
  Qed.

  Lemma get3_tab n1 n2 n3 (f : nat -> nat -> nat -> T) i j k : i < n1 -> j < n2 -> k < n3 ->
    get3 (tab n1 (fun i => tab n2 (fun j => tab n3 (fun k => f i j k)))) i j k = f i j k.
  Proof.
    intros H1 H2 H3. unfold get3, nthT, nthl.
    now rewrite (nth_tab n1 _ [] i H1), (nth_tab n2 _ [] j H2), (nth_tab n3 _ 0%T k H3).
  Qed.

  Section WithRing.
    Context {RL : RingLaws T}.
    Add Ring TRingSR : (@ring_th T O RL).

    (** the pipeline model is the L0 recursion on the scene's own parameters *)
    Theorem patch_hist_refines tm s K j d b t :
      wf_scene -> j < s_np sc -> d < s_nd sc -> b < s_nb sc -> t < n_samples tm ->
      get4 (patch_hist sc tm s K) j d b t =
      Tot (directed (vis_pairs sc)) (scene_delta tm) (tilde_entry sc) (out_index sc)
          (scene_delta0 tm s) (e0dir_entry sc s) K j d b t.
    Proof.
      intros WF Hj Hd Hb Ht. unfold patch_hist.
      rewrite (exchange_refines (directed (vis_pairs sc)) (s_np sc) (s_nd sc) (s_nb sc) (n_samples tm)
                 (tilde sc) (p2o sc) (delay_matrix sc tm) (e0dir sc s) (delay0 sc tm s)); try assumption; try reflexivity.
      - unfold ExchangeSpec.Tot. apply sumf_ext. intros k _.
        apply (E_ext (directed (vis_pairs sc)) _ _ _ _ _ _ _ _ _ _
                 (fun j => j < s_np sc) (fun d => d < s_nd sc) (fun b => b < s_nb sc)); try assumption.
        + intros i j' Hin. destruct (directed_pairs_ok i j' WF Hin) as (Hi & Hj' & Hv).
          split; [exact Hi|]. unfold out_of. rewrite p2o_entry by assumption. rewrite Hv.
          now apply out_index_lt.
        + intros i j' Hin. destruct (directed_pairs_ok i j' WF Hin) as (Hi & Hj' & Hv).
          unfold delta_of, delay_matrix, scene_delta. now rewrite get2n_tab.
        + intros i j' Hin. destruct (directed_pairs_ok i j' WF Hin) as (Hi & Hj' & Hv).
          unfold out_of. rewrite p2o_entry by assumption. now rewrite Hv.
        + intros i j' d' b' Hin Hd' Hb'. destruct (directed_pairs_ok i j' WF Hin) as (Hi & Hj' & Hv).
          unfold c_of. now apply tilde_entry_get.
        + intros j' Hj'. unfold delta0_of, delay0, scene_delta0, nthn. now rewrite (nth_tab _ _ 0 j' Hj').
        + intros j' d' b' Hj' Hd' Hb'. unfold e0_of, e0dir. now rewrite get3_tab.
      - intros i j' Hin. destruct (directed_pairs_ok i j' WF Hin) as (Hi & Hj' & Hv).
        repeat split; try assumption. rewrite p2o_entry by assumption. rewrite Hv. now apply out_index_lt.
    Qed.

    (** a wall whose table vanishes (absorption 1) neither receives source energy into its
        outgoing slots nor accepts energy from any patch *)
    Theorem absorbing_wall_zero s j d b :
      (forall a, beta sc (wall sc j) a d b = 0%T) ->
      e0dir_entry sc s j d b = 0%T /\ forall i, tilde_entry sc i j d b = 0%T.
    Proof.
      intros Hz. split.
      - unfold e0dir_entry. rewrite Hz. destruct (src_dirfac s); ring.
      - intros i. unfold tilde_entry. destruct (vis_sym sc i j); [rewrite Hz; ring|reflexivity].
    Qed.
  End WithRing.
End SceneRefine.
