(** * C09: source/receiver reciprocity of the discretised radiosity recursion
    (diffuse walls: one outgoing slot), by the Green-function argument:
    first-leg recursion = last-leg recursion, hence the k-leg kernel is symmetric
    up to the area weights, hence A->B equals B->A bin for bin. *)
From Coq Require Import List Arith Bool Ring Lia.
Import ListNotations.
From SV Require Import Base.Ops Base.Sums Spec.ExchangeSpec Proofs.ExchangeL0.

Section Recip.
  Context {T : Type} {O : Ops T} {RL : RingLaws T}.
  Add Ring TRingRp : (@ring_th T O RL).

  (** ** shift algebra *)
  Lemma shiftf_scale d a (h : nat -> T) t : shiftf d (fun u => (a * h u)%T) t = (a * shiftf d h t)%T.
  Proof. unfold shiftf. destruct (t <? d); ring. Qed.
  Lemma shiftf_scale_r d a (h : nat -> T) t : (shiftf d h t * a)%T = shiftf d (fun u => (h u * a)%T) t.
  Proof. unfold shiftf. destruct (t <? d); ring. Qed.
  Lemma shiftf_sum {A} d (l : list A) (f : A -> nat -> T) t :
    shiftf d (fun u => sumf l (fun m => f m u)) t = sumf l (fun m => shiftf d (f m) t).
  Proof. unfold shiftf. destruct (t <? d); [symmetry; apply sumf_zero|reflexivity]. Qed.
  Lemma shiftf_shiftf a b (h : nat -> T) t : shiftf a (shiftf b h) t = shiftf (a + b) h t.
  Proof.
    unfold shiftf. destruct (Nat.ltb_spec t a), (Nat.ltb_spec t (a + b)); try lia; try reflexivity.
    - destruct (Nat.ltb_spec (t - a) b); [reflexivity|lia].
    - destruct (Nat.ltb_spec (t - a) b); [lia|]. f_equal. lia.
  Qed.
  Lemma shiftf_comm a b (h : nat -> T) t : shiftf a (shiftf b h) t = shiftf b (shiftf a h) t.
  Proof. rewrite !shiftf_shiftf. now rewrite Nat.add_comm. Qed.
  Lemma shiftf_ext_all d (g h : nat -> T) t : (forall u, g u = h u) -> shiftf d g t = shiftf d h t.
  Proof. intros H. apply shiftf_ext. intros; apply H. Qed.
  Lemma shiftf_impulse d (a : T) t :
    shiftf d (fun u => if u =? 0 then a else 0%T) t = if t =? d then a else 0%T.
  Proof.
    unfold shiftf. destruct (Nat.ltb_spec t d), (Nat.eqb_spec t d); try lia; try reflexivity.
    - subst. now rewrite Nat.sub_diag.
    - destruct (Nat.eqb_spec (t - d) 0); [lia|reflexivity].
  Qed.

  (** two delayed, scaled stages commute *)
  Lemma shiftf_stage_comm a b (c1 c2 : T) (h : nat -> T) t :
    shiftf a (fun v => (c1 * shiftf b (fun w => (c2 * h w)%T) v)%T) t =
    shiftf b (fun w => (c2 * shiftf a (fun v => (c1 * h v)%T) w)%T) t.
  Proof.
    unfold shiftf.
    destruct (Nat.ltb_spec t a), (Nat.ltb_spec t b); try ring;
      repeat match goal with |- context [?x <? ?y] => destruct (Nat.ltb_spec x y); try lia end; try ring.
    replace (t - a - b) with (t - b - a) by lia. ring.
  Qed.
  (** a delayed, scaled stage distributes over a finite sum *)
  Lemma shiftf_stage_sum {A} d (c : T) (l : list A) (f : A -> nat -> T) t :
    shiftf d (fun v => (c * sumf l (fun n => f n v))%T) t =
    sumf l (fun n => shiftf d (fun v => (c * f n v)%T) t).
  Proof.
    unfold shiftf. destruct (t <? d); [symmetry; apply sumf_zero|]. now rewrite sumf_scale.
  Qed.

  (** ** the scene in matrix form *)
  Variable ps : list nat.                  (* the patches *)
  Hypothesis ps_nodup : NoDup ps.
  Variable G : nat -> nat -> T.            (* form factor x attenuation of the leg i -> j; 0 if invisible *)
  Variable rho : nat -> T.                 (* reflectance of the wall of patch j *)
  Variable area ia : nat -> T.             (* patch area and its inverse *)
  Variable delta : nat -> nat -> nat.      (* travel-time bins *)
  Hypothesis area_inv : forall i, In i ps -> (area i * ia i)%T = 1%T.
  Hypothesis delta_sym : forall i j, delta i j = delta j i.
  (** form-factor reciprocity A_i F_ij = A_j F_ji with symmetric attenuation, written
      without division *)
  Hypothesis G_recip : forall i j, In i ps -> In j ps -> (G i j * ia j)%T = (G j i * ia i)%T.

  Definition fam := nat -> nat -> T.       (* patch -> time -> energy *)
  (** one reflection order; the RECEIVING patch j's reflectance multiplies *)
  Definition stepM (u : fam) : fam :=
    fun j t => sumf ps (fun m => shiftf (delta m j) (fun v => ((G m j * rho j) * u m v)%T) t).
  Fixpoint iterM (k : nat) (u : fam) : fam := match k with 0 => u | S k' => stepM (iterM k' u) end.

  (** Green function: unit source energy entering patch i at time 0 *)
  Definition unit_at (i : nat) : fam := fun m t => if (m =? i) && (t =? 0) then rho i else 0%T.
  Definition Gam (k i : nat) : fam := iterM k (unit_at i).

  Lemma stepM_ext u u' j t : (forall m v, In m ps -> u m v = u' m v) -> stepM u j t = stepM u' j t.
  Proof.
    intros H. unfold stepM. apply sumf_ext. intros m Hm. apply shiftf_ext_all. intros v. now rewrite H.
  Qed.

  (** first-leg recursion *)
  Lemma Gam_first_leg k : forall i j t, In i ps -> In j ps ->
    Gam (S k) i j t = sumf ps (fun m => shiftf (delta i m) (fun v => ((rho i * G i m) * Gam k m j v)%T) t).
  Proof.
    induction k as [|k IH]; intros i j t Hi Hj.
    - unfold Gam. simpl. unfold stepM, unit_at.
      (* left: only m = i contributes; right: only m = j contributes *)
      rewrite (sumf_ext ps _ (fun m => if i =? m then
                 shiftf (delta i j) (fun v => if v =? 0 then ((G i j * rho j) * rho i)%T else 0%T) t else 0%T)).
      2:{ intros m _. destruct (Nat.eqb_spec i m) as [<-|Hne].
          - apply shiftf_ext_all. intros v. cbv beta. rewrite ?Nat.eqb_refl. simpl. destruct (v =? 0); ring.
          - unfold shiftf. destruct (t <? delta m j); [reflexivity|].
            destruct (Nat.eqb_spec m i); [congruence|]. simpl. ring. }
      rewrite sumf_pick by assumption.
      rewrite (sumf_ext ps _ (fun m => if j =? m then
                 shiftf (delta i j) (fun v => if v =? 0 then ((rho i * G i j) * rho j)%T else 0%T) t else 0%T)).
      2:{ intros m _. destruct (Nat.eqb_spec j m) as [<-|Hne].
          - apply shiftf_ext_all. intros v. cbv beta. rewrite ?Nat.eqb_refl. simpl. destruct (v =? 0); ring.
          - unfold shiftf. destruct (t <? delta i m); [reflexivity|].
            destruct (Nat.eqb_spec j m); [congruence|]. simpl. ring. }
      rewrite sumf_pick by assumption.
      apply shiftf_ext_all. intros v. destruct (v =? 0); ring.
    - change (Gam (S (S k)) i j t) with (stepM (Gam (S k) i) j t). unfold stepM.
      transitivity (sumf ps (fun m => sumf ps (fun n =>
        shiftf (delta m j) (fun v => ((G m j * rho j) *
          shiftf (delta i n) (fun w => ((rho i * G i n) * Gam k n m w)%T) v)%T) t))).
      { apply sumf_ext. intros m Hm. rewrite <- shiftf_stage_sum.
        apply shiftf_ext_all. intros v. f_equal. now apply IH. }
      transitivity (sumf ps (fun m => sumf ps (fun n =>
        shiftf (delta i n) (fun w => ((rho i * G i n) *
          shiftf (delta m j) (fun v => ((G m j * rho j) * Gam k n m v)%T) w)%T) t))).
      { apply sumf_ext. intros m _. apply sumf_ext. intros n _. apply shiftf_stage_comm. }
      rewrite sumf_swap. apply sumf_ext. intros n _. rewrite <- shiftf_stage_sum. reflexivity.
  Qed.

  (** the k-leg kernel is symmetric up to the area weights *)
  Lemma Gam_sym k : forall i j t, In i ps -> In j ps ->
    (Gam k i j t * ia j)%T = (Gam k j i t * ia i)%T.
  Proof.
    induction k as [|k IH]; intros i j t Hi Hj.
    - unfold Gam. simpl. unfold unit_at. rewrite (Nat.eqb_sym i j).
      destruct (Nat.eqb_spec j i) as [->|]; simpl; [reflexivity|ring].
    - rewrite (Gam_first_leg k j i t Hj Hi).
      change (Gam (S k) i j t) with (stepM (Gam k i) j t). unfold stepM.
      rewrite <- !sumf_scale_r. apply sumf_ext. intros m Hm.
      rewrite !shiftf_scale_r. rewrite (delta_sym m j).
      apply shiftf_ext_all. intros v.
      (* Gam k i m = Gam k m i * ia i * area m  (IH and area m * ia m = 1) *)
      assert (E : Gam k i m v = (Gam k m i v * ia i * area m)%T).
      { transitivity ((Gam k i m v * ia m) * area m)%T.
        - transitivity (Gam k i m v * (area m * ia m))%T; [rewrite (area_inv m Hm); ring|ring].
        - now rewrite (IH i m v Hi Hm). }
      rewrite E.
      (* G m j * ia j = G j m * ia m *)
      transitivity ((rho j * (G m j * ia j)) * Gam k m i v * ia i * area m)%T; [ring|].
      rewrite (G_recip m j Hm Hj).
      transitivity ((rho j * G j m) * Gam k m i v * ia i * (area m * ia m))%T; [ring|].
      rewrite (area_inv m Hm). ring.
  Qed.

  (** ** source and receiver families *)
  (** a point source A deposits [sA i * rho i] on patch i in bin [fA i] *)
  Definition src_fam (sA : nat -> T) (fA : nat -> nat) : fam :=
    fun m t => if t =? fA m then (sA m * rho m)%T else 0%T.
  Definition X (sA : nat -> T) (fA : nat -> nat) (k : nat) : fam := iterM k (src_fam sA fA).

  Lemma superposition sA fA k : forall j t, In j ps ->
    X sA fA k j t = sumf ps (fun i => (sA i * shiftf (fA i) (Gam k i j) t)%T).
  Proof.
    induction k as [|k IH]; intros j t Hj.
    - unfold X, Gam. simpl. unfold src_fam, unit_at.
      rewrite (sumf_ext ps _ (fun i => if j =? i then (if t =? fA j then (sA j * rho j)%T else 0%T) else 0%T)).
      + now rewrite sumf_pick.
      + intros i _. destruct (Nat.eqb_spec j i) as [<-|Hne].
        * rewrite (shiftf_ext_all _ _ (fun u => if u =? 0 then rho j else 0%T)) by (intros u; reflexivity).
          rewrite shiftf_impulse. destruct (t =? fA j); ring.
        * rewrite (shiftf_ext_all _ _ (fun u => 0%T)) by (intros u; reflexivity).
          unfold shiftf. destruct (t <? fA i); ring.
    - change (X sA fA (S k) j t) with (stepM (X sA fA k) j t). unfold stepM.
      transitivity (sumf ps (fun m => sumf ps (fun i =>
        shiftf (delta m j) (fun v => ((G m j * rho j) *
          shiftf (fA i) (fun w => (sA i * Gam k i m w)%T) v)%T) t))).
      { apply sumf_ext. intros m Hm. rewrite <- shiftf_stage_sum.
        apply shiftf_ext_all. intros v. f_equal. rewrite IH by exact Hm.
        apply sumf_ext. intros i _. now rewrite shiftf_scale. }
      transitivity (sumf ps (fun m => sumf ps (fun i =>
        shiftf (fA i) (fun w => (sA i *
          shiftf (delta m j) (fun v => ((G m j * rho j) * Gam k i m v)%T) w)%T) t))).
      { apply sumf_ext. intros m _. apply sumf_ext. intros i _. apply shiftf_stage_comm. }
      rewrite sumf_swap. apply sumf_ext. intros i _. rewrite <- shiftf_stage_sum.
      rewrite shiftf_scale. reflexivity.
  Qed.

  (** the energy-time curve at receiver B: patch histograms weighted by [rB j = sB j * ia j]
      (solid angle / area) and delayed by the patch->receiver bins [gB j] *)
  Definition response (sA : nat -> T) (fA : nat -> nat) (sB : nat -> T) (gB : nat -> nat) (k : nat) : nat -> T :=
    fun t => sumf ps (fun j => ((sB j * ia j) * shiftf (gB j) (X sA fA k j) t)%T).
  (** summed over reflection orders 0..K *)
  Definition response_upto sA fA sB gB (K : nat) : nat -> T :=
    fun t => sumf (seq 0 (S K)) (fun k => response sA fA sB gB k t).

  (** expansion over pairs of patches *)
  Lemma response_expand sA fA sB gB k t :
    response sA fA sB gB k t =
    sumf ps (fun j => sumf ps (fun i =>
      ((sA i * sB j) * shiftf (fA i + gB j) (fun u => (Gam k i j u * ia j)%T) t)%T)).
  Proof.
    unfold response. apply sumf_ext. intros j Hj.
    transitivity ((sB j * ia j) * sumf ps (fun i => (sA i * shiftf (gB j) (shiftf (fA i) (Gam k i j)) t)))%T.
    { f_equal.
      rewrite (shiftf_ext_all _ (X sA fA k j)
                 (fun v => sumf ps (fun i => (sA i * shiftf (fA i) (Gam k i j) v)%T))).
      - rewrite shiftf_sum. apply sumf_ext. intros i _. now rewrite shiftf_scale.
      - intros v. now apply superposition. }
    rewrite <- sumf_scale. apply sumf_ext. intros i _.
    rewrite shiftf_shiftf, (Nat.add_comm (gB j)).
    rewrite (shiftf_ext_all _ (fun u => (Gam k i j u * ia j)%T) (fun u => (ia j * Gam k i j u)%T)) by (intros; ring).
    rewrite shiftf_scale. ring.
  Qed.

  (** C09: exchanging source and receiver leaves the curve unchanged, bin for bin, for every
      order -- provided both points bin every leg the same way in both roles up to the constant
      one-bin offset between truncation (source leg) and ceiling (receiver leg) *)
  Theorem reciprocity sA fA gA sB fB gB k t :
    (forall i, In i ps -> gA i = S (fA i)) -> (forall j, In j ps -> gB j = S (fB j)) ->
    response sA fA sB gB k t = response sB fB sA gA k t.
  Proof.
    intros HA HB. rewrite !response_expand. rewrite sumf_swap.
    apply sumf_ext. intros i Hi. apply sumf_ext. intros j Hj.
    rewrite (HA i Hi), (HB j Hj).
    replace (fB j + S (fA i)) with (fA i + S (fB j)) by lia.
    rewrite (shiftf_ext_all _ (fun u => (Gam k j i u * ia i)%T) (fun u => (Gam k i j u * ia j)%T)).
    - ring.
    - intros u. symmetry. now apply Gam_sym.
  Qed.

  Theorem reciprocity_upto sA fA gA sB fB gB K t :
    (forall i, In i ps -> gA i = S (fA i)) -> (forall j, In j ps -> gB j = S (fB j)) ->
    response_upto sA fA sB gB K t = response_upto sB fB sA gA K t.
  Proof.
    intros HA HB. unfold response_upto. apply sumf_ext. intros k _. now apply reciprocity.
  Qed.
End Recip.
