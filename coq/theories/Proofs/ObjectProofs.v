(** * Proofs about the L2 object model: round trip, bisimulation, read sets (C15). *)
From Coq Require Import List Arith Bool Lia.
Import ListNotations.
From SV Require Import Model.Object Spec.ObjectSpec.

Ltac dmatch :=
  repeat match goal with
         | |- context [match ?x with _ => _ end] => is_var x; destruct x
         end.

Lemma nk_idem k : nk (nk k) = nk k.
Proof. destruct k; reflexivity. Qed.

(** [to_dict] does not see the normalisation *)
Lemma enc_nd b d : enc (option_map (nd b) d) = enc d.
Proof. destruct d as [[k sh v o]|]; [destruct k, b|]; reflexivity. Qed.

Lemma to_dict_norm s : to_dict (norm s) = to_dict s.
Proof.
  destruct s; unfold to_dict, norm, omap; cbn -[enc nd option_map].
  rewrite !enc_nd. reflexivity.
Qed.

Lemma restore_norm g b s : restore g b (norm s) = restore g b s.
Proof. unfold restore. rewrite to_dict_norm. reflexivity. Qed.

(** ** algebra of [norm] with projections and [put] *)
Definition nv (f : field) (v : option desc) : option desc :=
  if serialised f then option_map (nd (is_dirs f)) v else None.

Lemma norm_put f v s : norm (put f v s) = put f (nv f v) (norm s).
Proof. destruct s, f; reflexivity. Qed.

Lemma nd_idem b d : nd b (nd b d) = nd b d.
Proof. destruct d as [k sh v o], b; unfold nd; cbn; rewrite ?nk_idem; reflexivity. Qed.
Lemma omnd_idem b d : option_map (nd b) (option_map (nd b) d) = option_map (nd b) d.
Proof. destruct d; cbn; [rewrite nd_idem|]; reflexivity. Qed.
Lemma norm_norm s : norm (norm s) = norm s.
Proof. destruct s; unfold norm, omap; cbn -[nd option_map]. rewrite !omnd_idem. reflexivity. Qed.
Lemma nv_idem f v : nv f (nv f v) = nv f v.
Proof. unfold nv. destruct (serialised f); [apply omnd_idem|reflexivity]. Qed.

Lemma pn_o_walls_points s : o_walls_points (norm s) = option_map (nd false) (o_walls_points s).
Proof. destruct s; reflexivity. Qed.
Lemma pn_o_walls_normal s : o_walls_normal (norm s) = option_map (nd false) (o_walls_normal s).
Proof. destruct s; reflexivity. Qed.
Lemma pn_o_walls_up s : o_walls_up (norm s) = option_map (nd false) (o_walls_up s).
Proof. destruct s; reflexivity. Qed.
Lemma pn_o_patches_points s : o_patches_points (norm s) = option_map (nd false) (o_patches_points s).
Proof. destruct s; reflexivity. Qed.
Lemma pn_o_n_patches s : o_n_patches (norm s) = option_map (nd false) (o_n_patches s).
Proof. destruct s; reflexivity. Qed.
Lemma pn_o_wall_ids s : o_wall_ids (norm s) = option_map (nd false) (o_wall_ids s).
Proof. destruct s; reflexivity. Qed.
Lemma pn_o_vis s : o_vis (norm s) = option_map (nd false) (o_vis s).
Proof. destruct s; reflexivity. Qed.
Lemma pn_o_pairs s : o_pairs (norm s) = option_map (nd false) (o_pairs s).
Proof. destruct s; reflexivity. Qed.
Lemma pn_o_ff s : o_ff (norm s) = option_map (nd false) (o_ff s).
Proof. destruct s; reflexivity. Qed.
Lemma pn_o_tilde s : o_tilde (norm s) = option_map (nd false) (o_tilde s).
Proof. destruct s; reflexivity. Qed.
Lemma pn_o_freq s : o_freq (norm s) = option_map (nd false) (o_freq s).
Proof. destruct s; reflexivity. Qed.
Lemma pn_o_brdf s : o_brdf (norm s) = option_map (nd false) (o_brdf s).
Proof. destruct s; reflexivity. Qed.
Lemma pn_o_brdf_index s : o_brdf_index (norm s) = option_map (nd false) (o_brdf_index s).
Proof. destruct s; reflexivity. Qed.
Lemma pn_o_dirs_in s : o_dirs_in (norm s) = option_map (nd true) (o_dirs_in s).
Proof. destruct s; reflexivity. Qed.
Lemma pn_o_dirs_out s : o_dirs_out (norm s) = option_map (nd true) (o_dirs_out s).
Proof. destruct s; reflexivity. Qed.
Lemma pn_o_p2o s : o_p2o (norm s) = option_map (nd false) (o_p2o s).
Proof. destruct s; reflexivity. Qed.
Lemma pn_o_att s : o_att (norm s) = option_map (nd false) (o_att s).
Proof. destruct s; reflexivity. Qed.
Lemma pn_o_c s : o_c (norm s) = option_map (nd false) (o_c s).
Proof. destruct s; reflexivity. Qed.
Lemma pn_o_dt s : o_dt (norm s) = option_map (nd false) (o_dt s).
Proof. destruct s; reflexivity. Qed.
Lemma pn_o_dur s : o_dur (norm s) = option_map (nd false) (o_dur s).
Proof. destruct s; reflexivity. Qed.
Lemma pn_o_dist s : o_dist (norm s) = option_map (nd false) (o_dist s).
Proof. destruct s; reflexivity. Qed.
Lemma pn_o_e0 s : o_e0 (norm s) = option_map (nd false) (o_e0 s).
Proof. destruct s; reflexivity. Qed.
Lemma pn_o_etc s : o_etc (norm s) = option_map (nd false) (o_etc s).
Proof. destruct s; reflexivity. Qed.
Lemma pn_o_source s : o_source (norm s) = None.
Proof. destruct s; reflexivity. Qed.
Lemma pn_o_source_vis s : o_source_vis (norm s) = None.
Proof. destruct s; reflexivity. Qed.
Global Hint Rewrite pn_o_walls_points pn_o_walls_normal pn_o_walls_up pn_o_patches_points pn_o_n_patches pn_o_wall_ids pn_o_vis pn_o_pairs pn_o_ff pn_o_tilde pn_o_freq pn_o_brdf pn_o_brdf_index pn_o_dirs_in pn_o_dirs_out pn_o_p2o pn_o_att pn_o_c pn_o_dt pn_o_dur pn_o_dist pn_o_e0 pn_o_etc pn_o_source pn_o_source_vis : onorm.

Lemma optv_nd b d : optv (option_map (nd b) d) = optv d.
Proof. destruct d; reflexivity. Qed.
Lemma tgeo_norm s : tgeo (norm s) = tgeo s.
Proof. unfold tgeo. autorewrite with onorm. rewrite !optv_nd. reflexivity. Qed.
Lemma nbins_norm s : nbins (norm s) = nbins s.
Proof. unfold nbins. autorewrite with onorm. destruct (o_freq s); reflexivity. Qed.
Lemma read_dirs_nd b d : read_dirs (nd b d) = read_dirs d.
Proof. reflexivity. Qed.
Lemma read_mats_norm s b : read_mats (norm s) b = read_mats s b.
Proof.
  unfold read_mats. autorewrite with onorm.
  destruct (o_dirs_in s) as [di|], (o_dirs_out s) as [do|]; cbn [option_map]; try reflexivity.
  rewrite !read_dirs_nd.
  destruct (o_brdf s), (o_brdf_index s); reflexivity.
Qed.

Definition pnorm (r : rclass * ostate) : rclass * ostate := (fst r, norm (snd r)).
Ltac npn := rewrite ?norm_put, ?norm_norm, ?nv_idem.

Lemma check_set_freq_norm s fid nb :
  option_map norm (check_set_freq (norm s) fid nb) = option_map norm (check_set_freq s fid nb).
Proof.
  unfold check_set_freq. autorewrite with onorm.
  destruct (o_freq s) as [f|]; cbn [option_map nd dsh dv].
  - destruct (_ && _); cbn [option_map]; npn; reflexivity.
  - npn. reflexivity.
Qed.

Lemma some_inj {A} (a b : A) : Some a = Some b -> a = b.
Proof. intro H; injection H; auto. Qed.

Lemma set_att_norm s aid fid nb :
  pnorm (oset_att (norm s) aid fid nb) = pnorm (oset_att s aid fid nb).
Proof.
  unfold pnorm, oset_att. pose proof (check_set_freq_norm s fid nb) as H.
  destruct (check_set_freq (norm s) fid nb), (check_set_freq s fid nb); cbn in H; try discriminate;
    cbn [fst snd]; npn; [|reflexivity].
  apply some_inj in H. rewrite H. reflexivity.
Qed.

(* projections after put *)
Lemma get_put f f' v s : get f (put f' v s) = if field_eqb f f' then v else get f s.
Proof. destruct s, f, f'; reflexivity. Qed.
Ltac toget :=
  change o_walls_points with (get FWallsPoints) in *;
  change o_walls_normal with (get FWallsNormal) in *;
  change o_walls_up with (get FWallsUp) in *;
  change o_patches_points with (get FPatchesPoints) in *;
  change o_n_patches with (get FNPatches) in *;
  change o_wall_ids with (get FWallIds) in *;
  change o_vis with (get FVis) in *;
  change o_pairs with (get FPairs) in *;
  change o_ff with (get FFF) in *;
  change o_tilde with (get FTilde) in *;
  change o_freq with (get FFreq) in *;
  change o_brdf with (get FBrdf) in *;
  change o_brdf_index with (get FBrdfIndex) in *;
  change o_dirs_in with (get FDirsIn) in *;
  change o_dirs_out with (get FDirsOut) in *;
  change o_p2o with (get FP2O) in *;
  change o_att with (get FAtt) in *;
  change o_c with (get FC) in *;
  change o_dt with (get FDt) in *;
  change o_dur with (get FDur) in *;
  change o_dist with (get FDist) in *;
  change o_e0 with (get FE0) in *;
  change o_etc with (get FEtc) in *;
  change o_source with (get FSource) in *;
  change o_source_vis with (get FSourceVis) in *.
Ltac gp := toget; rewrite ?get_put; cbn [field_eqb].
Lemma get_norm f s : get f (norm s) = nv f (get f s).
Proof. destruct s, f; reflexivity. Qed.

