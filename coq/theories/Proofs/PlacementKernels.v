(** * C17 (distances, delay bins, wall frames): rigid placement maps [x |-> M x + t] with
    [M^T M = I] (rotations, mirrorings, the 48 signed axis permutations) preserve every distance
    the pipeline uses, hence every delay bin; rescaling a wall's normal or up vector by a positive
    factor changes no BRDF direction. *)
From Coq Require Import List Arith Bool Ring Lia.
Import ListNotations.
From SV Require Import Base.Ops Base.Arr Base.Sums Model.Vec3 Model.Exchange Model.Scene Model.Frame
  Spec.Isometry Proofs.SceneRefine Proofs.ReceiverProofs Proofs.PtSimilarity Proofs.PlacementTranslate.

Section PlaceDefs.
  Context {T : Type} {O : Ops T}.
  (** the placement map [x |-> M x + t] *)
  Definition place (M : @mat T) (t : @vec T) (x : @vec T) : @vec T := vadd (mapply M x) t.
End PlaceDefs.

Section Distances.
  Context {T : Type} {O : Ops T} {RL : RingLaws T}.
  Add Ring TRingPlK : (@ring_th T O RL).

  Variable M : @mat T.
  Hypothesis HM : orthogonal M.
  Variable t : @vec T.

  Lemma madd (u v : @vec T) : mapply M (vadd u v) = vadd (mapply M u) (mapply M v).
  Proof.
    clear HM. destruct M as [[r1 r2] r3], r1 as [[? ?] ?], r2 as [[? ?] ?], r3 as [[? ?] ?],
      u as [[? ?] ?], v as [[? ?] ?].
    unfold mapply, mrow1, mrow2, mrow3, vadd, vdot, mkv, vx, vy, vz; simpl. f_equal; [f_equal|]; ring.
  Qed.

  Lemma place_sub (a b : @vec T) : vsub (place M t a) (place M t b) = mapply M (vsub a b).
  Proof. unfold place. now rewrite vsub_shift, <- msub. Qed.

  Lemma vnorm2_iso (v : @vec T) : vnorm2 (mapply M v) = vnorm2 v.
  Proof. unfold vnorm2. now apply mdot. Qed.

  (** distances *)
  Theorem place_dist (a b : @vec T) : vdist (place M t a) (place M t b) = vdist a b.
  Proof. unfold vdist, vnorm. now rewrite place_sub, vnorm2_iso. Qed.
  Theorem place_dist2 (a b : @vec T) : vdist2 (place M t a) (place M t b) = vdist2 a b.
  Proof.
    assert (E : forall x y : @vec T, vdist2 x y = vnorm2 (vsub x y)).
    { intros [[? ?] ?] [[? ?] ?]. unfold vdist2, vnorm2, vdot, vsub, mkv, vx, vy, vz; simpl. ring. }
    now rewrite !E, place_sub, vnorm2_iso.
  Qed.
  (** inner products of differences (angles, sides of planes) *)
  Theorem place_dot_sub (a b c d : @vec T) :
    vdot (vsub (place M t a) (place M t b)) (vsub (place M t c) (place M t d)) = vdot (vsub a b) (vsub c d).
  Proof. rewrite !place_sub. now apply mdot. Qed.

  (** travel-time bins ([int(d/c/dt)] between patches and from the source, [ceil] to the receiver) *)
  Theorem place_delay_floor (a b : @vec T) (c dt : T) :
    delay_floor (vdist (place M t a) (place M t b)) c dt = delay_floor (vdist a b) c dt.
  Proof. now rewrite place_dist. Qed.
  Theorem place_delay_ceil (a b : @vec T) (c dt : T) :
    delay_ceil (vdist (place M t a) (place M t b)) c dt = delay_ceil (vdist a b) c dt.
  Proof. now rewrite place_dist. Qed.

  (** ** on scenes: the placed scene's patch [sigma i] sits where the map carries patch [i] *)
  Variables sc sc' : @scene T.
  Variable sigma : nat -> nat.
  Hypothesis Hcen : forall i, i < s_np sc -> center sc' (sigma i) = place M t (center sc i).

  Theorem placed_dist i j : i < s_np sc -> j < s_np sc -> dist sc' (sigma i) (sigma j) = dist sc i j.
  Proof. intros Hi Hj. unfold dist. rewrite !Hcen by assumption. apply place_dist. Qed.
  Theorem placed_scene_delta tm i j : i < s_np sc -> j < s_np sc ->
    scene_delta sc' tm (sigma i) (sigma j) = scene_delta sc tm i j.
  Proof. intros Hi Hj. unfold scene_delta. now rewrite placed_dist. Qed.

  Theorem placed_src_dist (s s' : @source T) j : j < s_np sc ->
    src_pos s' = place M t (src_pos s) -> nthb (src_vis s') (sigma j) = nthb (src_vis s) j ->
    src_dist sc' s' (sigma j) = src_dist sc s j.
  Proof. intros Hj Hp Hv. unfold src_dist. rewrite Hv, Hp, Hcen by assumption. now rewrite place_dist. Qed.
  Theorem placed_scene_delta0 tm (s s' : @source T) j : j < s_np sc ->
    src_pos s' = place M t (src_pos s) -> nthb (src_vis s') (sigma j) = nthb (src_vis s) j ->
    scene_delta0 sc' tm s' (sigma j) = scene_delta0 sc tm s j.
  Proof. intros Hj Hp Hv. unfold scene_delta0. now rewrite (placed_src_dist s s' j Hj Hp Hv). Qed.

  Theorem placed_r_delay tm (r r' : @receiver T) k : k < s_np sc ->
    r_pos r' = place M t (r_pos r) -> r_delay sc' tm r' (sigma k) = r_delay sc tm r k.
  Proof. intros Hk Hp. unfold r_delay, r_dist. rewrite Hp, Hcen by assumption. now rewrite place_dist. Qed.

  Theorem placed_direct_bin tm (s s' : @source T) (r r' : @receiver T) :
    src_pos s' = place M t (src_pos s) -> r_pos r' = place M t (r_pos r) ->
    direct_bin tm s' r' = direct_bin tm s r.
  Proof.
    intros Hs Hr. unfold direct_bin, direct_r, vnorm. now rewrite Hs, Hr, place_sub, vnorm2_iso.
  Qed.
End Distances.

(** ** rescaling the normal or the up vector given for a wall *)
Section NormalScale.
  Context {T : Type} {O : Ops T} {RL : RingLaws T} {OL : OrderLaws T} {FL : FieldLaws T}
          {SL : SqrtLaws T}.

  Theorem wall_dir_scale (s s' : T) (n u d : @vec T) :
    (0 < s)%T -> (0 < s')%T -> (0 < vnorm2 n)%T -> (0 < vnorm2 u)%T ->
    wall_dir (vscale s n) (vscale s' u) d = wall_dir n u d.
  Proof.
    intros Hs Hs' Hn Hu. unfold wall_dir.
    now rewrite (vnormalize_scale s n Hs Hn), (vnormalize_scale s' u Hs' Hu).
  Qed.

  Theorem wall_dirs_scale (s s' : T) (n u : @vec T) (dirs : list (@vec T)) :
    (0 < s)%T -> (0 < s')%T -> (0 < vnorm2 n)%T -> (0 < vnorm2 u)%T ->
    wall_dirs (vscale s n) (vscale s' u) dirs = wall_dirs n u dirs.
  Proof.
    intros Hs Hs' Hn Hu. unfold wall_dirs. apply map_ext. intros d. now apply wall_dir_scale.
  Qed.
End NormalScale.
