(** * C17, layers 2-4 (geometry part): a ROOM DESCRIPTION carried through one of the 48 signed axis
    permutations [m v = (e0 * v[sigma 0], e1 * v[sigma 1], e2 * v[sigma 2])].

    [sperm_room]: every wall polygon, wall normal and up vector mapped by [m] (a mirroring maps
    the normals as vectors, which is what mirroring a scene description does).  Nothing is
    assumed about the tiling or the baked data of the image room; derived here:

    - [m] is the linear isometry [mapply (smat ..)], [smat] orthogonal; [m (a x b) = det * (m a x m b)];
    - there is a renumbering [pi] of the patches (a bijection of [0, np), built wall by wall from
      [tiling_signed_perm]) such that patch [pi k] of the image room is the image of patch [k]
      with its four vertices re-ordered by one of the 8 orders of a quadrilateral, on the same
      wall ([room_relabel_exists]);
    - hence centroids, areas, wall ids and patch normals of the image room are the [pi]-transported
      ones ([relabel_center], [relabel_area], [relabel_wall], [relabel_normal]);
    - the per-patch kernels: point-to-patch shares in both modes ([patch_image_pt_solution]), the
      touching test and the Stokes form factor with any cut-off ([patch_image_coincidence],
      [patch_image_stokes]) take the same values on the image patches.

    Laws: ordered field with floor (tiling), [DivLaws] (division by a possibly vanishing norm is
    linear), [AbsLaws] (the Stokes cut-off and the final absolute value). *)
From Coq Require Import List Arith Bool Ring Lia Permutation FinFun.
Import ListNotations.
From SV Require Import Base.Ops Base.OpsGeom Base.Arr Base.Sums Model.Vec3 Model.Exchange Model.Scene
  Model.Frame Model.Tiling Model.Visibility Model.Stokes Model.Nusselt Model.PtSolution Model.Full.
From SV Require Import Spec.Isometry Proofs.OrderField Proofs.TilingLists Proofs.TilingProofs
  Proofs.TilingPerm Proofs.FieldFacts Proofs.StokesSum Proofs.StokesSimilarity Proofs.StokesReorder
  Proofs.PtSimilarity Proofs.PtVertexOrder Proofs.SceneRefine Proofs.PlacementTranslate
  Proofs.PlacementKernels Proofs.FullProofs Proofs.FullTranslate.

(** ** 1. the signed axis permutation as an orthogonal matrix *)
Section SmapAlgebra.
  Context {T : Type} {O : Ops T} {RL : RingLaws T}.
  Add Ring TRingFPl1 : (@ring_th T O RL).
  Local Notation vec := (@vec T).

  Definition unitv (d : nat) : vec :=
    match d with 0 => mkv 1 0 0 | 1 => mkv 0 1 0 | _ => mkv 0 0 1 end%T.
  Definition smat (sigma : nat -> nat) (e0 e1 e2 : T) : @Isometry.mat T :=
    (vscale e0 (unitv (sigma 0)), vscale e1 (unitv (sigma 1)), vscale e2 (unitv (sigma 2))).

  Lemma vdot_unit (e : T) (d : nat) (v : vec) : vdot (vscale e (unitv d)) v = (e * vget v d)%T.
  Proof.
    destruct v as [[x y] z]. destruct d as [|[|d]];
      unfold vdot, vscale, unitv, vget, mkv, vx, vy, vz; cbn [fst snd]; ring.
  Qed.

  Lemma mapply_smat sigma e0 e1 e2 (v : vec) : mapply (smat sigma e0 e1 e2) v = smap sigma e0 e1 e2 v.
  Proof.
    unfold mapply, smat, mrow1, mrow2, mrow3, smap. cbn [fst snd]. now rewrite !vdot_unit.
  Qed.

  Lemma smap_is_sperm sigma e0 e1 e2 (v : vec) : smap sigma e0 e1 e2 v = sperm sigma e0 e1 e2 v.
  Proof. reflexivity. Qed.

  (** a matrix that preserves inner products has orthonormal columns *)
  Lemma orthogonal_of_dot (M : @Isometry.mat T) :
    (forall x y, vdot (mapply M x) (mapply M y) = vdot x y) -> orthogonal M.
  Proof.
    intros H.
    assert (C1 : mapply M (mkv 1 0 0)%T = mcol1 M).
    { destruct M as [[r1 r2] r3], r1 as [[? ?] ?], r2 as [[? ?] ?], r3 as [[? ?] ?].
      unfold mapply, mcol1, mrow1, mrow2, mrow3, vdot, mkv, vx, vy, vz; cbn [fst snd].
      f_equal; [f_equal|]; ring. }
    assert (C2 : mapply M (mkv 0 1 0)%T = mcol2 M).
    { destruct M as [[r1 r2] r3], r1 as [[? ?] ?], r2 as [[? ?] ?], r3 as [[? ?] ?].
      unfold mapply, mcol2, mrow1, mrow2, mrow3, vdot, mkv, vx, vy, vz; cbn [fst snd].
      f_equal; [f_equal|]; ring. }
    assert (C3 : mapply M (mkv 0 0 1)%T = mcol3 M).
    { destruct M as [[r1 r2] r3], r1 as [[? ?] ?], r2 as [[? ?] ?], r3 as [[? ?] ?].
      unfold mapply, mcol3, mrow1, mrow2, mrow3, vdot, mkv, vx, vy, vz; cbn [fst snd].
      f_equal; [f_equal|]; ring. }
    unfold orthogonal. rewrite <- C1, <- C2, <- C3, !H.
    unfold vdot, mkv, vx, vy, vz; cbn [fst snd]. repeat split; ring.
  Qed.

  Section WithPerm.
    Variable sigma : nat -> nat.
    Variables e0 e1 e2 : T.
    Hypothesis Hperm : Permutation [sigma 0; sigma 1; sigma 2] [0; 1; 2].
    Hypothesis He0 : e0 = 1%T \/ e0 = (- (1))%T.
    Hypothesis He1 : e1 = 1%T \/ e1 = (- (1))%T.
    Hypothesis He2 : e2 = 1%T \/ e2 = (- (1))%T.

    Lemma smat_dot (x y : vec) :
      vdot (mapply (smat sigma e0 e1 e2) x) (mapply (smat sigma e0 e1 e2) y) = vdot x y.
    Proof. rewrite !mapply_smat, !smap_is_sperm. now apply sperm_dot. Qed.

    Theorem smat_orthogonal : orthogonal (smat sigma e0 e1 e2).
    Proof. apply orthogonal_of_dot. exact smat_dot. Qed.

    (** handedness: [+1] for the 24 rotations, [-1] for the 24 maps that contain a mirroring *)
    Definition psign : T :=
      if sigma 0 =? 0 then (if sigma 1 =? 1 then 1 else - (1))%T
      else if sigma 0 =? 1 then (if sigma 1 =? 2 then 1 else - (1))%T
      else (if sigma 1 =? 0 then 1 else - (1))%T.
    Definition sdet : T := (((psign * e0) * e1) * e2)%T.

    Theorem smap_cross (a b : vec) :
      vcross (smap sigma e0 e1 e2 a) (smap sigma e0 e1 e2 b) =
      vscale sdet (smap sigma e0 e1 e2 (vcross a b)).
    Proof.
      destruct a as [[a1 a2] a3], b as [[b1 b2] b3].
      unfold sdet, psign.
      destruct (sigma_cases sigma Hperm) as [C|[C|[C|[C|[C|C]]]]]; destruct C as (S0 & S1 & S2);
        unfold smap; rewrite S0, S1, S2; cbn [Nat.eqb];
        unfold vcross, vscale, vget, mkv, vx, vy, vz; cbn [fst snd];
        destruct He0 as [-> | ->]; destruct He1 as [-> | ->]; destruct He2 as [-> | ->];
        (f_equal; [f_equal|]); ring.
    Qed.

    Corollary smap_cross_proper (a b : vec) : sdet = 1%T ->
      vcross (smap sigma e0 e1 e2 a) (smap sigma e0 e1 e2 b) = smap sigma e0 e1 e2 (vcross a b).
    Proof.
      intros Hd. rewrite smap_cross, Hd.
      destruct (smap sigma e0 e1 e2 (vcross a b)) as [[x y] z].
      unfold vscale, mkv, vx, vy, vz; cbn [fst snd]. f_equal; [f_equal|]; ring.
    Qed.
    Corollary smap_cross_mirror (a b : vec) : sdet = (- (1))%T ->
      vcross (smap sigma e0 e1 e2 a) (smap sigma e0 e1 e2 b) =
      vscale (- (1))%T (smap sigma e0 e1 e2 (vcross a b)).
    Proof. intros Hd. now rewrite smap_cross, Hd. Qed.
  End WithPerm.
End SmapAlgebra.

(** ** 2. one patch: the image of a parallelogram with its vertices re-ordered *)
Section PatchImage.
  Context {T : Type} {O : Ops T} {RL : RingLaws T} {OL : OrderLaws T} {FL : FieldLaws T}
          {FlL : FloorLaws T} {DL : DivLaws T} {AL : AbsLaws T}.
  Add Ring TRingFPl2 : (@ring_th T O RL).
  Local Notation vec := (@vec T).
  Local Notation quad := (@Tiling.quad T).

  (** opposite sides equal as vectors: [q0 + q2 = q1 + q3] *)
  Definition para (q : quad) : Prop := vadd (q0 q) (q2 q) = vadd (q1 q) (q3 q).

  (** a statement about quadrilaterals that survives one rotation and the reversal of the vertex
      list survives all 8 re-orderings *)
  Lemma reorder_inv {A} (P : quad -> Prop) (F : quad -> A) :
    (forall q, P q -> P (rot_quad q) /\ F (rot_quad q) = F q) ->
    (forall q, P q -> P (rev_quad q) /\ F (rev_quad q) = F q) ->
    forall o q, P q -> P (reorder o q) /\ F (reorder o q) = F q.
  Proof.
    intros Hrot Hrev o q Hq. unfold reorder.
    assert (Hit : forall n q', P q' -> P (Nat.iter n rot_quad q') /\ F (Nat.iter n rot_quad q') = F q').
    { induction n as [|n IH]; intros q' Hq'; [split; [exact Hq'|reflexivity]|].
      change (Nat.iter (S n) rot_quad q') with (rot_quad (Nat.iter n rot_quad q')).
      destruct (IH q' Hq') as [P1 E1]. destruct (Hrot _ P1) as [P2 E2].
      split; [exact P2|]. now rewrite E2. }
    destruct (o <? 4).
    - apply Hit. exact Hq.
    - destruct (Hrev q Hq) as [P1 E1]. destruct (Hit (o mod 4) _ P1) as [P2 E2].
      split; [exact P2|]. now rewrite E2.
  Qed.
  Lemma reorder_inv0 {A} (F : quad -> A) :
    (forall q, F (rot_quad q) = F q) -> (forall q, F (rev_quad q) = F q) ->
    forall o q, F (reorder o q) = F q.
  Proof.
    intros Hrot Hrev o q.
    exact (proj2 (reorder_inv (fun _ => True) F (fun q' _ => conj I (Hrot q')) (fun q' _ => conj I (Hrev q')) o q I)).
  Qed.

  Lemma vadd_comm (a b : vec) : vadd a b = vadd b a.
  Proof.
    destruct a as [[a1 a2] a3], b as [[b1 b2] b3].
    unfold vadd, mkv, vx, vy, vz; cbn [fst snd]. f_equal; [f_equal|]; ring.
  Qed.
  Lemma para_rot (q : quad) : para q -> para (rot_quad q).
  Proof. unfold para, rot_quad. cbn [q0 q1 q2 q3]. intros H. rewrite (vadd_comm (q2 q) (q0 q)). symmetry. exact H. Qed.
  Lemma para_rev (q : quad) : para q -> para (rev_quad q).
  Proof. unfold para, rev_quad. cbn [q0 q1 q2 q3]. intros H. rewrite (vadd_comm (q3 q) (q1 q)). exact H. Qed.
  Lemma para_reorder o (q : quad) : para q -> para (reorder o q).
  Proof.
    intros H. exact (proj1 (reorder_inv para (fun _ => tt)
      (fun q' H' => conj (para_rot q' H') eq_refl) (fun q' H' => conj (para_rev q' H') eq_refl) o q H)).
  Qed.
  Lemma para_map (g : vec -> vec) (q : quad) : vlinear g -> para q -> para (map_quad g q).
  Proof.
    intros Hg H. unfold para, map_quad in *. cbn [q0 q1 q2 q3].
    now rewrite <- !(lin_add g Hg), H.
  Qed.
  Lemma triple_eq (a b c a' b' c' : T) : a = a' -> b = b' -> c = c' -> (a, b, c) = (a', b', c').
  Proof. intros -> -> ->. reflexivity. Qed.
  Lemma para_rectq f c xl xh yl yh : para (rectq f c xl xh yl yh).
  Proof.
    unfold para, rectq. cbn [q0 q1 q2 q3].
    destruct f as [|[|f]]; unfold cellv, vadd, mkv, vx, vy, vz; cbn [fst snd]; apply triple_eq; ring.
  Qed.

  (** *** centroid *)
  Lemma vsum4 (a b c d : vec) :
    vsum [a; b; c; d] = vadd (vadd (vadd (vadd vzero a) b) c) d.
  Proof. reflexivity. Qed.
  Lemma centroid_rot (q : quad) : centroid (verts (rot_quad q)) = centroid (verts q).
  Proof.
    unfold centroid, verts, rot_quad. cbn [q0 q1 q2 q3 length]. rewrite !vsum4. f_equal.
    destruct (q0 q) as [[a1 a2] a3], (q1 q) as [[b1 b2] b3], (q2 q) as [[c1 c2] c3], (q3 q) as [[d1 d2] d3].
    unfold vadd, vzero, mkv, vx, vy, vz; cbn [fst snd]. f_equal; [f_equal|]; ring.
  Qed.
  Lemma centroid_rev (q : quad) : centroid (verts (rev_quad q)) = centroid (verts q).
  Proof.
    unfold centroid, verts, rev_quad. cbn [q0 q1 q2 q3 length]. rewrite !vsum4. f_equal.
    destruct (q0 q) as [[a1 a2] a3], (q1 q) as [[b1 b2] b3], (q2 q) as [[c1 c2] c3], (q3 q) as [[d1 d2] d3].
    unfold vadd, vzero, mkv, vx, vy, vz; cbn [fst snd]. f_equal; [f_equal|]; ring.
  Qed.
  Lemma centroid_reorder o (q : quad) : centroid (verts (reorder o q)) = centroid (verts q).
  Proof. exact (reorder_inv0 (fun q' => centroid (verts q')) centroid_rot centroid_rev o q). Qed.

  Lemma tofnat4_neq0 : tofnat 4 <> 0%T.
  Proof. apply tpos_neq, tofnat_pos. lia. Qed.
  Lemma centroid_map_quad (g : vec -> vec) (q : quad) : vlinear g ->
    centroid (verts (map_quad g q)) = g (centroid (verts q)).
  Proof.
    intros Hg. unfold centroid, verts, map_quad. cbn [q0 q1 q2 q3 length]. rewrite !vsum4.
    rewrite (lin_divs g Hg) by exact tofnat4_neq0.
    now rewrite !(lin_add g Hg), (lin_zero g Hg).
  Qed.

  (** *** area of a parallelogram: every triangle of the fan has the same cross product up to sign *)
  Lemma para_coords (a c b d : T) : (a + c)%T = (b + d)%T -> c = (b + d - a)%T.
  Proof. intros H. replace c with ((a + c) - a)%T by ring. rewrite H. ring. Qed.

  Lemma tri_para (a b c d : vec) : vadd a c = vadd b d ->
    let N := vnorm2 (vcross (vsub b a) (vsub d a)) in
    vnorm2 (vcross (vsub b a) (vsub c a)) = N /\ vnorm2 (vcross (vsub c a) (vsub d a)) = N /\
    vnorm2 (vcross (vsub c b) (vsub d b)) = N /\ vnorm2 (vcross (vsub d b) (vsub a b)) = N /\
    vnorm2 (vcross (vsub d a) (vsub c a)) = N /\ vnorm2 (vcross (vsub c a) (vsub b a)) = N.
  Proof.
    destruct a as [[a1 a2] a3], b as [[b1 b2] b3], c as [[c1 c2] c3], d as [[d1 d2] d3].
    unfold vadd, mkv, vx, vy, vz; cbn [fst snd]. intros H.
    injection H as H1 H2 H3.
    apply para_coords in H1. apply para_coords in H2. apply para_coords in H3. subst c1 c2 c3.
    cbv zeta. unfold vnorm2, vdot, vcross, vsub, mkv, vx, vy, vz; cbn [fst snd].
    repeat split; ring.
  Qed.

  Lemma poly_area_quad (a b c d : vec) :
    poly_area [a; b; c; d] = ((0 + tri_area a b c) + tri_area a c d)%T.
  Proof. reflexivity. Qed.

  Lemma poly_area_para (q : quad) : para q ->
    poly_area (verts (rot_quad q)) = poly_area (verts q) /\
    poly_area (verts (rev_quad q)) = poly_area (verts q).
  Proof.
    unfold para, verts, rot_quad, rev_quad. cbn [q0 q1 q2 q3]. intros H.
    destruct (tri_para _ _ _ _ H) as (E1 & E2 & E3 & E4 & E5 & E6). cbv zeta in *.
    rewrite !poly_area_quad. unfold tri_area, vnorm. rewrite E1, E2, E3, E4, E5, E6. split; reflexivity.
  Qed.
  Lemma poly_area_reorder o (q : quad) : para q -> poly_area (verts (reorder o q)) = poly_area (verts q).
  Proof.
    intros H. exact (proj2 (reorder_inv para (fun q' => poly_area (verts q'))
      (fun q' H' => conj (para_rot q' H') (proj1 (poly_area_para q' H')))
      (fun q' H' => conj (para_rev q' H') (proj2 (poly_area_para q' H'))) o q H)).
  Qed.

  (** *** point-to-patch share (excess): vertex order *)
  Lemma excess_reorder thr pt o (q : quad) : excess thr pt (verts (reorder o q)) = excess thr pt (verts q).
  Proof.
    apply (reorder_inv0 (fun q' => excess thr pt (verts q'))).
    - intros q'. unfold verts, rot_quad. cbn [q0 q1 q2 q3].
      exact (excess_rotate thr pt [q1 q'; q2 q'; q3 q'] [q0 q']).
    - intros q'. unfold verts, rev_quad. cbn [q0 q1 q2 q3].
      change [q0 q'; q3 q'; q2 q'; q1 q'] with ([q0 q'] ++ [q3 q'; q2 q'; q1 q']).
      rewrite (excess_rotate thr pt [q0 q'] [q3 q'; q2 q'; q1 q']).
      change ([q3 q'; q2 q'; q1 q'] ++ [q0 q']) with (rev [q0 q'; q1 q'; q2 q'; q3 q']).
      apply excess_rev.
  Qed.

  (** *** [existsb] over the vertices *)
  Lemma existsb_verts_reorder (f : vec -> bool) o (q : quad) :
    existsb f (verts (reorder o q)) = existsb f (verts q).
  Proof.
    apply (reorder_inv0 (fun q' => existsb f (verts q'))); intros q';
      unfold verts, rot_quad, rev_quad; cbn [q0 q1 q2 q3 existsb];
      destruct (f (q0 q')), (f (q1 q')), (f (q2 q')), (f (q3 q')); reflexivity.
  Qed.
  Lemma existsb_ext_all {A} (f g : A -> bool) (l : list A) : (forall a, f a = g a) -> existsb f l = existsb g l.
  Proof. intros H. induction l as [|a l IH]; cbn [existsb]; [reflexivity|]. now rewrite H, IH. Qed.
  Lemma existsb_map_in {A B} (f : B -> bool) (h : A -> B) (l : list A) :
    existsb f (map h l) = existsb (fun a => f (h a)) l.
  Proof. induction l as [|a l IH]; cbn [map existsb]; [reflexivity|]. now rewrite IH. Qed.

  (** *** the signed axis permutation *)
  Variable sigma : nat -> nat.
  Variables e0 e1 e2 : T.
  Hypothesis Hperm : Permutation [sigma 0; sigma 1; sigma 2] [0; 1; 2].
  Hypothesis He0 : e0 = 1%T \/ e0 = (- (1))%T.
  Hypothesis He1 : e1 = 1%T \/ e1 = (- (1))%T.
  Hypothesis He2 : e2 = 1%T \/ e2 = (- (1))%T.
  Notation m := (smap sigma e0 e1 e2).
  Notation M := (smat sigma e0 e1 e2).

  Lemma m_linear : vlinear m.
  Proof. exact (sperm_linear sigma e0 e1 e2). Qed.
  Lemma m_dot (x y : vec) : vdot (m x) (m y) = vdot x y.
  Proof. exact (sperm_dot sigma e0 e1 e2 Hperm He0 He1 He2 x y). Qed.
  Lemma M_orth : orthogonal M.
  Proof. exact (smat_orthogonal sigma e0 e1 e2 Hperm He0 He1 He2). Qed.
  Lemma map_m_M (l : list vec) : map m l = map (mapply M) l.
  Proof. apply map_ext. intros v. symmetry. apply mapply_smat. Qed.
  Lemma m_vnorm (v : vec) : vnorm (m v) = vnorm v.
  Proof. unfold vnorm, vnorm2. now rewrite m_dot. Qed.
  Lemma m_vnormalize (v : vec) : vnormalize (m v) = m (vnormalize v).
  Proof. rewrite <- !mapply_smat. exact (vnormalize_iso M M_orth v). Qed.
  Lemma m_vdist (a b : vec) : vdist (m a) (m b) = vdist a b.
  Proof. unfold vdist. rewrite <- (lin_sub m m_linear). apply m_vnorm. Qed.
  Lemma m_vdist2 (a b : vec) : vdist2 (m a) (m b) = vdist2 a b.
  Proof.
    assert (E : forall x y : vec, vdist2 x y = vdot (vsub x y) (vsub x y)).
    { intros [[? ?] ?] [[? ?] ?]. unfold vdist2, vdot, vsub, mkv, vx, vy, vz; cbn [fst snd]. ring. }
    now rewrite !E, <- (lin_sub m m_linear), m_dot.
  Qed.
  Lemma nearest_m (dirs : list vec) (v : vec) : nearest (map m dirs) (m v) = nearest dirs v.
  Proof.
    unfold nearest. rewrite map_map. f_equal. apply map_ext. intros d. apply m_vdist2.
  Qed.

  (** the relation between a patch of the image room and the patch it comes from *)
  Definition patch_image (Q' Q : quad) : Prop := exists o, Q' = reorder o (map_quad m Q).

  Section OnePatch.
    Variables Q' Q : quad.
    Hypothesis Himg : patch_image Q' Q.
    Hypothesis Hpara : para Q.

    Lemma patch_image_para : para Q'.
    Proof. destruct Himg as (o & ->). apply para_reorder, para_map; [exact m_linear|exact Hpara]. Qed.

    Theorem patch_image_centroid : centroid (verts Q') = m (centroid (verts Q)).
    Proof. destruct Himg as (o & ->). rewrite centroid_reorder. apply centroid_map_quad, m_linear. Qed.

    Theorem patch_image_area : poly_area (verts Q') = poly_area (verts Q).
    Proof.
      destruct Himg as (o & ->).
      rewrite poly_area_reorder by (apply para_map; [exact m_linear|exact Hpara]).
      rewrite verts_map_quad, map_m_M. apply (poly_area_map (mapply M)).
      intros a b c. exact (tri_area_iso M M_orth a b c).
    Qed.

    (** point-to-patch share, source and receiver mode *)
    Theorem patch_image_pt_solution thr recv (pt : vec) :
      pt_solution thr recv (m pt) (verts Q') = pt_solution thr recv pt (verts Q).
    Proof.
      unfold pt_solution. f_equal.
      - destruct Himg as (o & ->). rewrite excess_reorder, verts_map_quad, map_m_M, <- mapply_smat.
        exact (excess_iso M M_orth thr pt (verts Q)).
      - f_equal. unfold source_area. destruct recv; [apply patch_image_area|reflexivity].
    Qed.
  End OnePatch.

  (** two patches: the touching test and the Stokes form factor *)
  Section TwoPatches.
    Variables Q1' Q1 Q2' Q2 : quad.
    Hypothesis Himg1 : patch_image Q1' Q1.
    Hypothesis Himg2 : patch_image Q2' Q2.

    Theorem patch_image_coincidence thres :
      coincidence_check thres (verts Q2') (verts Q1') = coincidence_check thres (verts Q2) (verts Q1).
    Proof.
      destruct Himg1 as (o1 & ->), Himg2 as (o2 & ->). unfold coincidence_check.
      rewrite existsb_verts_reorder, verts_map_quad, existsb_map_in.
      apply existsb_ext_all. intros a.
      rewrite existsb_verts_reorder, verts_map_quad, existsb_map_in.
      apply existsb_ext_all. intros b.
      rewrite <- (lin_sub m m_linear), m_vnorm. reflexivity.
    Qed.

    Theorem patch_image_stokes cut a :
      stokes_integration cut (verts Q1') (verts Q2') a = stokes_integration cut (verts Q1) (verts Q2) a.
    Proof.
      destruct Himg1 as (o1 & ->), Himg2 as (o2 & ->).
      rewrite stokes_integration_reorder, !verts_map_quad.
      exact (stokes_integration_sperm sigma e0 e1 e2 Hperm He0 He1 He2 cut (verts Q1) (verts Q2) a).
    Qed.
  End TwoPatches.
End PatchImage.

(** ** 3. renumbering a concatenation of blocks, block by block *)
Section BlockReindex.
  Context {A : Type}.
  Variable R : A -> A -> Prop.          (* [R new old] *)
  Variable d : A.

  Definition block_rel (l' l : list A) : Prop :=
    length l' = length l /\
    exists f : nat -> nat, bFun (length l) f /\ bInjective (length l) f /\
      forall x, x < length l -> R (nth (f x) l' d) (nth x l d).

  Lemma perm_block_rel (g : A -> A) (l' l : list A) :
    Permutation l' (map g l) -> (forall x, R (g x) x) -> block_rel l' l.
  Proof.
    intros HP HR. pose proof (Permutation_length HP) as Hlen. rewrite map_length in Hlen.
    split; [exact Hlen|].
    destruct (proj1 (Permutation_nth l' (map g l) d) HP) as (_ & f & Hf & Hinj & Hnth).
    cbv zeta in *. rewrite Hlen in Hf, Hinj, Hnth.
    exists f. split; [exact Hf|]. split; [exact Hinj|].
    intros x Hx. rewrite <- (Hnth x Hx).
    rewrite nth_indep with (d' := g d) by (now rewrite map_length).
    rewrite map_nth. apply HR.
  Qed.

  Lemma wall_ids_ge (counts : list nat) : forall w0 k,
    k < sumn counts -> w0 <= nth k (wall_ids_from w0 counts) 0.
  Proof.
    intros w0 k Hk.
    assert (Hin : In (nth k (wall_ids_from w0 counts) 0) (wall_ids_from w0 counts))
      by (apply nth_In; now rewrite length_wall_ids).
    apply wall_ids_from_range in Hin. lia.
  Qed.

  Theorem concat_reindex (L' L : list (list A)) : Forall2 block_rel L' L ->
    map (@length A) L' = map (@length A) L /\
    forall w0, exists F : nat -> nat,
      bFun (length (concat L)) F /\ bInjective (length (concat L)) F /\
      (forall k, k < length (concat L) -> R (nth (F k) (concat L') d) (nth k (concat L) d)) /\
      (forall k, k < length (concat L) ->
         nth (F k) (wall_ids_from w0 (map (@length A) L)) 0 = nth k (wall_ids_from w0 (map (@length A) L)) 0).
  Proof.
    induction 1 as [|l' l L' L Hrel HF IH].
    - split; [reflexivity|]. intros w0. exists (fun k => k). cbn [concat length].
      unfold bFun, bInjective. repeat split; intros; lia.
    - destruct IH as [IHlen IH]. destruct Hrel as (Hlen & f & Hf & Hinj & HR).
      split; [cbn [map]; now rewrite Hlen, IHlen|].
      intros w0. destruct (IH (S w0)) as (F' & HF' & Hinj' & HR' & Hid').
      set (n := length l) in *. set (N' := length (concat L)) in *.
      exists (fun k => if k <? n then f k else n + F' (k - n)).
      assert (HN : length (concat (l :: L)) = n + N') by (cbn [concat]; now rewrite app_length).
      rewrite HN. unfold bFun, bInjective in *. split; [|split; [|split]].
      + intros k Hk. destruct (Nat.ltb_spec k n) as [L1|L1].
        * pose proof (Hf k L1). lia.
        * assert (F' (k - n) < N') by (apply HF'; lia). lia.
      + intros x y Hx Hy. destruct (Nat.ltb_spec x n) as [X|X]; destruct (Nat.ltb_spec y n) as [Y|Y]; intros E.
        * now apply Hinj.
        * pose proof (Hf x X). lia.
        * pose proof (Hf y Y). lia.
        * assert (E' : F' (x - n) = F' (y - n)) by lia.
          apply Hinj' in E'; lia.
      + intros k Hk. cbn [concat]. destruct (Nat.ltb_spec k n) as [L1|L1].
        * rewrite !app_nth1 by (try rewrite Hlen; try apply Hf; assumption). now apply HR.
        * rewrite !app_nth2 by (try rewrite Hlen; fold n; lia). rewrite Hlen. fold n.
          replace (n + F' (k - n) - n) with (F' (k - n)) by lia. apply HR'. lia.
      + intros k Hk. cbn [map wall_ids_from]. fold n. destruct (Nat.ltb_spec k n) as [L1|L1].
        * rewrite !app_nth1 by (rewrite repeat_length; try apply Hf; assumption).
          rewrite !nth_repeat_lt by (try apply Hf; assumption). reflexivity.
        * rewrite !app_nth2 by (rewrite repeat_length; lia). rewrite repeat_length.
          replace (n + F' (k - n) - n) with (F' (k - n)) by lia. apply Hid'. lia.
  Qed.

  (** wall ids grow with the patch index *)
  Lemma wall_ids_mono (counts : list nat) : forall w0 a b,
    a <= b -> b < sumn counts ->
    nth a (wall_ids_from w0 counts) 0 <= nth b (wall_ids_from w0 counts) 0.
  Proof.
    induction counts as [|c r IH]; intros w0 a b Hab Hb.
    - rewrite sumn_nil in Hb. lia.
    - rewrite sumn_cons in Hb. cbn [wall_ids_from].
      destruct (Nat.lt_ge_cases b c) as [Hbc|Hbc].
      + rewrite !app_nth1 by (rewrite repeat_length; lia). rewrite !nth_repeat_lt by lia. lia.
      + destruct (Nat.lt_ge_cases a c) as [Hac|Hac].
        * rewrite (app_nth1 (repeat w0 c) (wall_ids_from (S w0) r) 0 (n := a)) by (rewrite repeat_length; lia).
          rewrite nth_repeat_lt by lia.
          rewrite app_nth2 by (rewrite repeat_length; lia). rewrite repeat_length.
          pose proof (wall_ids_ge r (S w0) (b - c)). lia.
        * rewrite !app_nth2 by (rewrite repeat_length; lia). rewrite repeat_length.
          apply IH; lia.
  Qed.
End BlockReindex.

(** ** 4. the image room and the renumbering of its patches *)
Section RoomSpermDef.
  Context {T : Type} {O : Ops T}.
  (** walls, normals and up vectors carried by [m]; everything else kept *)
  Definition sperm_room (sigma : nat -> nat) (e0 e1 e2 : T) (rm : @room T) : @room T :=
    mkRoom (map (map_quad (smap sigma e0 e1 e2)) (rm_walls rm))
           (map (smap sigma e0 e1 e2) (rm_normals rm)) (map (smap sigma e0 e1 e2) (rm_ups rm))
           (rm_patch_size rm) (rm_ref_in rm) (rm_ref_out rm) (rm_tables rm) (rm_tidx rm) (rm_att rm)
           (rm_nb rm) (rm_thr rm) (rm_eps rm) (rm_eta rm) (rm_thres rm) (rm_cut rm) (rm_thr_seg rm)
           (rm_thr_dot rm) (rm_thr_lag rm).
  (** every wall is in the domain of C08: in a coordinate plane, at least one patch wide both ways *)
  Definition walls_ok (rm : @room T) : Prop :=
    forall q, In q (rm_walls rm) -> exists f c, wall_ok q (rm_patch_size rm) f c.

  (** [pi] renumbers the patches of [rm] into those of the image room: a bijection of [0, np) that
      sends every patch to its image (vertices re-ordered) on the same wall *)
  Definition relabels (sigma : nat -> nat) (e0 e1 e2 : T) (rm : @room T) (pi : nat -> nat) : Prop :=
    let rm' := sperm_room sigma e0 e1 e2 rm in
    bFun (rm_np rm) pi /\ bInjective (rm_np rm) pi /\
    (forall k, k < rm_np rm ->
       patch_image sigma e0 e1 e2 (nth (pi k) (pr_points (rm_processed rm')) dquad)
                                  (nth k (pr_points (rm_processed rm)) dquad)) /\
    (forall k, k < rm_np rm ->
       nthn (pr_wall_ids (rm_processed rm')) (pi k) = nthn (pr_wall_ids (rm_processed rm)) k).
End RoomSpermDef.

Section RoomRelabel.
  Context {T : Type} {O : Ops T} {RL : RingLaws T} {OL : OrderLaws T} {FL : FieldLaws T}
          {FlL : FloorLaws T} {DL : DivLaws T} {AL : AbsLaws T}.
  Local Notation vec := (@vec T).
  Local Notation quad := (@Tiling.quad T).

  Variable sigma : nat -> nat.
  Variables e0 e1 e2 : T.
  Hypothesis Hperm : Permutation [sigma 0; sigma 1; sigma 2] [0; 1; 2].
  Hypothesis He0 : e0 = 1%T \/ e0 = (- (1))%T.
  Hypothesis He1 : e1 = 1%T \/ e1 = (- (1))%T.
  Hypothesis He2 : e2 = 1%T \/ e2 = (- (1))%T.
  Notation m := (smap sigma e0 e1 e2).

  Variable rm : @room T.
  Hypothesis Hwalls : walls_ok rm.
  Notation rm' := (sperm_room sigma e0 e1 e2 rm).
  Notation p := (rm_patch_size rm).
  Notation blocks := (map (fun q : quad => create_patches q p) (rm_walls rm)).
  Notation blocks' := (map (fun q : quad => create_patches (map_quad m q) p) (rm_walls rm)).

  Lemma room_points_blocks : pr_points (rm_processed rm) = concat blocks.
  Proof. reflexivity. Qed.
  Lemma room_points_blocks' : pr_points (rm_processed rm') = concat blocks'.
  Proof.
    unfold rm_processed, process, sperm_room. cbn [pr_points rm_walls rm_patch_size].
    now rewrite (map_map (map_quad m) (fun q => create_patches q (rm_patch_size rm))).
  Qed.
  Lemma room_ids_blocks : pr_wall_ids (rm_processed rm) = wall_ids_from 0 (map (@length quad) blocks).
  Proof. reflexivity. Qed.
  Lemma room_ids_blocks' : pr_wall_ids (rm_processed rm') = wall_ids_from 0 (map (@length quad) blocks').
  Proof.
    unfold rm_processed, process, sperm_room. cbn [pr_wall_ids rm_walls rm_patch_size].
    now rewrite (map_map (map_quad m) (fun q => create_patches q (rm_patch_size rm))).
  Qed.
  Lemma room_np_blocks : rm_np rm = length (concat blocks).
  Proof. unfold rm_np, rm_patch_pts. now rewrite map_length. Qed.

  Lemma Forall2_map_same {A B} (Rel : B -> B -> Prop) (f g : A -> B) (l : list A) :
    (forall x, In x l -> Rel (f x) (g x)) -> Forall2 Rel (map f l) (map g l).
  Proof.
    induction l as [|a l IH]; intros H; cbn [map]; constructor.
    - apply H. now left.
    - apply IH. intros x Hx. apply H. now right.
  Qed.

  Lemma blocks_rel : Forall2 (block_rel (patch_image sigma e0 e1 e2) dquad) blocks' blocks.
  Proof.
    apply Forall2_map_same. intros q Hq. destruct (Hwalls q Hq) as (f & c & Hok).
    destruct (tiling_signed_perm sigma e0 e1 e2 Hperm He0 He1 He2 q p f c Hok)
      as (f' & o & _ & _ & _ & _ & _ & HP).
    apply (perm_block_rel _ dquad (fun Q => reorder o (map_quad m Q)) _ _ HP).
    intros Q. now exists o.
  Qed.

  Lemma blocks_lengths : map (@length quad) blocks' = map (@length quad) blocks.
  Proof. exact (proj1 (concat_reindex _ dquad _ _ blocks_rel)). Qed.

  (** the image room has the same wall-id list, hence the same number of patches *)
  Theorem sperm_room_wall_ids : pr_wall_ids (rm_processed rm') = pr_wall_ids (rm_processed rm).
  Proof. now rewrite room_ids_blocks', room_ids_blocks, blocks_lengths. Qed.
  Theorem sperm_room_np : rm_np rm' = rm_np rm.
  Proof.
    unfold rm_np, rm_patch_pts. rewrite !map_length, room_points_blocks', room_points_blocks.
    now rewrite !length_concat_sumn, blocks_lengths.
  Qed.

  (** LAYER 2a: the renumbering exists *)
  Theorem room_relabel_exists : exists pi, relabels sigma e0 e1 e2 rm pi.
  Proof.
    destruct (proj2 (concat_reindex _ dquad _ _ blocks_rel) 0) as (F & HF & Hinj & HR & Hid).
    exists F. unfold relabels. cbv zeta. rewrite room_np_blocks.
    split; [exact HF|]. split; [exact Hinj|]. split.
    - intros k Hk. rewrite room_points_blocks', room_points_blocks. now apply HR.
    - intros k Hk. rewrite sperm_room_wall_ids, room_ids_blocks. unfold nthn. now apply Hid.
  Qed.

  (** every patch of the room is a parallelogram (an axis-aligned rectangle) *)
  Lemma wall_patches_para (q : quad) (f : nat) (c : T) : wall_ok q p f c ->
    forall Q, In Q (create_patches q p) -> para Q.
  Proof.
    intros Hok Q HQ. rewrite (create_old q p f c Hok) in HQ.
    apply in_concat in HQ. destruct HQ as (row & Hrow & HQ).
    apply In_tab in Hrow. destruct Hrow as (i & _ & ->).
    apply In_tab in HQ. destruct HQ as (j & _ & ->).
    destruct Hok as (Hf & Hpl & _).
    rewrite (patch_at_rectq q f c _ _ _ _ i j Hf Hpl). apply para_rectq.
  Qed.
  Theorem room_patches_para (k : nat) : k < rm_np rm -> para (nth k (pr_points (rm_processed rm)) dquad).
  Proof.
    intros Hk. rewrite room_np_blocks in Hk. rewrite room_points_blocks.
    pose proof (nth_In (concat blocks) dquad Hk) as Hin.
    apply in_concat in Hin. destruct Hin as (blk & Hblk & HQ).
    apply in_map_iff in Hblk. destruct Hblk as (q & <- & Hq).
    destruct (Hwalls q Hq) as (f & c & Hok). exact (wall_patches_para q f c Hok _ HQ).
  Qed.

  (** *** consequences of a renumbering: LAYER 2b *)
  Variable pi : nat -> nat.
  Hypothesis Hpi : relabels sigma e0 e1 e2 rm pi.

  Lemma relabel_lt k : k < rm_np rm -> pi k < rm_np rm.
  Proof. destruct Hpi as (H & _). apply H. Qed.
  Lemma relabel_inj x y : x < rm_np rm -> y < rm_np rm -> pi x = pi y -> x = y.
  Proof. destruct Hpi as (_ & H & _). apply H. Qed.
  Lemma relabel_image k : k < rm_np rm ->
    patch_image sigma e0 e1 e2 (nth (pi k) (pr_points (rm_processed rm')) dquad)
                               (nth k (pr_points (rm_processed rm)) dquad).
  Proof. destruct Hpi as (_ & _ & H & _). apply H. Qed.
  Theorem relabel_wall k : k < rm_np rm ->
    nthn (pr_wall_ids (rm_processed rm')) (pi k) = nthn (pr_wall_ids (rm_processed rm)) k.
  Proof. destruct Hpi as (_ & _ & _ & H). apply H. Qed.

  Lemma room_np_points (r : @room T) : rm_np r = length (pr_points (rm_processed r)).
  Proof. unfold rm_np, rm_patch_pts. now rewrite map_length. Qed.
  Lemma room_pts_nth (r : @room T) k : k < rm_np r ->
    nth k (rm_patch_pts r) [] = verts (nth k (pr_points (rm_processed r)) dquad).
  Proof.
    intros Hk. unfold rm_patch_pts.
    rewrite nth_indep with (d' := verts dquad) by (rewrite map_length, <- room_np_points; exact Hk).
    apply map_nth.
  Qed.
  Lemma room_center_nth (r : @room T) k : k < rm_np r ->
    nthv (rm_centers r) k = centroid (verts (nth k (pr_points (rm_processed r)) dquad)).
  Proof.
    intros Hk. unfold rm_centers, rm_patch_pts, nthv. rewrite map_map.
    rewrite nth_indep with (d' := centroid (verts dquad)) by (rewrite map_length, <- room_np_points; exact Hk).
    exact (map_nth (fun q => centroid (verts q)) _ dquad k).
  Qed.
  Lemma room_area_nth (r : @room T) k : k < rm_np r ->
    nthT (rm_areas r) k = poly_area (verts (nth k (pr_points (rm_processed r)) dquad)).
  Proof.
    intros Hk. unfold rm_areas, rm_patch_pts, nthT. rewrite map_map.
    rewrite nth_indep with (d' := poly_area (verts dquad)) by (rewrite map_length, <- room_np_points; exact Hk).
    exact (map_nth (fun q => poly_area (verts q)) _ dquad k).
  Qed.

  Theorem relabel_center k : k < rm_np rm ->
    nthv (rm_centers rm') (pi k) = m (nthv (rm_centers rm) k).
  Proof.
    intros Hk. rewrite (room_center_nth rm' (pi k)) by (rewrite sperm_room_np; now apply relabel_lt).
    rewrite (room_center_nth rm k Hk).
    exact (patch_image_centroid sigma e0 e1 e2 _ _ (relabel_image k Hk)).
  Qed.
  Theorem relabel_area k : k < rm_np rm -> nthT (rm_areas rm') (pi k) = nthT (rm_areas rm) k.
  Proof.
    intros Hk. rewrite (room_area_nth rm' (pi k)) by (rewrite sperm_room_np; now apply relabel_lt).
    rewrite (room_area_nth rm k Hk).
    exact (patch_image_area sigma e0 e1 e2 Hperm He0 He1 He2 _ _ (relabel_image k Hk) (room_patches_para k Hk)).
  Qed.

  Lemma nthv_map_m (l : list vec) i : nthv (map m l) i = m (nthv l i).
  Proof. exact (nthv_map_lin m (m_linear sigma e0 e1 e2) l i). Qed.

  Lemma room_normal_nth (r : @room T) k : k < rm_np r ->
    nthv (pr_normals (rm_processed r)) k = nthv (rm_normals r) (nthn (pr_wall_ids (rm_processed r)) k).
  Proof.
    intros Hk. unfold rm_processed, process. cbn [pr_normals pr_wall_ids]. unfold nthv, nthn.
    assert (Hlen : k < length (wall_ids_from 0 (map (@length quad) (map (fun q => create_patches q (rm_patch_size r)) (rm_walls r))))).
    { rewrite length_wall_ids, <- length_concat_sumn. rewrite room_np_points in Hk. exact Hk. }
    rewrite nth_indep with (d' := nth 0 (rm_normals r) vzero) by (now rewrite map_length).
    exact (map_nth (fun w => nth w (rm_normals r) vzero) _ 0 k).
  Qed.
  Theorem relabel_normal k : k < rm_np rm ->
    nthv (pr_normals (rm_processed rm')) (pi k) = m (nthv (pr_normals (rm_processed rm)) k).
  Proof.
    intros Hk. rewrite (room_normal_nth rm' (pi k)) by (rewrite sperm_room_np; now apply relabel_lt).
    rewrite (room_normal_nth rm k Hk), (relabel_wall k Hk).
    change (rm_normals rm') with (map m (rm_normals rm)). apply nthv_map_m.
  Qed.

  (** a visible pair on different walls keeps its order *)
  Theorem relabel_mono i j : i < j -> j < rm_np rm ->
    nthn (pr_wall_ids (rm_processed rm)) i <> nthn (pr_wall_ids (rm_processed rm)) j -> pi i < pi j.
  Proof.
    intros Hij Hj Hne. assert (Hi : i < rm_np rm) by lia.
    assert (Hsum : rm_np rm = sumn (map (@length quad) blocks))
      by (rewrite room_np_blocks; apply length_concat_sumn).
    assert (Hlt : nthn (pr_wall_ids (rm_processed rm)) i < nthn (pr_wall_ids (rm_processed rm)) j).
    { assert (Hle : nthn (pr_wall_ids (rm_processed rm)) i <= nthn (pr_wall_ids (rm_processed rm)) j).
      { rewrite room_ids_blocks. unfold nthn. apply wall_ids_mono; [lia|now rewrite <- Hsum]. }
      lia. }
    rewrite <- (relabel_wall i Hi), <- (relabel_wall j Hj), sperm_room_wall_ids in Hlt.
    destruct (Nat.lt_ge_cases (pi i) (pi j)) as [L|L]; [exact L|exfalso].
    assert (Hle : nthn (pr_wall_ids (rm_processed rm)) (pi j) <= nthn (pr_wall_ids (rm_processed rm)) (pi i)).
    { rewrite room_ids_blocks. unfold nthn. apply wall_ids_mono; [exact L|].
      rewrite <- Hsum. now apply relabel_lt. }
    lia.
  Qed.
End RoomRelabel.
