(** * What the four-way branch of [basic_visibility] decides, GIVEN that [point_in_polygon]
    answers correctly at the points it is asked about ([pip_correct_at], not proved).

    - both endpoints off the plane: hidden  <->  the open segment meets the surface;
    - one endpoint on the surface, the other off the plane: hidden <-> the other end is behind;
    - both within eta of the plane and one in the surface: hidden (coplanar).
    The only part of [pip_correct] that is proved is the coplanarity gate: a point further than
    eta from the plane is never reported inside ([pip_off_plane]). *)
From Coq Require Import List Arith Bool Ring Lia.
Import ListNotations.
From SV Require Import Base.Ops Base.Arr Model.Vec3 Model.Visibility Spec.VisibilitySpec
  Proofs.VisibilitySym.

Section Segment.
  Context {T : Type} {O : Ops T} {RL : RingLaws T} {OL : OrderLaws T} {FL : FieldLaws T}
          {AL : AbsLaws T}.
  Add Ring TRingVisSeg : (@ring_th T O RL).
  Local Notation vec := (@vec T).

  (** ** order facts *)
  Lemma tlt_false_le (a b : T) : tltb a b = false -> (b <= a)%T.
  Proof. rewrite tltb_spec. unfold tle. destruct (tleb b a); simpl; congruence. Qed.

  Lemma tlt_not_swap (a b : T) : (a < b)%T -> tltb b a = false.
  Proof.
    intros H. destruct (tltb b a) eqn:E; [|reflexivity].
    exfalso. apply (proj1 (tlt_iff _ _)) in E. apply E. now apply tlt_le.
  Qed.

  Lemma tle_opp_nonpos (a : T) : (0 <= a)%T -> (- a <= 0)%T.
  Proof. intros H. apply (proj2 (tle_sub _ _)). replace (0 - - a)%T with a by ring. exact H. Qed.

  Lemma tle_of_opp_nonneg (a : T) : (0 <= - a)%T -> (a <= 0)%T.
  Proof. intros H. apply (proj2 (tle_sub _ _)). replace (0 - a)%T with (- a)%T by ring. exact H. Qed.

  Lemma tlt_neg_pos (a : T) : (a < 0)%T -> (0 < - a)%T.
  Proof.
    intros H. apply tlt_iff. intros H1. apply (proj1 (tlt_iff _ _)) in H. apply H.
    replace a with (- - a)%T by ring. now apply topp_nonneg.
  Qed.

  Lemma tlt_pos_neg (a : T) : (0 < a)%T -> (- a < 0)%T.
  Proof.
    intros H. apply tlt_iff. intros H1. apply (proj1 (tlt_iff _ _)) in H. apply H.
    now apply tle_of_opp_nonneg.
  Qed.

  Lemma tmul_nonpos_nonpos (a b : T) : (a <= 0)%T -> (b <= 0)%T -> (0 <= a * b)%T.
  Proof.
    intros Ha Hb. replace (a * b)%T with ((- a) * (- b))%T by ring.
    apply tmul_nonneg; now apply topp_nonneg.
  Qed.

  Lemma tmul_neg_pos (k n : T) : (k < 0)%T -> (0 < n)%T -> (k * n < 0)%T.
  Proof.
    intros Hk Hn. replace (k * n)%T with (- ((- k) * n))%T by ring.
    apply tlt_pos_neg. apply tmul_pos; [now apply tlt_neg_pos|exact Hn].
  Qed.

  (** a negative product with a non-negative factor: the other factor is negative *)
  Lemma tmul_neg_factor (k n : T) : (0 <= n)%T -> (k * n < 0)%T -> (k < 0)%T.
  Proof.
    intros Hn H. apply tlt_iff. intros Hk. apply (proj1 (tlt_iff _ _)) in H. apply H.
    now apply tmul_nonneg.
  Qed.

  Lemma between_of_neg (t : T) : (t * (t - 1) < 0)%T -> (0 < t)%T /\ (t < 1)%T.
  Proof.
    intros H. apply (proj1 (tlt_iff _ _)) in H. split; apply tlt_iff; intros Hc; apply H.
    - apply tmul_nonpos_nonpos; [exact Hc|].
      apply (tle_trans _ t); [|exact Hc].
      apply (proj2 (tle_sub _ _)). replace (t - (t - 1))%T with 1%T by ring. apply tzero_le_one.
    - apply tmul_nonneg.
      + apply (tle_trans _ 1%T); [apply tzero_le_one|exact Hc].
      + now apply (proj1 (tle_sub _ _)).
  Qed.

  Lemma neg_of_between (t : T) : (0 < t)%T -> (t < 1)%T -> (t * (t - 1) < 0)%T.
  Proof.
    intros H0 H1. replace (t * (t - 1))%T with (- (t * (1 - t)))%T by ring.
    apply tlt_pos_neg. apply tmul_pos; [exact H0|].
    apply tlt_iff. intros Hc. apply (proj1 (tlt_iff _ _)) in H1. apply H1.
    apply (proj2 (tle_sub _ _)).
    replace (t - 1)%T with (- (1 - t))%T by ring. now apply topp_nonneg.
  Qed.

  Lemma tsq_zero (a : T) : (a * a)%T = 0%T -> a = 0%T.
  Proof.
    intros H. destruct (tle_total 0%T a) as [Ha|Ha].
    - destruct (tle_lt_or_eq _ _ Ha) as [Hlt|He]; [|now symmetry].
      exfalso. pose proof (tmul_pos a a Hlt Hlt) as Hp. rewrite H in Hp. now apply tlt_irrefl in Hp.
    - destruct (tle_lt_or_eq _ _ Ha) as [Hlt|He]; [|exact He].
      exfalso. pose proof (tlt_neg_pos a Hlt) as Hn. pose proof (tmul_pos _ _ Hn Hn) as Hp.
      replace ((- a) * (- a))%T with (a * a)%T in Hp by ring. rewrite H in Hp.
      now apply tlt_irrefl in Hp.
  Qed.

  (** a sum of three squares that vanishes has vanishing terms *)
  Lemma sumsq_zero (a b c : T) : ((a * a + b * b) + c * c)%T = 0%T -> a = 0%T /\ b = 0%T /\ c = 0%T.
  Proof.
    intros H.
    assert (Hz : forall x y z : T, ((x * x + y * y) + z * z)%T = 0%T -> x = 0%T).
    { intros x y z Hs. apply tsq_zero. apply tle_antisym; [|apply tsq_nonneg].
      replace (x * x)%T with (- (y * y + z * z))%T.
      - apply tle_opp_nonpos. apply tadd_nonneg; apply tsq_nonneg.
      - transitivity (((x * x + y * y) + z * z) - (y * y + z * z))%T; [rewrite Hs|]; ring. }
    repeat split.
    - exact (Hz a b c H).
    - apply (Hz b a c). rewrite <- H. ring.
    - apply (Hz c a b). rewrite <- H. ring.
  Qed.

  Lemma tabs_mul_le (t d : T) : (0 <= t)%T -> (t <= 1)%T -> (tabs (t * d) <= tabs d)%T.
  Proof.
    intros H0 H1. destruct (tle_total 0%T d) as [Hd|Hd].
    - rewrite (abs_pos d Hd), (abs_pos (t * d)%T) by now apply tmul_nonneg.
      replace d with (1 * d)%T at 2 by ring. now apply tmul_le_mono_nonneg_r.
    - pose proof (topp_nonneg d Hd) as Hn.
      rewrite (abs_neg d Hd). rewrite abs_neg.
      + replace (- (t * d))%T with (t * (- d))%T by ring.
        replace (- d)%T with (1 * (- d))%T at 2 by ring. now apply tmul_le_mono_nonneg_r.
      + apply tle_of_opp_nonneg. replace (- (t * d))%T with (t * (- d))%T by ring.
        now apply tmul_nonneg.
  Qed.

  (** ** geometry (ring identities) *)
  Lemma side_of_alt (s : surface) (x : vec) : vdot (s_nrm s) (vsub x (s_p0 s)) = side_of s x.
  Proof. unfold side_of. apply vdot_comm. Qed.

  Lemma denom_is_side_diff (s : surface) (p q : vec) :
    vdot (vsub q p) (s_nrm s) = (side_of s q - side_of s p)%T.
  Proof. unfold side_of, vdot, vsub, mkv, vx, vy, vz. simpl. ring. Qed.

  Lemma side_lerp (s : surface) (p q : vec) (t : T) :
    side_of s (lerp p q t) = (side_of s p + t * (side_of s q - side_of s p))%T.
  Proof. unfold side_of, lerp, vdot, vadd, vscale, vsub, mkv, vx, vy, vz. simpl. ring. Qed.

  Lemma dot_lerp (p q : vec) (t : T) :
    vdot (vsub (lerp p q t) p) (vsub (lerp p q t) q) = ((t * (t - 1)) * vnorm2 (vsub q p))%T.
  Proof. unfold lerp, vnorm2, vdot, vadd, vscale, vsub, mkv, vx, vy, vz. simpl. ring. Qed.

  (** the point [_project_to_plane] returns is the point of the line at parameter 1 - r *)
  Lemma projected_is_lerp (p q s0 : vec) (r : T) :
    vadd (vadd (vsub q s0) s0) (vscale (- r)%T (vsub q p)) = lerp p q (1 - r)%T.
  Proof.
    unfold lerp, vadd, vscale, vsub, mkv, vx, vy, vz. simpl.
    f_equal; [f_equal|]; ring.
  Qed.

  Lemma vnorm2_nonneg (v : vec) : (0 <= vnorm2 v)%T.
  Proof. unfold vnorm2, vdot. apply tadd_nonneg; [apply tadd_nonneg|]; apply tsq_nonneg. Qed.

  Lemma vnorm2_pos_of_dot (v n : vec) : vdot v n <> 0%T -> (0 < vnorm2 v)%T.
  Proof.
    intros Hd. destruct (tle_lt_or_eq _ _ (vnorm2_nonneg v)) as [H|H]; [exact H|].
    exfalso. apply Hd. symmetry in H. unfold vnorm2, vdot in H.
    destruct (sumsq_zero _ _ _ H) as (H1 & H2 & H3). unfold vdot. rewrite H1, H2, H3. ring.
  Qed.

  (** ** the proved part of pip_correct: the coplanarity gate *)
  Lemma pip_off_plane (eps eta : T) (s : surface) (x : vec) :
    (eta < tabs (side_of s x))%T -> pip eps eta s x = false.
  Proof.
    intros H. unfold pip, point_in_polygon. unfold side_of, s_p0 in H. unfold tlt in H.
    now rewrite H.
  Qed.

  Lemma far_not_near (eta : T) (s : surface) (x : vec) :
    (eta < tabs (side_of s x))%T -> tltb (tabs (vdot (vsub x (s_p0 s)) (s_nrm s))) eta = false.
  Proof. intros H. now apply tlt_not_swap. Qed.

  (** ** (a) endpoints off the plane *)
  Section OffPlane.
    Variables (eps eta : T) (inpoly : vec -> Prop) (s : @surface T) (p q : vec).
    Hypothesis Heps : (0 <= eps)%T.
    Hypothesis Hp_eps : (eps < tabs (side_of s p))%T.
    Hypothesis Hp_eta : (eta < tabs (side_of s p))%T.
    Hypothesis Hq_eta : (eta < tabs (side_of s q))%T.
    (** [point_in_polygon] is right wherever the line pq meets the plane *)
    Hypothesis Hpip : forall t : T, on_plane s (lerp p q t) ->
                                    pip_correct_at eps eta inpoly s (lerp p q t).

    Lemma basic_visibility_off_plane :
      basic_visibility eps eta p q s = false <-> seg_meets inpoly s p q.
    Proof.
      unfold basic_visibility. cbv zeta.
      rewrite (pip_off_plane eps eta s p Hp_eta), (pip_off_plane eps eta s q Hq_eta). simpl.
      unfold project_to_plane. cbv zeta.
      set (d := vdot (vsub q p) (s_nrm s)).
      assert (Hdd : d = (side_of s q - side_of s p)%T) by apply denom_is_side_diff.
      destruct (tltb eps (tabs d)) eqn:Hg.
      - (* gate open *)
        pose proof (gate_nonzero _ _ Heps Hg) as Hd.
        rewrite (side_of_alt s q).
        set (r := (side_of s q / d)%T).
        assert (Hr : (r * d)%T = side_of s q) by (apply tdiv_mul; exact Hd).
        rewrite (projected_is_lerp p q (s_p0 s) r).
        set (t0 := (1 - r)%T).
        assert (Hon : on_plane s (lerp p q t0)).
        { unfold on_plane. rewrite side_lerp, <- Hdd. unfold t0.
          replace (side_of s p + (1 - r) * d)%T with ((side_of s p + d) - r * d)%T by ring.
          rewrite Hr, Hdd. ring. }
        rewrite dot_lerp.
        split.
        + intros H.
          destruct (pip eps eta s (lerp p q t0)) eqn:Hx; [|discriminate].
          destruct (tltb (t0 * (t0 - 1) * vnorm2 (vsub q p))%T 0%T) eqn:Hs; [|discriminate].
          pose proof (tmul_neg_factor _ _ (vnorm2_nonneg (vsub q p)) Hs) as Hk.
          destruct (between_of_neg t0 Hk) as (H0 & H1).
          exists t0. repeat split; try assumption. now apply (Hpip t0 Hon).
        + intros (t & H0 & H1 & Hont & Hin).
          assert (Ht : t = t0).
          { assert (Hz : ((t - t0) * d)%T = 0%T).
            { unfold on_plane in Hont, Hon. rewrite side_lerp, <- Hdd in Hont, Hon.
              transitivity ((side_of s p + t * d) - (side_of s p + t0 * d))%T; [ring|].
              rewrite Hont, Hon. ring. }
            pose proof (tmul_cancel_r _ _ Hd Hz) as Hk.
            transitivity ((t - t0) + t0)%T; [ring|]. rewrite Hk. ring. }
          subst t.
          rewrite (proj2 (Hpip t0 Hon) Hin).
          assert (Hneg : (t0 * (t0 - 1) * vnorm2 (vsub q p) < 0)%T).
          { apply tmul_neg_pos; [now apply neg_of_between|].
            apply (vnorm2_pos_of_dot _ (s_nrm s)). exact Hd. }
          unfold tlt in Hneg. now rewrite Hneg.
      - (* gate closed: the segment is (nearly) parallel to the plane and cannot reach it *)
        split; [discriminate|].
        intros (t & H0 & H1 & Hont & _). exfalso.
        unfold on_plane in Hont. rewrite side_lerp, <- Hdd in Hont.
        assert (Hsp : side_of s p = (- (t * d))%T).
        { transitivity ((side_of s p + t * d) - t * d)%T; [ring|]. rewrite Hont. ring. }
        pose proof (tlt_false_le _ _ Hg) as Hle.
        pose proof (tabs_mul_le t d (tlt_le _ _ H0) (tlt_le _ _ H1)) as Hm.
        rewrite Hsp, tabs_opp in Hp_eps.
        apply (proj1 (tlt_iff _ _)) in Hp_eps. apply Hp_eps.
        now apply (tle_trans _ (tabs d)).
    Qed.
  End OffPlane.

  (** ** (b) one endpoint on the surface, the other off the plane *)
  Lemma basic_visibility_on_surface_fwd (eps eta : T) (inpoly : vec -> Prop) (s : surface) (p q : vec) :
    inpoly p -> pip_correct_at eps eta inpoly s p -> (eta < tabs (side_of s q))%T ->
    (basic_visibility eps eta p q s = false <-> (vdot (s_nrm s) (vsub q p) < 0)%T).
  Proof.
    intros Hin Hc Hq. unfold basic_visibility. cbv zeta.
    rewrite (proj2 Hc Hin), (pip_off_plane eps eta s q Hq), (far_not_near eta s q Hq). simpl.
    unfold tlt. destruct (tltb (vdot (s_nrm s) (vsub q p)) 0%T); simpl.
    - split; reflexivity.
    - rewrite andb_false_r. simpl. split; discriminate.
  Qed.

  Lemma basic_visibility_on_surface_bwd (eps eta : T) (inpoly : vec -> Prop) (s : surface) (p q : vec) :
    inpoly q -> pip_correct_at eps eta inpoly s q -> (eta < tabs (side_of s p))%T ->
    (basic_visibility eps eta p q s = false <-> (vdot (s_nrm s) (vsub p q) < 0)%T).
  Proof.
    intros Hin Hc Hp. unfold basic_visibility. cbv zeta.
    rewrite (proj2 Hc Hin), (pip_off_plane eps eta s p Hp), (far_not_near eta s p Hp). simpl.
    unfold tlt. destruct (tltb (vdot (s_nrm s) (vsub p q)) 0%T); simpl.
    - split; reflexivity.
    - split; discriminate.
  Qed.

  Lemma basic_visibility_on_surface (eps eta : T) (inpoly : vec -> Prop) (s : surface) (this other : vec) :
    inpoly this -> pip_correct_at eps eta inpoly s this -> (eta < tabs (side_of s other))%T ->
    (basic_visibility eps eta this other s = false <-> (vdot (s_nrm s) (vsub other this) < 0)%T) /\
    (basic_visibility eps eta other this s = false <-> (vdot (s_nrm s) (vsub other this) < 0)%T).
  Proof.
    intros Hin Hc Hoff. split.
    - exact (basic_visibility_on_surface_fwd eps eta inpoly s this other Hin Hc Hoff).
    - exact (basic_visibility_on_surface_bwd eps eta inpoly s other this Hin Hc Hoff).
  Qed.

  (** ** (c) both within eta of the plane and one of them in the surface: coplanar, hidden *)
  Lemma basic_visibility_coplanar (eps eta : T) (inpoly : vec -> Prop) (s : surface) (p q : vec) :
    (tabs (side_of s p) < eta)%T -> (tabs (side_of s q) < eta)%T ->
    pip_correct_at eps eta inpoly s p -> pip_correct_at eps eta inpoly s q ->
    inpoly p \/ inpoly q ->
    basic_visibility eps eta p q s = false.
  Proof.
    intros Hp Hq Hcp Hcq Hin. unfold basic_visibility. cbv zeta.
    unfold side_of, tlt in Hp, Hq. rewrite Hp, Hq.
    assert (Hor : pip eps eta s p = true \/ pip eps eta s q = true).
    { destruct Hin as [H|H]; [left; now apply Hcp|right; now apply Hcq]. }
    destruct (pip eps eta s p), (pip eps eta s q); simpl.
    - reflexivity.
    - now destruct (tltb (vdot (s_nrm s) (vsub q p)) 0%T).
    - now destruct (tltb (vdot (s_nrm s) (vsub p q)) 0%T).
    - destruct Hor; discriminate.
  Qed.
End Segment.
