"""Regenerates /verif/MANIFEST.json from the table below (kept in one place so it stays valid)."""
import json
import os

VERIF = os.path.dirname(os.path.dirname(os.path.abspath(__file__)))
BASE = "cd /repo && /venv/bin/python -m pytest -ra -q -p no:cacheprovider --timeout=900 --continue-on-collection-errors"

TRUST = ("Trusted: Coq 8.16.1 kernel (full .vo build), extraction with ExtrOcamlBasic only (no Extract Constant), "
         "ocamlopt, the OCaml driver's float ops record, the Python harness/generators; float64 is not a ring "
         "(theorems hold for every (ordered) ring/field instance; compared at rel. 1e-9, exact zeros must match). "
         "The model<->code tie is differential testing of the extracted hand-written model against /repo's "
         "working tree on every run. ")

CHECKS = {
    "C15": dict(
        text="Proof (with refutations) over an L2 object state machine (25 fields with kind/shape/provenance, "
             "one step per public method, partial effects of failed calls kept): every field a call reads is serialised "
             "except _source (refuted: direct-sound collect after restore, known finding); the kind invariant holds for a "
             "fresh object and is preserved by every call, so in EVERY reachable state restore(save s) is Ok with s' ~ s "
             "and eq true exactly when check() accepts s, and raises that error otherwise (two reachable refused classes "
             "are witnessed: partial materials, stale cache -- known findings); ~ is a bisimulation for EVERY call except "
             "the direct-sound collect (setters, bake, init_source incl. default installs and partial effects, exchange "
             "with/without recalculate, collect(direct_sound=False), both round trips); headline "
             "C15_lossless_continuation: after a round trip at any reachable accepted stage every continuation without "
             "direct-sound collects answers with the same classes and observations on original and restored object and "
             "passes through similar states (induction over op lists). The correspondence runs "
             "random op sequences on the real object and compares presence/kind/shape/exception class and provenance-equal "
             "=> bit-identical arrays; twin tests finish the pipeline on original and restored object.",
        note=TRUST + "NOT carried: the theorems are about the L2 model (ownership and _source are not compared by ~); "
             "per-call tightness of the declared read sets; bit-identity of array contents through the IO layer "
             "(harness); the Kang round trip (implementation test only).",
        technique="Coq proof over an abstract object state machine + op-sequence correspondence", ref="5/C15"),
    "C16": dict(
        text="Proof (partial, with refutations) over the same L2 model: the provenance of baked factors / initial energy "
             "depends on the table list and index only through the per-wall resolution (overwritten tables and setter "
             "order vanish); bake, init_source_energy (also when it installs defaults), exchange(recalculate) and "
             "set_air_attenuation are idempotent (Leibniz equality of the state), and so is the whole tail bake; "
             "init_source; exchange when materials and attenuation were set; final-configuration theorem over ALL histories: two states (or two arbitrary histories from a fresh "
             "object) that agree on the configuration fields answer bake; init_source; exchange(recalculate) with the same "
             "classes up to the first failure and, on success, the same provenance of every receiver collection -- no "
             "cached field of either state enters (C16_final_config_history_independent; its configuration equality is "
             "Leibniz equality of the descriptors incl. kind/ownership tags, which a save/restore changes -- "
             "C16_final_config_history_independent_sim states it modulo the normalisation of C15, so histories with "
             "round trips are covered). Refuted with witnesses (known findings): default-BRDF install by init_source_energy changes a "
             "re-bake, stale tables of another direction count break bake, from_dict aliases the caller's direction "
             "lists. The check compares every history with the canonical history of its effective configuration, all "
             "setter permutations, repeated stages, and deep-copies every caller-owned object around every call.",
        note=TRUST + "NOT carried: configuration equality in the theorem is equality of the raw table list and index (the "
             "resolution lemma covers overwritten tables only for the material part), idempotence of init_source, the frame property (aliasing is observed, not proved).",
        technique="Coq proof over an abstract object state machine + op-sequence correspondence", ref="5/C16"),
    "C17": dict(
        text="Proof (partial): translating scene, source and receivers leaves baked factors, slot maps, delays, initial "
             "energies, patch histograms, patch-wise and mono curves of the executable model IDENTICAL (everything depends "
             "on positions through differences); relabelling invariance of the recursion under any patch renumbering with "
             "permuted pair list (what axis permutations induce); distances and all delay bins are preserved by "
             "orthogonal maps + translation; pt_solution / Stokes(translation) / tiling(translation, 48 axis maps) kernel invariances "
             "collected; visibility invariant given equal point-in-polygon answers; rescaling wall normal/up changes no "
             "BRDF direction. For the COMPOSED room model (polygons -> tiling -> visibility -> form factors -> shares -> "
             "exchange -> receiver) nothing is assumed about baked data: translating the room description gives the "
             "IDENTICAL output curve (C17_room_translate: tiling, centroids, point-in-polygon, visibility scans, Stokes and "
             "Nusselt entries, shares all derived); under the 48 signed axis permutations there is a patch renumbering pi "
             "with centres, areas, wall ids, normals, all delay bins (C17_room_geometry_axis_permutation), source / "
             "receiver shares and initial energies (C17_room_initial_energy_axis_permutation), the Stokes entries of the "
             "form-factor matrix with any cut-off (C17_room_stokes_axis_permutation) transported; the wall frames follow "
             "the handedness (C17_room_frames_axis_permutation: transported for the 24 rotations, tangential y flipped by a "
             "mirroring); C17_room_axis_permutation_partial derives every other hypothesis of C17_relabel_scene for "
             "rotations, C17_room_rotation_curve_partial concludes that the output curve is the identical list. NOT carried: the 0.5%-of-peak bound under axis permutations (Nusselt asymmetry; measured), "
             "the Nusselt-branch entries and the visibility data of the image room (hypotheses of the partial theorem), "
             "mirrorings of direction-dependent BRDFs, point-in-polygon under rotations.",
        note=TRUST + "For translations the composed model's output is proved identical with no hypothesis.  For axis "
             "permutations the patch-to-patch / source visibility and the Nusselt-branch form factors of the image room "
             "being the sigma-transported data remain hypotheses (established per scene by the harness, matching patch "
             "centres); all other baked data are derived.",
        technique="Coq proof (ring identities, Permutation-invariant sums) + extracted-model correspondence", ref="5/C17"),
    "C05": dict(
        text="Proof (partial): invisible pairs have exactly zero stored / full / baked factors; A_i ff_full i j = "
             "A_j ff_full j i for the area-ratio rule (field); the Stokes double Boole sum is symmetric in the two "
             "patches and A_i stokes(i->j) = A_j stokes(j->i); stokes >= 0; Boole's rule is exact for polynomials of "
             "degree <= 5; the code's cut-off 0 (after fix cfd1b2b) = the cut-off-free sum for ALL patches; the Stokes kernel "
             "is invariant under translations, rigid motions x -> Mx+t (M^T M = I), uniform scalings (ln(xy) = ln x + ln y, "
             "sqrt laws, closed-polygon telescoping) and the 48 signed axis permutations (for every cut-off). The Nusselt "
             "branch is an executable model too (Model/Nusselt.v, correspondence at 1e-9 on touching pairs and on whole "
             "rooms with NO form-factor value taken from /repo): translation and uniform-scaling invariance, the sample "
             "grid of a rectangle, assembly (invisible pairs zero, reciprocity by area ratio) for the fully computed "
             "matrix; the composed end-to-end model (Model/Full.v) computes its whole form-factor matrix itself "
             "(C05_room_form_factors_computed). NOT carried: F <= 1, the 2.5% closure (quadrature accuracy), rotation "
             "invariance and bounds of the Nusselt branch.",
        note=TRUST + "ln/sqrt/abs abstract (LnLaws/SqrtLaws instantiated over R); np.linalg.inv of the 3x3 Vandermonde "
             "matrix is modelled by its closed form (compared numerically); accuracy is C06 (not claimed).",
        technique="Coq proof over ordered field + extracted-model correspondence", ref="5/C05"),
    "C09": dict(
        text="Proof: Green-function argument in any commutative ring: first-leg recursion = last-leg recursion, hence the "
             "k-leg kernel is symmetric up to area weights given form-factor reciprocity, symmetric delays and the "
             "RECEIVING wall's reflectance; hence response(A->B) = response(B->A) in every bin, every order. Lifted to "
             "the executable pipeline model (C09_model): the model's patch histograms are that recursion (pair list = "
             "matrix form, proved duplicate-free), the baked matrix satisfies reciprocity (area-ratio rule, field), and the "
             "mono curves coincide when each point's two roles are linked and the delayed energy fits the histogram "
             "(C09_model_vis: hypotheses asked of the table entries the model reads and of the patches a point sees; "
             "the older C09_model asks them of all indices, which only reflectance 0 meets: "
             "C09_model_diffuse_everywhere_forces_zero). Lifted further to the COMPOSED room model "
             "(C09_room_reciprocal): room_mono A B = room_mono B A in every band and bin for a room given by its "
             "polygons, with the role link (receiver factor = 4 x source share / area) discharged from the model of "
             "pt_solution and the room's own areas, one visibility vector for both roles, well-formedness of the "
             "composed scene; Instances/RoomQc.v exhibits a room (hidden patch included) meeting every hypothesis, "
             "computes both curves, and shows the bin hypothesis is needed (curves shifted by one bin otherwise).",
        note=TRUST + "Hypotheses of C09_room_reciprocal: one outgoing slot and per-wall constant BRDF tables (diffuse), "
             "non-zero patch areas, ceil bin = floor bin + 1 on the legs to visible patches (from 'no leg is a multiple "
             "of c dt' over an ordered field: C09_room_reciprocal_ordered), no receiver-stage wrap (np.roll finding).",
        technique="Coq proof (operator adjointness by induction) + extracted-model correspondence", ref="5/C09"),
    "C20": dict(
        text="Proof: patch energy / direct sound with directivity = omnidirectional value x table[nearest direction in "
             "the source frame][nearest frequency]; the frame direction is invariant when pose, target and scene are "
             "rotated together (M^T M = I, det M = 1); an all-ones table or no directivity reproduces the omnidirectional "
             "e0, histograms and mono curve exactly. Correspondence on synthetic FreeFieldDirectivityTF SOFA files.",
        note=TRUST + "atan2/asin -> cos/sin round trip is modelled by its trig-free form (checked at 1e-9 by the "
             "correspondence); KD-tree find_nearest = exhaustive first argmin (near-ties rejected).",
        technique="Coq proof over commutative ring/field + extracted-model correspondence", ref="5/C20"),
    "C03": dict(
        text="Proof: the executable pipeline model equals, bin for bin and for every outgoing slot and band, the L0 "
             "recursion (one equation per order) fed with visible pairs, centre-distance travel-time bins and the transfer "
             "factor form factor x attenuation x pi*BRDF of the RECEIVING wall at the nearest incoming sample "
             "(C03_refines, C03_transfer_factor); order K = order K-1 + non-negative term; non-negativity from "
             "non-negative data; diffuse tables make the histograms independent of the direction sampling, across "
             "scenes with different numbers of directions (C03_diffuse_sampling_independent_bounded: tables constant "
             "on their in-range entries; the older C03_diffuse_sampling_independent asks it of all indices, which only "
             "reflectance 0 meets: C03_diffuse_forces_zero; non-vacuity example in Instances/NonVacuity.v). Correspondence on shoeboxes and closed triangle polyhedra; "
             "the search compares /repo with a second, independently written Python solver.",
        note=TRUST + "'finite' is a float notion (correspondence only). The reference solver takes the baked form "
             "factors/visibility as scene data (C05/C07).",
        technique="Coq refinement proof (list model = recursion) + extracted-model correspondence", ref="5/C03"),
    "C07": dict(
        text="Proof (partial): the early-exit scans equal forallb over the surfaces, the patch matrix is the strict upper "
             "triangle of the line-of-sight conjunction, the relation and basic_visibility itself are symmetric in the two "
             "points (field laws, eps >= 0), and -- conditional on pip_correct along the line -- hidden <=> the open "
             "segment meets the surface, with the endpoint and coplanar branches characterised. pip_correct (the "
             "winding test with tolerances) is proved for axis-aligned rectangular surfaces (six orientations, eight "
             "vertex orders, margin eta/2 from the edge lines, sqrt laws), which makes the segment logic unconditional "
             "for shoebox rooms, and for triangles on axis planes in general position; for any polygon on an axis "
             "plane in general position it is reduced to a tolerance-free crossing number; for general polygons it is NOT proved and is refuted as a universal statement by a Qc "
             "witness (ray through a pointed vertex: known finding C07/ray_through_vertex). Correspondence against an "
             "exact rational segment/polygon oracle. For the composed end-to-end model: the patch surfaces of a room "
             "with axis-aligned rectangular walls are axis-aligned rectangles (derived from the tiling theorems), and "
             "for centroids in general position two patches exchange energy iff no patch rectangle blocks the segment "
             "between their centroids (C07_room_visibility_geometric); a patch never exchanges energy with a patch "
             "behind it or in its own plane (C07_room_behind_hidden, C07_room_coplanar_hidden). For genuine shoebox "
             "rooms (the walls of sp.testing.shoebox_room_stub, patch size <= every side, 2 eps and 2 eta below the "
             "patch size) general position is a theorem (C07_shoebox_general_position) and visibility has a closed "
             "form: two patches exchange energy iff they lie on different walls (C07_shoebox_visibility); every patch "
             "is visible from a point strictly inside the box (C07_shoebox_point_visibility).",
        note=TRUST + "Winding-number correctness for non-rectangular or rotated surfaces is validated by differential "
             "testing only. For rooms that are not shoeboxes, general position of the centroids with respect to the "
             "other patches' rectangles is a hypothesis of the room theorem.",
        technique="Coq proof over ordered field + extracted-model correspondence + exact-rational oracle", ref="5/C07"),
    "C19": dict(
        text="Proof: the Kang list model's order-(k+1) histogram is the stated sum over the patches of all other walls "
             "(get_form_factor's offset arithmetic addresses the right column: induction over other_wall_ids), delayed "
             "with zero fill (nothing before the delay, nothing wraps, no bins beyond N; truncation commutes with the "
             "recursion), scaled by form factor, scattering, (1-alpha) of the RECEIVING wall and exp(-m d); response "
             "monotone in K for non-negative data; direct sound adds exactly its value in one bin; full invariance under "
             "translation and cyclic axis permutation of axis-aligned scenes (the scalar formulas are modelled).",
        note=TRUST + "E_matrix is invariant under the axis permutation only up to the patch relabelling the tiling "
             "induces (patch order is data; tiling is C08). sqrt/atan/exp are abstract operations.",
        technique="Coq proof (induction over wall lists/orders) + extracted-model correspondence", ref="5/C19"),
    "C04": dict(
        text="Proof (partial): share <= 1/2 (strict under a stated non-degeneracy), exact zero for hidden/back-facing "
             "patches, invariance of the angle sum under cyclic shift and reversal of the vertex list, invariance under "
             "translation, linear isometries and uniform scaling are theorems about the executable model of pt_solution "
             "(ordered field with sqrt/acos laws; R instance shows the laws satisfiable). NOT carried by any theorem: "
             "0 <= share, closed-room shares sum to 1, independence of subdivision (all three are the spherical "
             "angle-excess / Gauss-Bonnet theorem) - exercised only by the failing-input search against an independent "
             "solid-angle formula. In a genuine shoebox room every patch is visible from a source or receiver "
             "strictly inside the box, so the hidden-patch clause is vacuous there (C04_shoebox_all_patches_visible).",
        note=TRUST + "acos/sqrt are abstract operations with stated laws; InstR.v depends on the stdlib real axioms "
             "(sig_not_dec, sig_forall_dec, functional_extensionality_dep, classic). Visibility is an input (C07).",
        technique="Coq proof over ordered field + extracted-model correspondence", ref="5/C04"),
    "C08": dict(
        text="Proof: count = floor(side/p) per direction and = total_number_of_patches; every patch is the stated grid "
             "cell (congruent, in the wall plane); cells have disjoint interiors, cover the bounding rectangle and lie in "
             "it; areas sum to the wall area; wall attribution and normals by contiguous blocks; output depends only on "
             "per-axis extents and per-vertex flat coordinate hence identical for all vertex orders of a planar wall; "
             "translation equivariance; under each of the 48 signed axis permutations the patch list of the image wall is a "
             "permutation of the images of the patches (explicit index map, one fixed vertex reorder; both engines); "
             "Kang tiling = fast tiling. Over any ordered field with floor laws (Qc instance).",
        note=TRUST + "Float rounding of the last grid line and of translation is measured, not proved; the sqrt-based "
             "_polygon_area clause assumes SqrtLaws (no Qc instance).",
        technique="Coq proof over ordered field with floor + extracted-model correspondence", ref="5/C08"),
    "C14": dict(
        text="Proof: the wall map with columns (up, normal x up, normal) is rigid for orthonormal (normal, up): inner "
             "products preserved, +z -> normal, +x -> up, normal component = reference z; the lookup returns the first "
             "index of minimal squared distance (= smallest angle for unit vectors); nearest rotated sample to rot(w) = "
             "nearest reference sample to w; the executable model uses exactly these lookups at source deposit, patch "
             "pair (receiving wall's incoming sample) and receiver. Correspondence of _rotate_coords_to_normal, "
             "set_wall_brdf, get_scattering_data_* and baked scenes with direction-dependent tables.",
        note=TRUST + "pyfar's rotation machinery is a black box compared at 1e-12 absolute; completeness "
             "rot(rotT v) = v IS proved (C14_frame_complete), so the lookup of any direction is the lookup of its "
             "wall-frame coordinates.",
        technique="Coq proof over commutative ring / ordered ring + extracted-model correspondence", ref="5/C14"),
    "C18": dict(
        text="Proof (partial, with refutations): Consistent s -> construct s = Ok for the model of __init__ conversions + "
             "check() cascade; every catalogue clause that is violated yields ValueError unless it is one of the named "
             "masked/foreign situations, each of which is exhibited by a _refuted witness theorem (rank-1 normal / up "
             "vector in a one-wall scene and a bare-int patch_to_wall_ids are ACCEPTED: np.atleast_Nd hides the missing "
             "axis - known findings). Correspondence: >20000 constructor calls over 5 pipeline stages x ~110 corruptions.",
        note=TRUST + "Inputs the abstract state cannot describe (ragged lists, NaN scalars, unknown keys) are not carried.",
        technique="Coq proof over abstract state + extracted-model correspondence", ref="5/C18"),
    "C01": dict(
        text="Proof (partial on one numeric clause): energy balance per order with the RECEIVING wall's reflectance, "
             "the (1+closure error) bound, exact zero for absorbing walls and truncation monotonicity are theorems about "
             "the L0 recursion and the executable pipeline model (proved equal on the window: C01_model_is_recursion), "
             "for all scenes/orders/histogram lengths; closed under the global context. The balance of the executable "
             "model of a diffuse scene is C01_model_balance_bounded (diffuse hypothesis on the in-range table entries; "
             "the older C01_model_balance asks it of all indices, which only reflectance 0 meets: "
             "C01_model_balance_forces_zero; non-vacuity example in Instances/NonVacuity.v). The model is run against "
             "/repo on baked scenes and synthetic asymmetric kernel inputs each run; the property statement is also "
             "evaluated directly on the implementation (failing-input search).",
        note=TRUST + "Not carried by a theorem: the numeric value 2.5% of the form-factor closure error (quadrature "
             "accuracy; measured per scene). Form factors, visibility and point shares enter the model as data.",
        technique="Coq proof over generic ring + extracted-model correspondence", ref="5/C01"),
    "C02": dict(
        text="Proof (partial: receiver stage): path expansion (every contribution lands in the bin that is the sum of its "
             "per-leg bins and nowhere else), nothing before the first path, floor/ceil triangle lemmas (not before the "
             "direct bin), and no-wrap/drop for the patch stage (model = unbounded recursion restricted to the window; "
             "no bins beyond N) are theorems. The receiver stage of /repo delays with np.roll: the clause is refuted for "
             "the faithful model (C02_receiver_wrap_refuted), proved on the complement, and listed as known finding "
             "C02/receiver_wrap (repair breaks 5 pinned tests).",
        note=TRUST + "Not carried: the sharper convex-room claim for paths with >= 1 patch leg (only direct bin - k is "
             "proved); near-integer delay arguments are excluded (rounding edge).",
        technique="Coq proof (induction over orders/path lists) + extracted-model correspondence", ref="5/C02"),
    "C10": dict(
        text="Proof: each leg of the executable model carries exp(-m_b d) of its own geometric length (patch, source, "
             "receiver, direct); legs compose to exp(-m L) along a path (path_attenuation, needs exp laws); m=0 gives "
             "factor 1; monotone in m and in d; the recursion is monotone in its data. Correspondence + leg-by-leg "
             "ratio tests against the m=0 run on every run.",
        note=TRUST + "exp is an abstract operation with the laws exp 0 = 1, exp(a+b) = exp a * exp b, positivity, "
             "monotonicity; libm vs numpy differ <= 1 ulp.",
        technique="Coq proof over ring with exp laws + extracted-model correspondence", ref="5/C10"),
    "C11": dict(
        text="Proof (partial: wrap): patch term formula with nearest outgoing slot, receiver factor and attenuation, "
             "delayed by ceil bins (full strength when the delayed energy fits; refuted otherwise: np.roll, known "
             "finding), hidden patches exactly zero, receivers independent, mono = sum of patch-wise, direct sound "
             "adds exactly its value in the bin of r/c. For the COMPOSED room model (C11_room_receiver): room_mono in "
             "band b, bin t = sum over the patches the room's point visibility reports visible of histogram (slot "
             "nearest to the receiver direction in the wall's frame) x pt_solution(receiver mode) x exp(-m d), cyclic "
             "ceil-bin delay as in the code (truncated shift when the energy fits: C11_room_receiver_partial), plus the "
             "direct sound. Correspondence on 1-4 receivers inside/outside; independent solid-angle oracle in the search.",
        note=TRUST + "In the scene model receiver visibility and the solid-angle factor are inputs (tied in C07/C04); in "
             "the composed room model they are computed (point-to-patch scan, pt_solution). Solid-angle correctness of "
             "pt_solution is Gauss-Bonnet and not proved.",
        technique="Coq proof + extracted-model correspondence", ref="5/C11"),
    "C12": dict(
        text="Proof: the recursion for band b reads only band-b data (L0), and in the executable model baked factors, "
             "initial energy, patch histograms and receiver entries of band b equal those of any scene with the same "
             "geometry whose band b' carries the same attenuation and pi*BRDF values (all sizes, orders). "
             "Correspondence on 2-6 bands; multi-band vs single-band objects compared bit for bit.",
        note=TRUST,
        technique="Coq proof (non-interference by induction) + extracted-model correspondence", ref="5/C12"),
    "C13": dict(
        text="Proof: for both constructors, under the stated Gauss-type hypotheses H1-H3 (sum w cos = sum w / 2, mirror "
             "map an involution preserving w and cos, positivity): energy = 1-a with the s/(1-s) split, scale "
             "invariance, non-negativity, symmetry, directional variant; over any ordered field; Qc instance shows the "
             "hypotheses satisfiable. Correspondence of create_from_scattering / create_from_directional_scattering "
             "incl. non-mirror-closed samplings that expose the index pattern.",
        note=TRUST + "Not carried: whether a given pyfar sampling is Gauss-type (hypotheses), SOFA writing, input "
             "validation TypeErrors. find_nearest (KD-tree) is replaced by an exhaustive argmin computed by the harness.",
        technique="Coq proof over ordered field + extracted-model correspondence", ref="5/C13"),
}

NOT_APPLICABLE = [
    {"property_id": "C06", "reason": "pure numerical-accuracy envelope (1%/3%/8%/5%) of two fixed quadrature rules "
     "against a 4-fold real integral over a continuum of configurations; no theorem buildable with the installed "
     "libraries carries it and sampling may not stand in for one (DESIGN.md section 7)"},
]


def main():
    checks = []
    for pid in sorted(CHECKS):
        c = CHECKS[pid]
        checks.append({
            "property_id": pid,
            "quick_cmd": "./check %s --tier quick" % pid,
            "thorough_cmd": "./check %s --tier thorough" % pid,
            "evidence_file": "/verif/evidence/%s.json" % pid,
            "replay_cmd_template": "./check %s --replay {path}" % pid,
            "engine": "coq-model",
            "level_claimed": {"category": "proof", "text": c["text"], "design_ref": "DESIGN.md section " + c["ref"]},
            "level_note": c["note"],
            "technique": c["technique"],
        })
    claimed = set(CHECKS)
    na = list(NOT_APPLICABLE)
    pending = []
    with open(os.path.join(VERIF, "properties.jsonl")) as fh:
        for line in fh:
            pid = json.loads(line)["id"]
            if pid not in claimed and pid not in {x["property_id"] for x in na}:
                pending.append(pid)
    for pid in pending:
        na.append({"property_id": pid, "reason": "not claimed yet: its model/proofs/correspondence are still being "
                   "built (the technique applies; see DESIGN.md section 5/%s)" % pid})
    man = {
        "version": 1,
        "setup_cmd": "make -C /verif all",
        "hooks": {
            "guard": "SPARROWPY_VERIF",
            "enable": "no source hooks are used; checks import sparrowpy from /repo's working tree (PYTHONPATH=/repo)",
            "baseline_off_cmd": BASE,
            "source_commits": [],
            "add_only": True,
        },
        "engines": [{"name": "coq-model", "path": "/verif/coq",
                     "serves_properties": sorted(claimed),
                     "kind_free_text": "Coq 8.16 development: polymorphic executable Gallina models, L0 specs, proofs, "
                                       "extraction to OCaml driver; Python harness for correspondence and search"}],
        "checks": checks,
        "not_applicable": na,
        "notes": "Fix commits in /repo (unguarded, 'fix:'): see /verif/known_findings.json. Known findings are printed "
                 "as KNOWN-FINDING lines. VERIF_SEED seeds every generator.",
    }
    with open(os.path.join(VERIF, "MANIFEST.json"), "w") as fh:
        json.dump(man, fh, indent=1)
    print("checks:", len(checks), "not_applicable:", len(na))


if __name__ == "__main__":
    main()
