"""Pipeline cases: run /repo's DirectionalRadiosityFast and the extracted Gallina model
on the same scene, compare every stage, and evaluate property statements directly on
the implementation's results (the failing-input search)."""
import numpy as np
import pyfar as pf

from common import Tok, run_driver, floats, ints, cmp_float, cmp_exact, case_hash, ulp_dist
import scenes as S


def draw_timing(rng, cfg, K, mode, radi, src, recs):
    """c, dt, duration.  mode 'long': window holds every arrival up to order K (+receiver leg);
    'short': window shorter than the tail, so truncation happens."""
    diag = float(np.linalg.norm(cfg["dims"]))
    for _ in range(200):
        c = float(np.round(rng.uniform(330.0, 350.0), 2))
        if mode == "long":
            span = (K + 2.2) * diag / c
            nbin = int(rng.integers(50, 90))
        elif mode == "coarse":
            # window holds every arrival but the bins are wider than neighbouring patch
            # distances: many legs have a zero-bin delay
            span = (K + 2.2) * diag / c
            nbin = int(rng.integers(6, 16))
        elif mode == "short":
            span = rng.uniform(0.7, 1.6) * diag / c
            nbin = int(rng.integers(12, 40))
        else:  # 'tiny': shorter than the first arrivals of some patches
            span = rng.uniform(0.15, 0.5) * diag / c
            nbin = int(rng.integers(4, 12))
        dt = float(np.round(span / nbin, 7))
        dur = float(np.round(span * rng.uniform(1.0, 1.02), 6))
        centers = radi.patches_center
        dists = [np.linalg.norm(centers - src, axis=1)]
        for r in recs:
            dists.append(np.linalg.norm(centers - r, axis=1))
            dists.append([np.linalg.norm(r - src)])
        dists.append((np.linalg.norm(centers[:, None, :] - centers[None, :, :], axis=2)).reshape(-1))
        alld = np.concatenate([np.asarray(d).reshape(-1) for d in dists])
        if S.near_int_delay(alld, c, dt, 1e-7) or not S.away_from_int(dur / dt, 1e-6):
            continue
        return c, dt, dur
    raise RuntimeError("no timing drawn")


def impl_pipeline(radi, src, c, dt, dur, K, recs, direct=False, source_obj=None):
    radi.init_source_energy(source_obj if source_obj is not None else pf.Coordinates(*src))
    radi.calculate_energy_exchange(c, dt, dur, K, recalculate=True)
    out = {"etc": radi._energy_exchange_etc.copy()}
    if len(recs):
        rc = pf.Coordinates(np.array(recs)[:, 0], np.array(recs)[:, 1], np.array(recs)[:, 2])
        out["patchwise"] = radi.collect_energy_receiver_patchwise(rc).time.copy()
        out["mono"] = radi.collect_energy_receiver_mono(rc, direct_sound=direct).time.copy()
    return out


def model_session(radi, src, c, dt, dur, K, recs, direct=False, dirfac=None, rdirfac=None):
    tok = S.scene_tokens(radi)
    S.timing_tokens(tok, c, dt, dur)
    S.source_tokens(tok, radi, src, dirfac)
    for q in ["q_nsamples", "q_pairs", "q_tilde", "q_p2o", "q_e0dir", "q_srcdist"]:
        tok.cmd(q)
    tok.cmd("q_hist").i(K)
    for ri, r in enumerate(recs):
        S.receiver_tokens(tok, radi, r)
        tok.cmd("q_patchwise")
        tok.cmd("q_mono").b(direct)
        if rdirfac is None:
            tok.b(False)
        else:
            tok.b(True).arr(rdirfac[ri])
    return tok


def scene_ties(radi, src, recs, eps=1e-9, axis_exact=True):
    """near-ties of the nearest-direction lookups of a scene: (set of (i,j) with an
    out-index tie, True if any incoming/source/receiver lookup has a tie).  A tie is decided
    by the last bit of the normalised direction, where numpy's BLAS norm and the model's
    sqrt-of-sum may legitimately differ, so such lookups are 'near-decision' inputs."""
    c = radi.patches_center
    wall = radi._patch_to_wall_ids
    ins = np.array([s.cartesian for s in radi._brdf_incoming_directions])
    outs = np.array([s.cartesian for s in radi._brdf_outgoing_directions])
    if outs.shape[1] < 2 and ins.shape[1] < 2:
        return set(), False

    def tie(dirs, v):
        if dirs.shape[0] < 2:
            return False
        if axis_exact and np.count_nonzero(v) == 1:
            # axis-parallel difference: its norm and the normalised vector are exact in both
            # implementations, so an exact tie is broken identically (first index)
            return False
        d = np.sort(np.sum((dirs - v / np.linalg.norm(v)) ** 2, axis=-1))
        return bool(d[1] - d[0] < eps)
    V = radi.visibility_matrix
    n = radi.n_patches
    out_ties = set()
    other = False
    for i in range(n):
        for j in range(n):
            if i != j and (V[i, j] or V[j, i]):
                if tie(outs[wall[i]], c[j] - c[i]):
                    out_ties.add((i, j))
                if tie(ins[wall[j]], c[i] - c[j]):
                    other = True
    for k in range(n):
        if src is not None and tie(ins[wall[k]], np.asarray(src) - c[k]):
            other = True
        for r in recs:
            if tie(outs[wall[k]], np.asarray(r) - c[k]):
                other = True
    return out_ties, other


def compare_stages(radi, impl, out, K, recs, dur, dt, src=None, directional=None, axis_exact=True):
    """out: list of (name, tokens) from the driver, in the order of model_session.
    directional: True if some BRDF table depends on the direction indices (then a lookup tie
    makes the whole case a near-decision input); None = decide from the tables."""
    mism = []
    maxulp = 0.0
    out_ties, other_ties = scene_ties(radi, src, recs, axis_exact=axis_exact)
    if directional is None:
        tb = np.array(radi._brdf)
        directional = bool(np.any(tb != tb[:, :1, :1, :]))
    if (out_ties or other_ties) and directional:
        return [{"rejected": True}], 0.0
    np_, nb = radi.n_patches, radi.n_bins
    nd = np.array([s.cartesian for s in radi._brdf_outgoing_directions]).shape[1]
    N = int(dur / dt)
    it = iter(out)

    def nxt(name):
        n, t = next(it)
        assert n == name, (n, name)
        return t
    n_model = int(nxt("q_nsamples")[0])
    if n_model != N:
        mism.append({"stage": "n_samples", "what": "impl %d model %d" % (N, n_model)})
        return mism, maxulp
    checks = [
        ("visible_patches", radi._visible_patches, ints(nxt("q_pairs"), (-1, 2)), True),
        ("form_factors_tilde", radi._form_factors_tilde, floats(nxt("q_tilde"), (np_, np_, nd, nb)), False),
        ("patch_2_brdf_outgoing_index", radi._patch_2_brdf_outgoing_index, ints(nxt("q_p2o"), (np_, np_)), True),
        ("energy_init_source", radi._energy_init_source, floats(nxt("q_e0dir"), (np_, nd, nb)), False),
        ("distance_patches_to_source", radi._distance_patches_to_source, floats(nxt("q_srcdist")), False),
        ("energy_exchange_etc", impl["etc"], floats(nxt("q_hist"), (np_, nd, nb, N)), False),
    ]
    for ri in range(len(recs)):
        checks.append(("patchwise[r%d]" % ri, impl["patchwise"][ri], floats(nxt("q_patchwise"), (np_, nb, N)), False))
        checks.append(("mono[r%d]" % ri, impl["mono"][ri], floats(nxt("q_mono"), (nb, N)), False))
    for name, a, b, exact in checks:
        if name == "patch_2_brdf_outgoing_index" and out_ties:
            a = np.array(a).copy()
            b = np.array(b).copy()
            for (i, j) in out_ties:
                b[i, j] = a[i, j]
        m = cmp_exact(a, b, name) if exact else cmp_float(a, b, what=name)
        if m:
            mism.append({"stage": name, "what": m})
        elif not exact and np.asarray(a).size:
            maxulp = max(maxulp, ulp_dist(a, b))
    return mism, maxulp


def full_ff(radi):
    """full form-factor matrix with the area-ratio rule, from the baked upper triangle"""
    F = radi.form_factors
    A = radi.patches_area
    n = radi.n_patches
    full = np.zeros((n, n))
    V = radi.visibility_matrix
    for i in range(n):
        for j in range(n):
            if i < j and V[i, j]:
                full[i, j] = F[i, j]
            elif j < i and V[j, i]:
                full[i, j] = F[j, i] * A[j] / A[i]
    return full


def order_energies(radi, c, dt, dur, K):
    """per-order histograms by differencing consecutive max orders (impl only)"""
    hs = []
    for k in range(K + 1):
        radi.calculate_energy_exchange(c, dt, dur, k, recalculate=True)
        hs.append(radi._energy_exchange_etc.copy())
    orders = [hs[0]] + [hs[k] - hs[k - 1] for k in range(1, K + 1)]
    return hs, orders


# --------------------------------------------------------------------------
# independent oracles (written from the property statements, not from the code)
# --------------------------------------------------------------------------
def solid_angle(point, poly):
    """solid angle of a planar convex polygon seen from point (Van Oosterom-Strackee on a fan)"""
    p = np.asarray(point, dtype=float)
    v = np.asarray(poly, dtype=float) - p
    tot = 0.0
    for k in range(1, len(v) - 1):
        a, b, c = v[0], v[k], v[k + 1]
        la, lb, lc = np.linalg.norm(a), np.linalg.norm(b), np.linalg.norm(c)
        num = np.dot(a, np.cross(b, c))
        den = la * lb * lc + np.dot(a, b) * lc + np.dot(a, c) * lb + np.dot(b, c) * la
        tot += 2 * np.arctan2(num, den)
    return abs(tot)


def nearest_index(dirs, v):
    d = np.sum((np.asarray(dirs) - np.asarray(v)) ** 2, axis=-1)
    return int(np.argmin(d)), d


def shift_zero(h, n):
    """delay by n bins with zero fill along the last axis"""
    out = np.zeros_like(h)
    N = h.shape[-1]
    if n < N:
        out[..., n:] = h[..., :N - n]
    return out
