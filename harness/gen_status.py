"""Print a per-property status table (markdown) from the sources: theorems per Properties file,
NOT_CARRIED lists of the props modules, known findings."""
import os, re, json, importlib, sys
VERIF = os.path.dirname(os.path.dirname(os.path.abspath(__file__)))
sys.path.insert(0, os.path.join(VERIF, "harness"))
import common  # noqa
kf = json.load(open(os.path.join(VERIF, "known_findings.json")))["findings"]
rows = []
for pid in ["C%02d" % i for i in range(1, 21)]:
    path = os.path.join(VERIF, "coq", "theories", "Properties", pid + ".v")
    if not os.path.exists(path):
        rows.append("| %s | not applicable | | |" % pid)
        continue
    src = re.sub(r"\(\*.*?\*\)", "", open(path).read(), flags=re.S)
    names = re.findall(r"^\s*Theorem\s+([A-Za-z0-9_']+)", src, flags=re.M)
    part = [n for n in names if "partial" in n]
    ref = [n for n in names if "refuted" in n]
    try:
        mod = importlib.import_module("props." + pid)
        nc = len(getattr(mod, "NOT_CARRIED", []))
    except Exception as e:  # noqa
        nc = "?"
    fnd = [f for f in kf if f["property"] == pid]
    fx = sum(1 for f in fnd if f["status"] == "fixed")
    op = [f.get("match", {}).get("test", "?") for f in fnd if f["status"] == "finding"]
    rows.append("| %s | %d (%d partial, %d refuted) | %s | fixed %d; open: %s |" % (
        pid, len(names), len(part), len(ref), nc, fx, ", ".join(op) if op else "-"))
print("| property | theorems in Properties/Cxx.v | clauses NOT carried (listed in evidence) | genuine defects |")
print("|---|---|---|---|")
print("\n".join(rows))
