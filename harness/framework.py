"""Check protocol shared by all properties (DESIGN.md section 2.4)."""
import os
import re
import sys
import json
import time
import glob
import subprocess
import concurrent.futures as cf

from common import VERIF, BUILD, REPO, jsonable

COQ = os.path.join(VERIF, "coq")
FORBIDDEN = re.compile(
    r"\b(Admitted|admit|Axiom|Axioms|Parameter|Parameters|Conjecture|Conjectures|Admit Obligations)\b"
    r"|Unset\s+Guard|bypass_check|-type-in-type|-impredicative-set|Unset\s+Universe\s+Checking"
    r"|Unset\s+Positivity")
# axioms declared by the Coq standard library that instances over R may pull in
ALLOWED_AXIOMS = {
    "ClassicalDedekindReals.sig_not_dec",
    "ClassicalDedekindReals.sig_forall_dec",
    "FunctionalExtensionality.functional_extensionality_dep",
    "Classical_Prop.classic",
}
TRUSTED_BASE = [
    "Coq 8.16.1 kernel (coqc full .vo build; no native_compute; vm_compute only in non-vacuity Examples)",
    "extraction plugin with ExtrOcamlBasic only: Extract Inductive bool => bool [true false]; option => option "
    "[Some None]; unit => unit [()]; list => list [[] (::)]; prod => (*) []; sumbool => bool [true false]; "
    "sumor => option [Some None]; Extract Inlined Constant andb => (&&); orb => (||). No Extract Constant / "
    "Extract Inductive of our own; nat and Z stay the extracted Peano / binary datatypes",
    "OCaml 4.13.1 ocamlopt; /verif/ocaml/driver.ml (float instance of the Ops record, token reader, %h printer)",
    "float gap: theorems hold for every commutative (ordered) ring/field instance of Ops; the run instance is "
    "IEEE float64, compared at rel. 1e-9 with exact zeros required to match",
    "Python harness (generators, comparator), numpy/pyfar as providers of oracle inputs",
    "model <-> code tie is differential testing of hand-written Gallina models against /repo's working tree",
]


class Result:
    def __init__(self, prop, tier, seed):
        self.prop = prop
        self.tier = tier
        self.seed = seed
        self.evaluations = 0
        self.nontrivial = set()
        self.samples = []
        self.mismatches = []      # correspondence failures: model and code disagree
        self.prop_failures = []   # the property statement fails on the implementation
        self.dist = {}
        self.rejected = 0
        self.max_ulp = 0.0
        self.notes = []
        self.traces = 0
        self.rule = ""
        self.not_carried = []
        self.assumptions = []
        self.known_lines = []

    def count(self, key, n=1):
        self.dist[key] = self.dist.get(key, 0) + n

    def absorb(self, r):
        """merge a per-case result dict returned by a worker"""
        self.evaluations += r.get("evaluations", 1)
        for h in r.get("nontrivial", []):
            self.nontrivial.add(h)
        if r.get("sample") is not None and len(self.samples) < 4:
            self.samples.append(r["sample"])
        for m in r.get("mismatches", []):
            self.mismatches.append(m)
        for m in r.get("prop_failures", []):
            self.prop_failures.append(m)
        for k, v in r.get("dist", {}).items():
            self.count(k, v)
        self.rejected += r.get("rejected", 0)
        self.max_ulp = max(self.max_ulp, r.get("max_ulp", 0.0))
        self.traces += r.get("traces", 0)


class _Guarded:
    """Runs a case function and turns an exception into a property failure: an in-scope input
    on which /repo (or the harness) raises is a concrete failing input, never a crash of the
    check itself."""

    def __init__(self, fn):
        self.fn = fn

    def __call__(self, spec):
        try:
            return self.fn(spec)
        except Exception as exc:  # noqa: BLE001
            import traceback
            tb = traceback.format_exc()
            where = "sparrowpy" if "/sparrowpy/" in tb else "harness"
            return {"evaluations": 1, "mismatches": [], "nontrivial": [], "dist": {"exception": 1},
                    "prop_failures": [{"test": "exception", "exception": type(exc).__name__, "raised_in": where,
                                       "what": "case raised %s: %s" % (type(exc).__name__, str(exc)[:300]),
                                       "trace": tb[-1500:], "case": dict(spec) if isinstance(spec, dict) else repr(spec)}]}


def run_parallel(fn, specs, workers=None):
    workers = workers or min(16, max(1, len(specs)))
    g = _Guarded(fn)
    if workers <= 1 or len(specs) <= 1:
        return [g(s) for s in specs]
    with cf.ProcessPoolExecutor(max_workers=workers) as ex:
        return list(ex.map(g, specs, chunksize=1))


# --------------------------------------------------------------------------
# step 1: build + proof obligations
# --------------------------------------------------------------------------
def build_all():
    t0 = time.time()
    p = subprocess.run(["make", "-C", VERIF, "all"], capture_output=True, text=True, timeout=3000)
    ok = p.returncode == 0 and os.path.exists(os.path.join(BUILD, "driver"))
    return ok, (p.stdout + p.stderr)[-3000:], time.time() - t0


def grep_forbidden():
    hits = []
    for path in glob.glob(os.path.join(COQ, "theories", "**", "*.v"), recursive=True):
        with open(path) as fh:
            text = fh.read()
        # strip comments (non-nested is enough for our sources)
        text_nc = re.sub(r"\(\*.*?\*\)", "", text, flags=re.S)
        for m in FORBIDDEN.finditer(text_nc):
            hits.append("%s: %s" % (os.path.relpath(path, VERIF), m.group(0)))
        for line in text_nc.splitlines():
            if re.match(r"\s*(Variable|Variables|Hypothesis|Hypotheses)\b", line):
                pass  # allowed only inside sections: checked by section balance below
    return hits


class build_lock:
    """the lock `make -C /verif all` takes (Makefile): exclusive while files of the Coq build are
    written, shared while coqchk reads them -- checks may be started in parallel"""
    def __init__(self, shared=False):
        self.shared = shared

    def __enter__(self):
        import fcntl
        os.makedirs(BUILD, exist_ok=True)
        self.fh = open(os.path.join(BUILD, ".build.lock"), "a")
        fcntl.flock(self.fh, fcntl.LOCK_SH if self.shared else fcntl.LOCK_EX)
        return self

    def __exit__(self, *a):
        import fcntl
        fcntl.flock(self.fh, fcntl.LOCK_UN)
        self.fh.close()


def check_property_file(prop):
    """Recompile Properties/<prop>.v, collect its theorems and the Print Assumptions output."""
    path = os.path.join(COQ, "theories", "Properties", prop + ".v")
    info = {"file": os.path.relpath(path, VERIF), "theorems": [], "ok": False, "log": ""}
    if not os.path.exists(path):
        info["log"] = "missing " + path
        return info
    with open(path) as fh:
        src = fh.read()
    src_nc = re.sub(r"\(\*.*?\*\)", "", src, flags=re.S)
    names = re.findall(r"^\s*Theorem\s+([A-Za-z0-9_']+)", src_nc, flags=re.M)
    printed = re.findall(r"^\s*Print Assumptions\s+([A-Za-z0-9_']+)\s*\.", src_nc, flags=re.M)
    t0 = time.time()
    with build_lock():
        p = subprocess.run(["coqc", "-Q", "theories", "SV", "-w", "-notation-overridden",
                            os.path.join("theories", "Properties", prop + ".v")],
                           cwd=COQ, capture_output=True, text=True, timeout=1200)
    info["coqc_s"] = round(time.time() - t0, 2)
    out = p.stdout
    info["log"] = (p.stdout + p.stderr)[-3000:]
    if p.returncode != 0:
        return info
    # split Print Assumptions output blocks in order
    blocks = re.split(r"(?=Closed under the global context|Axioms:)", out)
    blocks = [b for b in blocks if b.startswith("Closed") or b.startswith("Axioms:")]
    axioms_of = {}
    for name, blk in zip(printed, blocks):
        if blk.startswith("Closed"):
            axioms_of[name] = []
        else:
            axioms_of[name] = re.findall(r"^([A-Za-z0-9_.']+)\s*:", blk, flags=re.M)
    for n in names:
        ax = axioms_of.get(n)
        info["theorems"].append({
            "name": n,
            "axioms": ax if ax is not None else ["<no Print Assumptions>"],
            "discharged": ax is not None and all(a in ALLOWED_AXIOMS for a in ax),
        })
    info["ok"] = len(names) > 0 and all(t["discharged"] for t in info["theorems"])
    return info


def run_coqchk(prop):
    """independent re-check of the compiled property file and everything it depends on
    (thorough tier); returns the context summary printed by coqchk -o"""
    t0 = time.time()
    try:
        with build_lock(shared=True):
            p = subprocess.run(["coqchk", "-silent", "-o", "-Q", "theories", "SV", "SV.Properties." + prop],
                               cwd=COQ, capture_output=True, text=True, timeout=3000)
    except subprocess.TimeoutExpired:
        return {"ok": False, "summary": "coqchk timed out", "wall_s": round(time.time() - t0, 1)}
    out = p.stdout + p.stderr
    i = out.find("CONTEXT SUMMARY")
    summary = out[i:] if i >= 0 else out[-1500:]
    axioms = re.findall(r"^\s+([A-Za-z0-9_.']+)\s*:", summary[summary.find("* Axioms"):summary.find("* Constants")], flags=re.M) \
        if "* Axioms" in summary else []
    bad = [k for k in ["type-in-type", "unsafe (co)fixpoints", "positivity is assumed"]
           if re.search(re.escape(k) + r":\s*<none>", summary) is None]
    return {"ok": p.returncode == 0 and not bad, "axioms": axioms, "flags_not_none": bad,
            "summary": summary[-1200:], "wall_s": round(time.time() - t0, 1)}


# --------------------------------------------------------------------------
# known findings
# --------------------------------------------------------------------------
def load_known():
    path = os.path.join(VERIF, "known_findings.json")
    if not os.path.exists(path):
        return []
    with open(path) as fh:
        return json.load(fh).get("findings", [])


def matches_known(failure, known, prop):
    for k in known:
        if k.get("property") != prop or k.get("status") != "finding":
            continue
        sig = k.get("match", {})
        if all(str(failure.get(key)) == str(val) for key, val in sig.items()):
            return k
    return None


# --------------------------------------------------------------------------
# evidence / verdict
# --------------------------------------------------------------------------
def write_replay(prop, payload, tag):
    d = os.path.join(VERIF, "replays")
    os.makedirs(d, exist_ok=True)
    path = os.path.join(d, "%s_%s_%d.json" % (prop, tag, int(time.time())))
    with open(path, "w") as fh:
        json.dump(jsonable(payload), fh, indent=1)
    return path


def finish(res, proof_info, build_ok, build_log, forbidden, wall_s, checker_cmd, coqchk=None):
    prop = res.prop
    known = load_known()
    violations = []
    obligations = len(proof_info["theorems"])
    discharged = sum(1 for t in proof_info["theorems"] if t["discharged"])
    proof_ok = build_ok and not forbidden and proof_info["ok"]
    if coqchk is not None and not coqchk.get("ok"):
        proof_ok = False
        proof_info["log"] = (proof_info.get("log") or "") + "\ncoqchk: " + coqchk.get("summary", "")

    # property failures on the implementation: genuine violations unless listed
    unlisted = []
    for f in res.prop_failures:
        k = matches_known(f, known, prop)
        if k is not None:
            line = "KNOWN-FINDING: property=%s %s" % (prop, k.get("what", ""))
            if line not in res.known_lines:
                res.known_lines.append(line)
        else:
            unlisted.append(f)
    if unlisted:
        path = write_replay(prop, {"property": prop, "seed": res.seed, "tier": res.tier,
                                   "kind": "property-fails-on-implementation",
                                   "failures": unlisted[:5]}, "prop")
        violations.append("VIOLATION property=%s replay=%s" % (prop, path))
    elif res.mismatches or not proof_ok:
        what = {"property": prop, "seed": res.seed, "tier": res.tier}
        if not proof_ok:
            what["kind"] = "proof-obligation-not-discharged"
            what["build_ok"] = build_ok
            what["forbidden_tokens"] = forbidden
            what["theorems"] = proof_info["theorems"]
            what["log"] = proof_info["log"] if build_ok else build_log
        else:
            what["kind"] = "correspondence-broken"
            what["correspondence"] = res.mismatches[:5]
        what["note"] = ("no concrete input on which the property statement itself fails was found by the "
                        "search; the named theorem/correspondence no longer checks, so the property is "
                        "no longer shown to hold")
        path = write_replay(prop, what, "nofail")
        violations.append("VIOLATION property=%s replay=%s no-failing-input-found" % (prop, path))

    for line in res.known_lines:
        print(line)

    coverage = {
        "obligations": max(obligations, 1),
        "discharged": discharged,
        "checker_cmd": checker_cmd,
        "trusted_base": TRUSTED_BASE,
        "theorems": proof_info["theorems"],
        "not_carried": res.not_carried,
        "evaluations": res.evaluations,
        "distinct_nontrivial": len(res.nontrivial),
        "rule": res.rule,
        "samples": res.samples[:4] if res.samples else [{"note": "no case generated"}],
        "traces_validated_against_impl": res.traces,
        "max_ulp": res.max_ulp,
        "rejected_near_decision": res.rejected,
        "input_distribution": res.dist,
        "correspondence_mismatches": len(res.mismatches),
        "property_failures_on_impl": len(res.prop_failures),
        "known_findings_printed": res.known_lines,
        "notes": res.notes,
        "forbidden_token_hits": forbidden,
        "property_file": proof_info.get("file"),
        "coqchk": coqchk if coqchk is not None else "not run in this tier (thorough tier only)",
    }
    ev = {
        "property_id": prop,
        "tier": res.tier,
        "seed": int(res.seed),
        "level": "proof",
        "coverage": coverage,
        "assumptions": res.assumptions,
        "wall_s": round(wall_s, 2),
        "violations": len(violations),
    }
    os.makedirs(os.path.join(VERIF, "evidence"), exist_ok=True)
    with open(os.path.join(VERIF, "evidence", prop + ".json"), "w") as fh:
        json.dump(jsonable(ev), fh, indent=1)
    for v in violations:
        print(v)
    print("%s %s: theorems %d/%d, cases %d (non-trivial %d), mismatches %d, property failures %d, %.1fs" % (
        prop, res.tier, discharged, obligations, res.evaluations, len(res.nontrivial),
        len(res.mismatches), len(res.prop_failures), wall_s))
    return 1 if violations else 0
