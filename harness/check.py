"""Entry point:  check.py <Cxx> --tier quick|thorough [--replay file]"""
import os
import sys
import time
import json
import argparse
import importlib

sys.path.insert(0, os.path.dirname(os.path.abspath(__file__)))
import common  # noqa: E402,F401  (sets sys.path for /repo)
import framework as fw  # noqa: E402


def main():
    ap = argparse.ArgumentParser()
    ap.add_argument("prop")
    ap.add_argument("--tier", default=os.environ.get("VERIF_TIER", "quick"), choices=["quick", "thorough"])
    ap.add_argument("--replay", default=None)
    args = ap.parse_args()
    seed = int(os.environ.get("VERIF_SEED", "20260930"))
    t0 = time.time()

    build_ok, build_log, build_s = fw.build_all()
    forbidden = fw.grep_forbidden()
    proof_info = fw.check_property_file(args.prop) if build_ok else {
        "theorems": [], "ok": False, "log": build_log, "file": None}

    mod = importlib.import_module("props." + args.prop)
    res = fw.Result(args.prop, args.tier, seed)
    res.notes.append("build %.1fs ok=%s" % (build_s, build_ok))
    if build_ok:
        if args.replay:
            with open(args.replay) as fh:
                payload = json.load(fh)
            mod.replay(res, payload)
        else:
            mod.run(res)
            # the correspondence (or a proof) broke but no property-level test failed: search harder for a
            # concrete failing input before reporting no-failing-input-found (thorough-tier case counts,
            # another seed); only the property failures of the search are taken over
            known = fw.load_known()
            unlisted = [f for f in res.prop_failures if fw.matches_known(f, known, args.prop) is None]
            broken = bool(res.mismatches) or not proof_info.get("ok")
            if broken and not unlisted and args.tier == "quick" and os.environ.get("VERIF_NO_SEARCH") != "1":
                res2 = fw.Result(args.prop, "thorough", seed + 7919)
                t1 = time.time()
                try:
                    mod.run(res2)
                except Exception as exc:  # noqa: BLE001
                    res.notes.append("failing-input search raised %r" % (exc,))
                found = [f for f in res2.prop_failures if fw.matches_known(f, known, args.prop) is None]
                for f in found:
                    f = dict(f)
                    f["found_by"] = "failing-input search (thorough counts, seed %d)" % (seed + 7919)
                    res.prop_failures.append(f)
                res.notes.append("failing-input search after a broken correspondence/proof: %d cases, %d unlisted "
                                 "property failures, %.0fs" % (res2.evaluations, len(found), time.time() - t1))
    checker = ("make -C /verif all && coqc -Q theories SV theories/Properties/%s.v "
               "(Print Assumptions per theorem; forbidden-token grep over coq/theories)" % args.prop)
    chk = None
    if build_ok and args.tier == "thorough" and not args.replay:
        chk = fw.run_coqchk(args.prop)
        checker += " && coqchk -silent -o -Q theories SV SV.Properties.%s" % args.prop
    code = fw.finish(res, proof_info, build_ok, build_log, forbidden, time.time() - t0, checker, chk)
    sys.exit(code)


if __name__ == "__main__":
    main()
