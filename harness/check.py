"""Entry point:  check.py <Cxx> --tier quick|thorough [--replay file]"""
import os
import sys
import time
import json
import argparse
import importlib

sys.path.insert(0, os.path.dirname(os.path.abspath(__file__)))
import common  # noqa: E402,F401  (sets sys.path for /repo)
import framework as fw  # noqa: E402


def main():
    ap = argparse.ArgumentParser()
    ap.add_argument("prop")
    ap.add_argument("--tier", default=os.environ.get("VERIF_TIER", "quick"), choices=["quick", "thorough"])
    ap.add_argument("--replay", default=None)
    args = ap.parse_args()
    seed = int(os.environ.get("VERIF_SEED", "20260930"))
    t0 = time.time()

    build_ok, build_log, build_s = fw.build_all()
    forbidden = fw.grep_forbidden()
    proof_info = fw.check_property_file(args.prop) if build_ok else {
        "theorems": [], "ok": False, "log": build_log, "file": None}

    mod = importlib.import_module("props." + args.prop)
    res = fw.Result(args.prop, args.tier, seed)
    res.notes.append("build %.1fs ok=%s" % (build_s, build_ok))
    if build_ok:
        if args.replay:
            with open(args.replay) as fh:
                payload = json.load(fh)
            mod.replay(res, payload)
        else:
            mod.run(res)
    checker = ("make -C /verif all && coqc -Q theories SV theories/Properties/%s.v "
               "(Print Assumptions per theorem; forbidden-token grep over coq/theories)" % args.prop)
    chk = None
    if build_ok and args.tier == "thorough" and not args.replay:
        chk = fw.run_coqchk(args.prop)
        checker += " && coqchk -silent -o -Q theories SV SV.Properties.%s" % args.prop
    code = fw.finish(res, proof_info, build_ok, build_log, forbidden, time.time() - t0, checker, chk)
    sys.exit(code)


if __name__ == "__main__":
    main()
