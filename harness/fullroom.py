"""End-to-end correspondence: wall polygons -> composed Gallina model (Model/Full.v) vs
/repo's from_polygon ... collect_energy_receiver_mono.  No form-factor value computed by /repo is
handed to the model: tiling, centroids, areas, patch visibility, pair list, form factors (Stokes
contour integral AND the Nusselt analogue for coincident pairs, Model/Nusselt.v, nsamples=64),
wall frames of the direction sets, point visibility, solid-angle shares, baked factors, initial
energy, exchange, receiver collection are all recomputed by the model from the polygons; /repo's
values are only compared with.  Inputs of the model besides the polygons: BRDF tables and indices,
air attenuation, the reference direction sets and the literal tolerances of the code."""
import numpy as np
import pyfar as pf

from common import Tok, run_driver, floats, ints, cmp_float, cmp_exact, ulp_dist
import scenes as S
import pipeline as P
from sparrowpy import geometry as G

THR, EPS, ETA, THRES, CUT = 1e-10, 1e-6, 1e-6, 1e-6, 0.0
# the three literals of the Nusselt branch: norm(cross(..)) > 1e-6, dot(..) >= 1e-6 (nusselt_analog),
# abs(x[-1]-x[0]) < 1e-6 (_poly_estimation_Lagrange)
T_SEG, T_DOT, T_LAG = 1e-6, 1e-6, 1e-6
# form factors are compared at the common relative 1e-9 (zeros exact): the Nusselt branch replaces
# np.linalg.inv by the Lagrange closed form (observed deviation of that branch in C05: <= 1e-13)


def room_tokens(cfg, radi, din, dout):
    walls = S.shoebox(*cfg["dims"], off=cfg["offset"])
    tok = Tok().cmd("room")
    tok.i(len(walls))
    for w in walls:
        tok.t.extend(float(x).hex() for x in np.asarray(w.pts, dtype=float).reshape(-1))
    tok.vecs(np.array([w.normal for w in walls]))
    tok.vecs(np.array([w.up_vector for w in walls]))
    tok.f(cfg["patch_size"])
    tok.vecs(din.cartesian)
    tok.vecs(dout.cartesian)
    tok.arr(np.array(radi._brdf))
    tok.arr(np.array(radi._brdf_index), "i")
    tok.arr(radi._air_attenuation)
    tok.i(radi.n_bins)
    for x in (THR, EPS, ETA, THRES, CUT, T_SEG, T_DOT, T_LAG):
        tok.f(x)
    return tok


def full_case(cfg, src, recs, c, dt, dur, K, direct=True, info=None):
    """returns (mismatches, max_ulp, rejected); [info] (a dict) receives the number of visible pairs,
    how many of them took the Nusselt branch (computed by the model), and the largest relative
    deviation of the model's form factors from /repo's on each branch"""
    radi = S.build(cfg)
    din, dout = S.directions(cfg)
    impl = P.impl_pipeline(radi, src, c, dt, dur, K, recs, direct=direct)
    tok = room_tokens(cfg, radi, din, dout)
    tok.cmd("q_room_geom")
    S.timing_tokens(tok, c, dt, dur)
    tok.cmd("room_source").vec(src)
    for q in ["q_nsamples", "q_pairs", "q_tilde", "q_p2o", "q_e0dir", "q_srcdist"]:
        tok.cmd(q)
    tok.cmd("q_hist").i(K)
    for r in recs:
        tok.cmd("room_receiver").vec(r)
        tok.cmd("q_patchwise")
        tok.cmd("q_mono").b(direct).b(False)
    out = run_driver(tok, timeout=1200)
    mism = []
    n = radi.n_patches
    it = iter(out)

    def nxt(name):
        nm, t = next(it)
        assert nm == name, (nm, name)
        return t
    g = nxt("q_room_geom")
    if int(g[0]) != n:
        return [{"stage": "n_patches", "what": "impl %d model %s" % (n, g[0])}], 0.0, False
    nd = int(g[1])
    vals = g[2:]
    cen = floats(vals[:3 * n], (n, 3)); vals = vals[3 * n:]
    areas = floats(vals[:n]); vals = vals[n:]
    wid = ints(vals[:n])
    vis = ints(nxt("q_room_vis"), (n, n)).astype(bool)
    F = floats(nxt("q_room_ff"), (n, n))
    dirs = floats(nxt("q_room_dirs"))
    if info is not None and F.shape == np.asarray(radi._form_factors).shape:
        pts = radi.patches_points
        Fi = np.asarray(radi._form_factors, dtype=float)
        info["visible_pairs"] = len(radi._visible_patches)
        info["nusselt_pairs"] = 0
        info["nusselt_max_rel"] = 0.0
        info["stokes_max_rel"] = 0.0
        for (a, b) in radi._visible_patches:
            coinc = bool(G._coincidence_check(pts[b], pts[a]))
            dev = abs(Fi[a, b] - F[a, b]) / max(abs(Fi[a, b]), 1e-300)
            if coinc:
                info["nusselt_pairs"] += 1
                info["nusselt_max_rel"] = max(info["nusselt_max_rel"], float(dev))
            else:
                info["stokes_max_rel"] = max(info["stokes_max_rel"], float(dev))
    ins = np.array([s.cartesian for s in radi._brdf_incoming_directions])
    outs = np.array([s.cartesian for s in radi._brdf_outgoing_directions])
    dm = np.concatenate([ins.reshape(-1), outs.reshape(-1)])
    checks = [
        ("patches_center", cmp_float(radi.patches_center, cen, what="patches_center")),
        ("patches_area", cmp_float(radi.patches_area, areas, what="patches_area")),
        ("patch_to_wall_ids", cmp_exact(radi._patch_to_wall_ids, wid, "patch_to_wall_ids")),
        ("visibility_matrix", cmp_exact(radi._visibility_matrix, vis, "visibility_matrix")),
        ("form_factors", cmp_float(radi._form_factors, F, what="form_factors")),
    ]
    if dirs.shape != dm.shape or np.abs(dirs - dm).max() > 1e-12:
        checks.append(("brdf directions", "max abs diff %.3e" % (np.abs(dirs - dm).max() if dirs.shape == dm.shape else -1)))
    for name, m in checks:
        if m:
            mism.append({"stage": "full:" + name, "what": m})
    sv = nxt("room_source")
    svis = ints(sv[:n]).astype(bool)
    sshare = floats(sv[n:])
    m = cmp_exact(radi._source_visibility, svis, "source visibility")
    if m:
        mism.append({"stage": "full:source_visibility", "what": m})
    m = cmp_float(S.point_shares(radi, src, "source"), sshare, what="source shares")
    if m:
        mism.append({"stage": "full:source_shares", "what": m})
    if mism:
        return mism, 0.0, False
    # the pipeline stages on the model's own scene; lookups decided by the last bit are near-decision
    N = int(dur / dt)
    nb = radi.n_bins
    rest = list(it)
    # reuse compare_stages on the remaining queries: it expects the order of model_session without
    # the receiver/source echo lines
    filtered = [(nm, t) for (nm, t) in rest if nm != "room_receiver"]
    # the model's wall directions differ from pyfar's in the last bits: every tie is near-decision here
    mism2, mu = P.compare_stages(radi, impl, filtered, K, recs, dur, dt, src=src, axis_exact=False)
    if any(x.get("rejected") for x in mism2):
        return [], 0.0, True
    for x in mism2:
        x["stage"] = "full:" + x["stage"]
    return mism2, mu, False
