"""End-to-end correspondence: wall polygons -> composed Gallina model (Model/Full.v) vs
/repo's from_polygon ... collect_energy_receiver_mono.  Only the Nusselt integrator's values
(coincident patch pairs) are handed to the model as data; everything else -- tiling, centroids,
areas, patch visibility, pair list, Stokes form factors, wall frames of the direction sets, point
visibility, solid-angle shares, baked factors, initial energy, exchange, receiver collection --
is recomputed by the model from the polygons."""
import numpy as np
import pyfar as pf

from common import Tok, run_driver, floats, ints, cmp_float, cmp_exact, ulp_dist
import scenes as S
import pipeline as P
from sparrowpy import geometry as G

THR, EPS, ETA, THRES, CUT = 1e-10, 1e-6, 1e-6, 1e-6, 0.0


def room_tokens(cfg, radi, din, dout):
    walls = S.shoebox(*cfg["dims"], off=cfg["offset"])
    tok = Tok().cmd("room")
    tok.i(len(walls))
    for w in walls:
        tok.t.extend(float(x).hex() for x in np.asarray(w.pts, dtype=float).reshape(-1))
    tok.vecs(np.array([w.normal for w in walls]))
    tok.vecs(np.array([w.up_vector for w in walls]))
    tok.f(cfg["patch_size"])
    tok.vecs(din.cartesian)
    tok.vecs(dout.cartesian)
    tok.arr(np.array(radi._brdf))
    tok.arr(np.array(radi._brdf_index), "i")
    tok.arr(radi._air_attenuation)
    tok.i(radi.n_bins)
    # Nusselt values: the implementation's entries for coincident pairs (not modelled)
    n = radi.n_patches
    nus = np.zeros((n, n))
    pts = radi.patches_points
    for (a, b) in radi._visible_patches:
        if G._coincidence_check(pts[b], pts[a]):
            nus[a, b] = radi.form_factors[a, b]
    tok.arr(nus)
    for x in (THR, EPS, ETA, THRES, CUT):
        tok.f(x)
    return tok


def full_case(cfg, src, recs, c, dt, dur, K, direct=True):
    """returns (mismatches, max_ulp, rejected)"""
    radi = S.build(cfg)
    din, dout = S.directions(cfg)
    impl = P.impl_pipeline(radi, src, c, dt, dur, K, recs, direct=direct)
    tok = room_tokens(cfg, radi, din, dout)
    tok.cmd("q_room_geom")
    S.timing_tokens(tok, c, dt, dur)
    tok.cmd("room_source").vec(src)
    for q in ["q_nsamples", "q_pairs", "q_tilde", "q_p2o", "q_e0dir", "q_srcdist"]:
        tok.cmd(q)
    tok.cmd("q_hist").i(K)
    for r in recs:
        tok.cmd("room_receiver").vec(r)
        tok.cmd("q_patchwise")
        tok.cmd("q_mono").b(direct).b(False)
    out = run_driver(tok, timeout=1200)
    mism = []
    n = radi.n_patches
    it = iter(out)

    def nxt(name):
        nm, t = next(it)
        assert nm == name, (nm, name)
        return t
    g = nxt("q_room_geom")
    if int(g[0]) != n:
        return [{"stage": "n_patches", "what": "impl %d model %s" % (n, g[0])}], 0.0, False
    nd = int(g[1])
    vals = g[2:]
    cen = floats(vals[:3 * n], (n, 3)); vals = vals[3 * n:]
    areas = floats(vals[:n]); vals = vals[n:]
    wid = ints(vals[:n])
    vis = ints(nxt("q_room_vis"), (n, n)).astype(bool)
    F = floats(nxt("q_room_ff"), (n, n))
    dirs = floats(nxt("q_room_dirs"))
    ins = np.array([s.cartesian for s in radi._brdf_incoming_directions])
    outs = np.array([s.cartesian for s in radi._brdf_outgoing_directions])
    dm = np.concatenate([ins.reshape(-1), outs.reshape(-1)])
    checks = [
        ("patches_center", cmp_float(radi.patches_center, cen, what="patches_center")),
        ("patches_area", cmp_float(radi.patches_area, areas, what="patches_area")),
        ("patch_to_wall_ids", cmp_exact(radi._patch_to_wall_ids, wid, "patch_to_wall_ids")),
        ("visibility_matrix", cmp_exact(radi._visibility_matrix, vis, "visibility_matrix")),
        ("form_factors", cmp_float(radi._form_factors, F, what="form_factors")),
    ]
    if dirs.shape != dm.shape or np.abs(dirs - dm).max() > 1e-12:
        checks.append(("brdf directions", "max abs diff %.3e" % (np.abs(dirs - dm).max() if dirs.shape == dm.shape else -1)))
    for name, m in checks:
        if m:
            mism.append({"stage": "full:" + name, "what": m})
    sv = nxt("room_source")
    svis = ints(sv[:n]).astype(bool)
    sshare = floats(sv[n:])
    m = cmp_exact(radi._source_visibility, svis, "source visibility")
    if m:
        mism.append({"stage": "full:source_visibility", "what": m})
    m = cmp_float(S.point_shares(radi, src, "source"), sshare, what="source shares")
    if m:
        mism.append({"stage": "full:source_shares", "what": m})
    if mism:
        return mism, 0.0, False
    # the pipeline stages on the model's own scene; lookups decided by the last bit are near-decision
    N = int(dur / dt)
    nb = radi.n_bins
    rest = list(it)
    # reuse compare_stages on the remaining queries: it expects the order of model_session without
    # the receiver/source echo lines
    filtered = [(nm, t) for (nm, t) in rest if nm != "room_receiver"]
    # the model's wall directions differ from pyfar's in the last bits: every tie is near-decision here
    mism2, mu = P.compare_stages(radi, impl, filtered, K, recs, dur, dt, src=src, axis_exact=False)
    if any(x.get("rejected") for x in mism2):
        return [], 0.0, True
    for x in mism2:
        x["stage"] = "full:" + x["stage"]
    return mism2, mu, False
