"""Apply each seeded change under /verif/seeded/*/patch.diff to /repo, run the listed checks
(quick tier), record which ones raise a VIOLATION, and undo the change.  Usage:
    python harness/selftest.py [name-prefix ...] [--props C01,C02]
Never leaves /repo modified (git checkout -- . in a finally block)."""
import os
import sys
import json
import glob
import subprocess

VERIF = os.path.dirname(os.path.dirname(os.path.abspath(__file__)))


def sh(cmd, **kw):
    return subprocess.run(cmd, shell=True, capture_output=True, text=True, **kw)


def claimed():
    with open(os.path.join(VERIF, "MANIFEST.json")) as fh:
        return [c["property_id"] for c in json.load(fh)["checks"]]


def main():
    args = [a for a in sys.argv[1:] if not a.startswith("--")]
    props = None
    for a in sys.argv[1:]:
        if a.startswith("--props"):
            props = a.split("=", 1)[1].split(",")
    assert sh("git -C /repo status --porcelain").stdout.strip() == "", "/repo is dirty"
    results = {}
    for d in sorted(glob.glob(os.path.join(VERIF, "seeded", "*"))):
        name = os.path.basename(d)
        if args and not any(name.startswith(a) for a in args):
            continue
        patch = os.path.join(d, "patch.diff")
        if not os.path.exists(patch):
            continue
        meta = {}
        mp = os.path.join(d, "meta.json")
        if os.path.exists(mp):
            with open(mp) as fh:
                meta = json.load(fh)
        todo = props or meta.get("run_checks") or claimed()
        try:
            r = sh("git -C /repo apply %s" % patch)
            if r.returncode != 0:
                results[name] = {"error": "patch does not apply: " + r.stderr[-300:]}
                print(name, "PATCH DOES NOT APPLY")
                continue
            caught = {}
            for p in todo:
                r = sh("cd %s && ./check %s --tier quick" % (VERIF, p), timeout=3000)
                lines = [line for line in r.stdout.splitlines() if line.startswith("VIOLATION")]
                caught[p] = (lines[0] if lines else ("exit %d, no VIOLATION" % r.returncode))
                print(name, p, "CAUGHT" if lines else "missed", flush=True)
            results[name] = caught
        finally:
            sh("git -C /repo checkout -- .")
    # restore evidence written during the mutated runs
    out = os.path.join(VERIF, "build", "selftest.json")
    with open(out, "w") as fh:
        json.dump(results, fh, indent=1)
    print("written", out)


if __name__ == "__main__":
    main()
