"""Shared infrastructure of the verification harness.

Run with /venv/bin/python.  sparrowpy is always imported from /repo's working
tree (never from an installed copy).
"""
import os
import sys
import json
import time
import math
import hashlib
import subprocess
import warnings

REPO = os.environ.get("VERIF_REPO", "/repo")
VERIF = os.path.dirname(os.path.dirname(os.path.abspath(__file__)))
BUILD = os.path.join(VERIF, "build")
DRIVER = os.path.join(BUILD, "driver")
TMP = os.path.join(BUILD, "tmp")
GUARD = "SPARROWPY_VERIF"

if sys.path[0] != REPO:
    sys.path.insert(0, REPO)
os.environ.setdefault("PYTHONHASHSEED", "0")
os.environ.setdefault("MPLBACKEND", "Agg")
os.environ.setdefault("NUMBA_DISABLE_JIT", "1")
warnings.filterwarnings("ignore")

import numpy as np  # noqa: E402

RTOL = 1e-9


# --------------------------------------------------------------------------
# token files for the OCaml driver
# --------------------------------------------------------------------------
class Tok:
    """Writer for the whitespace-token case files read by build/driver."""

    def __init__(self):
        self.t = []

    def cmd(self, name):
        self.t.append("\n" + name)
        return self

    def i(self, n):
        self.t.append(str(int(n)))
        return self

    def b(self, v):
        self.t.append("1" if v else "0")
        return self

    def f(self, x):
        self.t.append(float(x).hex())
        return self

    def vec(self, v):
        for x in v:
            self.f(x)
        return self

    def arr(self, a, kind="f"):
        """array with shape header; kind f=float, i=int, b=bool"""
        a = np.asarray(a)
        for d in a.shape:
            self.i(d)
        flat = a.reshape(-1)
        if kind == "f":
            self.t.extend(float(x).hex() for x in flat)
        elif kind == "i":
            self.t.extend(str(int(x)) for x in flat)
        else:
            self.t.extend("1" if x else "0" for x in flat)
        return self

    def vecs(self, a):
        """list of 3-vectors: header is the count only"""
        a = np.asarray(a, dtype=float).reshape(-1, 3)
        self.i(a.shape[0])
        self.t.extend(float(x).hex() for x in a.reshape(-1))
        return self

    def vecs2(self, a):
        """2-d array of 3-vectors: header is the two counts"""
        a = np.asarray(a, dtype=float)
        self.i(a.shape[0]).i(a.shape[1])
        self.t.extend(float(x).hex() for x in a.reshape(-1))
        return self

    def text(self):
        return " ".join(self.t) + "\n"


def run_driver(tok, timeout=600):
    """Run the extracted model on a token file; returns list of (name, [tokens])."""
    os.makedirs(TMP, exist_ok=True)
    path = os.path.join(TMP, "case_%d_%d.txt" % (os.getpid(), time.time_ns()))
    with open(path, "w") as fh:
        fh.write(tok.text() if isinstance(tok, Tok) else tok)
    try:
        p = subprocess.run([DRIVER, path], capture_output=True, text=True, timeout=timeout)
    finally:
        try:
            os.remove(path)
        except OSError:
            pass
    if p.returncode != 0:
        raise RuntimeError("driver failed: " + p.stderr[-2000:])
    out = []
    for line in p.stdout.splitlines():
        parts = line.split()
        if parts:
            out.append((parts[0], parts[1:]))
    return out


def floats(tokens, shape=None):
    a = np.array([float.fromhex(t) for t in tokens], dtype=float)
    return a.reshape(shape) if shape is not None else a


def ints(tokens, shape=None):
    a = np.array([int(t) for t in tokens], dtype=np.int64)
    return a.reshape(shape) if shape is not None else a


# --------------------------------------------------------------------------
# comparison
# --------------------------------------------------------------------------
def ulp_dist(a, b):
    """maximum distance in units in the last place between two float arrays (exact)"""
    a = np.asarray(a, dtype=np.float64).reshape(-1)
    b = np.asarray(b, dtype=np.float64).reshape(-1)
    if a.size == 0:
        return 0.0

    def key(x):
        u = x.view(np.uint64)
        neg = (u >> np.uint64(63)).astype(bool)
        return np.where(neg, ~u, u | np.uint64(1 << 63))
    ka, kb = key(a), key(b)
    d = np.where(ka > kb, ka - kb, kb - ka)
    return float(d.max())


def cmp_float(impl, model, rtol=RTOL, what=""):
    """Return None if equal within tolerance (and exact zeros match), else a
    description of the first mismatch."""
    a = np.asarray(impl, dtype=float)
    b = np.asarray(model, dtype=float)
    if a.shape != b.shape:
        return "%s: shape %s (impl) vs %s (model)" % (what, a.shape, b.shape)
    if a.size == 0:
        return None
    fin = np.isfinite(a) & np.isfinite(b)
    bad = ~fin
    tol = rtol * np.maximum(np.abs(a), np.abs(b)) + 1e-300
    with np.errstate(invalid="ignore"):
        bad |= np.abs(a - b) > tol
    bad |= (a == 0) != (b == 0)
    if bad.any():
        idx = np.unravel_index(int(np.argmax(bad)), a.shape)
        return "%s: at %s impl=%r model=%r (%d of %d entries differ)" % (
            what, tuple(int(x) for x in idx), float(a[idx]), float(b[idx]), int(bad.sum()), a.size)
    return None


def cmp_exact(impl, model, what=""):
    a = np.asarray(impl)
    b = np.asarray(model)
    if a.shape != b.shape:
        return "%s: shape %s (impl) vs %s (model)" % (what, a.shape, b.shape)
    if a.size and (a != b).any():
        idx = np.unravel_index(int(np.argmax(a != b)), a.shape)
        return "%s: at %s impl=%r model=%r (%d of %d entries differ)" % (
            what, tuple(int(x) for x in idx), a[idx].item(), b[idx].item(), int((a != b).sum()), a.size)
    return None


def case_hash(*parts):
    h = hashlib.sha256()
    for p in parts:
        if isinstance(p, np.ndarray):
            h.update(np.ascontiguousarray(p).tobytes())
        else:
            h.update(repr(p).encode())
    return h.hexdigest()[:16]


def jsonable(x):
    if isinstance(x, np.ndarray):
        return x.tolist()
    if isinstance(x, (np.floating,)):
        return float(x)
    if isinstance(x, (np.integer,)):
        return int(x)
    if isinstance(x, (np.bool_,)):
        return bool(x)
    if isinstance(x, dict):
        return {str(k): jsonable(v) for k, v in x.items()}
    if isinstance(x, (list, tuple)):
        return [jsonable(v) for v in x]
    if isinstance(x, float) and not math.isfinite(x):
        return repr(x)
    return x
