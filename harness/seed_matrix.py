"""Run every claimed check (quick tier) against every seeded change; write build/seed_matrix.json
and seeded/MATRIX.md.  Uses scratch worktrees of /repo and VERIF_REPO (never touches /repo)."""
import os, sys, json, glob, subprocess, shutil
VERIF = os.path.dirname(os.path.dirname(os.path.abspath(__file__)))


def sh(cmd, **kw):
    return subprocess.run(cmd, shell=True, capture_output=True, text=True, **kw)


def main():
    only = [a for a in sys.argv[1:] if not a.startswith("--")]
    claimed = [c["property_id"] for c in json.load(open(os.path.join(VERIF, "MANIFEST.json")))["checks"]]
    out_path = os.path.join(VERIF, "build", "seed_matrix.json")
    state_path = os.path.join(VERIF, "seeded", "matrix_state.json")     # committed: lets a snapshot run resume
    matrix = json.load(open(out_path)) if os.path.exists(out_path) else (
        json.load(open(state_path)) if os.path.exists(state_path) else {})
    ev = os.path.join(VERIF, "evidence")
    bak = os.path.join(VERIF, "build", "evidence_backup_matrix")
    shutil.rmtree(bak, ignore_errors=True)
    shutil.copytree(ev, bak)
    import threading
    from concurrent.futures import ThreadPoolExecutor
    lock = threading.Lock()
    workers = int(os.environ.get("MATRIX_WORKERS", "4"))

    def one(d):
        name = os.path.basename(d)
        wt = "/root/scratch/matrix_" + name
        sh("git -C /repo worktree remove --force %s" % wt)
        sh("git -C /repo worktree add --detach %s HEAD" % wt)
        try:
            r = sh("git -C %s apply %s" % (wt, os.path.join(d, "patch.diff")))
            if r.returncode:
                with lock:
                    matrix[name] = {"error": "patch does not apply"}
                return
            row = dict(matrix.get(name, {}))
            for p in claimed:
                if p in row:
                    continue
                r = sh("cd %s && VERIF_REPO=%s ./check %s --tier quick" % (VERIF, wt, p), timeout=3600)
                v = [ln for ln in r.stdout.splitlines() if ln.startswith("VIOLATION")]
                row[p] = ("V" if v and "no-failing-input-found" not in v[0] else ("v" if v else "."))
                print(name, p, row[p], flush=True)
                with lock:
                    matrix[name] = dict(row)
                    json.dump(matrix, open(out_path, "w"), indent=1)
                    json.dump(matrix, open(state_path, "w"), indent=1)
        finally:
            sh("git -C /repo worktree remove --force %s" % wt)

    try:
        todo = []
        for d in sorted(glob.glob(os.path.join(VERIF, "seeded", "*"))):
            name = os.path.basename(d)
            if not os.path.isdir(d) or not os.path.exists(os.path.join(d, "patch.diff")):
                continue
            if only and not any(name.startswith(o) for o in only):
                continue
            if name in matrix and len(matrix[name]) == len(claimed):
                continue
            todo.append(d)
        with ThreadPoolExecutor(max_workers=workers) as ex:
            list(ex.map(one, todo))
    finally:
        shutil.rmtree(ev, ignore_errors=True)
        shutil.copytree(bak, ev)
        shutil.rmtree(bak, ignore_errors=True)
    lines = ["# Seeded changes x checks (quick tier)", "",
             "`V` = VIOLATION with a concrete failing input (replay), `v` = VIOLATION ... no-failing-input-found "
             "(correspondence/proof broken only), `.` = not noticed by that check.", "",
             "| seeded change | " + " | ".join(claimed) + " |", "|---|" + "---|" * len(claimed)]
    for name in sorted(matrix):
        row = matrix[name]
        if "error" in row:
            lines.append("| %s | %s |" % (name, row["error"]))
        else:
            lines.append("| %s | " % name + " | ".join(row.get(p, "?") for p in claimed) + " |")
    open(os.path.join(VERIF, "seeded", "MATRIX.md"), "w").write("\n".join(lines) + "\n")
    print("written seeded/MATRIX.md")


if __name__ == "__main__":
    main()
