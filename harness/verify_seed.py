"""Confirm a seeded change and run the checks against it, in a scratch copy of /repo.

    python harness/verify_seed.py <name> <dir-with-patch.diff,demo.py,meta.json> [--suite] [--props C01,C02]

Steps: copy the artefacts to /verif/seeded/<name>/; make a scratch copy of /repo (git worktree
under /root/scratch); demo must pass on the clean copy and fail on the patched copy; with --suite
the pinned test-suite is run on the patched copy and compared with BASELINE.json; every claimed
check (or --props) is run with VERIF_REPO pointing at the patched copy.  The evidence directory is
saved and restored, the scratch worktree removed.  Results go to seeded/<name>/meta.json."""
import os
import sys
import json
import shutil
import subprocess
import xml.etree.ElementTree as ET

VERIF = os.path.dirname(os.path.dirname(os.path.abspath(__file__)))


def sh(cmd, **kw):
    return subprocess.run(cmd, shell=True, capture_output=True, text=True, **kw)


def main():
    name, src = sys.argv[1], sys.argv[2]
    suite = "--suite" in sys.argv
    props = None
    for a in sys.argv[3:]:
        if a.startswith("--props="):
            props = a.split("=", 1)[1].split(",")
    dst = os.path.join(VERIF, "seeded", name)
    os.makedirs(dst, exist_ok=True)
    for f in ["patch.diff", "demo.py", "meta.json"]:
        p = os.path.join(src, f)
        if os.path.exists(p) and os.path.abspath(p) != os.path.abspath(os.path.join(dst, f)):
            shutil.copy(p, os.path.join(dst, f))
    meta = {}
    mp = os.path.join(dst, "meta.json")
    if os.path.exists(mp):
        with open(mp) as fh:
            try:
                meta = json.load(fh)
            except Exception:
                meta = {"raw_meta_unparsed": True}
    wt = "/root/scratch/seedcheck_" + name
    sh("git -C /repo worktree remove --force %s" % wt)
    r = sh("git -C /repo worktree add --detach %s HEAD" % wt)
    assert r.returncode == 0, r.stderr
    conf = {}
    ev_backup = os.path.join(VERIF, "build", "evidence_backup_" + name)
    shutil.rmtree(ev_backup, ignore_errors=True)
    shutil.copytree(os.path.join(VERIF, "evidence"), ev_backup)
    try:
        demo = os.path.join(dst, "demo.py")
        have_demo = os.path.exists(demo)
        if have_demo:
            r0 = sh("cd %s && PYTHONPATH=%s /venv/bin/python %s" % (wt, wt, demo), timeout=3000)
            conf["demo_on_original_exit"] = r0.returncode
        ra = sh("git -C %s apply %s" % (wt, os.path.join(dst, "patch.diff")))
        conf["patch_applies"] = ra.returncode == 0
        if have_demo:
            r1 = sh("cd %s && PYTHONPATH=%s /venv/bin/python %s" % (wt, wt, demo), timeout=3000)
            conf["demo_on_changed_exit"] = r1.returncode
            conf["demo_on_changed_tail"] = (r1.stdout + r1.stderr)[-400:]
        if suite:
            xml = os.path.join(VERIF, "build", "suite_%s.xml" % name)
            sh("cd %s && /venv/bin/python -m pytest -q -p no:cacheprovider --timeout=900 "
               "--continue-on-collection-errors --junitxml=%s" % (wt, xml), timeout=7200)
            base = json.load(open("/root/.vp/BASELINE.json"))
            passed = set()
            for tc in ET.parse(xml).iter("testcase"):
                if not any(ch.tag in ("failure", "error", "skipped") for ch in tc):
                    passed.add(tc.get("classname") + "::" + tc.get("name"))
            missing = sorted(set(base["stable_pass"]) - passed)
            conf["suite_stable_missing"] = missing[:10]
            conf["suite_stable_passed"] = len(set(base["stable_pass"]) & passed)
            os.remove(xml)
        with open(os.path.join(VERIF, "MANIFEST.json")) as fh:
            claimed = [c["property_id"] for c in json.load(fh)["checks"]]
        caught = {}
        for p in (props or meta.get("run_checks") or claimed):
            r = sh("cd %s && VERIF_REPO=%s ./check %s --tier quick" % (VERIF, wt, p), timeout=3000)
            lines = [ln for ln in r.stdout.splitlines() if ln.startswith("VIOLATION")]
            caught[p] = lines[0] if lines else "exit %d, no VIOLATION" % r.returncode
            print(name, p, "CAUGHT" if lines else "missed", flush=True)
        conf["checks"] = caught
        conf["caught_by"] = sorted(p for p, v in caught.items() if v.startswith("VIOLATION"))
    finally:
        sh("git -C /repo worktree remove --force %s" % wt)
        shutil.rmtree(os.path.join(VERIF, "evidence"), ignore_errors=True)
        shutil.copytree(ev_backup, os.path.join(VERIF, "evidence"))
        shutil.rmtree(ev_backup, ignore_errors=True)
    meta["confirmation"] = conf
    with open(mp, "w") as fh:
        json.dump(meta, fh, indent=1)
    print(json.dumps({k: conf[k] for k in conf if k != "checks"}, indent=1))


if __name__ == "__main__":
    main()
