"""Run the pinned test-suite on a patched scratch copy for every seeded change that has no suite
confirmation yet (4 in parallel); records the result in seeded/<name>/meta.json."""
import os, sys, json, glob, subprocess
import xml.etree.ElementTree as ET
from concurrent.futures import ThreadPoolExecutor
VERIF = os.path.dirname(os.path.dirname(os.path.abspath(__file__)))
BASE = json.load(open("/root/.vp/BASELINE.json"))


def sh(cmd, **kw):
    return subprocess.run(cmd, shell=True, capture_output=True, text=True, **kw)


def one(d):
    name = os.path.basename(d)
    wt = "/root/scratch/suite_" + name
    sh("git -C /repo worktree remove --force %s" % wt)
    sh("git -C /repo worktree add --detach %s HEAD" % wt)
    try:
        r = sh("git -C %s apply %s" % (wt, os.path.join(d, "patch.diff")))
        if r.returncode:
            return name, {"suite_error": "patch does not apply"}
        xml = os.path.join(VERIF, "build", "suite_%s.xml" % name)
        sh("cd %s && /venv/bin/python -m pytest -q -p no:cacheprovider --timeout=900 "
           "--continue-on-collection-errors --junitxml=%s" % (wt, xml), timeout=10800)
        passed = set()
        for tc in ET.parse(xml).iter("testcase"):
            if not any(ch.tag in ("failure", "error", "skipped") for ch in tc):
                passed.add(tc.get("classname") + "::" + tc.get("name"))
        os.remove(xml)
        missing = sorted(set(BASE["stable_pass"]) - passed)
        return name, {"suite_stable_passed": len(set(BASE["stable_pass"]) & passed),
                      "suite_stable_missing": missing[:10], "suite_total_passed": len(passed)}
    finally:
        sh("git -C /repo worktree remove --force %s" % wt)


def main():
    todo = []
    for d in sorted(glob.glob(os.path.join(VERIF, "seeded", "S*_*"))):
        mp = os.path.join(d, "meta.json")
        meta = json.load(open(mp)) if os.path.exists(mp) else {}
        if "suite_stable_passed" not in meta.get("confirmation", {}):
            todo.append(d)
    print("to run:", [os.path.basename(d) for d in todo], flush=True)
    with ThreadPoolExecutor(max_workers=4) as ex:
        for name, res in ex.map(one, todo):
            mp = os.path.join(VERIF, "seeded", name, "meta.json")
            meta = json.load(open(mp))
            meta.setdefault("confirmation", {}).update(res)
            json.dump(meta, open(mp, "w"), indent=1)
            print(name, res, flush=True)


if __name__ == "__main__":
    main()
