"""C14 -- BRDF directions follow the wall frame; lookups use the nearest sample."""
import numpy as np
import pyfar as pf

from common import Tok, run_driver, floats, ints, case_hash
import framework as fw
import scenes as S
import pipeline as P

NOT_CARRIED = [
    "pyfar's Orientations/rotate (quaternion -> Euler -> spherical coordinates) is not modelled: the model is "
    "the matrix with columns (up, normal x up, normal) and the correspondence compares at 1e-12 absolute",
    "float rounding: C14_rigid / C14_frame_equiv / C14_frame_complete are identities of exact ring arithmetic; the "
    "implementation's rotated direction sets are compared with the model at 1e-12 absolute",
]


def rand_frame(rng, k):
    if k < 24:
        ax = np.eye(3)
        n = ax[k % 3] * (1 if (k // 3) % 2 == 0 else -1)
        cand = [a * s for a in ax for s in (1, -1) if abs(np.dot(a, n)) < 0.5]
        u = cand[(k // 6) % 4]
        return n, u
    n = rng.normal(size=3); n /= np.linalg.norm(n)
    u = rng.normal(size=3); u -= u.dot(n) * n; u /= np.linalg.norm(u)
    return n, u


def rand_dirs(rng, m):
    d = rng.normal(size=(m, 3)); d[:, 2] = np.abs(d[:, 2]); d /= np.linalg.norm(d, axis=1)[:, None]
    return d


def frame_case(spec):
    from sparrowpy.classes.RadiosityFast import _rotate_coords_to_normal
    rng = np.random.default_rng([spec["seed"], spec["idx"]])
    out = {"evaluations": 1, "mismatches": [], "prop_failures": [], "dist": {}, "nontrivial": []}
    n, u = rand_frame(rng, spec["idx"])
    sn, su = float(10 ** rng.uniform(-2, 2)), float(10 ** rng.uniform(-2, 2))
    m = int(rng.integers(2, 41))
    d = np.vstack([rand_dirs(rng, m), [[0, 0, 1], [1, 0, 0]]])
    tag = dict(frame=True, n=(n * sn).tolist(), u=(u * su).tolist(), m=m, seed=spec["seed"], idx=spec["idx"])
    out["sample"] = tag
    out["dist"]["axis_frame" if spec["idx"] < 24 else "random_frame"] = 1
    c = pf.Coordinates(d[:, 0], d[:, 1], d[:, 2])
    s_rot, r_rot = _rotate_coords_to_normal(n * sn, u * su, c, c.copy())
    got = r_rot.cartesian
    tok = Tok().cmd("q_walldirs").vec(n * sn).vec(u * su).vecs(d)
    mod = floats(run_driver(tok)[0][1], (-1, 3))
    out["traces"] = 1
    if np.abs(got - mod).max() > 1e-12 or np.abs(s_rot.cartesian - mod).max() > 1e-12:
        out["mismatches"].append(dict(stage="_rotate_coords_to_normal", case=tag,
                                      what="max abs diff %.3e" % np.abs(got - mod).max()))
    # property: rigid rotation mapping +z to the normal and +x to up; scaling of n/u irrelevant
    if np.abs(np.linalg.norm(got, axis=1) - 1).max() > 1e-12:
        out["prop_failures"].append(dict(test="unit_length", case=tag, what="rotated directions are not unit length"))
    if np.abs(got @ n - d[:, 2]).max() > 1e-12 or (got @ n).min() < -1e-12:
        out["prop_failures"].append(dict(test="half_space", case=tag,
                                         what="component along the wall normal is not the reference z"))
    if np.abs(got @ got.T - d @ d.T).max() > 1e-12:
        out["prop_failures"].append(dict(test="rigid", case=tag, what="pairwise angles not preserved"))
    if np.abs(got[-2] - n).max() > 1e-12 or np.abs(got[-1] - u).max() > 1e-12:
        out["prop_failures"].append(dict(test="axes", case=tag, what="+z does not go to the normal / +x not to up"))
    _, r2 = _rotate_coords_to_normal(n, u, c, c.copy())
    if np.abs(r2.cartesian - got).max() > 1e-12:
        out["prop_failures"].append(dict(test="scale_free", case=tag, what="rescaling normal/up changes the directions"))
    out["nontrivial"].append(case_hash(tag))
    return out


def lookup_case(spec):
    from sparrowpy.classes.RadiosityFast import get_scattering_data_receiver_index, get_scattering_data_source
    rng = np.random.default_rng([spec["seed"], 5000 + spec["idx"]])
    out = {"evaluations": 1, "mismatches": [], "prop_failures": [], "dist": {"lookup": 1}, "nontrivial": []}
    nw = int(rng.integers(1, 4)); m = int(rng.integers(2, 41))
    dirs = np.array([rand_dirs(rng, m) for _ in range(nw)])
    pi_ = rng.uniform(-3, 3, 3); pj = rng.uniform(-3, 3, 3); w = int(rng.integers(0, nw))
    v = (pj - pi_) / np.linalg.norm(pj - pi_)
    dd = np.sort(np.sum((dirs[w] - v) ** 2, axis=-1))
    if dd[1] - dd[0] < 1e-9:
        out["rejected"] = 1
        return out
    idx_impl = int(get_scattering_data_receiver_index(pi_[None, :].copy(), pj.copy(), dirs, np.array([w]))[0])
    tab = rng.random((2, m, 3, 2))
    row = get_scattering_data_source(pj.copy(), pi_.copy(), dirs, w, tab, np.array([1] * nw))
    tok = Tok().cmd("q_nearest").vecs(dirs[w]).vec(v)
    idx_mod = int(run_driver(tok)[0][1][0])
    tag = dict(lookup=True, m=m, seed=spec["seed"], idx=spec["idx"])
    out["sample"] = tag
    out["traces"] = 1
    if idx_impl != idx_mod:
        out["mismatches"].append(dict(stage="get_scattering_data_receiver_index", case=tag,
                                      what="impl %d model %d" % (idx_impl, idx_mod)))
    best = int(np.argmax(dirs[w] @ v))
    if idx_impl != best:
        out["prop_failures"].append(dict(test="nearest_in_angle", case=tag,
                                         what="receiver-index lookup is not the sample with the smallest angle"))
    if not np.array_equal(row, tab[1, best]):
        out["prop_failures"].append(dict(test="nearest_in_angle_source", case=tag,
                                         what="source-side lookup does not return the table row of the nearest sample"))
    out["nontrivial"].append(case_hash(tag))
    return out


def scene_case(spec):
    """'uses': which sample each stage picks, on scenes with direction-dependent tables"""
    from sparrowpy.form_factor import universal
    rng = np.random.default_rng([spec["seed"], 8000 + spec["idx"]])
    out = {"evaluations": 1, "mismatches": [], "prop_failures": [], "dist": {"scene_random_tables": 1}, "nontrivial": []}
    nb = int(rng.integers(1, 3))
    cfg = S.draw_config(rng, nb=nb, multi_dir=True, random_tables=True, max_patches=spec["max_patches"])
    if spec.get("wide"):
        # a fine outgoing sampling (more than 256 directions) next to a coarse incoming one: slot indices
        # beyond one byte
        cfg["out_dirs"] = (int(rng.integers(17, 21)), 16, float(np.round(rng.uniform(0.05, 0.3), 4)))
        out["dist"]["outgoing_sampling_over_256"] = 1
    cfg["prebake"] = bool(spec["idx"] % 2)       # every other scene: bake_geometry before the materials, and again after
    radi = S.build(cfg)
    src = S.draw_inside(rng, cfg["dims"])
    recs = [S.draw_inside(rng, cfg["dims"])]
    K = 1
    c, dt, dur = P.draw_timing(rng, cfg, K, "long", radi, src, recs)
    tag = dict(dims=cfg["dims"], patch_size=cfg["patch_size"], n_patches=cfg["n_patches"], nb=nb, nt=cfg["nt"],
               nphi=cfg["nphi"], src=src.tolist(), rec=recs[0].tolist(), c=c, dt=dt, dur=dur,
               seed=spec["seed"], idx=spec["idx"], wide=bool(spec.get("wide")), max_patches=spec["max_patches"])
    out["sample"] = tag
    impl = P.impl_pipeline(radi, src, c, dt, dur, K, recs)
    tok = P.model_session(radi, src, c, dt, dur, K, recs)
    mism, mu = P.compare_stages(radi, impl, run_driver(tok), K, recs, dur, dt, src=src)
    out["max_ulp"] = mu
    out["traces"] = 1
    for m in mism:
        if m.get("rejected"):
            out["rejected"] = out.get("rejected", 0) + 1
            return out
        m.update(case=tag)
        out["mismatches"].append(m)
    # independent recomputation from the statement
    cen = radi.patches_center
    wall = radi._patch_to_wall_ids
    ins = np.array([s.cartesian for s in radi._brdf_incoming_directions])
    outs = np.array([s.cartesian for s in radi._brdf_outgoing_directions])
    tables = np.array(radi._brdf)
    tidx = np.array(radi._brdf_index)
    F = P.full_ff(radi)
    V = radi.visibility_matrix
    n = radi.n_patches
    e0, _ = universal._source2patch_energy_universal(src, cen, radi.patches_points, radi._source_visibility,
                                                     radi._air_attenuation, nb)
    def best_set(dirs, v):
        """all samples whose angle to v is minimal up to rounding (any of them is 'nearest')"""
        dots = dirs @ v
        return [int(k) for k in np.nonzero(dots >= dots.max() - 1e-12)[0]]

    def close(got, exp):
        return not np.any(np.abs(got - exp) > 1e-12 * np.abs(exp) + 1e-300)
    for i in range(n):
        v = (src - cen[i]) / np.linalg.norm(src - cen[i])
        got = radi._energy_init_source[i]
        if not any(close(got, e0[i][None, :] * tables[tidx[wall[i]], a]) for a in best_set(ins[wall[i]], v)):
            out["prop_failures"].append(dict(test="source_deposit", patch=i, case=tag,
                                             what="source energy is not deposited through the incoming sample nearest to the source direction"))
            break
    bad = False
    for i in range(n):
        for j in range(n):
            if i == j or not (V[i, j] or V[j, i]):
                continue
            vo = (cen[j] - cen[i]) / np.linalg.norm(cen[j] - cen[i])
            if int(radi._patch_2_brdf_outgoing_index[i, j]) not in best_set(outs[wall[i]], vo):
                out["prop_failures"].append(dict(test="pair_out_slot", i=i, j=j, case=tag,
                                                 what="outgoing slot between two patches is not the sample nearest to the true direction"))
                bad = True
                break
            d = np.linalg.norm(cen[j] - cen[i])
            got = radi._form_factors_tilde[i, j]
            if not any(close(got, F[i, j] * np.exp(-cfg["att"] * d)[None, :] * tables[tidx[wall[j]], a])
                       for a in best_set(ins[wall[j]], -vo)):
                out["prop_failures"].append(dict(test="pair_in_sample", i=i, j=j, case=tag,
                                                 what="baked factor does not use the receiving wall's incoming sample nearest to the true direction"))
                bad = True
                break
        if bad:
            break
    out["nontrivial"].append(case_hash(tag))
    return out


def wall_case(spec):
    """set_wall_brdf on an object whose single wall has an arbitrary orientation"""
    import sparrowpy as sp
    rng = np.random.default_rng([spec["seed"], 3000 + spec["idx"]])
    out = {"evaluations": 1, "mismatches": [], "prop_failures": [], "dist": {"set_wall_brdf_oblique": 1}, "nontrivial": []}
    n, u = rand_frame(rng, 24 + spec["idx"])
    v = np.cross(n, u)
    o = rng.uniform(-2, 2, 3)
    pts = np.array([o, o + u, o + u + v, o + v])
    radi = sp.DirectionalRadiosityFast(pts[None], n[None], u[None], pts[None], 1, np.array([0]))
    d = rand_dirs(rng, int(rng.integers(2, 20)))
    c = pf.Coordinates(d[:, 0], d[:, 1], d[:, 2])
    radi.set_wall_brdf([0], pf.FrequencyData(np.ones((len(d), len(d), 1)), [100.0]), c, c.copy())
    got = radi._brdf_outgoing_directions[0].cartesian
    tok = Tok().cmd("q_walldirs").vec(n).vec(u).vecs(d)
    mod = floats(run_driver(tok)[0][1], (-1, 3))
    tag = dict(wall=True, n=n.tolist(), u=u.tolist(), seed=spec["seed"], idx=spec["idx"])
    out["sample"] = tag
    out["traces"] = 1
    if np.abs(got - mod).max() > 1e-12:
        out["mismatches"].append(dict(stage="set_wall_brdf directions", case=tag, what="max abs diff %.3e" % np.abs(got - mod).max()))
    if (got @ n).min() < -1e-12 or np.abs(np.linalg.norm(got, axis=1) - 1).max() > 1e-12:
        out["prop_failures"].append(dict(test="wall_half_space", case=tag, what="wall directions leave the outer half space / unit sphere"))
    out["nontrivial"].append(case_hash(tag))
    return out



def multiwall_case(spec):
    """one set_wall_brdf call for several walls that share a normal but have different up vectors
    (and walls with different normals): every wall must get ITS OWN frame"""
    import sparrowpy as sp
    rng = np.random.default_rng([spec["seed"], 4000 + spec["idx"]])
    out = {"evaluations": 1, "mismatches": [], "prop_failures": [], "dist": {"set_wall_brdf_shared_normal": 1}, "nontrivial": []}
    n, u = rand_frame(rng, spec["idx"] if spec["idx"] % 2 else 24 + spec["idx"])
    v = np.cross(n, u)
    nw = int(rng.integers(2, 5))
    pts, nors, ups = [], [], []
    for k in range(nw):
        if k == nw - 1 and nw > 2:
            nk, uk = u, n                      # a wall with another normal in the same call
        else:
            ang = [0.0, np.pi / 2, float(rng.uniform(0.2, 2.8)), np.pi][k % 4]
            nk, uk = n, np.cos(ang) * u + np.sin(ang) * v
        vk = np.cross(nk, uk)
        o = rng.uniform(-2, 2, 3) + 3.0 * k * uk
        pts.append(np.array([o, o + uk, o + uk + vk, o + vk]))
        nors.append(nk)
        ups.append(uk)
    pts, nors, ups = np.array(pts), np.array(nors), np.array(ups)
    radi = sp.DirectionalRadiosityFast(pts, nors, ups, pts, nw, np.arange(nw))
    d = rand_dirs(rng, int(rng.integers(3, 12)))
    c = pf.Coordinates(d[:, 0], d[:, 1], d[:, 2])
    radi.set_wall_brdf(list(range(nw)), pf.FrequencyData(np.ones((len(d), len(d), 1)), [100.0]), c, c.copy())
    tag = dict(multiwall=True, n_walls=nw, seed=spec["seed"], idx=spec["idx"])
    out["sample"] = tag
    for k in range(nw):
        tok = Tok().cmd("q_walldirs").vec(nors[k]).vec(ups[k]).vecs(d)
        mod = floats(run_driver(tok)[0][1], (-1, 3))
        for name, got in (("incoming", radi._brdf_incoming_directions[k].cartesian),
                          ("outgoing", radi._brdf_outgoing_directions[k].cartesian)):
            out["traces"] = out.get("traces", 0) + 1
            if np.abs(got - mod).max() > 1e-12:
                out["mismatches"].append(dict(stage="set_wall_brdf %s directions of wall %d" % (name, k), case=tag,
                                              what="max abs diff %.3e" % np.abs(got - mod).max()))
            # the statement itself: rigid image of the reference set under (+z -> normal, +x -> up)
            M = np.stack([ups[k], np.cross(nors[k], ups[k]), nors[k]], axis=1)
            if np.abs(got - d @ M.T).max() > 1e-12:
                out["prop_failures"].append(dict(test="own_wall_frame", wall=k, which=name, case=tag,
                                                 what="wall %d: %s directions are not the reference set carried by the rotation "
                                                      "+z -> its normal, +x -> its own up vector" % (k, name)))
    out["nontrivial"].append(case_hash(tag))
    return out

def run(res):
    quick = res.tier == "quick"
    for r in fw.run_parallel(frame_case, [dict(seed=res.seed, idx=i) for i in range(60 if quick else 600)], workers=8):
        res.absorb(r)
    for r in fw.run_parallel(lookup_case, [dict(seed=res.seed, idx=i) for i in range(200 if quick else 4000)], workers=8):
        res.absorb(r)
    for r in fw.run_parallel(wall_case, [dict(seed=res.seed, idx=i) for i in range(20 if quick else 200)], workers=8):
        res.absorb(r)
    for r in fw.run_parallel(multiwall_case, [dict(seed=res.seed, idx=i) for i in range(20 if quick else 200)], workers=8):
        res.absorb(r)
    for r in fw.run_parallel(scene_case, [dict(seed=res.seed, idx=i, max_patches=(16 if quick else 30))
                                          for i in range(8 if quick else 80)]):
        res.absorb(r)
    for r in fw.run_parallel(scene_case, [dict(seed=res.seed + 5, idx=i, max_patches=8, wide=True)
                                          for i in range(2 if quick else 12)]):
        res.absorb(r)
    res.rule = ("24 axis frames + random orthonormal frames with rescaled normal/up, 2-40 hemisphere samples; random "
                "lookups (near-ties < 1e-9 rejected); oblique single-wall objects through set_wall_brdf; baked scenes "
                "with direction-dependent random tables where every stage's choice of sample is recomputed from the "
                "statement; every accepted case is non-trivial, distinct by input hash")
    res.not_carried = NOT_CARRIED
    res.assumptions = ["pyfar rotation machinery is treated as a black box compared at 1e-12 absolute"]


def replay(res, payload):
    for f in payload.get("failures", []) + payload.get("correspondence", []):
        case = f.get("case", {})
        sp_ = dict(seed=case["seed"], idx=case["idx"], max_patches=30)
        if case.get("frame"):
            res.absorb(frame_case(sp_))
        elif case.get("lookup"):
            res.absorb(lookup_case(sp_))
        elif case.get("wall"):
            res.absorb(wall_case(sp_))
        elif case.get("multiwall"):
            res.absorb(multiwall_case(sp_))
        else:
            sp_["wide"] = bool(case.get("wide"))
            sp_["max_patches"] = case.get("max_patches", 30)
            res.absorb(scene_case(sp_))
