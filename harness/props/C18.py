"""C18 -- inconsistent simulation states are rejected, not simulated.

For random small scenes the saved state (`to_dict()`) of every pipeline stage is taken, every
corruption of the documented-constraint catalogue is applied to ONE field, and
`DirectionalRadiosityFast.from_dict` (for a subset also a `pf.io.write` / `from_read` round
trip) is called.  Outcome classes {Ok, ValueError, other exception} are compared with the
extracted Gallina model `construct` on the abstracted state (correspondence) and with the
property statement itself (valid -> accepted, catalogue corruption -> ValueError)."""
import os
import shutil

import numpy as np
import pyfar as pf

import common
from common import Tok, run_driver, case_hash
import framework as fw
import scenes as S

import sparrowpy as sp
from sparrowpy import geometry

R = sp.DirectionalRadiosityFast

NOT_CARRIED = [
    "violations hidden by the constructor's conversions are NOT rejected (C18_complete_refuted_up_vector_rank, "
    "_normal_rank, _wall_ids_rank): a rank-1 walls_normal / walls_up_vector in a one-wall scene and a bare integer "
    "patch_to_wall_ids in a one-patch scene are accepted; the harness reports them as property failures "
    "(test keys 'rank-:walls_normal@one-wall', 'rank-:walls_up_vector@one-wall', 'rank-:patch_to_wall_ids@one-patch')",
    "outside the statement's enumeration, check() leaves the ValueError class (C18_complete_refuted_brdf_index, "
    "_out_dirs_empty, _hist_without_duration): brdf_index is tested with len() only (shape (n_walls,2) accepted, "
    "0-d -> TypeError), an empty brdf_outgoing_directions list -> IndexError, a histogram without "
    "etc_duration/etc_time_resolution -> TypeError; compared with the model (correspondence) but not demanded "
    "by the property test",
    "inputs the abstract state cannot describe: ragged nested lists, non-numeric scalars, NaN scalars "
    "(float('nan') passes every '<= 0' test: the theorems assume a total order), patch_to_wall_ids=None, "
    "unknown or missing dictionary keys (TypeError of the call itself)",
    "shapes of visibility_matrix, visible_patches, patch_2_brdf_outgoing_index and brdf are not in the catalogue "
    "and not checked by the code; the harness only confirms that the model and the code both accept them",
]

ARRAY3 = ["walls_points", "patches_points"]
ARRAY2 = ["walls_normal", "walls_up_vector"]
SCALARS = ["speed_of_sound", "etc_time_resolution", "etc_duration"]
DIRS = ["brdf_incoming_directions", "brdf_outgoing_directions"]
STAGES = ["1-from_polygon", "2-materials", "3-baked", "4-source", "5-exchange"]


# --------------------------------------------------------------------------
# valid saved states
# --------------------------------------------------------------------------
def decode(d):
    return {k: (None if isinstance(v, str) and v == "None" else v) for k, v in d.items()}


def encode(d):
    return {k: ("None" if v is None else v) for k, v in d.items()}


# duration/resolution pairs whose float quotient lands one ulp below an integer: the histogram
# length int(duration/resolution) is one less than the "obvious" value, and any other way of
# computing it (duration*rate, round, ceil) disagrees exactly here
UNLUCKY = [(0.7, 0.001), (0.35, 0.002), (0.3, 0.1), (0.6, 0.1), (0.15, 0.05), (0.6, 0.2), (0.07, 0.0001)]
UNLUCKY = [(a, b) for (a, b) in UNLUCKY if int(a / b) != round(a / b) and int(a / b) <= 800]


def draw_timing(rng):
    c = float(np.round(rng.uniform(330.0, 350.0), 2))
    if rng.random() < 0.35 and UNLUCKY:
        dur, dt = UNLUCKY[int(rng.integers(0, len(UNLUCKY)))]
        return c, dt, dur, int(dur / dt)
    n = int(rng.integers(6, 30))
    dt = float(np.round(rng.uniform(0.0005, 0.004), 6))
    dur = (n + 0.5) * dt
    return c, dt, dur, n


def shoebox_stages(rng):
    cfg = S.draw_config(rng, multi_dir=bool(rng.random() < 0.6), max_patches=14)
    walls = S.shoebox(*cfg["dims"], off=cfg["offset"])
    snaps = [R.from_polygon(walls, cfg["patch_size"]).to_dict()]
    radi = S.build(cfg, bake=False)
    snaps.append(radi.to_dict())
    radi.bake_geometry()
    snaps.append(radi.to_dict())
    src = S.draw_inside(rng, cfg["dims"])
    radi.init_source_energy(pf.Coordinates(*src))
    snaps.append(radi.to_dict())
    c, dt, dur, n = draw_timing(rng)
    radi.calculate_energy_exchange(c, dt, dur, int(rng.integers(1, 3)))
    snaps.append(radi.to_dict())
    tag = dict(scene="shoebox", dims=cfg["dims"], patch_size=cfg["patch_size"], n_walls=6,
               n_patches=cfg["n_patches"], nb=cfg["nb"], n_dirs=max(1, cfg["nt"] * cfg["nphi"]),
               c=c, dt=dt, dur=dur, n_samples=n)
    return snaps, tag


def single_wall_stages(rng, one_patch):
    """one rectangular wall: the degenerate scenes in which the constructor's atleast_2d /
    atleast_1d conversions can hide a missing axis"""
    for _ in range(100):
        X, Y = [float(np.round(rng.uniform(1.0, 1.8), 3)) for _ in range(2)]
        ps = 0.97 if one_patch else float(np.round(rng.uniform(0.4, 0.6), 3))
        if S.away_from_int(X / ps, 1e-3) and S.away_from_int(Y / ps, 1e-3):
            break
    wall = geometry.Polygon([[0, 0, 0], [X, 0, 0], [X, Y, 0], [0, Y, 0]], [1, 0, 0], [0, 0, 1])
    radi = R.from_polygon([wall], ps)
    snaps = [radi.to_dict()]
    nb = int(rng.integers(1, 3))
    freqs = np.array([125.0 * 2 ** k for k in range(nb)])
    if rng.random() < 0.5:
        din = pf.Coordinates(0, 0, 1, weights=1)
        dout = din
    else:
        din = S.gauss_hemisphere(1, 2)
        dout = din.copy()
    tab = np.full((din.csize, dout.csize, nb), 0.5 / np.pi)
    radi.set_wall_brdf([0], pf.FrequencyData(tab, freqs), din, dout)
    radi.set_air_attenuation(pf.FrequencyData(np.round(rng.uniform(0, 0.05, nb), 4), freqs))
    snaps.append(radi.to_dict())
    radi.bake_geometry()
    snaps.append(radi.to_dict())
    radi.init_source_energy(pf.Coordinates(0.4 * X, 0.6 * Y, float(rng.uniform(0.5, 1.5))))
    snaps.append(radi.to_dict())
    c, dt, dur, n = draw_timing(rng)
    radi.calculate_energy_exchange(c, dt, dur, 1)
    snaps.append(radi.to_dict())
    tag = dict(scene="single-wall", dims=[X, Y], patch_size=ps, n_walls=1, n_patches=radi.n_patches,
               nb=nb, n_dirs=dout.csize, c=c, dt=dt, dur=dur, n_samples=n)
    return snaps, tag


# --------------------------------------------------------------------------
# corruptions: each returns the new value of ONE field
# --------------------------------------------------------------------------
def rank_up(v):
    return np.array(v)[None].tolist()


def rank_up_last(v):
    return np.array(v)[..., None].tolist()


def rank_down(v):
    return np.array(v)[0].tolist()


def drop(v, ax):
    return np.delete(np.array(v), -1, axis=ax).tolist()


def dup(v, ax):
    a = np.array(v)
    return np.concatenate([a, np.take(a, [-1], axis=ax)], axis=ax).tolist()


def bad_element(rng):
    k = int(rng.integers(0, 5))
    return [("ndarray", np.array([0.0, 0.0, 1.0])), ("NoneType", None), ("str", "Coordinates"),
            ("list", [0.0, 0.0, 1.0]), ("float", 1.0)][k]


def corruptions(d, rng):
    """yield (kind, field, new value, in_catalogue) for the decoded valid state d"""
    nw = int(np.shape(d["walls_points"])[0])
    npat = int(d["n_patches"])
    out = []

    def add(kind, field, value, cat=True):
        out.append((kind, field, value, cat))

    for f in ARRAY3:
        v = d[f]
        add("rank+", f, rank_up(v)); add("rank+last", f, rank_up_last(v)); add("rank-", f, rank_down(v))
        add("drop@0", f, drop(v, 0)); add("dup@0", f, dup(v, 0))
        add("drop@2", f, drop(v, 2)); add("dup@2", f, dup(v, 2))
    for f in ARRAY2:
        v = d[f]
        add("rank+", f, rank_up(v)); add("rank+last", f, rank_up_last(v)); add("rank-", f, rank_down(v))
        add("drop@0", f, drop(v, 0)); add("dup@0", f, dup(v, 0))
        add("drop@1", f, drop(v, 1)); add("dup@1", f, dup(v, 1))
    add("n+1", "n_patches", npat + 1)
    add("n-1", "n_patches", npat - 1)
    ids = list(d["patch_to_wall_ids"])
    add("rank+", "patch_to_wall_ids", [ids]); add("rank-", "patch_to_wall_ids", ids[0])
    add("drop@0", "patch_to_wall_ids", ids[:-1]); add("dup@0", "patch_to_wall_ids", ids + ids[-1:])
    pos = int(rng.integers(0, len(ids)))
    add("id=n_walls", "patch_to_wall_ids", ids[:pos] + [nw] + ids[pos + 1:])
    add("id=-1", "patch_to_wall_ids", ids[:pos] + [-1] + ids[pos + 1:])
    if nw >= 2:
        w = int(rng.integers(0, nw))
        add("id-missing-wall", "patch_to_wall_ids", [(i if i != w else (w + 1) % nw) for i in ids])
    if d["frequencies"] is not None:
        v = d["frequencies"]
        add("rank+", "frequencies", rank_up(v)); add("rank-", "frequencies", rank_down(v))
        if d["air_attenuation"] is not None:
            add("drop@0", "frequencies", drop(v, 0)); add("dup@0", "frequencies", dup(v, 0))
    for f, nax in [("form_factors", 2), ("form_factors_tilde", 4), ("air_attenuation", 1),
                   ("distance_patches_to_source", 1), ("energy_init_source", 3), ("energy_exchange_etc", 4)]:
        v = d[f]
        if v is None:
            continue
        add("rank+", f, rank_up(v)); add("rank-", f, rank_down(v))
        for ax in range(nax):
            add("drop@%d" % ax, f, drop(v, ax)); add("dup@%d" % ax, f, dup(v, ax))
    for f in SCALARS:
        add("zero", f, 0.0); add("negzero", f, -0.0)
        add("neg", f, -float(rng.uniform(0.001, 400.0)))
    if d["energy_exchange_etc"] is not None:
        add("nsamples", "etc_duration", 2.0 * d["etc_duration"])
        add("nsamples", "etc_time_resolution", 0.5 * d["etc_time_resolution"])
    for f in DIRS:
        v = d[f]
        if v is None:
            continue
        for where, i in [("first", 0), ("mid", len(v) // 2), ("last", len(v) - 1)]:
            tname, elem = bad_element(rng)
            add("elem-%s:%s" % (where, tname), f, list(v[:i]) + [elem] + list(v[i + 1:]))
    # ---- outside the catalogue: correspondence only
    if d["brdf_index"] is not None:
        v = d["brdf_index"]
        add("drop@0", "brdf_index", drop(v, 0), False); add("dup@0", "brdf_index", dup(v, 0), False)
        add("rank+", "brdf_index", rank_up(v), False); add("rank-", "brdf_index", rank_down(v), False)
        add("cols2", "brdf_index", [[i, i] for i in v], False)
    if d["brdf_outgoing_directions"] is not None:
        add("empty", "brdf_outgoing_directions", [], False)
        add("empty", "brdf_incoming_directions", [], False)
    if d["energy_exchange_etc"] is not None:
        add("unset", "etc_duration", None, False)
        add("unset", "etc_time_resolution", None, False)
    for f in ["visibility_matrix", "visible_patches", "patch_2_brdf_outgoing_index"]:
        if d[f] is not None and len(d[f]) > 1:
            add("drop@0", f, drop(d[f], 0), False); add("rank+", f, rank_up(d[f]), False)
    if d["brdf"] is not None:
        add("drop@0", "brdf", list(d["brdf"])[:-1], False)
    return out


# --------------------------------------------------------------------------
# abstraction (independent of the implementation) and model call
# --------------------------------------------------------------------------
def tok_shape(t, sh):
    t.i(len(sh))
    for x in sh:
        t.i(x)


def tok_opt_shape(t, v):
    if v is None:
        t.b(False)
    else:
        t.b(True)
        tok_shape(t, np.shape(v))


def tok_state(t, d):
    t.cmd("q_validate")
    for f in ["walls_points", "walls_normal", "walls_up_vector", "patches_points"]:
        tok_shape(t, np.shape(d[f]))
    t.i(d["n_patches"])
    ids = np.array(d["patch_to_wall_ids"], dtype=int)
    if ids.ndim == 0:
        t.i(0).i(int(ids))
    elif ids.ndim == 1:
        t.i(1).i(ids.shape[0])
        for z in ids:
            t.i(int(z))
    else:
        t.i(2)
        tok_shape(t, ids.shape)
    for f in ["visibility_matrix", "visible_patches", "form_factors", "form_factors_tilde", "frequencies"]:
        tok_opt_shape(t, d[f])
    if d["brdf"] is None:
        t.b(False)
    else:
        t.b(True).i(len(d["brdf"]))
        for b in d["brdf"]:
            tok_shape(t, np.shape(b))
    tok_opt_shape(t, d["brdf_index"])
    for f in DIRS:
        if d[f] is None:
            t.b(False)
        else:
            t.b(True).i(len(d[f]))
            for e in d[f]:
                t.b(isinstance(e, pf.Coordinates))
    outs = d["brdf_outgoing_directions"]
    t.i(outs[0].csize if outs and isinstance(outs[0], pf.Coordinates) else 0)
    tok_opt_shape(t, d["patch_2_brdf_outgoing_index"])
    tok_opt_shape(t, d["air_attenuation"])
    for f in SCALARS:
        if d[f] is None:
            t.b(False)
        else:
            t.b(True).f(float(d[f]))
    for f in ["distance_patches_to_source", "energy_init_source", "energy_exchange_etc"]:
        tok_opt_shape(t, d[f])


def outcome(fn, *args):
    try:
        fn(*args)
        return "Ok"
    except ValueError:
        return "ValueError"
    except Exception as e:  # noqa: BLE001
        return type(e).__name__


def model_class(cls):
    return cls if cls in ("Ok", "ValueError") else "OtherError"


def degenerate_suffix(kind, field, nw, npat):
    """the situations in which a conversion of __init__ hides a missing axis"""
    if kind == "rank-" and field in ARRAY2 and nw == 1:
        return "@one-wall"
    if kind == "rank-" and field == "patch_to_wall_ids" and npat == 1:
        return "@one-patch"
    return ""


# --------------------------------------------------------------------------
# one case = one scene, 5 stages, every corruption
# --------------------------------------------------------------------------
def case(spec):
    rng = np.random.default_rng([spec["seed"], spec["idx"]])
    out = {"evaluations": 0, "mismatches": [], "prop_failures": [], "dist": {}, "nontrivial": []}
    dist = out["dist"]

    def count(k, n=1):
        dist[k] = dist.get(k, 0) + n

    snaps, tag = (single_wall_stages(rng, spec["idx"] % 2 == 0) if spec["scene"] == "single" else shoebox_stages(rng))
    tag.update(seed=spec["seed"], idx=spec["idx"], scene_kind=spec["scene"])
    out["sample"] = tag
    count("scene_%s" % tag["scene"])
    count("patches_%02d" % tag["n_patches"])
    count("bands_%d" % tag["nb"])
    count("dirs_%d" % tag["n_dirs"])
    nw, npat = tag["n_walls"], tag["n_patches"]
    tmpdir = os.path.join(common.TMP, "c18_%d_%d" % (os.getpid(), spec["idx"]))
    os.makedirs(tmpdir, exist_ok=True)

    tok = Tok()
    records = []      # (stage, kind, field, in_catalogue, impl outcome, path)
    try:
        for si, snap in enumerate(snaps):
            valid = decode(snap)
            # the uncorrupted state, as saved (with the 'None' placeholders) ...
            records.append((si, "valid", "-", True, outcome(R.from_dict, dict(snap)), "from_dict"))
            tok_state(tok, valid)
            # ... and through a file
            fn = os.path.join(tmpdir, "valid_%d.far" % si)
            pf.io.write(fn, compress=bool(rng.random() < 0.5), **snap)      # what write() does
            records.append((si, "valid", "-", True, outcome(R.from_read, fn), "from_read"))
            tok_state(tok, valid)
            cors = corruptions(valid, rng)
            through_file = set(int(i) for i in rng.choice(len(cors), size=min(6, len(cors)), replace=False))
            for ci, (kind, field, value, cat) in enumerate(cors):
                dd = dict(valid)
                dd[field] = value
                records.append((si, kind, field, cat, outcome(R.from_dict, encode(dd)), "from_dict"))
                tok_state(tok, dd)
                if ci in through_file:
                    fn = os.path.join(tmpdir, "c_%d_%d.far" % (si, ci))
                    try:
                        pf.io.write(fn, compress=False, **encode(dd))
                    except Exception:  # noqa: BLE001  pyfar cannot encode this value
                        count("file_write_unsupported")
                        continue
                    records.append((si, kind, field, cat, outcome(R.from_read, fn), "from_read"))
                    tok_state(tok, dd)
    finally:
        shutil.rmtree(tmpdir, ignore_errors=True)

    res = run_driver(tok)
    assert len(res) == len(records), (len(res), len(records))
    seen = set()
    n_cat = 0
    for (si, kind, field, cat, impl, path), (_, toks) in zip(records, res):
        model = toks[0]
        out["evaluations"] += 1
        key = "%s:%s" % (kind, field)
        ctag = dict(tag, stage=STAGES[si], corruption=key, path=path)
        count("stage_%s" % STAGES[si])
        count("path_%s" % path)
        count("kind_%s" % (kind.split(":")[0] if kind.startswith("elem") else kind))
        count("field_%s" % field)
        count("outcome_%s" % impl)
        seen.add(impl)
        if model_class(impl) != model:
            out["mismatches"].append(dict(stage="construct/%s" % path, case=ctag,
                                          what="%s at stage %s: code %s, model %s" % (key, STAGES[si], impl, model)))
        if kind == "valid":
            if impl != "Ok":
                out["prop_failures"].append(dict(
                    test="valid-rejected", case=ctag, outcome=impl,
                    what="the valid saved state of stage %s is not accepted by %s (%s)" % (STAGES[si], path, impl)))
        elif cat:
            n_cat += 1
            if impl != "ValueError":
                test = key + degenerate_suffix(kind, field, nw, npat)
                out["prop_failures"].append(dict(
                    test=test, case=ctag, outcome=impl,
                    what="corruption %s of the stage-%s state is answered with %s instead of ValueError (%s)"
                         % (key, STAGES[si], impl, path)))
        else:
            count("non_catalogue")
    out["traces"] = len(records)
    if n_cat >= 100 and {"Ok", "ValueError"} <= seen:
        out["nontrivial"].append(case_hash(tag))
    return out


def specs_for(res, n_box, n_single):
    specs = [dict(seed=res.seed, idx=i, scene="shoebox") for i in range(n_box)]
    specs += [dict(seed=res.seed, idx=1000 + i, scene="single") for i in range(n_single)]
    return specs


def run(res):
    quick = res.tier == "quick"
    for r in fw.run_parallel(case, specs_for(res, 36 if quick else 400, 8 if quick else 80)):
        res.absorb(r)
    res.rule = ("shoebox rooms (6 walls, 6-14 patches, 1-3 bands, 1-8 outgoing directions) and one-wall scenes "
                "(1-16 patches); the saved state of each of the 5 pipeline stages, uncorrupted and with every "
                "single-field corruption of the catalogue (rank +/-1, row/column dropped or duplicated on every "
                "axis, n_patches +/-1, wall id = n_walls / -1 / a wall without patch, zero / -0.0 / negative "
                "scalars, n_samples mismatch, a non-Coordinates element in a direction list), via from_dict and "
                "(valid states + 6 corruptions per stage) via pf.io.write/from_read; one evaluation = one "
                "constructor call; a case is non-trivial when >= 100 catalogue corruptions were applied and both "
                "Ok and ValueError were observed; distinct by scene hash")
    res.not_carried = NOT_CARRIED
    res.assumptions = [
        "the abstract state handed to the model (raw shapes via np.shape, integer wall ids, isinstance kinds of "
        "the direction-list elements, csize of the first outgoing direction object, float scalars) is computed "
        "by the harness from the very dictionary handed to from_dict",
        "pf.io.write / pf.io.read preserve shapes and element kinds (the from_read outcomes are compared with "
        "the model on the state before writing)",
    ]


def replay(res, payload):
    done = set()
    for f in payload.get("failures", []) + payload.get("correspondence", []):
        c = f.get("case", {})
        key = (c.get("seed"), c.get("idx"), c.get("scene_kind"))
        if None in key or key in done:
            continue
        done.add(key)
        res.absorb(case(dict(seed=key[0], idx=key[1], scene=key[2])))
