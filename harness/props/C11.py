"""C11 -- receiver collection is geometric, per-receiver and additive over patches."""
import numpy as np
import pyfar as pf

from common import run_driver, case_hash
import framework as fw
import scenes as S
import pipeline as P

NOT_CARRIED = [
    "full-strength 'delayed by the patch-receiver travel time' is refuted for histograms the delayed energy does "
    "not fit into (np.roll wraps): C11_wrap_refuted, known finding C11/receiver_wrap; proved on the complement, "
    "for the scene model (C11_patch_term_partial) and for the composed room model (C11_room_receiver_partial); "
    "C11_room_receiver states the formula with the cyclic delay the code has",
    "in the composed room model the receiver factor IS pt_solution(receiver mode) of the patch polygon and the "
    "visibility IS the room's point-to-patch scan (C11_room_receiver); that pt_solution is the solid angle is "
    "Gauss-Bonnet (see C04) and that the scan is the geometric line of sight is C07 -- neither is re-proved here; "
    "the search cross-checks the factor against an independent solid-angle formula",
]


def draw_receivers(rng, cfg, n):
    recs = []
    for _ in range(n):
        if rng.random() < 0.3:   # outside the room: some patches are seen from behind
            p = S.draw_inside(rng, cfg["dims"], off=cfg["offset"])
            k = int(rng.integers(0, 3))
            p[k] = cfg["offset"][k] + cfg["dims"][k] + rng.uniform(0.3, 2.0)
            recs.append(p)
        else:
            recs.append(S.draw_inside(rng, cfg["dims"], off=cfg["offset"]))
    return recs


def scene_case(spec):
    rng = np.random.default_rng([spec["seed"], spec["idx"]])
    out = {"evaluations": 1, "mismatches": [], "prop_failures": [], "dist": {}, "nontrivial": []}
    nb = int(rng.integers(1, 3))
    cfg = S.draw_config(rng, nb=nb, multi_dir=(spec["idx"] % 2 == 1), random_tables=(spec["idx"] % 4 == 3),
                        max_patches=spec["max_patches"], offset=(spec["idx"] % 3 == 0),
                        partition=(spec["idx"] % 3 == 2) or bool(spec.get("partial")))
    if cfg.get("partition"):
        out["dist"]["interior_partition"] = 1
    K = int(rng.integers(1, 3))
    radi = S.build(cfg)
    src = S.draw_inside(rng, cfg["dims"], off=cfg["offset"])
    nrec = int(rng.integers(1, 5))
    recs = draw_receivers(rng, cfg, nrec)
    if spec.get("partial") and cfg.get("partition"):
        # look for a receiver from which some wall is only PARTLY hidden by the partition (some of its patches
        # visible, others not): visibility has to be decided patch by patch, not wall by wall
        from sparrowpy import geometry as G
        wallid = radi._patch_to_wall_ids
        for _ in range(60):
            cand = S.draw_inside(rng, cfg["dims"], off=cfg["offset"])
            v = np.asarray(G._check_point2patch_visibility(
                eval_point=cand, patches_center=radi.patches_center,
                surf_points=radi.walls_points, surf_normal=radi.walls_normal), dtype=bool)
            part = [w for w in range(int(wallid.max()) + 1) if v[wallid == w].any() and not v[wallid == w].all()]
            if part:
                recs[0] = cand
                out["dist"]["receiver_with_partly_hidden_wall"] = 1
                break
    mode = "short" if spec["idx"] % 5 == 4 else "long"
    c, dt, dur = P.draw_timing(rng, cfg, K, mode, radi, src, recs)
    tag = dict(dims=cfg["dims"], patch_size=cfg["patch_size"], n_patches=cfg["n_patches"], nb=nb,
               nt=cfg["nt"], nphi=cfg["nphi"], offset=list(cfg["offset"]), src=src.tolist(),
               recs=[r.tolist() for r in recs], c=c, dt=dt, dur=dur, K=K, mode=mode,
               seed=spec["seed"], idx=spec["idx"], max_patches=spec["max_patches"], partial=bool(spec.get("partial")))
    out["sample"] = tag
    out["dist"]["receivers_%d" % nrec] = 1
    out["dist"]["window_" + mode] = 1
    N = int(dur / dt)

    impl = P.impl_pipeline(radi, src, c, dt, dur, K, recs, direct=True)
    tok = P.model_session(radi, src, c, dt, dur, K, recs, direct=True)
    mism, mu = P.compare_stages(radi, impl, run_driver(tok), K, recs, dur, dt, src=src)
    out["max_ulp"] = mu
    out["traces"] = 1 + nrec
    for m in mism:
        if m.get("rejected"):
            out["rejected"] = out.get("rejected", 0) + 1
            continue
        m.update(case=tag)
        out["mismatches"].append(m)

    etc = impl["etc"]
    centers = radi.patches_center
    areas = radi.patches_area
    wall = radi._patch_to_wall_ids
    outs = np.array([s.cartesian for s in radi._brdf_outgoing_directions])
    att = cfg["att"]
    nomono = None
    rc_all = pf.Coordinates(np.array(recs)[:, 0], np.array(recs)[:, 1], np.array(recs)[:, 2])
    nomono = radi.collect_energy_receiver_mono(rc_all, direct_sound=False).time
    any_hidden = False
    for ri, r in enumerate(recs):
        # per receiver == the set's row
        rc = pf.Coordinates(*r)
        pw1 = radi.collect_energy_receiver_patchwise(rc).time[0]
        if not np.array_equal(pw1, impl["patchwise"][ri]):
            out["prop_failures"].append(dict(test="per_receiver", receiver=ri, case=tag,
                                             what="result for a receiver set differs from the per-receiver result"))
        # mono == sum over patches
        s = impl["patchwise"][ri].sum(axis=0)
        if np.any(np.abs(s - nomono[ri]) > 1e-12 * np.maximum(np.abs(s), 1e-300) * radi.n_patches):
            out["prop_failures"].append(dict(test="mono_sum", receiver=ri, case=tag,
                                             what="mono curve is not the sum of the patch-wise curves"))
        # direct sound: exactly one bin, 1/(4 pi r^2) exp(-m r)
        delta = impl["mono"][ri] - nomono[ri]
        rr = float(np.linalg.norm(r - src))
        bin_ = int(rr / c / dt)
        for b in range(nb):
            expect = np.zeros(N)
            if bin_ < N:
                expect[bin_] = 1 / (4 * np.pi * rr ** 2) * np.exp(-att[b] * rr)
            base = np.abs(nomono[ri][b]) + expect
            if np.any(np.abs(delta[b] - expect) > 1e-9 * expect + 1e-12 * base):
                out["prop_failures"].append(dict(test="direct", receiver=ri, band=b, bin=bin_, case=tag,
                                                 got=float(delta[b].sum()), expected=float(expect.sum()),
                                                 what="direct sound is not 1/(4 pi r^2) exp(-m r) in the bin of r/c"))
        # geometric term, independently recomputed
        vis = S.point_visibility(radi, r)
        for k in range(radi.n_patches):
            d = float(np.linalg.norm(centers[k] - r))
            n_del = int(np.ceil(d / c / dt))
            v = (r - centers[k]) / np.linalg.norm(r - centers[k])
            idx, dd = P.nearest_index(outs[wall[k]], v)
            if dd.size > 1 and np.sort(dd)[1] - np.sort(dd)[0] < 1e-9:
                out["rejected"] = out.get("rejected", 0) + 1
                continue
            if not vis[k]:
                any_hidden = True
                if np.any(impl["patchwise"][ri][k] != 0):
                    out["prop_failures"].append(dict(test="hidden_zero", receiver=ri, patch=k, case=tag,
                                                     what="a patch hidden from the receiver (or seen from behind) contributes energy"))
                continue
            omega = P.solid_angle(r, radi.patches_points[k])
            fits = n_del < N and not np.any(etc[k, idx, :, N - n_del:] != 0) if n_del > 0 else True
            for b in range(nb):
                src_h = etc[k, idx, b] * (omega / (np.pi * areas[k])) * np.exp(-att[b] * d)
                expect = P.shift_zero(src_h, n_del)
                got = impl["patchwise"][ri][k, b]
                if np.any(np.abs(got - expect) > 1e-9 * np.maximum(np.abs(expect), np.abs(got)) + 1e-300):
                    key = "patch_term" if fits else "receiver_wrap"
                    out["prop_failures"].append(dict(test=key, receiver=ri, patch=k, band=b, case=tag,
                                                     what=("collected contribution is not the patch histogram (nearest outgoing slot) "
                                                           "x solid angle/(pi area) x exp(-m d) delayed by the travel time"
                                                           + ("" if fits else " (delayed energy does not fit: wrap)"))))
                    break
    if any_hidden:
        out["dist"]["has_hidden_patch"] = 1
    if nrec >= 2 or any_hidden:
        out["nontrivial"].append(case_hash(tag))
    return out


def wrap_witness(spec):
    import props.C02 as C02
    r = C02.wrap_witness({})
    return r


def direct_range_case(spec):
    """several receivers in ONE call with direct sound, a histogram so short that the direct sound of an
    EARLIER listed receiver arrives after its end while a later one is in range: the direct contribution
    (curve with direct sound minus curve without) of every receiver is its own single bin or nothing"""
    rng = np.random.default_rng([spec["seed"], 66000 + spec["idx"]])
    out = {"evaluations": 1, "mismatches": [], "prop_failures": [], "dist": {"direct_sound_out_of_range_first": 1},
           "nontrivial": []}
    nb = int(rng.integers(1, 3))
    cfg = S.draw_config(rng, nb=nb, multi_dir=False, max_patches=12)
    radi = S.build(cfg)
    dims = np.array(cfg["dims"], dtype=float)
    src = np.array([0.15, 0.2, 0.25]) * dims + rng.uniform(0, 0.05, 3)
    far = np.array([0.85, 0.8, 0.8]) * dims - rng.uniform(0, 0.05, 3)
    near = [src + rng.uniform(0.15, 0.3, 3) * np.minimum(dims, 1.0) for _ in range(int(rng.integers(1, 3)))]
    recs = [far] + near if rng.random() < 0.7 else [near[0], far] + near[1:]
    c = 343.0
    dt = float(np.round(rng.uniform(0.0008, 0.0012), 6))
    dmax_near = max(float(np.linalg.norm(r - src)) for r in near)
    dfar = float(np.linalg.norm(far - src))
    n_lo = int(dmax_near / c / dt) + 2
    n_hi = int(dfar / c / dt) - 1
    if n_hi < n_lo:
        out["rejected"] = 1
        return out
    N = int(rng.integers(n_lo, n_hi + 1))
    dur = (N + 0.5) * dt
    args = np.array([float(np.linalg.norm(r - src)) / c / dt for r in recs])
    if np.any(np.abs(args - np.round(args)) < 1e-6):
        out["rejected"] = 1
        return out
    tag = dict(direct_range=True, seed=spec["seed"], idx=spec["idx"], dims=cfg["dims"], src=src.tolist(),
               recs=[r.tolist() for r in recs], c=c, dt=dt, dur=dur, N=N)
    out["sample"] = tag
    radi.init_source_energy(pf.Coordinates(*src))
    radi.calculate_energy_exchange(c, dt, dur, 1, recalculate=True)
    rc = pf.Coordinates(np.array(recs)[:, 0], np.array(recs)[:, 1], np.array(recs)[:, 2])
    with_d = radi.collect_energy_receiver_mono(rc, direct_sound=True).time
    without = radi.collect_energy_receiver_mono(rc, direct_sound=False).time
    diff = with_d - without
    nbins = diff.shape[-1]
    for ri, r in enumerate(recs):
        D = float(np.linalg.norm(r - src))
        k = int(D / c / dt)
        for b in range(nb):
            expect = np.zeros(nbins)
            if k < nbins:
                expect[k] = 1 / (4 * np.pi * D * D) * np.exp(-cfg["att"][b] * D)
            got = diff[ri, b]
            if np.any(np.abs(got - expect) > 1e-9 * max(expect.max(), 1e-30) + 1e-15):
                kk = int(np.argmax(np.abs(got - expect)))
                out["prop_failures"].append(dict(
                    test="direct_sound_own_receiver", case=tag, receiver=ri, band=b,
                    what="receivers %s in one call, %d bins: the direct sound added to receiver %d (distance %.3f m, bin %d%s) "
                         "is %r in bin %d, expected %r" % ([np.round(x, 3).tolist() for x in recs], nbins, ri, D, k,
                                                            "" if k < nbins else " = beyond the end", float(got[kk]), kk,
                                                            float(expect[kk]))))
                return out
    out["nontrivial"].append(case_hash(tag))
    return out


def run(res):
    quick = res.tier == "quick"
    specs = [dict(seed=res.seed, idx=i, max_patches=(18 if quick else 34)) for i in range(10 if quick else 300)]
    for r in fw.run_parallel(scene_case, specs):
        res.absorb(r)
    pspecs = [dict(seed=res.seed + 13, idx=3 * i + 2, max_patches=(30 if quick else 40), partial=True)
              for i in range(5 if quick else 60)]
    for r in fw.run_parallel(scene_case, pspecs):
        res.absorb(r)
    for r in fw.run_parallel(direct_range_case, [dict(seed=res.seed, idx=i) for i in range(6 if quick else 80)]):
        res.absorb(r)
    for r in fw.run_parallel(wrap_witness, [{}]):
        res.absorb(r)
    res.rule = ("shoebox scenes (some translated), 1-4 receivers inside and outside the room, single- and "
                "multi-direction tables, direct sound on, mostly windows holding every arrival and every 5th case a "
                "short window; non-trivial = at least two receivers or a hidden/back-facing patch")
    res.not_carried = NOT_CARRIED
    res.assumptions = ["receiver visibility and the receiver factor enter the model as data (tied in C07/C04)"]


def replay(res, payload):
    for f in payload.get("failures", []) + payload.get("correspondence", []):
        case = f.get("case", {})
        if case.get("witness"):
            res.absorb(wrap_witness({}))
        elif case.get("direct_range"):
            res.absorb(fw.run_parallel(direct_range_case, [dict(seed=case["seed"], idx=case["idx"])])[0])
        else:
            res.absorb(scene_case(dict(seed=case["seed"], idx=case["idx"], max_patches=case.get("max_patches", 34),
                                       partial=bool(case.get("partial")))))
