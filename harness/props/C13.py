"""C13 -- constructed BRDFs conserve energy, are non-negative and reciprocal.

Correspondence: brdf.create_from_scattering / create_from_directional_scattering against the
extracted Model/Brdf.v on the same sampling, coefficients and mirror map.
Property tests: evaluated on the tables the implementation returns, with cos = z coordinate and
normalised weights w*2*pi/sum(w) recomputed here from the caller's (unmodified) weights.
"""
import numpy as np
import pyfar as pf

from common import Tok, run_driver, floats, cmp_float, case_hash
import framework as fw
import scenes as S

NOT_CARRIED = [
    "that a particular pyfar sampling is Gauss-type: (H1) sum w cos = sum w / 2, (H2) mirror closure, (H3) "
    "positivity are hypotheses of the theorems; the harness generates samplings that meet them "
    "(Gauss-Legendre in cos(theta) x uniform azimuth) and the Qc instance shows them satisfiable. "
    "pyfar's sph_gaussian cut at z>0 does NOT meet (H1) (DESIGN.md C13), so the 'exactly 1-a' clause does "
    "not extend to it",
    "float rounding: theorems are over an ordered field; on float64 the identities hold to rounding "
    "(measured: property tests at rel. 1e-9)",
    "the SOFA writing branch (file_path is not None) and the TypeError input validation are not modelled",
]

REL = 1e-9


def _ulps(x, y):
    """exact maximum ulp distance (integer arithmetic on the bit patterns; all tables are >= 0)"""
    ia = np.ascontiguousarray(x, dtype=np.float64).reshape(-1).view(np.int64)
    ib = np.ascontiguousarray(y, dtype=np.float64).reshape(-1).view(np.int64)
    if ia.size == 0 or np.any(ia < 0) or np.any(ib < 0):
        return 0.0
    return float(np.max(np.abs(ia - ib)))


def _coeff(rng, nb):
    """coefficients in [0,1] incl. exact 0 and 1"""
    v = rng.uniform(0.0, 1.0, nb)
    for b in range(nb):
        r = rng.random()
        if r < 0.12:
            v[b] = 0.0
        elif r < 0.24:
            v[b] = 1.0
    return v


def _freqdata(values, nb):
    return pf.FrequencyData(np.asarray(values, dtype=float), 100.0 * (1 + np.arange(nb)))


def _mirror_map(src, rcv):
    """mirror map the way the code obtains it (find_nearest on the azimuth+pi image) and by an
    exhaustive argmin over chordal distances; returns (mu_code, mu_exhaustive, near_tie, img_err)"""
    image = src.copy()
    image.azimuth += np.pi
    mu_code = np.atleast_1d(np.asarray(rcv.find_nearest(image)[0][0])).astype(int)
    img = np.atleast_2d(image.cartesian)
    ref = np.atleast_2d(src.cartesian) * np.array([-1.0, -1.0, 1.0])
    img_err = float(np.max(np.abs(img - ref)))
    pts = np.atleast_2d(rcv.cartesian)
    d = np.linalg.norm(img[:, None, :] - pts[None, :, :], axis=2)
    mu_ex = np.argmin(d, axis=1).astype(int)
    near = False
    if pts.shape[0] > 1:
        ds = np.sort(d, axis=1)
        near = bool(np.any(ds[:, 1] - ds[:, 0] < 1e-9))
    return mu_code, mu_ex, near, img_err


def _generic_sampling(rng, n, scale):
    z = rng.uniform(0.05, 1.0, n)
    az = rng.uniform(0.0, 2 * np.pi, n)
    r = np.sqrt(1 - z * z)
    w = rng.uniform(0.1, 1.0, n) * scale
    return pf.Coordinates(r * np.cos(az), r * np.sin(az), z, weights=w)


def _real(fd, out, tag, what):
    a = np.asarray(fd.freq)
    if np.iscomplexobj(a):
        if np.any(a.imag != 0):
            out["prop_failures"].append(dict(test="real", case=tag, what=what + ": table has an imaginary part"))
        a = a.real
    return np.array(a, dtype=float)


def case(spec):
    import sparrowpy as sp
    rng = np.random.default_rng([spec["seed"], spec["idx"], 13])
    out = {"evaluations": 1, "mismatches": [], "prop_failures": [], "dist": {}, "nontrivial": []}
    kind = spec["kind"]
    nb = int(rng.integers(1, 4))
    scale = float(10.0 ** rng.uniform(-3, 3))
    s = _coeff(rng, nb)
    a = _coeff(rng, nb)
    if kind == "gauss":
        nt = int(rng.integers(1, 7))
        nphi = 2 * nt if rng.random() < 0.5 else 2 * int(rng.integers(1, 7))
        if spec.get("fine"):
            # a fine sampling (hundreds of directions): cos x weight of the grazing ring gets very small
            nt = int(rng.integers(20, 29))
            nphi = 2 * int(rng.integers(10, 17))
            scale = float(10.0 ** rng.uniform(-1, 1))
            out["dist"]["fine_sampling_%d00+" % ((nt * nphi) // 100)] = 1
        dirs = S.gauss_hemisphere(nt, nphi, scale)
        nt2 = int(rng.integers(1, 5))
        nphi2 = 2 * int(rng.integers(1, 5))
        src2 = S.gauss_hemisphere(nt2, nphi2, float(10.0 ** rng.uniform(-3, 3)))
        samp = dict(n_theta=nt, n_phi=nphi, src2=[nt2, nphi2])
    else:
        n_gen = int(rng.integers(2, 41))
        dirs = _generic_sampling(rng, n_gen, scale)
        src2 = _generic_sampling(rng, int(rng.integers(1, 20)), 1.0)
        samp = dict(n_generic=n_gen)
    n = dirs.csize
    ns2 = src2.csize
    w0 = np.array(dirs.weights, dtype=float).copy()
    z = np.array(dirs.z, dtype=float).reshape(-1)
    tag = dict(kind=kind, fine=bool(spec.get("fine")), seed=spec["seed"], idx=spec["idx"], n=n, nb=nb, scale=scale,
               s=s.tolist(), a=a.tolist(), **samp)
    out["sample"] = tag
    out["dist"]["kind_" + kind] = 1
    out["dist"]["dirs_%02d" % (10 * (n // 10))] = 1
    out["dist"]["bands_%d" % nb] = 1
    out["dist"]["scale_1e%+d" % int(np.floor(np.log10(scale)))] = 1
    for nm, v in (("s", s), ("a", a)):
        if np.any(v == 0.0):
            out["dist"]["has_%s_0" % nm] = 1
        if np.any(v == 1.0):
            out["dist"]["has_%s_1" % nm] = 1

    # ---- oracle inputs: mirror map (both ways), cos(colatitude)
    mu_code, mu_ex, near, img_err = _mirror_map(dirs.copy(), dirs.copy())
    if near:
        out["rejected"] = 1
        return out
    if not np.array_equal(mu_code, mu_ex) or img_err > 1e-12:
        out["mismatches"].append(dict(stage="mirror-map oracle", case=tag,
                                      what="find_nearest %s vs exhaustive argmin %s (image error %.3g)"
                                           % (mu_code.tolist(), mu_ex.tolist(), img_err)))
        return out
    cos_in = np.cos(np.array(dirs.copy().colatitude, dtype=float)).reshape(-1)
    if np.max(np.abs(cos_in - z)) > 1e-12:
        out["mismatches"].append(dict(stage="cos oracle", case=tag, what="cos(colatitude) differs from z"))
        return out

    # ---- implementation (fresh copies: the code rescales the weights of the object it is given)
    src_c, rcv_c = dirs.copy(), dirs.copy()
    fd = sp.brdf.create_from_scattering(src_c, rcv_c, _freqdata([s], nb), _freqdata([a], nb))
    B = _real(fd, out, tag, "create_from_scattering")
    if not np.array_equal(np.asarray(rcv_c.weights), w0):
        out["dist"]["caller_receiver_weights_rescaled_in_place"] = 1
    ds = rng.uniform(0.0, 1.0, (ns2, n, nb))
    ds[rng.random((ns2, n, nb)) < 0.1] = 0.0
    ds[:, 0, :] += 1e-3
    ds = ds / ds.sum(axis=1, keepdims=True)
    ds_data = pf.FrequencyData(ds.copy(), 100.0 * (1 + np.arange(nb)))
    fd2 = sp.brdf.create_from_directional_scattering(src2.copy(), dirs.copy(), ds_data, _freqdata([a], nb))
    D = _real(fd2, out, tag, "create_from_directional_scattering")
    D = np.array(D, copy=True)
    # the same data set used for a second material (another absorption): it still sums to 1 for the
    # user, so the second BRDF must reflect 1 - a2 as well, and the first one must not change under it
    a2 = np.round(rng.uniform(0.0, 0.9, nb), 3)
    fd3 = sp.brdf.create_from_directional_scattering(src2.copy(), dirs.copy(), ds_data, _freqdata([a2], nb))
    D2 = np.array(_real(fd3, out, tag, "create_from_directional_scattering (second use)"), copy=True)
    D_after = np.array(_real(fd2, out, tag, "create_from_directional_scattering (first result, later)"), copy=True)

    # ---- model
    tok = Tok().cmd("q_brdf_scat").i(n).i(nb).arr(cos_in).arr(w0).arr(mu_ex, "i").arr(s).arr(a)
    tok.cmd("q_brdf_dir").i(ns2).i(n).i(nb).arr(cos_in).arr(w0).arr(ds).arr(a)
    res = run_driver(tok)
    vals = floats(res[0][1])
    wh_model = vals[:n]
    B_model = vals[n:].reshape(n, n, nb)
    D_model = floats(res[1][1], (ns2, n, nb))
    out["traces"] = 2
    wh = w0 * (2 * np.pi / np.sum(w0))
    mu_ulp = 0.0
    for stage, x, y in (("normalised weights", wh, wh_model),
                        ("create_from_scattering", B, B_model),
                        ("create_from_directional_scattering", D, D_model)):
        m = cmp_float(x, y, what=stage)
        if m:
            out["mismatches"].append(dict(stage=stage, what=m, case=tag))
        else:
            mu_ulp = max(mu_ulp, _ulps(x, y))
    out["max_ulp"] = mu_ulp

    # ---- property statement on the implementation's tables (Gauss-type samplings only)
    if kind == "gauss" and B.shape == (n, n, nb) and D.shape == (ns2, n, nb):
        def fail(test, what, **kw):
            out["prop_failures"].append(dict(test=test, what=what, case=tag, **kw))
        cw = z * wh                                            # cos_o * w_hat_o
        E = np.einsum("iob,o->ib", B, cw)
        idx = np.arange(n)
        for b in range(nb):
            ra = 1.0 - a[b]
            tol = REL * ra + 1e-300
            bad = np.abs(E[:, b] - ra) > tol
            if bad.any():
                i = int(np.argmax(bad))
                fail("energy", "incident direction %d band %d reflects %.12g, expected 1-a = %.12g"
                     % (i, b, E[i, b], ra), band=b, i=i, got=float(E[i, b]), want=ra)
            # split: diffuse level everywhere, specular excess at the mirror direction only
            level = s[b] * ra / np.pi
            off = np.ones((n, n), dtype=bool)
            off[idx, mu_ex] = False
            offv = B[:, :, b][off]
            if offv.size and np.any(np.abs(offv - level) > REL * level + 1e-300):
                fail("diffuse", "band %d: an entry away from the mirror direction differs from s(1-a)/pi = %.12g"
                     % (b, level), band=b, want=level)
            spec_e = (B[idx, mu_ex, b] - level) * cw[mu_ex]
            want = (1.0 - s[b]) * ra
            bad = np.abs(spec_e - want) > tol
            if bad.any():
                i = int(np.argmax(bad))
                fail("specular", "incident direction %d band %d: specular energy at the mirror direction %.12g, "
                     "expected (1-s)(1-a) = %.12g" % (i, b, spec_e[i], want), band=b, i=i,
                     got=float(spec_e[i]), want=want)
            diff_e = level * np.sum(cw)
            if abs(diff_e - s[b] * ra) > tol:
                fail("diffuse", "band %d: diffuse energy %.12g, expected s(1-a) = %.12g" % (b, diff_e, s[b] * ra),
                     band=b, got=float(diff_e), want=s[b] * ra)
        if np.any(B < 0):
            fail("nonneg", "negative entry %.6g" % float(B.min()))
        Bt = np.swapaxes(B, 0, 1)
        if np.any(np.abs(B - Bt) > REL * np.maximum(np.abs(B), np.abs(Bt)) + 1e-300):
            i, o, b = [int(v) for v in np.unravel_index(int(np.argmax(np.abs(B - Bt))), B.shape)]
            fail("symmetric", "brdf[%d][%d][%d] = %.12g but brdf[%d][%d][%d] = %.12g"
                 % (i, o, b, B[i, o, b], o, i, b, B[o, i, b]))
        ED = np.einsum("iob,o->ib", D, cw)
        for b in range(nb):
            ra = 1.0 - a[b]
            bad = np.abs(ED[:, b] - ra) > REL * ra + 1e-300
            if bad.any():
                i = int(np.argmax(bad))
                fail("directional", "incident direction %d band %d reflects %.12g, expected 1-a = %.12g"
                     % (i, b, ED[i, b], ra), band=b, i=i, got=float(ED[i, b]), want=ra)
        if np.any(D < 0):
            fail("nonneg_directional", "negative entry %.6g" % float(D.min()))
        ED2 = np.einsum("iob,o->ib", D2, cw)
        for b in range(nb):
            ra = 1.0 - a2[b]
            bad = np.abs(ED2[:, b] - ra) > REL * ra + 1e-300
            if bad.any():
                i = int(np.argmax(bad))
                fail("directional_reuse", "second BRDF built from the SAME directional-scattering data (absorption %r): "
                     "incident direction %d band %d reflects %.12g, expected 1-a = %.12g"
                     % (a2.tolist(), i, b, ED2[i, b], ra), band=b, i=i, got=float(ED2[i, b]), want=ra)
                break
        if not np.array_equal(D, D_after):
            fail("directional_reuse", "the BRDF returned by the first call changed when the data set was used again "
                 "(max abs change %.3g)" % float(np.abs(D - D_after).max()))
        if np.any((s > 0) & (s < 1) & (a < 1)):
            out["nontrivial"].append(case_hash(tag))
    elif kind == "generic":
        # index pattern observable: cos differs between a direction and its mirror image
        if np.any(np.abs(cos_in[mu_ex] - cos_in) > 1e-3) and np.any((s < 1) & (a < 1)):
            out["nontrivial"].append(case_hash(tag))
    return out


def run(res):
    quick = res.tier == "quick"
    n_gauss = 200 if quick else 3000
    n_generic = 60 if quick else 900
    specs = [dict(seed=res.seed, idx=i, kind="gauss") for i in range(n_gauss)]
    specs += [dict(seed=res.seed, idx=n_gauss + i, kind="generic") for i in range(n_generic)]
    specs += [dict(seed=res.seed, idx=500000 + i, kind="gauss", fine=True) for i in range(2 if quick else 12)]
    for r in fw.run_parallel(case, specs):
        res.absorb(r)
    res.rule = ("gauss: Gauss-Legendre(cos theta on [0,1]) x uniform azimuth samplings 1x2 ... 6x12 (n_phi even), "
                "weight scale 1e-3..1e3, 1-3 bands, s and a uniform in [0,1] with exact 0 and 1 at 12% each, "
                "random non-negative directional scattering rows normalised to sum 1 on a second source sampling; "
                "both constructors compared with the model and the property statement evaluated on the "
                "implementation's tables.  generic: 2-40 random directions/weights (not mirror-closed), "
                "correspondence only, makes the cos_factor index pattern observable.  non-trivial = a band with "
                "0<s<1 and a<1 (gauss) resp. cos differing between a direction and its mirror index (generic); "
                "distinct by input hash")
    res.not_carried = NOT_CARRIED
    res.assumptions = [
        "the mirror map (pyfar find_nearest on the azimuth+pi image) and cos(colatitude) enter the model as data; "
        "the harness recomputes the map by exhaustive argmin, rejects near-ties (<1e-9) and checks cos against z",
        "source and receiver direction sets of create_from_scattering are the same sampling (the code's "
        "cos_factor[i_sources, i_receiver] index pattern presupposes n_sources = n_receivers)",
        "np.sum's pairwise accumulation is modelled as a left fold (difference recorded as max_ulp)",
        "the code rescales the .weights array of the receiver Coordinates object it is given in place; every call "
        "gets a fresh copy",
    ]


def replay(res, payload):
    for f in payload.get("failures", []) + payload.get("correspondence", []):
        c = f.get("case", {})
        res.absorb(case(dict(seed=c["seed"], idx=c["idx"], kind=c.get("kind", "gauss"), fine=bool(c.get("fine")))))
