"""C01 -- energy exchange never creates energy; the receiving wall's reflectance governs."""
import numpy as np
import pyfar as pf

from common import Tok, run_driver, floats, cmp_float, case_hash, ulp_dist
import framework as fw
import scenes as S
import pipeline as P

NOT_CARRIED = [
    "the numerical value of the form-factor closure error (<= 2.5 %) is a property of the quadratures "
    "(see C05/C06); C01_bound is proved for any row-sum bound r and the harness measures r on every scene",
    "C01_model_balance (kept) asks 'pi*BRDF = rho(wall)' of ALL table indices; a table read beyond its end returns "
    "0, so that hypothesis only admits reflectance 0 (C01_model_balance_forces_zero, cf. "
    "C09_model_diffuse_everywhere_forces_zero). The statement that carries the balance clause on the executable "
    "model is C01_model_balance_bounded (diffuse hypothesis on the in-range table entries + shape condition on "
    "the tables) / C01_model_balance_vis (on the entries the model reads); non-vacuity with reflectances 1/2, 1/3 "
    "and a hidden patch: Instances/NonVacuity.v. Directional (non-diffuse) BRDFs are covered by the per-leg form "
    "C01_balance + C01_receiving_wall only",
]


def scene_case(spec):
    rng = np.random.default_rng([spec["seed"], spec["idx"]])
    out = {"evaluations": 1, "mismatches": [], "prop_failures": [], "dist": {}, "nontrivial": []}
    uniform = spec["kind"] == "uniform"
    cfg = S.draw_config(rng, nb=int(rng.integers(1, 3)), multi_dir=False,
                        uniform_alpha=(float(np.round(rng.uniform(0.05, 0.9), 3)) if uniform else None),
                        att_zero=uniform or rng.random() < 0.3, max_patches=spec["max_patches"])
    K = int(rng.integers(2, 4))
    radi = S.build(cfg)
    src = S.draw_inside(rng, cfg["dims"])
    c, dt, dur = P.draw_timing(rng, cfg, K, "long", radi, src, [])
    tag = dict(dims=cfg["dims"], patch_size=cfg["patch_size"], n_patches=cfg["n_patches"],
               alpha=cfg["alpha"].tolist(), att=cfg["att"].tolist(), src=src.tolist(),
               c=c, dt=dt, dur=dur, K=K, kind=spec["kind"], seed=spec["seed"], idx=spec["idx"])
    out["sample"] = tag
    out["dist"]["patches_%02d" % (10 * (cfg["n_patches"] // 10))] = 1
    out["dist"]["bands_%d" % cfg["nb"]] = 1
    out["dist"]["kind_" + spec["kind"]] = 1
    out["dist"]["order_%d" % K] = 1
    absorbing = [w for w in range(6) if np.all(cfg["alpha"][w] == 1.0)]
    if absorbing:
        out["dist"]["has_absorbing_wall"] = 1

    # ---- correspondence: implementation vs extracted model, stage by stage
    impl = P.impl_pipeline(radi, src, c, dt, dur, K, [])
    tok = P.model_session(radi, src, c, dt, dur, K, [])
    mism, mu = P.compare_stages(radi, impl, run_driver(tok), K, [], dur, dt, src=src)
    out["max_ulp"] = mu
    out["traces"] = 1
    for m in mism:
        if m.get("rejected"):
            out["rejected"] = out.get("rejected", 0) + 1
            continue
        m.update(case=tag)
        out["mismatches"].append(m)

    # ---- property statement on the implementation
    hs, orders = P.order_energies(radi, c, dt, dur, K)
    F = P.full_ff(radi)
    centers = radi.patches_center
    D = np.linalg.norm(centers[:, None, :] - centers[None, :, :], axis=2)
    wall = radi._patch_to_wall_ids
    N = hs[0].shape[-1]
    rowsum = F.sum(axis=1)
    closure = float(np.max(np.abs(rowsum - 1)))
    out["dist"]["closure_err_max_permille_%d" % int(np.ceil(closure * 1000))] = 1
    for b in range(cfg["nb"]):
        rho = 1 - cfg["alpha"][wall, b]
        a = np.exp(-cfg["att"][b] * D)
        for k in range(K):
            Ek = orders[k][:, 0, b, :].sum(axis=1)
            Ek1 = orders[k + 1][:, 0, b, :].sum(axis=1)
            rhs = float(np.sum(rho * ((F * a).T @ Ek)))
            lhs = float(Ek1.sum())
            scale = max(abs(rhs), float(hs[0][:, 0, b, :].sum()) * 1e-6, 1e-300)
            if abs(lhs - rhs) > 1e-9 * scale:
                out["prop_failures"].append(dict(
                    test="balance", band=b, order=k + 1, lhs=lhs, rhs=rhs, case=tag,
                    what="order-%d energy %.12g != redistributed order-%d energy times receiving-wall "
                         "reflectance %.12g" % (k + 1, lhs, k, rhs)))
            if lhs > 1.025 * float(Ek.sum()) * (1 + 1e-12) + 1e-300:
                out["prop_failures"].append(dict(
                    test="bound", band=b, order=k + 1, lhs=lhs, prev=float(Ek.sum()), case=tag,
                    what="order-%d energy exceeds order-%d energy by more than 2.5%%" % (k + 1, k)))
            if uniform:
                al = cfg["alpha"][0, b]
                if abs(lhs - (1 - al) * float(Ek.sum())) > 0.025 * (1 - al) * float(Ek.sum()) + 1e-300:
                    out["prop_failures"].append(dict(
                        test="uniform", band=b, order=k + 1, lhs=lhs, prev=float(Ek.sum()), alpha=al, case=tag,
                        what="uniform absorption: order ratio differs from (1-alpha) by more than the closure error"))
        for w in absorbing:
            idx = np.where(wall == w)[0]
            if np.any(hs[K][idx, :, b, :] != 0):
                out["prop_failures"].append(dict(
                    test="absorbing", band=b, wall=w, case=tag,
                    value=float(np.abs(hs[K][idx, :, b, :]).max()),
                    what="a wall with absorption 1 re-radiates energy"))
    # shortening the histogram only removes energy: the first bins are unchanged
    Nshort = int(rng.integers(max(2, N // 4), max(3, (3 * N) // 4)))
    dur2 = (Nshort + 0.5) * dt
    radi.calculate_energy_exchange(c, dt, dur2, K, recalculate=True)
    short = radi._energy_exchange_etc
    if short.shape[-1] != Nshort or not np.array_equal(short, hs[K][..., :Nshort]):
        out["prop_failures"].append(dict(
            test="truncate", n_short=Nshort, n_long=N, case=tag,
            what="a shorter histogram is not the prefix of the longer one"))
    nontrivial = (uniform or len(set(np.round(cfg["alpha"][:, 0], 6))) >= 2) and K >= 2
    if nontrivial:
        out["nontrivial"].append(case_hash(tag))
    return out


def kernel_case(spec):
    """synthetic asymmetric inputs fed directly to _energy_exchange: index swaps that are
    invisible on symmetric rooms are visible here"""
    from sparrowpy.classes.RadiosityFast import _energy_exchange
    rng = np.random.default_rng([spec["seed"], 7000 + spec["idx"]])
    out = {"evaluations": 1, "mismatches": [], "prop_failures": [], "dist": {"kernel_synthetic": 1}, "nontrivial": []}
    npch = int(rng.integers(2, 8)); nd = int(rng.integers(1, 4)); nb = int(rng.integers(1, 3))
    N = int(rng.integers(5, 40)); K = int(rng.integers(0, 4))
    vis = np.array([(i, j) for i in range(npch) for j in range(i + 1, npch) if rng.random() < 0.7],
                   dtype=np.int32).reshape(-1, 2)
    fft = rng.random((npch, npch, nd, nb))
    p2o = rng.integers(0, nd, (npch, npch))
    c, dt = 343.0, 0.001
    dij = rng.random((npch, npch)) * c * dt * N * 0.6
    d0 = rng.random(npch) * c * dt * N * 1.2      # some source bins fall beyond the window
    e0 = rng.random((npch, nd, nb))
    if S.near_int_delay(np.concatenate([dij.reshape(-1), d0]), c, dt):
        out["rejected"] = 1
        return out
    ref = _energy_exchange(N, e0, d0, dij, fft, p2o, c, dt, K, vis)
    tok = Tok().cmd("q_exchange").i(K).i(npch).i(nd).i(nb).i(N)
    tok.i(len(vis))
    for (a, b) in vis:
        tok.i(a).i(b)
    tok.arr(e0).arr((d0 / c / dt).astype(int), "i").arr(fft).arr(p2o, "i").arr((dij / c / dt).astype(int), "i")
    res = run_driver(tok)
    mod = floats(res[0][1], (npch, nd, nb, N))
    tag = dict(kernel=True, np=npch, nd=nd, nb=nb, N=N, K=K, seed=spec["seed"], idx=spec["idx"])
    out["sample"] = tag
    m = cmp_float(ref, mod, what="_energy_exchange")
    if m:
        out["mismatches"].append(dict(stage="_energy_exchange(synthetic)", what=m, case=tag))
    else:
        out["max_ulp"] = ulp_dist(ref, mod)
    out["traces"] = 1
    if K >= 1 and len(vis) >= 1:
        out["nontrivial"].append(case_hash(tag))
    return out


def run(res):
    quick = res.tier == "quick"
    n_scene = 10 if quick else 320
    n_kernel = 40 if quick else 2000
    specs = [dict(seed=res.seed, idx=i, kind=("uniform" if i % 3 == 2 else "nonuniform"),
                  max_patches=(22 if quick else 40)) for i in range(n_scene)]
    for r in fw.run_parallel(scene_case, specs):
        res.absorb(r)
    for r in fw.run_parallel(kernel_case, [dict(seed=res.seed, idx=i) for i in range(n_kernel)]):
        res.absorb(r)
    # the same law in the Kang engine (RadiosityKang / PatchesKang): scene cases of C19 -- all orders and
    # the receiver response against the model, plus their independent oracles
    import props.C19 as C19
    for r in fw.run_parallel(C19.scene_case, [dict(seed=res.seed + 4, idx=i, quick=True) for i in range(16 if quick else 160)]):
        res.absorb(r)
    # pairs closer than one time bin (coarse resolutions): C03's scenes compare the patch histograms bin by bin
    # with an independently written solver of the recursion the property is about
    import props.C03 as C03
    c3 = [dict(seed=res.seed + 21, idx=4 * i + 2, kind=("poly" if i % 2 else "box"), max_patches=(16 if quick else 30))
          for i in range(6 if quick else 80)]
    for r in fw.run_parallel(C03.scene_case, c3):
        res.absorb(r)
    # ... and a Kang object run a second time (another source first) must equal a fresh object, in every band
    for r in fw.run_parallel(C19.rerun_case, [dict(seed=res.seed + 9, idx=i) for i in range(4 if quick else 40)]):
        res.absorb(r)
    res.rule = ("shoebox scenes (sides 1-6 m, non-integer, 6-%d patches, 1-2 bands, per-wall absorption incl. "
                "exact 0/1, orders 2-3, window holding every arrival) + synthetic asymmetric _energy_exchange "
                "inputs; non-trivial = (>=2 distinct wall absorptions or the uniform sub-case) and order >= 2, "
                "resp. K >= 1 with a visible pair; distinct by input hash" % (22 if quick else 40))
    res.not_carried = NOT_CARRIED
    res.assumptions = ["form factors, visibility and point-to-patch shares enter the pipeline model as data "
                       "(their kernels are tied separately in C04/C05/C07)"]


def replay(res, payload):
    for f in payload.get("failures", []) + payload.get("correspondence", []):
        case = f.get("case", {})
        import props.C19 as C19
        if C19.replay_case(res, case):
            continue
        if "shape" in case and "kind" in case and "mode" in case:
            import props.C03 as C03
            res.absorb(C03.scene_case(dict(seed=case["seed"], idx=case["idx"], kind=case["kind"], max_patches=30)))
            continue
        if case.get("kernel"):
            res.absorb(kernel_case(dict(seed=case["seed"], idx=case["idx"])))
        else:
            res.absorb(scene_case(dict(seed=case["seed"], idx=case["idx"], kind=case["kind"], max_patches=40)))
