"""C17 -- simulation results do not depend on where or how the room is placed.

Full-scene tests on /repo: a shoebox scene description (6 wall polygons with points, normal, up
vector; source; receivers; per-wall absorption; bands; air attenuation) is run through the whole
pipeline (from_polygon, set_wall_brdf per wall, set_air_attenuation, bake_geometry,
init_source_energy, calculate_energy_exchange, collect_energy_receiver_mono) in its reference
placement and after a placement map g(x) = M x + t (M one of the 48 signed axis permutations)
has been applied to every wall point, normal, up vector, the source and the receivers.  Results are
compared as the statement demands; the transformed scene is also run through the extracted model
(pipeline.compare_stages), so a placement-dependent bug shows up as a model mismatch too.

Kernel tests: pt_solution, _basic_visibility, _check_point2patch_visibility and
universal_form_factor under random rotations + translations.
"""
import itertools
import numpy as np
import pyfar as pf

from common import Tok, run_driver, floats, cmp_float, case_hash, ulp_dist
import framework as fw
import scenes as S
import pipeline as P

import sparrowpy as sp
from sparrowpy import geometry as G
from sparrowpy.form_factor import integration as I
from sparrowpy.form_factor import universal as U

RTOL = 1e-9            # "unchanged up to rounding"
PERM_CURVE = 5e-3      # axis permutations: curve within 0.5 % of its peak
CUT = 1e-3             # literal of stokes_integration
CUT_CLEAR = 3e-3       # generated pairs keep every non-zero segment extent this far above 0
FF_RTOL = 1e-6         # contour sums cancel by ~(distance/side)^2: same tolerance as C05's similarity test
FF_ATOL = 1e-9
OFF_PLANE = 1e-3
CLEAR = 1e-3

NOT_CARRIED = [
    "the 0.5 %-of-peak bound for the receiver curve under axis permutations: it quantifies the asymmetry of the "
    "Nusselt integrator (which patch of an adjacent pair is integrated over follows the numbering); not a theorem, "
    "measured on every permuted scene (max deviation in the evidence, dist key curve_dev_*)",
    "float rounding: C17_translate / C17_relabel / C17_distances are identities of exact ring arithmetic; the "
    "implementation is compared at rel 1e-9",
    "Stokes form factors under rigid maps x -> M x + t, M^T M = I, are now PROVED invariant for the cut-off-free sum, "
    "i.e. for the code with its cut-off 0 (C17_kernels_stokes_rotation, from C05_similarity_isometry; scalings: "
    "C05_similarity_scaling): an identity of exact ordered-field arithmetic, the float implementation is compared at "
    "rel 1e-6.  It was false for the pinned code because of the 1e-3 m segment cut-off of stokes_integration (former "
    "finding similarity_cutoff of C05, FIXED in /repo by cfd1b2b); a failure of a pair with a segment extent below "
    "3 mm would still be reported under that key",
    "the Nusselt branch (adjacent patches): nusselt_integration is modelled (Model/Nusselt.v) and proved invariant under "
    "TRANSLATIONS (C05_universal_full_translation, used by C17_room_translate); under axis permutations it is "
    "genuinely not invariant (regular sample grid spanned by the first and the last edge of the vertex list) -- the "
    "equality of the Nusselt-branch form-factor entries of the image room is an explicit HYPOTHESIS of "
    "C17_room_axis_permutation_partial, the property only claims the 0.5 % bound there",
    "_point_in_polygon under rotations: it rotates the polygon to the horizontal plane and shoots a +x ray there; "
    "C17_kernels_visibility_partial is conditional on equal point-in-polygon answers in both poses (known finding "
    "ray_through_vertex shows they can differ on a thin set).  Under TRANSLATIONS _point_in_polygon, _project_to_plane, "
    "_basic_visibility and both visibility scans are PROVED invariant (inside C17_room_translate).  For axis "
    "permutations the patch-to-patch visibility matrix and the source visibility vector of the image room being the "
    "renumbered ones are HYPOTHESES of C17_room_axis_permutation_partial / C17_room_initial_energy_axis_permutation "
    "(in closed form they are theorems for shoebox rooms only, C07_shoebox_visibility / C07_shoebox_point_visibility, "
    "and the image of the stub room is not literally a stub room)",
    "equivariance of the tiling under the 48 maps is PROVED wall by wall (C17_tiling_axis_permutation = "
    "C08_axis_permutation, both engines; explicit index map: C08_axis_permutation_index; translation: C08_translate): "
    "for a wall in a coordinate plane with both in-plane extents >= the patch size, the patch list of the image wall is "
    "a permutation of the images of the wall's patches, the four vertices of every patch reordered by one fixed order.  "
    "It is an identity of exact ordered-field arithmetic: in float64 the mirrored cell edges -(x_max) + k*s and "
    "-(x_min + (n-k)*s) agree only up to rounding",
    "that the baked kernel data of the placed scene are the sigma-transported data (hypotheses of C17_relabel_scene) is "
    "now DERIVED for the composed room model (Model/Full.v) as far as it is true: for TRANSLATIONS of the room "
    "description completely -- C17_room_translate: the output curve of room_mono is the identical list, no hypothesis; "
    "for the 48 SIGNED AXIS PERMUTATIONS of a room whose walls are in the C08 domain there is a patch renumbering pi "
    "(bijection, wall preserving, patch pi k = image of patch k with re-ordered vertices) with: centres, areas, wall "
    "ids, patch normals, every delay bin (C17_room_geometry_axis_permutation); source / receiver shares in both modes "
    "and, where the source visibility agrees, initial energies (C17_room_initial_energy_axis_permutation); the touching "
    "test and the Stokes entries of the form-factor matrix with any cut-off, using the new invariance of the Stokes "
    "kernel under independent re-orderings of the two vertex lists (C17_room_stokes_axis_permutation); the pair list "
    "and all baked transfer factors, hence the patch histograms (C17_room_axis_permutation_partial) and the identical "
    "output curve of room_mono for the rotated room, source and receiver (C17_room_rotation_curve_partial).  Still "
    "HYPOTHESES there: visibility data transported, visible pairs on different walls, Nusselt-branch entries "
    "transported (see above).  The harness still establishes these per scene (patch centres, areas, form factors, "
    "visibility matched through sigma)",
    "mirrorings and the wall frames: the frame of the BRDF direction sets is built with a cross product, so under the "
    "24 signed axis permutations of determinant -1 the direction set of the image wall is the image of the direction "
    "set with the tangential y axis flipped (C17_room_frames_axis_permutation proves exactly that formula); incoming / "
    "outgoing sample indices are proved equal for the 24 rotations only, and C17_room_axis_permutation_partial is "
    "stated for rotations.  (The harness uses direction-dependent BRDFs for translations and normal/up scalings only: "
    "a mirror image of a direction-dependent BRDF is a different material.)",
]


# --------------------------------------------------------------------------
# placement maps
# --------------------------------------------------------------------------
def signed_perms():
    out = []
    for perm in itertools.permutations(range(3)):
        for signs in itertools.product([1.0, -1.0], repeat=3):
            M = np.zeros((3, 3))
            for r in range(3):
                M[r, perm[r]] = signs[r]
            out.append(M)
    return out


MAPS48 = signed_perms()
DIAG = [k for k, M in enumerate(MAPS48) if np.all(M == np.diag(np.diag(M)))]      # 8, DIAG[0] = identity
NONDIAG = [k for k in range(48) if k not in DIAG]                                   # 40


def rand_rotation(rng):
    q, r = np.linalg.qr(rng.normal(size=(3, 3)))
    q = q * np.sign(np.diag(r))
    if np.linalg.det(q) < 0:
        q[:, 0] = -q[:, 0]
    return q


# --------------------------------------------------------------------------
# scene description and builder
# --------------------------------------------------------------------------
def wall_desc(X, Y, Z):
    """(points, up, normal) of the six walls; normals point into the room"""
    return [
        ([[0, 0, 0], [X, 0, 0], [X, 0, Z], [0, 0, Z]], [1, 0, 0], [0, 1, 0]),
        ([[0, Y, 0], [X, Y, 0], [X, Y, Z], [0, Y, Z]], [1, 0, 0], [0, -1, 0]),
        ([[0, 0, 0], [X, 0, 0], [X, Y, 0], [0, Y, 0]], [1, 0, 0], [0, 0, 1]),
        ([[0, 0, Z], [X, 0, Z], [X, Y, Z], [0, Y, Z]], [1, 0, 0], [0, 0, -1]),
        ([[0, 0, 0], [0, 0, Z], [0, Y, Z], [0, Y, 0]], [0, 0, 1], [1, 0, 0]),
        ([[X, 0, 0], [X, 0, Z], [X, Y, Z], [X, Y, 0]], [0, 0, 1], [-1, 0, 0]),
    ]


def draw_scene(rng, max_patches, multi_dir):
    dims, ps, npat = S.draw_room(rng, max_patches=max_patches)
    nb = int(rng.integers(1, 3))
    freqs = np.array([125.0 * 2 ** k for k in range(nb)])
    alpha = np.round(rng.uniform(0.05, 0.95, (6, nb)), 3)
    u = rng.random()
    if u < 0.2:
        alpha[int(rng.integers(0, 6)), :] = 1.0
    elif u < 0.4:
        alpha[int(rng.integers(0, 6)), :] = 0.0
    att = np.zeros(nb) if rng.random() < 0.3 else np.round(rng.uniform(0.0, 0.08, nb), 4)
    if multi_dir:
        nt, nphi = int(rng.integers(1, 3)), int(rng.choice([2, 4]))
        phase = float(np.round(rng.uniform(0.05, 0.7), 4))
    else:
        nt, nphi, phase = 0, 0, 0.0
    src = S.draw_inside(rng, dims)
    recs = [S.draw_inside(rng, dims) for _ in range(int(rng.integers(1, 3)))]
    return dict(dims=dims, patch_size=ps, n_patches=npat, nb=nb, freqs=freqs, alpha=alpha, att=att,
                nt=nt, nphi=nphi, phase=phase, random_tables=bool(multi_dir and rng.random() < 0.7),
                table_seed=int(rng.integers(0, 2 ** 31)), src=src, recs=recs, K=int(rng.integers(1, 3)))


def build_placed(cfg, M, t, wall_order=None, scale=None):
    """from_polygon on the placed walls.  wall_order: permutation of the wall list (absorption follows the
    wall).  scale = (sn[6], su[6], via_ctor): positive factors applied to the normals / up vectors given for the walls."""
    desc = wall_desc(*cfg["dims"])
    order = list(range(6)) if wall_order is None else list(wall_order)
    walls = []
    for k, w in enumerate(order):
        pts, up, n = desc[w]
        p = np.array(pts, dtype=float) @ M.T + t
        u = M @ np.array(up, dtype=float)
        nn = M @ np.array(n, dtype=float)
        if scale is not None and not scale[2]:
            nn = nn * scale[0][k]
            u = u * scale[1][k]
        walls.append(G.Polygon(p, u, nn))
    radi = sp.DirectionalRadiosityFast.from_polygon(walls, cfg["patch_size"])
    if scale is not None and scale[2]:
        # through the constructor: normals and up vectors are stored as given
        radi = sp.DirectionalRadiosityFast(
            radi.walls_points, radi.walls_normal * np.asarray(scale[0])[:, None],
            radi.walls_up_vector * np.asarray(scale[1])[:, None],
            radi.patches_points, radi.n_patches, radi._patch_to_wall_ids)
    din, dout = S.directions(cfg)
    for k, w in enumerate(order):
        tab = S.wall_table(cfg, w, din.csize, dout.csize)
        radi.set_wall_brdf([k], pf.FrequencyData(tab, cfg["freqs"]), din, dout)
    radi.set_air_attenuation(pf.FrequencyData(cfg["att"], cfg["freqs"]))
    radi.bake_geometry()
    return radi


def all_delay_args(radi, src, recs):
    c = radi.patches_center
    d = [np.linalg.norm(c - src, axis=1),
         np.linalg.norm(c[:, None, :] - c[None, :, :], axis=2).reshape(-1)]
    for r in recs:
        d.append(np.linalg.norm(c - r, axis=1))
        d.append([np.linalg.norm(np.asarray(r) - src)])
    return np.concatenate([np.asarray(x, dtype=float).reshape(-1) for x in d])


def draw_timing(rng, cfg, radis):
    """radis: list of (radi, src, recs) -- every delay argument stays 1e-7 away from an integer in ALL placements"""
    diag = float(np.linalg.norm(cfg["dims"]))
    for _ in range(60):
        c = float(np.round(rng.uniform(330.0, 350.0), 2))
        span = (cfg["K"] + 2.0) * diag / c
        nbin = int(rng.integers(40, 70))
        dt = float(np.round(span / nbin, 7))
        dur = float(np.round(span * rng.uniform(1.0, 1.02), 6))
        if not S.away_from_int(dur / dt, 1e-6):
            continue
        if any(S.near_int_delay(all_delay_args(r, s, q), c, dt, 1e-7) for r, s, q in radis):
            continue
        return c, dt, dur
    return None


def match_patches(base, placed, M, t, scale):
    """sigma[k] = index in the placed scene of the patch whose centre is g(centre k); None if the placed patch
    set is not the image of the base patch set"""
    if base.n_patches != placed.n_patches:
        return None, "patch count %d -> %d" % (base.n_patches, placed.n_patches)
    gc = base.patches_center @ M.T + t
    D = np.linalg.norm(gc[:, None, :] - placed.patches_center[None, :, :], axis=2)
    sig = D.argmin(axis=1)
    worst = float(D.min(axis=1).max())
    if worst > 1e-9 * scale or len(set(sig.tolist())) != len(sig):
        k = int(D.min(axis=1).argmax())
        return None, ("patch centre %r is carried to %r, nearest placed patch centre is %.3g m away"
                      % (base.patches_center[k].tolist(), gc[k].tolist(), worst))
    return sig, None


def first_bins(etc):
    """first non-zero bin per patch (any slot, any band); -1 if the patch never receives energy"""
    nz = np.any(etc != 0, axis=(1, 2))
    return np.where(nz.any(axis=1), nz.argmax(axis=1), -1)


def rel_bad(a, b, rtol=RTOL):
    a = np.asarray(a, dtype=float)
    b = np.asarray(b, dtype=float)
    floor = 1e-12 * max(float(np.nanmax(np.abs(a), initial=0.0)), float(np.nanmax(np.abs(b), initial=0.0)))
    fin = np.isfinite(a) & np.isfinite(b)
    with np.errstate(invalid="ignore"):
        bad = ~fin | (np.abs(a - b) > rtol * np.maximum(np.abs(a), np.abs(b)) + floor)
    if bad.any():
        idx = np.unravel_index(int(np.argmax(np.where(fin, np.abs(a - b), np.inf) * bad)), a.shape)
        return "at %s: %r vs %r" % (tuple(int(x) for x in idx), float(a[idx]), float(b[idx]))
    return None


# --------------------------------------------------------------------------
# full-scene case: one scene, one placement map
# --------------------------------------------------------------------------
def scene_case(spec):
    kind = spec["kind"]                      # translate | mirror | perm | scale
    multi = bool(spec.get("multi_dir")) and kind in ("translate", "scale")
    rng = np.random.default_rng([spec["seed"], 17, spec["idx"], int(multi)])
    out = {"evaluations": 1, "mismatches": [], "prop_failures": [], "dist": {}, "nontrivial": []}
    cfg = draw_scene(rng, spec["max_patches"], multi)
    mrng = np.random.default_rng([spec["seed"], 1717, spec["idx"], spec["slot"]])
    M = MAPS48[spec["map"]]
    t = np.zeros(3) if kind == "scale" else np.round(mrng.uniform(-20.0, 20.0, 3), 3)
    wall_order = None
    if kind == "perm" and spec.get("reorder_walls"):
        wall_order = [int(x) for x in mrng.permutation(6)]
    scale = None
    if kind == "scale":
        scale = (np.round(mrng.uniform(0.2, 5.0, 6), 3), np.round(mrng.uniform(0.2, 5.0, 6), 3),
                 bool(spec["slot"] % 2))
        if (spec["slot"] // 2) % 2:
            scale[0][2] = 1.0      # the wall whose normal is +z keeps its unit normal (see finding normal_scale_plus_z)
    src, recs, K = cfg["src"], cfg["recs"], cfg["K"]
    gsrc = M @ src + t
    grecs = [M @ r + t for r in recs]
    tag = dict(scene=True, kind=kind, map=int(spec["map"]), M=M.tolist(), t=t.tolist(), dims=cfg["dims"],
               patch_size=cfg["patch_size"], n_patches=cfg["n_patches"], alpha=cfg["alpha"].tolist(),
               att=cfg["att"].tolist(), src=src.tolist(), recs=[r.tolist() for r in recs], K=K,
               multi_dir=multi, wall_order=wall_order,
               scale=None if scale is None else dict(normal=scale[0].tolist(), up=scale[1].tolist(), via_ctor=scale[2]),
               seed=spec["seed"], idx=spec["idx"], slot=spec["slot"], max_patches=spec["max_patches"],
               reorder_walls=bool(spec.get("reorder_walls")))
    out["sample"] = tag

    def pfail(test, what, **kw):
        out["prop_failures"].append(dict(test=test, what=what, case=tag, **kw))

    I3 = np.eye(3)
    base = build_placed(cfg, I3, np.zeros(3))
    try:
        placed = build_placed(cfg, M, t, wall_order=wall_order, scale=scale)
    except Exception as e:   # the reference placement builds, the placed one must too
        pfail("placed_scene_raises", "building the placed scene raises %s: %s" % (type(e).__name__, e))
        return out
    if multi:
        # a nearest-sample lookup with two samples at (almost) the same angle -- e.g. a direction along the wall
        # normal, which is equidistant from a whole ring -- is decided by the last bit of the stored direction
        # set; the two placements store sets that agree to 1e-12, not bit for bit, so such a scene is a
        # near-decision input for the comparison of placements (it is compared with the model elsewhere)
        same_bits = all(
            np.array_equal(np.array([x.cartesian for x in getattr(base, nm)]),
                           np.array([x.cartesian for x in getattr(placed, nm)]))
            for nm in ("_brdf_incoming_directions", "_brdf_outgoing_directions")) and np.array_equal(M, np.eye(3))
        ties, other = P.scene_ties(base, src, recs, eps=1e-9, axis_exact=False)
        ties2, other2 = P.scene_ties(placed, gsrc, grecs, eps=1e-9, axis_exact=False)
        # bit-identical direction sets (and unrotated geometry) break every tie the same way in both placements
        if (ties or other or ties2 or other2) and not same_bits:
            out["rejected"] = 1
            out["dist"]["rejected_lookup_tie"] = 1
            return out
    tm = draw_timing(rng, cfg, [(base, src, recs), (placed, gsrc, grecs)])
    if tm is None:
        out["rejected"] = 1
        return out
    c, dt, dur = tm
    tag.update(c=c, dt=dt, dur=dur)
    det = int(round(np.linalg.det(M)))
    out["dist"]["kind_" + kind] = 1
    out["dist"]["patches_%02d" % (6 * (cfg["n_patches"] // 6))] = 1
    out["dist"]["det_%+d" % det] = 1
    out["dist"]["bands_%d" % cfg["nb"]] = 1
    out["dist"]["order_%d" % K] = 1
    out["dist"]["receivers_%d" % len(recs)] = 1
    if multi:
        out["dist"]["multi_direction_brdf"] = 1
    if wall_order is not None:
        out["dist"]["perm_with_wall_reorder"] = 1
    if np.all(cfg["att"] == 0):
        out["dist"]["attenuation_zero"] = 1

    impl0 = P.impl_pipeline(base, src, c, dt, dur, K, recs, direct=True)
    impl1 = P.impl_pipeline(placed, gsrc, c, dt, dur, K, grecs, direct=True)

    # ---- correspondence of the PLACED scene with the extracted model (NaN data cannot be compared)
    if np.all(np.isfinite(placed.form_factors)) and np.all(np.isfinite(impl1["mono"])):
        tok = P.model_session(placed, gsrc, c, dt, dur, K, grecs, direct=True)
        mism, mu = P.compare_stages(placed, impl1, run_driver(tok), K, grecs, dur, dt, src=gsrc)
        out["max_ulp"] = mu
        out["traces"] = 1
        for m in mism:
            if m.get("rejected"):
                out["rejected"] = out.get("rejected", 0) + 1
                continue
            m.update(case=tag)
            out["mismatches"].append(m)
    else:
        out["dist"]["correspondence_skipped_not_finite"] = 1

    # ---- the property statement
    room = float(np.linalg.norm(cfg["dims"])) + float(np.linalg.norm(t))
    sig, why = match_patches(base, placed, M, t, room)
    if sig is None:
        pfail("patch_set", "the patches of the placed room are not the placed patches of the room: " + why)
        return out
    strict = kind in ("translate", "mirror", "scale")
    if kind in ("translate", "scale") and not np.array_equal(sig, np.arange(len(sig))):
        pfail("patch_numbering", "a %s renumbers the patches: sigma = %r" % (kind, sig.tolist()))
    if not np.array_equal(sig, np.arange(len(sig))):
        out["dist"]["patches_renumbered"] = 1
    # sorted patch areas
    m = rel_bad(np.sort(placed.patches_area), np.sort(base.patches_area))
    if m:
        pfail("areas", "sorted patch areas differ " + m)
    # initial energies matched by centre
    e0b, e0p = base._energy_init_source, placed._energy_init_source[sig]
    m = rel_bad(e0p, e0b)
    if m:
        pfail("initial_energy", "initial patch energies (matched by patch centre) differ " + m)
    if np.any((e0p == 0) != (e0b == 0)):
        pfail("initial_energy", "a patch receives initial energy in one placement and exactly none in the other")
    # arrival bins matched by centre
    fb0, fb1 = first_bins(impl0["etc"]), first_bins(impl1["etc"])[sig]
    if not np.array_equal(fb0, fb1):
        k = int(np.argmax(fb0 != fb1))
        pfail("arrival_bins", "first arrival bin of the patch at %r: %d, after placement %d"
              % (base.patches_center[k].tolist(), int(fb0[k]), int(fb1[k])), patch=k)
    # receiver curve
    peak = float(impl0["mono"].max())
    dev = float(np.abs(impl1["mono"] - impl0["mono"]).max()) / max(peak, 1e-300)
    out["dist"]["curve_dev_%s_%s" % ("strict" if strict else "perm",
                                     ("1e%+03d" % int(np.ceil(np.log10(max(dev, 1e-17))))) if np.isfinite(dev)
                                     else "not_finite")] = 1
    tol = RTOL if strict else PERM_CURVE
    if not dev <= tol:
        pfail("curve" if strict else "curve_perm",
              "receiver energy-time curve changes by %.3g of its peak under the %s (allowed %.1g)" % (dev, kind, tol),
              dev=dev)
    if strict:
        # form factors (full matrix, matched by centre) and mutual visibility
        F0, F1 = P.full_ff(base), P.full_ff(placed)[np.ix_(sig, sig)]
        m = rel_bad(F1, F0)
        if m:
            pfail("form_factors", "form factors (matched by patch centre) differ " + m)
        V0 = base.visibility_matrix | base.visibility_matrix.T
        V1 = (placed.visibility_matrix | placed.visibility_matrix.T)[np.ix_(sig, sig)]
        if not np.array_equal(V0, V1):
            pfail("visibility", "%d patch pairs change their mutual visibility" % int((V0 != V1).sum() // 2))
        # patch histograms matched by centre
        m = rel_bad(impl1["etc"][sig], impl0["etc"])
        if m:
            pfail("patch_histograms", "patch histograms (matched by patch centre) differ " + m)
    if kind == "scale":
        for name in ("_brdf_incoming_directions", "_brdf_outgoing_directions"):
            a = np.array([s_.cartesian for s_ in getattr(placed, name)])
            b = np.array([s_.cartesian for s_ in getattr(base, name)])
            if a.shape != b.shape or not np.all(np.abs(a - b) <= 1e-12):
                pfail("brdf_directions", "%s changes when the wall normals / up vectors are rescaled by positive "
                      "factors (max diff %.3g)" % (name, float(np.abs(a - b).max()) if a.shape == b.shape else -1))
    if kind == "scale" and out["prop_failures"]:
        bad_walls = [k for k in range(6) if plus_z_defect(placed.walls_normal[k])]
        if bad_walls:
            subs = out["prop_failures"]
            k = bad_walls[0]
            out["prop_failures"] = [dict(
                test="normal_scale_plus_z", case=tag, wall=k, normal=placed.walls_normal[k].tolist(),
                consequences=[f["test"] + ": " + f["what"] for f in subs],
                what="wall %d given with the normal %r (a positive multiple of +z): geometry._rotation_matrix returns NaN for "
                     "it, so _point_in_polygon answers False for every point of that wall and the results change (%s)"
                     % (k, placed.walls_normal[k].tolist(), "; ".join(f["test"] for f in subs)))]
    if K >= 1 and len(set(np.round(cfg["alpha"][:, 0], 6))) >= 2:
        out["nontrivial"].append(case_hash(tag))
    return out


def plus_z_defect(n):
    """the defect behind finding normal_scale_plus_z is active for this normal: it is a positive multiple of +z other
    than +z itself and _rotation_matrix answers NaN"""
    n = np.asarray(n, dtype=float)
    if not (n[0] == 0 and n[1] == 0 and n[2] > 0 and n[2] != 1):
        return False
    with np.errstate(all="ignore"):
        return bool(np.any(~np.isfinite(G._rotation_matrix(n_in=n))))


# --------------------------------------------------------------------------
# kernel cases: arbitrary rotations + translations
# --------------------------------------------------------------------------
def convex_poly(rng, n, size):
    while True:
        ang = np.sort(rng.uniform(0, 2 * np.pi, n))
        gaps = np.diff(np.concatenate([ang, [ang[0] + 2 * np.pi]]))
        if gaps.max() < 0.9 * np.pi and gaps.min() > 0.5:
            break
    a, b = size * rng.uniform(0.6, 1.0), size * rng.uniform(0.6, 1.0)
    return np.stack([a * np.cos(ang), b * np.sin(ang), np.zeros(n)], axis=1)


def poly_normal(p):
    n = np.zeros(3)
    for k in range(1, len(p) - 1):
        n += np.cross(p[k] - p[0], p[k + 1] - p[0])
    return n / np.linalg.norm(n)


def pt_seg_dist(x, a, b):
    ab = b - a
    s = np.clip(np.dot(x - a, ab) / np.dot(ab, ab), 0.0, 1.0)
    return float(np.linalg.norm(x - (a + s * ab)))


def general_position(p, q, poly, n):
    """both end points at least 1 mm off the plane (or exactly the polygon's centroid), and the point where the line
    pq meets the plane at least 1 mm away from every polygon edge"""
    sp_, sq_ = float((p - poly[0]) @ n), float((q - poly[0]) @ n)
    for s_ in (sp_, sq_):
        if 1e-12 < abs(s_) < OFF_PLANE:
            return False
    k = len(poly)
    pts = []
    if abs(sp_) <= 1e-12:
        pts.append(p)
    if abs(sq_) <= 1e-12:
        pts.append(q)
    if abs(sp_ - sq_) > 1e-12 and abs(sp_) > 1e-12 and abs(sq_) > 1e-12:
        lam = sp_ / (sp_ - sq_)
        pts.append(p + lam * (q - p))
        if abs(lam) < 1e-3 or abs(lam - 1) < 1e-3:
            return False
    elif abs(sp_ - sq_) <= 1e-12 and abs(sp_) > 1e-12:
        return True      # parallel to the plane, off it
    for x in pts:
        if min(pt_seg_dist(x, poly[i], poly[(i + 1) % k]) for i in range(k)) < CLEAR:
            return False
    return True


def ray_vertex_suspect(x, pts, n):
    """known defect of _point_in_polygon (C07 finding ray_through_vertex): in the frame rotated to the horizontal
    plane the +x ray from x passes within the eta band of a polygon vertex"""
    try:
        r = G._rotation_matrix(n_in=np.asarray(n, dtype=float))
        y = float((r @ np.asarray(x, dtype=float))[1])
        ys = (np.asarray(pts, dtype=float) @ r.T)[:, 1]
        return bool(np.any(np.abs(ys - y) < 3e-6))
    except Exception:
        return False


def plane_hits(p, q, pts, n):
    """points of the line pq (and the end points themselves) that _basic_visibility may hand to _point_in_polygon"""
    out = [p, q]
    sp_, sq_ = float((p - pts[0]) @ n), float((q - pts[0]) @ n)
    if abs(sp_ - sq_) > 1e-12:
        out.append(p + sp_ / (sp_ - sq_) * (q - p))
    return out


def cut_clear(poly):
    """every boundary segment extent is exactly 0 or well above the 1e-3 m cut-off"""
    e = np.abs(np.roll(poly, -1, axis=0) - poly)
    return bool(np.all((e == 0) | (e > CUT_CLEAR)))


def kernel_case(spec):
    rng = np.random.default_rng([spec["seed"], 1700, spec["idx"]])
    out = {"evaluations": 0, "mismatches": [], "prop_failures": [], "dist": {}, "nontrivial": [], "rejected": 0}
    R = rand_rotation(rng)
    t = np.round(rng.uniform(-5.0, 5.0, 3), 3)
    frame = rand_rotation(rng) if rng.random() < 0.7 else np.eye(3)      # reference pose: generic or axis aligned
    org = rng.uniform(-2.0, 2.0, 3)
    tag = dict(kernel=True, seed=spec["seed"], idx=spec["idx"], R=R.tolist(), t=t.tolist())

    def g(x):
        return np.asarray(x, dtype=float) @ R.T + t

    def pfail(test, what, **kw):
        out["prop_failures"].append(dict(test=test, what=what, case=tag, **kw))

    def lift(poly2):
        return poly2 @ frame.T + org

    # ---- pt_solution, both modes
    poly = lift(convex_poly(rng, int(rng.integers(3, 7)), rng.uniform(0.3, 1.5)))
    n = poly_normal(poly)
    pt = poly.mean(axis=0) + lift(np.array([[rng.uniform(-2, 2), rng.uniform(-2, 2), 0.0]]))[0] - org \
        + n * rng.choice([-1, 1]) * rng.uniform(0.05, 3.0)
    for mode in ("source", "receiver"):
        a = float(I.pt_solution(point=pt, patch_points=poly, mode=mode))
        b = float(I.pt_solution(point=g(pt), patch_points=g(poly), mode=mode))
        out["evaluations"] += 1
        if not abs(a - b) <= RTOL * max(abs(a), abs(b)) + 1e-12:
            pfail("pt_solution_rotation", "pt_solution(mode=%s) changes from %.15g to %.15g under a rotation + "
                  "translation" % (mode, a, b), point=pt.tolist(), patch=poly.tolist())
    out["dist"]["pt_solution"] = 1

    # ---- _basic_visibility against one surface
    nq = 0
    for _ in range(6):
        surf = lift(convex_poly(rng, int(rng.integers(3, 7)), rng.uniform(0.4, 1.5)))
        sn = poly_normal(surf) * rng.choice([-1.0, 1.0]) * (1.0 if rng.random() < 0.5 else rng.uniform(0.3, 3.0))
        u = sn / np.linalg.norm(sn)
        cen = surf.mean(axis=0)
        style = rng.choice(["cross", "same_side", "on_surface", "free"])
        spread = lift(np.array([[rng.uniform(-1.5, 1.5), rng.uniform(-1.5, 1.5), 0.0] for _ in range(2)])) - org
        if style == "cross":
            p = cen + spread[0] + u * rng.uniform(0.05, 2.0)
            q = cen + spread[1] - u * rng.uniform(0.05, 2.0)
        elif style == "same_side":
            p = cen + spread[0] + u * rng.uniform(0.05, 2.0)
            q = cen + spread[1] + u * rng.uniform(0.05, 2.0)
        elif style == "on_surface":
            p = cen.copy()
            q = cen + spread[1] + u * rng.choice([-1, 1]) * rng.uniform(0.05, 2.0)
        else:
            p = cen + rng.uniform(-2, 2, 3)
            q = cen + rng.uniform(-2, 2, 3)
        if not general_position(p, q, surf, u) or not general_position(g(p), g(q), g(surf), R @ u):
            out["rejected"] += 1
            continue
        v0 = bool(G._basic_visibility(p, q, surf, sn))
        v1 = bool(G._basic_visibility(g(p), g(q), g(surf), R @ sn))
        out["evaluations"] += 1
        nq += 1
        out["dist"]["vis_" + style] = out["dist"].get("vis_" + style, 0) + 1
        if v0 != v1:
            sus = any(ray_vertex_suspect(x, surf, sn) for x in plane_hits(p, q, surf, u)) or \
                any(ray_vertex_suspect(x, g(surf), R @ sn) for x in plane_hits(g(p), g(q), g(surf), R @ u))
            key = "ray_through_vertex" if sus else "visibility_rotation"
            if plus_z_defect(sn) or plus_z_defect(R @ sn):
                key = "normal_scale_plus_z"
            pfail(key,
                  "_basic_visibility(%s, %s) against the surface %s changes from %s to %s under a rotation + translation"
                  % (p.tolist(), q.tolist(), surf.tolist(), v0, v1), normal=sn.tolist())

    # ---- _check_point2patch_visibility on a small scene of quads
    ns = int(rng.integers(2, 5))
    quads = []
    for k in range(ns):       # quads in different planes around the origin of the reference frame
        Rk = rand_rotation(rng)
        quads.append(lift(convex_poly(rng, 4, rng.uniform(0.4, 1.2)) @ Rk.T + rng.uniform(-2.0, 2.0, 3)))
    normals = np.array([poly_normal(qd) for qd in quads])
    centers = np.array([qd.mean(axis=0) for qd in quads])
    ev = org + rng.uniform(-3, 3, 3)
    ok = all(general_position(ev, centers[j], quads[k], normals[k]) and
             general_position(g(ev), g(centers[j]), g(quads[k]), R @ normals[k])
             for j in range(ns) for k in range(ns))
    if ok:
        a = G._check_point2patch_visibility(eval_point=ev, patches_center=centers, surf_normal=normals,
                                            surf_points=np.array(quads))
        b = G._check_point2patch_visibility(eval_point=g(ev), patches_center=g(centers),
                                            surf_normal=normals @ R.T, surf_points=np.array([g(qd) for qd in quads]))
        out["evaluations"] += 1
        out["dist"]["point2patch_scene"] = 1
        out["dist"]["point2patch_hidden"] = out["dist"].get("point2patch_hidden", 0) + int((~a).sum())
        if not np.array_equal(a, b):
            sus = any(ray_vertex_suspect(x, quads[k], normals[k]) or ray_vertex_suspect(g(x), g(quads[k]), R @ normals[k])
                      for j in range(ns) for k in range(ns) for x in plane_hits(ev, centers[j], quads[k], normals[k]))
            pfail("ray_through_vertex" if sus else "point2patch_rotation",
                  "_check_point2patch_visibility from %s changes from %s to %s under a rotation + translation"
                  % (ev.tolist(), a.tolist(), b.tolist()), quads=[qd.tolist() for qd in quads])
    else:
        out["rejected"] += 1

    # ---- universal_form_factor (Stokes branch; segment extents clear of the cut-off in both poses)
    style = rng.choice(["generic", "room_parallel", "room_perpendicular"])
    if style == "generic":
        pi = lift(convex_poly(rng, 4, rng.uniform(0.3, 1.2)))
        Rj = rand_rotation(rng)
        pj = convex_poly(rng, 4, rng.uniform(0.3, 1.2)) @ Rj.T + org + rng.uniform(1.0, 3.0) * rand_rotation(rng)[0]
    else:
        a_, b_ = rng.uniform(0.4, 1.5, 2)
        pi = np.array([[0, 0, 0], [a_, 0, 0], [a_, b_, 0], [0, b_, 0.0]])
        if style == "room_parallel":
            dx, dy, h = rng.uniform(-1, 1), rng.uniform(-1, 1), rng.uniform(0.8, 3.0)
            pj = np.array([[dx, dy, h], [dx + a_, dy, h], [dx + a_, dy + b_, h], [dx, dy + b_, h]])
        else:
            dx, c_ = rng.uniform(0.3, 2.0), rng.uniform(0.4, 1.5)
            pj = np.array([[a_ + dx, 0, 0.2], [a_ + dx, 0, 0.2 + c_], [a_ + dx, b_, 0.2 + c_], [a_ + dx, b_, 0.2]])
    ni, nj = poly_normal(pi), poly_normal(pj)
    ai = float(G._polygon_area(pi))
    if G._coincidence_check(pj, pi) or G._coincidence_check(g(pj), g(pi)):
        out["rejected"] += 1
    else:
        near_cut = not (cut_clear(pi) and cut_clear(pj) and cut_clear(g(pi)) and cut_clear(g(pj)))
        f0 = float(U.universal_form_factor(pi, ni, ai, pj, nj))
        f1 = float(U.universal_form_factor(g(pi), R @ ni, ai, g(pj), R @ nj))
        out["evaluations"] += 1
        out["dist"]["ff_" + style] = 1
        if near_cut:
            out["dist"]["ff_with_segment_extent_below_3mm"] = 1
        if not abs(f0 - f1) <= FF_RTOL * max(abs(f0), abs(f1)) + FF_ATOL:
            # a pair with a segment extent in (0, 3 mm] failing is the (repaired) cut-off defect of stokes_integration
            pfail("similarity_cutoff" if near_cut else "form_factor_rotation",
                  "universal_form_factor changes from %.12g to %.12g under a rotation + translation%s"
                  % (f0, f1, " (a boundary segment has a coordinate extent below 3 mm: segment cut-off)" if near_cut
                     else " although no segment extent is near a cut-off"),
                  patch_i=pi.tolist(), patch_j=pj.tolist())
    out["sample"] = tag
    out["traces"] = 0
    if nq >= 2:
        out["nontrivial"].append(case_hash(tag))
    return out


def finding_case(spec):
    """The two known kernel defects that contradict 'the geometric kernels are invariant under arbitrary rotations'
    on concrete in-scope inputs (shared with C05 / C07)."""
    out = {"evaluations": 0, "mismatches": [], "prop_failures": [], "dist": {}, "nontrivial": [], "rejected": 0}
    # (1) form factor: segments skipped below 1e-3 m extent
    sq = np.array([[0.0, 0, 0], [1, 0, 0], [1, 1, 0], [0, 1, 0]])
    re = np.array([[0.5, 2, 0.5], [1.5, 3, 0.5], [1.5, 3, 1.5], [0.5, 2, 1.5]])
    th = 8e-4
    Rz = np.array([[np.cos(th), -np.sin(th), 0], [np.sin(th), np.cos(th), 0], [0, 0, 1.0]])
    n1, n2 = poly_normal(sq), poly_normal(re)
    f0 = float(U.universal_form_factor(sq, n1, 1.0, re, n2))
    f1 = float(U.universal_form_factor(sq @ Rz.T, Rz @ n1, 1.0, re @ Rz.T, Rz @ n2))
    out["evaluations"] += 1
    tag = dict(finding=True, seed=spec["seed"], idx=spec["idx"])
    if not abs(f0 - f1) <= FF_RTOL * max(f0, f1) + FF_ATOL:
        out["prop_failures"].append(dict(
            test="similarity_cutoff", case=tag, f0=f0, f1=f1, angle=th,
            what="unit square [0,1]^2 in z=0 and the rectangle (0.5,2,0.5)-(1.5,3,0.5)-(1.5,3,1.5)-(0.5,2,1.5): rotating "
                 "both by %g rad about z changes universal_form_factor from %.10g to %.10g" % (th, f0, f1)))
    # (2) visibility: the +x ray of _point_in_polygon through a pointed vertex
    tri = np.array([[0.0, 0, 0], [4, 3, 0], [0, 6, 0]])
    nz = np.array([0.0, 0, 1.0])
    p, q = np.array([-1.0, 3, 1]), np.array([-1.0, 3, -1])
    th = 0.3
    Rz = np.array([[np.cos(th), -np.sin(th), 0], [np.sin(th), np.cos(th), 0], [0, 0, 1.0]])
    v0 = bool(G._basic_visibility(p, q, tri, nz))
    v1 = bool(G._basic_visibility(Rz @ p, Rz @ q, tri @ Rz.T, Rz @ nz))
    out["evaluations"] += 1
    if v0 != v1:
        out["prop_failures"].append(dict(
            test="ray_through_vertex", case=tag, v0=v0, v1=v1, angle=th,
            what="triangle (0,0,0) (4,3,0) (0,6,0), segment (-1,3,1)-(-1,3,-1) passing 1 m beside it: "
                 "_basic_visibility = %s, after rotating everything by %g rad about z = %s" % (v0, th, v1)))
    # (3) normal scaling: _rotation_matrix is NaN for a positive multiple of +z other than +z itself
    sqr = np.array([[0.0, 0, 0], [1, 0, 0], [1, 1, 0], [0, 1, 0]])
    x = np.array([0.5, 0.5, 0.0])
    a = bool(G._point_in_polygon(x, sqr, np.array([0.0, 0, 1.0])))
    with np.errstate(all="ignore"):
        b = bool(G._point_in_polygon(x, sqr, np.array([0.0, 0, 2.0])))
    out["evaluations"] += 1
    if a != b:
        out["prop_failures"].append(dict(
            test="normal_scale_plus_z", case=tag,
            what="unit square [0,1]^2 in z=0, point (0.5,0.5,0): _point_in_polygon = %s with the normal (0,0,1) and %s "
                 "with the normal (0,0,2)" % (a, b)))
    out["sample"] = tag
    return out


CASES = {"scene": scene_case, "kernel": kernel_case, "finding": finding_case}


def dispatch(spec):
    return CASES[spec["case"]](spec)


def scene_specs(seed, quick):
    specs = []
    mp = 24
    if quick:
        for i in range(8):
            maps = [("translate", 0), ("mirror", DIAG[1 + (3 * i) % 7]), ("mirror", DIAG[1 + (3 * i + 4) % 7]),
                    ("perm", NONDIAG[(7 * i + 3) % 40]), ("perm", NONDIAG[(11 * i + 17) % 40]),
                    ("perm", NONDIAG[(13 * i + 29) % 40])]
            for slot, (kind, mi) in enumerate(maps):
                specs.append(dict(case="scene", seed=seed, idx=i, slot=slot, kind=kind, map=mi, max_patches=mp,
                                  multi_dir=(i % 2 == 1), reorder_walls=(slot >= 4)))
        for i in range(8):
            specs.append(dict(case="scene", seed=seed, idx=i, slot=6 + (i % 4), kind="scale", map=0, max_patches=mp,
                              multi_dir=(i % 2 == 0), reorder_walls=False))
    else:
        for i in range(14):
            for mi in range(48):
                kind = "translate" if mi == 0 else ("mirror" if mi in DIAG else "perm")
                specs.append(dict(case="scene", seed=seed, idx=i, slot=mi, kind=kind, map=mi, max_patches=mp,
                                  multi_dir=(i % 2 == 1), reorder_walls=(mi % 3 == 0)))
            for s_ in range(4):
                specs.append(dict(case="scene", seed=seed, idx=i, slot=48 + s_, kind="scale", map=0, max_patches=mp,
                                  multi_dir=(i % 2 == 0), reorder_walls=False))
    return specs


def run(res):
    quick = res.tier == "quick"
    specs = scene_specs(res.seed, quick)
    specs += [dict(case="finding", seed=res.seed, idx=0)]
    specs += [dict(case="kernel", seed=res.seed, idx=i) for i in range(400 if quick else 6000)]
    for r in fw.run_parallel(dispatch, specs):
        res.absorb(r)
    res.rule = (
        "scene cases: shoebox (sides 1-6 m, non-integer, side/patch-size ratios >= 1e-3 away from integers, 6-24 "
        "patches), 1-2 bands, per-wall absorption 0.05-0.95 incl. exact 0 / 1 on one wall, attenuation incl. 0, source and "
        "1-2 receivers inside, order 1-2, direct sound on; placement map = one of the 48 signed axis permutations + "
        "translation in [-20,20]^3 applied to wall points, normals, up vectors, source, receivers (quick: per scene "
        "1 translation, 2 mirrorings, 3 axis permutations -- two of them with the wall list re-ordered as well; thorough: "
        "all 48); scale cases: wall normals and up vectors rescaled by factors in [0.2,5] through Polygon() or through the "
        "constructor; translate/scale cases on odd/even scenes use a multi-direction BRDF sampling (random tables).  "
        "Rejected (counted): a delay argument within 1e-7 of an integer in either placement.  Compared: translation / "
        "mirroring / scaling -- curve within 1e-9 of its peak, initial energies, form factors, visibility and patch "
        "histograms matched by patch centre within 1e-9 relative; axis permutations -- first arrival bin per patch and "
        "initial energies matched by centre, sorted areas, curve within 0.5 % of its peak.  Kernel cases: pt_solution "
        "(both modes), _basic_visibility (4 segment styles, general position: end points >= 1 mm off the plane or the "
        "polygon centroid, crossing point >= 1 mm from every edge), _check_point2patch_visibility on 2-4 quads, "
        "universal_form_factor on non-coincident quads (generic / room-like; pairs with a segment extent in (0, 3 mm] "
        "are counted separately), each under a random rotation + translation.  Non-trivial: scene with >= 2 distinct absorptions and "
        "order >= 1; kernel case with >= 2 accepted visibility queries; distinct by input hash")
    res.not_carried = NOT_CARRIED
    res.assumptions = [
        "form factors, visibility and point-to-patch shares enter the pipeline model as data; their kernels are tied to "
        "the code in C04/C05/C07/C08 and their placement invariance is what C17_kernels_partial collects",
        "patches of the two placements are matched by carrying the patch centres with the placement map (tolerance 1e-9 "
        "of the scene extent)",
        "multi-direction BRDF samplings are used for translations and normal/up scalings only: a mirror image of a "
        "direction-dependent BRDF is a different material, and the statement is about placing the same room",
        "axis-permutation cases may also re-order the wall list (a renumbering of the patches); the 0.5 % curve "
        "tolerance is applied to them as well",
    ]


def replay(res, payload):
    for f in payload.get("failures", []) + payload.get("correspondence", []):
        case = f.get("case", {})
        if case.get("kernel"):
            res.absorb(kernel_case(dict(seed=case["seed"], idx=case["idx"])))
        elif case.get("finding"):
            res.absorb(finding_case(dict(seed=case["seed"], idx=case["idx"])))
        elif case.get("scene"):
            res.absorb(scene_case(dict(seed=case["seed"], idx=case["idx"], slot=case["slot"], kind=case["kind"],
                                       map=case["map"], max_patches=case["max_patches"],
                                       multi_dir=case["multi_dir"], reorder_walls=case["reorder_walls"])))
