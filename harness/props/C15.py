"""C15 -- saving and restoring a simulation at any stage is lossless.

Random op sequences (setter orders incl. overwritten tables, stage prefixes, repeats, re-source, exchange
with / without recalculate, dictionary and file round trips at random points) are executed on the real
DirectionalRadiosityFast object and on the extracted L2 state machine (Model/Object.v): exception class,
presence / kind / shape / ownership of all 25 attributes must be equal after every call, and equal provenance
terms must carry bit-identical values.  The property statement itself is evaluated on the implementation after
EVERY call (from_dict(to_dict(x)) == x with bit-identical content, regularly also from_read(write(x))) and by
running the remaining calls on a restored twin next to the original.  A completed RadiosityKang simulation is
round-tripped as well."""
import os
import shutil

import numpy as np

import common
from common import case_hash
import framework as fw
import objmodel as M

import sparrowpy as sp
from sparrowpy.classes.RadiosityKang import RadiosityKang

R = sp.DirectionalRadiosityFast

NOT_CARRIED = [
    "C15_lossless_continuation / C15_bisim / C15_bisim_trace (every call except "
    "collect_energy_receiver_mono(direct_sound=True), every continuation, every reachable stage) and "
    "C15_wf_reachable / C15_roundtrip_reachable (kind invariant preserved by every call, round trip without the "
    "kind hypothesis) are statements about the L2 MODEL: similarity compares presence, shape, provenance and kind "
    "(up to object-ndarray -> list) of the 23 serialised attributes; ownership (from_dict keeps the caller's "
    "direction lists, finding C16) and _source / _source_visibility are deliberately not compared",
    "C15_fields_complete_partial is about the DECLARED read sets (Spec/ObjectSpec.reads); that each call depends on "
    "no attribute outside ITS OWN declared set is not proved per call -- what is proved is the global form: every "
    "call except the direct-sound collect commutes with erasing _source / _source_visibility and with the "
    "normalisation (C15_bisim)",
    "bit-identity of array CONTENTS through tolist()/np.array and through pf.io is an IO fact: established by the "
    "harness on every step (content hashes), not by a theorem",
    "reachable states that check() refuses exist (C15_roundtrip_refuted_partial_materials, "
    "C15_roundtrip_refuted_stale_cache): restoring them raises ValueError; findings restore_refused_*",
    "collect_energy_receiver_mono(direct_sound=True) on a restored object: _source is not serialised "
    "(C15_roundtrip_refuted_source, finding restore_direct_sound)",
    "the Kang engine round trip is checked on the implementation only (completed RadiosityKang: E_matrix and "
    "energy_at_receiver bit-identical after to_dict/from_dict and write/from_read); no Gallina model of the Kang "
    "dictionaries",
    "SoundSource objects with directivity as sources, collect_energy_receiver_patchwise and receivers with more "
    "than one position are not part of the op alphabet; an empty visible_patches array would come back with shape "
    "(0,) instead of (0, 2) (does not occur in closed rooms, not modelled)",
]

REFUSED_KEYS = [("brdf_incoming_directions", "restore_refused_partial_materials"),
                ("brdf_outgoing_directions", "restore_refused_partial_materials"),
                ("energy_exchange_etc", "restore_refused_stale_cache"),
                ("form_factors_tilde", "restore_refused_stale_cache"),
                ("energy_init_source", "restore_refused_stale_cache")]


def refused_key(e, model_check=None):
    """key of a refused restore.  The listed findings are states which the object's own check()
    rejects ON THE PINNED CODE -- the model of check() (Object.ocheck) says so too; a refusal of a state
    the model accepts is something else and is never attributed to them."""
    msg = str(e)
    if model_check == "Ok":
        return "restore_refused_unexpected:%s" % msg.split(" ")[0][:40]
    if isinstance(e, ValueError):
        for frag, key in REFUSED_KEYS:
            if msg.startswith(frag):
                return key
    return "restore_refused:%s" % type(e).__name__


def check_restored(env, x, y, path, fail):
    """y was restored from x: equality, content, kinds"""
    try:
        if not (y == x and x == y):
            fail("restore_not_equal", "%s: restored object does not compare equal to the original" % path)
    except Exception as e:  # noqa: BLE001
        fail("restore_eq_raises", "%s: __eq__ raised %s" % (path, type(e).__name__))
    sx, sy = M.snapshot(env, x), M.snapshot(env, y)
    for f, a, b in zip(M.DICT_FIELDS, sx, sy):
        if (a is None) != (b is None):
            fail("restore_content", "%s: %s presence differs after restore" % (path, f))
        elif a is not None:
            if a["hash"] != b["hash"] or a["shape"] != b["shape"]:
                fail("restore_content", "%s: %s is not bit-identical after restore" % (path, f))
            ka = "list" if a["kind"] == "objarr" else a["kind"]
            if ka != b["kind"]:
                fail("restore_kind", "%s: %s has kind %s after restore (original %s)" % (path, f, b["kind"], a["kind"]))


def case(spec):
    rng = np.random.default_rng([spec["seed"], spec["idx"]])
    out = {"evaluations": 1, "mismatches": [], "prop_failures": [], "dist": {}, "nontrivial": []}
    dist = out["dist"]

    def count(k, n=1):
        dist[k] = dist.get(k, 0) + n

    env = M.Env(rng)
    env.tmpdir = os.path.join(common.TMP, "c15_%d_%d" % (os.getpid(), spec["idx"]))
    tag = dict(env.tag(), seed=spec["seed"], idx=spec["idx"], kind="sequence")
    out["sample"] = tag
    ops = M.gen_ops(rng, env, dist, n_roundtrips=(1, 3), tail_prob=0.4)
    tag["ops"] = [list(o) for o in ops]
    fork_at = int(rng.integers(0, len(ops)))
    fork_via = "dict" if rng.random() < 0.6 else "file"
    file_prob = 0.3
    count("patches_%02d" % env.np)
    count("bands_%d" % env.nb)
    count("dirs_%d" % (1 if env.single else env.ndir[1]))
    count("ops", len(ops))
    reg = M.Registry()
    twin = {"y": None, "ok_roundtrips": 0, "steps": 0, "reinit": False}

    def fail(test, what, **kw):
        out["prop_failures"].append(dict(test=test, what=what, case=tag, **kw))

    def mcheck(i):
        """what the model of check() says about the state after step i; None once the model has answered
        Unspec somewhere before (from there on its states are not compared with the implementation)"""
        m = getattr(env, "last_model", None)
        if not m or i >= len(m) or any(m[j]["cls"] == "Unspec" for j in range(i + 1)):
            return None
        return m[i].get("check")

    def hook(i, op, cls, x_before, x, snap, obs_hash):
        where = "after #%d %s" % (i, op[0])
        count("op_%s" % op[0])
        count("class_%s" % cls)
        # ---- the twin follows the original
        if twin["y"] is not None:
            cy, oy, y2 = M.apply_op(env, twin["y"], op)
            twin["y"] = y2
            twin["steps"] += 1
            if op[0] == "src" and cy == "Ok":
                twin["reinit"] = True
            if cy != cls:
                if op[0] == "collect" and op[2] and cls == "Ok" and not twin["reinit"]:
                    fail("restore_direct_sound", "%s: the restored twin answers %s, the original Ok" % (where, cy))
                else:
                    fail("twin_class", "%s: the restored twin answers %s, the original %s" % (where, cy, cls))
            else:
                oh = None if oy is None else M.h_arr(oy)
                if oh != obs_hash:
                    fail("twin_content", "%s: the value returned to the caller by the restored twin is not "
                         "bit-identical to the original's" % where)
                sy = M.snapshot(env, y2)
                for f, a, b in zip(M.DICT_FIELDS, snap, sy):
                    ha = None if a is None else (a["shape"], a["hash"])
                    hb = None if b is None else (b["shape"], b["hash"])
                    if ha != hb:
                        fail("twin_content", "%s: %s of the restored twin is not bit-identical to the original's"
                             % (where, f))
                        break
        # ---- the property at this stage
        try:
            y = R.from_dict(x.to_dict())
        except Exception as e:  # noqa: BLE001
            fail(refused_key(e, mcheck(i)), "%s: from_dict(to_dict(x)) raises %s: %s" % (where, type(e).__name__, str(e)[:80]))
            y = None
        if y is not None:
            twin["ok_roundtrips"] += 1
            check_restored(env, x, y, where + " via dict", fail)
        if rng.random() < file_prob:
            try:
                z = M.file_roundtrip(env, x, compress=bool(rng.random() < 0.5))
            except Exception as e:  # noqa: BLE001
                fail(refused_key(e, mcheck(i)), "%s: from_read(write(x)) raises %s: %s" % (where, type(e).__name__, str(e)[:80]))
                z = None
            if z is not None:
                check_restored(env, x, z, where + " via file", fail)
                count("file_roundtrips")
        # ---- fork the twin here
        if i == fork_at:
            try:
                twin["y"] = R.from_dict(x.to_dict()) if fork_via == "dict" else M.file_roundtrip(env, x)
                count("twin_via_%s" % fork_via)
            except Exception:  # noqa: BLE001  already reported above
                twin["y"] = None

    r = dict(compared=0, classes=[])
    try:
        r = M.run_history(env, ops, reg, out, tag, "h", hook=hook)
        # observations of the twin: compare collect results by running the collect ops again on both
        if twin["y"] is not None:
            for rid in (1, 2):
                ox = M.apply_op(env, r["x"], ("collect", rid, False))
                oy = M.apply_op(env, twin["y"], ("collect", rid, False))
                if ox[0] != oy[0]:
                    fail("twin_class", "final collect: twin %s, original %s" % (oy[0], ox[0]))
                elif ox[1] is not None and M.h_arr(ox[1]) != M.h_arr(oy[1]):
                    fail("twin_content", "final collect: receiver curve of the twin is not bit-identical")
    finally:
        shutil.rmtree(env.tmpdir, ignore_errors=True)
    out["traces"] = r["compared"]
    if r["compared"] >= 8 and twin["ok_roundtrips"] >= 3 and "Ok" in [c for o, c in zip(ops, r["classes"]) if o[0] == "exch"]:
        out["nontrivial"].append(case_hash(tag))
    return out


# --------------------------------------------------------------------------
# Kang engine: a completed simulation round-trips
# --------------------------------------------------------------------------
def kang_case(spec):
    from props import C19
    rng = np.random.default_rng([spec["seed"], spec["idx"]])
    out = {"evaluations": 1, "mismatches": [], "prop_failures": [], "dist": {"kang": 1}, "nontrivial": []}
    cfg = C19.draw_cfg(rng)
    radi, source, receiver = C19.build(cfg)
    tag = dict(seed=spec["seed"], idx=spec["idx"], kind="kang", dims=cfg["dims"], ps=cfg["ps"], K=cfg["K"])
    out["sample"] = tag
    radi.run(source)
    ref = np.array(radi.energy_at_receiver(receiver))
    tmpdir = os.path.join(common.TMP, "c15k_%d_%d" % (os.getpid(), spec["idx"]))
    os.makedirs(tmpdir, exist_ok=True)

    def fail(test, what):
        out["prop_failures"].append(dict(test=test, what=what, case=tag))

    try:
        for path in ("dict", "file"):
            try:
                if path == "dict":
                    r2 = RadiosityKang.from_dict(radi.to_dict())
                else:
                    fn = os.path.join(tmpdir, "kang.far")
                    radi.write(fn, compress=bool(rng.random() < 0.5))
                    r2 = RadiosityKang.from_read(fn)
                    os.remove(fn)
            except Exception as e:  # noqa: BLE001
                fail("kang_restore_raises", "Kang %s round trip raises %s: %s" % (path, type(e).__name__, str(e)[:80]))
                continue
            for pa, pb in zip(radi.patch_list, r2.patch_list):
                if M.h_arr(pa.E_matrix) != M.h_arr(pb.E_matrix):
                    fail("kang_E_matrix", "Kang %s round trip: E_matrix of wall %s not bit-identical" % (path, pa.wall_id))
                    break
            try:
                got = np.array(r2.energy_at_receiver(receiver))
                if M.h_arr(got) != M.h_arr(ref):
                    fail("kang_energy_at_receiver", "Kang %s round trip: energy_at_receiver differs" % path)
            except Exception as e:  # noqa: BLE001
                fail("kang_energy_at_receiver", "Kang %s round trip: energy_at_receiver raises %s" % (path, type(e).__name__))
    finally:
        shutil.rmtree(tmpdir, ignore_errors=True)
    if np.any(ref != 0):
        out["nontrivial"].append(case_hash(tag))
    return out


def any_case(spec):
    return kang_case(spec) if spec.get("kind") == "kang" else case(spec)


def run(res):
    quick = res.tier == "quick"
    n, nk = (48, 8) if quick else (900, 80)
    specs = [dict(seed=res.seed, idx=i, kind="sequence") for i in range(n)]
    specs += [dict(seed=res.seed, idx=5000 + i, kind="kang") for i in range(nk)]
    for r in fw.run_parallel(any_case, specs):
        res.absorb(r)
    res.rule = ("shoebox rooms of 6-14 patches, 1-3 bands, 1-8 directions, non-uniform random tables, m > 0; random "
                "op sequences of 8-30 calls: setter orders (1-6 wall groups, overwritten tables, a table with another "
                "direction count, rejected setters, no / partial materials), stage prefixes, swapped / dropped / "
                "repeated stages, re-source, exchange with and without recalculate under three timings, late "
                "setters, 1-3 dictionary / file round trips inside the sequence; after EVERY call "
                "from_dict(to_dict(x)) (30 % also from_read(write(x))) is evaluated and from a random point on a "
                "restored twin executes the remaining calls next to the original; plus completed RadiosityKang "
                "simulations; non-trivial = >= 8 compared calls, >= 3 successful restores and a successful "
                "energy exchange; distinct by case hash")
    res.not_carried = NOT_CARRIED
    res.assumptions = [
        "the geometry descriptor handed to the model (n_walls = 6, n_patches, number of visible pairs) is computed "
        "by the harness from the room dimensions, independently of the implementation",
        "caller data with equal ids are the same Python objects in every run of a case (tables, attenuation, "
        "directions, sources, receivers, timings); different ids carry different values",
        "content hashes normalise the integer width (visible_patches is int32 before and int64 after a restore)",
        "runs stop being compared at the first call for which the model answers Unspec (stale cached arrays of "
        "unfitting dimensions); the count is in input_distribution.model_unspecified",
    ]


def replay(res, payload):
    done = set()
    for f in payload.get("failures", []) + payload.get("correspondence", []):
        c = f.get("case", {})
        key = (c.get("seed"), c.get("idx"), c.get("kind"))
        if None in key or key in done:
            continue
        done.add(key)
        res.absorb(any_case(dict(seed=key[0], idx=key[1], kind=key[2])))
