"""C02 -- energy arrives at its time of flight and is never wrapped around the histogram."""
import numpy as np
import pyfar as pf

from common import Tok, run_driver, floats, ints, cmp_float, cmp_exact, case_hash, ulp_dist
import framework as fw
import scenes as S
import pipeline as P

NOT_CARRIED = [
    "receiver stage: 'never re-appears at the start' is refuted for the faithful model of "
    "_collect_receiver_energy (np.roll) -- C02_receiver_wrap_refuted; proved only for histograms the "
    "delayed energy fits into (C02_receiver_stage_partial); listed as known finding C02/receiver_wrap",
    "the sharper geometric claim that in a convex room a path with k >= 1 patch legs arrives later than the "
    "direct bin (not just later than direct bin - k) needs detour lengths and is exercised by the search only",
]


def scene_case(spec):
    rng = np.random.default_rng([spec["seed"], spec["idx"]])
    out = {"evaluations": 1, "mismatches": [], "prop_failures": [], "dist": {}, "nontrivial": []}
    mode = spec["mode"]
    cfg = S.draw_config(rng, nb=int(rng.integers(1, 3)), multi_dir=(spec["idx"] % 4 == 3), att_zero=rng.random() < 0.5,
                        max_patches=spec["max_patches"])
    K = int(rng.integers(1, 4))
    radi = S.build(cfg)
    src = S.draw_inside(rng, cfg["dims"])
    recs = [S.draw_inside(rng, cfg["dims"])]
    c, dt, dur = P.draw_timing(rng, cfg, K, mode, radi, src, recs)
    tag = dict(dims=cfg["dims"], patch_size=cfg["patch_size"], n_patches=cfg["n_patches"],
               src=src.tolist(), rec=recs[0].tolist(), c=c, dt=dt, dur=dur, K=K, mode=mode,
               nt=cfg["nt"], nphi=cfg["nphi"], seed=spec["seed"], idx=spec["idx"])
    out["sample"] = tag
    out["dist"]["window_" + mode] = 1
    out["dist"]["order_%d" % K] = 1
    N = int(dur / dt)

    impl = P.impl_pipeline(radi, src, c, dt, dur, K, recs)
    tok = P.model_session(radi, src, c, dt, dur, K, recs)
    mism, mu = P.compare_stages(radi, impl, run_driver(tok), K, recs, dur, dt, src=src)
    out["max_ulp"] = mu
    out["traces"] = 1
    for m in mism:
        if m.get("rejected"):
            out["rejected"] = out.get("rejected", 0) + 1
            continue
        m.update(case=tag)
        out["mismatches"].append(m)

    centers = radi.patches_center
    d0 = np.linalg.norm(centers - src, axis=1)
    bin0 = (d0 / c / dt).astype(int)
    svis = radi._source_visibility
    etc = impl["etc"]
    truncated_patch = bool(np.any(bin0[svis] >= N))
    # order 0: exactly the source->patch bin
    radi.calculate_energy_exchange(c, dt, dur, 0, recalculate=True)
    e0h = radi._energy_exchange_etc
    for j in range(radi.n_patches):
        nz = np.nonzero(np.abs(e0h[j]).sum(axis=(0, 1)))[0]
        ok = (len(nz) == 0) or (len(nz) == 1 and nz[0] == bin0[j])
        if not ok:
            out["prop_failures"].append(dict(test="order0_bin", patch=j, bins=nz.tolist(), expected=int(bin0[j]),
                                             case=tag, what="order-0 energy outside the source->patch bin"))
            break
    # no patch shows energy before sound from the source can reach it (k truncated legs lose < k bins)
    for j in range(radi.n_patches):
        first_allowed = max(0, int(bin0[j]) - K)
        if np.any(etc[j, :, :, :min(first_allowed, N)] != 0):
            out["prop_failures"].append(dict(test="patch_early", patch=j, case=tag,
                                             what="patch shows energy before the source can reach it"))
            break
    # shortening the histogram: the short run is the prefix of the long one (dropped, never wrapped)
    Ns = int(rng.integers(max(2, N // 3), max(3, N - 1)))
    dur_s = (Ns + 0.5) * dt
    short = P.impl_pipeline(radi, src, c, dt, dur_s, K, recs)
    if short["etc"].shape[-1] != Ns or not np.array_equal(short["etc"], etc[..., :Ns]):
        out["prop_failures"].append(dict(test="patch_prefix", n_short=Ns, n_long=N, case=tag,
                                         what="patch histogram of a shorter run is not the prefix of the longer run "
                                              "(energy beyond the end re-appears or is misplaced)"))
    # receiver: the same prefix law; and nothing before the direct path (minus k bins of truncation slack)
    D = float(np.linalg.norm(recs[0] - src))
    dbin = int(D / c / dt)
    dr = np.linalg.norm(centers - recs[0], axis=1)
    rbin = np.ceil(dr / c / dt).astype(int)
    # does the delayed patch energy fit? (last rbin[k] bins of the patch histogram empty)
    fits = all(rbin[k] < N and not np.any(etc[k, :, :, N - rbin[k]:] != 0) for k in range(radi.n_patches))
    out["dist"]["receiver_fits" if fits else "receiver_overflows"] = 1
    if truncated_patch:
        out["dist"]["source_bin_beyond_end"] = 1
    mono = impl["mono"][0]
    if fits:
        if np.any(mono[:, :max(0, min(dbin - K, N))] != 0):
            out["prop_failures"].append(dict(test="receiver_early", case=tag,
                                             what="receiver shows energy earlier than the direct path"))
    if not np.array_equal(short["mono"][0], mono[..., :Ns]):
        # the expected first bins of the short run: delayed patch histograms with zero fill
        out["prop_failures"].append(dict(test="receiver_wrap", n_short=Ns, n_long=N, case=tag,
                                         what="receiver curve of a shorter run is not the prefix of the longer run: "
                                              "energy delayed beyond the end re-appears at the start (np.roll)"))
    if mode != "long" and K >= 1:
        out["nontrivial"].append(case_hash(tag))
    return out


def wrap_witness(spec):
    """deterministic witness of the known finding C02/receiver_wrap: one patch-to-receiver
    delay longer than the histogram"""
    out = {"evaluations": 1, "mismatches": [], "prop_failures": [], "dist": {"wrap_witness": 1}, "nontrivial": []}
    cfg = dict(dims=[2.0, 3.0, 2.5], patch_size=1.0, n_patches=0, nb=1, freqs=np.array([1000.0]),
               alpha=np.full((6, 1), 0.2), att=np.zeros(1), nt=0, nphi=0, random_tables=False,
               offset=(0.0, 0.0, 0.0), table_seed=0)
    radi = S.build(cfg)
    src = np.array([0.6, 0.7, 0.8]); rec = np.array([1.5, 2.4, 1.9])
    c, dt = 343.0, 0.001
    tag = dict(witness="receiver_wrap", src=src.tolist(), rec=rec.tolist(), c=c, dt=dt)
    long_ = P.impl_pipeline(radi, src, c, dt, 0.0405, 2, [rec])
    short = P.impl_pipeline(radi, src, c, dt, 0.0105, 2, [rec])
    Ns = short["mono"].shape[-1]
    if not np.array_equal(short["mono"][0], long_["mono"][0][..., :Ns]):
        out["prop_failures"].append(dict(test="receiver_wrap", case=tag,
                                         first_bins=short["mono"][0][0, :4].tolist(),
                                         what="receiver curve wraps (np.roll) for a 10-bin histogram"))
    out["sample"] = tag
    out["nontrivial"].append(case_hash(tag))
    return out


def prim_case(spec):
    """delay arithmetic and shift primitives"""
    rng = np.random.default_rng([spec["seed"], 9000 + spec["idx"]])
    out = {"evaluations": 1, "mismatches": [], "prop_failures": [], "dist": {"primitive": 1}, "nontrivial": []}
    d = float(rng.uniform(0, 40)); c = float(rng.uniform(300, 360)); dt = float(10 ** rng.uniform(-4, -1))
    if S.near_int_delay([d], c, dt):
        out["rejected"] = 1
        return out
    tok = Tok().cmd("q_delays").f(d).f(c).f(dt)
    N = int(rng.integers(1, 30)); sh = int(rng.integers(0, 40)); h = rng.random(N)
    tok.cmd("q_shift").i(N).i(sh).arr(h)
    res = run_driver(tok)
    fl, ce = ints(res[0][1])
    if fl != int(d / c / dt) or ce != int(np.ceil(d / c / dt)):
        out["mismatches"].append(dict(stage="delay bins", what="impl (%d,%d) model (%d,%d)" % (
            int(d / c / dt), int(np.ceil(d / c / dt)), fl, ce), case=dict(d=d, c=c, dt=dt)))
    from sparrowpy.classes.RadiosityKang import _add_delay
    m = cmp_float(_add_delay(h, sh), floats(res[1][1]), what="_add_delay")
    if m:
        out["mismatches"].append(dict(stage="_add_delay", what=m, case=dict(N=N, shift=sh, seed=spec["seed"], idx=spec["idx"])))
    out["traces"] = 1
    if sh > 0:
        out["nontrivial"].append(case_hash(d, c, dt, N, sh))
    out["sample"] = dict(d=d, c=c, dt=dt, N=N, shift=sh)
    return out


def run(res):
    quick = res.tier == "quick"
    n_scene = 12 if quick else 400
    modes = ["short", "tiny", "long", "short"]
    specs = [dict(seed=res.seed, idx=i, mode=modes[i % 4], max_patches=(20 if quick else 36)) for i in range(n_scene)]
    for r in fw.run_parallel(scene_case, specs):
        res.absorb(r)
    for r in fw.run_parallel(wrap_witness, [{}]):
        res.absorb(r)
    for r in fw.run_parallel(prim_case, [dict(seed=res.seed, idx=i) for i in range(60 if quick else 1500)], workers=8):
        res.absorb(r)
    import props.C19 as C19
    # Kang engine: a second run of the same object for another source must not keep energy of the
    # first run (patches would show energy before the active source can reach them)
    for r in fw.run_parallel(C19.rerun_case, [dict(seed=res.seed, idx=i) for i in range(4 if quick else 40)]):
        res.absorb(r)
    # Kang engine, every leg (incl. the patch->receiver leg with the simulation's own speed of sound
    # and sampling rate): the C19 scene cases compare all orders and the receiver response with the
    # model and with an independent recomputation of the bins
    for r in fw.run_parallel(C19.scene_case, [dict(seed=res.seed + 3, idx=i, quick=True) for i in range(24 if quick else 240)]):
        res.absorb(r)
    # time of flight through the patch-to-patch legs, coarse resolutions (pairs closer than one bin):
    # C03's scenes compare the patch histograms bin by bin with an independently written solver
    import props.C03 as C03
    c3 = [dict(seed=res.seed + 11, idx=4 * i + 2, kind=("poly" if i % 2 else "box"), max_patches=(16 if quick else 30))
          for i in range(6 if quick else 80)]
    for r in fw.run_parallel(C03.scene_case, c3):
        res.absorb(r)
    # direct sound of several receivers in one call when an earlier listed one is beyond the histogram end
    import props.C11 as C11
    for r in fw.run_parallel(C11.direct_range_case, [dict(seed=res.seed + 2, idx=i) for i in range(6 if quick else 80)]):
        res.absorb(r)
    import props.C01 as C01
    for r in fw.run_parallel(C01.kernel_case, [dict(seed=res.seed + 1, idx=i) for i in range(30 if quick else 400)]):
        res.absorb(r)
    res.rule = ("shoebox scenes with windows 'short' (shorter than the tail), 'tiny' (shorter than some first "
                "arrivals) and 'long'; one receiver; orders 1-3; plus delay/shift primitives and synthetic "
                "_energy_exchange inputs with source bins beyond the end; non-trivial = truncating window with "
                "order >= 1 (scenes), positive shift (primitives), K >= 1 with a visible pair (kernel)")
    res.not_carried = NOT_CARRIED
    res.assumptions = ["near-integer delay arguments (within 1e-7) are re-drawn: the property itself excludes the "
                       "rounding edge"]


def replay(res, payload):
    for f in payload.get("failures", []) + payload.get("correspondence", []):
        case = f.get("case", {})
        import props.C19 as C19
        import props.C01 as C01
        if case.get("direct_range"):
            import props.C11 as C11
            res.absorb(fw.run_parallel(C11.direct_range_case, [dict(seed=case["seed"], idx=case["idx"])])[0])
        elif "shape" in case and "kind" in case:
            import props.C03 as C03
            res.absorb(C03.scene_case(dict(seed=case["seed"], idx=case["idx"], kind=case["kind"], max_patches=30)))
        elif "mode" in case:
            res.absorb(scene_case(dict(seed=case["seed"], idx=case["idx"], mode=case["mode"], max_patches=36)))
        elif case.get("witness"):
            res.absorb(wrap_witness({}))
        elif C19.replay_case(res, case):
            pass
        elif "N" in case and "shift" in case:
            res.absorb(prim_case(dict(seed=case["seed"], idx=case["idx"])))
        elif "seed" in case and "idx" in case:
            res.absorb(C01.kernel_case(dict(seed=case["seed"], idx=case["idx"])))
