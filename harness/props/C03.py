"""C03 -- patch histograms equal an independent solution of the radiosity recursion."""
import numpy as np
import pyfar as pf

from common import run_driver, case_hash
import framework as fw
import scenes as S
import pipeline as P

NOT_CARRIED = [
    "'finite' is a floating-point notion: no theorem, checked by the correspondence (nan/inf never compare equal)",
    "the form factors and the visibility used by the reference solver are the baked ones (their own correctness "
    "is C05/C07); the source's solid-angle shares are recomputed with an independent formula",
    "C03_diffuse_sampling_independent (kept) asks 'pi*BRDF = rho(wall, band)' of ALL table indices; a table read "
    "beyond its end returns 0, so that hypothesis only admits reflectance 0 (C03_diffuse_forces_zero). The "
    "statement that carries clause (4) is C03_diffuse_sampling_independent_bounded (in-range table entries of "
    "each scene + shape condition on the tables) / C03_diffuse_sampling_independent_vis (entries the two models "
    "read); non-vacuity with 1x1 against 2x3 directions and reflectances 1/2 .. 1/5: Instances/NonVacuity.v",
]


def poly_from_tris(verts, faces):
    verts = np.array(verts, float)
    cen = verts.mean(axis=0)
    pts, nor, up = [], [], []
    for f in faces:
        p = verts[list(f)]
        n = np.cross(p[1] - p[0], p[2] - p[0])
        n /= np.linalg.norm(n)
        if np.dot(n, cen - p.mean(axis=0)) < 0:
            p = p[::-1].copy()
            n = -n
        pts.append(p)
        nor.append(n)
        u = p[1] - p[0]
        up.append(u / np.linalg.norm(u))
    return np.array(pts), np.array(nor), np.array(up)


def draw_polyhedron(rng):
    kind = rng.choice(["tetra", "octa", "box12"])
    if kind == "tetra":
        verts = [[0, 0, 0], [rng.uniform(1.5, 3), rng.uniform(-.2, .2), 0],
                 [rng.uniform(.2, .6), rng.uniform(1.5, 3), rng.uniform(0, .3)],
                 [rng.uniform(.4, .9), rng.uniform(.4, .9), rng.uniform(1.4, 2.6)]]
        faces = [(0, 1, 2), (0, 1, 3), (0, 2, 3), (1, 2, 3)]
    elif kind == "octa":
        a, b, c = rng.uniform(1, 2.5, 3)
        verts = [[a, 0, 0], [-a * rng.uniform(.8, 1.2), 0, 0], [0, b, 0], [0, -b * rng.uniform(.8, 1.2), 0],
                 [0, 0, c], [0, 0, -c * rng.uniform(.8, 1.2)]]
        faces = [(0, 2, 4), (2, 1, 4), (1, 3, 4), (3, 0, 4), (2, 0, 5), (1, 2, 5), (3, 1, 5), (0, 3, 5)]
    else:
        X, Y, Z = rng.uniform(1.2, 3.5, 3)
        verts = [[0, 0, 0], [X, 0, 0], [X, Y, 0], [0, Y, 0], [0, 0, Z], [X, 0, Z], [X, Y, Z], [0, Y, Z]]
        quads = [(0, 1, 2, 3), (4, 5, 6, 7), (0, 1, 5, 4), (3, 2, 6, 7), (0, 3, 7, 4), (1, 2, 6, 5)]
        faces = []
        for q in quads:
            faces += [(q[0], q[1], q[2]), (q[0], q[2], q[3])]
    verts = np.array(verts, float)
    return kind, verts, faces


def build_polyhedron(rng, nb, multi_dir, random_tables):
    import sparrowpy as sp
    kind, verts, faces = draw_polyhedron(rng)
    pts, nor, up = poly_from_tris(verts, faces)
    n = len(pts)
    radi = sp.DirectionalRadiosityFast(pts, nor, up, pts, n, np.arange(n))
    freqs = np.array([125.0 * 2 ** k for k in range(nb)])
    if multi_dir:
        din = S.gauss_hemisphere(int(rng.integers(1, 3)), int(rng.choice([2, 4])), phase=float(rng.uniform(.05, .7)))
    else:
        din = pf.Coordinates(0, 0, 1, weights=1)
    dout = din.copy()
    for w in range(n):
        if random_tables:
            t = rng.uniform(0, .6, (din.csize, dout.csize, nb)) / np.pi
        else:
            t = np.broadcast_to((1 - rng.uniform(0, 1, nb)) / np.pi, (din.csize, dout.csize, nb)).copy()
        radi.set_wall_brdf([w], pf.FrequencyData(t, freqs), din, dout)
    att = np.round(rng.uniform(0, .05, nb), 4)
    radi.set_air_attenuation(pf.FrequencyData(att, freqs))
    radi.bake_geometry()
    inside = verts.mean(axis=0) + rng.uniform(-.08, .08, 3)
    return radi, kind, verts, inside, att


def reference_solver(radi, src, c, dt, dur, K, att):
    """time-domain solver written from the statement; numpy-vectorised over the time axis"""
    cen = np.array([p.mean(axis=0) for p in radi.patches_points])
    n = len(cen)
    wall = np.asarray(radi._patch_to_wall_ids)
    ins = [d.cartesian for d in radi._brdf_incoming_directions]
    outs = [d.cartesian for d in radi._brdf_outgoing_directions]
    tables = [np.asarray(radi._brdf[radi._brdf_index[w]]) for w in range(len(ins))]
    nd = outs[0].shape[0]
    nb = len(att)
    N = int(dur / dt)
    F = P.full_ff(radi)
    V = radi.visibility_matrix | radi.visibility_matrix.T

    def nearest(dirs, v):
        return int(np.argmin(np.sum((dirs - v / np.linalg.norm(v)) ** 2, axis=1)))
    E = np.zeros((n, nd, nb, N))
    for i in range(n):
        d = np.linalg.norm(src - cen[i])
        share = P.solid_angle(src, radi.patches_points[i]) / (4 * np.pi)
        a = nearest(ins[wall[i]], src - cen[i])
        t = int(d / c / dt)
        if t < N:
            E[i, :, :, t] += share * np.exp(-att * d)[None, :] * tables[wall[i]][a]
    tot = E.copy()
    orders = [E.copy()]
    for _ in range(K):
        nxt = np.zeros_like(E)
        for i in range(n):
            for j in range(n):
                if i == j or not V[i, j]:
                    continue
                d = np.linalg.norm(cen[i] - cen[j])
                dl = int(d / c / dt)
                if dl >= N:
                    continue
                o = nearest(outs[wall[i]], cen[j] - cen[i])
                a = nearest(ins[wall[j]], cen[i] - cen[j])
                fac = F[i, j] * np.exp(-att * d)[None, :] * tables[wall[j]][a]      # (nd, nb)
                nxt[j, :, :, dl:] += fac[:, :, None] * E[i, o, :, :N - dl][None, :, :]
        E = nxt
        orders.append(E.copy())
        tot += E
    return tot, orders


def scene_case(spec):
    rng = np.random.default_rng([spec["seed"], spec["idx"]])
    out = {"evaluations": 1, "mismatches": [], "prop_failures": [], "dist": {}, "nontrivial": []}
    nb = int(rng.integers(1, 4))
    K = int(rng.integers(0, 5))
    kind = spec["kind"]
    multi = spec["idx"] % 3 != 0
    rand_t = spec["idx"] % 3 == 2
    given_problem = None
    if kind == "poly":
        radi, shape, verts, src, att = build_polyhedron(rng, nb, multi, rand_t)
        diag = float(np.linalg.norm(verts.max(axis=0) - verts.min(axis=0)))
        cfg = dict(dims=(verts.max(axis=0) - verts.min(axis=0)).tolist(), att=att)
    else:
        ua = float(np.round(rng.uniform(0.1, 0.6), 2)) if (spec["idx"] % 4 == 0 and not rand_t) else None
        cfg = S.draw_config(rng, nb=nb, multi_dir=multi, random_tables=rand_t, max_patches=spec["max_patches"],
                            uniform_alpha=ua)       # one material for all walls: one data object, six calls
        radi = S.build(cfg)
        src = S.draw_inside(rng, cfg["dims"])
        shape = "shoebox"
        given_problem = S.materials_in_force(radi, cfg)
        att = cfg["att"]
    mode = ["long", "short", "coarse", "tiny"][spec["idx"] % 4]
    c, dt, dur = P.draw_timing(rng, dict(dims=cfg["dims"]), K, mode, radi, src, [])
    tag = dict(shape=shape, n_patches=int(radi.n_patches), nb=nb, K=K, multi_dir=bool(multi), random_tables=bool(rand_t),
               src=np.asarray(src).tolist(), c=c, dt=dt, dur=dur, mode=mode, kind=kind,
               seed=spec["seed"], idx=spec["idx"])
    out["sample"] = tag
    if given_problem:
        out["prop_failures"].append(dict(test="given_material", case=tag, what="the materials in force are not the given ones: " + given_problem))
    for k in ["shape_" + shape, "order_%d" % K, "bands_%d" % nb, "window_" + mode,
              "tables_random" if rand_t else ("multi_dir_diffuse" if multi else "one_dir_diffuse")]:
        out["dist"][k] = 1
    impl = P.impl_pipeline(radi, src, c, dt, dur, K, [])
    tok = P.model_session(radi, src, c, dt, dur, K, [])
    mism, mu = P.compare_stages(radi, impl, run_driver(tok), K, [], dur, dt, src=src)
    out["max_ulp"] = mu
    out["traces"] = 1
    for m in mism:
        if m.get("rejected"):
            out["rejected"] = out.get("rejected", 0) + 1
            return out
        m.update(case=tag)
        out["mismatches"].append(m)
    etc = impl["etc"]
    if not np.all(np.isfinite(etc)) or np.any(etc < 0):
        out["prop_failures"].append(dict(test="finite_nonneg", case=tag, what="patch histogram has negative or non-finite values"))
    ties, other = P.scene_ties(radi, src, [])
    if (ties or other) and rand_t:
        out["rejected"] = out.get("rejected", 0) + 1
        return out
    ref, orders = reference_solver(radi, np.asarray(src), c, dt, dur, K, np.asarray(att))
    scale = max(float(np.abs(ref).max()), 1e-300)
    bad = np.abs(etc - ref) > 1e-9 * np.maximum(np.abs(ref), np.abs(etc)) + 1e-13 * scale
    if bad.any():
        idx = np.unravel_index(int(np.argmax(bad)), bad.shape)
        out["prop_failures"].append(dict(test="independent_solver", at=[int(x) for x in idx], impl=float(etc[idx]),
                                         ref=float(ref[idx]), n_bad=int(bad.sum()), case=tag,
                                         what="patch histogram differs from the independently written solver of the recursion"))
    # order K = order K-1 + non-negative contribution
    if K >= 1:
        radi.calculate_energy_exchange(c, dt, dur, K - 1, recalculate=True)
        prev = radi._energy_exchange_etc
        if np.any(etc - prev < -1e-12 * scale):
            out["prop_failures"].append(dict(test="order_step", case=tag,
                                             what="result for order K is not the result for order K-1 plus a non-negative term"))
    # diffuse: independent of the number of sampled directions
    if kind == "box" and multi and not rand_t:
        cfg1 = dict(cfg); cfg1["nt"] = 0; cfg1["nphi"] = 0
        r1 = S.build(cfg1)
        i1 = P.impl_pipeline(r1, src, c, dt, dur, K, [])
        one = i1["etc"][:, 0]
        for d in range(etc.shape[1]):
            if np.any(np.abs(etc[:, d] - one) > 1e-9 * np.maximum(np.abs(one), np.abs(etc[:, d])) + 1e-13 * scale):
                out["prop_failures"].append(dict(test="diffuse_sampling", slot=d, case=tag,
                                                 what="diffuse result depends on the number of sampled directions"))
                break
        out["dist"]["diffuse_resampled"] = 1
    if K >= 1:
        out["nontrivial"].append(case_hash(tag))
    return out



def full_case(spec):
    """end-to-end: wall polygons -> composed model (Model/Full.v) vs from_polygon ... mono"""
    import fullroom
    rng = np.random.default_rng([spec["seed"], 70000 + spec["idx"]])
    out = {"evaluations": 1, "mismatches": [], "prop_failures": [], "dist": {"end_to_end_from_polygons": 1}, "nontrivial": []}
    nb = int(rng.integers(1, 3))
    cfg = S.draw_config(rng, nb=nb, multi_dir=(spec["idx"] % 2 == 1), random_tables=(spec["idx"] % 4 == 3),
                        max_patches=spec["max_patches"], offset=(spec["idx"] % 3 == 0))
    K = int(rng.integers(1, 3))
    radi0 = S.build(cfg, bake=False)
    src = S.draw_inside(rng, cfg["dims"], off=cfg["offset"])
    recs = [S.draw_inside(rng, cfg["dims"], off=cfg["offset"])]
    c, dt, dur = P.draw_timing(rng, cfg, K, ["long", "coarse", "short"][spec["idx"] % 3], radi0, src, recs)
    tag = dict(full=True, dims=cfg["dims"], patch_size=cfg["patch_size"], n_patches=cfg["n_patches"], nb=nb,
               nt=cfg["nt"], offset=list(cfg["offset"]), src=src.tolist(), rec=recs[0].tolist(), c=c, dt=dt, dur=dur, K=K,
               seed=spec["seed"], idx=spec["idx"])
    out["sample"] = tag
    info = {}
    mism, mu, rejected = fullroom.full_case(cfg, src, recs, c, dt, dur, K, info=info)
    # the model computes the Nusselt branch itself (no form-factor value of /repo is an input)
    out["dist"]["full_nusselt_pairs_computed_by_model"] = info.get("nusselt_pairs", 0)
    out["dist"]["full_stokes_pairs_computed_by_model"] = info.get("visible_pairs", 0) - info.get("nusselt_pairs", 0)
    if info.get("nusselt_pairs"):
        out["dist"]["full_nusselt_dev_rel_1e%+03d" % int(np.ceil(np.log10(max(info["nusselt_max_rel"], 1e-17))))] = 1
    if rejected:
        out["rejected"] = 1
        return out
    out["max_ulp"] = mu
    out["traces"] = 1
    for m in mism:
        m.update(case=tag)
        out["mismatches"].append(m)
    out["nontrivial"].append(case_hash(tag))
    return out

def run(res):
    quick = res.tier == "quick"
    n = 16 if quick else 320
    specs = [dict(seed=res.seed, idx=i, kind=("poly" if i % 2 else "box"), max_patches=(16 if quick else 30)) for i in range(n)]
    for r in fw.run_parallel(scene_case, specs):
        res.absorb(r)
    for r in fw.run_parallel(full_case, [dict(seed=res.seed, idx=i, max_patches=(14 if quick else 26)) for i in range(8 if quick else 160)]):
        res.absorb(r)
    res.rule = ("alternating shoeboxes (from_polygon) and closed polyhedra built from triangles through the constructor "
                "(tetrahedra, octahedra, 12-triangle boxes); 1-3 bands, orders 0-4, one-direction / multi-direction "
                "diffuse / direction-dependent random tables, long and short windows; non-trivial = order >= 1")
    res.not_carried = NOT_CARRIED
    res.assumptions = ["lookup near-ties make a direction-dependent scene a near-decision input (re-drawn/rejected)"]


def replay(res, payload):
    for f in payload.get("failures", []) + payload.get("correspondence", []):
        case = f.get("case", {})
        if case.get("full"):
            res.absorb(full_case(dict(seed=case["seed"], idx=case["idx"], max_patches=26)))
        else:
            res.absorb(scene_case(dict(seed=case["seed"], idx=case["idx"], kind=case["kind"], max_patches=30)))
