"""C12 -- frequency bands are simulated independently."""
import numpy as np
import pyfar as pf

from common import run_driver, case_hash
import framework as fw
import scenes as S
import pipeline as P

NOT_CARRIED = []


def sub_config(cfg, b):
    c2 = dict(cfg)
    c2["nb"] = 1
    c2["freqs"] = cfg["freqs"][b:b + 1]
    c2["alpha"] = cfg["alpha"][:, b:b + 1]
    c2["att"] = cfg["att"][b:b + 1]
    c2["band_of_parent"] = b
    return c2


def build_band(cfg, b):
    """single-band object carrying band b of the multi-band configuration"""
    import sparrowpy as sp
    walls = S.shoebox(*cfg["dims"], off=cfg["offset"])
    radi = sp.DirectionalRadiosityFast.from_polygon(walls, cfg["patch_size"])
    din, dout = S.directions(cfg)
    for w in range(6):
        tab = S.wall_table(cfg, w, din.csize, dout.csize)[:, :, b:b + 1]
        radi.set_wall_brdf([w], pf.FrequencyData(tab, cfg["freqs"][b:b + 1]), din, dout)
    radi.set_air_attenuation(pf.FrequencyData(cfg["att"][b:b + 1], cfg["freqs"][b:b + 1]))
    radi.bake_geometry()
    return radi


def scene_case(spec):
    rng = np.random.default_rng([spec["seed"], spec["idx"]])
    out = {"evaluations": 1, "mismatches": [], "prop_failures": [], "dist": {}, "nontrivial": []}
    nb = int(rng.integers(2, 7))
    cfg = S.draw_config(rng, nb=nb, multi_dir=(spec["idx"] % 3 == 1), random_tables=(spec["idx"] % 3 == 2),
                        max_patches=spec["max_patches"])
    K = int(rng.integers(1, 3))
    radi = S.build(cfg)
    src = S.draw_inside(rng, cfg["dims"])
    recs = [S.draw_inside(rng, cfg["dims"])]
    tmode = ["long", "short", "coarse"][spec["idx"] % 3]
    c, dt, dur = P.draw_timing(rng, cfg, K, tmode, radi, src, recs)
    tag = dict(dims=cfg["dims"], patch_size=cfg["patch_size"], n_patches=cfg["n_patches"], nb=nb,
               nt=cfg["nt"], nphi=cfg["nphi"], random_tables=cfg["random_tables"],
               att=cfg["att"].tolist(), src=src.tolist(), rec=recs[0].tolist(), c=c, dt=dt, dur=dur, K=K,
               seed=spec["seed"], idx=spec["idx"])
    out["sample"] = tag
    out["dist"]["bands_%d" % nb] = 1
    out["dist"]["window_" + tmode] = 1
    out["dist"]["tables_random" if cfg["random_tables"] else ("multi_dir" if cfg["nt"] else "lambert_1dir")] = 1

    impl = P.impl_pipeline(radi, src, c, dt, dur, K, recs, direct=True)
    tok = P.model_session(radi, src, c, dt, dur, K, recs, direct=True)
    mism, mu = P.compare_stages(radi, impl, run_driver(tok), K, recs, dur, dt, src=src)
    out["max_ulp"] = mu
    out["traces"] = 1
    for m in mism:
        if m.get("rejected"):
            out["rejected"] = out.get("rejected", 0) + 1
            continue
        m.update(case=tag)
        out["mismatches"].append(m)
    multi = dict(tilde=radi._form_factors_tilde.copy(), e0=radi._energy_init_source.copy(),
                 etc=impl["etc"], pw=impl["patchwise"], mono=impl["mono"])
    # each band alone
    bands = range(nb) if nb <= 3 else sorted(rng.choice(nb, 3, replace=False).tolist())
    for b in bands:
        r1 = build_band(cfg, b)
        i1 = P.impl_pipeline(r1, src, c, dt, dur, K, recs, direct=True)
        pairs = [("form_factors_tilde", multi["tilde"][..., b], r1._form_factors_tilde[..., 0]),
                 ("energy_init_source", multi["e0"][..., b], r1._energy_init_source[..., 0]),
                 ("energy_exchange_etc", multi["etc"][:, :, b, :], i1["etc"][:, :, 0, :]),
                 ("patchwise", multi["pw"][:, :, b, :], i1["patchwise"][:, :, 0, :]),
                 ("mono", multi["mono"][:, b, :], i1["mono"][:, 0, :])]
        for name, a, bb in pairs:
            if not np.array_equal(a, bb):
                diff = float(np.max(np.abs(a - bb)))
                out["prop_failures"].append(dict(test="band_alone", stage=name, band=int(b), maxdiff=diff, case=tag,
                                                 what="band %d of the multi-band run differs from the single-band run at stage %s" % (b, name)))
                break
    if len(set(np.round(cfg["att"], 9))) > 1 or cfg["random_tables"] or len({tuple(np.round(cfg["alpha"][:, b], 9)) for b in range(nb)}) > 1:
        out["nontrivial"].append(case_hash(tag))
    return out


def run(res):
    quick = res.tier == "quick"
    specs = [dict(seed=res.seed, idx=i, max_patches=(16 if quick else 30)) for i in range(12 if quick else 240)]
    for r in fw.run_parallel(scene_case, specs):
        res.absorb(r)
    # the same law in the Kang engine (RadiosityKang / PatchesKang): scene cases of C19 -- all orders and
    # the receiver response against the model, plus their independent oracles
    import props.C19 as C19
    for r in fw.run_parallel(C19.scene_case, [dict(seed=res.seed + 6, idx=i, quick=True) for i in range(16 if quick else 160)]):
        res.absorb(r)
    # ... and a Kang object run a second time (another source first) must equal a fresh object, in every band
    for r in fw.run_parallel(C19.rerun_case, [dict(seed=res.seed + 9, idx=i) for i in range(4 if quick else 40)]):
        res.absorb(r)
    res.rule = ("shoebox scenes with 2-6 bands, band-dependent absorption / random tables / attenuation; the "
                "multi-band run is compared with the model and, band by band (up to 3 bands per scene), with "
                "single-band objects carrying only that band; non-trivial = the bands actually differ")
    res.not_carried = NOT_CARRIED
    res.assumptions = ["same as C01: geometry kernels enter the pipeline model as data"]


def replay(res, payload):
    for f in payload.get("failures", []) + payload.get("correspondence", []):
        case = f.get("case", {})
        import props.C19 as C19
        if C19.replay_case(res, case):
            continue
        res.absorb(scene_case(dict(seed=case["seed"], idx=case["idx"], max_patches=30)))
